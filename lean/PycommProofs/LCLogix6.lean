/-
  Helper lemmas for C17 over histories with LogixDriver reads and writes.  Part 6: the invariant `lcl_Mid` of
  LCLogix4.lean along the request builders (LCLogix5.lean), the fragment loops, `_send_requests`, and a whole
  `read` / `write`: a call turns `lcl_SeqB B` into `lcl_SeqB (B + 3 * (number of requests) + 1)`.
-/
import PycommProofs.LCLogix4
import PycommProofs.LCLogix5
import PycommProofs.LCLogix2
import PycommProofs.LCLogix7
namespace Pycomm.Lgx.Drv
open Pycomm.Tgt Pycomm.Path Pycomm.Reply

/-! ### the pool after a run of draws -/

/-- the pool of the numbers `M` (newest first): ages 1, 2, … -/
def lcl_poolRev : List Nat → List (Nat × Nat)
  | [] => []
  | s :: older => (s, 1) :: (lcl_poolRev older).map (fun p => (p.1, p.2 + 1))

/-- the pool after drawing `L` (oldest first) -/
def lcl_poolOf (L : List Nat) : List (Nat × Nat) := lcl_poolRev L.reverse

theorem lcl_poolOf_snoc (L : List Nat) (s : Nat) :
    lcl_poolOf (L ++ [s]) = (s, 1) :: (lcl_poolOf L).map (fun p => (p.1, p.2 + 1)) := by
  simp [lcl_poolOf, lcl_poolRev]

theorem lcl_Mid_draws {σ} {D : Nat} {d d' : Cli.Drv} {L : List Nat} (h : lcl_Draws d L d') :
    ∀ (w : Cli.World σ), w.drv = d → Cli.lcl_Mid D w [] → D + L.length ≤ 65534 →
      Cli.lcl_Mid (D + L.length) ({ w with drv := d' } : Cli.World σ) (lcl_poolOf L) := by
  induction h with
  | nil =>
    intro w hw hm _
    subst hw
    exact hm
  | snoc _ ih =>
    intro w hw hm hb
    simp only [List.length_append, List.length_cons, List.length_nil, Nat.zero_add] at hb ⊢
    have h1 := ih w hw hm (by omega)
    have h2 := Cli.lcl_Mid_draw h1 (by omega)
    rw [lcl_poolOf_snoc]
    exact h2

theorem lcl_poolRev_sub (M T : List Nat) (h : T.Sublist M) :
    ∃ P : List (Nat × Nat), P.Sublist (lcl_poolRev M) ∧ P.map (·.1) = T := by
  induction h with
  | slnil => exact ⟨[], List.Sublist.refl _, rfl⟩
  | @cons T M a _ ih =>
    obtain ⟨P, h1, h2⟩ := ih
    refine ⟨P.map (fun p => (p.1, p.2 + 1)), (h1.map _).cons _, ?_⟩
    rw [List.map_map, ← h2]
    rfl
  | @cons_cons T M a _ ih =>
    obtain ⟨P, h1, h2⟩ := ih
    refine ⟨(a, 1) :: P.map (fun p => (p.1, p.2 + 1)), (h1.map _).cons_cons _, ?_⟩
    rw [List.map_cons, List.map_map, ← h2]
    rfl

/-- every age in the pool is at most `A` -/
def lcl_PoolLe (A : Nat) (pool : List (Nat × Nat)) : Prop := ∀ p ∈ pool, p.2 ≤ A

theorem lcl_PoolLe_mono {A A' : Nat} {pool : List (Nat × Nat)} (h : lcl_PoolLe A pool) (ha : A ≤ A') : lcl_PoolLe A' pool :=
  fun p hp => Nat.le_trans (h p hp) ha

theorem lcl_PoolLe_sub {A : Nat} {pool pool' : List (Nat × Nat)} (h : lcl_PoolLe A pool) (hs : pool'.Sublist pool) :
    lcl_PoolLe A pool' := fun p hp => h p (hs.subset hp)

theorem lcl_poolRev_le (M : List Nat) : lcl_PoolLe M.length (lcl_poolRev M) := by
  induction M with
  | nil => intro p hp; cases hp
  | cons s older ih =>
    intro p hp
    simp only [lcl_poolRev, List.mem_cons, List.mem_map] at hp
    rcases hp with rfl | ⟨q, hq, rfl⟩
    · simp
    · have := ih q hq
      simp only [List.length_cons]
      omega

theorem lcl_poolOf_le (L : List Nat) : lcl_PoolLe L.length (lcl_poolOf L) := by
  have := lcl_poolRev_le L.reverse
  rw [List.length_reverse] at this
  exact this

/-- from the pool of all draws to a pool for the numbers the packets send -/
theorem lcl_Mid_pool {σ} {D : Nat} {w : Cli.World σ} {L S seqs : List Nat} (hm : Cli.lcl_Mid D w (lcl_poolOf L))
    (hS : S.Sublist L) (hp : S.Perm seqs) :
    ∃ P : List (Nat × Nat), Cli.lcl_Mid D w P ∧ (P.map (·.1)).Perm seqs ∧ lcl_PoolLe L.length P := by
  obtain ⟨P, h1, h2⟩ := lcl_poolRev_sub L.reverse S.reverse hS.reverse
  refine ⟨P, Cli.lcl_Mid_sub hm h1, ?_, lcl_PoolLe_sub (lcl_poolOf_le L) h1⟩
  rw [h2]
  exact (List.reverse_perm S).trans hp

/-- taking the entry of a number the pool must contain -/
theorem lcl_pool_take (pool : List (Nat × Nat)) (s : Nat) (X : List Nat) (h : (pool.map (·.1)).Perm (s :: X)) :
    ∃ a pool', pool.Perm ((s, a) :: pool') ∧ (pool'.map (·.1)).Perm X := by
  have hs : s ∈ pool.map (·.1) := h.mem_iff.2 List.mem_cons_self
  obtain ⟨p, hp, rfl⟩ := List.mem_map.1 hs
  refine ⟨p.2, pool.erase p, List.perm_cons_erase hp, ?_⟩
  have h1 : (pool.map (·.1)).Perm (p.1 :: (pool.erase p).map (·.1)) := (List.perm_cons_erase hp).map _
  exact (h1.symm.trans h).cons_inv

theorem lcl_perm_nil {α β} (f : α → β) (l : List α) (h : (l.map f).Perm []) : l = [] := by
  have := h.length_eq
  simpa using this

/-! ### one connected request -/

theorem lcl_Open_reach {σ} {hook : ObjHook σ} (hh : Cli.lci_HookOk hook) {S : Prop} {w w' : Cli.World σ}
    (h : lcl_Reach hook w w') (ho : Cli.lcl_Open S w) : Cli.lcl_Open S w' := by
  obtain ⟨a1, a2, a3⟩ := lcl_Reach_inv hh h ho.inv ho.conn ho.con
  exact ⟨a1, a2, a3⟩

theorem lcl_sendUnit_mid {σ} (hook : ObjHook σ) (hh : Cli.lci_HookOk hook) (hn : Cli.lcs_HookNoSeq hook) (S : Prop)
    (D : Nat) (w : Cli.World σ) (ho : Cli.lcl_Open S w) (s a : Nat) (rest : List (Nat × Nat))
    (hm : Cli.lcl_Mid D w ((s, a) :: rest)) (m : Bytes) :
    Cli.lcl_Mid D (sendUnit hook w s m).1 rest ∧
    (∀ x, (sendUnit hook w s m).2 = .ok x → rest = [] → Cli.lcl_Mid a (sendUnit hook w s m).1 []) :=
  Cli.lcl_Mid_send hook hh hn S D w ho s a rest hm m

/-- a request that sends its own number `s`, anywhere in the pool; when it is answered and nothing else is pending,
    the last count is at most `A` draws old -/
theorem lcl_unit_mid {σ} (hook : ObjHook σ) (hh : Cli.lci_HookOk hook) (hn : Cli.lcs_HookNoSeq hook) (S : Prop)
    (D A : Nat) (w : Cli.World σ) (ho : Cli.lcl_Open S w) (pool : List (Nat × Nat)) (s : Nat) (X : List Nat)
    (hm : Cli.lcl_Mid D w pool) (hp : (pool.map (·.1)).Perm (s :: X)) (hA : lcl_PoolLe A pool) (hAD : A ≤ D)
    (m : Bytes) :
    ∃ pool', Cli.lcl_Mid D (sendUnit hook w s m).1 pool' ∧ (pool'.map (·.1)).Perm X ∧ lcl_PoolLe A pool' ∧
      (∀ x, (sendUnit hook w s m).2 = .ok x → X = [] → Cli.lcl_Mid A (sendUnit hook w s m).1 []) := by
  obtain ⟨a, pool', h1, h2⟩ := lcl_pool_take pool s X hp
  obtain ⟨m1, m2⟩ := lcl_sendUnit_mid hook hh hn S D w ho s a pool' (Cli.lcl_Mid_perm hm h1) m
  have ha : a ≤ A := hA (s, a) (h1.mem_iff.2 List.mem_cons_self)
  refine ⟨pool', m1, h2, fun p hp' => hA p (h1.mem_iff.2 (List.mem_cons_of_mem _ hp')), ?_⟩
  intro x hx hX
  subst hX
  have hnil := lcl_perm_nil _ _ h2
  have hdle := hm.dle
  exact Cli.lcl_Mid_mono (m2 x hx hnil) ha (by omega)

/-! ### the fragment loops -/

theorem lcl_readFragLoop_mid {σ} (hook : ObjHook σ) (hh : Cli.lci_HookOk hook) (hn : Cli.lcs_HookNoSeq hook) (S : Prop)
    (req : ReadReq) (fuel : Nat) :
    ∀ (w : Cli.World σ) (seq a D off : Nat) (acc : Bytes) (allOk : Bool), Cli.lcl_Open S w →
      Cli.lcl_Mid D w [(seq, a)] → a + 1 ≤ 65534 →
      Cli.lcl_Mid (max D (a + 1)) (readFragLoop hook req fuel w seq off acc allOk).1 [] ∧
      (∀ x, (readFragLoop hook req fuel w seq off acc allOk).2 = .ok x →
        Cli.lcl_Mid a (readFragLoop hook req fuel w seq off acc allOk).1 []) := by
  induction fuel with
  | zero =>
    intro w seq a D off acc allOk _ hm ha
    simp only [readFragLoop]
    have := hm.dle
    exact ⟨Cli.lcl_Mid_mono (Cli.lcl_Mid_sub hm (List.nil_sublist _)) (by omega) (by omega), fun x hx => nomatch hx⟩
  | succ n ih =>
    intro w seq a D off acc allOk ho hm ha
    have hdle := hm.dle
    have ha1 := (hm.pl (seq, a) List.mem_cons_self).1
    have ha2 := (hm.pl (seq, a) List.mem_cons_self).2.1
    rw [readFragLoop]
    obtain ⟨m1, m2⟩ := lcl_sendUnit_mid hook hh hn S D w ho seq a [] hm (Cl.readFragMsg req.path req.elements off)
    have ho1 : Cli.lcl_Open S (sendUnit hook w seq (Cl.readFragMsg req.path req.elements off)).1 :=
      Cli.lcl_Open_send hook hh ho seq _
    rcases hs : sendUnit hook w seq (Cl.readFragMsg req.path req.elements off) with ⟨w1, r⟩
    rw [hs] at m1 m2 ho1
    dsimp only at m1 m2 ho1 ⊢
    have fin : Cli.lcl_Mid (max D (a + 1)) w1 [] := Cli.lcl_Mid_mono m1 (by omega) (by omega)
    cases r with
    | error e => exact ⟨fin, fun x hx => nomatch hx⟩
    | ok raw =>
      dsimp only
      have m3 := m2 raw rfl rfl
      split
      · split <;> exact ⟨fin, fun _ _ => m3⟩
      · split
        · have m4 := Cli.lcl_Mid_draw m3 (by omega)
          have ho2 := Cli.lcl_Open_next ho1
          simp only [List.map_nil] at m4
          obtain ⟨k1, k2⟩ := ih _ _ _ _ (off + (Cl.splitTyped _).2.length) (acc ++ (Cl.splitTyped _).2)
            (allOk && (tagResp raw).valid) ho2 m4 (by omega)
          exact ⟨Cli.lcl_Mid_mono k1 (by omega) (by omega), fun x hx => Cli.lcl_Mid_mono (k2 x hx) ha1 (by omega)⟩
        · split
          · exact ⟨fin, fun _ _ => m3⟩
          · split
            · split <;> exact ⟨fin, fun _ _ => m3⟩
            · exact ⟨fin, fun _ _ => m3⟩

theorem lcl_writeFragSend_mid {σ} (hook : ObjHook σ) (hh : Cli.lci_HookOk hook) (hn : Cli.lcs_HookNoSeq hook) (S : Prop)
    (req : WriteReq) (segs : List (Nat × Bytes)) :
    ∀ (w : Cli.World σ) (allOk : Bool) (last : Option Resp) (D : Nat), Cli.lcl_Open S w →
      Cli.lcl_Mid D w [] → 1 ≤ D → D + 1 ≤ 65534 →
      Cli.lcl_Mid (D + 1) (writeFragSend hook req w segs allOk last).1 [] ∧
      (∀ x, (writeFragSend hook req w segs allOk last).2 = .ok x → segs ≠ [] →
        Cli.lcl_Mid 1 (writeFragSend hook req w segs allOk last).1 []) := by
  induction segs with
  | nil =>
    intro w allOk last D _ hm _ hD
    simp only [writeFragSend]
    exact ⟨Cli.lcl_Mid_mono hm (by omega) hD, fun _ _ h => absurd rfl h⟩
  | cons x rest ih =>
    intro w allOk last D ho hm h1 hD
    obtain ⟨off, seg⟩ := x
    rw [writeFragSend]
    dsimp only
    have m0 := Cli.lcl_Mid_draw hm (by omega)
    have ho0 := Cli.lcl_Open_next ho
    simp only [List.map_nil] at m0
    obtain ⟨m1, m2⟩ := lcl_sendUnit_mid hook hh hn S (D + 1) _ ho0 _ 1 [] m0
      (Cl.writeFragMsg req.path req.typeBytes req.elements off seg)
    have ho1 := Cli.lcl_Open_send hook hh ho0 w.drv.nextSeq.1 (Cl.writeFragMsg req.path req.typeBytes req.elements off seg)
    rcases hs : sendUnit hook { w with drv := w.drv.nextSeq.2 } w.drv.nextSeq.1
        (Cl.writeFragMsg req.path req.typeBytes req.elements off seg) with ⟨w1, r⟩
    rw [hs] at m1 m2
    have ho1' : Cli.lcl_Open S w1 := by
      have : (sendUnit hook { w with drv := w.drv.nextSeq.2 } w.drv.nextSeq.1
        (Cl.writeFragMsg req.path req.typeBytes req.elements off seg)).1 = w1 := by rw [hs]
      rw [← this]; exact ho1
    dsimp only at m1 m2 ⊢
    cases r with
    | error e => exact ⟨m1, fun x hx => nomatch hx⟩
    | ok raw =>
      have m3 := m2 raw rfl rfl
      obtain ⟨k1, k2⟩ := ih w1 (allOk && (tagResp raw).valid) (some (tagResp raw)) 1 ho1' m3 (Nat.le_refl _) (by omega)
      refine ⟨Cli.lcl_Mid_mono k1 (by omega) hD, ?_⟩
      intro x hx _
      cases rest with
      | nil => simp only [writeFragSend]; exact m3
      | cons y ys => exact k2 x hx (List.cons_ne_nil _ _)

theorem lcl_sendWriteFragmented_mid {σ} (hook : ObjHook σ) (hh : Cli.lci_HookOk hook) (hn : Cli.lcs_HookNoSeq hook)
    (S : Prop) (w : Cli.World σ) (req : WriteReq) (D : Nat) (ho : Cli.lcl_Open S w) (hm : Cli.lcl_Mid D w [])
    (h1 : 1 ≤ D) (hD : D + 1 ≤ 65534) :
    Cli.lcl_Mid (D + 1) (sendWriteFragmented hook w req).1 [] ∧
    (∀ x, (sendWriteFragmented hook w req).2 = .ok x → Cli.lcl_Mid 1 (sendWriteFragmented hook w req).1 []) := by
  have keep : Cli.lcl_Mid (D + 1) w [] := Cli.lcl_Mid_mono hm (by omega) hD
  unfold sendWriteFragmented
  dsimp only
  split
  · exact ⟨keep, fun x hx => nomatch hx⟩
  · next hne =>
    split
    · exact ⟨keep, fun x hx => nomatch hx⟩
    · split
      · exact ⟨keep, fun x hx => nomatch hx⟩
      · next hc1 hc2 =>
        have hpos : 0 < Cl.writeSegSize w.drv.connectionSize req.path req.typeBytes := by
          unfold Cl.writeSegSize; omega
        have hsegs : K.writeFragments (Cl.writeSegSize w.drv.connectionSize req.path req.typeBytes) req.value ≠ [] := by
          intro hnil
          have := (K.write_fragments_tile _ hpos req.value).1
          rw [hnil] at this
          simp only [List.map_nil, List.flatten_nil] at this
          rw [← this] at hne
          simp at hne
        obtain ⟨h2, h3⟩ := lcl_writeFragSend_mid hook hh hn S req
          (K.writeFragments (Cl.writeSegSize w.drv.connectionSize req.path req.typeBytes) req.value) w true none D ho hm h1 hD
        rcases hw : writeFragSend hook req w
          (K.writeFragments (Cl.writeSegSize w.drv.connectionSize req.path req.typeBytes) req.value) true none with ⟨w1, r⟩
        rw [hw] at h2 h3
        dsimp only at h2 h3 ⊢
        cases r with
        | error e => exact ⟨h2, fun x hx => nomatch hx⟩
        | ok x =>
          obtain ⟨allOk, lastr⟩ := x
          dsimp only
          have h4 := h3 _ rfl hsegs
          split <;> exact ⟨h2, fun _ _ => h4⟩

/-! ### `_send_requests` -/

/-- one iteration of `_send_requests`: the pool shrinks to the numbers of the remaining packets; the bound stays
    for a packet that sends its own number and grows by one for a packet sent by a loop (which must be the last);
    when the iteration succeeds and was the last one, the last count is at most `A` draws old -/
theorem lcl_sendRequest_mid {σ} (hook : ObjHook σ) (hh : Cli.lci_HookOk hook) (hn : Cli.lcs_HookNoSeq hook) (S : Prop)
    (w : Cli.World σ) (rs : Results) (q : Request) (D A : Nat) (pool : List (Nat × Nat)) (X : List Nat)
    (ho : Cli.lcl_Open S w) (hm : Cli.lcl_Mid D w pool) (hp : (pool.map (·.1)).Perm (q.lcl_seqs ++ X))
    (hX : q.lcl_isLoop = true → X = []) (h1 : 1 ≤ D) (hD : D + 1 ≤ 65534)
    (hA : lcl_PoolLe A pool) (hA1 : 1 ≤ A) (hAD : A ≤ D) :
    ∃ pool' E, Cli.lcl_Mid E (sendRequest hook w rs q).1 pool' ∧ (pool'.map (·.1)).Perm X ∧ E ≤ D + 1 ∧
      (q.lcl_isLoop = false → E = D) ∧ lcl_PoolLe A pool' ∧
      (∀ rs', (sendRequest hook w rs q).2 = .ok rs' → X = [] → Cli.lcl_Mid A (sendRequest hook w rs q).1 []) := by
  have su : ∀ (s : Nat) (msg : Bytes), (pool.map (·.1)).Perm (s :: X) →
      ∃ pool', Cli.lcl_Mid D (sendUnit hook w s msg).1 pool' ∧ (pool'.map (·.1)).Perm X ∧ lcl_PoolLe A pool' ∧
        (∀ x, (sendUnit hook w s msg).2 = .ok x → X = [] → Cli.lcl_Mid A (sendUnit hook w s msg).1 []) :=
    fun s msg hp' => lcl_unit_mid hook hh hn S D A w ho pool s X hm hp' hA hAD msg
  cases q with
  | read req =>
    obtain ⟨pool', a1, a2, a3, a4⟩ := su req.seq (Cl.readMsg req.path req.elements) hp
    refine ⟨pool', D, ?_, a2, by omega, fun _ => rfl, a3, ?_⟩ <;>
    · rw [sendRequest]
      generalize sendUnit hook w req.seq (Cl.readMsg req.path req.elements) = res at a1 a4 ⊢
      obtain ⟨w1, r⟩ := res
      cases r with
      | error e => first | exact a1 | exact fun _ h => nomatch h
      | ok raw => first | exact a1 | exact fun _ _ hX' => a4 raw rfl hX'
  | write req =>
    obtain ⟨pool', a1, a2, a3, a4⟩ := su req.seq (Cl.writeMsg req.path req.typeBytes req.elements req.value) hp
    refine ⟨pool', D, ?_, a2, by omega, fun _ => rfl, a3, ?_⟩ <;>
    · rw [sendRequest]
      generalize sendUnit hook w req.seq (Cl.writeMsg req.path req.typeBytes req.elements req.value) = res at a1 a4 ⊢
      obtain ⟨w1, r⟩ := res
      cases r with
      | error e => first | exact a1 | exact fun _ h => nomatch h
      | ok raw => first | exact a1 | exact fun _ _ hX' => a4 raw rfl hX'
  | multiRead seq reqs =>
    obtain ⟨pool', a1, a2, a3, a4⟩ := su seq (Cl.multiMsg (reqs.map fun q => Cl.readMsg q.path q.elements)) hp
    refine ⟨pool', D, ?_, a2, by omega, fun _ => rfl, a3, ?_⟩ <;>
    · rw [sendRequest]
      generalize sendUnit hook w seq (Cl.multiMsg (reqs.map fun q => Cl.readMsg q.path q.elements)) = res at a1 a4 ⊢
      obtain ⟨w1, r⟩ := res
      cases r with
      | error e => first | exact a1 | exact fun _ h => nomatch h
      | ok raw =>
        dsimp only
        split <;> first | exact a1 | exact fun _ _ hX' => a4 raw rfl hX'
  | multiWrite seq reqs =>
    obtain ⟨pool', a1, a2, a3, a4⟩ :=
      su seq (Cl.multiMsg (reqs.map fun q => Cl.writeMsg q.path q.typeBytes q.elements q.value)) hp
    refine ⟨pool', D, ?_, a2, by omega, fun _ => rfl, a3, ?_⟩ <;>
    · rw [sendRequest]
      generalize sendUnit hook w seq (Cl.multiMsg (reqs.map fun q => Cl.writeMsg q.path q.typeBytes q.elements q.value)) = res at a1 a4 ⊢
      obtain ⟨w1, r⟩ := res
      cases r with
      | error e => first | exact a1 | exact fun _ h => nomatch h
      | ok raw =>
        dsimp only
        split <;> first | exact a1 | exact fun _ _ hX' => a4 raw rfl hX'
  | rmw req =>
    rw [sendRequest]
    cases hmsg : rmwMessage req with
    | error e =>
      dsimp only
      obtain ⟨a, pool', h2, h3⟩ := lcl_pool_take pool req.seq X hp
      exact ⟨pool', D, Cli.lcl_Mid_sub (Cli.lcl_Mid_perm hm h2) (List.sublist_cons_self _ _), h3, by omega, fun _ => rfl,
        fun p hp' => hA p (h2.mem_iff.2 (List.mem_cons_of_mem _ hp')), fun _ h => nomatch h⟩
    | ok msg =>
      dsimp only
      obtain ⟨pool', a1, a2, a3, a4⟩ := su req.seq msg hp
      refine ⟨pool', D, ?_, a2, by omega, fun _ => rfl, a3, ?_⟩ <;>
      · generalize sendUnit hook w req.seq msg = res at a1 a4 ⊢
        obtain ⟨w1, r⟩ := res
        cases r with
        | error e => first | exact a1 | exact fun _ h => nomatch h
        | ok raw => first | exact a1 | exact fun _ _ hX' => a4 raw rfl hX'
  | readFrag req =>
    have hX' := hX rfl
    subst hX'
    obtain ⟨a, pool', h2, h3⟩ := lcl_pool_take pool req.seq [] hp
    have hnil := lcl_perm_nil _ _ h3
    subst hnil
    have hm' := Cli.lcl_Mid_perm hm h2
    have ha := (hm'.pl (req.seq, a) List.mem_cons_self).2.1
    have haA : a ≤ A := hA (req.seq, a) (h2.mem_iff.2 List.mem_cons_self)
    obtain ⟨h4, h5⟩ := lcl_readFragLoop_mid hook hh hn S req FRAG_FUEL w req.seq a D 0 [] true ho hm' (by omega)
    refine ⟨[], max D (a + 1), ?_, List.Perm.refl _, by omega, (fun h => nomatch h), (fun p hp' => nomatch hp'), ?_⟩ <;>
    · rw [sendRequest]
      generalize readFragLoop hook req FRAG_FUEL w req.seq 0 [] true = res at h4 h5 ⊢
      obtain ⟨w1, r⟩ := res
      cases r with
      | error e => first | exact h4 | exact fun _ h => nomatch h
      | ok x =>
        obtain ⟨resp, v, dt⟩ := x
        first
        | exact h4
        | exact fun _ _ _ => Cli.lcl_Mid_mono (h5 _ rfl) haA (by omega)
  | writeFrag req =>
    have hX' := hX rfl
    subst hX'
    have hnil : pool = [] := lcl_perm_nil _ _ hp
    subst hnil
    obtain ⟨h4, h5⟩ := lcl_sendWriteFragmented_mid hook hh hn S w req D ho hm h1 hD
    refine ⟨[], D + 1, ?_, List.Perm.refl _, Nat.le_refl _, (fun h => nomatch h), (fun p hp' => nomatch hp'), ?_⟩ <;>
    · rw [sendRequest]
      generalize sendWriteFragmented hook w req = res at h4 h5 ⊢
      obtain ⟨w1, r⟩ := res
      cases r with
      | error e => first | exact h4 | exact fun _ h => nomatch h
      | ok x => first | exact h4 | exact fun _ _ _ => Cli.lcl_Mid_mono (h5 _ rfl) hA1 (by omega)

theorem lcl_sendRequests_mid {σ} (hook : ObjHook σ) (hh : Cli.lci_HookOk hook) (hn : Cli.lcs_HookNoSeq hook) (S : Prop)
    (reqs : List Request) :
    ∀ (w : Cli.World σ) (rs : Results) (D A : Nat) (pool : List (Nat × Nat)), lcl_loopLast reqs = true →
      Cli.lcl_Open S w → Cli.lcl_Mid D w pool → (pool.map (·.1)).Perm (reqs.flatMap Request.lcl_seqs) →
      1 ≤ D → D + 1 ≤ 65534 → lcl_PoolLe A pool → 1 ≤ A → A ≤ D →
      Cli.lcl_Mid (D + 1) (sendRequests hook w rs reqs).1 [] ∧
      (∀ rs', (sendRequests hook w rs reqs).2 = .ok rs' → reqs ≠ [] →
        Cli.lcl_Mid A (sendRequests hook w rs reqs).1 []) := by
  induction reqs with
  | nil =>
    intro w rs D A pool _ _ hm hp _ hD _ _ _
    have hnil : pool = [] := lcl_perm_nil _ _ hp
    subst hnil
    exact ⟨Cli.lcl_Mid_mono hm (by omega) hD, fun _ _ h => absurd rfl h⟩
  | cons q rest ih =>
    intro w rs D A pool hll ho hm hp h1 hD hA hA1 hAD
    obtain ⟨hll', hlast⟩ := lcl_loopLast_cons q rest hll
    rw [List.flatMap_cons] at hp
    obtain ⟨pool', E, a1, a2, a3, a4, a5, a6⟩ := lcl_sendRequest_mid hook hh hn S w rs q D A pool
      (rest.flatMap Request.lcl_seqs) ho hm hp (fun hl => by rw [hlast hl]; rfl) h1 hD hA hA1 hAD
    have ho1 := lcl_Open_reach hh (lcl_sendRequest_reach hook w rs q) ho
    rw [sendRequests]
    generalize sendRequest hook w rs q = res at a1 a6 ho1 ⊢
    obtain ⟨w1, r⟩ := res
    dsimp only at a1 a6 ho1 ⊢
    cases r with
    | error e =>
      exact ⟨Cli.lcl_Mid_mono (Cli.lcl_Mid_sub a1 (List.nil_sublist _)) a3 hD, fun _ h => nomatch h⟩
    | ok rs1 =>
      dsimp only
      cases rest with
      | nil =>
        simp only [sendRequests]
        exact ⟨Cli.lcl_Mid_mono (Cli.lcl_Mid_sub a1 (List.nil_sublist _)) a3 hD, fun _ _ _ => a6 rs1 rfl rfl⟩
      | cons r2 rs2 =>
        have hnl : q.lcl_isLoop = false := by
          cases hl : q.lcl_isLoop with
          | false => rfl
          | true => exact absurd (hlast hl) (List.cons_ne_nil _ _)
        have := a4 hnl
        subst this
        obtain ⟨k1, k2⟩ := ih w1 rs1 E A pool' hll' ho1 a1 a2 h1 hD a5 hA1 hAD
        exact ⟨k1, fun rs' h _ => k2 rs' h (List.cons_ne_nil _ _)⟩

/-! ### a whole call -/

theorem lcl_Reach_facts {σ} {hook : ObjHook σ} {w w' : Cli.World σ} (h : lcl_Reach hook w w') :
    w'.net.faults = w.net.faults ∧ w.net.nSend ≤ w'.net.nSend ∧ lcl_SeqOnly w.drv w'.drv := by
  induction h with
  | refl => exact ⟨rfl, Nat.le_refl _, lcl_SeqOnly_refl _⟩
  | @draw w1 v _ ih => exact ⟨ih.1, ih.2.1, lcl_SeqOnly_trans ih.2.2 ⟨v, rfl⟩⟩
  | @send w1 seq msg _ ih =>
    obtain ⟨hd, hf, hns, _⟩ := Cli.lcs_sendReq hook w1 (.sendUnit seq msg) false _ rfl
    exact ⟨hf.trans ih.1, Nat.le_trans ih.2.1 hns, by rw [hd]; exact ih.2.2⟩

theorem lcl_D_mono {σ} {w w' : Cli.World σ} (hf : w'.net.faults = w.net.faults) (hn : w.net.nSend ≤ w'.net.nSend) :
    Cli.lcs_D w ≤ Cli.lcs_D w' := by
  unfold Cli.lcs_D
  rw [hf]
  have := Cli.lcs_rem_mono w.net.faults _ _ hn
  omega

theorem lcl_D_pos {σ} (w : Cli.World σ) : 1 ≤ Cli.lcs_D w := by
  unfold Cli.lcs_D
  have := Cli.lcs_rem_le w.net.faults w.net.nSend
  omega

/-- the part of a read / write after the decorator: building with `n` draws at most, then `_send_requests`.
    The budget grows by `n + 1`; when `_send_requests` had something to send and succeeded, the budget starts again
    at `n + 1`. -/
theorem lcl_body_seq {σ} (hook : ObjHook σ) (hh : Cli.lci_HookOk hook) (hn : Cli.lcs_HookNoSeq hook) (S : Prop)
    (B n : Nat) (w0 : Cli.World σ) (ho : Cli.lcl_Open S w0) (hq : Cli.lcl_SeqB B w0)
    (hfl : w0.net.faults.length + (B + n + 1) < 65534) (d1 : Cli.Drv) (L : List Nat) (hL : lcl_Draws w0.drv L d1)
    (hlen : L.length ≤ n) (hso : lcl_SeqOnly w0.drv d1) :
    Cli.lcl_SeqB (B + n + 1) ({ w0 with drv := d1 } : Cli.World σ) ∧
    ∀ (reqs : List Request) (rs : Results) (Sq : List Nat), Sq.Sublist L → Sq.Perm (reqs.flatMap Request.lcl_seqs) →
      lcl_loopLast reqs = true →
      Cli.lcl_SeqB (B + n + 1) (sendRequests hook { w0 with drv := d1 } rs reqs).1 ∧
      (∀ rs', (sendRequests hook { w0 with drv := d1 } rs reqs).2 = .ok rs' → reqs ≠ [] →
        Cli.lcl_SeqB (n + 1) (sendRequests hook { w0 with drv := d1 } rs reqs).1) := by
  have hm0 := Cli.lcl_Mid_of_seqB hq
  have hD0 : Cli.lcs_D w0 + B ≤ w0.net.faults.length + 1 + B := by
    unfold Cli.lcs_D; omega
  have hm1 := lcl_Mid_draws (D := Cli.lcs_D w0 + B) hL w0 rfl hm0 (by omega)
  obtain ⟨v, hv⟩ := hso
  subst hv
  have ho1 : Cli.lcl_Open S ({ w0 with drv := { w0.drv with seqVal := v } } : Cli.World σ) := Cli.lcl_Open_seq ho v
  constructor
  · refine Cli.lcl_SeqB_of_mid (Cli.lcl_Mid_sub hm1 (List.nil_sublist _)) ?_ hfl hq.ctx8 hq.sess32 hq.sockc
    show Cli.lcs_D w0 + B + L.length ≤ Cli.lcs_D w0 + (B + n + 1)
    omega
  · intro reqs rs Sq hsub hperm hll
    obtain ⟨P, hmP, hpP, hPle⟩ := lcl_Mid_pool hm1 hsub hperm
    have hpos := lcl_D_pos w0
    obtain ⟨h2, h3⟩ := lcl_sendRequests_mid hook hh hn S reqs _ rs _ (max L.length 1) P hll ho1 hmP hpP (by omega) (by omega)
      (lcl_PoolLe_mono hPle (by omega)) (by omega) (by omega)
    obtain ⟨f1, f2, ⟨v2, f3⟩⟩ := lcl_Reach_facts (lcl_sendRequests_reach hook reqs
      ({ w0 with drv := { w0.drv with seqVal := v } } : Cli.World σ) rs)
    generalize sendRequests hook ({ w0 with drv := { w0.drv with seqVal := v } } : Cli.World σ) rs reqs = res at h2 h3 f1 f2 f3
    obtain ⟨w2, r2⟩ := res
    dsimp only at h2 h3 f1 f2 f3 ⊢
    have hDm : Cli.lcs_D w0 ≤ Cli.lcs_D w2 := lcl_D_mono f1 f2
    have c8 : w2.drv.context.length = 8 := by rw [f3]; exact hq.ctx8
    have s32 : ∀ s, w2.drv.session = some s → s < 2 ^ 32 := by rw [f3]; exact hq.sess32
    have skc : w2.drv.targetIsConnected = true → w2.drv.hasSock = true := by rw [f3]; exact hq.sockc
    constructor
    · exact Cli.lcl_SeqB_of_mid h2 (by omega) (by rw [f1]; exact hfl) c8 s32 skc
    · intro rs' hok hne
      exact Cli.lcl_SeqB_of_mid (h3 rs' hok hne) (by omega) (by rw [f1]; omega) c8 s32 skc

theorem lcl_readResult_nil (p : Parsed) : (readResult p []).error.isSome = true := by
  unfold readResult
  cases p.error with
  | some e => rfl
  | none => rfl

theorem lcl_writeResult_nil (p : Parsed) : (writeResult p []).error.isSome = true := by
  unfold writeResult
  cases p.error with
  | some e => rfl
  | none => rfl

/-- `read`: the budget grows by three per requested tag, plus one; a read that returns at least one Tag without an
    error has been answered by the controller: the budget starts again -/
theorem lcl_read_seq {σ} (hook : ObjHook σ) (hh : Cli.lci_HookOk hook) (hn : Cli.lcs_HookNoSeq hook) (S : Prop)
    (B : Nat) (cfg : Cfg) (w : Cli.World σ) (tags : List Name) (hi : Cli.lci_Inv S w) (hc : Cli.lci_Conn w)
    (hq : Cli.lcl_SeqB B w) (hsz : Cli.lcl_Sz w.drv)
    (hll : ∀ d, Cli.lcl_Sz d → ∀ d1 reqs,
      readBuildRequests cfg d (parseRequestedTags cfg.tags false tags) = (d1, .ok reqs) → lcl_loopLast reqs = true)
    (hfl : w.net.faults.length + (B + 3 * tags.length + 1) < 65534) :
    Cli.lcl_SeqB (B + 3 * tags.length + 1) (read hook cfg w tags).1 ∧
    (∀ res, (read hook cfg w tags).2 = .ok res → res.any (fun t => t.error.isNone) = true →
      Cli.lcl_SeqB (3 * tags.length + 1) (read hook cfg w tags).1) := by
  obtain ⟨b1, b2, b3⟩ := Cli.lci_cli_ensureFO hook S Cli.FUEL w hi hc _ rfl
  have b4 := Cli.lcl_ensureFO_seq hook hh hn B Cli.FUEL w hq
  have b5 := ((Cli.lci_NStep_mutual hook hh Cli.FUEL).2.1 w).2.1
  have b6 := Cli.lcl_Sz_step hsz ((Cli.lcl_SzStep_mutual hook Cli.FUEL).2.1 w)
  unfold read
  generalize Cli.ensureForwardOpen hook Cli.FUEL w = r0 at b1 b2 b3 b4 b5 b6 ⊢
  obtain ⟨w0, pre⟩ := r0
  dsimp only at b1 b2 b3 b4 b5 b6 ⊢
  have hfl0 : w0.net.faults.length + (B + 3 * tags.length + 1) < 65534 := by rw [b5]; exact hfl
  cases pre with
  | error e => exact ⟨Cli.lcl_SeqB_mono b4 (by omega) hfl0, fun _ h => nomatch h⟩
  | ok u =>
    dsimp only
    obtain ⟨L, hL, hlen, hS⟩ := lcl_readBuild_draws cfg w0.drv (parseRequestedTags cfg.tags false tags)
    have hso := lcl_readBuildRequests_seq cfg w0.drv (parseRequestedTags cfg.tags false tags)
    rw [lds_parse_length] at hlen
    rcases hbr : readBuildRequests cfg w0.drv (parseRequestedTags cfg.tags false tags) with ⟨d1, reqs⟩
    rw [hbr] at hL hS hso
    dsimp only at hL hS hso ⊢
    obtain ⟨k1, k2⟩ := lcl_body_seq hook hh hn S B (3 * tags.length) w0 ⟨b1, b2, b3 rfl⟩ b4 hfl0 d1 L hL hlen hso
    cases reqs with
    | error e => exact ⟨k1, fun _ h => nomatch h⟩
    | ok reqs =>
      dsimp only
      obtain ⟨Sq, hsub, hperm⟩ := hS reqs rfl
      obtain ⟨k3, k4⟩ := k2 reqs [] Sq hsub hperm (hll _ b6 _ _ hbr)
      have hnilreq : reqs = [] → sendRequests hook { w0 with drv := d1 } [] reqs = ({ w0 with drv := d1 }, .ok []) := by
        intro h; subst h; rfl
      generalize hsr : sendRequests hook { w0 with drv := d1 } [] reqs = res at k3 k4 hnilreq ⊢
      obtain ⟨w2, rs⟩ := res
      dsimp only at k3 k4 ⊢
      cases rs with
      | error e => exact ⟨k3, fun _ h => nomatch h⟩
      | ok rs =>
        dsimp only
        split
        · exact ⟨k3, fun _ h => nomatch h⟩
        · refine ⟨k3, ?_⟩
          intro res hres hgood
          simp only [Except.ok.injEq] at hres
          subst hres
          apply k4 rs rfl
          intro hnil
          have := hnilreq hnil
          simp only [Prod.mk.injEq, Except.ok.injEq] at this
          obtain ⟨_, hrs⟩ := this
          subst hrs
          rw [List.any_map] at hgood
          obtain ⟨p, _, hp⟩ := List.any_eq_true.1 hgood
          have := lcl_readResult_nil p
          simp only [Function.comp] at hp
          cases hh' : (readResult p []).error with
          | none => rw [hh'] at this; cases this
          | some e => rw [hh'] at hp; cases hp

/-- `write`: likewise -/
theorem lcl_write_seq {σ} (hook : ObjHook σ) (hh : Cli.lci_HookOk hook) (hn : Cli.lcs_HookNoSeq hook) (S : Prop)
    (B : Nat) (cfg : Cfg) (w : Cli.World σ) (tvs : List (Name × PyVal)) (hi : Cli.lci_Inv S w) (hc : Cli.lci_Conn w)
    (hq : Cli.lcl_SeqB B w) (hsz : Cli.lcl_Sz w.drv)
    (hll : ∀ d, Cli.lcl_Sz d → ∀ d1 ps' reqs,
      writeBuildRequests cfg d (lds_wparse cfg.tags tvs) = (d1, .ok (ps', reqs)) → lcl_loopLast reqs = true)
    (hfl : w.net.faults.length + (B + 3 * tvs.length + 1) < 65534) :
    Cli.lcl_SeqB (B + 3 * tvs.length + 1) (write hook cfg w tvs).1 ∧
    (∀ res, (write hook cfg w tvs).2 = .ok res → res.any (fun t => t.error.isNone) = true →
      Cli.lcl_SeqB (3 * tvs.length + 1) (write hook cfg w tvs).1) := by
  obtain ⟨b1, b2, b3⟩ := Cli.lci_cli_ensureFO hook S Cli.FUEL w hi hc _ rfl
  have b4 := Cli.lcl_ensureFO_seq hook hh hn B Cli.FUEL w hq
  have b5 := ((Cli.lci_NStep_mutual hook hh Cli.FUEL).2.1 w).2.1
  have b6 := Cli.lcl_Sz_step hsz ((Cli.lcl_SzStep_mutual hook Cli.FUEL).2.1 w)
  unfold write
  generalize Cli.ensureForwardOpen hook Cli.FUEL w = r0 at b1 b2 b3 b4 b5 b6 ⊢
  obtain ⟨w0, pre⟩ := r0
  dsimp only at b1 b2 b3 b4 b5 b6 ⊢
  have hfl0 : w0.net.faults.length + (B + 3 * tvs.length + 1) < 65534 := by rw [b5]; exact hfl
  cases pre with
  | error e => exact ⟨Cli.lcl_SeqB_mono b4 (by omega) hfl0, fun _ h => nomatch h⟩
  | ok u =>
    dsimp only
    suffices hgoal : ∀ result : Cli.World σ × Except Exn (List LTag),
        (match writeBuildRequests cfg w0.drv (lds_wparse cfg.tags tvs) with
        | (d1, built) =>
          match built with
          | .error e => (({ w0 with drv := d1 } : Cli.World σ), (Except.error e : Except Exn (List LTag)))
          | .ok (parsed', reqs) =>
            match sendRequests hook { w0 with drv := d1 } [] reqs with
            | (w2, rs) =>
              match rs with
              | .error e => (w2, .error e)
              | .ok rs =>
                match fanOutRmw rs reqs with
                | none => (w2, .error (.foreign "KeyError"))
                | some rs' =>
                  if tvs.isEmpty then (w2, .error (.foreign "IndexError"))
                  else (w2, .ok (parsed'.map fun p => writeResult p rs'))) = result →
        Cli.lcl_SeqB (B + 3 * tvs.length + 1) result.1 ∧
        (∀ res, result.2 = .ok res → res.any (fun t => t.error.isNone) = true →
          Cli.lcl_SeqB (3 * tvs.length + 1) result.1) from hgoal _ rfl
    intro result hres
    obtain ⟨L, hL, hlen, hS⟩ := lcl_writeBuild_draws cfg w0.drv (lds_wparse cfg.tags tvs)
    have hso := lcl_writeBuildRequests_seq cfg w0.drv (lds_wparse cfg.tags tvs)
    rw [lds_wparse_length] at hlen
    rcases hbr : writeBuildRequests cfg w0.drv (lds_wparse cfg.tags tvs) with ⟨d1, built⟩
    rw [hbr] at hL hS hso hres
    dsimp only at hL hS hso hres
    obtain ⟨k1, k2⟩ := lcl_body_seq hook hh hn S B (3 * tvs.length) w0 ⟨b1, b2, b3 rfl⟩ b4 hfl0 d1 L hL hlen hso
    cases built with
    | error e =>
      dsimp only at hres
      subst hres
      exact ⟨k1, fun _ h => nomatch h⟩
    | ok x =>
      obtain ⟨ps', reqs⟩ := x
      dsimp only at hres
      obtain ⟨Sq, hsub, hperm⟩ := hS (ps', reqs) rfl
      obtain ⟨k3, k4⟩ := k2 reqs [] Sq hsub hperm (hll _ b6 _ _ _ hbr)
      have hnilreq : reqs = [] → sendRequests hook { w0 with drv := d1 } [] reqs = ({ w0 with drv := d1 }, .ok []) := by
        intro h; subst h; rfl
      generalize hsr : sendRequests hook { w0 with drv := d1 } [] reqs = res at k3 k4 hnilreq hres
      obtain ⟨w2, rs⟩ := res
      dsimp only at k3 k4 hres
      cases rs with
      | error e => dsimp only at hres; subst hres; exact ⟨k3, fun _ h => nomatch h⟩
      | ok rs =>
        dsimp only at hres
        cases hfo : fanOutRmw rs reqs with
        | none => rw [hfo] at hres; dsimp only at hres; subst hres; exact ⟨k3, fun _ h => nomatch h⟩
        | some rs' =>
          rw [hfo] at hres
          dsimp only at hres
          split at hres
          · subst hres; exact ⟨k3, fun _ h => nomatch h⟩
          · subst hres
            refine ⟨k3, ?_⟩
            intro res hres' hgood
            simp only [Except.ok.injEq] at hres'
            subst hres'
            apply k4 rs rfl
            intro hnil
            have := hnilreq hnil
            simp only [Prod.mk.injEq, Except.ok.injEq] at this
            obtain ⟨_, hrs⟩ := this
            subst hrs
            subst hnil
            simp only [fanOutRmw, Option.some.injEq] at hfo
            subst hfo
            rw [List.any_map] at hgood
            obtain ⟨p, _, hp⟩ := List.any_eq_true.1 hgood
            have := lcl_writeResult_nil p
            simp only [Function.comp] at hp
            cases hh' : (writeResult p []).error with
            | none => rw [hh'] at this; cases this
            | some e => rw [hh'] at hp; cases hp

end Pycomm.Lgx.Drv
