/-
  LogixDriver.read of ONE request that is sent as one plain Read Tag service, for a location of ANY element type
  (elementary, structure): the reply carries the controller's type bytes (`typeBytes`: the 2-byte type code, or the
  structure marker `A0 02` + handle) and the bytes held there. Generalises `ldr2_sendUnit_read` / `ldr2_read_single`.
-/
import PycommProofs.LDRead2Core
namespace Pycomm.Lgx.Drv
open Pycomm Pycomm.Tgt Pycomm.Path Pycomm.Reply Pycomm.Encap Pycomm.Lgx Pycomm.Lgx.E2E

/-- (c)+(d) the driver's Read Tag request for `n` elements at a tag address that resolves to a location of any type,
    sent on the healthy connection: one frame is written, the reply is the framed status-0 answer carrying the type
    bytes and the bytes the controller holds there -/
theorem ldr3_sendUnit_read (w : Cli.World Ext) (sess : Nat) (cidb : Bytes) (conn : Conn) (st : LState)
    (path : Bytes) (segs : List PSeg) (loc : Loc) (n : Nat) (bs : Bytes) (seq : Nat)
    (hw : ldr_Healthy w sess cidb conn) (hlogix : w.net.target.ext.logix = some st)
    (hp : Denotes path segs) (hr : resolve st.proj segs = .ok loc)
    (hn : 1 ≤ n ∧ n ≤ loc.avail ∧ n < 65536) (hb : readBytes st.proj loc n = some bs)
    (hseq : seq < 65536) (hpl : path.length ≤ 600) (hfit : path.length + 5 ≤ conn.size)
    (hfit2 : bs.length + 6 + (typeBytes st.proj loc.ty).length ≤ conn.size) :
    ∃ w' frm, sendUnit hookAll w seq (Cl.readMsg path n) =
        (w', .ok (some (frame CMD_SEND_UNIT sess 0 w.drv.context (cpfReplyConnected conn.toId seq
          (encMRReply 0x4C { status := 0, ext := [], data := typeBytes st.proj loc.ty ++ bs }))))) ∧
      w'.drv = w.drv ∧ w'.net.sent = w.net.sent ++ [frm] ∧
      w'.net.target.ext = { w.net.target.ext with logix := some { st with ctr := st.ctr + 1 } } ∧
      ldr_Healthy w' sess cidb { conn with lastSeq := some seq } := by
  have hml : (Cl.readMsg path n).length = path.length + 3 := by
    simp [Cl.readMsg, le, RT.leBytes_length]
  have hpm : parseMR (Cl.readMsg path n) = some { service := 0x4C, path := segs, data := le 2 n } := by
    have := parseMR_msg 0x4C path (le 2 n) segs hp
    simpa [Cl.readMsg] using this
  have hrt := readTag_plain st loc n (conn.size - 2) bs hn hb (by omega)
  have hls : logixService st { service := 0x4C, path := segs, data := le 2 n } (some (conn.size - 2)) =
      some ({ st with ctr := st.ctr + 1 }, { status := 0, data := typeBytes st.proj loc.ty ++ bs }) := by
    have h1 : single st { service := 0x4C, path := segs, data := le 2 n } (conn.size - 2) =
        some (tagAnswer st loc 0x4C (le 2 n) (conn.size - 2)) :=
      single_of_resolve st { service := 0x4C, path := segs, data := le 2 n } (conn.size - 2) loc hr (Or.inl rfl)
    have h3 : tagAnswer st loc 0x4C (le 2 n) (conn.size - 2) = Lgx.readTag st loc (le 2 n) (conn.size - 2) false := by
      unfold tagAnswer; rw [if_pos rfl]
    simp only [logixService, Option.getD_some]
    rw [if_neg (by simp), h1, h3, hrt]
  have hlp : ldr2_LogixPath segs := ldr2_logixPath_of_resolve _ _ _ hr
  have h := ldr2_sendUnit_logix w sess cidb conn st seq (Cl.readMsg path n)
    { service := 0x4C, path := segs, data := le 2 n }
    ({ st with ctr := st.ctr + 1 }, { status := 0, data := typeBytes st.proj loc.ty ++ bs }) hw hlogix hpm hlp hls hseq
    (by omega) (by omega)
  exact h

/-- `LogixDriver.read` of one tag string on a healthy connected driver, when the request is sent as one plain Read
    Tag service and answered with status 0 — for a location of any element type. See `ldr2_read_single`. -/
theorem ldr3_read_single (cfg : Cfg) (w : Cli.World Ext) (sess : Nat) (cidb : Bytes) (conn : Conn)
    (st : LState) (tag0 : Name) (p : Parsed) (info : TagInfo) (path : Bytes) (segs : List PSeg) (loc : Loc)
    (n : Nat) (bs : Bytes) (v : PyVal) (dt : Name)
    (hw : ldr_Healthy w sess cidb conn) (hlogix : w.net.target.ext.logix = some st)
    (hparse : parseTagRequest cfg.tags false 0 tag0 = p)
    (hperr : p.error = none) (hpinfo : p.info = some info) (hpel : p.elements = (n : Int)) (hrid : p.requestId = 0)
    (hpath : requestPathOf cfg p.plcTag info = .ok path) (hden : Denotes path segs) (hpl : path.length ≤ 600)
    (hr : resolve st.proj segs = .ok loc)
    (hn : 1 ≤ n ∧ n ≤ loc.avail ∧ n < 65536) (hb : readBytes st.proj loc n = some bs)
    (hreply : parseReadReply (typeBytes st.proj loc.ty ++ bs) info n = .ok (v, dt))
    (hC : tagReturnSize info n + path.length + 7 ≤ w.drv.connectionSize)
    (hT : path.length + 5 ≤ conn.size) (hT2 : bs.length + 6 + (typeBytes st.proj loc.ty).length ≤ conn.size) :
    ∃ w' frm, read hookAll cfg w [tag0] =
        (w', .ok [readResult p [((0 : Nat), { tag := p.plcTag, value := v, type := some dt, error := none })]]) ∧
      w'.drv = w.drv.nextSeq.2 ∧ w'.net.sent = w.net.sent ++ [frm] ∧
      w'.net.target.ext = { w.net.target.ext with logix := some { st with ctr := st.ctr + 1 } } ∧
      ldr_Healthy w' sess cidb { conn with lastSeq := some w.drv.nextSeq.1 } := by
  have hparsed : parseRequestedTags cfg.tags false [tag0] = [p] := by
    show [parseTagRequest cfg.tags false 0 tag0] = _
    rw [hparse]
  have hml : (Cl.readMsg path n).length = path.length + 3 := by
    simp [Cl.readMsg, le, RT.leBytes_length]
  have hbuild := ldr2_build_single cfg w.drv p info path n hperr hpinfo hpel (by omega) hpath (by rw [hml]; omega)
  have hw1 : ldr_Healthy ({ w with drv := w.drv.nextSeq.2 } : Cli.World Ext) sess cidb conn :=
    ldr_Healthy_seq hw _ (by rw [(Cli.lcs_nextSeq w.drv).2])
  obtain ⟨w2, frm, hsend, hd2, hsent2, hext2, hh2⟩ := ldr3_sendUnit_read ({ w with drv := w.drv.nextSeq.2 } : Cli.World Ext)
    sess cidb conn st path segs loc n bs w.drv.nextSeq.1 hw1 hlogix hden hr hn hb (ldr_nextSeq_lt w.drv) hpl hT hT2
  have hresp := ldr2_readResp
    { seq := w.drv.nextSeq.1, tag := p.plcTag, elements := n, info := info, rid := p.requestId, path := path }
    (typeBytes st.proj loc.ty ++ bs) v dt sess conn.toId w.drv.nextSeq.1 w.drv.nextSeq.2.context hw1.ctx8 hreply
  have hfo : Cli.ensureForwardOpen hookAll Cli.FUEL w = (w, .ok ()) := ldr_ensureFO_connected hookAll 7 w hw.connected
  refine ⟨w2, frm, ?_, hd2, hsent2, hext2, hh2⟩
  unfold read
  rw [hfo]
  dsimp only
  rw [hparsed, hbuild]
  dsimp only
  unfold sendRequests sendRequest
  dsimp only
  rw [hsend]
  dsimp only
  rw [hresp]
  dsimp only [Except.map]
  unfold sendRequests
  dsimp only [List.isEmpty_cons, Bool.false_eq_true, if_false, List.map_cons, List.map_nil, Results.set, List.any_nil,
    List.nil_append]
  simp only [Bool.false_eq_true, if_false, List.map_cons, List.map_nil, hrid]

end Pycomm.Lgx.Drv
