/-
  LogixDriver.read of mixed shapes: the request kinds over controller-scope tags of elementary types as entries —
    `ldmx_ofN`       the plain one-element entries of LDReadN5 (scalar tag; element beyond the array, refused);
    `ldmx_Win`       `name[i]`, `name[i]{n}`, `name{n}` of a one-dimensional array (LDRead2Array);
    `ldmx_Bit`       `name.b` of an integer tag (LDRead2Bit);
    `ldmx_BoolEl`    `name[i]` of a BOOL array (LDRead2Bool).
-/
import PycommProofs.LDMix3
namespace Pycomm.Lgx.Drv
open Pycomm Pycomm.Tgt Pycomm.Path Pycomm.Reply Pycomm.Encap Pycomm.Lgx Pycomm.Lgx.E2E

/-! ### the plain one-element entries of LDReadN -/

def ldmx_ofN (e : ldrn_Ent) : ldmx_Ent :=
  { tag := e.tag, user := e.tag, plc := e.tag, bit := none, els := 1, boolEls := none, info := e.info, path := e.path,
    segs := e.segs, reply := e.reply, adv := e.adv, rcd := e.res, res := e.res }

theorem ldmx_ofN_ok (cfg : Cfg) (st : LState) (cap : Nat) (e : ldrn_Ent) (h : ldrn_EntOk cfg st cap e) :
    ldmx_EntOk cfg st cap (ldmx_ofN e) :=
  ⟨h.parse, Nat.le_of_ble_eq_true rfl, h.path, h.den, h.ex, h.rlen, h.mr, h.res⟩

/-! ### elements of a one-dimensional array of an elementary type -/

/-- `name[i]` / `name[i]{n}` (`idx = [i]`) or `name{n}` (`idx = []`, `i = 0`) of a one-dimensional array tag:
    symbol, tag-database entry, type code / element size / dimension, first element, count, the decoded values -/
structure ldmx_Win where
  s : Symbol
  info : TagInfo
  c : Nat
  sz : Nat
  dim : Nat
  idx : List Nat
  i : Nat
  cnt : Option Nat
  name : Name
  t : Ty
  vs : List PyVal

/-- the number of elements read -/
def ldmx_Win.n (x : ldmx_Win) : Nat := x.cnt.getD 1

/-- the hypotheses of `read_atomic_element_e2e` / `read_atomic_slice_e2e` / `read_atomic_slice0_e2e` on one request -/
structure ldmx_WinOk (cfg : Cfg) (st : LState) (x : ldmx_Win) : Prop where
  mem : x.s ∈ st.proj.controller
  uniqN : ∀ s' ∈ st.proj.controller, s'.name = x.s.name → s' = x.s
  uniqI : ∀ s' ∈ st.proj.controller, s'.inst = x.s.inst → s' = x.s
  ident : PlainIdent x.s.name
  inst32 : x.s.inst < 2 ^ 32
  ty : elTyOfWord x.s.symbolType = .atomic x.c
  atomic : atomicOfCode x.c = some (x.name, x.t)
  notBits : x.t.isBits = none
  size : atomicSize x.c = some x.sz
  /-- one dimension of `dim` elements -/
  dims : x.s.dims.filter (· != 0) = [x.dim]
  memLen : x.s.mem.length = x.dim * x.sz
  get : cfg.tags.get? x.s.name = some x.info
  infoOf : ldr_InfoOf x.info x.name (.arr (.fixed x.dim) x.t) x.s.inst
  /-- with an index, or from the start -/
  idxOk : x.idx = [x.i] ∨ (x.idx = [] ∧ x.i = 0)
  i32 : x.i < 2 ^ 32
  /-- at least one element, a 16-bit count, inside the array -/
  n1 : 1 ≤ x.n
  n16 : x.n ≤ 65535
  inside : x.i + x.n ≤ x.dim
  /-- `vs` are the values the codec decodes from the memory at the elements -/
  vsLen : x.vs.length = x.n
  dec : ∀ k (h : k < x.vs.length), ∃ rest, decode x.t (x.s.mem.drop ((x.i + k) * x.sz)) = .ok (x.vs[k], rest)

/-- the request string -/
def ldmx_Win.request (x : ldmx_Win) : Name := ldr2_tagStr ⟨x.s.name, x.idx⟩ none x.cnt

/-- the addressed tag: the request string without the element count -/
def ldmx_Win.plc (x : ldmx_Win) : Name := renderLevel ⟨x.s.name, x.idx⟩

/-- the Tag `read` returns: named WITHOUT the `{n}`; one element as it is, more as a list typed `T[n]` -/
def ldmx_Win.out (x : ldmx_Win) : LTag :=
  { tag := x.plc, value := ldr2_value x.vs, type := some (ldr2_typeStr x.name x.n), error := none }

def ldmx_entWin (cfg : Cfg) (x : ldmx_Win) : ldmx_Ent :=
  { tag := x.request, user := ldr2_tagStr ⟨x.s.name, x.idx⟩ none none, plc := x.plc, bit := none, els := x.n,
    boolEls := none, info := x.info, path := ldrn_pathOf cfg x.plc x.info,
    segs := ldr_segs x.s.name x.s.inst cfg.useInstanceIds ++ x.idx.map (PSeg.logical 8),
    reply := { status := 0, data := le 2 x.c ++ (x.s.mem.drop (x.i * x.sz)).take (x.n * x.sz) }, adv := 1,
    rcd := x.out, res := x.out }

theorem ldmx_win_level (cfg : Cfg) (st : LState) (x : ldmx_Win) (h : ldmx_WinOk cfg st x) :
    ldr2_Level ⟨x.s.name, x.idx⟩ ∧ x.idx.length ≤ 1 := by
  refine ⟨⟨h.ident, ?_, ?_⟩, ?_⟩
  · rcases h.idxOk with e | ⟨e, _⟩ <;> rw [e] <;> simp
  · rcases h.idxOk with e | ⟨e, _⟩ <;> rw [e] <;> simp [h.i32]
  · rcases h.idxOk with e | ⟨e, _⟩ <;> rw [e] <;> simp

theorem ldmx_win_est (cfg : Cfg) (st : LState) (x : ldmx_Win) (h : ldmx_WinOk cfg st x) :
    ldmx_estE (ldmx_entWin cfg x) = x.sz * x.n + (ldrn_pathOf cfg x.plc x.info).length + 7 ∧
    1 ≤ (ldrn_pathOf cfg x.plc x.info).length ∧
    (ldrn_pathOf cfg x.plc x.info).length ≤ x.s.name.length + 19 := by
  obtain ⟨_, hentry, _, _, _⟩ := ldr_atomic_table x.c x.sz x.name x.t h.atomic h.notBits h.size
  obtain ⟨hl, hil⟩ := ldmx_win_level cfg st x h
  obtain ⟨pb, hpb, hplb, hden⟩ := ldr2_requestPath cfg ⟨x.s.name, x.idx⟩ x.info x.s.inst hl h.infoOf.instanceId h.inst32
  have hpo : ldrn_pathOf cfg x.plc x.info = pb := by unfold ldrn_pathOf ldmx_Win.plc; rw [hpb]
  have hrs : tagReturnSize x.info x.n = x.sz * x.n := by simp [tagReturnSize, h.infoOf.struct, h.infoOf.typeName, hentry]
  have := ldrn_den_pos pb _ hden
  have hplb' : pb.length ≤ x.s.name.length + 13 + 6 * x.idx.length := hplb
  rw [ldmx_estE_eq]
  show tagReturnSize x.info x.n + (ldrn_pathOf cfg x.plc x.info).length + 7 = _ ∧ _
  rw [hpo, hrs]
  refine ⟨rfl, this, by omega⟩

theorem ldmx_win_ok (cfg : Cfg) (st : LState) (cap : Nat) (x : ldmx_Win)
    (hbytes : ∀ s' ∈ st.proj.controller, ∀ ch ∈ s'.name, ch < 256)
    (h : ldmx_WinOk cfg st x) (hc : ldmx_estE (ldmx_entWin cfg x) + 10 ≤ cap + 2) :
    ldmx_EntOk cfg st cap (ldmx_entWin cfg x) := by
  obtain ⟨haty, hentry, hndw, hpos, hle8⟩ := ldr_atomic_table x.c x.sz x.name x.t h.atomic h.notBits h.size
  obtain ⟨hl, hil⟩ := ldmx_win_level cfg st x h
  have hn1 := h.n1
  have hn16 := h.n16
  have hin := h.inside
  have hnd : isDword x.info = false := by
    have : (x.name == nm "DWORD") = false := by simpa using hndw
    simp [isDword, h.infoOf.typeName, this]
  obtain ⟨pb, hpb, hplb, hden⟩ := ldr2_requestPath cfg ⟨x.s.name, x.idx⟩ x.info x.s.inst hl h.infoOf.instanceId h.inst32
  have hpo : ldrn_pathOf cfg x.plc x.info = pb := by unfold ldrn_pathOf ldmx_Win.plc; rw [hpb]
  have hest := ldmx_win_est cfg st x h
  have hmem : x.s.mem ≠ [] := by
    intro hm
    have hlen := h.memLen
    rw [hm, List.length_nil] at hlen
    have : 0 < x.dim * x.sz := Nat.mul_pos (by omega) hpos
    omega
  have hr : resolve st.proj (ldr_segs x.s.name x.s.inst cfg.useInstanceIds ++ x.idx.map (PSeg.logical 8)) =
      .ok (ldr2_locAt x.s x.c x.sz x.i x.dim) := by
    rcases h.idxOk with e | ⟨e, e0⟩
    · rw [e]
      exact ldr2_resolve_elem st.proj x.s x.c x.sz cfg.useInstanceIds x.i x.dim h.ident h.mem hbytes h.uniqN h.uniqI h.ty
        h.size hmem h.dims (by omega)
    · rw [e, e0, List.map_nil, List.append_nil, ← ldr2_loc_zero x.s x.c x.sz x.dim h.dims]
      exact ldr_resolve st.proj x.s x.c x.sz cfg.useInstanceIds h.ident h.mem hbytes h.uniqN h.uniqI h.ty h.size hmem
  have hbts := ldr2_readBytes_elem st.proj x.s x.c x.sz x.i x.dim x.n h.mem h.uniqI h.size h.memLen hin
  have hreply := ldr2_parseReadReply_arr x.info x.c x.sz x.dim x.t x.name x.s.mem (x.i * x.sz) x.n x.vs h.infoOf.ty
    h.infoOf.typeName hndw haty h.notBits h.size hn1 h.vsLen (by
      intro k hk
      obtain ⟨r, hr⟩ := h.dec k hk
      refine ⟨r, ?_⟩
      rw [← Nat.add_mul]; exact hr)
  have hbl : ((x.s.mem.drop (x.i * x.sz)).take (x.n * x.sz)).length ≤ x.n * x.sz := by
    rw [List.length_take]; exact Nat.min_le_left _ _
  have hparse : ∀ rid, parseTagRequest cfg.tags false rid x.request = ldmx_parsedAt rid (ldmx_entWin cfg x) := by
    intro rid
    have hp := ldr2_parse_unfold cfg.tags false rid ⟨x.s.name, x.idx⟩ none x.cnt hl
      (by intro n hc; have := hn16; unfold ldmx_Win.n at this; rw [hc] at this; simpa using this)
    rw [Option.map_none, ldr2_tail_plain cfg.tags false rid _ _ _ _ ⟨x.s.name, x.idx⟩ none x.info hl h.get hnd rfl] at hp
    exact hp
  have hn : 1 ≤ x.n ∧ x.n ≤ (ldr2_locAt x.s x.c x.sz x.i x.dim).avail ∧ x.n < 65536 :=
    ⟨hn1, by simp only [ldr2_locAt]; omega, by omega⟩
  refine ldmx_served_ok cfg st cap (ldmx_entWin cfg x) (ldr2_locAt x.s x.c x.sz x.i x.dim) _ (ldr2_value x.vs)
    (ldr2_typeStr x.name x.n) hparse ?_ ?_ hr hn hbts rfl rfl hreply rfl ?_ ?_ hc
  · show requestPathOf cfg x.plc x.info = .ok (ldrn_pathOf cfg x.plc x.info)
    rw [hpo]; exact hpb
  · show Denotes (ldrn_pathOf cfg x.plc x.info) _
    rw [hpo]; exact hden
  · intro rid rs hget
    exact ldr2_readResult_get (ldmx_parsedAt rid (ldmx_entWin cfg x)) x.info x.out rs rfl rfl rfl
      (by rw [h.infoOf.typeName]; exact hndw)
      (ldr2_value_not_none x.c x.t haty h.notBits x.vs (fun k hk => by obtain ⟨r, hr⟩ := h.dec k hk; exact ⟨_, r, hr⟩))
      rfl hget
  · rw [hest.1]
    have : (typeBytes st.proj (ldr2_locAt x.s x.c x.sz x.i x.dim).ty).length = 2 := by
      simp [ldr2_locAt, typeBytes, le, RT.leBytes_length]
    rw [this, Nat.mul_comm x.sz x.n]
    have := hest.2.1
    omega

/-! ### one bit of an integer tag -/

/-- `name.b`: symbol, tag-database entry, type code / size / name / integer kind, the bit number -/
structure ldmx_Bit where
  s : Symbol
  info : TagInfo
  c : Nat
  sz : Nat
  name : Name
  k : IntK
  b : Nat

/-- the hypotheses of `read_int_bit_e2e` on one request -/
structure ldmx_BitOk (cfg : Cfg) (st : LState) (x : ldmx_Bit) : Prop where
  mem : x.s ∈ st.proj.controller
  uniqN : ∀ s' ∈ st.proj.controller, s'.name = x.s.name → s' = x.s
  uniqI : ∀ s' ∈ st.proj.controller, s'.inst = x.s.inst → s' = x.s
  ident : PlainIdent x.s.name
  inst32 : x.s.inst < 2 ^ 32
  ty : elTyOfWord x.s.symbolType = .atomic x.c
  atomic : atomicOfCode x.c = some (x.name, .int x.k)
  size : atomicSize x.c = some x.sz
  memLen : x.s.mem.length = x.sz
  get : cfg.tags.get? x.s.name = some x.info
  infoOf : ldr_InfoOf x.info x.name (.int x.k) x.s.inst
  /-- the bit number is inside the integer -/
  bit : x.b < 8 * x.sz

def ldmx_Bit.request (x : ldmx_Bit) : Name := ldr2_tagStr ⟨x.s.name, []⟩ (some x.b) none

/-- the integer the codec decodes from the memory -/
def ldmx_intVal (k : IntK) (mem : Bytes) : PyVal :=
  .int (if k.signed then toSigned k.size (leVal mem) else (leVal mem : Int))

/-- the Tag `read` returns: named as requested, BOOL, bit `b` of the little-endian memory -/
def ldmx_Bit.out (x : ldmx_Bit) : LTag :=
  { tag := x.request, value := .bool ((leVal x.s.mem).testBit x.b), type := some (nm "BOOL"), error := none }

def ldmx_entBit (cfg : Cfg) (x : ldmx_Bit) : ldmx_Ent :=
  { tag := x.request, user := x.request, plc := x.s.name, bit := some (x.b : Int), els := 1, boolEls := none,
    info := x.info, path := ldrn_pathOf cfg x.s.name x.info, segs := ldr_segs x.s.name x.s.inst cfg.useInstanceIds,
    reply := { status := 0, data := le 2 x.c ++ x.s.mem }, adv := 1,
    rcd := { tag := x.s.name, value := ldmx_intVal x.k x.s.mem, type := some x.name, error := none }, res := x.out }

theorem ldmx_decode_int (k : IntK) (mem : Bytes) (hlen : mem.length = k.size) :
    decode (.int k) mem = .ok (ldmx_intVal k mem, mem.drop k.size) := by
  have hpos : 0 < k.size := by cases k <;> decide
  have hneg : ¬ ((k.size : Int) < 0) := by omega
  have htake : mem.take k.size = mem := by rw [← hlen]; exact List.take_length
  have hne : mem.isEmpty = false := by
    cases hh : mem with
    | nil => rw [hh] at hlen; simp at hlen; omega
    | cons _ _ => rfl
  have hnl : ¬ (mem.length < k.size) := by omega
  simp only [decode, decodeIntVal, decodeIntNat, streamRead, bind, Except.bind, hneg, if_false, Int.toNat_natCast, htake,
    hne, Bool.false_eq_true, hnl, ldmx_intVal]

theorem ldmx_bit_est (cfg : Cfg) (st : LState) (x : ldmx_Bit) (h : ldmx_BitOk cfg st x) :
    ldmx_estE (ldmx_entBit cfg x) = x.sz + (ldrn_pathOf cfg x.s.name x.info).length + 7 ∧
    1 ≤ (ldrn_pathOf cfg x.s.name x.info).length ∧
    (ldrn_pathOf cfg x.s.name x.info).length ≤ x.s.name.length + 13 := by
  obtain ⟨_, hentry, _, _, _⟩ := ldr_atomic_table x.c x.sz x.name (.int x.k) h.atomic rfl h.size
  obtain ⟨pa, hpa, hpl, hden⟩ := ldr_requestPath cfg x.s.name x.info x.s.inst h.ident h.infoOf.instanceId h.inst32
  have hpo : ldrn_pathOf cfg x.s.name x.info = pa := by unfold ldrn_pathOf; rw [hpa]
  have hrs : tagReturnSize x.info 1 = x.sz := by simp [tagReturnSize, h.infoOf.struct, h.infoOf.typeName, hentry]
  have := ldrn_den_pos pa _ hden
  rw [ldmx_estE_eq]
  show tagReturnSize x.info 1 + (ldrn_pathOf cfg x.s.name x.info).length + 7 = _ ∧ _
  rw [hpo, hrs]
  exact ⟨rfl, this, hpl⟩

theorem ldmx_bit_ok (cfg : Cfg) (st : LState) (cap : Nat) (x : ldmx_Bit)
    (hbytes : ∀ s' ∈ st.proj.controller, ∀ ch ∈ s'.name, ch < 256)
    (h : ldmx_BitOk cfg st x) (hc : ldmx_estE (ldmx_entBit cfg x) + 10 ≤ cap + 2) :
    ldmx_EntOk cfg st cap (ldmx_entBit cfg x) := by
  obtain ⟨haty, hentry, hndw, hpos, hle8⟩ := ldr_atomic_table x.c x.sz x.name (.int x.k) h.atomic rfl h.size
  obtain ⟨hib, hksz⟩ := ldr2_intBits x.c x.sz x.name x.k h.atomic h.size
  have hb := h.bit
  have hl : ldr2_Level ⟨x.s.name, []⟩ := ⟨h.ident, by simp, by simp⟩
  have hrl : renderLevel ⟨x.s.name, []⟩ = x.s.name := by simp [renderLevel]
  have hlen := h.memLen
  have hdec := ldmx_decode_int x.k x.s.mem (by omega)
  have hnd : isDword x.info = false := by
    have : (x.name == nm "DWORD") = false := by simpa using hndw
    simp [isDword, h.infoOf.typeName, this]
  have hbad : lds_bitBad x.info (some (x.b : Int)) = false := by
    have hnle : ¬ (((x.sz * 8 : Nat) : Int) ≤ (x.b : Int)) := by omega
    simp only [lds_bitBad, h.infoOf.kind, h.infoOf.typeName, hib, hnle, decide_false, Bool.or_false]
    rfl
  obtain ⟨pa, hpa, hpl, hden⟩ := ldr_requestPath cfg x.s.name x.info x.s.inst h.ident h.infoOf.instanceId h.inst32
  have hpo : ldrn_pathOf cfg x.s.name x.info = pa := by unfold ldrn_pathOf; rw [hpa]
  have hest := ldmx_bit_est cfg st x h
  have hmem : x.s.mem ≠ [] := by
    intro hm; rw [hm, List.length_nil] at hlen; omega
  have hr := ldr_resolve st.proj x.s x.c x.sz cfg.useInstanceIds h.ident h.mem hbytes h.uniqN h.uniqI h.ty h.size hmem
  have hbts := ldr_readBytes st.proj x.s x.c x.sz h.mem h.uniqI h.size hlen
  have hav := ldr_dimsProduct_pos x.s.dims
  have hreply := ldr_parseReadReply x.info x.c (.int x.k) x.name x.s.mem _ _ h.infoOf.ty h.infoOf.typeName hndw haty rfl hdec
  have hparse : ∀ rid, parseTagRequest cfg.tags false rid x.request = ldmx_parsedAt rid (ldmx_entBit cfg x) := by
    intro rid
    have hp := ldr2_parse_unfold cfg.tags false rid ⟨x.s.name, []⟩ (some x.b) none hl (by intro n hc; cases hc)
    simp only [Option.map_some, Int.ofNat_eq_natCast] at hp
    rw [ldr2_tail_plain cfg.tags false rid _ _ _ _ ⟨x.s.name, []⟩ _ x.info hl h.get hnd hbad, hrl] at hp
    exact hp
  refine ldmx_served_ok cfg st cap (ldmx_entBit cfg x) (ldr_loc x.s x.c) x.s.mem (ldmx_intVal x.k x.s.mem) x.name hparse
    ?_ ?_ hr ⟨Nat.le_refl 1, hav, (by show (1 : Nat) < 65536; decide)⟩ hbts rfl rfl hreply rfl ?_ ?_ hc
  · show requestPathOf cfg x.s.name x.info = .ok (ldrn_pathOf cfg x.s.name x.info)
    rw [hpo]; exact hpa
  · show Denotes (ldrn_pathOf cfg x.s.name x.info) _
    rw [hpo]; exact hden
  · intro rid rs hget
    have hbv := ldr2_bitOfValue x.k x.s.mem _ _ x.b hdec (by omega) (by omega)
    exact ldmx_readResult_bit (ldmx_parsedAt rid (ldmx_entBit cfg x)) x.info _ rs x.b _ rfl rfl rfl
      (by rw [h.infoOf.typeName]; exact hndw) hbv rfl hget
  · rw [hest.1]
    have : (typeBytes st.proj (ldr_loc x.s x.c).ty).length = 2 := by
      simp [ldr_loc, typeBytes, le, RT.leBytes_length]
    rw [this]
    have := hest.2.1
    omega

/-! ### one element of a BOOL array -/

/-- `name[i]` of a BOOL array (a one-dimensional DWORD array tag of `dim` words) -/
structure ldmx_BoolEl where
  s : Symbol
  info : TagInfo
  dim : Nat
  i : Nat

/-- the hypotheses of `read_bool_array_element_e2e` on one request -/
structure ldmx_BoolElOk (cfg : Cfg) (st : LState) (x : ldmx_BoolEl) : Prop where
  mem : x.s ∈ st.proj.controller
  uniqN : ∀ s' ∈ st.proj.controller, s'.name = x.s.name → s' = x.s
  uniqI : ∀ s' ∈ st.proj.controller, s'.inst = x.s.inst → s' = x.s
  ident : PlainIdent x.s.name
  inst32 : x.s.inst < 2 ^ 32
  ty : elTyOfWord x.s.symbolType = .atomic 0xD3
  dims : x.s.dims.filter (· != 0) = [x.dim]
  memLen : x.s.mem.length = x.dim * 4
  get : cfg.tags.get? x.s.name = some x.info
  infoOf : ldr_InfoOf x.info (nm "DWORD") (.arr (.fixed x.dim) (.bits .udint)) x.s.inst
  /-- the index is inside the array, the word count fits the 16-bit element count -/
  inside : x.i < 32 * x.dim
  words16 : x.i / 32 + 1 ≤ 65535

def ldmx_BoolEl.request (x : ldmx_BoolEl) : Name := renderLevel ⟨x.s.name, [x.i]⟩

/-- the number of DWORDs read -/
def ldmx_BoolEl.words (x : ldmx_BoolEl) : Nat := x.i / 32 + 1

/-- the Tag `read` returns: named as requested, BOOL, bit `i % 32` of DWORD `i / 32` -/
def ldmx_BoolEl.out (x : ldmx_BoolEl) : LTag :=
  { tag := x.request, value := .bool ((leVal ((x.s.mem.drop (4 * (x.i / 32))).take 4)).testBit (x.i % 32)),
    type := some (nm "BOOL"), error := none }

def ldmx_entBoolEl (cfg : Cfg) (x : ldmx_BoolEl) : ldmx_Ent :=
  { tag := x.request, user := x.request, plc := renderLevel ⟨x.s.name, [0]⟩, bit := some (x.i : Int), els := x.words,
    boolEls := none, info := x.info, path := ldrn_pathOf cfg (renderLevel ⟨x.s.name, [0]⟩) x.info,
    segs := ldr_segs x.s.name x.s.inst cfg.useInstanceIds ++ [PSeg.logical 8 0],
    reply := { status := 0, data := le 2 0xD3 ++ (x.s.mem.drop 0).take (x.words * 4) }, adv := 1,
    rcd := { tag := renderLevel ⟨x.s.name, [0]⟩, value := .list ((ldr2_dwords x.s.mem x.words).flatMap (natToBits 32)),
             type := some (nm "BOOL[" ++ renderDec ((x.words * 32 : Nat) : Int) ++ [93]), error := none },
    res := x.out }

theorem ldmx_boolEl_est (cfg : Cfg) (st : LState) (x : ldmx_BoolEl) (h : ldmx_BoolElOk cfg st x) :
    ldmx_estE (ldmx_entBoolEl cfg x) = 4 * x.words + (ldrn_pathOf cfg (renderLevel ⟨x.s.name, [0]⟩) x.info).length + 7 ∧
    1 ≤ (ldrn_pathOf cfg (renderLevel ⟨x.s.name, [0]⟩) x.info).length ∧
    (ldrn_pathOf cfg (renderLevel ⟨x.s.name, [0]⟩) x.info).length ≤ x.s.name.length + 19 := by
  have hl0 : ldr2_Level ⟨x.s.name, [0]⟩ := ⟨h.ident, by simp, by simp⟩
  have hentry : typeEntryOfName (nm "DWORD") = some (nm "DWORD", 0xD3, 4) := by decide
  obtain ⟨pb, hpb, hplb, hden⟩ := ldr2_requestPath cfg ⟨x.s.name, [0]⟩ x.info x.s.inst hl0 h.infoOf.instanceId h.inst32
  have hpo : ldrn_pathOf cfg (renderLevel ⟨x.s.name, [0]⟩) x.info = pb := by unfold ldrn_pathOf; rw [hpb]
  have hrs : tagReturnSize x.info x.words = 4 * x.words := by
    simp [tagReturnSize, h.infoOf.struct, h.infoOf.typeName, hentry]
  have := ldrn_den_pos pb _ hden
  have hplb' : pb.length ≤ x.s.name.length + 13 + 6 * 1 := hplb
  rw [ldmx_estE_eq]
  show tagReturnSize x.info x.words + (ldrn_pathOf cfg (renderLevel ⟨x.s.name, [0]⟩) x.info).length + 7 = _ ∧ _
  rw [hpo, hrs]
  exact ⟨rfl, this, by omega⟩

theorem ldmx_boolEl_ok (cfg : Cfg) (st : LState) (cap : Nat) (x : ldmx_BoolEl)
    (hbytes : ∀ s' ∈ st.proj.controller, ∀ ch ∈ s'.name, ch < 256)
    (h : ldmx_BoolElOk cfg st x) (hc : ldmx_estE (ldmx_entBoolEl cfg x) + 10 ≤ cap + 2) :
    ldmx_EntOk cfg st cap (ldmx_entBoolEl cfg x) := by
  have hi := h.inside
  have hw16 := h.words16
  have hlen := h.memLen
  have hwd : x.words = x.i / 32 + 1 := rfl
  have hi32 : x.i < 2 ^ 32 := by omega
  have hl : ldr2_Level ⟨x.s.name, [x.i]⟩ := ⟨h.ident, by simp, by simp [hi32]⟩
  have hl0 : ldr2_Level ⟨x.s.name, [0]⟩ := ⟨h.ident, by simp, by simp⟩
  have hsz : atomicSize 0xD3 = some 4 := rfl
  have hdw : isDword x.info = true := by simp [isDword, h.infoOf.kind, h.infoOf.typeName]
  have hwords : ((x.i : Int) + 1) / 32 + (if ((x.i : Int) + 1) % 32 ≠ 0 then 1 else 0) = ((x.i / 32 + 1 : Nat) : Int) := by
    split <;> omega
  obtain ⟨pb, hpb, hplb, hden⟩ := ldr2_requestPath cfg ⟨x.s.name, [0]⟩ x.info x.s.inst hl0 h.infoOf.instanceId h.inst32
  have hpo : ldrn_pathOf cfg (renderLevel ⟨x.s.name, [0]⟩) x.info = pb := by unfold ldrn_pathOf; rw [hpb]
  have hest := ldmx_boolEl_est cfg st x h
  have hmem : x.s.mem ≠ [] := by
    intro hm
    rw [hm, List.length_nil] at hlen
    omega
  have hr := ldr2_resolve_elem st.proj x.s 0xD3 4 cfg.useInstanceIds 0 x.dim h.ident h.mem hbytes h.uniqN h.uniqI h.ty hsz
    hmem h.dims (by omega)
  have hbts := ldr2_readBytes_elem st.proj x.s 0xD3 4 0 x.dim x.words h.mem h.uniqI hsz hlen (by omega)
  rw [Nat.zero_mul] at hbts
  have hreply := ldr2_parseReadReply_dword x.info x.dim x.s.mem x.words h.infoOf.ty h.infoOf.typeName (by omega) (by omega)
  have hbl : ((x.s.mem.drop 0).take (x.words * 4)).length ≤ x.words * 4 := by
    rw [List.length_take]; exact Nat.min_le_left _ _
  have hparse : ∀ rid, parseTagRequest cfg.tags false rid x.request = ldmx_parsedAt rid (ldmx_entBoolEl cfg x) := by
    intro rid
    have hp := ldr2_parse_unfold cfg.tags false rid ⟨x.s.name, [x.i]⟩ none none hl (by intro n hc; cases hc)
    rw [Option.map_none, ldr2_tagStr_plain] at hp
    have htail := ldr2_tail_dword cfg.tags rid (renderLevel ⟨x.s.name, [x.i]⟩) (renderLevel ⟨x.s.name, [x.i]⟩) 1 true
      x.s.name x.i x.info hl h.get hdw (by rw [hwords]; omega)
    rw [hwords] at htail
    simp only [Bool.true_or, if_true] at htail
    have h1 : (((none : Option Nat).getD 1 : Nat) : Int) = 1 := rfl
    rw [h1] at hp
    simp only [Option.isNone_none] at hp
    rw [htail, ldr2_zeroIdx] at hp
    exact hp
  have hn : 1 ≤ x.words ∧ x.words ≤ (ldr2_locAt x.s 0xD3 4 0 x.dim).avail ∧ x.words < 65536 :=
    ⟨by omega, by simp only [ldr2_locAt]; omega, by omega⟩
  refine ldmx_served_ok cfg st cap (ldmx_entBoolEl cfg x) (ldr2_locAt x.s 0xD3 4 0 x.dim) _
    (.list ((ldr2_dwords x.s.mem x.words).flatMap (natToBits 32)))
    (nm "BOOL[" ++ renderDec ((x.words * 32 : Nat) : Int) ++ [93]) hparse ?_ ?_ hr hn hbts rfl rfl hreply rfl ?_ ?_ hc
  · show requestPathOf cfg (renderLevel ⟨x.s.name, [0]⟩) x.info = .ok (ldrn_pathOf cfg (renderLevel ⟨x.s.name, [0]⟩) x.info)
    rw [hpo]; exact hpb
  · show Denotes (ldrn_pathOf cfg (renderLevel ⟨x.s.name, [0]⟩) x.info) _
    rw [hpo]; exact hden
  · intro rid rs hget
    have hget2 := ldr2_flat_get (ldr2_dwords x.s.mem x.words) x.i (by simp [ldr2_dwords]; omega)
    rw [ldr2_dwords_getD x.s.mem x.words (x.i / 32) (by omega)] at hget2
    exact ldmx_readResult_dword (ldmx_parsedAt rid (ldmx_entBoolEl cfg x)) x.info _ rs _ x.i _ rfl rfl rfl rfl
      h.infoOf.typeName rfl rfl hget2 hget
  · rw [hest.1]
    have : (typeBytes st.proj (ldr2_locAt x.s 0xD3 4 0 x.dim).ty).length = 2 := by
      simp [ldr2_locAt, typeBytes, le, RT.leBytes_length]
    rw [this]
    have := hest.2.1
    omega

end Pycomm.Lgx.Drv
