/-
  Helper lemmas for C04 at the level of the Logix driver model (LogixDriverFit.lean), part 3:
  the frames `_send_requests` writes to the socket (every one a SendUnitData frame of a message that is within the
  connection size), the logs of the two fragment loops.
-/
import PycommProofs.LDFitBuild
namespace Pycomm.Lgx.Drv
open Pycomm.Tgt Pycomm.Path Pycomm.Reply

/-! ### one frame on the socket -/

theorem ldf_sockSend_sent {σ} (hook : ObjHook σ) (n : Cli.Net σ) (frame : Bytes) :
    ((n.sockSend hook frame).1.sent = n.sent ∧ ∃ e, (n.sockSend hook frame).2 = .error e) ∨
    (n.sockSend hook frame).1.sent = n.sent ++ [frame] := by
  unfold Cli.Net.sockSend
  dsimp only
  split
  · exact .inl ⟨rfl, _, rfl⟩
  · split
    · exact .inr rfl
    · exact .inr rfl

theorem ldf_sockReceive_sent {σ} (n : Cli.Net σ) : n.sockReceive.1.sent = n.sent := by
  unfold Cli.Net.sockReceive
  dsimp only
  split
  · rfl
  · split <;> rfl

/-- `send`: the driver attributes are untouched; nothing was written and the call failed, or the request was built
    and exactly its frame was written -/
theorem ldf_sendReq_sent {σ} (hook : ObjHook σ) (w : Cli.World σ) (r : Encap.Req) (nr : Bool) :
    (Cli.sendReq hook w r nr).1.drv = w.drv ∧
    (((Cli.sendReq hook w r nr).1.net.sent = w.net.sent ∧ ∃ e, (Cli.sendReq hook w r nr).2 = .error e) ∨
      ∃ frame, Encap.buildRequest r w.drv.ctx = .ok frame ∧ (Cli.sendReq hook w r nr).1.net.sent = w.net.sent ++ [frame]) := by
  unfold Cli.sendReq
  split
  · exact ⟨rfl, .inl ⟨rfl, _, rfl⟩⟩
  · next frame hb =>
    split
    · exact ⟨rfl, .inl ⟨rfl, _, rfl⟩⟩
    · have h1 := ldf_sockSend_sent hook w.net frame
      dsimp only
      split
      · next hs =>
        refine ⟨rfl, ?_⟩
        rcases h1 with ⟨h1, _⟩ | h1
        · exact .inl ⟨h1, _, rfl⟩
        · exact .inr ⟨frame, hb, h1⟩
      · next hs =>
        have h1' : (w.net.sockSend hook frame).1.sent = w.net.sent ++ [frame] := by
          rcases h1 with ⟨_, e, he⟩ | h1
          · rw [hs] at he; cases he
          · exact h1
        have h2 := ldf_sockReceive_sent (w.net.sockSend hook frame).1
        split
        · exact ⟨rfl, .inr ⟨frame, hb, h1'⟩⟩
        · split
          · exact ⟨rfl, .inr ⟨frame, hb, by dsimp only; rw [h2, h1']⟩⟩
          · exact ⟨rfl, .inr ⟨frame, hb, by dsimp only; rw [h2, h1']⟩⟩

/-- `f` is the SendUnitData frame the driver builds (encapsulation context `ctx`) for the message `m` -/
def ldf_FrameOf (ctx : Encap.Ctx) (f m : Bytes) : Prop := ∃ seq, Encap.buildRequest (.sendUnit seq m) ctx = .ok f

/-- `f` is a SendUnitData frame whose connected data item — the 2-byte sequence count and the message — is at most `C` bytes -/
def ldf_UnitFits (ctx : Encap.Ctx) (C : Nat) (f : Bytes) : Prop := ∃ m, ldf_FrameOf ctx f m ∧ 2 + m.length ≤ C

/-- `fs` are the frames of the messages `ms`, in order -/
inductive ldf_FramesOf (ctx : Encap.Ctx) : List Bytes → List Bytes → Prop
  | nil : ldf_FramesOf ctx [] []
  | cons {f m : Bytes} {fs ms : List Bytes} : ldf_FrameOf ctx f m → ldf_FramesOf ctx fs ms → ldf_FramesOf ctx (f :: fs) (m :: ms)

theorem ldf_FramesOf_index {ctx : Encap.Ctx} {fs ms : List Bytes} (h : ldf_FramesOf ctx fs ms) :
    fs.length = ms.length ∧ ∀ i (h1 : i < fs.length) (h2 : i < ms.length), ldf_FrameOf ctx fs[i] ms[i] := by
  induction h with
  | nil => exact ⟨rfl, fun i h1 => by cases h1⟩
  | cons h1 _ ih =>
    refine ⟨by simp [ih.1], ?_⟩
    intro i hi1 hi2
    cases i with
    | zero => exact h1
    | succ i => exact ih.2 i (by simpa using hi1) (by simpa using hi2)

theorem ldf_FramesOf_fits {ctx : Encap.Ctx} {C : Nat} {fs ms : List Bytes} (h : ldf_FramesOf ctx fs ms)
    (hm : ∀ m ∈ ms, 2 + m.length ≤ C) : ∀ f ∈ fs, ldf_UnitFits ctx C f := by
  induction h with
  | nil => intro f hf; cases hf
  | cons h1 _ ih =>
    intro f hf
    rcases List.mem_cons.1 hf with rfl | hf
    · exact ⟨_, h1, hm _ List.mem_cons_self⟩
    · exact ih (fun m hm' => hm m (List.mem_cons_of_mem _ hm')) f hf

/-- from `w` to `w'` the encapsulation context and the connection size are unchanged and the frames written are
    SendUnitData frames within `C` -/
structure ldf_Ext (C : Nat) {σ} (w w' : Cli.World σ) : Prop where
  ctx : w'.drv.ctx = w.drv.ctx
  size : w'.drv.connectionSize = w.drv.connectionSize
  sent : ∃ fs, w'.net.sent = w.net.sent ++ fs ∧ ∀ f ∈ fs, ldf_UnitFits w.drv.ctx C f

theorem ldf_Ext_refl (C : Nat) {σ} (w : Cli.World σ) : ldf_Ext C w w :=
  ⟨rfl, rfl, [], by simp, fun f hf => by cases hf⟩

theorem ldf_Ext_trans {C : Nat} {σ} {a b c : Cli.World σ} (h1 : ldf_Ext C a b) (h2 : ldf_Ext C b c) : ldf_Ext C a c := by
  obtain ⟨c1, s1, fs1, e1, f1⟩ := h1
  obtain ⟨c2, s2, fs2, e2, f2⟩ := h2
  refine ⟨c2.trans c1, s2.trans s1, fs1 ++ fs2, by rw [e2, e1, List.append_assoc], ?_⟩
  intro f hf
  rcases List.mem_append.1 hf with hf | hf
  · exact f1 f hf
  · rw [← c1]; exact f2 f hf

theorem ldf_nextSeq_ctx (d : Cli.Drv) : d.nextSeq.2.ctx = d.ctx ∧ d.nextSeq.2.connectionSize = d.connectionSize :=
  ⟨rfl, rfl⟩

/-- drawing a sequence number writes nothing -/
theorem ldf_Ext_seq (C : Nat) {σ} (w : Cli.World σ) : ldf_Ext C w { w with drv := w.drv.nextSeq.2 } :=
  ⟨rfl, rfl, [], by simp, fun f hf => by cases hf⟩

/-- one connected request: at most the frame of `msg` is written; on success exactly that frame -/
theorem ldf_sendUnit_sent {σ} (hook : ObjHook σ) (w : Cli.World σ) (seq : Nat) (msg : Bytes) :
    (sendUnit hook w seq msg).1.drv = w.drv ∧
    (((sendUnit hook w seq msg).1.net.sent = w.net.sent ∧ ∃ e, (sendUnit hook w seq msg).2 = .error e) ∨
      ∃ f, ldf_FrameOf w.drv.ctx f msg ∧ (sendUnit hook w seq msg).1.net.sent = w.net.sent ++ [f]) := by
  obtain ⟨h1, h2⟩ := ldf_sendReq_sent hook w (.sendUnit seq msg) false
  refine ⟨h1, ?_⟩
  rcases h2 with h2 | ⟨f, hb, hs⟩
  · exact .inl h2
  · exact .inr ⟨f, ⟨seq, hb⟩, hs⟩

theorem ldf_sendUnit_ext {σ} (hook : ObjHook σ) (w : Cli.World σ) (seq : Nat) (msg : Bytes) (C : Nat)
    (hfit : 2 + msg.length ≤ C) : ldf_Ext C w (sendUnit hook w seq msg).1 := by
  obtain ⟨h1, h2⟩ := ldf_sendUnit_sent hook w seq msg
  refine ⟨by rw [h1], by rw [h1], ?_⟩
  rcases h2 with ⟨h2, _⟩ | ⟨f, hf, hs⟩
  · exact ⟨[], by simp [h2], fun f hf => by cases hf⟩
  · refine ⟨[f], hs, ?_⟩
    intro g hg
    simp only [List.mem_singleton] at hg
    subst hg
    exact ⟨msg, hf, hfit⟩

/-! ### the fragmented read loop, with a log -/

/-- `readFragLoop` instrumented: besides its result, one log entry per iteration — the byte offset asked for and the
    value bytes the reply delivered (`[]` when the exchange failed or the reply carried no data) -/
def ldf_readFragLog {σ} (hook : ObjHook σ) (req : ReadReq) :
    Nat → Cli.World σ → (seq offset : Nat) → (acc : Bytes) → (allOk : Bool) →
      (Cli.World σ × Except Exn (Resp × PyVal × Option Name)) × List (Nat × Bytes)
  | 0, w, _, _, _, _ => ((w, .error .hang), [])
  | fuel + 1, w, seq, offset, acc, allOk =>
      let (w1, r) := sendUnit hook w seq (Cl.readFragMsg req.path req.elements offset)
      match r with
      | .error e => ((w1, .error e), [(offset, [])])
      | .ok raw =>
          let resp := tagResp raw
          match resp.p.data with
          | none =>
              match resp.error with
              | .error e => ((w1, .error e), [(offset, [])])
              | .ok _ => ((w1, .ok (failedResp "One or more fragment responses failed", .none, none)), [(offset, [])])
          | some d =>
              let (ty, vb) := Cl.splitTyped d
              if resp.p.serviceStatus == some Gen.INSUFFICIENT_PACKETS then
                let (seq', d') := w1.drv.nextSeq
                let (res, log) := ldf_readFragLog hook req fuel { w1 with drv := d' } seq' (offset + vb.length) (acc ++ vb)
                  (allOk && resp.valid)
                (res, (offset, vb) :: log)
              else
                match resp.error with
                | .error e => ((w1, .error e), [(offset, vb)])
                | .ok _ =>
                  if allOk && resp.valid then
                    match parseReadReply (ty ++ acc ++ vb) req.info req.elements with
                    | .ok (v, dt) => ((w1, .ok (resp, v, some dt)), [(offset, vb)])
                    | .error _ => ((w1, .ok ({ resp with p := { resp.p with err := some .parseFailed }, valid := false }, .none, none)),
                        [(offset, vb)])
                  else ((w1, .ok (failedResp "One or more fragment responses failed", .none, none)), [(offset, vb)])

/-- the instrumentation does not change the loop -/
theorem ldf_readFragLog_fst {σ} (hook : ObjHook σ) (req : ReadReq) (fuel : Nat) :
    ∀ (w : Cli.World σ) (seq offset : Nat) (acc : Bytes) (allOk : Bool),
      (ldf_readFragLog hook req fuel w seq offset acc allOk).1 = readFragLoop hook req fuel w seq offset acc allOk := by
  induction fuel with
  | zero => intro w seq offset acc allOk; rfl
  | succ fuel ih =>
    intro w seq offset acc allOk
    rw [ldf_readFragLog, readFragLoop]
    rcases sendUnit hook w seq (Cl.readFragMsg req.path req.elements offset) with ⟨w1, r⟩
    dsimp only
    cases r with
    | error e => rfl
    | ok raw =>
      dsimp only
      cases (tagResp raw).p.data with
      | none =>
        dsimp only
        cases (tagResp raw).error with
        | error e => rfl
        | ok x => rfl
      | some d =>
        dsimp only
        split
        · dsimp only
          rw [← ih]
        · cases (tagResp raw).error with
          | error e => rfl
          | ok x =>
            dsimp only
            split
            · generalize parseReadReply _ req.info req.elements = pr
              cases pr with
              | error e => rfl
              | ok x => obtain ⟨v, dt⟩ := x; rfl
            · rfl

/-- the offsets of the log: every request asks for the starting offset plus the number of value bytes the earlier
    replies delivered -/
theorem ldf_readFragLog_offsets {σ} (hook : ObjHook σ) (req : ReadReq) (fuel : Nat) :
    ∀ (w : Cli.World σ) (seq offset : Nat) (acc : Bytes) (allOk : Bool) (i : Nat)
      (hi : i < (ldf_readFragLog hook req fuel w seq offset acc allOk).2.length),
      ((ldf_readFragLog hook req fuel w seq offset acc allOk).2[i]).1 =
        offset + (((ldf_readFragLog hook req fuel w seq offset acc allOk).2.take i).map (·.2.length)).sum := by
  induction fuel with
  | zero => intro w seq offset acc allOk i hi; simp [ldf_readFragLog] at hi
  | succ fuel ih =>
    intro w seq offset acc allOk i
    rw [ldf_readFragLog]
    rcases sendUnit hook w seq (Cl.readFragMsg req.path req.elements offset) with ⟨w1, r⟩
    dsimp only
    have one : ∀ (vb : Bytes) (i : Nat) (hi : i < [(offset, vb)].length),
        ([(offset, vb)][i]).1 = offset + (([(offset, vb)].take i).map (·.2.length)).sum := by
      intro vb i hi
      have : i = 0 := by simpa using hi
      subst this; simp
    cases r with
    | error e => exact one _ i
    | ok raw =>
      dsimp only
      cases (tagResp raw).p.data with
      | none => dsimp only; split <;> exact one _ i
      | some d =>
        dsimp only
        split
        · dsimp only
          intro hi
          cases i with
          | zero => simp
          | succ i =>
            simp only [List.length_cons, Nat.add_lt_add_iff_right] at hi
            simp only [List.getElem_cons_succ, List.take_succ_cons, List.map_cons, List.sum_cons]
            rw [ih _ _ _ _ _ i hi]
            omega
        · split
          · exact one _ i
          · split
            · split <;> exact one _ i
            · exact one _ i

/-- the frames the loop writes are, in order, the frames of the fragmented-read requests for the logged offsets
    (the last logged request may have produced no frame: the transport refused it) -/
theorem ldf_readFragLog_frames {σ} (hook : ObjHook σ) (req : ReadReq) (fuel : Nat) :
    ∀ (w : Cli.World σ) (seq offset : Nat) (acc : Bytes) (allOk : Bool),
      (ldf_readFragLog hook req fuel w seq offset acc allOk).1.1.drv.ctx = w.drv.ctx ∧
      (ldf_readFragLog hook req fuel w seq offset acc allOk).1.1.drv.connectionSize = w.drv.connectionSize ∧
      ∃ fs k, (ldf_readFragLog hook req fuel w seq offset acc allOk).1.1.net.sent = w.net.sent ++ fs ∧
        ldf_FramesOf w.drv.ctx fs
          (((ldf_readFragLog hook req fuel w seq offset acc allOk).2.take k).map fun e =>
            Cl.readFragMsg req.path req.elements e.1) ∧
        (∀ x, (ldf_readFragLog hook req fuel w seq offset acc allOk).1.2 = .ok x →
          (ldf_readFragLog hook req fuel w seq offset acc allOk).2.length ≤ k) := by
  induction fuel with
  | zero =>
    intro w seq offset acc allOk
    exact ⟨rfl, rfl, [], 0, by simp [ldf_readFragLog], ldf_FramesOf.nil, fun x hx => by cases hx⟩
  | succ fuel ih =>
    intro w seq offset acc allOk
    rw [ldf_readFragLog]
    obtain ⟨hd, hs⟩ := ldf_sendUnit_sent hook w seq (Cl.readFragMsg req.path req.elements offset)
    rcases hsu : sendUnit hook w seq (Cl.readFragMsg req.path req.elements offset) with ⟨w1, r⟩
    rw [hsu] at hd hs
    dsimp only at hd hs ⊢
    -- a last iteration: one log entry, nothing or the one frame written
    have last : ∀ (vb : Bytes) (res : Except Exn (Resp × PyVal × Option Name)),
        ((∃ e, r = .error e) → ∃ e, res = .error e) →
        w1.drv.ctx = w.drv.ctx ∧ w1.drv.connectionSize = w.drv.connectionSize ∧
        ∃ fs k, w1.net.sent = w.net.sent ++ fs ∧
          ldf_FramesOf w.drv.ctx fs ((([(offset, vb)] : List (Nat × Bytes)).take k).map fun e =>
            Cl.readFragMsg req.path req.elements e.1) ∧
          (∀ x, res = .ok x → ([(offset, vb)] : List (Nat × Bytes)).length ≤ k) := by
      intro vb res hres
      refine ⟨by rw [hd], by rw [hd], ?_⟩
      rcases hs with ⟨hs, he⟩ | ⟨f, hf, hs⟩
      · refine ⟨[], 0, by simp [hs], ldf_FramesOf.nil, ?_⟩
        intro x hx
        obtain ⟨e, he'⟩ := hres he
        rw [he'] at hx; cases hx
      · exact ⟨[f], 1, hs, ldf_FramesOf.cons hf ldf_FramesOf.nil, fun _ _ => Nat.le_refl _⟩
    cases r with
    | error e => exact last [] _ (fun _ => ⟨e, rfl⟩)
    | ok raw =>
      have nores : ∀ (res : Except Exn (Resp × PyVal × Option Name)),
          (∃ e, (Except.ok raw : Except Exn (Option Bytes)) = .error e) → ∃ e, res = .error e := by
        intro res ⟨e, he⟩; cases he
      dsimp only
      cases (tagResp raw).p.data with
      | none => dsimp only; split <;> exact last [] _ (nores _)
      | some d =>
        dsimp only
        split
        · dsimp only
          obtain ⟨c2, s2, fs2, k2, e2, f2, l2⟩ := ih { w1 with drv := w1.drv.nextSeq.2 } w1.drv.nextSeq.1
            (offset + (Cl.splitTyped d).2.length) (acc ++ (Cl.splitTyped d).2) (allOk && (tagResp raw).valid)
          refine ⟨c2.trans (by rw [hd]; rfl), s2.trans (by rw [hd]; rfl), ?_⟩
          rcases hs with ⟨_, e, he⟩ | ⟨f, hf, hs⟩
          · cases he
          · refine ⟨f :: fs2, k2 + 1, by rw [e2]; dsimp only; rw [hs]; simp, ?_, ?_⟩
            · simp only [List.take_succ_cons, List.map_cons]
              refine ldf_FramesOf.cons hf ?_
              have hc : ({ w1 with drv := w1.drv.nextSeq.2 } : Cli.World σ).drv.ctx = w.drv.ctx := by
                dsimp only; rw [(ldf_nextSeq_ctx w1.drv).1, hd]
              rw [← hc]; exact f2
            · intro x hx
              have := l2 x hx
              simp only [List.length_cons]; omega
        · split
          · exact last _ _ (nores _)
          · split
            · split <;> exact last _ _ (nores _)
            · exact last _ _ (nores _)

/-- a fragmented read that delivers a value has parsed it from the type bytes of the last reply and all the value
    bytes received, in the order received -/
theorem ldf_readFragLog_value {σ} (hook : ObjHook σ) (req : ReadReq) (fuel : Nat) :
    ∀ (w : Cli.World σ) (seq offset : Nat) (acc : Bytes) (allOk : Bool) (resp : Resp) (v : PyVal) (dt : Name),
      (ldf_readFragLog hook req fuel w seq offset acc allOk).1.2 = .ok (resp, v, some dt) →
      ∃ ty, parseReadReply (ty ++ acc ++ ((ldf_readFragLog hook req fuel w seq offset acc allOk).2.map (·.2)).flatten)
        req.info req.elements = .ok (v, dt) := by
  induction fuel with
  | zero => intro w seq offset acc allOk resp v dt h; cases h
  | succ fuel ih =>
    intro w seq offset acc allOk resp v dt
    rw [ldf_readFragLog]
    rcases sendUnit hook w seq (Cl.readFragMsg req.path req.elements offset) with ⟨w1, r⟩
    dsimp only
    cases r with
    | error e => intro h; cases h
    | ok raw =>
      dsimp only
      cases (tagResp raw).p.data with
      | none => dsimp only; split <;> (intro h; cases h)
      | some d =>
        dsimp only
        split
        · dsimp only
          intro h
          obtain ⟨ty, hty⟩ := ih _ _ _ _ _ resp v dt h
          refine ⟨ty, ?_⟩
          simp only [List.map_cons, List.flatten_cons]
          rw [← hty]
          simp only [List.append_assoc]
        · split
          · intro h; cases h
          · split
            · generalize hpr : parseReadReply ((Cl.splitTyped d).1 ++ acc ++ (Cl.splitTyped d).2) req.info req.elements = pr
              cases pr with
              | error e => intro h; cases h
              | ok x =>
                obtain ⟨v', dt'⟩ := x
                intro h
                simp only [Except.ok.injEq, Prod.mk.injEq, Option.some.injEq] at h
                obtain ⟨_, rfl, rfl⟩ := h
                exact ⟨(Cl.splitTyped d).1, by simpa using hpr⟩
            · intro h; cases h

/-- every frame the fragmented read loop writes fits the connection when the request path leaves room:
    sequence count 2 + service 1 + path + element count 2 + offset 4 -/
theorem ldf_readFragLoop_ext {σ} (hook : ObjHook σ) (req : ReadReq) (C : Nat) (hfit : req.path.length + 9 ≤ C) (fuel : Nat)
    (w : Cli.World σ) (seq offset : Nat) (acc : Bytes) (allOk : Bool) :
    ldf_Ext C w (readFragLoop hook req fuel w seq offset acc allOk).1 := by
  rw [← ldf_readFragLog_fst]
  obtain ⟨h1, h2, fs, k, h3, h4, _⟩ := ldf_readFragLog_frames hook req fuel w seq offset acc allOk
  refine ⟨h1, h2, fs, h3, ?_⟩
  refine ldf_FramesOf_fits h4 ?_
  intro m hm
  obtain ⟨e, _, rfl⟩ := List.mem_map.1 hm
  rw [ldf_readFragMsg_length]; omega

/-! ### the fragmented write loop -/

/-- the message of one segment -/
def ldf_segMsg (req : WriteReq) (s : Nat × Bytes) : Bytes := Cl.writeFragMsg req.path req.typeBytes req.elements s.1 s.2

/-- the frames `_send_write_fragmented` writes for a list of segments are, in order, the frames of the fragmented-write
    requests of a prefix of the segments — of all of them when the loop ends without an exception -/
theorem ldf_writeFragSend_frames {σ} (hook : ObjHook σ) (req : WriteReq) (segs : List (Nat × Bytes)) :
    ∀ (w : Cli.World σ) (allOk : Bool) (last : Option Resp),
      (writeFragSend hook req w segs allOk last).1.drv.ctx = w.drv.ctx ∧
      (writeFragSend hook req w segs allOk last).1.drv.connectionSize = w.drv.connectionSize ∧
      ∃ fs k, (writeFragSend hook req w segs allOk last).1.net.sent = w.net.sent ++ fs ∧
        ldf_FramesOf w.drv.ctx fs ((segs.take k).map (ldf_segMsg req)) ∧
        (∀ x, (writeFragSend hook req w segs allOk last).2 = .ok x → segs.length ≤ k) := by
  induction segs with
  | nil =>
    intro w allOk last
    exact ⟨rfl, rfl, [], 0, by simp [writeFragSend], ldf_FramesOf.nil, fun _ _ => Nat.le_refl _⟩
  | cons s rest ih =>
    intro w allOk last
    obtain ⟨off, seg⟩ := s
    rw [writeFragSend]
    dsimp only
    obtain ⟨hd, hs⟩ := ldf_sendUnit_sent hook { w with drv := w.drv.nextSeq.2 } w.drv.nextSeq.1
      (Cl.writeFragMsg req.path req.typeBytes req.elements off seg)
    rcases hsu : sendUnit hook { w with drv := w.drv.nextSeq.2 } w.drv.nextSeq.1
      (Cl.writeFragMsg req.path req.typeBytes req.elements off seg) with ⟨w1, r⟩
    rw [hsu] at hd hs
    dsimp only at hd hs ⊢
    have hc1 : w1.drv.ctx = w.drv.ctx := by rw [hd]; rfl
    have hs1 : w1.drv.connectionSize = w.drv.connectionSize := by rw [hd]; rfl
    cases r with
    | error e =>
      dsimp only
      refine ⟨hc1, hs1, ?_⟩
      rcases hs with ⟨hs, _⟩ | ⟨f, hf, hs⟩
      · exact ⟨[], 0, by simp [hs], ldf_FramesOf.nil, fun x hx => by cases hx⟩
      · exact ⟨[f], 1, hs, ldf_FramesOf.cons hf ldf_FramesOf.nil, fun x hx => by cases hx⟩
    | ok raw =>
      dsimp only
      obtain ⟨c2, s2, fs2, k2, e2, f2, l2⟩ := ih w1 (allOk && (tagResp raw).valid) (some (tagResp raw))
      refine ⟨c2.trans hc1, s2.trans hs1, ?_⟩
      rcases hs with ⟨_, e, he⟩ | ⟨f, hf, hs⟩
      · cases he
      · refine ⟨f :: fs2, k2 + 1, by rw [e2, hs]; simp, ?_, ?_⟩
        · simp only [List.take_succ_cons, List.map_cons]
          refine ldf_FramesOf.cons hf ?_
          rw [← hc1]; exact f2
        · intro x hx
          have := l2 x hx
          simp only [List.length_cons]; omega

/-- the segments of a fragmented write and the connection: with room for one value byte every request is exactly
    within the connection size (sequence count 2 + service 1 + path + type + element count 2 + offset 4 + segment) -/
theorem ldf_segMsg_fits (req : WriteReq) (C : Nat)
    (hroom : 2 + 1 + req.path.length + req.typeBytes.length + 2 + 4 < C) :
    ∀ s ∈ K.writeFragments (Cl.writeSegSize C req.path req.typeBytes) req.value, 2 + (ldf_segMsg req s).length ≤ C := by
  intro s hs
  have hpos : 0 < Cl.writeSegSize C req.path req.typeBytes := by unfold Cl.writeSegSize; omega
  have := ((K.write_fragments_tile _ hpos req.value).2.1 s hs).2
  unfold ldf_segMsg
  rw [ldf_writeFragMsg_length]
  unfold Cl.writeSegSize at this
  omega

theorem ldf_sendWriteFragmented_frames {σ} (hook : ObjHook σ) (w : Cli.World σ) (req : WriteReq) :
    (sendWriteFragmented hook w req).1.drv.ctx = w.drv.ctx ∧
    (sendWriteFragmented hook w req).1.drv.connectionSize = w.drv.connectionSize ∧
    ∃ fs k, (sendWriteFragmented hook w req).1.net.sent = w.net.sent ++ fs ∧
      ldf_FramesOf w.drv.ctx fs
        (((K.writeFragments (Cl.writeSegSize w.drv.connectionSize req.path req.typeBytes) req.value).take k).map (ldf_segMsg req)) ∧
      (fs ≠ [] → 2 + 1 + req.path.length + req.typeBytes.length + 2 + 4 < w.drv.connectionSize) ∧
      (∀ x, (sendWriteFragmented hook w req).2 = .ok x →
        2 + 1 + req.path.length + req.typeBytes.length + 2 + 4 < w.drv.connectionSize ∧ req.value ≠ [] ∧
        (K.writeFragments (Cl.writeSegSize w.drv.connectionSize req.path req.typeBytes) req.value).length ≤ k) := by
  unfold sendWriteFragmented
  dsimp only
  have none : ∀ (e : Exn), w.drv.ctx = w.drv.ctx ∧ w.drv.connectionSize = w.drv.connectionSize ∧
      ∃ fs k, w.net.sent = w.net.sent ++ fs ∧
        ldf_FramesOf w.drv.ctx fs
          (((K.writeFragments (Cl.writeSegSize w.drv.connectionSize req.path req.typeBytes) req.value).take k).map (ldf_segMsg req)) ∧
        (fs ≠ [] → 2 + 1 + req.path.length + req.typeBytes.length + 2 + 4 < w.drv.connectionSize) ∧
        (∀ x, (Except.error e : Except Exn Resp) = .ok x →
          2 + 1 + req.path.length + req.typeBytes.length + 2 + 4 < w.drv.connectionSize ∧ req.value ≠ [] ∧
          (K.writeFragments (Cl.writeSegSize w.drv.connectionSize req.path req.typeBytes) req.value).length ≤ k) :=
    fun e => ⟨rfl, rfl, [], 0, by simp, ldf_FramesOf.nil, fun h => absurd rfl h, fun x hx => by cases hx⟩
  split
  · exact none _
  · next hne =>
    split
    · exact none _
    · next h1 =>
      split
      · exact none _
      · next h2 =>
        have hroom : 2 + 1 + req.path.length + req.typeBytes.length + 2 + 4 < w.drv.connectionSize := by omega
        have hv : req.value ≠ [] := by
          intro h; rw [h] at hne; simp at hne
        obtain ⟨c, sz, fs, k, e, f, l⟩ := ldf_writeFragSend_frames hook req
          (K.writeFragments (Cl.writeSegSize w.drv.connectionSize req.path req.typeBytes) req.value) w true Option.none
        rcases hw : writeFragSend hook req w
          (K.writeFragments (Cl.writeSegSize w.drv.connectionSize req.path req.typeBytes) req.value) true Option.none with ⟨w1, r⟩
        rw [hw] at c sz e l
        dsimp only at c sz e l ⊢
        cases r with
        | error e' =>
          exact ⟨c, sz, fs, k, e, f, fun _ => hroom, fun x hx => by cases hx⟩
        | ok x =>
          obtain ⟨allOk, lastr⟩ := x
          dsimp only
          have hk := l _ rfl
          split <;> exact ⟨c, sz, fs, k, e, f, fun _ => hroom, fun _ _ => ⟨hroom, hv, hk⟩⟩

theorem ldf_sendWriteFragmented_ext {σ} (hook : ObjHook σ) (w : Cli.World σ) (req : WriteReq) :
    ldf_Ext w.drv.connectionSize w (sendWriteFragmented hook w req).1 := by
  obtain ⟨c, sz, fs, k, e, f, hr, _⟩ := ldf_sendWriteFragmented_frames hook w req
  refine ⟨c, sz, fs, e, ?_⟩
  by_cases hfs : fs = []
  · subst hfs; intro g hg; cases hg
  · refine ldf_FramesOf_fits f ?_
    intro m hm
    obtain ⟨s, hs, rfl⟩ := List.mem_map.1 hm
    exact ldf_segMsg_fits req _ (hr hfs) s (List.mem_of_mem_take hs)

/-! ### `_send_requests` -/

theorem ldf_rmwMessage_ok (r : RmwReq) (msg : Bytes) (h : rmwMessage r = .ok msg) : msg = Cl.rmwMsg r.path r.maskSize r.masks := by
  unfold rmwMessage at h
  split at h
  · cases h
  · split at h
    · cases h
    · cases h; rfl

/-- the message of every non-fragmented request is within `C`; a fragmented read has room for its fixed-size requests
    (a fragmented write needs no condition: it sizes its segments by the connection) -/
def ldf_SendFit (C : Nat) : Request → Prop
  | .read r => 2 + (Cl.readMsg r.path r.elements).length ≤ C
  | .readFrag r => r.path.length + 9 ≤ C
  | .write r => 2 + (Cl.writeMsg r.path r.typeBytes r.elements r.value).length ≤ C
  | .writeFrag _ => True
  | .rmw r => r.path.length + 5 + 2 * min r.maskSize 8 ≤ C
  | .multiRead _ rs => 2 + (Cl.multiMsg (rs.map fun q => Cl.readMsg q.path q.elements)).length ≤ C
  | .multiWrite _ rs => 2 + (Cl.multiMsg (rs.map fun q => Cl.writeMsg q.path q.typeBytes q.elements q.value)).length ≤ C

theorem ldf_sendRequest_ext {σ} (hook : ObjHook σ) (w : Cli.World σ) (rs : Results) (q : Request)
    (hfit : ldf_SendFit w.drv.connectionSize q) : ldf_Ext w.drv.connectionSize w (sendRequest hook w rs q).1 := by
  cases q with
  | read req =>
    have := ldf_sendUnit_ext hook w req.seq _ _ hfit
    rw [sendRequest]
    generalize sendUnit hook w req.seq (Cl.readMsg req.path req.elements) = res at this ⊢
    obtain ⟨w1, r⟩ := res
    dsimp only at this ⊢
    cases r <;> exact this
  | readFrag req =>
    have := ldf_readFragLoop_ext hook req _ hfit FRAG_FUEL w req.seq 0 [] true
    rw [sendRequest]
    generalize readFragLoop hook req FRAG_FUEL w req.seq 0 [] true = res at this ⊢
    obtain ⟨w1, r⟩ := res
    dsimp only at this ⊢
    cases r with
    | error e => exact this
    | ok x => obtain ⟨resp, v, dt⟩ := x; exact this
  | write req =>
    have := ldf_sendUnit_ext hook w req.seq _ _ hfit
    rw [sendRequest]
    generalize sendUnit hook w req.seq (Cl.writeMsg req.path req.typeBytes req.elements req.value) = res at this ⊢
    obtain ⟨w1, r⟩ := res
    dsimp only at this ⊢
    cases r <;> exact this
  | writeFrag req =>
    have := ldf_sendWriteFragmented_ext hook w req
    rw [sendRequest]
    generalize sendWriteFragmented hook w req = res at this ⊢
    obtain ⟨w1, r⟩ := res
    dsimp only at this ⊢
    cases r <;> exact this
  | rmw req =>
    rw [sendRequest]
    cases hm : rmwMessage req with
    | error e => exact ldf_Ext_refl _ w
    | ok msg =>
      dsimp only
      have hmsg := ldf_rmwMessage_ok req msg hm
      have hlen : 2 + msg.length ≤ w.drv.connectionSize := by
        rw [hmsg, ldf_rmwMsg_length]
        have : req.path.length + 5 + 2 * min req.maskSize 8 ≤ w.drv.connectionSize := hfit
        omega
      have := ldf_sendUnit_ext hook w req.seq msg _ hlen
      generalize sendUnit hook w req.seq msg = res at this ⊢
      obtain ⟨w1, r⟩ := res
      dsimp only at this ⊢
      cases r <;> exact this
  | multiRead seq reqs =>
    have := ldf_sendUnit_ext hook w seq _ _ hfit
    rw [sendRequest]
    generalize sendUnit hook w seq (Cl.multiMsg (reqs.map fun q => Cl.readMsg q.path q.elements)) = res at this ⊢
    obtain ⟨w1, r⟩ := res
    dsimp only at this ⊢
    cases r with
    | error e => exact this
    | ok raw => dsimp only; split <;> exact this
  | multiWrite seq reqs =>
    have := ldf_sendUnit_ext hook w seq _ _ hfit
    rw [sendRequest]
    generalize sendUnit hook w seq (Cl.multiMsg (reqs.map fun q => Cl.writeMsg q.path q.typeBytes q.elements q.value)) = res at this ⊢
    obtain ⟨w1, r⟩ := res
    dsimp only at this ⊢
    cases r with
    | error e => exact this
    | ok raw => dsimp only; split <;> exact this

theorem ldf_sendRequests_ext {σ} (hook : ObjHook σ) (C : Nat) (reqs : List Request) :
    ∀ (w : Cli.World σ) (rs : Results), w.drv.connectionSize = C → (∀ q ∈ reqs, ldf_SendFit C q) →
      ldf_Ext C w (sendRequests hook w rs reqs).1 := by
  induction reqs with
  | nil => intro w rs _ _; exact ldf_Ext_refl _ w
  | cons q rest ih =>
    intro w rs hC hfit
    rw [sendRequests]
    have h1 := ldf_sendRequest_ext hook w rs q (by rw [hC]; exact hfit q List.mem_cons_self)
    rw [hC] at h1
    generalize sendRequest hook w rs q = res at h1 ⊢
    obtain ⟨w1, r⟩ := res
    dsimp only at h1 ⊢
    cases r with
    | error e => exact h1
    | ok rs1 =>
      dsimp only
      exact ldf_Ext_trans h1 (ih w1 rs1 (h1.size.trans hC) (fun q hq => hfit q (List.mem_cons_of_mem _ hq)))

end Pycomm.Lgx.Drv
