/-
  Helper lemmas for C09 (EpathProofs): integer packing, one parser step, string splitting.
-/
import PycommModel.Epath
namespace Pycomm.EP
open Pycomm Pycomm.Path

theorem toNat_ofNat (n : Nat) : (UInt8.ofNat n).toNat = n % 256 := by
  simp [UInt8.toNat_ofNat']

theorem usint_nat (n : Nat) (h : n ≤ 255) : usint (n : Int) = .ok [UInt8.ofNat n] := by
  have h' : (n : Int) ≤ 255 := by omega
  have e : n % 256 = n := by omega
  simp [usint, packInt, PyVal.asIndex, IntK.lo, IntK.hi, IntK.size, IntK.signed, leBytes, ofSigned, h', e]

theorem usint_ok_inv (i : Int) (l : Bytes) (h : usint i = .ok l) : 0 ≤ i ∧ i ≤ 255 ∧ l = [UInt8.ofNat i.toNat] := by
  by_cases hh : 0 ≤ i ∧ i ≤ 255
  · have : i.toNat % 256 = i.toNat := by omega
    simp [usint, packInt, PyVal.asIndex, IntK.lo, IntK.hi, IntK.size, IntK.signed, leBytes, ofSigned, hh.1, hh.2, this] at h
    exact ⟨hh.1, hh.2, h.symm⟩
  · exfalso
    simp [usint, packInt, PyVal.asIndex, IntK.lo, IntK.hi, IntK.size, IntK.signed] at h
    rw [if_neg hh] at h; cases h

theorem uint_nat (n : Nat) (h : n ≤ 65535) :
    packInt .uint (.int (n : Int)) = .ok [UInt8.ofNat (n % 256), UInt8.ofNat (n / 256)] := by
  have h' : (n : Int) ≤ 65535 := by omega
  have e : n / 256 % 256 = n / 256 := by omega
  simp [packInt, PyVal.asIndex, IntK.lo, IntK.hi, IntK.size, IntK.signed, leBytes, ofSigned, h', e]

theorem udint_nat (n : Nat) (h : n ≤ 4294967295) :
    packInt .udint (.int (n : Int)) =
      .ok [UInt8.ofNat (n % 256), UInt8.ofNat (n / 256 % 256), UInt8.ofNat (n / 256 / 256 % 256),
           UInt8.ofNat (n / 256 / 256 / 256)] := by
  have h' : (n : Int) ≤ 4294967295 := by omega
  have e : n / 256 / 256 / 256 % 256 = n / 256 / 256 / 256 := by omega
  simp [packInt, PyVal.asIndex, IntK.lo, IntK.hi, IntK.size, IntK.signed, leBytes, ofSigned, h', e]


/-! ### one parser step -/

/-- a segment encoding that the strict parser reads back as `p`, consuming exactly these bytes and one unit of fuel -/
def SegOK (bs : Bytes) (p : PSeg) : Prop :=
  2 ≤ bs.length ∧ bs.length % 2 = 0 ∧
  ∀ rest fuel, rest.length + bs.length < fuel →
    parsePadded fuel (bs ++ rest) = (parsePadded (fuel - 1) rest).map (p :: ·)

theorem head_bits : ∀ k < 8, ∀ fmt < 4,
    (32 ||| (4 * k) ||| fmt) < 64 ∧ (32 ||| (4 * k) ||| fmt) / 32 = 1 ∧
    (32 ||| (4 * k) ||| fmt) % 32 / 4 * 4 = 4 * k ∧ (32 ||| (4 * k) ||| fmt) % 4 = fmt := by decide

theorem head_byte (ty fmt : Nat) (h4 : ty % 4 = 0) (h32 : ty < 32) (hf : fmt < 4) :
    (UInt8.ofNat (32 ||| ty ||| fmt)).toNat / 32 = 1 ∧
    (UInt8.ofNat (32 ||| ty ||| fmt)).toNat % 32 / 4 * 4 = ty ∧
    (UInt8.ofNat (32 ||| ty ||| fmt)).toNat % 4 = fmt := by
  have e : ty = 4 * (ty / 4) := by omega
  have hb := head_bits (ty / 4) (by omega) fmt hf
  rw [← e] at hb
  rw [toNat_ofNat]
  have : (32 ||| ty ||| fmt) % 256 = 32 ||| ty ||| fmt := by omega
  rw [this]
  exact ⟨hb.2.1, hb.2.2.1, hb.2.2.2⟩

theorem lookupName_mem {α} (k : Name) (l : List (Name × α)) (v : α) (h : lookupName k l = some v) : (k, v) ∈ l := by
  induction l with
  | nil => simp [lookupName] at h
  | cons a l ih =>
    obtain ⟨k', v'⟩ := a
    simp only [lookupName] at h
    split at h
    · rename_i hk; cases h; subst hk; simp
    · exact List.mem_cons_of_mem _ (ih h)

theorem logicalTypes_wf (ltype : Name) (ty : Nat) (h : lookupName ltype Gen.logicalTypes = some ty) :
    ty % 4 = 0 ∧ ty < 32 := by
  have hall : (Gen.logicalTypes.all fun e => e.2 % 4 == 0 && e.2 < 32) = true := by decide
  have := List.all_eq_true.mp hall _ (lookupName_mem _ _ _ h)
  simpa using this

theorem step_logical8 (x b : UInt8) (ty : Nat) (h1 : x.toNat / 32 = 1) (h2 : x.toNat % 32 / 4 * 4 = ty)
    (h3 : x.toNat % 4 = 0) (rest : Bytes) (k : Nat) :
    parsePadded (k + 1) (x :: b :: rest) = (parsePadded k rest).map (PSeg.logical ty b.toNat :: ·) := by
  simp [parsePadded, h1, h2, h3]

theorem step_logical16 (x a b : UInt8) (ty v : Nat) (h1 : x.toNat / 32 = 1) (h2 : x.toNat % 32 / 4 * 4 = ty)
    (h3 : x.toNat % 4 = 1) (hv : a.toNat + 256 * b.toNat = v) (rest : Bytes) (k : Nat) :
    parsePadded (k + 1) (x :: 0 :: a :: b :: rest) = (parsePadded k rest).map (PSeg.logical ty v :: ·) := by
  simp [parsePadded, h1, h2, h3, hv]

theorem step_logical32 (x a b c d : UInt8) (ty v : Nat) (h1 : x.toNat / 32 = 1) (h2 : x.toNat % 32 / 4 * 4 = ty)
    (h3 : x.toNat % 4 = 2) (hv : a.toNat + 256 * b.toNat + 65536 * c.toNat + 16777216 * d.toNat = v)
    (rest : Bytes) (k : Nat) :
    parsePadded (k + 1) (x :: 0 :: a :: b :: c :: d :: rest) = (parsePadded k rest).map (PSeg.logical ty v :: ·) := by
  simp [parsePadded, h1, h2, h3, hv]

theorem segok_logical8 (ty : Nat) (h4 : ty % 4 = 0) (h32 : ty < 32) (b : UInt8) :
    SegOK [UInt8.ofNat (32 ||| ty ||| 0), b] (PSeg.logical ty b.toNat) := by
  refine ⟨by simp, by simp, ?_⟩
  intro rest fuel hf
  obtain ⟨k, rfl⟩ : ∃ k, fuel = k + 1 := ⟨fuel - 1, by simp at hf; omega⟩
  obtain ⟨h1, h2, h3⟩ := head_byte ty 0 h4 h32 (by omega)
  exact step_logical8 _ _ _ h1 h2 h3 _ _

theorem segok_logical16 (ty : Nat) (h4 : ty % 4 = 0) (h32 : ty < 32) (v : Nat) (hv : v ≤ 65535) :
    SegOK [UInt8.ofNat (32 ||| ty ||| 1), 0, UInt8.ofNat (v % 256), UInt8.ofNat (v / 256)] (PSeg.logical ty v) := by
  refine ⟨by simp, by simp, ?_⟩
  intro rest fuel hf
  obtain ⟨k, rfl⟩ : ∃ k, fuel = k + 1 := ⟨fuel - 1, by simp at hf; omega⟩
  obtain ⟨h1, h2, h3⟩ := head_byte ty 1 h4 h32 (by omega)
  refine step_logical16 _ _ _ _ _ h1 h2 h3 ?_ _ _
  rw [toNat_ofNat, toNat_ofNat]; omega

theorem segok_logical32 (ty : Nat) (h4 : ty % 4 = 0) (h32 : ty < 32) (v : Nat) (hv : v ≤ 4294967295) :
    SegOK [UInt8.ofNat (32 ||| ty ||| 2), 0, UInt8.ofNat (v % 256), UInt8.ofNat (v / 256 % 256),
           UInt8.ofNat (v / 256 / 256 % 256), UInt8.ofNat (v / 256 / 256 / 256)] (PSeg.logical ty v) := by
  refine ⟨by simp, by simp, ?_⟩
  intro rest fuel hf
  obtain ⟨k, rfl⟩ : ∃ k, fuel = k + 1 := ⟨fuel - 1, by simp at hf; omega⟩
  obtain ⟨h1, h2, h3⟩ := head_byte ty 2 h4 h32 (by omega)
  refine step_logical32 _ _ _ _ _ _ _ h1 h2 h3 ?_ _ _
  rw [toNat_ofNat, toNat_ofNat, toNat_ofNat, toNat_ofNat]; omega

theorem lookupFormat : Gen.LOGICAL_SEGMENT_TYPE = 32 ∧ lookupNat 1 Gen.logicalFormat = some 0 ∧
    lookupNat 2 Gen.logicalFormat = some 1 ∧ lookupNat 4 Gen.logicalFormat = some 2 := by decide

/-- `LogicalSegment` with an int value below 2^32 -/
theorem encLogical_int (ltype : Name) (ty : Nat) (hty : lookupName ltype Gen.logicalTypes = some ty)
    (v : Nat) (hv : v < 2 ^ 32) :
    ∃ bs, encLogical (.int v) ltype true = .ok bs ∧ bs.length ≤ 6 ∧ SegOK bs (PSeg.logical ty v) := by
  obtain ⟨h4, h32⟩ := logicalTypes_wf ltype ty hty
  obtain ⟨hL, hf1, hf2, hf4⟩ := lookupFormat
  by_cases c1 : v ≤ 255
  · refine ⟨[UInt8.ofNat (32 ||| ty ||| 0), UInt8.ofNat v], ?_, by simp, ?_⟩
    · have c1' : (v : Int) ≤ 255 := by omega
      have := usint_nat v c1
      simp only [usint] at this
      simp [encLogical, hty, c1', this, hf1, hL]
    · have := segok_logical8 ty h4 h32 (UInt8.ofNat v)
      rw [toNat_ofNat, Nat.mod_eq_of_lt (by omega)] at this
      exact this
  · by_cases c2 : v ≤ 65535
    · refine ⟨_, ?_, ?_, segok_logical16 ty h4 h32 v c2⟩
      · have c1' : ¬ (v : Int) ≤ 255 := by omega
        have c2' : (v : Int) ≤ 65535 := by omega
        simp [encLogical, hty, c1', c2', uint_nat v c2, hf2, hL]
      · simp
    · have c3 : v ≤ 4294967295 := by omega
      refine ⟨_, ?_, ?_, segok_logical32 ty h4 h32 v c3⟩
      · have c1' : ¬ (v : Int) ≤ 255 := by omega
        have c2' : ¬ (v : Int) ≤ 65535 := by omega
        have c3' : (v : Int) ≤ 4294967295 := by omega
        simp [encLogical, hty, c1', c2', c3', udint_nat v c3, hf4, hL]
      · simp

theorem encLogical_byte (ltype : Name) (ty : Nat) (hty : lookupName ltype Gen.logicalTypes = some ty) (b : UInt8) :
    ∃ bs, encLogical (.bytes [b]) ltype true = .ok bs ∧ bs.length ≤ 6 ∧ SegOK bs (PSeg.logical ty b.toNat) := by
  obtain ⟨h4, h32⟩ := logicalTypes_wf ltype ty hty
  obtain ⟨hL, hf1, hf2, hf4⟩ := lookupFormat
  refine ⟨_, ?_, ?_, segok_logical8 ty h4 h32 b⟩
  · simp [encLogical, hty, hf1, hL]
  · simp


/-! ### length-prefixed, even-padded data (symbolic segments, extended-link port segments) -/

def pad (d : Bytes) : Bytes := if d.length % 2 = 1 then [0] else []

theorem pad_length (d : Bytes) : (pad d).length = d.length % 2 := by
  unfold pad; split <;> simp <;> omega

theorem padded_facts (d rest : Bytes) :
    ¬ ((d ++ pad d) ++ rest).length < d.length + d.length % 2 ∧
    (d.length % 2 = 1 → ((d ++ pad d) ++ rest).getD d.length 0 = 0) ∧
    ((d ++ pad d) ++ rest).drop (d.length + d.length % 2) = rest ∧
    ((d ++ pad d) ++ rest).take d.length = d := by
  refine ⟨?_, ?_, ?_, ?_⟩
  · simp [pad_length]
  · intro h
    simp [pad, h, List.getD_eq_getElem?_getD]
  · have : d.length + d.length % 2 = (d ++ pad d).length := by simp [pad_length]
    rw [this, List.drop_left']
    rfl
  · rw [List.append_assoc, List.take_left']
    rfl

theorem pad_cond (n : Nat) (r : Bytes) (f2 : n % 2 = 1 → r.getD n 0 = 0) :
    (n % 2 == 1 && r.getD n 0 != 0) = false := by
  by_cases h : n % 2 = 1
  · rw [f2 h]; simp
  · simp [h]

theorem step_symbol' (x l : UInt8) (hx : x.toNat = 0x91) (n : Nat) (hl : l.toNat = n) (r : Bytes)
    (f1 : ¬ r.length < n + n % 2) (f2 : n % 2 = 1 → r.getD n 0 = 0) (k : Nat) :
    parsePadded (k + 1) (x :: l :: r) =
      (parsePadded k (r.drop (n + n % 2))).map (PSeg.symbol (r.take n) :: ·) := by
  simp only [parsePadded, hx, hl, pad_cond n r f2, if_neg f1]
  simp

theorem step_port_ext' (x l : UInt8) (p : Nat) (hx : x.toNat = p + 16) (hp : 1 ≤ p ∧ p ≤ 14)
    (n : Nat) (hl : l.toNat = n) (r : Bytes)
    (f1 : ¬ r.length < n + n % 2) (f2 : n % 2 = 1 → r.getD n 0 = 0) (k : Nat) :
    parsePadded (k + 1) (x :: l :: r) =
      (parsePadded k (r.drop (n + n % 2))).map (PSeg.port p (r.take n) :: ·) := by
  have a1 : ((p + 16) / 32 == 1) = false := by simp; omega
  have a2 : (p + 16 == 145) = false := by simp; omega
  have a3 : ((p + 16) / 32 == 0) = true := by simp; omega
  have a4 : (p + 16) % 16 = p := by omega
  have a5 : ((p + 16) / 16 % 2 == 1) = true := by simp; omega
  have a6 : (p == 0 || p == 15) = false := by simp; omega
  simp only [parsePadded, hx, hl, pad_cond n r f2, if_neg f1, a1, a2, a3, a4, a5, a6]
  simp

theorem step_port (x l : UInt8) (p : Nat) (hx : x.toNat = p) (hp : 1 ≤ p ∧ p ≤ 14) (rest : Bytes) (k : Nat) :
    parsePadded (k + 1) (x :: l :: rest) = (parsePadded k rest).map (PSeg.port p [l] :: ·) := by
  have a1 : (p / 32 == 1) = false := by simp; omega
  have a2 : (p == 145) = false := by simp; omega
  have a3 : (p / 32 == 0) = true := by simp; omega
  have a4 : p % 16 = p := by omega
  have a5 : (p / 16 % 2 == 1) = false := by simp; omega
  have a6 : (p == 0 || p == 15) = false := by simp; omega
  simp only [parsePadded, hx, a1, a2, a3, a4, a5, a6]
  simp

theorem step_symbol (x : UInt8) (hx : x.toNat = 0x91) (d : Bytes) (hd : d.length ≤ 255) (rest : Bytes) (k : Nat) :
    parsePadded (k + 1) (x :: UInt8.ofNat d.length :: ((d ++ pad d) ++ rest)) =
      (parsePadded k rest).map (PSeg.symbol d :: ·) := by
  obtain ⟨f1, f2, f3, f4⟩ := padded_facts d rest
  have hl : (UInt8.ofNat d.length).toNat = d.length := by rw [toNat_ofNat]; omega
  rw [step_symbol' _ _ hx _ hl _ f1 f2, f3, f4]

theorem step_port_ext (x : UInt8) (p : Nat) (hx : x.toNat = p + 16) (hp : 1 ≤ p ∧ p ≤ 14)
    (d : Bytes) (hd : d.length ≤ 255) (rest : Bytes) (k : Nat) :
    parsePadded (k + 1) (x :: UInt8.ofNat d.length :: ((d ++ pad d) ++ rest)) =
      (parsePadded k rest).map (PSeg.port p d :: ·) := by
  obtain ⟨f1, f2, f3, f4⟩ := padded_facts d rest
  have hl : (UInt8.ofNat d.length).toNat = d.length := by rw [toNat_ofNat]; omega
  rw [step_port_ext' _ _ p hx hp _ hl _ f1 f2, f3, f4]

theorem segok_prefixed (x : UInt8) (d : Bytes) (p : PSeg)
    (hstep : ∀ rest k, parsePadded (k + 1) (x :: UInt8.ofNat d.length :: ((d ++ pad d) ++ rest)) =
      (parsePadded k rest).map (p :: ·)) :
    SegOK (x :: UInt8.ofNat d.length :: (d ++ pad d)) p := by
  refine ⟨by simp, ?_, ?_⟩
  · simp [pad_length]; omega
  · intro rest fuel hf
    obtain ⟨k, rfl⟩ : ∃ k, fuel = k + 1 := ⟨fuel - 1, by simp at hf; omega⟩
    exact hstep rest k

theorem utf8_ascii (cs : Name) (h : ∀ c ∈ cs, c < 128) : Text.encode .utf8 cs = some (cs.map UInt8.ofNat) := by
  induction cs with
  | nil => rfl
  | cons c cs ih =>
    have hc : c < 128 := h c (by simp)
    have h1 : Text.isSurrogate c = false := by simp [Text.isSurrogate]; omega
    have h2 : ¬ c > 0x10FFFF := by omega
    have ih' := ih (fun c hc => h c (by simp [hc]))
    simp [Text.encode, Text.encChar, h1, hc, ih', Text.b]
    rw [if_neg (by omega)]; rfl

/-- `DataSegment` for an ASCII name of at most 255 characters -/
theorem encDataStr_ok (name : Name) (hlen : name.length ≤ 255) (hascii : ∀ c ∈ name, c < 128) :
    ∃ bs, encDataStr name = .ok bs ∧ bs.length ≤ 2 + name.length + 1 ∧
      SegOK bs (PSeg.symbol (name.map UInt8.ofNat)) := by
  have hx : (Gen.DATA_SEGMENT_TYPE ||| Gen.DATA_EXTENDED_SYMBOL) = 145 := by decide
  refine ⟨(145 : UInt8) :: UInt8.ofNat (name.map UInt8.ofNat).length ::
      ((name.map UInt8.ofNat) ++ pad (name.map UInt8.ofNat)), ?_, ?_, ?_⟩
  · have u1 := usint_nat 145 (by omega)
    have u2 := usint_nat name.length hlen
    simp only [encDataStr, utf8_ascii name hascii, hx, u1, List.length_map, u2]
    unfold pad
    by_cases hodd : name.length % 2 = 1 <;> simp [hodd]
  · simp [pad_length]; omega
  · exact segok_prefixed _ _ _ (fun rest k => step_symbol _ (by decide) _ (by simpa using hlen) rest k)

/-! ### port segments -/

theorem encPort_slot (p : Nat) (hp : 1 ≤ p ∧ p ≤ 14) (l : Nat) (hl : l < 256) :
    encPort (.int p) (.int l) = .ok [UInt8.ofNat p, UInt8.ofNat l] := by
  have u1 := usint_nat l (by omega)
  have u2 := usint_nat p (by omega)
  simp [encPort, u1, u2]

theorem segok_port (p : Nat) (hp : 1 ≤ p ∧ p ≤ 14) (l : UInt8) :
    SegOK [UInt8.ofNat p, l] (PSeg.port p [l]) := by
  refine ⟨by simp, by simp, ?_⟩
  intro rest fuel hf
  obtain ⟨k, rfl⟩ : ∃ k, fuel = k + 1 := ⟨fuel - 1, by simp at hf; omega⟩
  exact step_port _ _ p (by rw [toNat_ofNat]; omega) hp rest k

theorem splitOn_ne_nil (sep : Nat) (s : List Nat) : splitOn sep s ≠ [] := by
  cases s with
  | nil => simp [splitOn]
  | cons c cs =>
    simp only [splitOn]
    split
    · simp
    · split <;> simp

theorem splitOn_no_sep (sep : Nat) (s : List Nat) (h : sep ∉ s) : splitOn sep s = [s] := by
  induction s with
  | nil => simp [splitOn]
  | cons c cs ih =>
    have hc : ¬ c = sep := fun e => h (by simp [e])
    have := ih (fun hm => h (by simp [hm]))
    simp [splitOn, this, hc]

theorem isDigit_not_ip (s : Name) (h : PyStr.isDigit s = true) : parseIPv4 s = none := by
  have : (46 : Nat) ∉ s := by
    intro hm
    simp only [PyStr.isDigit, Bool.and_eq_true, List.all_eq_true] at h
    have := h.2 46 hm
    simp [PyStr.isDigitC] at this
  simp [parseIPv4, splitOn_no_sep 46 s this]

theorem port_or (p : Nat) (hp : p ≤ 14) : p ||| Gen.PORT_EXTENDED_LINK = p + 16 := by
  have : ∀ p ≤ 14, p ||| Gen.PORT_EXTENDED_LINK = p + 16 := by decide
  exact this p hp

theorem encPort_ip (p : Nat) (hp : 1 ≤ p ∧ p ≤ 14) (s : Name) (octets : List Nat)
    (hip : parseIPv4 s = some octets) (hlen : 1 < s.length ∧ s.length ≤ 255) :
    encPort (.int p) (.str s) = .ok (UInt8.ofNat (p + 16) :: UInt8.ofNat (s.map UInt8.ofNat).length ::
      (s.map UInt8.ofNat ++ pad (s.map UInt8.ofNat))) := by
  have hd : PyStr.isDigit s = false := by
    cases h : PyStr.isDigit s with
    | false => rfl
    | true => rw [isDigit_not_ip s h] at hip; cases hip
  have u1 := usint_nat (p + 16) (by omega)
  have u2 := usint_nat s.length (by omega)
  have e : ((p : Int).toNat ||| Gen.PORT_EXTENDED_LINK) = p + 16 := by simp [port_or p hp.2]
  have h0 : (0 : Int) ≤ p := by omega
  simp only [encPort, hd, hip, Bool.false_eq_true, if_false, List.length_map, gt_iff_lt, hlen.1, if_true, h0, e, u1, u2]
  unfold pad
  by_cases hodd : s.length % 2 = 1
  · have : (2 + s.length) % 2 = 1 := by omega
    simp [hodd]; omega
  · have : ¬ (2 + s.length) % 2 = 1 := by omega
    simp [hodd]; omega

/-! ### lists of segments -/

/-- one segment encodes within `n` bytes and parses back as `p` -/
def Enc1 (s : Seg) (p : PSeg) (n : Nat) : Prop :=
  ∃ bs, encSeg true s = .ok bs ∧ bs.length ≤ n ∧ SegOK bs p

/-- a list of segments encodes to an even-length path within `n` bytes that parses back as `ps` -/
def EncAll (segs : List Seg) (ps : List PSeg) (n : Nat) : Prop :=
  ∃ path, encSegs true segs = .ok path ∧ path.length % 2 = 0 ∧ path.length ≤ n ∧ 2 * ps.length ≤ path.length ∧
    ∀ rest fuel, rest.length + path.length < fuel →
      parsePadded fuel (path ++ rest) = (parsePadded (fuel - ps.length) rest).map (ps ++ ·)

theorem EncAll.nil : EncAll [] [] 0 := by
  refine ⟨[], rfl, rfl, Nat.le_refl _, by simp, ?_⟩
  intro rest fuel _
  simp

theorem EncAll.cons {s p n segs ps m} (h1 : Enc1 s p n) (h2 : EncAll segs ps m) :
    EncAll (s :: segs) (p :: ps) (n + m) := by
  obtain ⟨bs, e1, l1, g1, ev1, k1⟩ := h1
  obtain ⟨path, e2, ev2, l2, g2, k2⟩ := h2
  refine ⟨bs ++ path, ?_, ?_, ?_, ?_, ?_⟩
  · simp [encSegs, e1, e2, bind, Except.bind]
  · simp; omega
  · simp; omega
  · simp; omega
  · intro rest fuel hf
    simp only [List.length_append] at hf
    rw [List.append_assoc, k1 _ _ (by simp; omega), k2 _ _ (by omega), Option.map_map]
    have : fuel - 1 - ps.length = fuel - (p :: ps).length := by simp; omega
    rw [this]
    rfl

theorem EncAll.mono {segs ps n m} (h : EncAll segs ps n) (hnm : n ≤ m) : EncAll segs ps m := by
  obtain ⟨path, e, ev, l, g, k⟩ := h
  exact ⟨path, e, ev, by omega, g, k⟩

theorem encSegs_append (a b : List Seg) (x y : Bytes) (ha : encSegs true a = .ok x) (hb : encSegs true b = .ok y) :
    encSegs true (a ++ b) = .ok (x ++ y) := by
  induction a generalizing x with
  | nil => simp [encSegs] at ha; subst ha; simpa using hb
  | cons s a ih =>
    simp only [encSegs, bind, Except.bind] at ha
    split at ha
    · cases ha
    · rename_i v hv
      split at ha
      · cases ha
      · rename_i w hw
        cases ha
        simp [encSegs, bind, Except.bind, hv, ih w hw]

theorem EncAll.append {a pa n b pb m} (h1 : EncAll a pa n) (h2 : EncAll b pb m) :
    EncAll (a ++ b) (pa ++ pb) (n + m) := by
  obtain ⟨x, e1, ev1, l1, g1, k1⟩ := h1
  obtain ⟨y, e2, ev2, l2, g2, k2⟩ := h2
  refine ⟨x ++ y, encSegs_append a b x y e1 e2, ?_, ?_, ?_, ?_⟩
  · simp; omega
  · simp; omega
  · simp; omega
  · intro rest fuel hf
    simp only [List.length_append] at hf
    rw [List.append_assoc, k1 _ _ (by simp; omega), k2 _ _ (by omega), Option.map_map]
    have : fuel - pa.length - pb.length = fuel - (pa ++ pb).length := by simp; omega
    rw [this]
    congr 1
    funext z
    simp

/-- the length-prefixed request path of such a list parses back to exactly `ps` with nothing left over -/
theorem EncAll.request {segs ps n} (h : EncAll segs ps n) (hn : n ≤ 510) :
    ∃ bs, encEpath true segs true false = .ok bs ∧ parseRequestPath bs = some (ps, []) := by
  obtain ⟨path, e, ev, l, g, k⟩ := h
  have u := usint_nat (path.length / 2) (by omega)
  have u : usint ((path.length : Int) / 2) = .ok [UInt8.ofNat (path.length / 2)] := by
    rw [← u]; congr 1
  refine ⟨UInt8.ofNat (path.length / 2) :: path, ?_, ?_⟩
  · simp [encEpath, e, u]
  · have hn : (UInt8.ofNat (path.length / 2)).toNat = path.length / 2 := by rw [toNat_ofNat]; omega
    have hl : 2 * (path.length / 2) = path.length := by omega
    have kk := k [] (path.length + 1) (by simp)
    obtain ⟨j, hj⟩ : ∃ j, path.length + 1 - ps.length = j + 1 := ⟨path.length - ps.length, by omega⟩
    rw [hj] at kk
    simp only [List.append_nil] at kk
    simp [parseRequestPath, hn, hl, kk, parsePadded]

/-! ### `find` / `split` on strings built around a separator -/

theorem takeWhile_ne_append (c : Nat) (a r : List Nat) (h : c ∉ a) :
    (a ++ c :: r).takeWhile (· != c) = a := by
  induction a with
  | nil => simp
  | cons x a ih =>
    have hx : x ≠ c := fun e => h (by simp [e])
    have := ih (fun hm => h (by simp [hm]))
    simp [hx, this]

theorem takeWhile_ne_all (c : Nat) (a : List Nat) (h : c ∉ a) : a.takeWhile (· != c) = a := by
  induction a with
  | nil => simp
  | cons x a ih =>
    have hx : x ≠ c := fun e => h (by simp [e])
    have := ih (fun hm => h (by simp [hm]))
    simp [hx, this]

theorem find_append (c : Nat) (a r : List Nat) (h : c ∉ a) : PyStr.find c (a ++ c :: r) = some a.length := by
  simp [PyStr.find, takeWhile_ne_append c a r h]

theorem find_none (c : Nat) (a : List Nat) (h : c ∉ a) : PyStr.find c a = none := by
  simp [PyStr.find, takeWhile_ne_all c a h]

theorem splitOn_append_sep (sep : Nat) (a r : List Nat) (h : sep ∉ a) :
    splitOn sep (a ++ sep :: r) = a :: splitOn sep r := by
  induction a with
  | nil =>
    simp only [List.nil_append, splitOn]
    cases hs : splitOn sep r with
    | nil => exact absurd hs (splitOn_ne_nil sep r)
    | cons x xs => simp
  | cons x a ih =>
    have hx : ¬ x = sep := fun e => h (by simp [e])
    have := ih (fun hm => h (by simp [hm]))
    simp [splitOn, this, hx]

end Pycomm.EP
