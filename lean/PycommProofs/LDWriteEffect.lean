/-
  LogixDriver.write: what the write effect `written` does to the project when the location is a whole
  controller-scope symbol whose instance id is unique — the symbol's memory is replaced, one entry is logged,
  nothing else changes — and the facts about the new project that a following `read` needs.
-/
import PycommProofs.LDReadTarget
import PycommProofs.LogixE2EWrite
namespace Pycomm.Lgx.Drv
open Pycomm Pycomm.Tgt Pycomm.Path Pycomm.Reply Pycomm.Lgx Pycomm.Lgx.E2E

/-- the symbol with its memory replaced -/
def ldw_sym (s : Symbol) (bytes : Bytes) : Symbol := { s with mem := bytes }

/-- the controller scope with the memory of the symbols of instance id `inst` replaced -/
def ldw_ctl (l : List Symbol) (inst : Nat) (bytes : Bytes) : List Symbol :=
  l.map fun x => if x.inst == inst then ldw_sym x bytes else x

/-- the project after the write: the symbol's memory replaced, one write logged -/
def ldw_proj (p : Project) (s : Symbol) (bytes : Bytes) : Project :=
  { p with controller := ldw_ctl p.controller s.inst bytes, writeLog := p.writeLog ++ [(s.inst, 0, bytes.length)] }

theorem ldw_splice_whole (mem bytes : Bytes) (h : bytes.length = mem.length) : splice mem 0 bytes = bytes := by
  unfold splice
  rw [List.take_zero, List.nil_append, List.drop_of_length_le (by omega), List.append_nil]

/-- writing a whole controller-scope symbol with unique instance id: the project afterwards is the project with
    that symbol's memory replaced by the bytes and one more write-log entry -/
theorem ldw_written_eq (p : Project) (s : Symbol) (c : Nat) (bytes : Bytes) (hs : s ∈ p.controller)
    (huniqI : ∀ s' ∈ p.controller, s'.inst = s.inst → s' = s) (hl : bytes.length = s.mem.length) :
    written p (ldr_loc s c) 0 bytes = ldw_proj p s bytes := by
  have _ := hs
  have hmap : (p.controller.map fun x => if x.inst == s.inst then { x with mem := splice x.mem 0 bytes } else x) =
      ldw_ctl p.controller s.inst bytes := by
    unfold ldw_ctl
    apply List.map_congr_left
    intro x hx
    by_cases hi : (x.inst == s.inst) = true
    · have : x = s := huniqI x hx (by simpa using hi)
      subst this
      simp only [hi, if_true, ldw_sym, ldw_splice_whole _ _ hl]
    · simp only [hi]
      rfl
  have e : written p (ldr_loc s c) 0 bytes =
      { p with controller := p.controller.map fun x => if x.inst == s.inst then { x with mem := splice x.mem 0 bytes } else x,
               writeLog := p.writeLog ++ [(s.inst, 0, bytes.length)] } := rfl
  rw [e, hmap]
  rfl

/-- every other symbol of the controller scope is untouched -/
theorem ldw_ctl_other (l : List Symbol) (s : Symbol) (bytes : Bytes)
    (huniqI : ∀ s' ∈ l, s'.inst = s.inst → s' = s) (i : Nat) (x : Symbol) (hx : l[i]? = some x) :
    (ldw_ctl l s.inst bytes)[i]? = some (if x.inst = s.inst then ldw_sym s bytes else x) ∧
    (x.inst = s.inst → x = s) := by
  have hmem : x ∈ l := List.mem_of_getElem? hx
  refine ⟨?_, huniqI x hmem⟩
  unfold ldw_ctl
  rw [List.getElem?_map, hx, Option.map_some]
  by_cases hi : x.inst = s.inst
  · rw [huniqI x hmem hi]; simp
  · simp [hi]

theorem ldw_mem_ctl (l : List Symbol) (s : Symbol) (bytes : Bytes) (hs : s ∈ l) :
    ldw_sym s bytes ∈ ldw_ctl l s.inst bytes := by
  unfold ldw_ctl
  exact List.mem_map.2 ⟨s, hs, by simp⟩

/-- every symbol of the new controller scope comes from an old one with the same name, instance id, type and
    dimensions -/
theorem ldw_ctl_inv (l : List Symbol) (inst : Nat) (bytes : Bytes) (y : Symbol) (hy : y ∈ ldw_ctl l inst bytes) :
    ∃ x ∈ l, y = (if x.inst == inst then ldw_sym x bytes else x) ∧ y.name = x.name ∧ y.inst = x.inst := by
  unfold ldw_ctl at hy
  obtain ⟨x, hx, rfl⟩ := List.mem_map.1 hy
  refine ⟨x, hx, rfl, ?_, ?_⟩ <;> split <;> rfl

theorem ldw_ctl_bytes (l : List Symbol) (inst : Nat) (bytes : Bytes)
    (hbytes : ∀ s' ∈ l, ∀ ch ∈ s'.name, ch < 256) :
    ∀ s' ∈ ldw_ctl l inst bytes, ∀ ch ∈ s'.name, ch < 256 := by
  intro y hy ch hch
  obtain ⟨x, hx, _, hn, _⟩ := ldw_ctl_inv l inst bytes y hy
  rw [hn] at hch
  exact hbytes x hx ch hch

theorem ldw_ctl_uniqN (l : List Symbol) (s : Symbol) (bytes : Bytes)
    (huniqN : ∀ s' ∈ l, s'.name = s.name → s' = s) :
    ∀ s' ∈ ldw_ctl l s.inst bytes, s'.name = (ldw_sym s bytes).name → s' = ldw_sym s bytes := by
  intro y hy hn
  obtain ⟨x, hx, he, hn', _⟩ := ldw_ctl_inv l s.inst bytes y hy
  have : x = s := huniqN x hx (by rw [← hn', hn]; rfl)
  subst this
  rw [he]; simp

theorem ldw_ctl_uniqI (l : List Symbol) (s : Symbol) (bytes : Bytes)
    (huniqI : ∀ s' ∈ l, s'.inst = s.inst → s' = s) :
    ∀ s' ∈ ldw_ctl l s.inst bytes, s'.inst = (ldw_sym s bytes).inst → s' = ldw_sym s bytes := by
  intro y hy hn
  obtain ⟨x, hx, he, _, hi'⟩ := ldw_ctl_inv l s.inst bytes y hy
  have : x = s := huniqI x hx (by rw [← hi', hn]; rfl)
  subst this
  rw [he]; simp

end Pycomm.Lgx.Drv
