/-
  LogixDriver.write, layers (e) and (f): the connected reply frame of an accepted write-type service is a valid
  response without error, `_send_requests` records a Tag for it, the RMW fan-out leaves plain writes alone, and
  the result loop of `write` hands the caller's value back.
-/
import PycommProofs.LDReadReply
namespace Pycomm.Lgx.Drv
open Pycomm Pycomm.Tgt Pycomm.Path Pycomm.Reply Pycomm.Encap Pycomm.Lgx Pycomm.Lgx.E2E

/-- (e) the Tag `_send_requests` records for a write-type request whose reply is the framed status-0 answer
    without data -/
theorem ldw_writeTag_ok (tag : Name) (value : PyVal) (dt : Name) (svc s toId seq : Nat) (ctx : Bytes)
    (hc : ctx.length = 8) :
    writeTag tag value dt (tagResp (some (frame CMD_SEND_UNIT s 0 ctx (cpfReplyConnected toId seq
        (encMRReply svc { status := 0, ext := [], data := [] }))))) =
      .ok { tag := tag, value := value, type := some dt, error := none } := by
  obtain ⟨h1, _, h3⟩ := ldr_tagResp_ok svc s toId seq ctx [] hc
  unfold writeTag
  simp only [h3, h1, if_true]

/-- (f) the RMW fan-out does nothing for a plain Write Tag request -/
theorem ldw_fanOut_write (rs : Results) (r : WriteReq) : fanOutRmw rs [Request.write r] = some rs := rfl

/-- (f) the RMW fan-out for one Read-Modify-Write packet recorded under its own id, serving one bit request:
    the result moves to the bit request's id -/
theorem ldw_fanOut_rmw (r : RmwReq) (t : LTag) (id : Nat) (hids : r.requestIds = [id]) :
    fanOutRmw [(r.rid, t)] [Request.rmw r] = some [((id : Int), t)] := by
  have h1 : (r.rid == r.rid) = true := by simp
  have h2 : (r.rid != r.rid) = false := by simp
  simp only [fanOutRmw, Results.get?, List.find?_cons, h1, Option.map_some, hids, Results.erase, List.filter_cons, h2,
    Bool.false_eq_true, if_false, List.filter_nil, List.foldl_cons, List.foldl_nil, Results.set, List.any_nil,
    List.nil_append]

/-- (f) the result loop of `write` for an error-free request for one element without bit number whose response was
    recorded without error: the Tag carries the request's tag, the caller's value and the type name -/
theorem ldw_writeResult (p : Parsed) (info : TagInfo) (t : LTag)
    (herr : p.error = none) (hinfo : p.info = some info) (hbit : p.bit = none) (hbe : p.boolElements = none)
    (hel : p.elements = 1) (hte : t.error = none) :
    writeResult p [((p.requestId : Nat), t)] =
      { tag := p.userTag, value := p.value, type := some info.core.dataTypeName, error := none } := by
  unfold writeResult
  simp only [herr, hinfo, Results.get?, List.find?_cons, beq_self_eq_true, Option.map_some, hbit, hbe, hel, hte,
    Option.isSome_none, Bool.false_and, Bool.false_eq_true, if_false]
  simp

/-- (f) the result loop of `write` for an error-free bit request (bit number, no BOOL-array count): the Tag carries
    the request's tag, the caller's value and the type "BOOL" -/
theorem ldw_writeResult_bit (p : Parsed) (info : TagInfo) (t : LTag) (b : Int)
    (herr : p.error = none) (hinfo : p.info = some info) (hbit : p.bit = some b) (hbe : p.boolElements = none)
    (hte : t.error = none) :
    writeResult p [((p.requestId : Nat), t)] =
      { tag := p.userTag, value := p.value, type := some (nm "BOOL"), error := none } := by
  unfold writeResult
  simp only [herr, hinfo, Results.get?, List.find?_cons, beq_self_eq_true, Option.map_some, hbit, hbe, hte,
    Option.isSome_some, Option.isNone_none, Bool.and_self, if_true]

end Pycomm.Lgx.Drv
