/-
  Controller-side failures, layer (e): how the response classes of the driver classify a reply of the reference
  controller whose CIP general status is not 0 — as a plain connected reply frame and as an embedded reply of a
  Multiple Service Packet (behind the 46 zero bytes `MultiServiceResponsePacket` puts in front).
  The response is invalid, `response.error` is a text that starts with the text of that status, and no exception
  escapes the error accessor (the extended-status words the controller sends are always complete).
-/
import PycommProofs.LDRead2Multi
namespace Pycomm.Lgx.Drv
open Pycomm Pycomm.Tgt Pycomm.Path Pycomm.Reply Pycomm.Encap Pycomm.Lgx Pycomm.Lgx.E2E Pycomm.Status

/-! ### status texts -/

/-- `get_service_status` over a non-negative Python int is the table lookup of the model -/
theorem ldx_statusTextI_nat (n : Nat) : serviceStatusTextI (n : Int) = serviceStatusText n := by
  unfold serviceStatusTextI serviceStatusText
  rw [if_pos (by omega)]
  simp only [Int.toNat_natCast]
  cases lookupNat n Gen.serviceStatus with
  | some t => rfl
  | none => simp only [hex2i]; rw [if_pos (by omega)]; simp

theorem ldx_statusText_nonempty (n : Nat) : serviceStatusText n ≠ [] := by
  rw [← ldx_statusTextI_nat]; exact status_text_nonempty _

/-! ### the extended status of a controller reply -/

/-- the bytes of a message-router reply from the general status on -/
def ldx_statusTail (r : MRReply) : Bytes :=
  [UInt8.ofNat r.status, UInt8.ofNat r.ext.length] ++ ((r.ext.map (le 2)).flatten ++ r.data)

theorem ldx_encMRReply_eq (svc : Nat) (r : MRReply) :
    encMRReply svc r = [UInt8.ofNat (svc % 128 + 128), 0] ++ ldx_statusTail r := by
  simp [encMRReply, ldx_statusTail]

/-- the text `response.error` shows for a controller reply with a CIP error status: the status text, then
    " - " and the extended-status text when the extended status is known (`service_extended_status`) -/
def ldx_errText (r : MRReply) : Name :=
  match extendedStatus (ldx_statusTail r) 0 with
  | .ok (some ext) => serviceStatusText r.status ++ [32, 45, 32] ++ ext
  | _ => serviceStatusText r.status

/-- `get_extended_status` looks only at the bytes from `start` on -/
theorem ldx_extendedStatus_drop (raw : Bytes) (start : Nat) :
    extendedStatus raw start = extendedStatus (raw.drop start) 0 := by
  unfold extendedStatus
  simp only [List.drop_zero]

theorem ldx_flatten_le2_length (ext : List Nat) : ((ext.map (le 2)).flatten).length = 2 * ext.length := by
  induction ext with
  | nil => rfl
  | cons x xs ih => simp only [List.map_cons, List.flatten_cons, List.length_append, ih, le, RT.leBytes_length,
      List.length_cons]; omega

/-- the extended-status words the controller sends are complete: the accessor never raises -/
theorem ldx_extendedStatus_ok (r : MRReply) (hext : r.ext.length < 256) :
    ∃ o, extendedStatus (ldx_statusTail r) 0 = .ok o := by
  have hn : (UInt8.ofNat r.ext.length).toNat = r.ext.length := by rw [EP.toNat_ofNat]; omega
  have hl : 2 * r.ext.length ≤ ((r.ext.map (le 2)).flatten ++ r.data).length := by
    rw [List.length_append, ldx_flatten_le2_length]; omega
  unfold extendedStatus ldx_statusTail
  simp only [List.drop_zero, List.cons_append, List.nil_append, hn]
  generalize (r.ext.map (le 2)).flatten ++ r.data = tl at hl ⊢
  by_cases h0 : r.ext.length * 2 = 0
  · rw [if_pos h0]
    simp only
    split
    · exact ⟨_, rfl⟩
    · split <;> exact ⟨_, rfl⟩
  · rw [if_neg h0]
    by_cases h2 : r.ext.length * 2 = 2
    · rw [if_pos h2, RP.decodeIntNat_ok .uint tl (by simp only [IntK.size]; omega)]
      simp only
      split
      · exact ⟨_, rfl⟩
      · split <;> exact ⟨_, rfl⟩
    · rw [if_neg h2]
      by_cases h4 : r.ext.length * 2 = 4
      · rw [if_pos h4, RP.decodeIntNat_ok .udint tl (by simp only [IntK.size]; omega)]
        simp only
        split
        · exact ⟨_, rfl⟩
        · split <;> exact ⟨_, rfl⟩
      · rw [if_neg h4]
        exact ⟨_, rfl⟩

theorem ldx_errText_prefix (r : MRReply) : serviceStatusText r.status <+: ldx_errText r := by
  unfold ldx_errText
  split
  · next ext _ => exact ⟨[32, 45, 32] ++ ext, by simp⟩
  · exact List.prefix_refl _

theorem ldx_errText_nonempty (r : MRReply) : ldx_errText r ≠ [] := by
  intro h
  have hp := ldx_errText_prefix r
  rw [h] at hp
  exact ldx_statusText_nonempty _ (List.prefix_nil.1 hp)

/-- `service_extended_status` of a reply whose bytes from the general status on are the controller's -/
theorem ldx_extendedText (raw : Bytes) (r : MRReply) (hext : r.ext.length < 256)
    (hdrop : raw.drop 48 = ldx_statusTail r) :
    extendedText raw .connected (r.status : Nat) = .ok (ldx_errText r) := by
  obtain ⟨o, ho⟩ := ldx_extendedStatus_ok r hext
  unfold extendedText ldx_errText
  have : Transport.connected.off + 2 = 48 := rfl
  rw [this, ldx_extendedStatus_drop, hdrop, ho, ldx_statusTextI_nat]
  cases o <;> rfl

/-! ### the response classes over a reply with an error status -/

/-- a reply whose header says "encapsulation status 0" and whose service part is `[service|0x80, 0, status, …]`:
    the parsed fields -/
theorem ldx_parseCip_status (raw P rest H tail : Bytes) (s st n : UInt8) (hP : P.length = 8)
    (hraw1 : raw = P ++ ([0, 0, 0, 0] ++ rest)) (hs : 128 ≤ s.toNat) (hH : H.length = 46)
    (hraw2 : raw = H ++ ([s, 0, st, n] ++ tail)) :
    ∃ cmd svc, serviceFromReply [s] = .ok svc ∧
      parseCip (some raw) .connected =
        { err := none, command := some cmd, commandStatus := some 0, service := svc,
          serviceStatus := some st.toNat, data := some tail } := by
  have hoff : Transport.connected.off = 46 := rfl
  have b1 : Reply.slice raw 8 12 = [0, 0, 0, 0] := by
    rw [hraw1]
    have := Cli.slice_at P ([0, 0, 0, 0] ++ rest) 8 0 4 hP
    simp only [Nat.add_zero] at this
    rw [this]; simp [Reply.slice]
  have b2 : Reply.slice raw 46 (46 + 1) = [s] := by
    rw [hraw2]
    have := Cli.slice_at H ([s, 0, st, n] ++ tail) 46 0 1 hH
    simp only [Nat.add_zero] at this
    rw [this]; simp [Reply.slice]
  have b3 : Reply.slice raw (46 + 2) (46 + 3) = [st] := by
    rw [hraw2, Cli.slice_at H ([s, 0, st, n] ++ tail) 46 2 3 hH]; simp [Reply.slice]
  have b4 : raw.drop (46 + 4) = tail := by
    rw [hraw2, ← hH, List.drop_append]; simp
  have b5 : decodeIntVal .dint [0, 0, 0, 0] = .ok (0, []) := rfl
  obtain ⟨v, hv⟩ := Cli.serviceFromReply_ok s [] hs
  refine ⟨Reply.slice raw 0 2, v, hv, ?_⟩
  simp only [Reply.parseCip, Reply.parseBase, Reply.parseService, hoff, b1, b2, b3, b4, b5, hv]

/-- the services whose replies may legitimately continue (status 6): not the plain tag services -/
def ldx_PlainSvc (svc : Nat) : Prop := svc = 0x4C ∨ svc = 0x4D ∨ svc = 0x4E

theorem ldx_plain_not_multi (svc : Nat) (h : ldx_PlainSvc svc) (o : Option Bytes)
    (ho : serviceFromReply [UInt8.ofNat (svc % 128 + 128)] = .ok o) : isMultiPacket o = false := by
  rcases h with rfl | rfl | rfl
  · have e : serviceFromReply [UInt8.ofNat (0x4C % 128 + 128)] = .ok (some [0x4C]) := by rfl
    rw [e] at ho; cases ho; decide
  · have e : serviceFromReply [UInt8.ofNat (0x4D % 128 + 128)] = .ok (some [0x4D]) := by rfl
    rw [e] at ho; cases ho; decide
  · have e : serviceFromReply [UInt8.ofNat (0x4E % 128 + 128)] = .ok (some [0x4E]) := by rfl
    rw [e] at ho; cases ho; decide

/-- (e) the response object over ANY reply bytes that carry encapsulation status 0 and the controller's
    message-router reply `r` with a CIP general status other than 0 (and other than 6, unless the service is one of
    the plain tag services, for which 6 is an error too) at the offsets of a connected reply: the response is
    invalid, `response.error` is the status text (with the extended status), the data field holds the bytes after
    the four status bytes -/
theorem ldx_tagResp_raw (raw P rest H : Bytes) (svc : Nat) (r : MRReply) (hP : P.length = 8)
    (hraw1 : raw = P ++ ([0, 0, 0, 0] ++ rest)) (hH : H.length = 46) (hraw2 : raw = H ++ encMRReply svc r)
    (hst : r.status ≠ 0) (hst8 : r.status < 256) (hext : r.ext.length < 256)
    (h6 : r.status ≠ 6 ∨ ldx_PlainSvc svc) :
    (tagResp (some raw)).valid = false ∧
    (tagResp (some raw)).error = .ok (some (.reply (.text (ldx_errText r)))) ∧
    (tagResp (some raw)).p.data = some ((r.ext.map (le 2)).flatten ++ r.data) := by
  have hsv : 128 ≤ (UInt8.ofNat (svc % 128 + 128)).toNat := by rw [EP.toNat_ofNat]; omega
  have hstn : (UInt8.ofNat r.status).toNat = r.status := by rw [EP.toNat_ofNat]; omega
  have hraw2' : raw = H ++ ([UInt8.ofNat (svc % 128 + 128), 0, UInt8.ofNat r.status, UInt8.ofNat r.ext.length] ++
      ((r.ext.map (le 2)).flatten ++ r.data)) := by
    rw [hraw2]; simp [encMRReply]
  obtain ⟨cmd, o, ho, hp⟩ := ldx_parseCip_status raw P rest H _ _ _ _ hP hraw1 hsv hH hraw2'
  rw [hstn] at hp
  have hdrop : raw.drop 48 = ldx_statusTail r := by
    rw [hraw2, ldx_encMRReply_eq, ← List.append_assoc]
    have : (H ++ [UInt8.ofNat (svc % 128 + 128), 0]).length = 48 := by simp [hH]
    rw [← this, List.drop_left]
  have hv : validCip .connected (parseCip (some raw) .connected) = false := by
    rw [hp]
    cases hc : validCip .connected
      { err := none, command := some cmd, commandStatus := some 0, service := o, serviceStatus := some r.status,
        data := some ((r.ext.map (le 2)).flatten ++ r.data) } with
    | false => rfl
    | true =>
      exfalso
      rcases (validCip_record _ _ _ _ _ _).1 hc with ⟨_, h | ⟨h, _, hm⟩⟩
      · exact hst h
      · rcases h6 with h6 | h6
        · exact h6 h
        · rw [ldx_plain_not_multi svc h6 o ho] at hm; cases hm
  have he : errorCip (some raw) .connected (parseCip (some raw) .connected) false =
      .ok (some (.text (ldx_errText r))) := by
    rw [hp, errorCip_record]
    simp only [ne_eq, not_true_eq_false, if_false, hst, not_false_eq_true, if_true]
    rw [ldx_extendedText raw r hext hdrop]
    rfl
  refine ⟨?_, ?_, ?_⟩
  · unfold tagResp; exact hv
  · unfold Resp.error tagResp
    simp only [hv, he]
    rfl
  · unfold tagResp
    simp only [hp]

/-- (e) the connected reply frame the target builds around the reply `r` -/
theorem ldx_tagResp_refused (svc s toId seq : Nat) (ctx : Bytes) (r : MRReply) (hc : ctx.length = 8)
    (hst : r.status ≠ 0) (hst8 : r.status < 256) (hext : r.ext.length < 256)
    (h6 : r.status ≠ 6 ∨ ldx_PlainSvc svc) :
    (tagResp (some (frame CMD_SEND_UNIT s 0 ctx (cpfReplyConnected toId seq (encMRReply svc r))))).valid = false ∧
    (tagResp (some (frame CMD_SEND_UNIT s 0 ctx (cpfReplyConnected toId seq (encMRReply svc r))))).error =
      .ok (some (.reply (.text (ldx_errText r)))) ∧
    (tagResp (some (frame CMD_SEND_UNIT s 0 ctx (cpfReplyConnected toId seq (encMRReply svc r))))).p.data =
      some ((r.ext.map (le 2)).flatten ++ r.data) := by
  have hz : leBytes 4 0 = [0, 0, 0, 0] := rfl
  generalize hmrd : encMRReply svc r = mr
  have hH : (encHeader CMD_SEND_UNIT (cpfReplyConnected toId seq mr).length s 0 ctx ++
        (le 4 0 ++ le 2 0 ++ le 2 2 ++ le 2 ITEM_CONNECTION ++ le 2 4 ++ le 4 toId ++
         le 2 ITEM_CONNECTED_DATA ++ le 2 (mr.length + 2) ++ le 2 seq)).length = 46 := by
    simp [encHeader, le, RT.leBytes_length, hc]
  have hraw2 : frame CMD_SEND_UNIT s 0 ctx (cpfReplyConnected toId seq mr) =
      (encHeader CMD_SEND_UNIT (cpfReplyConnected toId seq mr).length s 0 ctx ++
        (le 4 0 ++ le 2 0 ++ le 2 2 ++ le 2 ITEM_CONNECTION ++ le 2 4 ++ le 4 toId ++
         le 2 ITEM_CONNECTED_DATA ++ le 2 (mr.length + 2) ++ le 2 seq)) ++ encMRReply svc r := by
    rw [hmrd]
    simp only [frame, cpfReplyConnected, List.append_assoc]
  have hraw1 : frame CMD_SEND_UNIT s 0 ctx (cpfReplyConnected toId seq mr) =
      (le 2 CMD_SEND_UNIT ++ le 2 (cpfReplyConnected toId seq mr).length ++ le 4 s) ++
      ([0, 0, 0, 0] ++ (ctx ++ le 4 0 ++ cpfReplyConnected toId seq mr)) := by
    simp only [frame, encHeader, le, hz, List.append_assoc]
  exact ldx_tagResp_raw _ _ _ _ svc r (by simp [le, RT.leBytes_length]) hraw1 hH hraw2 hst hst8 hext h6

/-- (e) the same for an embedded reply of a Multiple Service Packet, behind the 46 zero bytes -/
theorem ldx_tagResp_refused_padded (svc : Nat) (r : MRReply)
    (hst : r.status ≠ 0) (hst8 : r.status < 256) (hext : r.ext.length < 256)
    (h6 : r.status ≠ 6 ∨ ldx_PlainSvc svc) :
    (tagResp (some (List.replicate 46 0 ++ encMRReply svc r))).valid = false ∧
    (tagResp (some (List.replicate 46 0 ++ encMRReply svc r))).error = .ok (some (.reply (.text (ldx_errText r)))) := by
  have hraw1 : List.replicate 46 (0 : UInt8) ++ encMRReply svc r = List.replicate 8 (0 : UInt8) ++ ([0, 0, 0, 0] ++
      (List.replicate 34 (0 : UInt8) ++ encMRReply svc r)) := by
    have : List.replicate 46 (0 : UInt8) = List.replicate 8 0 ++ ([0, 0, 0, 0] ++ List.replicate 34 0) := by decide
    rw [this]; simp only [List.append_assoc]
  obtain ⟨h1, h2, _⟩ := ldx_tagResp_raw _ _ _ (List.replicate 46 0) svc r (by simp) hraw1 (by simp) rfl hst hst8 hext h6
  exact ⟨h1, h2⟩

/-! ### the Tags `_send_requests` records for a refused request -/

/-- (e) a plain Read Tag whose reply is the framed refusal `r`: a Tag without value carrying the error -/
theorem ldx_readTag_refused (req : ReadReq) (s toId seq : Nat) (ctx : Bytes) (r : MRReply) (hc : ctx.length = 8)
    (hst : r.status ≠ 0) (hst8 : r.status < 256) (hext : r.ext.length < 256) :
    readTag req
      (readResp req (some (frame CMD_SEND_UNIT s 0 ctx (cpfReplyConnected toId seq (encMRReply 0x4C r))))).1
      (readResp req (some (frame CMD_SEND_UNIT s 0 ctx (cpfReplyConnected toId seq (encMRReply 0x4C r))))).2.1
      (readResp req (some (frame CMD_SEND_UNIT s 0 ctx (cpfReplyConnected toId seq (encMRReply 0x4C r))))).2.2 =
      .ok { tag := req.tag, value := .none, type := none, error := some (.reply (.text (ldx_errText r))) } := by
  obtain ⟨h1, h2, _⟩ := ldx_tagResp_refused 0x4C s toId seq ctx r hc hst hst8 hext (Or.inr (Or.inl rfl))
  unfold readResp
  simp only [h1, Bool.false_eq_true, if_false]
  unfold readTag
  simp only [h2, h1, Bool.false_eq_true, if_false]

/-- (e) a write-type request (Write Tag, Read-Modify-Write) whose reply is the framed refusal `r` -/
theorem ldx_writeTag_refused (tag : Name) (value : PyVal) (dt : Name) (svc s toId seq : Nat) (ctx : Bytes) (r : MRReply)
    (hc : ctx.length = 8) (hst : r.status ≠ 0) (hst8 : r.status < 256) (hext : r.ext.length < 256)
    (h6 : r.status ≠ 6 ∨ ldx_PlainSvc svc) :
    writeTag tag value dt (tagResp (some (frame CMD_SEND_UNIT s 0 ctx (cpfReplyConnected toId seq (encMRReply svc r))))) =
      .ok { tag := tag, value := .none, type := none, error := some (.reply (.text (ldx_errText r))) } := by
  obtain ⟨h1, h2, _⟩ := ldx_tagResp_refused svc s toId seq ctx r hc hst hst8 hext h6
  unfold writeTag
  simp only [h2, h1, Bool.false_eq_true, if_false]

/-- (e) an embedded Read Tag reply that is the refusal `r` -/
theorem ldx_readResp_refused_padded (req : ReadReq) (r : MRReply)
    (hst : r.status ≠ 0) (hst8 : r.status < 256) (hext : r.ext.length < 256) :
    (readResp req (some (List.replicate 46 0 ++ encMRReply 0x4C r))).1.valid = false ∧
    (readResp req (some (List.replicate 46 0 ++ encMRReply 0x4C r))).1.error =
      .ok (some (.reply (.text (ldx_errText r)))) := by
  obtain ⟨h1, h2⟩ := ldx_tagResp_refused_padded 0x4C r hst hst8 hext (Or.inr (Or.inl rfl))
  unfold readResp
  simp only [h1, Bool.false_eq_true, if_false]
  exact ⟨trivial, h2⟩

/-! ### (f) result assembly for a falsy recorded Tag -/

/-- (f) the result loop of `read` for an error-free request whose recorded Tag is falsy: the caller gets a Tag named
    as requested, without value and type, carrying the recorded error -/
theorem ldx_readResult_falsy (p : Parsed) (info : TagInfo) (t : LTag) (rs : Results)
    (herr : p.error = none) (hinfo : p.info = some info) (hget : rs.get? p.requestId = some t)
    (hf : t.truthy = false) :
    readResult p rs = { tag := p.userTag, value := .none, type := none, error := t.error } := by
  unfold readResult
  simp only [herr, hinfo, hget, hf, Bool.false_eq_true, if_false]

/-- a Tag with an error is falsy -/
theorem ldx_falsy_of_error (t : LTag) (e : TagErr) (h : t.error = some e) : t.truthy = false := by
  unfold LTag.truthy
  rw [h]
  simp

/-- the text the reference controller's "index out of range" answer is shown as -/
theorem ldx_oob_text :
    ldx_errText { status := 0xFF, ext := [0x2105] } =
      nm "General Error (see extended status) - Access beyond end of the object  (ff, 2105)" := by
  decide +kernel

end Pycomm.Lgx.Drv
