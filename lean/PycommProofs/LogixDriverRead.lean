/-
  C01 at the driver level: `LogixDriver.read("tag")` of one controller-scope elementary scalar tag, through the
  whole stack of the model — tag-string parsing, request building, `CIPDriver.send`, encapsulation, the reference
  target's encapsulation layer / message router / Logix services, reply framing, response classes, value decoding
  and result assembly.

  Layers (lemmas usable on their own):
    (a) LDReadParse   `ldr_parse_plain`
    (b) LDReadBuild   `ldr_requestPath`, `ldr_build_single`
    (c) LDReadTransport `ldr_handle_unit`, `ldr_sendUnit`
    (d) LDReadTarget  `ldr_resolve`, `ldr_readBytes`, `ldr_exchange`, `ldr_execMR_read`; LDReadSend `ldr_sendUnit_read`
    (e) LDReadReply   `ldr_tagResp_ok`, `ldr_parseReadReply`, `ldr_readResp`
    (f) LDReadReply   `ldr_readResult`
-/
import PycommProofs.LDReadSend
import PycommProofs.LDReadReply
import PycommProofs.LDReadTagDb
namespace Pycomm.Lgx.Drv
open Pycomm Pycomm.Tgt Pycomm.Path Pycomm.Reply Pycomm.Encap Pycomm.Lgx Pycomm.Lgx.E2E

/-- the `with_forward_open` decorator on a driver that is connected: nothing happens (any fuel) -/
theorem ldr_ensureFO_connected {σ} (hook : ObjHook σ) (fuel : Nat) (w : Cli.World σ)
    (h : w.drv.targetIsConnected = true) : Cli.ensureForwardOpen hook (fuel + 1) w = (w, .ok ()) := by
  unfold Cli.ensureForwardOpen
  simp only [h, if_true]

/-- the parsed request of a plain tag name (`ldr_parse_plain`) -/
def ldr_parsed (n : Name) (info : TagInfo) : Parsed :=
  { requestId := 0, requestTag := n, userTag := n, plcTag := n, bit := none, elements := 1, info := some info,
    boolElements := none }

/-- what the tag database says about the symbol: an atomic tag of that elementary type with the symbol's instance id
    (this is what `_create_tag` makes of a scalar symbol, see `ldr_createTag_atomic`) -/
structure ldr_InfoOf (info : TagInfo) (name : Name) (t : Ty) (inst : Nat) : Prop where
  kind : info.core.tagType = .atomic
  typeName : info.core.dataTypeName = name
  ty : info.core.ty = t
  instanceId : info.core.instanceId = some inst
  struct : info.core.struct = none

/-- `_create_tag` of a scalar symbol of an elementary type yields such an entry -/
theorem ldr_createTag_atomic (p : Project) (s : Symbol) (name : Name) (t : Ty)
    (hw : s.symbolType / 32768 % 2 = 0) (hdims : s.symbolType / 8192 % 4 = 0)
    (hat : atomicOfCode (s.symbolType % 256) = some (name, t)) :
    ∃ info, createTag p s = some info ∧ ldr_InfoOf info name t s.inst := by
  have h1 : (K.decodeTypeWord s.symbolType).isStruct = false := by
    simp [K.decodeTypeWord, hw]
  refine ⟨.mk { tagType := .atomic, dataTypeName := name, ty := t, dim := 0,
                 dimensions := (s.dims ++ [0, 0, 0]).take 3, instanceId := some s.inst } .nil, ?_, ⟨rfl, rfl, rfl, rfl, rfl⟩⟩
  unfold createTag
  simp only [h1, Bool.false_eq_true, if_false]
  simp only [K.decodeTypeWord, hat, hdims, ne_eq, not_true_eq_false, if_false]

-- PROPERTY THEOREMS

/-- C01, driver level, first instance: reading ONE controller-scope elementary (non-bit-string) scalar tag by its
    plain name on a healthy connected driver returns exactly one error-free Tag carrying the tag name, the type name
    and the value the codec decodes from the symbol's memory; exactly one frame is written, one sequence number is
    drawn, the controller's project is unchanged (only the schedule counter of the Logix state advances), and the
    resulting world is healthy again (so the theorem applies to the next read).

    Hypotheses (each holds in a reachable healthy state and is needed):
    * `hw`        the connection facts of `ldr_Healthy`: driver connected with socket, 8-byte context, option 0,
                  32-bit session handle registered at the target, 4-byte connection id whose connection the target holds
                  for that session, nothing pending, no transport faults scheduled;
    * `hlogix`    the target runs the Logix services over the state `st` (its project is `st.proj`);
    * `hs`        `s` is a controller-scope symbol of the project;
    * `hbytes`    symbol names are byte strings (they came over the wire);
    * `huniqN`, `huniqI`  the name and the instance id of `s` are unique in the controller scope;
    * `hid`       the name is a plain identifier (letters, digits, underscore; ≤ 255 characters);
    * `hinst`     the instance id fits 32 bits;
    * `hty`, `hat`, `hb`  the symbol's type word says elementary type code `c`; the driver's tables know `c` as type
                  `name` with codec class `t`, which is not a bit string (not DWORD);
    * `hsz`, `hlen`  the symbol's memory has the size of the type;
    * `hget`, `hinfo`  the tag database maps the name to an atomic entry of that type with the symbol's instance id;
    * `hdec`      `v` is what the codec decodes from the memory;
    * `hC`, `hT`  the small request and its answer fit the driver's connection size and the size the target granted
                  (`name length + 28` bytes suffice). -/
theorem read_atomic_scalar_e2e (cfg : Cfg) (w : Cli.World Ext) (sess : Nat) (cidb : Bytes) (conn : Conn)
    (st : LState) (s : Symbol) (info : TagInfo) (c sz : Nat) (name : Name) (t : Ty) (v : PyVal) (rest : Bytes)
    (hw : ldr_Healthy w sess cidb conn) (hlogix : w.net.target.ext.logix = some st)
    (hs : s ∈ st.proj.controller)
    (hbytes : ∀ s' ∈ st.proj.controller, ∀ ch ∈ s'.name, ch < 256)
    (huniqN : ∀ s' ∈ st.proj.controller, s'.name = s.name → s' = s)
    (huniqI : ∀ s' ∈ st.proj.controller, s'.inst = s.inst → s' = s)
    (hid : PlainIdent s.name) (hinst : s.inst < 2 ^ 32)
    (hty : elTyOfWord s.symbolType = .atomic c) (hat : atomicOfCode c = some (name, t)) (hb : t.isBits = none)
    (hsz : atomicSize c = some sz) (hlen : s.mem.length = sz)
    (hget : cfg.tags.get? s.name = some info) (hinfo : ldr_InfoOf info name t s.inst)
    (hdec : decode t s.mem = .ok (v, rest))
    (hC : s.name.length + 28 ≤ w.drv.connectionSize) (hT : s.name.length + 28 ≤ conn.size) :
    ∃ w' frm, read hookAll cfg w [s.name] =
        (w', .ok [{ tag := s.name, value := v, type := some name, error := none }]) ∧
      w'.drv = w.drv.nextSeq.2 ∧ w'.net.sent = w.net.sent ++ [frm] ∧
      w'.net.target.ext = { w.net.target.ext with logix := some { st with ctr := st.ctr + 1 } } ∧
      ldr_Healthy w' sess cidb { conn with lastSeq := some w.drv.nextSeq.1 } := by
  obtain ⟨haty, hentry, hndw, hpos, hle8⟩ := ldr_atomic_table c sz name t hat hb hsz
  -- (a) parsing
  have hnd : isDword info = false := by
    have : (name == nm "DWORD") = false := by simpa using hndw
    simp [isDword, hinfo.typeName, this]
  have hparsed : parseRequestedTags cfg.tags false [s.name] = [ldr_parsed s.name info] := by
    have := ldr_parse_plain cfg.tags false 0 s.name info hid hget hnd
    show [parseTagRequest cfg.tags false 0 s.name] = _
    rw [this]; rfl
  -- (b) building
  obtain ⟨path, hpath, hpl, hden⟩ := ldr_requestPath cfg s.name info s.inst hid hinfo.instanceId hinst
  have hrs : tagReturnSize info 1 = sz := by
    simp [tagReturnSize, hinfo.struct, hinfo.typeName, hentry]
  have hml : (Cl.readMsg path 1).length = path.length + 3 := by
    simp [Cl.readMsg, le, RT.leBytes_length]
  have hbuild := ldr_build_single cfg w.drv (ldr_parsed s.name info) info path rfl rfl rfl hpath (by rw [hrs, hml]; omega)
  -- (c)+(d) sending
  have hw1 : ldr_Healthy ({ w with drv := w.drv.nextSeq.2 } : Cli.World Ext) sess cidb conn :=
    ldr_Healthy_seq hw _ (by rw [(Cli.lcs_nextSeq w.drv).2])
  obtain ⟨w2, frm, hsend, hd2, hsent2, hext2, hh2⟩ := ldr_sendUnit_read ({ w with drv := w.drv.nextSeq.2 } : Cli.World Ext)
    sess cidb conn st s c sz cfg.useInstanceIds path w.drv.nextSeq.1 hw1 hlogix hid hs hbytes huniqN huniqI hty hsz hlen
    hpos hden hpl (ldr_nextSeq_lt w.drv) (by omega)
  -- (e) the response
  have hresp := ldr_readResp
    { seq := w.drv.nextSeq.1, tag := s.name, elements := 1, info := info, rid := 0, path := path } c t name s.mem rest v
    sess conn.toId w.drv.nextSeq.1 w.drv.nextSeq.2.context hw1.ctx8 rfl hinfo.ty hinfo.typeName hndw haty hb hdec
  -- (f) the result
  have hresult := ldr_readResult (ldr_parsed s.name info) info
    { tag := s.name, value := v, type := some name, error := none } rfl rfl rfl
    (by rw [hinfo.typeName]; exact hndw) (ldr_decode_not_none c t haty hb s.mem rest v hdec) rfl
  -- the decorator
  have hfo : Cli.ensureForwardOpen hookAll Cli.FUEL w = (w, .ok ()) := ldr_ensureFO_connected hookAll 7 w hw.connected
  refine ⟨w2, frm, ?_, hd2, hsent2, hext2, hh2⟩
  unfold read
  rw [hfo]
  dsimp only
  rw [hparsed, hbuild]
  dsimp only
  unfold sendRequests sendRequest
  dsimp only
  rw [hsend]
  dsimp only [ldr_parsed]
  rw [hresp]
  dsimp only [Except.map]
  unfold sendRequests
  dsimp only [List.isEmpty_cons, Bool.false_eq_true, if_false, List.map_cons, List.map_nil, Results.set, List.any_nil,
    List.nil_append]
  simp only [Bool.false_eq_true, if_false, List.map_cons, List.map_nil]
  dsimp only [ldr_parsed] at hresult
  rw [hresult]

/-- the same with the value given by its encoding: if the symbol's memory is the encoding of the canonical value `v`
    of the tag's type, `read` returns `v` -/
theorem read_atomic_scalar_e2e_encoded (cfg : Cfg) (w : Cli.World Ext) (sess : Nat) (cidb : Bytes) (conn : Conn)
    (st : LState) (s : Symbol) (info : TagInfo) (c sz : Nat) (name : Name) (t : Ty) (v : PyVal)
    (hw : ldr_Healthy w sess cidb conn) (hlogix : w.net.target.ext.logix = some st)
    (hs : s ∈ st.proj.controller)
    (hbytes : ∀ s' ∈ st.proj.controller, ∀ ch ∈ s'.name, ch < 256)
    (huniqN : ∀ s' ∈ st.proj.controller, s'.name = s.name → s' = s)
    (huniqI : ∀ s' ∈ st.proj.controller, s'.inst = s.inst → s' = s)
    (hid : PlainIdent s.name) (hinst : s.inst < 2 ^ 32)
    (hty : elTyOfWord s.symbolType = .atomic c) (hat : atomicOfCode c = some (name, t)) (hb : t.isBits = none)
    (hsz : atomicSize c = some sz) (hlen : s.mem.length = sz)
    (hget : cfg.tags.get? s.name = some info) (hinfo : ldr_InfoOf info name t s.inst)
    (hcanon : Canon t v) (henc : encode t v = .ok s.mem)
    (hC : s.name.length + 28 ≤ w.drv.connectionSize) (hT : s.name.length + 28 ≤ conn.size) :
    ∃ w' frm, read hookAll cfg w [s.name] =
        (w', .ok [{ tag := s.name, value := v, type := some name, error := none }]) ∧
      w'.drv = w.drv.nextSeq.2 ∧ w'.net.sent = w.net.sent ++ [frm] ∧
      w'.net.target.ext = { w.net.target.ext with logix := some { st with ctr := st.ctr + 1 } } ∧
      ldr_Healthy w' sess cidb { conn with lastSeq := some w.drv.nextSeq.1 } := by
  obtain ⟨bs, h1, h2⟩ := decode_encode t v hcanon
  rw [henc] at h1
  cases h1
  have hdec : decode t s.mem = .ok (v, []) := by
    have := h2 []
    rwa [List.append_nil] at this
  exact read_atomic_scalar_e2e cfg w sess cidb conn st s info c sz name t v [] hw hlogix hs hbytes huniqN huniqI hid
    hinst hty hat hb hsz hlen hget hinfo hdec hC hT

/-- the same with the tag database the driver really holds after `open()`: `cfg.tags` is `tagDbOf` of the controller's
    project (with or without program tags). The hypotheses on the entry are replaced by hypotheses on the symbol:
    * `hkeep`     the symbol is a user tag (`_isolate_user_tags` keeps it: no system bit, no `__` prefix, …);
    * `hstruct`, `hdims`  its type word is not a structure and has no array dimensions;
    * `hat`, `hsz` the driver's tables and the controller's sizes for the type code in the low byte of the type word. -/
theorem read_atomic_scalar_e2e_db (cfg : Cfg) (w : Cli.World Ext) (sess : Nat) (cidb : Bytes) (conn : Conn)
    (st : LState) (s : Symbol) (sz : Nat) (name : Name) (t : Ty) (v : PyVal) (rest : Bytes) (programTags : Bool)
    (hw : ldr_Healthy w sess cidb conn) (hlogix : w.net.target.ext.logix = some st)
    (hs : s ∈ st.proj.controller)
    (hbytes : ∀ s' ∈ st.proj.controller, ∀ ch ∈ s'.name, ch < 256)
    (huniqN : ∀ s' ∈ st.proj.controller, s'.name = s.name → s' = s)
    (huniqI : ∀ s' ∈ st.proj.controller, s'.inst = s.inst → s' = s)
    (hid : PlainIdent s.name) (hinst : s.inst < 2 ^ 32)
    (hstruct : s.symbolType / 32768 % 2 = 0) (hdims : s.symbolType / 8192 % 4 = 0)
    (hat : atomicOfCode (s.symbolType % 256) = some (name, t)) (hb : t.isBits = none)
    (hsz : atomicSize (s.symbolType % 256) = some sz) (hlen : s.mem.length = sz)
    (hkeep : K.keepSymbol s.name s.symbolType = true) (hdb : tagDbOf st.proj programTags = some cfg.tags)
    (hdec : decode t s.mem = .ok (v, rest))
    (hC : s.name.length + 28 ≤ w.drv.connectionSize) (hT : s.name.length + 28 ≤ conn.size) :
    ∃ w' frm, read hookAll cfg w [s.name] =
        (w', .ok [{ tag := s.name, value := v, type := some name, error := none }]) ∧
      w'.drv = w.drv.nextSeq.2 ∧ w'.net.sent = w.net.sent ++ [frm] ∧
      w'.net.target.ext = { w.net.target.ext with logix := some { st with ctr := st.ctr + 1 } } ∧
      ldr_Healthy w' sess cidb { conn with lastSeq := some w.drv.nextSeq.1 } := by
  obtain ⟨info, hc1, hinfo⟩ := ldr_createTag_atomic st.proj s name t hstruct hdims hat
  obtain ⟨i, hc2, hget⟩ := ldr_tagDb_get st.proj programTags cfg.tags s hdb hs hkeep huniqN
    (ldr_plain_not_mem s.name hid 58 (by omega))
  rw [hc1] at hc2
  cases hc2
  have hty : elTyOfWord s.symbolType = .atomic (s.symbolType % 256) := by
    unfold elTyOfWord
    rw [if_neg (by omega)]
  exact read_atomic_scalar_e2e cfg w sess cidb conn st s info _ sz name t v rest hw hlogix hs hbytes huniqN huniqI hid
    hinst hty hat hb hsz hlen hget hinfo hdec hC hT

/-! ### non-vacuity: all hypotheses instantiated on a concrete project and a world obtained by running the model -/

namespace Ex

/-- one DINT tag `abc` holding 42 -/
def sym : Symbol :=
  { inst := 7, name := nm "abc", symbolType := 0xC4, dims := [0, 0, 0], attr3 := 0, attr5 := 0, attr6 := 2 ^ 26,
    access := 0, mem := [0x2A, 0, 0, 0] }
def proj : Project := { templates := [], controller := [sym], programs := [] }
def state : LState := { proj := proj }
def base : Base :=
  { identity := { vendor := 1, productType := 14, productCode := 1, major := 32, minor := 11, status := 0, serial := 1,
                  name := [], state := 3, ip := 0 }, plcName := [] }
/-- a fresh driver in front of a fresh target holding the project -/
def world0 : Cli.World Ext := { drv := {}, net := { target := { base := base, ext := { logix := some state } } } }
/-- … after `open()` (register session) and the Forward Open of `with_forward_open`: the model is run -/
def world : Cli.World Ext :=
  (Cli.ensureForwardOpen hookAll Cli.FUEL (Cli.openDrv hookAll world0 [1, 2, 3, 4, 5, 6, 7, 8]).1).1
/-- the driver configuration after the tag upload: the tag database computed from the project -/
def cfg : Cfg := { tags := (tagDbOf proj false).getD [] }
/-- the entry of `abc` in that database -/
def info : TagInfo :=
  .mk { tagType := .atomic, dataTypeName := nm "DINT", ty := .int .dint, dim := 0, dimensions := [0, 0, 0],
        instanceId := some 7 } .nil
/-- the connection the target holds after the Forward Open -/
def conn : Tgt.Conn :=
  { cid := 12648430, toId := 67305985, session := 4097, size := 4000, large := true, serial := 1063, vendor := 4105,
    origSerial := 134678021, lastSeq := none, route := [32, 2, 36, 1] }

-- evaluation checks of the run (interpreter)
#guard world.drv.targetIsConnected && world.drv.session == some 4097 && world.drv.targetCid == some [238, 255, 192, 0]
#guard world.net.target.base.sessions == [4097] && world.net.target.base.conns == [conn]
#guard (match (read hookAll cfg world [nm "abc"]).2 with
        | .ok [t] => t.tag == nm "abc" && t.type == some (nm "DINT") && t.error.isNone &&
                     (match t.value with | .int 42 => true | _ => false)
        | _ => false)

theorem healthy : ldr_Healthy world 4097 [238, 255, 192, 0] conn :=
  ⟨by decide +kernel, by decide +kernel, by decide +kernel, by decide +kernel, by decide +kernel, by decide,
   by decide +kernel, by decide +kernel, by decide, by decide +kernel, by decide +kernel, by decide +kernel⟩

theorem mem_ctl (s' : Symbol) (h : s' ∈ proj.controller) : s' = sym := by
  simpa [proj] using h

/-- every hypothesis of `read_atomic_scalar_e2e` holds for the concrete world: `read("abc")` returns 42 -/
example : ∃ w' frm, read hookAll cfg world [nm "abc"] =
      (w', .ok [{ tag := nm "abc", value := .int 42, type := some (nm "DINT"), error := none }]) ∧
    w'.drv = world.drv.nextSeq.2 ∧ w'.net.sent = world.net.sent ++ [frm] ∧
    w'.net.target.ext = { world.net.target.ext with logix := some { state with ctr := state.ctr + 1 } } ∧
    ldr_Healthy w' 4097 [238, 255, 192, 0] { conn with lastSeq := some world.drv.nextSeq.1 } :=
  read_atomic_scalar_e2e cfg world 4097 [238, 255, 192, 0] conn state sym info 0xC4 4 (nm "DINT") (.int .dint) (.int 42) []
    healthy
    (by rfl)                                                   -- hlogix
    (by simp [state, proj])                                    -- hs
    (fun s' h => by rw [mem_ctl s' h]; decide)                 -- hbytes
    (fun s' h _ => mem_ctl s' h)                               -- huniqN
    (fun s' h _ => mem_ctl s' h)                               -- huniqI
    ⟨by decide, by decide, by decide⟩                          -- hid
    (by decide)                                                -- hinst
    (by decide) rfl rfl rfl rfl                                -- hty hat hb hsz hlen
    (by rfl)                                                   -- hget
    ⟨rfl, rfl, rfl, rfl, rfl⟩                                  -- hinfo
    (by rfl)                                                   -- hdec
    (by decide +kernel) (by decide)                            -- hC hT

/-- … and of `read_atomic_scalar_e2e_db`, with the tag database computed from the project -/
example : ∃ w' frm, read hookAll cfg world [nm "abc"] =
      (w', .ok [{ tag := nm "abc", value := .int 42, type := some (nm "DINT"), error := none }]) ∧
    w'.drv = world.drv.nextSeq.2 ∧ w'.net.sent = world.net.sent ++ [frm] ∧
    w'.net.target.ext = { world.net.target.ext with logix := some { state with ctr := state.ctr + 1 } } ∧
    ldr_Healthy w' 4097 [238, 255, 192, 0] { conn with lastSeq := some world.drv.nextSeq.1 } :=
  read_atomic_scalar_e2e_db cfg world 4097 [238, 255, 192, 0] conn state sym 4 (nm "DINT") (.int .dint) (.int 42) [] false
    healthy (by rfl) (by simp [state, proj])
    (fun s' h => by rw [mem_ctl s' h]; decide) (fun s' h _ => mem_ctl s' h) (fun s' h _ => mem_ctl s' h)
    ⟨by decide, by decide, by decide⟩ (by decide)
    (by decide) (by decide) rfl rfl rfl rfl      -- hstruct hdims hat hb hsz hlen
    (by decide) (by rfl)                         -- hkeep hdb
    (by rfl) (by decide +kernel) (by decide)

end Ex

end Pycomm.Lgx.Drv

