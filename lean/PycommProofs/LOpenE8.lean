/-
  LogixDriver.open(), end to end, part 8: which symbols `_isolate_user_tags` keeps (`K.keepSymbol`, class by class), the
  keys of the tag database `Drv.tagDbOf` (none missing, none invented, none twice), its entries, and the per-tag
  metadata (`external_access`, `alias`).
-/
import PycommProofs.LOpenE5
namespace Pycomm.Lgx.Opn
open Pycomm Pycomm.Tgt Pycomm.Path Pycomm.Lgx Pycomm.Lgx.Drv

/-! ### `keepSymbol`, class by class -/

/-- a name that lacks a character of the pattern does not start with the pattern … -/
theorem loe_startsWith_of_not_mem (pat s : Name) (c : Nat) (hc : c ∈ pat) (hs : c ∉ s) : PyStr.startsWith pat s = false := by
  cases h : PyStr.startsWith pat s with
  | false => rfl
  | true =>
    unfold PyStr.startsWith at h
    have ht := eq_of_beq h
    exact absurd (List.mem_of_mem_take (ht ▸ hc)) hs

/-- … and does not contain it -/
theorem loe_contains_of_not_mem (pat s : Name) (c : Nat) (hc : c ∈ pat) (hs : c ∉ s) : K.contains pat s = false := by
  unfold K.contains
  rw [List.any_eq_false]
  intro i _ h
  have ht := eq_of_beq h
  exact hs (List.mem_of_mem_drop (List.mem_of_mem_take (ht ▸ hc)))

/-- dropped: program symbols -/
theorem keepSymbol_program (name : Name) (t : Nat) (h : PyStr.startsWith (K.nm "Program:") name = true) :
    K.keepSymbol name t = false := by
  unfold K.keepSymbol; simp [h]

/-- dropped: routine symbols -/
theorem keepSymbol_routine (name : Name) (t : Nat) (h : PyStr.startsWith (K.nm "Routine:") name = true) :
    K.keepSymbol name t = false := by
  unfold K.keepSymbol; simp [h]

/-- dropped: task symbols -/
theorem keepSymbol_task (name : Name) (t : Nat) (h : PyStr.startsWith (K.nm "Task:") name = true) :
    K.keepSymbol name t = false := by
  unfold K.keepSymbol; simp [h]

/-- dropped: map symbols (`Map:` anywhere in the name) -/
theorem keepSymbol_map (name : Name) (t : Nat) (h : K.contains (K.nm "Map:") name = true) : K.keepSymbol name t = false := by
  unfold K.keepSymbol; simp [h]

/-- dropped: connection symbols (`Cxn:` anywhere in the name) -/
theorem keepSymbol_cxn (name : Name) (t : Nat) (h : K.contains (K.nm "Cxn:") name = true) : K.keepSymbol name t = false := by
  unfold K.keepSymbol; simp [h]

/-- dropped: double-underscore system symbols -/
theorem keepSymbol_dunder (name : Name) (t : Nat) (h : PyStr.startsWith (K.nm "__") name = true) :
    K.keepSymbol name t = false := by
  unfold K.keepSymbol
  simp only [h, Bool.or_true, if_true]
  split <;> (try rfl)
  split <;> rfl

/-- dropped: any other name with a colon that is not a module I/O tag (`:I`, `:O`, `:C`, `:S`) -/
theorem keepSymbol_colon (name : Name) (t : Nat) (hc : (58 : Nat) ∈ name)
    (hi : K.contains (K.nm ":I") name = false) (ho : K.contains (K.nm ":O") name = false)
    (hcc : K.contains (K.nm ":C") name = false) (hs : K.contains (K.nm ":S") name = false) :
    K.keepSymbol name t = false := by
  have h58 : name.contains 58 = true := by simpa using hc
  unfold K.keepSymbol
  simp only [hi, ho, hcc, hs, Bool.or_false, Bool.not_false, Bool.true_and, h58, Bool.true_or, if_true]
  split <;> (try rfl)
  split <;> rfl

/-- dropped: symbols whose type word has the system bit (bit 12) set -/
theorem keepSymbol_system_bit (name : Name) (t : Nat) (h : t / 4096 % 2 = 1) : K.keepSymbol name t = false := by
  unfold K.keepSymbol
  simp only [h, if_true]
  split <;> (try rfl)
  split <;> (try rfl)
  split <;> rfl

/-- kept: a name without a colon that does not start with `__`, system bit clear — every ordinary tag -/
theorem keepSymbol_plain (name : Name) (t : Nat) (hc : (58 : Nat) ∉ name)
    (hd : PyStr.startsWith (K.nm "__") name = false) (hb : t / 4096 % 2 = 0) : K.keepSymbol name t = true := by
  have h1 := loe_startsWith_of_not_mem (K.nm "Program:") name 58 (by decide) hc
  have h2 := loe_startsWith_of_not_mem (K.nm "Routine:") name 58 (by decide) hc
  have h3 := loe_startsWith_of_not_mem (K.nm "Task:") name 58 (by decide) hc
  have h4 := loe_contains_of_not_mem (K.nm "Map:") name 58 (by decide) hc
  have h5 := loe_contains_of_not_mem (K.nm "Cxn:") name 58 (by decide) hc
  unfold K.keepSymbol
  simp [h1, h2, h3, h4, h5, hd, hb, hc]

/-- kept: module I/O tags — a name with `:I`, `:O`, `:C` or `:S` that is none of the above -/
theorem keepSymbol_io (name : Name) (t : Nat)
    (hio : K.contains (K.nm ":I") name = true ∨ K.contains (K.nm ":O") name = true ∨
           K.contains (K.nm ":C") name = true ∨ K.contains (K.nm ":S") name = true)
    (h1 : PyStr.startsWith (K.nm "Program:") name = false) (h2 : PyStr.startsWith (K.nm "Routine:") name = false)
    (h3 : PyStr.startsWith (K.nm "Task:") name = false) (h4 : K.contains (K.nm "Map:") name = false)
    (h5 : K.contains (K.nm "Cxn:") name = false) (hd : PyStr.startsWith (K.nm "__") name = false)
    (hb : t / 4096 % 2 = 0) : K.keepSymbol name t = true := by
  have hio' : (K.contains (K.nm ":I") name || K.contains (K.nm ":O") name || K.contains (K.nm ":C") name ||
      K.contains (K.nm ":S") name) = true := by
    rcases hio with h | h | h | h <;> simp [h]
  unfold K.keepSymbol
  simp [h1, h2, h3, h4, h5, hd, hb, hio']

-- the classes on concrete names
#guard K.keepSymbol (K.nm "Local:1:I") 0x8123 && K.keepSymbol (K.nm "Local:2:O") 0x8124 &&
  K.keepSymbol (K.nm "Rack:3:C") 0x8125 && K.keepSymbol (K.nm "Drive:S") 0x8126 && K.keepSymbol (K.nm "abc") 0xC4
#guard !K.keepSymbol (K.nm "Program:Main") 0x1068 && !K.keepSymbol (K.nm "Routine:Main") 0x106D &&
  !K.keepSymbol (K.nm "Task:Fast") 0x1070 && !K.keepSymbol (K.nm "Map:Local") 0x1069 &&
  !K.keepSymbol (K.nm "Cxn:Fused:1") 0x107E && !K.keepSymbol (K.nm "__DEFVAL_0001") 0xC4 &&
  !K.keepSymbol (K.nm "x:y") 0xC4 && !K.keepSymbol (K.nm "abc") 0x10C4

/-! ### `{tag["tag_name"]: tag for tag in tags}`: keys -/

theorem loe_step_keys_nodup (db : TagDb) (x : Name × TagInfo) (h : (db.map (·.1)).Nodup) :
    ((ldr_step db x).map (·.1)).Nodup := by
  unfold ldr_step
  split
  · have : (db.map fun y => if y.1 == x.1 then x else y).map (·.1) = db.map (·.1) := by
      rw [List.map_map]
      apply List.map_congr_left
      intro y _
      show (if y.1 == x.1 then x else y).1 = y.1
      split
      · rename_i hy; exact (eq_of_beq hy).symm
      · rfl
    rw [this]; exact h
  · rename_i hany
    rw [List.map_append, List.map_cons, List.map_nil]
    rw [List.nodup_append]
    refine ⟨h, by simp, ?_⟩
    intro a ha b hb
    simp only [List.mem_singleton] at hb
    subst hb
    intro hab
    subst hab
    apply hany
    obtain ⟨y, hy, e⟩ := List.mem_map.1 ha
    rw [List.any_eq_true]
    exact ⟨y, hy, by simp [e]⟩

/-- a dict has every key once -/
theorem loe_ofList_keys_nodup (xs : List (Name × TagInfo)) : ((TagDb.ofList xs).map (·.1)).Nodup := by
  rw [ldr_ofList_eq]
  have : ∀ (acc : TagDb), (acc.map (·.1)).Nodup → ((xs.foldl ldr_step acc).map (·.1)).Nodup := by
    induction xs with
    | nil => intro acc h; exact h
    | cons x xs ih => intro acc h; rw [List.foldl_cons]; exact ih _ (loe_step_keys_nodup acc x h)
  exact this [] List.nodup_nil

/-- the keys of the dict are the keys of the list -/
theorem loe_ofList_key_iff (xs : List (Name × TagInfo)) (k : Name) :
    (∃ i, (k, i) ∈ TagDb.ofList xs) ↔ ∃ i, (k, i) ∈ xs := by
  rw [ldr_ofList_eq]
  constructor
  · rintro ⟨i, hi⟩
    rcases ldr_foldl_sub xs [] _ hi with h | h
    · cases h
    · exact ⟨i, h⟩
  · rintro ⟨i, hi⟩
    obtain ⟨y, hy, e⟩ := ldr_foldl_adds xs [] (k, i) hi
    obtain ⟨yk, yi⟩ := y
    simp only at e
    subst e
    exact ⟨yi, hy⟩

/-! ### the user-visible symbols of a project, with the keys `get_tag_list` gives them -/

/-- the user-visible symbols of one scope with their keys (`pfx` = "" or "Program:<name>.") -/
def loe_visibleScope (pfx : Name) (syms : List Symbol) : List (Name × Symbol) :=
  (syms.filter fun s => K.keepSymbol s.name s.symbolType).map fun s => (pfx ++ s.name, s)

/-- the user-visible symbols of the project: the controller scope and (when requested) every program scope -/
def loe_visible (p : Project) (programTags : Bool) : List (Name × Symbol) :=
  loe_visibleScope [] p.controller ++
  (if programTags then
    ((programNames p).map fun pn => loe_visibleScope (Drv.nm "Program:" ++ pn ++ [46]) (lon_progSyms p pn)).flatten
   else [])

theorem loe_userTags_iff (p : Project) (pfx : Name) (syms : List Symbol) (ys : List (Name × TagInfo))
    (h : userTags p pfx syms = some ys) (k : Name) :
    (∃ i, (k, i) ∈ ys) ↔ ∃ s, (k, s) ∈ loe_visibleScope pfx syms := by
  constructor
  · rintro ⟨i, hi⟩
    unfold userTags at h
    obtain ⟨s, hs, e⟩ := ldr_mapM_bwd _ _ _ h _ hi
    cases hc : Drv.createTag p s with
    | none => rw [hc] at e; cases e
    | some j =>
      rw [hc] at e
      simp only [Option.map_some, Option.some.injEq, Prod.mk.injEq] at e
      exact ⟨s, List.mem_map.2 ⟨s, hs, by rw [e.1]⟩⟩
  · rintro ⟨s, hs⟩
    obtain ⟨s', hs', e⟩ := List.mem_map.1 hs
    simp only [Prod.mk.injEq] at e
    obtain ⟨e1, e2⟩ := e
    subst e2
    obtain ⟨hm, hk⟩ := List.mem_filter.1 hs'
    obtain ⟨i, _, hi⟩ := ldr_userTags_fwd p pfx syms ys h s' hm hk
    exact ⟨i, e1 ▸ hi⟩

/-- the tag list `get_tag_list` collects, before it becomes a dict -/
theorem loe_tagDbOf_list (p : Project) (b : Bool) (db : TagDb) (hdb : tagDbOf p b = some db) :
    ∃ xs : List (Name × TagInfo), db = TagDb.ofList xs ∧
      (∀ k, (∃ i, (k, i) ∈ xs) ↔ ∃ s, (k, s) ∈ loe_visible p b) ∧
      (∀ k i, (k, i) ∈ xs → ∃ s, (k, s) ∈ loe_visible p b ∧ Drv.createTag p s = some i) ∧
      (∀ k s, (k, s) ∈ loe_visible p b → ∃ i, (k, i) ∈ xs ∧ Drv.createTag p s = some i) := by
  unfold tagDbOf at hdb
  cases hctl : userTags p [] p.controller with
  | none => rw [hctl] at hdb; cases hdb
  | some ctl =>
    rw [hctl] at hdb
    have hc2 : ∀ k i, (k, i) ∈ ctl → ∃ s, (k, s) ∈ loe_visibleScope [] p.controller ∧ Drv.createTag p s = some i := by
      intro k i hi
      unfold userTags at hctl
      obtain ⟨s, hs, e⟩ := ldr_mapM_bwd _ _ _ hctl _ hi
      cases hc : Drv.createTag p s with
      | none => rw [hc] at e; cases e
      | some j =>
        rw [hc] at e
        simp only [Option.map_some, Option.some.injEq, Prod.mk.injEq] at e
        exact ⟨s, List.mem_map.2 ⟨s, hs, by rw [e.1]⟩, by rw [hc, e.2]⟩
    have hc3 : ∀ k s, (k, s) ∈ loe_visibleScope [] p.controller → ∃ i, (k, i) ∈ ctl ∧ Drv.createTag p s = some i := by
      intro k s hs
      obtain ⟨s', hs', e⟩ := List.mem_map.1 hs
      simp only [Prod.mk.injEq] at e
      obtain ⟨e1, e2⟩ := e
      subst e2
      obtain ⟨hm, hk⟩ := List.mem_filter.1 hs'
      obtain ⟨i, hci, hi⟩ := ldr_userTags_fwd p [] _ ctl hctl s' hm hk
      exact ⟨i, e1 ▸ hi, hci⟩
    cases b with
    | false =>
      simp only [Bool.not_false, if_true, Option.some.injEq] at hdb
      refine ⟨ctl, hdb.symm, ?_, ?_, ?_⟩
      · intro k
        rw [loe_userTags_iff p [] _ ctl hctl k]
        unfold loe_visible
        simp only [Bool.false_eq_true, if_false, List.append_nil]
      · intro k i hi
        obtain ⟨s, hs, hc⟩ := hc2 k i hi
        exact ⟨s, by unfold loe_visible; simp only [Bool.false_eq_true, if_false, List.append_nil]; exact hs, hc⟩
      · intro k s hs
        unfold loe_visible at hs
        simp only [Bool.false_eq_true, if_false, List.append_nil] at hs
        exact hc3 k s hs
    | true =>
      simp only [Bool.not_true, Bool.false_eq_true, if_false] at hdb
      split at hdb
      · cases hdb
      · rename_i progs hprogs
        simp only [Option.some.injEq] at hdb
        -- the program scopes
        have hp2 : ∀ k i, (k, i) ∈ progs.flatten → ∃ s, (k, s) ∈ ((programNames p).map fun pn =>
            loe_visibleScope (Drv.nm "Program:" ++ pn ++ [46]) (lon_progSyms p pn)).flatten ∧ Drv.createTag p s = some i := by
          intro k i hi
          obtain ⟨grp, hgrp, hig⟩ := List.mem_flatten.1 hi
          obtain ⟨pn, hpn, hg⟩ := ldr_mapM_bwd _ _ _ hprogs grp hgrp
          split at hg
          · cases hg
          · rename_i pr hf
            have hps : lon_progSyms p pn = pr.2 := by
              unfold lon_progSyms
              have : p.programs.find? (·.1 == Opn.nm "Program:" ++ pn) = some pr := hf
              rw [this]; rfl
            unfold userTags at hg
            obtain ⟨s, hs, e⟩ := ldr_mapM_bwd _ _ _ hg _ hig
            cases hc : Drv.createTag p s with
            | none => rw [hc] at e; cases e
            | some j =>
              rw [hc] at e
              simp only [Option.map_some, Option.some.injEq, Prod.mk.injEq] at e
              refine ⟨s, List.mem_flatten.2 ⟨_, List.mem_map.2 ⟨pn, hpn, rfl⟩, ?_⟩, by rw [hc, e.2]⟩
              rw [hps]
              exact List.mem_map.2 ⟨s, hs, by rw [e.1]⟩
        have hp3 : ∀ k s, (k, s) ∈ ((programNames p).map fun pn =>
            loe_visibleScope (Drv.nm "Program:" ++ pn ++ [46]) (lon_progSyms p pn)).flatten →
            ∃ i, (k, i) ∈ progs.flatten ∧ Drv.createTag p s = some i := by
          intro k s hs
          obtain ⟨vs, hvs, hsv⟩ := List.mem_flatten.1 hs
          obtain ⟨pn, hpn, rfl⟩ := List.mem_map.1 hvs
          obtain ⟨grp, hgrp, hg⟩ := ldr_mapM_fwd _ _ _ hprogs pn hpn
          split at hg
          · cases hg
          · rename_i pr hf
            have hps : lon_progSyms p pn = pr.2 := by
              unfold lon_progSyms
              have : p.programs.find? (·.1 == Opn.nm "Program:" ++ pn) = some pr := hf
              rw [this]; rfl
            rw [hps] at hsv
            obtain ⟨s', hs', e⟩ := List.mem_map.1 hsv
            simp only [Prod.mk.injEq] at e
            obtain ⟨e1, e2⟩ := e
            subst e2
            obtain ⟨hm, hk⟩ := List.mem_filter.1 hs'
            obtain ⟨i, hci, hi⟩ := ldr_userTags_fwd p _ _ grp hg s' hm hk
            exact ⟨i, List.mem_flatten.2 ⟨grp, hgrp, e1 ▸ hi⟩, hci⟩
        refine ⟨ctl ++ progs.flatten, hdb.symm, ?_, ?_, ?_⟩
        · intro k
          unfold loe_visible
          simp only [if_true]
          constructor
          · rintro ⟨i, hi⟩
            rcases List.mem_append.1 hi with h | h
            · obtain ⟨s, hs, _⟩ := hc2 k i h
              exact ⟨s, List.mem_append_left _ hs⟩
            · obtain ⟨s, hs, _⟩ := hp2 k i h
              exact ⟨s, List.mem_append_right _ hs⟩
          · rintro ⟨s, hs⟩
            rcases List.mem_append.1 hs with h | h
            · obtain ⟨i, hi, _⟩ := hc3 k s h
              exact ⟨i, List.mem_append_left _ hi⟩
            · obtain ⟨i, hi, _⟩ := hp3 k s h
              exact ⟨i, List.mem_append_right _ hi⟩
        · intro k i hi
          unfold loe_visible
          simp only [if_true]
          rcases List.mem_append.1 hi with h | h
          · obtain ⟨s, hs, hc⟩ := hc2 k i h
            exact ⟨s, List.mem_append_left _ hs, hc⟩
          · obtain ⟨s, hs, hc⟩ := hp2 k i h
            exact ⟨s, List.mem_append_right _ hs, hc⟩
        · intro k s hs
          unfold loe_visible at hs
          simp only [if_true] at hs
          rcases List.mem_append.1 hs with h | h
          · obtain ⟨i, hi, hc⟩ := hc3 k s h
            exact ⟨i, List.mem_append_left _ hi, hc⟩
          · obtain ⟨i, hi, hc⟩ := hp3 k s h
            exact ⟨i, List.mem_append_right _ hi, hc⟩

/-- what `_create_tag` records of the symbol -/
theorem loe_createTag_fields (p : Project) (s : Symbol) (i : TagInfo) (h : Drv.createTag p s = some i) :
    i.core.dimensions = (s.dims ++ [0, 0, 0]).take 3 ∧ i.core.dim = s.symbolType / 8192 % 4 ∧
    i.core.instanceId = some s.inst ∧
    (s.symbolType / 32768 % 2 = 0 → i.core.tagType = .atomic ∧
      ∃ t, atomicOfCode (s.symbolType % 256) = some (i.core.dataTypeName, t)) ∧
    (s.symbolType / 32768 % 2 = 1 → i.core.tagType = .struct ∧
      ∃ si t ms, dataTypeOf p (p.templates.length + 1) (s.symbolType % 4096) = some (si, t, ms) ∧
        i.core.dataTypeName = si.name ∧ i.core.struct = some si ∧ i.members = ms) := by
  unfold Drv.createTag at h
  by_cases hs : s.symbolType / 32768 % 2 = 1
  · have h1 : (K.decodeTypeWord s.symbolType).isStruct = true := by simp [K.decodeTypeWord, hs]
    simp only [h1, if_true] at h
    cases hd : dataTypeOf p (p.templates.length + 1) (K.decodeTypeWord s.symbolType).templateId with
    | none => rw [hd] at h; cases h
    | some d =>
      obtain ⟨si, t, ms⟩ := d
      rw [hd] at h
      simp only [Option.some.injEq] at h
      subst h
      exact ⟨rfl, rfl, rfl, fun h0 => by omega, fun _ => ⟨rfl, si, t, ms, hd, rfl, rfl, rfl⟩⟩
  · have hs0 : s.symbolType / 32768 % 2 = 0 := by omega
    have h1 : (K.decodeTypeWord s.symbolType).isStruct = false := by simp [K.decodeTypeWord, hs0]
    simp only [h1, Bool.false_eq_true, if_false] at h
    cases ha : atomicOfCode (K.decodeTypeWord s.symbolType).atomicCode with
    | none => rw [ha] at h; cases h
    | some nt =>
      obtain ⟨name, t⟩ := nt
      rw [ha] at h
      simp only [Option.some.injEq] at h
      subst h
      exact ⟨rfl, rfl, rfl, fun _ => ⟨rfl, t, ha⟩, fun h1 => by omega⟩

/-! ### `external_access`, `alias` -/

/-- the metadata of a tag: alias flag from bit 26 of the software control word, the symbol's instance id, and the
    external-access text — the symbol's attribute when it was uploaded (`wa`: firmware ≥ 18), "Unknown" otherwise -/
theorem loe_metaAll_fields (wa : Bool) (s : Symbol) :
    ((lo_metaAll wa s).alias = true ↔ s.attr6 / 2 ^ 26 % 2 = 0) ∧ (lo_metaAll wa s).instanceId = s.inst ∧
    (lo_metaAll wa s).externalAccess = externalAccessText (if wa then some s.access else none) ∧
    (lo_metaAll wa s).softwareControl = s.attr6 := by
  unfold lo_metaAll
  split <;> simp [lo_metaOf, K.isAlias]

theorem loe_externalAccess_old (s : Symbol) : (lo_metaAll false s).externalAccess = Opn.nm "Unknown" :=
  (loe_metaAll_fields false s).2.2.1

-- the texts of the EXTERNAL_ACCESS table
#guard externalAccessText (some 0) == Opn.nm "Read/Write" && externalAccessText (some 2) == Opn.nm "Read Only" &&
  externalAccessText (some 3) == Opn.nm "None" && externalAccessText (some 7) == Opn.nm "Unknown" &&
  externalAccessText none == Opn.nm "Unknown"

end Pycomm.Lgx.Opn
