/-
  Proofs for C12 (reply frames survive any TCP segmentation).
  Statements are restated in PycommProps/C12.lean.
-/
import PycommModel.Socket
namespace Pycomm.Sock

/-- a complete encapsulation frame: 24-byte header whose length field counts the bytes after it -/
def WfFrame (f : Bytes) : Prop := Gen.HEADER_SIZE ≤ f.length ∧ f.length = Gen.HEADER_SIZE + lenField f

/-! ### helper lemmas: termination -/

theorem recvSome_size {s s' : List Ev} {d : Bytes} (h : recvSome s = .ok (d, s')) :
    scriptSize s' < scriptSize s := by
  unfold recvSome at h
  split at h
  · cases h
  · cases h
  · rename_i d0 s0 hnil heq
    cases h
    cases s with
    | nil => simp [recv1] at heq
    | cons e r =>
      cases e with
      | error => simp [recv1] at heq
      | closed =>
        simp only [recv1, Prod.mk.injEq, Option.some.injEq] at heq
        obtain ⟨rfl, rfl⟩ := heq
        exact (hnil rfl).elim
      | chunk bs =>
        simp only [recv1] at heq
        split at heq
        · simp only [Prod.mk.injEq, Option.some.injEq] at heq
          obtain ⟨_, rfl⟩ := heq
          simp only [scriptSize]; omega
        · simp only [Prod.mk.injEq, Option.some.injEq] at heq
          obtain ⟨_, rfl⟩ := heq
          simp only [scriptSize, List.length_drop, RECV_SIZE] at *; omega

theorem recvSome_not_hang (s : List Ev) : recvSome s ≠ .error .hang := by
  unfold recvSome
  split <;> simp

theorem fillTo_not_hang : ∀ (fuel t : Nat) (acc : Bytes) (s : List Ev),
    scriptSize s < fuel → fillTo fuel t acc s ≠ .error .hang := by
  intro fuel
  induction fuel with
  | zero => intro t acc s h; omega
  | succ n ih =>
    intro t acc s h
    unfold fillTo
    split
    · simp
    · split
      · rename_i e he
        intro hc
        cases hc
        exact recvSome_not_hang s he
      · rename_i d s' he
        have := recvSome_size he
        exact ih t (acc ++ d) s' (by omega)

theorem fillTo_size : ∀ (fuel t : Nat) (acc : Bytes) (s : List Ev) (a : Bytes) (s' : List Ev),
    fillTo fuel t acc s = .ok (a, s') → scriptSize s' ≤ scriptSize s := by
  intro fuel
  induction fuel with
  | zero => intro t acc s a s' h; simp [fillTo] at h
  | succ n ih =>
    intro t acc s a s' h
    unfold fillTo at h
    split at h
    · cases h; exact Nat.le_refl _
    · split at h
      · cases h
      · rename_i d s1 he
        have h1 := recvSome_size he
        have h2 := ih _ _ _ _ _ h
        omega

/-! ### helper lemmas: send -/

theorem send_all_aux : ∀ (fuel : Nat) (script : List (Option Nat)) (sent rem : Bytes),
    (∀ a ∈ script, ∃ n, a = some n ∧ 0 < n) → rem.length < fuel →
    send fuel script sent rem = .ok (sent ++ rem, sent.length + rem.length) := by
  intro fuel
  induction fuel with
  | zero => intro script sent rem _ h; omega
  | succ n ih =>
    intro script sent rem hs hf
    unfold send
    cases rem with
    | nil => simp
    | cons b bs =>
      simp only [List.isEmpty_cons, Bool.false_eq_true, if_false]
      cases script with
      | nil => rfl
      | cons a rest =>
        obtain ⟨m, rfl, hm⟩ := hs a (List.mem_cons_self)
        simp only
        have hk : min m (b :: bs).length ≠ 0 := by simp only [List.length_cons]; omega
        rw [if_neg hk]
        rw [ih rest _ _ (fun a ha => hs a (List.mem_cons_of_mem _ ha))
          (by simp only [List.length_drop, List.length_cons] at *; omega)]
        simp only [List.append_assoc, List.take_append_drop, List.length_append,
          List.length_take, List.length_drop]
        congr 2
        omega

theorem send_broken_aux (bad : Option Nat) (post : List (Option Nat))
    (hbad : bad = none ∨ bad = some 0) :
    ∀ (pre : List (Option Nat)) (fuel : Nat) (sent rem : Bytes),
    (∀ a ∈ pre, ∃ n, a = some n ∧ 0 < n) →
    (pre.map (fun a => a.getD 0)).sum < rem.length → rem.length < fuel →
    send fuel (pre ++ bad :: post) sent rem = .error .comm := by
  intro pre
  induction pre with
  | nil =>
    intro fuel sent rem _ hsum hf
    cases fuel with
    | zero => omega
    | succ n =>
      unfold send
      cases rem with
      | nil => simp at hsum
      | cons b bs =>
        simp only [List.isEmpty_cons, Bool.false_eq_true, if_false, List.nil_append]
        rcases hbad with rfl | rfl
        · rfl
        · simp
  | cons a pre ih =>
    intro fuel sent rem hs hsum hf
    cases fuel with
    | zero => omega
    | succ n =>
      unfold send
      cases rem with
      | nil => simp at hsum
      | cons b bs =>
        simp only [List.isEmpty_cons, Bool.false_eq_true, if_false, List.cons_append]
        obtain ⟨m, rfl, hm⟩ := hs _ (List.mem_cons_self)
        simp only [List.map_cons, Option.getD_some, List.sum_cons] at hsum
        simp only
        have hk : min m (b :: bs).length = m := by omega
        rw [hk, if_neg (by omega)]
        exact ih n _ _ (fun a ha => hs a (List.mem_cons_of_mem _ ha))
          (by simp only [List.length_drop]; omega) (by simp only [List.length_drop]; omega)

/-! ### helper lemmas: receive over a chunked script -/

/-- one successful recv from a non-empty leading chunk: returns a non-empty piece `d`, and what is
    left of the chunk (`c'` is `[]` or `[c.drop 256]`) stays at the head of the script -/
theorem recvSome_chunk (c : Bytes) (hc : c ≠ []) (rest : List Ev) :
    ∃ (d : Bytes) (c' : List Bytes), recvSome (Ev.chunk c :: rest) = .ok (d, c'.map Ev.chunk ++ rest)
      ∧ d ≠ [] ∧ d ++ c'.flatten = c ∧ ∀ x ∈ c', x ≠ [] := by
  by_cases h : c.length ≤ RECV_SIZE
  · refine ⟨c, [], ?_, hc, by simp, by simp⟩
    cases c with
    | nil => contradiction
    | cons a t => simp only [recvSome, recv1, if_pos h, List.map_nil, List.nil_append]
  · have hlen : RECV_SIZE < c.length := by omega
    have hd : c.drop RECV_SIZE ≠ [] := by
      intro hd
      have := congrArg List.length hd
      simp only [List.length_drop, List.length_nil] at this
      omega
    refine ⟨c.take RECV_SIZE, [c.drop RECV_SIZE], ?_, ?_, by simp, by simpa using hd⟩
    · cases ht : c.take RECV_SIZE with
      | nil =>
        have := congrArg List.length ht
        simp only [List.length_take, List.length_nil, RECV_SIZE] at this hlen
        omega
      | cons a t => simp [recvSome, recv1, h, ht]
    · intro ht
      have := congrArg List.length ht
      simp only [List.length_take, List.length_nil, RECV_SIZE] at this hlen
      omega

theorem recvSome_fault (fault : List Ev)
    (hfault : fault = [] ∨ (∃ r, fault = Ev.closed :: r) ∨ (∃ r, fault = Ev.error :: r)) :
    recvSome fault = .error .comm := by
  rcases hfault with rfl | ⟨r, rfl⟩ | ⟨r, rfl⟩ <;> rfl

theorem scriptSize_chunks (chunks : List Bytes) (tail : List Ev) :
    chunks.flatten.length ≤ scriptSize (chunks.map Ev.chunk ++ tail) := by
  induction chunks with
  | nil => simp
  | cons c cs ih =>
    simp only [List.flatten_cons, List.length_append, List.map_cons, List.cons_append, scriptSize]
    omega

/-- the fill loop over a script that starts with non-empty chunks holding at least the bytes still
    needed: it succeeds, consuming only chunk bytes, and the split `acc ++ chunks` is preserved -/
theorem fillTo_chunks (tail : List Ev) (t : Nat) :
    ∀ (fuel : Nat) (acc : Bytes) (chunks : List Bytes),
      (∀ c ∈ chunks, c ≠ []) → t ≤ (acc ++ chunks.flatten).length → chunks.flatten.length < fuel →
      ∃ (acc' : Bytes) (chunks' : List Bytes),
        fillTo fuel t acc (chunks.map Ev.chunk ++ tail) = .ok (acc', chunks'.map Ev.chunk ++ tail)
        ∧ acc' ++ chunks'.flatten = acc ++ chunks.flatten ∧ (∀ c ∈ chunks', c ≠ [])
        ∧ t ≤ acc'.length ∧ chunks'.flatten.length ≤ chunks.flatten.length := by
  intro fuel
  induction fuel with
  | zero => intro acc chunks _ _ h; omega
  | succ n ih =>
    intro acc chunks hne ht hf
    unfold fillTo
    by_cases hacc : t ≤ acc.length
    · rw [if_pos hacc]
      exact ⟨acc, chunks, rfl, rfl, hne, hacc, Nat.le_refl _⟩
    · rw [if_neg hacc]
      cases chunks with
      | nil => simp at ht; omega
      | cons c cs =>
        obtain ⟨d, c', hr, hd, hdc, hc'⟩ :=
          recvSome_chunk c (hne c List.mem_cons_self) (cs.map Ev.chunk ++ tail)
        simp only [List.map_cons, List.cons_append]
        rw [hr]
        simp only
        have hdl : 0 < d.length := List.length_pos_iff.mpr hd
        have hfl : (c :: cs).flatten = d ++ (c' ++ cs).flatten := by
          simp only [List.flatten_cons, List.flatten_append, ← hdc, List.append_assoc]
        have hne' : ∀ x ∈ c' ++ cs, x ≠ [] := by
          intro x hx
          rcases List.mem_append.mp hx with hx | hx
          · exact hc' x hx
          · exact hne x (List.mem_cons_of_mem _ hx)
        have hlen := congrArg List.length hfl
        simp only [List.length_append] at hlen
        obtain ⟨acc', chunks', h1, h2, h3, h4, h5⟩ := ih (acc ++ d) (c' ++ cs) hne'
          (by rw [hfl] at ht; simpa [List.append_assoc] using ht) (by omega)
        refine ⟨acc', chunks', ?_, ?_, h3, h4, by omega⟩
        · rw [← h1, List.map_append, List.append_assoc]
        · rw [h2, hfl, List.append_assoc]

/-- the fill loop over a script whose chunks run out before the target is reached, followed by a
    fault: CommError -/
theorem fillTo_fault (fault : List Ev)
    (hfault : fault = [] ∨ (∃ r, fault = Ev.closed :: r) ∨ (∃ r, fault = Ev.error :: r)) (t : Nat) :
    ∀ (fuel : Nat) (acc : Bytes) (chunks : List Bytes),
      (∀ c ∈ chunks, c ≠ []) → (acc ++ chunks.flatten).length < t → chunks.flatten.length < fuel →
      fillTo fuel t acc (chunks.map Ev.chunk ++ fault) = .error .comm := by
  intro fuel
  induction fuel with
  | zero => intro acc chunks _ _ h; omega
  | succ n ih =>
    intro acc chunks hne ht hf
    unfold fillTo
    have hacc : ¬ t ≤ acc.length := by simp only [List.length_append] at ht; omega
    rw [if_neg hacc]
    cases chunks with
    | nil => simp only [List.map_nil, List.nil_append, recvSome_fault fault hfault]
    | cons c cs =>
      obtain ⟨d, c', hr, hd, hdc, hc'⟩ :=
        recvSome_chunk c (hne c List.mem_cons_self) (cs.map Ev.chunk ++ fault)
      simp only [List.map_cons, List.cons_append]
      rw [hr]
      simp only
      have hdl : 0 < d.length := List.length_pos_iff.mpr hd
      have hfl : (c :: cs).flatten = d ++ (c' ++ cs).flatten := by
        simp only [List.flatten_cons, List.flatten_append, ← hdc, List.append_assoc]
      have hne' : ∀ x ∈ c' ++ cs, x ≠ [] := by
        intro x hx
        rcases List.mem_append.mp hx with hx | hx
        · exact hc' x hx
        · exact hne x (List.mem_cons_of_mem _ hx)
      have hlen := congrArg List.length hfl
      simp only [List.length_append] at hlen
      have := ih (acc ++ d) (c' ++ cs) hne'
        (by rw [hfl] at ht; simpa [List.append_assoc] using ht) (by omega)
      rw [← this, List.map_append, List.append_assoc]

/-- the length field lives in bytes 2..3, so it is already determined by any prefix of ≥ 4 bytes -/
theorem lenField_append (a b : Bytes) (h : 4 ≤ a.length) : lenField (a ++ b) = lenField a := by
  unfold lenField
  simp only [List.getD_eq_getElem?_getD]
  rw [List.getElem?_append_left (by omega), List.getElem?_append_left (by omega)]

-- PROPERTY THEOREMS
/-- the transport delivers exactly `f`, split into the given non-empty chunks (each possibly larger
    than one recv), followed by anything at all (`tail` is never consulted) -/
theorem receive_any_split (f : Bytes) (hf : WfFrame f) (chunks : List Bytes)
    (hj : chunks.flatten = f) (hne : ∀ c ∈ chunks, c ≠ []) (tail : List Ev) :
    receive (chunks.map Ev.chunk ++ tail) = .ok f := by
  subst hj
  obtain ⟨h24, hlen⟩ := hf
  have hH : Gen.HEADER_SIZE = 24 := by decide
  cases chunks with
  | nil => simp [hH] at h24
  | cons c cs =>
    obtain ⟨d, c', hr, hd, hdc, hc'⟩ :=
      recvSome_chunk c (hne c List.mem_cons_self) (cs.map Ev.chunk ++ tail)
    have hsz := scriptSize_chunks (c :: cs) tail
    simp only [List.map_cons, List.cons_append] at hsz
    simp only [receive, List.map_cons, List.cons_append]
    generalize scriptSize (Ev.chunk c :: (cs.map Ev.chunk ++ tail)) = sz at hsz ⊢
    rw [hr]
    simp only
    rw [← List.append_assoc, ← List.map_append]
    have hdl : 0 < d.length := List.length_pos_iff.mpr hd
    have hfl : (c :: cs).flatten = d ++ (c' ++ cs).flatten := by
      simp only [List.flatten_cons, List.flatten_append, ← hdc, List.append_assoc]
    have hne' : ∀ x ∈ c' ++ cs, x ≠ [] := by
      intro x hx
      rcases List.mem_append.mp hx with hx | hx
      · exact hc' x hx
      · exact hne x (List.mem_cons_of_mem _ hx)
    have hl := congrArg List.length hfl
    simp only [List.length_append] at hl
    obtain ⟨d2, ch2, e1, e2, e3, e4, e5⟩ := fillTo_chunks tail Gen.HEADER_SIZE (sz + 2) d (c' ++ cs) hne'
      (by rw [← hfl]; exact h24) (by omega)
    rw [e1]
    simp only
    have hlf : lenField d2 = lenField (c :: cs).flatten := by
      rw [hfl, ← e2, lenField_append _ _ (by omega)]
    obtain ⟨d3, ch3, g1, g2, g3, g4, g5⟩ :=
      fillTo_chunks tail (Gen.HEADER_SIZE + lenField d2) (sz + 2) d2 ch2 e3
        (by rw [e2, ← hfl, hlf, ← hlen]; exact Nat.le_refl _) (by omega)
    rw [g1]
    simp only
    have hd3 : d3 ++ ch3.flatten = (c :: cs).flatten := by rw [g2, e2, hfl]
    have hl3 := congrArg List.length hd3
    rw [hlf, ← hlen] at g4
    simp only [List.length_append] at hl3
    have hnil : ch3.flatten = [] := List.eq_nil_of_length_eq_zero (by omega)
    rw [hnil, List.append_nil] at hd3
    rw [hd3]

/-- if the peer closes, errors, or goes silent before the frame is complete, receive ends in CommError
    (never a partial frame, never the fuel marker) -/
theorem receive_short_fault (f : Bytes) (hf : WfFrame f) (chunks : List Bytes) (p : Bytes)
    (hj : chunks.flatten = p) (hne : ∀ c ∈ chunks, c ≠ []) (hp : p <+: f) (hlt : p.length < f.length)
    (fault : List Ev) (hfault : fault = [] ∨ (∃ r, fault = Ev.closed :: r) ∨ (∃ r, fault = Ev.error :: r)) :
    receive (chunks.map Ev.chunk ++ fault) = .error .comm := by
  subst hj
  obtain ⟨h24, hlen⟩ := hf
  obtain ⟨x, rfl⟩ := hp
  have hH : Gen.HEADER_SIZE = 24 := by decide
  cases chunks with
  | nil =>
    simp only [receive, List.map_nil, List.nil_append, recvSome_fault fault hfault]
  | cons c cs =>
    obtain ⟨d, c', hr, hd, hdc, hc'⟩ :=
      recvSome_chunk c (hne c List.mem_cons_self) (cs.map Ev.chunk ++ fault)
    have hsz := scriptSize_chunks (c :: cs) fault
    simp only [List.map_cons, List.cons_append] at hsz
    simp only [receive, List.map_cons, List.cons_append]
    generalize scriptSize (Ev.chunk c :: (cs.map Ev.chunk ++ fault)) = sz at hsz ⊢
    rw [hr]
    simp only
    rw [← List.append_assoc, ← List.map_append]
    have hdl : 0 < d.length := List.length_pos_iff.mpr hd
    have hfl : (c :: cs).flatten = d ++ (c' ++ cs).flatten := by
      simp only [List.flatten_cons, List.flatten_append, ← hdc, List.append_assoc]
    have hne' : ∀ x ∈ c' ++ cs, x ≠ [] := by
      intro x hx
      rcases List.mem_append.mp hx with hx | hx
      · exact hc' x hx
      · exact hne x (List.mem_cons_of_mem _ hx)
    have hl := congrArg List.length hfl
    simp only [List.length_append] at hl
    by_cases hp24 : Gen.HEADER_SIZE ≤ (c :: cs).flatten.length
    · obtain ⟨d2, ch2, e1, e2, e3, e4, e5⟩ :=
        fillTo_chunks fault Gen.HEADER_SIZE (sz + 2) d (c' ++ cs) hne'
          (by rw [← hfl]; exact hp24) (by omega)
      rw [e1]
      simp only
      have hlf : lenField d2 = lenField ((c :: cs).flatten ++ x) := by
        rw [hfl, ← e2, List.append_assoc, lenField_append _ _ (by omega)]
      rw [fillTo_fault fault hfault (Gen.HEADER_SIZE + lenField d2) (sz + 2) d2 ch2 e3
        (by rw [e2, ← hfl, hlf, ← hlen]; exact hlt) (by omega)]
    · rw [fillTo_fault fault hfault Gen.HEADER_SIZE (sz + 2) d (c' ++ cs) hne'
        (by rw [← hfl]; omega) (by omega)]

/-- receive never exhausts its fuel: on every script it terminates with a frame or CommError -/
theorem receive_terminates (s : List Ev) : receive s ≠ .error .hang := by
  unfold receive
  simp only
  split
  · rename_i e he
    intro hc; cases hc
    exact recvSome_not_hang s he
  · rename_i d s1 he
    have h1 := recvSome_size he
    split
    · rename_i e hf
      intro hc; cases hc
      exact fillTo_not_hang _ _ _ _ (by omega) hf
    · rename_i d2 s2 hf
      have h2 := fillTo_size _ _ _ _ _ _ hf
      split
      · rename_i e hg
        intro hc; cases hc
        exact fillTo_not_hang _ _ _ _ (by omega) hg
      · simp

/-- every pattern of partial sends that always accepts at least one byte delivers the whole message,
    in order, and reports its length -/
theorem send_all (script : List (Option Nat)) (msg : Bytes)
    (h : ∀ a ∈ script, ∃ n, a = some n ∧ 0 < n) :
    sendMsg script msg = .ok (msg, msg.length) := by
  unfold sendMsg
  rw [send_all_aux _ _ _ _ h (Nat.lt_succ_self _)]
  simp

/-- a send that accepts nothing (or raises) while bytes remain is CommError -/
theorem send_broken (pre : List (Option Nat)) (bad : Option Nat) (post : List (Option Nat)) (msg : Bytes)
    (hpre : ∀ a ∈ pre, ∃ n, a = some n ∧ 0 < n)
    (hsum : (pre.map (fun a => a.getD 0)).sum < msg.length)
    (hbad : bad = none ∨ bad = some 0) :
    sendMsg (pre ++ bad :: post) msg = .error .comm := by
  unfold sendMsg
  exact send_broken_aux bad post hbad pre _ _ _ hpre hsum (Nat.lt_succ_self _)

end Pycomm.Sock
