/-
  Proofs for C12 (reply frames survive any TCP segmentation).
  Statements are restated in PycommProps/C12.lean.
-/
import PycommModel.Socket
namespace Pycomm.Sock

/-- a complete encapsulation frame: 24-byte header whose length field counts the bytes after it -/
def WfFrame (f : Bytes) : Prop := Gen.HEADER_SIZE ≤ f.length ∧ f.length = Gen.HEADER_SIZE + lenField f

/-- the transport delivers exactly `f`, split into the given non-empty chunks (each possibly larger
    than one recv), followed by anything at all (`tail` is never consulted) -/
theorem receive_any_split (f : Bytes) (hf : WfFrame f) (chunks : List Bytes)
    (hj : chunks.flatten = f) (hne : ∀ c ∈ chunks, c ≠ []) (tail : List Ev) :
    receive (chunks.map Ev.chunk ++ tail) = .ok f := by
  sorry

/-- if the peer closes, errors, or goes silent before the frame is complete, receive ends in CommError
    (never a partial frame, never the fuel marker) -/
theorem receive_short_fault (f : Bytes) (hf : WfFrame f) (chunks : List Bytes) (p : Bytes)
    (hj : chunks.flatten = p) (hne : ∀ c ∈ chunks, c ≠ []) (hp : p <+: f) (hlt : p.length < f.length)
    (fault : List Ev) (hfault : fault = [] ∨ (∃ r, fault = Ev.closed :: r) ∨ (∃ r, fault = Ev.error :: r)) :
    receive (chunks.map Ev.chunk ++ fault) = .error .comm := by
  sorry

/-- receive never exhausts its fuel: on every script it terminates with a frame or CommError -/
theorem receive_terminates (s : List Ev) : receive s ≠ .error .hang := by
  sorry

/-- every pattern of partial sends that always accepts at least one byte delivers the whole message,
    in order, and reports its length -/
theorem send_all (script : List (Option Nat)) (msg : Bytes)
    (h : ∀ a ∈ script, ∃ n, a = some n ∧ 0 < n) :
    sendMsg script msg = .ok (msg, msg.length) := by
  sorry

/-- a send that accepts nothing (or raises) while bytes remain is CommError -/
theorem send_broken (pre : List (Option Nat)) (bad : Option Nat) (post : List (Option Nat)) (msg : Bytes)
    (hpre : ∀ a ∈ pre, ∃ n, a = some n ∧ 0 < n)
    (hsum : (pre.map (fun a => a.getD 0)).sum < msg.length)
    (hbad : bad = none ∨ bad = some 0) :
    sendMsg (pre ++ bad :: post) msg = .error .comm := by
  sorry

end Pycomm.Sock
