/-
  Helper lemmas for C17 over histories with LogixDriver reads and writes.  Part 8: an evaluable sufficient
  condition for "packets sent by a fragment loop come last" (`lcl_loopLast` of what the builders return): no request
  of the call is fragmented at all — decided per request from its reply / message size, which does not depend on
  the state of the sequence counter.
-/
import PycommProofs.LCLogix5
namespace Pycomm.Lgx.Drv
open Pycomm.Tgt Pycomm.Path Pycomm.Reply

theorem lcl_loopLast_of_noloop (reqs : List Request) (h : ∀ q ∈ reqs, q.lcl_isLoop = false) :
    lcl_loopLast reqs = true := by
  induction reqs with
  | nil => rfl
  | cons q rest ih =>
    cases rest with
    | nil => rfl
    | cons r rs =>
      simp only [lcl_loopLast, Bool.and_eq_true, Bool.not_eq_true']
      exact ⟨h q List.mem_cons_self, ih (fun q' hq' => h q' (List.mem_cons_of_mem _ hq'))⟩

/-- a driver state to evaluate sizes with (the sizes do not depend on it) -/
def lcl_dummy : Cli.Drv := {}

/-! ### reads -/

theorem lcl_mkReadReq_size (cfg : Cfg) (d d' : Cli.Drv) (p : Parsed) (info : TagInfo) :
    (mkReadReq cfg d p info).2.map (·.returnSize) = (mkReadReq cfg d' p info).2.map (·.returnSize) := by
  unfold mkReadReq
  dsimp only
  cases requestPathOf cfg p.plcTag info with
  | error e => rfl
  | ok path =>
    cases elementsNat p.elements with
    | error e => rfl
    | ok n => rfl

/-- no read request of `ps` is fragmented on a connection of size `C` -/
def lcl_readNoFrag (cfg : Cfg) (C : Nat) (multi : Bool) (ps : List Parsed) : Bool :=
  ps.all fun p =>
    match p.error, p.info with
    | none, some info =>
        match (mkReadReq cfg lcl_dummy p info).2 with
        | .ok req => !(if multi then decide (req.returnSize + K.OVERHEAD > C) else decide (req.returnSize > C))
        | .error _ => true
    | _, _ => true

theorem lcl_readBuildLive_nofrag (cfg : Cfg) (C : Nat) (multi : Bool) (ps : List Parsed) :
    lcl_readNoFrag cfg C multi ps = true →
    ∀ (d : Cli.Drv) items, (readBuildLive cfg C multi d ps).2 = .ok items → ∀ x ∈ items, x.2.2 = false := by
  induction ps with
  | nil =>
    intro _ d items h x hx
    simp only [readBuildLive, Except.ok.injEq] at h
    subst h; cases hx
  | cons p rest ih =>
    intro hc d items h x hx
    simp only [lcl_readNoFrag, List.all_cons, Bool.and_eq_true] at hc
    obtain ⟨hp, hrest⟩ := hc
    have ih' := ih hrest
    rw [readBuildLive] at h
    split at h
    · next info he hi =>
      rw [he, hi] at hp
      dsimp only at hp
      have hsz := lcl_mkReadReq_size cfg d lcl_dummy p info
      rcases hm : mkReadReq cfg d p info with ⟨d1, r⟩
      rw [hm] at h hsz
      dsimp only at h hsz
      cases r with
      | error e => cases h
      | ok req =>
        dsimp only at h
        cases hm' : (mkReadReq cfg lcl_dummy p info).2 with
        | error e => rw [hm'] at hsz; cases hsz
        | ok req' =>
          rw [hm'] at hsz hp
          simp only [Except.map, Except.ok.injEq] at hsz
          dsimp only at hp
          rw [← hsz] at hp
          have hfr : (if multi = true then decide (req.returnSize + K.OVERHEAD > C) else decide (req.returnSize > C)) = false := by
            simpa using hp
          rw [hfr] at h
          simp only [Bool.false_eq_true, if_false] at h
          rcases hrec : readBuildLive cfg C multi d1 rest with ⟨d3, more⟩
          rw [hrec] at h
          dsimp only at h
          obtain ⟨xs, hxs, rfl⟩ := lcl_map_ok _ _ _ h
          rcases List.mem_cons.1 hx with rfl | hx
          · rfl
          · exact ih' d1 xs (by rw [hrec]; exact hxs) x hx
    · exact ih' d items h x hx

/-- the condition for `_read_build_requests` (it decides between multi-service packets and single requests itself) -/
def lcl_readNoFragC (cfg : Cfg) (C : Nat) (ps : List Parsed) : Bool :=
  lcl_readNoFrag cfg C (decide (ps.length ≠ 1) && !cfg.micro800) ps

theorem lcl_readBuild_nofrag (cfg : Cfg) (d : Cli.Drv) (ps : List Parsed) (reqs : List Request)
    (hc : lcl_readNoFragC cfg d.connectionSize ps = true) (h : (readBuildRequests cfg d ps).2 = .ok reqs) :
    ∀ q ∈ reqs, q.lcl_isLoop = false := by
  unfold readBuildRequests at h
  dsimp only at h
  unfold lcl_readNoFragC at hc
  split at h
  · next hmulti =>
    have hm : (decide (ps.length ≠ 1) && !cfg.micro800) = true := by
      simp only [Bool.and_eq_true, decide_eq_true_eq]
      exact ⟨hmulti.1, hmulti.2⟩
    rw [hm] at hc
    have hnf := lcl_readBuildLive_nofrag cfg d.connectionSize true ps hc d
    rcases hl : readBuildLive cfg d.connectionSize true d ps with ⟨d1, live⟩
    rw [hl] at h hnf
    dsimp only at h hnf
    cases live with
    | error e => cases h
    | ok items =>
      dsimp only at h
      simp only [Except.ok.injEq] at h
      subst h
      intro q hq
      rcases List.mem_append.1 hq with hq | hq
      · obtain ⟨m, _, rfl⟩ := List.mem_map.1 hq; rfl
      · obtain ⟨x, hx, rfl⟩ := List.mem_map.1 hq
        obtain ⟨hx1, hx2⟩ := List.mem_filter.1 hx
        rw [hnf items rfl x hx1] at hx2
        cases hx2
  · next hmulti =>
    have hm : (decide (ps.length ≠ 1) && !cfg.micro800) = false := by
      rw [Bool.eq_false_iff]
      intro hh
      simp only [Bool.and_eq_true, decide_eq_true_eq] at hh
      exact hmulti ⟨hh.1, hh.2⟩
    rw [hm] at hc
    have hnf := lcl_readBuildLive_nofrag cfg d.connectionSize false ps hc d
    rcases hl : readBuildLive cfg d.connectionSize false d ps with ⟨d1, live⟩
    rw [hl] at h hnf
    dsimp only at h hnf
    obtain ⟨items, hitems, rfl⟩ := lcl_map_ok _ _ _ h
    intro q hq
    obtain ⟨x, hx, rfl⟩ := List.mem_map.1 hq
    rw [hnf items hitems x hx]
    rfl

/-! ### writes -/

theorem lcl_mkWriteReq_size (cfg : Cfg) (d d' : Cli.Drv) (p : Parsed) (info : TagInfo) (v : Bytes) :
    (mkWriteReq cfg d p info v).2.map (·.messageLen) = (mkWriteReq cfg d' p info v).2.map (·.messageLen) := by
  unfold mkWriteReq
  dsimp only
  cases requestPathOf cfg p.plcTag info with
  | error e => rfl
  | ok path =>
    cases elementsNat p.elements with
    | error e => rfl
    | ok n => rfl

/-- no write request of `ps` is fragmented on a connection of size `C` -/
def lcl_writeNoFrag (cfg : Cfg) (C : Nat) (multi : Bool) (ps : List Parsed) : Bool :=
  ps.all fun p =>
    match p.error, p.info with
    | none, some info =>
        if p.isBitWrite then true else
        match (encodeValue p info).2 with
        | some value =>
            match (mkWriteReq cfg lcl_dummy (encodeValue p info).1 info value).2 with
            | .ok req => !(if multi then decide (req.messageLen + K.OVERHEAD > C) else decide (value.length + req.messageLen > C))
            | .error _ => true
        | none => true
    | _, _ => true

theorem lcl_refresh_messageLen (d : Cli.Drv) (r : WriteReq) : (r.refresh d).2.messageLen = r.messageLen := rfl

theorem lcl_writeBuildLive_nofrag (cfg : Cfg) (C : Nat) (ps : List Parsed) :
    lcl_writeNoFrag cfg C true ps = true →
    ∀ (d : Cli.Drv) (acc b : WriteBuild), (∀ x ∈ acc.writes, x.2 = false) →
      (writeBuildLive cfg C d acc ps).2 = .ok b → ∀ x ∈ b.writes, x.2 = false := by
  induction ps with
  | nil =>
    intro _ d acc b hacc h
    simp only [writeBuildLive, Except.ok.injEq] at h
    subst h; exact hacc
  | cons p rest ih =>
    intro hc d acc b hacc h
    simp only [lcl_writeNoFrag, List.all_cons, Bool.and_eq_true] at hc
    obtain ⟨hp, hrest⟩ := hc
    have ih' := ih hrest
    rw [writeBuildLive] at h
    split at h
    · next info he hi =>
      rw [he, hi] at hp
      dsimp only at hp
      split at h
      · split at h
        · exact ih' _ _ b (by exact hacc) h
        · rcases hm : mkRmwReq cfg d p info (-(1 + (acc.rmws.length : Int))) with ⟨d1, r⟩
          rw [hm] at h
          dsimp only at h
          cases r with
          | error e => cases h
          | ok r => exact ih' _ _ b (by exact hacc) h
      · next hbit =>
        rw [if_neg hbit] at hp
        rcases henc : encodeValue p info with ⟨p1, enc⟩
        rw [henc] at h hp
        dsimp only at h hp
        cases enc with
        | none => exact ih' _ _ b (by exact hacc) h
        | some value =>
          dsimp only at h hp
          have hsz := lcl_mkWriteReq_size cfg d lcl_dummy p1 info value
          rcases hm : mkWriteReq cfg d p1 info value with ⟨d1, r⟩
          rw [hm] at h hsz
          dsimp only at h hsz
          cases r with
          | error e => cases h
          | ok req =>
            dsimp only at h
            cases hm' : (mkWriteReq cfg lcl_dummy p1 info value).2 with
            | error e => rw [hm'] at hsz; cases hsz
            | ok req' =>
              rw [hm'] at hsz hp
              simp only [Except.map, Except.ok.injEq] at hsz
              dsimp only at hp
              rw [← hsz] at hp
              have hfr : decide (req.messageLen + K.OVERHEAD > C) = false := by simpa using hp
              rw [hfr] at h
              simp only [Bool.false_eq_true, if_false] at h
              refine ih' _ _ b ?_ h
              intro x hx
              rcases List.mem_append.1 hx with hx | hx
              · exact hacc x hx
              · simp only [List.mem_singleton] at hx
                subst hx; rfl
    · exact ih' _ _ b (by exact hacc) h

theorem lcl_writeBuildSingles_nofrag (cfg : Cfg) (C : Nat) (ps : List Parsed) :
    lcl_writeNoFrag cfg C false ps = true →
    ∀ (d : Cli.Drv) (acc : List Parsed) x, (writeBuildSingles cfg C d acc ps).2 = .ok x →
      ∀ q ∈ x.2, q.lcl_isLoop = false := by
  induction ps with
  | nil =>
    intro _ d acc x h q hq
    simp only [writeBuildSingles, Except.ok.injEq] at h
    subst h; cases hq
  | cons p rest ih =>
    intro hc d acc x h q hq
    simp only [lcl_writeNoFrag, List.all_cons, Bool.and_eq_true] at hc
    obtain ⟨hp, hrest⟩ := hc
    have ih' := ih hrest
    rw [writeBuildSingles] at h
    split at h
    · next info he hi =>
      rw [he, hi] at hp
      dsimp only at hp
      split at h
      · rcases hm : mkRmwReq cfg d p info (-(1 + (p.requestId : Int))) with ⟨d1, r⟩
        rw [hm] at h
        dsimp only at h
        cases r with
        | error e => cases h
        | ok r =>
          dsimp only at h
          rcases hrec : writeBuildSingles cfg C d1 acc rest with ⟨d2, more⟩
          rw [hrec] at h
          dsimp only at h
          obtain ⟨y, hy, rfl⟩ := lcl_map_ok _ _ _ h
          rcases List.mem_cons.1 hq with rfl | hq
          · rfl
          · exact ih' d1 acc y (by rw [hrec]; exact hy) q hq
      · next hbit =>
        rw [if_neg hbit] at hp
        rcases henc : encodeValue p info with ⟨p1, enc⟩
        rw [henc] at h hp
        dsimp only at h hp
        cases enc with
        | none => exact ih' _ _ x h q hq
        | some value =>
          dsimp only at h hp
          have hsz := lcl_mkWriteReq_size cfg d lcl_dummy p1 info value
          rcases hm : mkWriteReq cfg d p1 info value with ⟨d1, r⟩
          rw [hm] at h hsz
          dsimp only at h hsz
          cases r with
          | error e => cases h
          | ok req =>
            dsimp only at h
            cases hm' : (mkWriteReq cfg lcl_dummy p1 info value).2 with
            | error e => rw [hm'] at hsz; cases hsz
            | ok req' =>
              rw [hm'] at hsz hp
              simp only [Except.map, Except.ok.injEq] at hsz
              dsimp only at hp
              rw [← hsz] at hp
              have hfr : decide (value.length + req.messageLen > C) = false := by simpa using hp
              rw [hfr] at h
              simp only [Bool.false_eq_true, if_false] at h
              rcases hrec : writeBuildSingles cfg C d1 (replaceParsed acc p1) rest with ⟨d3, more⟩
              rw [hrec] at h
              dsimp only at h
              obtain ⟨y, hy, rfl⟩ := lcl_map_ok _ _ _ h
              rcases List.mem_cons.1 hq with rfl | hq
              · rfl
              · exact ih' d1 _ y (by rw [hrec]; exact hy) q hq
    · exact ih' _ _ x h q hq

def lcl_writeNoFragC (cfg : Cfg) (C : Nat) (ps : List Parsed) : Bool :=
  lcl_writeNoFrag cfg C (decide (ps.length ≠ 1) && !cfg.micro800) ps

theorem lcl_writeBuild_nofrag (cfg : Cfg) (d : Cli.Drv) (ps : List Parsed) (x : List Parsed × List Request)
    (hc : lcl_writeNoFragC cfg d.connectionSize ps = true) (h : (writeBuildRequests cfg d ps).2 = .ok x) :
    ∀ q ∈ x.2, q.lcl_isLoop = false := by
  unfold writeBuildRequests at h
  dsimp only at h
  unfold lcl_writeNoFragC at hc
  split at h
  · next hmulti =>
    have hm : (decide (ps.length ≠ 1) && !cfg.micro800) = true := by
      simp only [Bool.and_eq_true, decide_eq_true_eq]
      exact ⟨hmulti.1, hmulti.2⟩
    rw [hm] at hc
    have hnf := lcl_writeBuildLive_nofrag cfg d.connectionSize ps hc d { parsed := ps }
    rcases hl : writeBuildLive cfg d.connectionSize d { parsed := ps } ps with ⟨d1, b⟩
    rw [hl] at h hnf
    dsimp only at h hnf
    cases b with
    | error e => cases h
    | ok b =>
      dsimp only at h
      simp only [Except.ok.injEq] at h
      subst h
      have hw := hnf b (fun x hx => nomatch hx) rfl
      intro q hq
      rcases List.mem_append.1 hq with hq | hq
      · rcases List.mem_append.1 hq with hq | hq
        · obtain ⟨m, _, rfl⟩ := List.mem_map.1 hq; rfl
        · obtain ⟨y, hy, rfl⟩ := List.mem_map.1 hq
          obtain ⟨hy1, hy2⟩ := List.mem_filter.1 hy
          rw [hw y hy1] at hy2
          cases hy2
      · obtain ⟨r, _, rfl⟩ := List.mem_map.1 hq; rfl
  · next hmulti =>
    have hm : (decide (ps.length ≠ 1) && !cfg.micro800) = false := by
      rw [Bool.eq_false_iff]
      intro hh
      simp only [Bool.and_eq_true, decide_eq_true_eq] at hh
      exact hmulti ⟨hh.1, hh.2⟩
    rw [hm] at hc
    exact lcl_writeBuildSingles_nofrag cfg d.connectionSize ps hc d ps x h

end Pycomm.Lgx.Drv
