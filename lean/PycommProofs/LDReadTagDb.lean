/-
  LogixDriver.read: the tag database the driver holds after `open()` (`tagDbOf`), looked up at the name of a
  controller-scope user tag whose name is unique, yields what `_create_tag` makes of that symbol.
-/
import PycommProofs.LDReadParse
namespace Pycomm.Lgx.Drv
open Pycomm Pycomm.Tgt Pycomm.Path Pycomm.Reply

/-! ### `dict` lookups -/

theorem ldr_get?_mem (db : TagDb) (k : Name) (j : TagInfo) (h : db.get? k = some j) : (k, j) ∈ db := by
  induction db with
  | nil => simp [TagDb.get?] at h
  | cons x rest ih =>
    obtain ⟨n, i⟩ := x
    unfold TagDb.get? at h
    cases hr : TagDb.get? rest k with
    | some j' =>
      rw [hr] at h
      simp only [Option.some.injEq] at h
      subst h
      exact List.mem_cons_of_mem _ (ih hr)
    | none =>
      rw [hr] at h
      simp only at h
      split at h
      · rename_i hn
        simp only [Option.some.injEq] at h
        subst h; subst hn
        exact List.mem_cons_self
      · cases h

theorem ldr_get?_of_mem (db : TagDb) (k : Name) (j : TagInfo) (h : (k, j) ∈ db) : ∃ j', db.get? k = some j' := by
  induction db with
  | nil => cases h
  | cons x rest ih =>
    obtain ⟨n, i⟩ := x
    unfold TagDb.get?
    cases hr : TagDb.get? rest k with
    | some j' => exact ⟨j', rfl⟩
    | none =>
      rcases List.mem_cons.1 h with h1 | h1
      · cases h1
        exact ⟨j, by simp⟩
      · obtain ⟨j', hj'⟩ := ih h1
        rw [hr] at hj'; cases hj'

/-! ### `{tag["tag_name"]: tag for tag in tags}` -/

def ldr_step (db : TagDb) (x : Name × TagInfo) : TagDb :=
  if db.any (·.1 == x.1) then db.map (fun y => if y.1 == x.1 then x else y) else db ++ [x]

theorem ldr_ofList_eq (xs : List (Name × TagInfo)) : TagDb.ofList xs = xs.foldl ldr_step [] := rfl

theorem ldr_step_sub (db : TagDb) (x y : Name × TagInfo) (h : y ∈ ldr_step db x) : y ∈ db ∨ y = x := by
  unfold ldr_step at h
  split at h
  · obtain ⟨z, hz, rfl⟩ := List.mem_map.1 h
    split
    · exact Or.inr rfl
    · exact Or.inl hz
  · rcases List.mem_append.1 h with h | h
    · exact Or.inl h
    · exact Or.inr (by simpa using h)

theorem ldr_step_keeps (db : TagDb) (x y : Name × TagInfo) (h : y ∈ db) : ∃ y' ∈ ldr_step db x, y'.1 = y.1 := by
  unfold ldr_step
  split
  · by_cases hy : (y.1 == x.1) = true
    · refine ⟨x, List.mem_map.2 ⟨y, h, by simp [hy]⟩, ?_⟩
      exact (beq_iff_eq.1 hy).symm
    · exact ⟨y, List.mem_map.2 ⟨y, h, by simp [hy]⟩, rfl⟩
  · exact ⟨y, List.mem_append_left _ h, rfl⟩

theorem ldr_step_adds (db : TagDb) (x : Name × TagInfo) : ∃ y' ∈ ldr_step db x, y'.1 = x.1 := by
  unfold ldr_step
  split
  · rename_i hany
    obtain ⟨y, hy, hk⟩ := List.any_eq_true.1 hany
    exact ⟨x, List.mem_map.2 ⟨y, hy, by simp [hk]⟩, rfl⟩
  · exact ⟨x, by simp, rfl⟩

theorem ldr_foldl_sub (xs : List (Name × TagInfo)) (acc : TagDb) (y : Name × TagInfo)
    (h : y ∈ xs.foldl ldr_step acc) : y ∈ acc ∨ y ∈ xs := by
  induction xs generalizing acc with
  | nil => exact Or.inl h
  | cons x xs ih =>
    rw [List.foldl_cons] at h
    rcases ih _ h with h1 | h1
    · rcases ldr_step_sub acc x y h1 with h2 | h2
      · exact Or.inl h2
      · exact Or.inr (by simp [h2])
    · exact Or.inr (List.mem_cons_of_mem _ h1)

theorem ldr_foldl_keeps (xs : List (Name × TagInfo)) (acc : TagDb) (y : Name × TagInfo) (h : y ∈ acc) :
    ∃ y' ∈ xs.foldl ldr_step acc, y'.1 = y.1 := by
  induction xs generalizing acc y with
  | nil => exact ⟨y, h, rfl⟩
  | cons x xs ih =>
    rw [List.foldl_cons]
    obtain ⟨y1, h1, e1⟩ := ldr_step_keeps acc x y h
    obtain ⟨y2, h2, e2⟩ := ih _ y1 h1
    exact ⟨y2, h2, e2.trans e1⟩

theorem ldr_foldl_adds (xs : List (Name × TagInfo)) (acc : TagDb) (x : Name × TagInfo) (h : x ∈ xs) :
    ∃ y' ∈ xs.foldl ldr_step acc, y'.1 = x.1 := by
  induction xs generalizing acc with
  | nil => cases h
  | cons a xs ih =>
    rw [List.foldl_cons]
    rcases List.mem_cons.1 h with rfl | h1
    · obtain ⟨y1, h1, e1⟩ := ldr_step_adds acc x
      obtain ⟨y2, h2, e2⟩ := ldr_foldl_keeps xs _ y1 h1
      exact ⟨y2, h2, e2.trans e1⟩
    · exact ih _ h1

/-- the dict built from a list of definitions, looked up at a key all of whose definitions agree -/
theorem ldr_ofList_get (xs : List (Name × TagInfo)) (k : Name) (i : TagInfo) (hm : (k, i) ∈ xs)
    (hu : ∀ j, (k, j) ∈ xs → j = i) : (TagDb.ofList xs).get? k = some i := by
  rw [ldr_ofList_eq]
  obtain ⟨y, hy, hk⟩ := ldr_foldl_adds xs [] (k, i) hm
  obtain ⟨yk, yi⟩ := y
  simp only at hk
  subst hk
  obtain ⟨j', hj'⟩ := ldr_get?_of_mem _ _ _ hy
  have hmem := ldr_get?_mem _ _ _ hj'
  rcases ldr_foldl_sub xs [] _ hmem with h | h
  · cases h
  · rw [hj', hu j' h]

/-! ### `mapM` over `Option` -/

theorem ldr_mapM_fwd {α β} (f : α → Option β) (xs : List α) (ys : List β) (h : xs.mapM f = some ys) (x : α)
    (hx : x ∈ xs) : ∃ y ∈ ys, f x = some y := by
  induction xs generalizing ys with
  | nil => cases hx
  | cons a xs ih =>
    rw [List.mapM_cons] at h
    cases ha : f a with
    | none => rw [ha] at h; cases h
    | some b =>
      cases hr : xs.mapM f with
      | none => rw [ha, hr] at h; cases h
      | some bs =>
        rw [ha, hr] at h
        cases h
        rcases List.mem_cons.1 hx with rfl | hx'
        · exact ⟨b, by simp, ha⟩
        · obtain ⟨y, hy, e⟩ := ih bs hr hx'
          exact ⟨y, List.mem_cons_of_mem _ hy, e⟩

theorem ldr_mapM_bwd {α β} (f : α → Option β) (xs : List α) (ys : List β) (h : xs.mapM f = some ys) (y : β)
    (hy : y ∈ ys) : ∃ x ∈ xs, f x = some y := by
  induction xs generalizing ys with
  | nil =>
    rw [List.mapM_nil] at h
    cases h; cases hy
  | cons a xs ih =>
    rw [List.mapM_cons] at h
    cases ha : f a with
    | none => rw [ha] at h; cases h
    | some b =>
      cases hr : xs.mapM f with
      | none => rw [ha, hr] at h; cases h
      | some bs =>
        rw [ha, hr] at h
        cases h
        rcases List.mem_cons.1 hy with rfl | hy'
        · exact ⟨a, by simp, ha⟩
        · obtain ⟨x, hx, e⟩ := ih bs hr hy'
          exact ⟨x, List.mem_cons_of_mem _ hx, e⟩

/-! ### `_isolate_user_tags` and `get_tag_list` -/

theorem ldr_userTags_fwd (p : Project) (pfx : Name) (syms : List Symbol) (ys : List (Name × TagInfo))
    (h : userTags p pfx syms = some ys) (s : Symbol) (hs : s ∈ syms) (hk : K.keepSymbol s.name s.symbolType = true) :
    ∃ i, createTag p s = some i ∧ (pfx ++ s.name, i) ∈ ys := by
  unfold userTags at h
  obtain ⟨y, hy, e⟩ := ldr_mapM_fwd _ _ _ h s (List.mem_filter.2 ⟨hs, hk⟩)
  cases hc : createTag p s with
  | none => rw [hc] at e; cases e
  | some i =>
    rw [hc] at e
    simp only [Option.map_some, Option.some.injEq] at e
    subst e
    exact ⟨i, rfl, hy⟩

theorem ldr_userTags_bwd (p : Project) (pfx : Name) (syms : List Symbol) (ys : List (Name × TagInfo))
    (h : userTags p pfx syms = some ys) (y : Name × TagInfo) (hy : y ∈ ys) :
    ∃ s ∈ syms, createTag p s = some y.2 ∧ y.1 = pfx ++ s.name := by
  unfold userTags at h
  obtain ⟨s, hs, e⟩ := ldr_mapM_bwd _ _ _ h y hy
  cases hc : createTag p s with
  | none => rw [hc] at e; cases e
  | some i =>
    rw [hc] at e
    simp only [Option.map_some, Option.some.injEq] at e
    subst e
    exact ⟨s, (List.mem_filter.1 hs).1, hc, rfl⟩

/-- `self._tags` after `open()`, at the name of a controller-scope user tag: if the name is unique in the controller
    scope and contains no colon, the entry is what `_create_tag` makes of the symbol (program-scoped tags, if
    uploaded, all have a colon in their key) -/
theorem ldr_tagDb_get (p : Project) (programTags : Bool) (db : TagDb) (s : Symbol)
    (hdb : tagDbOf p programTags = some db) (hs : s ∈ p.controller)
    (hkeep : K.keepSymbol s.name s.symbolType = true)
    (huniq : ∀ s' ∈ p.controller, s'.name = s.name → s' = s) (hcolon : (58 : Nat) ∉ s.name) :
    ∃ i, createTag p s = some i ∧ db.get? s.name = some i := by
  unfold tagDbOf at hdb
  cases hctl : userTags p [] p.controller with
  | none => rw [hctl] at hdb; cases hdb
  | some ctl =>
    rw [hctl] at hdb
    obtain ⟨i, hci, hmem⟩ := ldr_userTags_fwd p [] _ _ hctl s hs hkeep
    rw [List.nil_append] at hmem
    refine ⟨i, hci, ?_⟩
    have hu_ctl : ∀ j, (s.name, j) ∈ ctl → j = i := by
      intro j hj
      obtain ⟨s', hs', hc', hn'⟩ := ldr_userTags_bwd p [] _ _ hctl _ hj
      simp only [List.nil_append] at hn' hc'
      rw [huniq s' hs' hn'.symm, hci] at hc'
      exact (Option.some.inj hc').symm
    cases programTags with
    | false =>
      simp only [Bool.not_false, if_true, Option.some.injEq] at hdb
      subst hdb
      exact ldr_ofList_get ctl s.name i hmem hu_ctl
    | true =>
      simp only [Bool.not_true, Bool.false_eq_true, if_false] at hdb
      split at hdb
      · cases hdb
      · rename_i progs hprogs
        simp only [Option.some.injEq] at hdb
        subst hdb
        apply ldr_ofList_get _ s.name i (List.mem_append_left _ hmem)
        intro j hj
        rcases List.mem_append.1 hj with hj | hj
        · exact hu_ctl j hj
        · exfalso
          obtain ⟨grp, hgrp, hjg⟩ := List.mem_flatten.1 hj
          obtain ⟨pn, _, hpn⟩ := ldr_mapM_bwd _ _ _ hprogs grp hgrp
          split at hpn
          · cases hpn
          · rename_i pr _
            obtain ⟨s', _, _, hn'⟩ := ldr_userTags_bwd p _ _ _ hpn _ hjg
            simp only at hn'
            apply hcolon
            rw [hn']
            have : (58 : Nat) ∈ nm "Program:" := by decide
            simp [this]

end Pycomm.Lgx.Drv
