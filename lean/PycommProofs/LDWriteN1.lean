/-
  LogixDriver.write of ANY number of plain one-element requests in one call, layer (a)+(b): the parsed requests,
  `_write_build_multi_requests` for a list of error-free one-element requests (no bit numbers) whose values encode
  and whose messages each fit a multi-service packet: one Write Tag packet per request (one sequence number each),
  grouped into multi-service packets by the driver's greedy accounting (`K.plan`), one more sequence number per
  packet; the parsed requests are unchanged.
-/
import PycommProofs.LDFailWrite2
import PycommProofs.LDWrite2Multi
import PycommProofs.LogixPlanProofs
import PycommProofs.LDShape
namespace Pycomm.Lgx.Drv
open Pycomm Pycomm.Tgt Pycomm.Path Pycomm.Reply Pycomm.Encap Pycomm.Lgx Pycomm.Lgx.E2E

/-- one plain one-element write request as the builder sees it: the tag string, its entry in the tag database, the
    caller's value, the request path and the encoded value -/
structure ldwn_Item where
  tag : Name
  info : TagInfo
  v : PyVal
  path : Bytes
  value : Bytes

/-- the parsed requests of the items, request ids `k, k + 1, …` -/
def ldwn_parsed (k : Nat) : List ldwn_Item → List Parsed
  | [] => []
  | it :: rest => ldx_wparsed k it.tag it.info it.v :: ldwn_parsed (k + 1) rest

/-- `n` sequence numbers drawn -/
def ldwn_seqN : Nat → Cli.Drv → Cli.Drv
  | 0, d => d
  | n + 1, d => ldwn_seqN n d.nextSeq.2

/-- the Write Tag packets of the items: sequence numbers drawn one after the other, request ids `k, k + 1, …` -/
def ldwn_reqs (d : Cli.Drv) (k : Nat) : List ldwn_Item → List WriteReq
  | [] => []
  | it :: rest => ldx_wreq d.nextSeq.1 k it.tag it.info it.path it.value :: ldwn_reqs d.nextSeq.2 (k + 1) rest

/-- what the builder needs of an item: the value encodes (at any position), the path exists, and the message alone
    stays below the fragmentation threshold of the multi-request path -/
structure ldwn_ItemOk (cfg : Cfg) (C : Nat) (it : ldwn_Item) : Prop where
  enc : ∀ rid, encodeValue (ldx_wparsed rid it.tag it.info it.v) it.info =
    (ldx_wparsed rid it.tag it.info it.v, some it.value)
  path : requestPathOf cfg it.tag it.info = .ok it.path
  fit : ldx_wlen it.info it.path it.value + K.OVERHEAD ≤ C

theorem ldwn_parsed_length (its : List ldwn_Item) : ∀ k, (ldwn_parsed k its).length = its.length := by
  induction its with
  | nil => intro k; rfl
  | cons it rest ih => intro k; simp [ldwn_parsed, ih]

theorem ldwn_reqs_length (its : List ldwn_Item) : ∀ d k, (ldwn_reqs d k its).length = its.length := by
  induction its with
  | nil => intro d k; rfl
  | cons it rest ih => intro d k; simp [ldwn_reqs, ih]

theorem ldwn_seqN_succ (n : Nat) : ∀ d : Cli.Drv, ldwn_seqN (n + 1) d = (ldwn_seqN n d).nextSeq.2 := by
  induction n with
  | zero => intro d; rfl
  | succ n ih => intro d; rw [ldwn_seqN, ih d.nextSeq.2]; rfl

theorem ldwn_seqN_add (m : Nat) : ∀ (n : Nat) (d : Cli.Drv), ldwn_seqN (n + m) d = ldwn_seqN m (ldwn_seqN n d) := by
  intro n
  induction n with
  | zero => intro d; simp [ldwn_seqN]
  | succ n ih => intro d; rw [Nat.add_right_comm, ldwn_seqN, ih]; rfl

theorem ldwn_seqN_eq (n : Nat) : ∀ d : Cli.Drv, ldwn_seqN n d = { d with seqVal := (ldwn_seqN n d).seqVal } := by
  induction n with
  | zero => intro d; rfl
  | succ n ih =>
    intro d
    rw [ldwn_seqN]
    have h := ih d.nextSeq.2
    rw [(Cli.lcs_nextSeq d).2] at h ⊢
    rw [h]

theorem ldwn_seqN_connectionSize (n : Nat) (d : Cli.Drv) : (ldwn_seqN n d).connectionSize = d.connectionSize := by
  rw [ldwn_seqN_eq n d]

/-- request ids of the parsed items are at least the start -/
theorem ldwn_parsed_id_ge (its : List ldwn_Item) : ∀ k, ∀ p ∈ ldwn_parsed k its, k ≤ p.requestId := by
  induction its with
  | nil => intro k p hp; cases hp
  | cons it rest ih =>
    intro k p hp
    rcases List.mem_cons.1 hp with rfl | hp
    · exact Nat.le_refl _
    · exact Nat.le_of_succ_le (ih (k + 1) p hp)

/-- a request id names one parsed item -/
theorem ldwn_parsed_id_inj (its : List ldwn_Item) : ∀ k, ∀ p ∈ ldwn_parsed k its, ∀ q ∈ ldwn_parsed k its,
    q.requestId = p.requestId → q = p := by
  induction its with
  | nil => intro k p hp; cases hp
  | cons it rest ih =>
    intro k p hp q hq he
    rcases List.mem_cons.1 hp with rfl | hp <;> rcases List.mem_cons.1 hq with rfl | hq
    · rfl
    · have := ldwn_parsed_id_ge rest (k + 1) q hq
      have e : (ldx_wparsed k it.tag it.info it.v).requestId = k := rfl
      omega
    · have := ldwn_parsed_id_ge rest (k + 1) p hp
      have e : (ldx_wparsed k it.tag it.info it.v).requestId = k := rfl
      omega
    · exact ih (k + 1) p hp q hq he

/-- replacing a parsed item by itself changes nothing -/
theorem ldwn_replace_self (its : List ldwn_Item) (k : Nat) (p : Parsed) (hp : p ∈ ldwn_parsed k its) :
    replaceParsed (ldwn_parsed k its) p = ldwn_parsed k its := by
  unfold replaceParsed
  conv => rhs; rw [← List.map_id (ldwn_parsed k its)]
  apply List.map_congr_left
  intro q hq
  by_cases h : (q.requestId == p.requestId) = true
  · rw [if_pos h]
    exact (ldwn_parsed_id_inj its k p hp q hq (by simpa using h)).symm
  · rw [if_neg h]; rfl

/-! ### (b) the first loop of `_write_build_multi_requests` -/

theorem ldwn_buildLive (cfg : Cfg) (C : Nat) (its : List ldwn_Item) :
    ∀ (d : Cli.Drv) (acc : WriteBuild) (k : Nat), (∀ it ∈ its, ldwn_ItemOk cfg C it) →
      (∀ p ∈ ldwn_parsed k its, replaceParsed acc.parsed p = acc.parsed) →
      writeBuildLive cfg C d acc (ldwn_parsed k its) =
        (ldwn_seqN its.length d, .ok { acc with writes := acc.writes ++ (ldwn_reqs d k its).map (·, false) }) := by
  induction its with
  | nil =>
    intro d acc k _ _
    simp [ldwn_parsed, writeBuildLive, ldwn_seqN, ldwn_reqs]
  | cons it rest ih =>
    intro d acc k hok hrep
    have hit := hok it List.mem_cons_self
    have herr : (ldx_wparsed k it.tag it.info it.v).error = none := rfl
    have hinf : (ldx_wparsed k it.tag it.info it.v).info = some it.info := rfl
    have hbw : (ldx_wparsed k it.tag it.info it.v).isBitWrite = false := rfl
    have hpath : requestPathOf cfg (ldx_wparsed k it.tag it.info it.v).plcTag it.info = .ok it.path := hit.path
    have hel : elementsNat (ldx_wparsed k it.tag it.info it.v).elements = .ok 1 := rfl
    have hr := hrep (ldx_wparsed k it.tag it.info it.v) List.mem_cons_self
    have hfit := hit.fit
    unfold ldx_wlen at hfit
    have hnf : ¬ (2 + (Cl.writeMsg it.path (packedTypeOf it.info) 1 it.value).length + K.OVERHEAD > C) := by omega
    have hstep : writeBuildLive cfg C d acc (ldwn_parsed k (it :: rest)) =
        writeBuildLive cfg C d.nextSeq.2
          { acc with writes := acc.writes ++ [(ldx_wreq d.nextSeq.1 k it.tag it.info it.path it.value, false)] }
          (ldwn_parsed (k + 1) rest) := by
      simp only [ldwn_parsed, writeBuildLive, herr, hinf, hbw, Bool.false_eq_true, if_false, hit.enc k, hr, mkWriteReq,
        hpath, hel, WriteReq.messageLen, hnf, decide_false]
      rfl
    rw [hstep, ih d.nextSeq.2
      { acc with writes := acc.writes ++ [(ldx_wreq d.nextSeq.1 k it.tag it.info it.path it.value, false)] }
      (k + 1) (fun x hx => hok x (List.mem_cons_of_mem _ hx))
      (fun p hp => hrep p (List.mem_cons_of_mem _ hp))]
    simp [ldwn_seqN, ldwn_reqs, List.append_assoc]

/-! ### (b) the grouping into multi-service packets -/

/-- the item of the grouping loop for a built Write Tag packet -/
def ldwn_planItem (r : WriteReq) : K.Item := { id := r.rid, error := false, size := r.messageLen }

/-- the multi-service packets `_write_build_multi_requests` forms from the built (non-fragmented) Write Tag packets:
    the driver's greedy accounting, ids mapped back to the packets -/
def ldwn_groups (C : Nat) (reqs : List WriteReq) : List (List WriteReq) :=
  (K.plan C (reqs.map ldwn_planItem)).groups.map fun g => g.filterMap fun id => reqs.find? (·.rid == id)

/-- the accounted size of a multi-service packet: `len(request.message)` of its members -/
def ldwn_groupSize (g : List WriteReq) : Nat := (g.map (·.messageLen)).sum

theorem ldwn_find_rid (reqs : List WriteReq) (hnd : (reqs.map (·.rid)).Nodup) (r : WriteReq) (hr : r ∈ reqs) :
    reqs.find? (·.rid == r.rid) = some r := by
  induction reqs with
  | nil => cases hr
  | cons a t ih =>
    simp only [List.map_cons, List.nodup_cons] at hnd
    rcases List.mem_cons.1 hr with rfl | h'
    · simp
    · have hne : a.rid ≠ r.rid := by
        intro e; apply hnd.1; rw [e]; exact List.mem_map_of_mem h'
      have : (a.rid == r.rid) = false := by simpa using hne
      simp only [List.find?_cons, this]
      exact ih hnd.2 h'

theorem ldwn_filterMap_find (reqs all : List WriteReq) (hnd : (all.map (·.rid)).Nodup) (hsub : ∀ r ∈ reqs, r ∈ all) :
    (reqs.map (·.rid)).filterMap (fun id => all.find? (·.rid == id)) = reqs := by
  induction reqs with
  | nil => rfl
  | cons a t ih =>
    simp only [List.map_cons, List.filterMap_cons, ldwn_find_rid all hnd a (hsub a List.mem_cons_self)]
    rw [ih (fun r hr => hsub r (List.mem_cons_of_mem _ hr))]

theorem ldwn_filter_all {α} (l : List α) (p : α → Bool) (h : ∀ x ∈ l, p x = true) : l.filter p = l :=
  List.filter_eq_self.2 h

theorem ldwn_plan_live (C : Nat) (reqs : List WriteReq) (hfit : ∀ r ∈ reqs, r.messageLen + K.OVERHEAD ≤ C) :
    (((reqs.map ldwn_planItem).filter (!·.error)).filter (fun i => !(i.size + K.OVERHEAD > C))) =
      reqs.map ldwn_planItem := by
  have h1 : (reqs.map ldwn_planItem).filter (!·.error) = reqs.map ldwn_planItem := by
    apply ldwn_filter_all
    intro x hx
    obtain ⟨r, _, rfl⟩ := List.mem_map.1 hx
    rfl
  rw [h1]
  apply ldwn_filter_all
  intro x hx
  obtain ⟨r, hr, rfl⟩ := List.mem_map.1 hx
  have := hfit r hr
  have hn : ¬ (r.messageLen + K.OVERHEAD > C) := by omega
  simp only [ldwn_planItem, hn, decide_false, Bool.not_false]

/-- G1: the packets, one after the other, carry exactly the built requests in request order -/
theorem ldwn_groups_flatten (C : Nat) (reqs : List WriteReq) (hnd : (reqs.map (·.rid)).Nodup)
    (hfit : ∀ r ∈ reqs, r.messageLen + K.OVERHEAD ≤ C) : (ldwn_groups C reqs).flatten = reqs := by
  unfold ldwn_groups
  rw [← List.filterMap_flatten, (K.plan_partition C (reqs.map ldwn_planItem)).1, ldwn_plan_live C reqs hfit,
    List.map_map]
  exact ldwn_filterMap_find reqs reqs hnd (fun r hr => hr)

theorem ldwn_plan_ids (C : Nat) (reqs : List WriteReq) (hfit : ∀ r ∈ reqs, r.messageLen + K.OVERHEAD ≤ C)
    (g : List Nat) (hg : g ∈ (K.plan C (reqs.map ldwn_planItem)).groups) : ∀ id ∈ g, ∃ r ∈ reqs, r.rid = id := by
  intro id hid
  have hmem : id ∈ (K.plan C (reqs.map ldwn_planItem)).groups.flatten := List.mem_flatten.2 ⟨g, hg, hid⟩
  rw [(K.plan_partition C (reqs.map ldwn_planItem)).1, ldwn_plan_live C reqs hfit, List.map_map] at hmem
  obtain ⟨r, hr, he⟩ := List.mem_map.1 hmem
  exact ⟨r, hr, he⟩

/-- G2: no packet is empty -/
theorem ldwn_groups_ne_nil (C : Nat) (reqs : List WriteReq) (hnd : (reqs.map (·.rid)).Nodup)
    (hfit : ∀ r ∈ reqs, r.messageLen + K.OVERHEAD ≤ C) : ∀ g ∈ ldwn_groups C reqs, g ≠ [] := by
  intro g' hg'
  unfold ldwn_groups at hg'
  obtain ⟨g, hg, rfl⟩ := List.mem_map.1 hg'
  have hne := K.plan_no_empty_group C (reqs.map ldwn_planItem) g hg
  cases g with
  | nil => exact absurd rfl hne
  | cons id rest =>
    obtain ⟨r, hr, he⟩ := ldwn_plan_ids C reqs hfit _ hg id List.mem_cons_self
    rw [List.filterMap_cons, ← he, ldwn_find_rid reqs hnd r hr]
    simp

theorem ldwn_sizeOf (reqs : List WriteReq) (id : Nat) :
    K.sizeOf (reqs.map ldwn_planItem) id = ((reqs.find? (·.rid == id)).map (·.messageLen)).getD 0 := by
  unfold K.sizeOf
  rw [List.find?_map]
  cases h : reqs.find? (·.rid == id) with
  | none =>
    have : List.find? ((fun x => x.id == id) ∘ ldwn_planItem) reqs = none := h
    rw [this]; rfl
  | some r =>
    have : List.find? ((fun x => x.id == id) ∘ ldwn_planItem) reqs = some r := h
    rw [this]; rfl

theorem ldwn_group_sum (reqs : List WriteReq) (g : List Nat) :
    ldwn_groupSize (g.filterMap fun id => reqs.find? (·.rid == id)) = (g.map (K.sizeOf (reqs.map ldwn_planItem))).sum := by
  induction g with
  | nil => rfl
  | cons id rest ih =>
    rw [List.map_cons, List.sum_cons, ldwn_sizeOf, ← ih, List.filterMap_cons]
    cases h : reqs.find? (·.rid == id) with
    | none => simp
    | some r => simp [ldwn_groupSize]

/-- G3: every packet respects the connection size by the driver's accounting -/
theorem ldwn_groups_fit (C : Nat) (reqs : List WriteReq) (hnd : (reqs.map (·.rid)).Nodup) :
    ∀ g ∈ ldwn_groups C reqs, K.OVERHEAD + ldwn_groupSize g ≤ C := by
  intro g' hg'
  unfold ldwn_groups at hg'
  obtain ⟨g, hg, rfl⟩ := List.mem_map.1 hg'
  have hu : K.UniqueIds (reqs.map ldwn_planItem) := by
    unfold K.UniqueIds
    rw [List.map_map]
    exact hnd
  have := K.plan_groups_fit C (reqs.map ldwn_planItem) hu g hg
  rw [K.sumSizes_eq] at this
  rw [ldwn_group_sum]
  exact this

theorem ldwn_fold_one (C : Nat) (l : List (Nat × Nat)) : ∀ (cur : List Nat) (sz : Nat),
    sz + (l.map (·.2)).sum ≤ C →
    l.foldl (K.groupStep C) ([], cur, sz) = ([], (l.map (·.1)).reverse ++ cur, sz + (l.map (·.2)).sum) := by
  induction l with
  | nil => intro cur sz _; simp
  | cons a t ih =>
    intro cur sz h
    simp only [List.map_cons, List.sum_cons] at h
    have hn : ¬ (sz + a.2 > C) := by omega
    rw [List.foldl_cons]
    have hs : K.groupStep C ([], cur, sz) a = ([], a.1 :: cur, sz + a.2) := by
      simp only [K.groupStep, hn, if_false]
    rw [hs, ih (a.1 :: cur) (sz + a.2) (by omega)]
    simp [Nat.add_assoc]

theorem ldwn_le_sum (l : List Nat) (x : Nat) (h : x ∈ l) : x ≤ l.sum := by
  induction l with
  | nil => cases h
  | cons a t ih =>
    rw [List.sum_cons]
    rcases List.mem_cons.1 h with rfl | h
    · omega
    · have := ih h; omega

/-- everything fits one packet: one group -/
theorem ldwn_groups_one (C : Nat) (reqs : List WriteReq) (hne : reqs ≠ []) (hnd : (reqs.map (·.rid)).Nodup)
    (hall : K.OVERHEAD + ldwn_groupSize reqs ≤ C) : ldwn_groups C reqs = [reqs] := by
  have hle : ∀ r ∈ reqs, r.messageLen ≤ ldwn_groupSize reqs := by
    intro r hr
    exact ldwn_le_sum _ _ (List.mem_map_of_mem hr)
  have hfit : ∀ r ∈ reqs, r.messageLen + K.OVERHEAD ≤ C := by
    intro r hr; have := hle r hr; omega
  have hplan : (K.plan C (reqs.map ldwn_planItem)).groups = [reqs.map (·.rid)] := by
    rw [K.plan_eq]
    simp only []
    rw [ldwn_plan_live C reqs hfit, List.map_map]
    rw [ldwn_fold_one C _ [] K.OVERHEAD (by
      rw [List.map_map]
      have : (reqs.map ((fun x : Nat × Nat => x.2) ∘ (fun i : K.Item => (i.id, i.size)) ∘ ldwn_planItem)) =
          reqs.map (·.messageLen) := rfl
      rw [this]; exact hall)]
    simp only [List.append_nil, List.reverse_reverse, List.reverse_cons, List.reverse_nil, List.nil_append, List.map_map]
    have hne' : reqs.map ((fun x : Nat × Nat => x.1) ∘ (fun i : K.Item => (i.id, i.size)) ∘ ldwn_planItem) ≠ [] := by
      intro h; exact hne (List.map_eq_nil_iff.1 h)
    simp only [List.filter_cons, hne', ne_eq, not_false_eq_true, decide_true, if_true, List.filter_nil]
    rfl
  unfold ldwn_groups
  rw [hplan, List.map_cons, List.map_nil, ldwn_filterMap_find reqs reqs hnd (fun r hr => hr)]

/-! ### (b) `_write_build_requests` -/

theorem ldwn_filter_plain (reqs : List WriteReq) :
    ((reqs.map fun r => (r, false)).filter (fun x => !x.2)).map (·.1) = reqs ∧
    (reqs.map fun r => (r, false)).filter (fun x => x.2) = [] := by
  induction reqs with
  | nil => exact ⟨rfl, rfl⟩
  | cons a t ih => simp [ih.1, ih.2]

theorem ldwn_drawSeqs_fst {α} (xs : List α) : ∀ d : Cli.Drv, (drawSeqs d xs).1 = ldwn_seqN xs.length d := by
  induction xs with
  | nil => intro d; rfl
  | cons x rest ih => intro d; simp only [drawSeqs, List.length_cons, ldwn_seqN]; exact ih _

/-- (b) `_write_build_requests` for the parsed items (not exactly one, not a Micro800): `n` sequence numbers for the
    Write Tag packets, then one per multi-service packet; the parsed requests are unchanged -/
theorem ldwn_build (cfg : Cfg) (d : Cli.Drv) (its : List ldwn_Item) (hmicro : cfg.micro800 = false)
    (hlen : its.length ≠ 1) (hok : ∀ it ∈ its, ldwn_ItemOk cfg d.connectionSize it) :
    writeBuildRequests cfg d (ldwn_parsed 0 its) =
      ((drawSeqs (ldwn_seqN its.length d) (ldwn_groups d.connectionSize (ldwn_reqs d 0 its))).1,
       .ok (ldwn_parsed 0 its,
            (drawSeqs (ldwn_seqN its.length d) (ldwn_groups d.connectionSize (ldwn_reqs d 0 its))).2.map
              fun m => Request.multiWrite m.1 m.2)) := by
  unfold writeBuildRequests
  have hcond : ((ldwn_parsed 0 its).length ≠ 1 ∧ (!cfg.micro800) = true) := by
    rw [ldwn_parsed_length, hmicro]; exact ⟨hlen, rfl⟩
  rw [if_pos hcond]
  rw [ldwn_buildLive cfg d.connectionSize its d { parsed := ldwn_parsed 0 its } 0 hok
    (fun p hp => ldwn_replace_self its 0 p hp)]
  simp only [List.nil_append, (ldwn_filter_plain _).1, (ldwn_filter_plain _).2, List.map_nil, List.append_nil]
  rfl

end Pycomm.Lgx.Drv
