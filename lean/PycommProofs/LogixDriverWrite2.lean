/-
  C02 at the driver level, more request shapes: `LogixDriver.write` of one array element (`name[i]`), of a slice
  (`name[i]{n}`, `name{n}`), of two tags in one call (multi-service path), of a slice too large for one packet
  (Write Tag Fragmented) and of an aligned range of a BOOL array, through the whole stack of the model (tag-string
  parsing, `encode_value`, request building, `CIPDriver.send`, encapsulation, the reference target's encapsulation
  layer / message router / Logix services, reply framing, response classes, result assembly).

  Layers (lemmas usable on their own):
    effect   LDWrite2Core  `ldw2_proj`, `ldw2_written_eq`, `ldw2_effect`; LDWrite2Frag `ldw2_splice_splice`,
                           `ldw2_fragProj_step`, `ldw2_projFrag`
    (a)      LDRead2Parse  `ldr2_parse_unfold`, `ldr2_tail_plain` (shared with read); LDWrite2Bool `ldw2_pyStrInt_nat`,
                           `ldw2_tail_dword`
    (b)      LDWrite2Array `ldw2_encodeValue_elem`, `ldw2_encodeValue_slice`, `ldw2_encode_arr_list`,
                           `ldw2_encodeList_chunks`; LDWrite2Bool `ldw2_encodeValue_bools`, `ldw2_encode_bits`;
             LDWrite2Core  `ldw2_build_single`; LDWrite2Multi `ldw2_build_two`; LDWrite2Frag `ldw2_build_frag`
    (c)+(d)  LDWrite2Core  `ldw2_logixService_tag`, `ldw2_sendUnit_tag` (any tag address), `ldw2_sendUnit_write`;
             LDWrite2Multi `ldw2_exchange_scalar` over LDRead2Multi `ldr2_multi_two`;
             LDWrite2Frag  `ldw2_frag_loop`, `ldw2_sendWriteFragmented`
    (e)+(f)  LDWrite2Core  `ldw2_writeResult`; LDWrite2Multi `ldw2_writeResult_get`; LDWrite2Frag `ldw2_writeTag_good`
    composed LDWrite2Core  `ldw2_write_single`; LDWrite2Array `ldw2_write_array`; LDWrite2Bool `ldw2_write_bools`;
             LDWrite2Multi `ldw2_write_two`; LDWrite2Frag `ldw2_write_single_frag`, `ldw2_write_array_frag`
    read-back LDWrite2ReadBack `ldw2_splice_drop`, `ldw2_decode_written`
-/
import PycommProofs.LDWrite2Array
import PycommProofs.LDWrite2Bool
import PycommProofs.LDWrite2Multi
import PycommProofs.LDWrite2Frag
import PycommProofs.LDWrite2ReadBack
namespace Pycomm.Lgx.Drv
open Pycomm Pycomm.Tgt Pycomm.Path Pycomm.Reply Pycomm.Encap Pycomm.Lgx Pycomm.Lgx.E2E

theorem ldw2_typeStr_one (name : Name) : ldr2_typeStr name 1 = name := by
  unfold ldr2_typeStr; rw [if_neg (by omega)]

/-- the segment size of `_send_write_fragmented` for an elementary type: the connection size minus everything in the
    request but the value (sequence count 2, service 1, request path, type 2, element count 2, byte offset 4) -/
def ldw2_segSize (C : Nat) (path : Bytes) : Nat := C - (path.length + 11)

-- PROPERTY THEOREMS

/-- C02, what `written p loc (i * sz) bytes` of `write_atomic_element_e2e` / `write_atomic_slice_e2e` means, for the
    location `loc` of element `i` of the one-dimensional array symbol `s` and `n * sz` bytes with `i + n ≤ dim`:
    the project afterwards is `ldw2_proj p s (i * sz) bytes`, in which
    * templates, program scopes, the number and order of the controller-scope symbols are unchanged;
    * every other controller-scope symbol is unchanged byte for byte, and `s` is the only symbol with its instance id;
    * the changed symbol keeps name, instance id, type word, dimensions and the length of its memory;
    * its memory holds exactly `bytes` at the bytes `[i * sz, (i + n) * sz)` of elements `i … i + n - 1`, and EVERY
      other byte of it is unchanged;
    * ONE write-log entry `(instance, i * sz, n * sz)` was appended: the write was applied exactly once. -/
theorem write_atomic_elements_effect (p : Project) (s : Symbol) (c sz dim i n : Nat) (bytes : Bytes)
    (huniqI : ∀ s' ∈ p.controller, s'.inst = s.inst → s' = s)
    (hlen : s.mem.length = dim * sz) (hin : i + n ≤ dim) (hbl : bytes.length = n * sz) :
    written p (ldr2_locAt s c sz i dim) (i * sz) bytes = ldw2_proj p s (i * sz) bytes ∧
    (ldw2_proj p s (i * sz) bytes).templates = p.templates ∧ (ldw2_proj p s (i * sz) bytes).programs = p.programs ∧
    (ldw2_proj p s (i * sz) bytes).controller.length = p.controller.length ∧
    (∀ (j : Nat) (x : Symbol), p.controller[j]? = some x →
        (ldw2_proj p s (i * sz) bytes).controller[j]? =
          some (if x.inst = s.inst then ldw2_sym s (i * sz) bytes else x) ∧
        (x.inst = s.inst → x = s)) ∧
    ((ldw2_sym s (i * sz) bytes).inst = s.inst ∧ (ldw2_sym s (i * sz) bytes).name = s.name ∧
      (ldw2_sym s (i * sz) bytes).symbolType = s.symbolType ∧ (ldw2_sym s (i * sz) bytes).dims = s.dims) ∧
    (ldw2_sym s (i * sz) bytes).mem.length = s.mem.length ∧
    ((ldw2_sym s (i * sz) bytes).mem.drop (i * sz)).take (n * sz) = bytes ∧
    (∀ j, (j < i * sz ∨ (i + n) * sz ≤ j) → (ldw2_sym s (i * sz) bytes).mem[j]? = s.mem[j]?) ∧
    (ldw2_proj p s (i * sz) bytes).writeLog = p.writeLog ++ [(s.inst, i * sz, n * sz)] := by
  have hfit : i * sz + bytes.length ≤ s.mem.length := by
    rw [hlen, hbl, ← Nat.add_mul]; exact Nat.mul_le_mul_right sz hin
  obtain ⟨h1, h2, h3, h4, h5, h6, h7, h8, h9⟩ := ldw2_effect p s (i * sz) bytes huniqI hfit
  rw [hbl] at h7 h8 h9
  rw [← Nat.add_mul] at h8
  exact ⟨ldw2_written_eq p s _ _ bytes rfl rfl, h1, h2, h3, h4, h5, h6, h7, h8, h9⟩

/-- C02, driver level, array element: writing ONE element `name[i]` (`i < dim`) of a controller-scope one-dimensional
    array of an elementary (non-bit-string) type with a canonical value of that type, on a healthy connected driver,
    returns exactly one error-free Tag named `name[i]` carrying the caller's value and the type name; exactly one
    frame is written (one plain Write Tag request), one sequence number is drawn, and the controller's project
    afterwards is `written st.proj loc (i * sz) bytes` for the location `loc` of element `i` and the codec's encoding
    `bytes` of the value: exactly the `sz` bytes of element `i` hold `bytes`, every other byte of that symbol's memory
    and every other symbol are unchanged, one write-log entry `(instance, i * sz, sz)` is appended
    (`write_atomic_elements_effect` with `n = 1`); the resulting world is healthy again.

    Hypotheses: those of `read_atomic_element_e2e` (`hw` … `hi32`), and
    * `hcanon`, `henc`  `v` is a canonical value of the element type and `bytes` is its encoding;
    * `hC`        the request stays below the fragmentation threshold of the single-request path, which counts the
                  value twice (logix_driver.py:1225): `name length + 2·size + 26` bytes suffice;
    * `hT`        the request fits the size the target granted (`name length + size + 26` bytes suffice). -/
theorem write_atomic_element_e2e (cfg : Cfg) (w : Cli.World Ext) (sess : Nat) (cidb : Bytes) (conn : Conn)
    (st : LState) (s : Symbol) (info : TagInfo) (c sz dim i : Nat) (name : Name) (t : Ty) (v : PyVal) (bytes : Bytes)
    (hw : ldr_Healthy w sess cidb conn) (hlogix : w.net.target.ext.logix = some st)
    (hs : s ∈ st.proj.controller)
    (hbytes : ∀ s' ∈ st.proj.controller, ∀ ch ∈ s'.name, ch < 256)
    (huniqN : ∀ s' ∈ st.proj.controller, s'.name = s.name → s' = s)
    (huniqI : ∀ s' ∈ st.proj.controller, s'.inst = s.inst → s' = s)
    (hid : PlainIdent s.name) (hinst : s.inst < 2 ^ 32)
    (hty : elTyOfWord s.symbolType = .atomic c) (hat : atomicOfCode c = some (name, t)) (hb : t.isBits = none)
    (hsz : atomicSize c = some sz)
    (hdims : s.dims.filter (· != 0) = [dim]) (hlen : s.mem.length = dim * sz)
    (hget : cfg.tags.get? s.name = some info) (hinfo : ldr_InfoOf info name (.arr (.fixed dim) t) s.inst)
    (hi : i < dim) (hi32 : i < 2 ^ 32)
    (hcanon : Canon t v) (henc : encode t v = .ok bytes)
    (hC : s.name.length + 2 * sz + 26 ≤ w.drv.connectionSize) (hT : s.name.length + sz + 26 ≤ conn.size) :
    ∃ w' frm, write hookAll cfg w [(s.name ++ [91] ++ decRender i ++ [93], v)] =
        (w', .ok [{ tag := s.name ++ [91] ++ decRender i ++ [93], value := v, type := some name, error := none }]) ∧
      w'.drv = w.drv.nextSeq.2 ∧ w'.net.sent = w.net.sent ++ [frm] ∧
      w'.net.target.ext =
        { w.net.target.ext with
          logix := some { st with proj := written st.proj (ldr2_locAt s c sz i dim) (i * sz) bytes } } ∧
      bytes.length = sz ∧
      ldr_Healthy w' sess cidb { conn with lastSeq := some w.drv.nextSeq.1 } := by
  obtain ⟨haty, hentry, hndw, hpos, hle8⟩ := ldr_atomic_table c sz name t hat hb hsz
  have hshape := ldr_atomicTy_shape c t haty hb
  have hbl : bytes.length = sz := ldw_encode_length c sz t v bytes haty hb hsz hcanon henc
  have hencv : encodeValue (ldw2_parsedArr s.name [i] none info v) info = (ldw2_parsedArr s.name [i] none info v, some bytes) :=
    ldw2_encodeValue_elem _ info dim t bytes (by rw [hinfo.typeName]; exact hndw) hinfo.ty hshape hb rfl rfl hcanon henc
  obtain ⟨w', frm, h1, h2, h3, h4, h5⟩ := ldw2_write_array cfg w sess cidb conn st s info c sz dim name t [i] i none v bytes
    (Or.inl rfl) hw hlogix hs hbytes huniqN huniqI hid hinst hty hat hb hsz hdims hlen hget hinfo hi32 (by simp) (by simp)
    (by simp only [Option.getD_none]; omega) hencv (by simp only [Option.getD_none]; omega)
    (by simp only [Option.getD_none]; omega) (by simp only [Option.getD_none]; omega) (by simp only [Option.getD_none]; omega)
  rw [ldr2_tagStr_elem, ldr2_renderLevel_elem, Option.getD_none, ldw2_typeStr_one] at h1
  rw [← ldw2_written_eq st.proj s (ldr2_locAt s c sz i dim) (i * sz) bytes rfl rfl] at h4
  exact ⟨w', frm, h1, h2, h3, h4, hbl, h5⟩

/-- `write_atomic_element_e2e` with the tag database the driver really holds after `open()` (`tagDbOf` of the
    controller's project); the hypotheses on the entry are replaced by hypotheses on the symbol as in
    `read_atomic_element_e2e_db` -/
theorem write_atomic_element_e2e_db (cfg : Cfg) (w : Cli.World Ext) (sess : Nat) (cidb : Bytes) (conn : Conn)
    (st : LState) (s : Symbol) (sz dim i : Nat) (name : Name) (t : Ty) (v : PyVal) (bytes : Bytes) (programTags : Bool)
    (hw : ldr_Healthy w sess cidb conn) (hlogix : w.net.target.ext.logix = some st)
    (hs : s ∈ st.proj.controller)
    (hbytes : ∀ s' ∈ st.proj.controller, ∀ ch ∈ s'.name, ch < 256)
    (huniqN : ∀ s' ∈ st.proj.controller, s'.name = s.name → s' = s)
    (huniqI : ∀ s' ∈ st.proj.controller, s'.inst = s.inst → s' = s)
    (hid : PlainIdent s.name) (hinst : s.inst < 2 ^ 32)
    (hstruct : s.symbolType / 32768 % 2 = 0) (hd1 : s.symbolType / 8192 % 4 = 1)
    (hat : atomicOfCode (s.symbolType % 256) = some (name, t)) (hb : t.isBits = none)
    (hsz : atomicSize (s.symbolType % 256) = some sz)
    (hdims : s.dims = [dim, 0, 0]) (hlen : s.mem.length = dim * sz)
    (hkeep : K.keepSymbol s.name s.symbolType = true) (hdb : tagDbOf st.proj programTags = some cfg.tags)
    (hi : i < dim) (hi32 : i < 2 ^ 32)
    (hcanon : Canon t v) (henc : encode t v = .ok bytes)
    (hC : s.name.length + 2 * sz + 26 ≤ w.drv.connectionSize) (hT : s.name.length + sz + 26 ≤ conn.size) :
    ∃ w' frm, write hookAll cfg w [(s.name ++ [91] ++ decRender i ++ [93], v)] =
        (w', .ok [{ tag := s.name ++ [91] ++ decRender i ++ [93], value := v, type := some name, error := none }]) ∧
      w'.drv = w.drv.nextSeq.2 ∧ w'.net.sent = w.net.sent ++ [frm] ∧
      w'.net.target.ext =
        { w.net.target.ext with
          logix := some { st with
            proj := written st.proj (ldr2_locAt s (s.symbolType % 256) sz i dim) (i * sz) bytes } } ∧
      bytes.length = sz ∧
      ldr_Healthy w' sess cidb { conn with lastSeq := some w.drv.nextSeq.1 } := by
  obtain ⟨info, hc1, hinfo⟩ := ldr2_createTag_array st.proj s name t dim hstruct hd1 hdims hat
  obtain ⟨i', hc2, hget⟩ := ldr_tagDb_get st.proj programTags cfg.tags s hdb hs hkeep huniqN
    (ldr_plain_not_mem s.name hid 58 (by omega))
  rw [hc1] at hc2
  cases hc2
  have hty : elTyOfWord s.symbolType = .atomic (s.symbolType % 256) := by
    unfold elTyOfWord
    rw [if_neg (by omega)]
  have hdim0 : dim ≠ 0 := by omega
  have hdf : s.dims.filter (· != 0) = [dim] := by rw [hdims]; simp [hdim0]
  exact write_atomic_element_e2e cfg w sess cidb conn st s info _ sz dim i name t v bytes hw hlogix hs hbytes huniqN huniqI hid
    hinst hty hat hb hsz hdf hlen hget hinfo hi hi32 hcanon henc hC hT


-- STATEMENT CHANGED: `hC` of `write_atomic_element_e2e`, `write_atomic_slice_e2e`, `write_bool_array_aligned_e2e` is
-- `2·(value bytes) + name length + 26 ≤ connectionSize`, not the natural "the Write Tag request fits the connection"
-- (`value bytes + …`): as for `write_atomic_scalar_e2e`, the single-request path counts the value twice
-- (logix_driver.py:1225 `req_size = len(write_value) + len(request.message)`). With the natural hypothesis the
-- "one frame / one write-log entry" statements are false of the model — counterexamples evaluated in `Ex` below
-- (`world3c 79`): the 64-byte value of `big[0]{16}` fits a 79-byte connection as ONE 78-byte Write Tag request, yet the
-- driver sends TWO Write Tag Fragmented requests of 61 + 3 bytes (the cut is inside a DINT), two write-log entries,
-- four sequence numbers; the plain request is used only from 142 bytes on. (The value still arrives intact:
-- `write_fragmented_e2e`.)
-- STATEMENT CHANGED: "reports the written value with type `T[n]`" holds for n ≥ 2 only: for `{1}` the type string is
-- `T` (`ldr2_typeStr`), as for reads; the Tag's value is always the caller's object (the list), its name has no `{n}`.
/-- C02, driver level, slice: writing `n ≥ 1` elements from element `i` (`i + n ≤ dim`) of such an array, requested as
    `name[i]{n}` with a list `vs` of exactly `n` canonical values, returns one error-free Tag named `name[i]` (WITHOUT
    the `{n}` suffix) carrying the caller's list and the type string `T[n]` (`T` for `n = 1`: `ldr2_typeStr`); exactly
    one frame is written (one plain Write Tag request for `n` elements), one sequence number is drawn, and the
    controller's project afterwards is `written st.proj loc (i * sz) bytes` where `bytes` — the codec's encoding of
    the list — is `n * sz` bytes long and its `k`-th chunk of `sz` bytes is the encoding of `vs[k]`: element `i + k`
    holds the encoding of `vs[k]`, every other byte of that symbol's memory and every other symbol are unchanged,
    one write-log entry `(instance, i * sz, n * sz)` is appended (`write_atomic_elements_effect`).

    Hypotheses: those of `read_atomic_slice_e2e` (`hw` … `hin`), and
    * `hvs`, `hcanon`, `henc`  the list has exactly `n` elements, each a canonical value of the element type, and
                  `bytes` is the encoding of the list as an `n`-element array;
    * `hsmall`    the value fits one encapsulation frame (16-bit length field): at most 64000 bytes;
    * `hC`        the request stays below the fragmentation threshold of the single-request path, which counts the
                  value twice: `2·n·size + name length + 26` bytes suffice;
    * `hT`        the request fits the size the target granted (`n·size + name length + 26` bytes suffice). -/
theorem write_atomic_slice_e2e (cfg : Cfg) (w : Cli.World Ext) (sess : Nat) (cidb : Bytes) (conn : Conn)
    (st : LState) (s : Symbol) (info : TagInfo) (c sz dim i n : Nat) (name : Name) (t : Ty) (vs : List PyVal) (bytes : Bytes)
    (hw : ldr_Healthy w sess cidb conn) (hlogix : w.net.target.ext.logix = some st)
    (hs : s ∈ st.proj.controller)
    (hbytes : ∀ s' ∈ st.proj.controller, ∀ ch ∈ s'.name, ch < 256)
    (huniqN : ∀ s' ∈ st.proj.controller, s'.name = s.name → s' = s)
    (huniqI : ∀ s' ∈ st.proj.controller, s'.inst = s.inst → s' = s)
    (hid : PlainIdent s.name) (hinst : s.inst < 2 ^ 32)
    (hty : elTyOfWord s.symbolType = .atomic c) (hat : atomicOfCode c = some (name, t)) (hb : t.isBits = none)
    (hsz : atomicSize c = some sz)
    (hdims : s.dims.filter (· != 0) = [dim]) (hlen : s.mem.length = dim * sz)
    (hget : cfg.tags.get? s.name = some info) (hinfo : ldr_InfoOf info name (.arr (.fixed dim) t) s.inst)
    (hi32 : i < 2 ^ 32) (hn : 1 ≤ n) (hn16 : n ≤ 65535) (hin : i + n ≤ dim)
    (hvs : vs.length = n) (hcanon : ∀ x ∈ vs, Canon t x)
    (henc : encode (.arr (.fixed n) t) (.list vs) = .ok bytes) (hsmall : n * sz ≤ 64000)
    (hC : 2 * (n * sz) + s.name.length + 26 ≤ w.drv.connectionSize) (hT : n * sz + s.name.length + 26 ≤ conn.size) :
    ∃ w' frm, write hookAll cfg w [(s.name ++ [91] ++ decRender i ++ [93] ++ [123] ++ decRender n ++ [125], .list vs)] =
        (w', .ok [{ tag := s.name ++ [91] ++ decRender i ++ [93], value := .list vs,
                    type := some (ldr2_typeStr name n), error := none }]) ∧
      w'.drv = w.drv.nextSeq.2 ∧ w'.net.sent = w.net.sent ++ [frm] ∧
      w'.net.target.ext =
        { w.net.target.ext with
          logix := some { st with proj := written st.proj (ldr2_locAt s c sz i dim) (i * sz) bytes } } ∧
      bytes.length = n * sz ∧
      (∀ k (h : k < vs.length), encode t vs[k] = .ok ((bytes.drop (k * sz)).take sz)) ∧
      ldr_Healthy w' sess cidb { conn with lastSeq := some w.drv.nextSeq.1 } := by
  obtain ⟨haty, hentry, hndw, hpos, hle8⟩ := ldr_atomic_table c sz name t hat hb hsz
  have hshape := ldr_atomicTy_shape c t haty hb
  have hel := ldw2_encode_arr_list t vs n bytes hb hvs henc
  rw [RT.encodeList_argOf_canon t vs hcanon] at hel
  obtain ⟨hbl, hchunks⟩ := ldw2_encodeList_chunks (encode t) sz vs bytes
    (fun x hx e he => ldw_encode_length c sz t x e haty hb hsz (hcanon x hx) he) hel
  rw [hvs] at hbl
  have hencv : encodeValue (ldw2_parsedArr s.name [i] (some n) info (.list vs)) info =
      (ldw2_parsedArr s.name [i] (some n) info (.list vs), some bytes) :=
    ldw2_encodeValue_slice _ info dim n t vs bytes (by rw [hinfo.typeName]; exact hndw) hinfo.ty rfl rfl hn rfl hvs henc
  obtain ⟨w', frm, h1, h2, h3, h4, h5⟩ := ldw2_write_array cfg w sess cidb conn st s info c sz dim name t [i] i (some n)
    (.list vs) bytes (Or.inl rfl) hw hlogix hs hbytes huniqN huniqI hid hinst hty hat hb hsz hdims hlen hget hinfo hi32 hn hn16
    hin hencv hbl hsmall hC hT
  rw [ldr2_tagStr_slice, ldr2_renderLevel_elem, Option.getD_some] at h1
  rw [← ldw2_written_eq st.proj s (ldr2_locAt s c sz i dim) (i * sz) bytes rfl rfl] at h4
  exact ⟨w', frm, h1, h2, h3, h4, hbl, hchunks, h5⟩

-- STATEMENT CHANGED: `write_bool_array_aligned_e2e` needs `hkm16 : k + m ≤ 65535` in addition to "the range is inside
-- the array" and "the count fits": the request parser computes the number of DWORDs from word 0 up to the last
-- addressed one (what a READ needs) and rejects the request when that exceeds 65535, although a write sends only the
-- `m` addressed words. Counterexample evaluated in `Ex` below: `bits[2097120]{32}` (k = 65535, m = 1, one DWORD to
-- write) is refused with "Array index out of range: 2097120" whatever the size of the array. (Only BOOL arrays of
-- more than 2 097 120 bits are affected.)
/-- C02, driver level, aligned BOOL-array range: writing `32 * m` BOOLs (`m ≥ 1`) from element `32 * k` of a
    controller-scope BOOL array — a one-dimensional DWORD array tag of `dim` words, `k + m ≤ dim` — requested as
    `name[32k]{32m}` with a list of exactly `32 * m` bools, returns one error-free Tag named `name[32k]` carrying the
    caller's list and the type string `BOOL[32m]`. The driver sends ONE plain Write Tag of `m` DWORDs at `name[k]`
    (one frame, one sequence number; the window arithmetic of `K.bool_write_aligned`), and the controller's project
    afterwards is `written st.proj loc (k * 4) bytes` for the location `loc` of word `k`, where `bytes` are `m * 4`
    bytes whose DWORD `j` has bit `b` equal to bool `32 * j + b` of the list: only the words `k … k + m - 1` change —
    to the packed bools —, every other byte of the symbol and every other symbol are unchanged, one write-log entry
    `(instance, k * 4, m * 4)` is appended (`write_atomic_elements_effect` with type code 0xD3, `sz = 4`, `i = k`,
    `n = m`).

    Hypotheses as in `read_bool_array_element_e2e` (`hw` … `hinfo`), and
    * `hm`, `hkm`   at least one word, inside the array;
    * `hm16`      the BOOL count `32 * m` fits the 16-bit element count of the request string;
    * `hkm16`     `k + m ≤ 65535`: the driver's parser computes the number of words from word 0 up to the last
                  addressed one and rejects the request ("Array index out of range") when that exceeds 65535;
    * `hl`, `henc`  the list has exactly `32 * m` bools and `bytes` is the codec's encoding of them as 32-bit strings;
    * `hC`, `hT`  the value (counted twice by the single-request path) and the small request fit the connection. -/
theorem write_bool_array_aligned_e2e (cfg : Cfg) (w : Cli.World Ext) (sess : Nat) (cidb : Bytes) (conn : Conn)
    (st : LState) (s : Symbol) (info : TagInfo) (dim k m : Nat) (bools : List Bool) (bytes : Bytes)
    (hw : ldr_Healthy w sess cidb conn) (hlogix : w.net.target.ext.logix = some st)
    (hs : s ∈ st.proj.controller)
    (hbytes : ∀ s' ∈ st.proj.controller, ∀ ch ∈ s'.name, ch < 256)
    (huniqN : ∀ s' ∈ st.proj.controller, s'.name = s.name → s' = s)
    (huniqI : ∀ s' ∈ st.proj.controller, s'.inst = s.inst → s' = s)
    (hid : PlainIdent s.name) (hinst : s.inst < 2 ^ 32)
    (hty : elTyOfWord s.symbolType = .atomic 0xD3)
    (hdims : s.dims.filter (· != 0) = [dim]) (hlen : s.mem.length = dim * 4)
    (hget : cfg.tags.get? s.name = some info)
    (hinfo : ldr_InfoOf info (Drv.nm "DWORD") (.arr (.fixed dim) (.bits .udint)) s.inst)
    (hm : 1 ≤ m) (hkm : k + m ≤ dim) (hm16 : 32 * m ≤ 65535) (hkm16 : k + m ≤ 65535)
    (hl : bools.length = 32 * m)
    (henc : encode (.arr (.fixed (32 * m)) (.bits .udint)) (.list (bools.map PyVal.bool)) = .ok bytes)
    (hC : 2 * (m * 4) + s.name.length + 26 ≤ w.drv.connectionSize)
    (hT : m * 4 + s.name.length + 26 ≤ conn.size) :
    ∃ w' frm, write hookAll cfg w
        [(s.name ++ [91] ++ decRender (32 * k) ++ [93] ++ [123] ++ decRender (32 * m) ++ [125], .list (bools.map PyVal.bool))] =
        (w', .ok [{ tag := s.name ++ [91] ++ decRender (32 * k) ++ [93], value := .list (bools.map PyVal.bool),
                    type := some (Drv.nm "BOOL[" ++ renderDec ((32 * m : Nat) : Int) ++ [93]), error := none }]) ∧
      w'.drv = w.drv.nextSeq.2 ∧ w'.net.sent = w.net.sent ++ [frm] ∧
      w'.net.target.ext =
        { w.net.target.ext with
          logix := some { st with proj := written st.proj (ldr2_locAt s 0xD3 4 k dim) (k * 4) bytes } } ∧
      bytes.length = m * 4 ∧
      (∀ j b, j < m → b < 32 → (leVal ((bytes.drop (4 * j)).take 4)).testBit b = bools.getD (32 * j + b) false) ∧
      ldr_Healthy w' sess cidb { conn with lastSeq := some w.drv.nextSeq.1 } := by
  obtain ⟨hbl, hbits⟩ := ldw2_encode_bits m bools bytes hl henc
  obtain ⟨w', frm, h1, h2, h3, h4, h5⟩ := ldw2_write_bools cfg w sess cidb conn st s info dim k m bools bytes hw hlogix hs
    hbytes huniqN huniqI hid hinst hty hdims hlen hget hinfo hm hkm hm16 hkm16 hl henc hC hT
  rw [ldr2_tagStr_slice, ldr2_renderLevel_elem] at h1
  rw [← ldw2_written_eq st.proj s (ldr2_locAt s 0xD3 4 k dim) (k * 4) bytes rfl rfl] at h4
  exact ⟨w', frm, h1, h2, h3, h4, hbl, hbits, h5⟩

/-- C02, what the project after `write_two_tags_e2e` is: the old project with the memory of `a` replaced by `ba` and
    the memory of `b` replaced by `bb`; templates, program scopes, the number and order of the controller-scope
    symbols are unchanged, every other controller-scope symbol is unchanged byte for byte, and the write log grew
    by exactly TWO entries, one per requested write, in request order: each write was applied exactly once. -/
theorem write_two_tags_effect (p : Project) (sa sb : Symbol) (ca cb : Nat) (ba bb : Bytes)
    (hsa : sa ∈ p.controller) (hsb : sb ∈ p.controller) (hne : sb.inst ≠ sa.inst)
    (huniqIa : ∀ s' ∈ p.controller, s'.inst = sa.inst → s' = sa)
    (huniqIb : ∀ s' ∈ p.controller, s'.inst = sb.inst → s' = sb)
    (hla : ba.length = sa.mem.length) (hlb : bb.length = sb.mem.length) :
    written (written p (ldr_loc sa ca) 0 ba) (ldr_loc sb cb) 0 bb = ldw_proj (ldw_proj p sa ba) sb bb ∧
    (ldw_proj (ldw_proj p sa ba) sb bb).templates = p.templates ∧
    (ldw_proj (ldw_proj p sa ba) sb bb).programs = p.programs ∧
    (ldw_proj (ldw_proj p sa ba) sb bb).controller.length = p.controller.length ∧
    (∀ (i : Nat) (x : Symbol), p.controller[i]? = some x →
        (ldw_proj (ldw_proj p sa ba) sb bb).controller[i]? =
          some (if x.inst = sa.inst then { sa with mem := ba } else if x.inst = sb.inst then { sb with mem := bb } else x) ∧
        (x.inst = sa.inst → x = sa) ∧ (x.inst = sb.inst → x = sb)) ∧
    (ldw_proj (ldw_proj p sa ba) sb bb).writeLog = p.writeLog ++ [(sa.inst, 0, ba.length), (sb.inst, 0, bb.length)] := by
  refine ⟨?_, rfl, rfl, ?_, ?_, ?_⟩
  · rw [ldw_written_eq p sa ca ba hsa huniqIa hla]
    exact ldw_written_eq (ldw_proj p sa ba) sb cb bb (ldw2_mem_ctl_other p.controller sa.inst ba sb hsb hne)
      (ldw2_ctl_uniqI_other p.controller sa.inst ba sb hne huniqIb) hlb
  · simp [ldw_proj, ldw_ctl]
  · intro i x hx
    have hmem : x ∈ p.controller := List.mem_of_getElem? hx
    refine ⟨?_, huniqIa x hmem, huniqIb x hmem⟩
    show (ldw_ctl (ldw_ctl p.controller sa.inst ba) sb.inst bb)[i]? = _
    unfold ldw_ctl
    rw [List.getElem?_map, List.getElem?_map, hx, Option.map_some, Option.map_some]
    by_cases h1 : x.inst = sa.inst
    · have hxa : x = sa := huniqIa x hmem h1
      subst hxa
      have h2 : ¬ (x.inst = sb.inst) := fun e => hne e.symm
      simp [ldw_sym, h2]
    · by_cases h2 : x.inst = sb.inst
      · have hxb : x = sb := huniqIb x hmem h2
        subst hxb
        simp [ldw_sym, h1]
      · simp [h1, h2]
  · show (p.writeLog ++ [(sa.inst, 0, ba.length)]) ++ [(sb.inst, 0, bb.length)] = _
    simp

/-- C02 (and C03), driver level, two tags in one call: `write((a, va), (b, vb))` of two DISTINCT controller-scope
    elementary (non-bit-string) scalar tags with canonical values on a healthy connected driver that is not a Micro800
    returns the two error-free Tags in the order of the request, each with its name, the caller's value and the type
    name. Both writes travel in ONE Multiple Service Packet (one frame written); three sequence numbers are drawn
    (one per embedded Write Tag packet, one for the multi-service packet); the controller's project afterwards is
    `written (written st.proj loc_a 0 ba) loc_b 0 bb`: both memories hold the encodings, every other symbol is
    unchanged, and the write log grew by exactly two entries — each requested write applied exactly once, in request
    order (`write_two_tags_effect`); the resulting world is healthy again.

    Hypotheses: for each of the two symbols those of `write_atomic_scalar_e2e` (suffix `a` / `b`); `hne`: the two tags
    are different symbols; `hmicro`: the multi-service path is taken only when the driver is not a Micro800; `hC`,
    `hT`: both requests and the multi-service overhead fit the connection (`name lengths + 66` bytes suffice). -/
theorem write_two_tags_e2e (cfg : Cfg) (w : Cli.World Ext) (sess : Nat) (cidb : Bytes) (conn : Conn) (st : LState)
    (sa sb : Symbol) (ia ib : TagInfo) (ca cb sza szb : Nat) (na nb : Name) (ta tb : Ty) (va vb : PyVal) (ba bb : Bytes)
    (hw : ldr_Healthy w sess cidb conn) (hlogix : w.net.target.ext.logix = some st) (hmicro : cfg.micro800 = false)
    (hbytes : ∀ s' ∈ st.proj.controller, ∀ ch ∈ s'.name, ch < 256)
    (hsa : sa ∈ st.proj.controller) (hsb : sb ∈ st.proj.controller) (hne : sb.inst ≠ sa.inst)
    (huniqNa : ∀ s' ∈ st.proj.controller, s'.name = sa.name → s' = sa)
    (huniqNb : ∀ s' ∈ st.proj.controller, s'.name = sb.name → s' = sb)
    (huniqIa : ∀ s' ∈ st.proj.controller, s'.inst = sa.inst → s' = sa)
    (huniqIb : ∀ s' ∈ st.proj.controller, s'.inst = sb.inst → s' = sb)
    (hida : PlainIdent sa.name) (hidb : PlainIdent sb.name) (hinsta : sa.inst < 2 ^ 32) (hinstb : sb.inst < 2 ^ 32)
    (htya : elTyOfWord sa.symbolType = .atomic ca) (htyb : elTyOfWord sb.symbolType = .atomic cb)
    (hata : atomicOfCode ca = some (na, ta)) (hatb : atomicOfCode cb = some (nb, tb))
    (hba : ta.isBits = none) (hbb : tb.isBits = none)
    (hsza : atomicSize ca = some sza) (hszb : atomicSize cb = some szb)
    (hlena : sa.mem.length = sza) (hlenb : sb.mem.length = szb)
    (hgeta : cfg.tags.get? sa.name = some ia) (hgetb : cfg.tags.get? sb.name = some ib)
    (hinfoa : ldr_InfoOf ia na ta sa.inst) (hinfob : ldr_InfoOf ib nb tb sb.inst)
    (hcanona : Canon ta va) (hcanonb : Canon tb vb)
    (henca : encode ta va = .ok ba) (hencb : encode tb vb = .ok bb)
    (hC : sa.name.length + sb.name.length + 66 ≤ w.drv.connectionSize)
    (hT : sa.name.length + sb.name.length + 66 ≤ conn.size) :
    ∃ w' frm, write hookAll cfg w [(sa.name, va), (sb.name, vb)] =
        (w', .ok [{ tag := sa.name, value := va, type := some na, error := none },
                  { tag := sb.name, value := vb, type := some nb, error := none }]) ∧
      w'.drv = w.drv.nextSeq.2.nextSeq.2.nextSeq.2 ∧ w'.net.sent = w.net.sent ++ [frm] ∧
      w'.net.target.ext =
        { w.net.target.ext with
          logix := some { st with proj := written (written st.proj (ldr_loc sa ca) 0 ba) (ldr_loc sb cb) 0 bb } } ∧
      ba.length = sza ∧ bb.length = szb ∧
      ldr_Healthy w' sess cidb { conn with lastSeq := some w.drv.nextSeq.2.nextSeq.2.nextSeq.1 } := by
  obtain ⟨hatya, _, _, _, _⟩ := ldr_atomic_table ca sza na ta hata hba hsza
  obtain ⟨hatyb, _, _, _, _⟩ := ldr_atomic_table cb szb nb tb hatb hbb hszb
  have hbla : ba.length = sza := ldw_encode_length ca sza ta va ba hatya hba hsza hcanona henca
  have hblb : bb.length = szb := ldw_encode_length cb szb tb vb bb hatyb hbb hszb hcanonb hencb
  obtain ⟨w', frm, h1, h2, h3, h4, h5⟩ := ldw2_write_two cfg w sess cidb conn st sa sb ia ib ca cb sza szb na nb ta tb va vb
    ba bb hw hlogix hmicro hbytes hsa hsb hne huniqNa huniqNb huniqIa huniqIb hida hidb hinsta hinstb htya htyb hata hatb hba
    hbb hsza hszb hlena hlenb hgeta hgetb hinfoa hinfob hcanona hcanonb henca hencb hC hT
  rw [← (write_two_tags_effect st.proj sa sb ca cb ba bb hsa hsb hne huniqIa huniqIb (by omega) (by omega)).1] at h4
  exact ⟨w', frm, h1, h2, h3, h4, hbla, hblb, h5⟩

/-- C02, what the project `ldw2_projFrag p s off bytes frags` after a fragmented write is: exactly the project after
    the same bytes written in one piece (`ldw2_proj`, described by `write_atomic_elements_effect`: the value
    spliced in ONCE at `[off, off + |bytes|)`, nothing else changed) except for the write log, which shows one entry
    per segment `(instance, off + segment offset, segment length)` instead of one for the whole value -/
theorem write_fragmented_effect (p : Project) (s : Symbol) (off : Nat) (bytes : Bytes) (frags : List (Nat × Bytes)) :
    (ldw2_projFrag p s off bytes frags).templates = (ldw2_proj p s off bytes).templates ∧
    (ldw2_projFrag p s off bytes frags).programs = (ldw2_proj p s off bytes).programs ∧
    (ldw2_projFrag p s off bytes frags).controller = (ldw2_proj p s off bytes).controller ∧
    (ldw2_projFrag p s off bytes frags).pageSchedule = p.pageSchedule ∧
    (ldw2_projFrag p s off bytes frags).tmplSchedule = p.tmplSchedule ∧
    (ldw2_projFrag p s off bytes frags).readSchedule = p.readSchedule ∧
    (ldw2_projFrag p s off bytes frags).writeLog = p.writeLog ++ frags.map (fun f => (s.inst, off + f.1, f.2.length)) :=
  ⟨rfl, rfl, rfl, rfl, rfl, rfl, rfl⟩

/-- C02 (and C04), driver level, a slice too large for one packet: writing `n` elements from element `i` of a
    controller-scope one-dimensional array of an elementary type, requested as `name[i]{n}` with a list of exactly `n`
    canonical values, when the encoded value does not pass the size test of the single-request path
    (`len(value) + len(request.message) > connection size`; `hfrag`: `2·n·size + 7 > connection size` suffices): the
    value goes out as Write Tag Fragmented requests, one frame per segment of
    `K.writeFragments (connection size − (path length + 11)) bytes` — the segments are non-empty, at most the segment
    size, their byte offsets are the running sums of the lengths before them (contiguous, non-overlapping, starting
    at 0) and together they are exactly the value —, every segment is accepted, and `write` returns one error-free Tag
    named `name[i]` carrying the caller's list and the type string `T[n]`. The controller's project afterwards is
    `ldw2_projFrag st.proj s (i * sz) bytes segments`: the value spliced in ONCE at the bytes of elements
    `i … i + n - 1`, nothing else changed, and the write log shows the tiling, one entry per segment
    (`write_fragmented_effect`, `write_atomic_elements_effect`). `2 + number of segments` sequence numbers are drawn
    (the driver state is unchanged but for the sequence counter); the resulting world is healthy again.

    `path` is the request path of `name[i]` (`requestPathOf`; at most `name length + 19` bytes).
    Hypotheses: those of `write_atomic_slice_e2e` up to `henc`, and
    * `hfrag`     the value is too large for the single-request path;
    * `hC1`       the connection leaves room for at least one value byte per segment (`name length + 31` suffices);
    * `hCT`, `hC16`  the driver's connection size is at most the size the target granted and at most 65400. -/
theorem write_fragmented_e2e (cfg : Cfg) (w : Cli.World Ext) (sess : Nat) (cidb : Bytes) (conn : Conn)
    (st : LState) (s : Symbol) (info : TagInfo) (c sz dim i n : Nat) (name : Name) (t : Ty) (vs : List PyVal) (bytes : Bytes)
    (hw : ldr_Healthy w sess cidb conn) (hlogix : w.net.target.ext.logix = some st)
    (hs : s ∈ st.proj.controller)
    (hbytes : ∀ s' ∈ st.proj.controller, ∀ ch ∈ s'.name, ch < 256)
    (huniqN : ∀ s' ∈ st.proj.controller, s'.name = s.name → s' = s)
    (huniqI : ∀ s' ∈ st.proj.controller, s'.inst = s.inst → s' = s)
    (hid : PlainIdent s.name) (hinst : s.inst < 2 ^ 32)
    (hty : elTyOfWord s.symbolType = .atomic c) (hat : atomicOfCode c = some (name, t)) (hb : t.isBits = none)
    (hsz : atomicSize c = some sz)
    (hdims : s.dims.filter (· != 0) = [dim]) (hlen : s.mem.length = dim * sz)
    (hget : cfg.tags.get? s.name = some info) (hinfo : ldr_InfoOf info name (.arr (.fixed dim) t) s.inst)
    (hi32 : i < 2 ^ 32) (hn : 1 ≤ n) (hn16 : n ≤ 65535) (hin : i + n ≤ dim)
    (hvs : vs.length = n) (hcanon : ∀ x ∈ vs, Canon t x)
    (henc : encode (.arr (.fixed n) t) (.list vs) = .ok bytes)
    (hfrag : w.drv.connectionSize < 2 * (n * sz) + 7)
    (hC1 : s.name.length + 31 ≤ w.drv.connectionSize) (hCT : w.drv.connectionSize ≤ conn.size)
    (hC16 : w.drv.connectionSize ≤ 65400) :
    ∃ (w' : Cli.World Ext) (fs : List Bytes) (ls : Option Nat) (path : Bytes),
      requestPathOf cfg (s.name ++ [91] ++ decRender i ++ [93]) info = .ok path ∧ path.length ≤ s.name.length + 19 ∧
      write hookAll cfg w [(s.name ++ [91] ++ decRender i ++ [93] ++ [123] ++ decRender n ++ [125], .list vs)] =
        (w', .ok [{ tag := s.name ++ [91] ++ decRender i ++ [93], value := .list vs,
                    type := some (ldr2_typeStr name n), error := none }]) ∧
      w'.drv = { w.drv with seqVal := w'.drv.seqVal } ∧ w'.net.sent = w.net.sent ++ fs ∧
      fs.length = (K.writeFragments (ldw2_segSize w.drv.connectionSize path) bytes).length ∧
      w'.net.target.ext =
        { w.net.target.ext with
          logix := some { st with
            proj := ldw2_projFrag st.proj s (i * sz) bytes (K.writeFragments (ldw2_segSize w.drv.connectionSize path) bytes) } } ∧
      1 ≤ ldw2_segSize w.drv.connectionSize path ∧
      ((K.writeFragments (ldw2_segSize w.drv.connectionSize path) bytes).map (·.2)).flatten = bytes ∧
      (∀ f ∈ K.writeFragments (ldw2_segSize w.drv.connectionSize path) bytes,
        f.2 ≠ [] ∧ f.2.length ≤ ldw2_segSize w.drv.connectionSize path) ∧
      (∀ k (hk : k < (K.writeFragments (ldw2_segSize w.drv.connectionSize path) bytes).length),
        ((K.writeFragments (ldw2_segSize w.drv.connectionSize path) bytes)[k]).1 =
          (((K.writeFragments (ldw2_segSize w.drv.connectionSize path) bytes).take k).map (·.2.length)).sum) ∧
      bytes.length = n * sz ∧
      (∀ k (h : k < vs.length), encode t vs[k] = .ok ((bytes.drop (k * sz)).take sz)) ∧
      ldr_Healthy w' sess cidb { conn with lastSeq := ls } := by
  obtain ⟨haty, hentry, hndw, hpos, hle8⟩ := ldr_atomic_table c sz name t hat hb hsz
  have hel := ldw2_encode_arr_list t vs n bytes hb hvs henc
  rw [RT.encodeList_argOf_canon t vs hcanon] at hel
  obtain ⟨hbl, hchunks⟩ := ldw2_encodeList_chunks (encode t) sz vs bytes
    (fun x hx e he => ldw_encode_length c sz t x e haty hb hsz (hcanon x hx) he) hel
  rw [hvs] at hbl
  have hencv : encodeValue (ldw2_parsedArr s.name [i] (some n) info (.list vs)) info =
      (ldw2_parsedArr s.name [i] (some n) info (.list vs), some bytes) :=
    ldw2_encodeValue_slice _ info dim n t vs bytes (by rw [hinfo.typeName]; exact hndw) hinfo.ty rfl rfl hn rfl hvs henc
  obtain ⟨w', fs, ls, path, hpath, hpl, h1, h2, h3, h4, h5, h6⟩ := ldw2_write_array_frag cfg w sess cidb conn st s info c sz
    dim name t [i] i (some n) (.list vs) bytes (Or.inl rfl) hw hlogix hs hbytes huniqN huniqI hid hinst hty hat hb hsz hdims hlen
    hget hinfo hi32 hn hn16 hin hencv hbl hfrag hC1 hCT hC16
  rw [ldr2_tagStr_slice, ldr2_renderLevel_elem, Option.getD_some] at h1
  rw [ldr2_renderLevel_elem] at hpath
  have hsg : 1 ≤ ldw2_segSize w.drv.connectionSize path := by unfold ldw2_segSize; omega
  obtain ⟨t1, t2, t3⟩ := K.write_fragments_tile (ldw2_segSize w.drv.connectionSize path) hsg bytes
  refine ⟨w', fs, ls, path, hpath, hpl, h1, h2, h3, h4, h5, hsg, t1, t2, ?_, hbl, hchunks, h6⟩
  intro k hk
  rw [t3 k hk, K.fsum_eq]

/-- C02, driver level, read-back of a slice: `write(("name[i]{n}", vs))` followed by `read("name[i]{n}")` returns the
    written values (`ldr2_value vs`: the list for `n ≥ 2`, the element itself for `n = 1`, with type string `T[n]` /
    `T`). Hypotheses as in `write_atomic_slice_e2e` (its sizes cover the read request and its reply as well). The
    controller's project after both calls is the one after the write (`ldw2_proj`: the `n` elements' encodings
    spliced in, one write logged; its schedule counter advanced by the read); two frames were written. -/
theorem write_then_read_slice_e2e (cfg : Cfg) (w : Cli.World Ext) (sess : Nat) (cidb : Bytes) (conn : Conn)
    (st : LState) (s : Symbol) (info : TagInfo) (c sz dim i n : Nat) (name : Name) (t : Ty) (vs : List PyVal) (bytes : Bytes)
    (hw : ldr_Healthy w sess cidb conn) (hlogix : w.net.target.ext.logix = some st)
    (hs : s ∈ st.proj.controller)
    (hbytes : ∀ s' ∈ st.proj.controller, ∀ ch ∈ s'.name, ch < 256)
    (huniqN : ∀ s' ∈ st.proj.controller, s'.name = s.name → s' = s)
    (huniqI : ∀ s' ∈ st.proj.controller, s'.inst = s.inst → s' = s)
    (hid : PlainIdent s.name) (hinst : s.inst < 2 ^ 32)
    (hty : elTyOfWord s.symbolType = .atomic c) (hat : atomicOfCode c = some (name, t)) (hb : t.isBits = none)
    (hsz : atomicSize c = some sz)
    (hdims : s.dims.filter (· != 0) = [dim]) (hlen : s.mem.length = dim * sz)
    (hget : cfg.tags.get? s.name = some info) (hinfo : ldr_InfoOf info name (.arr (.fixed dim) t) s.inst)
    (hi32 : i < 2 ^ 32) (hn : 1 ≤ n) (hn16 : n ≤ 65535) (hin : i + n ≤ dim)
    (hvs : vs.length = n) (hcanon : ∀ x ∈ vs, Canon t x)
    (henc : encode (.arr (.fixed n) t) (.list vs) = .ok bytes) (hsmall : n * sz ≤ 64000)
    (hC : 2 * (n * sz) + s.name.length + 26 ≤ w.drv.connectionSize) (hT : n * sz + s.name.length + 26 ≤ conn.size) :
    ∃ w1 w2 frm1 frm2,
      write hookAll cfg w [(s.name ++ [91] ++ decRender i ++ [93] ++ [123] ++ decRender n ++ [125], .list vs)] =
        (w1, .ok [{ tag := s.name ++ [91] ++ decRender i ++ [93], value := .list vs,
                    type := some (ldr2_typeStr name n), error := none }]) ∧
      read hookAll cfg w1 [s.name ++ [91] ++ decRender i ++ [93] ++ [123] ++ decRender n ++ [125]] =
        (w2, .ok [{ tag := s.name ++ [91] ++ decRender i ++ [93], value := ldr2_value vs,
                    type := some (ldr2_typeStr name n), error := none }]) ∧
      w2.net.sent = w.net.sent ++ [frm1, frm2] ∧
      w2.net.target.ext =
        { w.net.target.ext with
          logix := some { st with proj := ldw2_proj st.proj s (i * sz) bytes, ctr := st.ctr + 1 } } ∧
      ldr_Healthy w2 sess cidb { conn with lastSeq := some w.drv.nextSeq.2.nextSeq.1 } := by
  obtain ⟨haty, _, _, _, _⟩ := ldr_atomic_table c sz name t hat hb hsz
  obtain ⟨w1, frm1, hwr, hd1, hsent1, hext1, hbl, hchunks, hh1⟩ := write_atomic_slice_e2e cfg w sess cidb conn st s info c sz
    dim i n name t vs bytes hw hlogix hs hbytes huniqN huniqI hid hinst hty hat hb hsz hdims hlen hget hinfo hi32 hn hn16 hin hvs
    hcanon henc hsmall hC hT
  rw [ldw2_written_eq st.proj s (ldr2_locAt s c sz i dim) (i * sz) bytes rfl rfl] at hext1
  have hlogix1 : w1.net.target.ext.logix = some { st with proj := ldw2_proj st.proj s (i * sz) bytes } := by rw [hext1]
  have hcs : w1.drv.connectionSize = w.drv.connectionSize := by rw [hd1, (Cli.lcs_nextSeq w.drv).2]
  have hfit : i * sz + bytes.length ≤ s.mem.length := by
    rw [hlen, hbl, ← Nat.add_mul]; exact Nat.mul_le_mul_right sz hin
  obtain ⟨w2, frm2, hrd, hd2, hsent2, hext2, hh2⟩ := read_atomic_slice_e2e cfg w1 sess cidb
    { conn with lastSeq := some w.drv.nextSeq.1 } { st with proj := ldw2_proj st.proj s (i * sz) bytes }
    (ldw2_sym s (i * sz) bytes) info c sz dim i n name t vs hh1 hlogix1
    (ldw2_mem_ctl st.proj.controller s (i * sz) bytes hs)
    (ldw2_ctl_bytes st.proj.controller s.inst (i * sz) bytes hbytes)
    (ldw2_ctl_uniqN st.proj.controller s (i * sz) bytes huniqN)
    (ldw2_ctl_uniqI st.proj.controller s (i * sz) bytes huniqI) hid hinst hty hat hb hsz hdims
    (by rw [← hlen]; exact (splice_frame s.mem bytes (i * sz) hfit).1) hget hinfo hi32 hn hn16 hin hvs
    (ldw2_decode_written c sz t s.mem bytes i vs haty hb hsz hcanon (by rw [hvs]; exact hbl) hfit hchunks)
    (by rw [hcs]; show n * sz + s.name.length + 26 ≤ _; omega) hT
  refine ⟨w1, w2, frm1, frm2, hwr, hrd, ?_, ?_, ?_⟩
  · rw [hsent2, hsent1, List.append_assoc]; rfl
  · rw [hext2, hext1]
  · rw [hd1] at hh2; exact hh2

/-- C02, driver level, read-back of one element: `write(("name[i]", v))` followed by `read("name[i]")` returns `v`.
    Hypotheses as in `write_atomic_element_e2e`, the sizes `name length + 2·size + 26` (driver) and
    `name length + 34` (target) cover both requests. -/
theorem write_then_read_element_e2e (cfg : Cfg) (w : Cli.World Ext) (sess : Nat) (cidb : Bytes) (conn : Conn)
    (st : LState) (s : Symbol) (info : TagInfo) (c sz dim i : Nat) (name : Name) (t : Ty) (v : PyVal) (bytes : Bytes)
    (hw : ldr_Healthy w sess cidb conn) (hlogix : w.net.target.ext.logix = some st)
    (hs : s ∈ st.proj.controller)
    (hbytes : ∀ s' ∈ st.proj.controller, ∀ ch ∈ s'.name, ch < 256)
    (huniqN : ∀ s' ∈ st.proj.controller, s'.name = s.name → s' = s)
    (huniqI : ∀ s' ∈ st.proj.controller, s'.inst = s.inst → s' = s)
    (hid : PlainIdent s.name) (hinst : s.inst < 2 ^ 32)
    (hty : elTyOfWord s.symbolType = .atomic c) (hat : atomicOfCode c = some (name, t)) (hb : t.isBits = none)
    (hsz : atomicSize c = some sz)
    (hdims : s.dims.filter (· != 0) = [dim]) (hlen : s.mem.length = dim * sz)
    (hget : cfg.tags.get? s.name = some info) (hinfo : ldr_InfoOf info name (.arr (.fixed dim) t) s.inst)
    (hi : i < dim) (hi32 : i < 2 ^ 32)
    (hcanon : Canon t v) (henc : encode t v = .ok bytes)
    (hC : s.name.length + 2 * sz + 34 ≤ w.drv.connectionSize) (hT : s.name.length + 34 ≤ conn.size) :
    ∃ w1 w2 frm1 frm2,
      write hookAll cfg w [(s.name ++ [91] ++ decRender i ++ [93], v)] =
        (w1, .ok [{ tag := s.name ++ [91] ++ decRender i ++ [93], value := v, type := some name, error := none }]) ∧
      read hookAll cfg w1 [s.name ++ [91] ++ decRender i ++ [93]] =
        (w2, .ok [{ tag := s.name ++ [91] ++ decRender i ++ [93], value := v, type := some name, error := none }]) ∧
      w2.net.sent = w.net.sent ++ [frm1, frm2] ∧
      w2.net.target.ext =
        { w.net.target.ext with
          logix := some { st with proj := ldw2_proj st.proj s (i * sz) bytes, ctr := st.ctr + 1 } } ∧
      ldr_Healthy w2 sess cidb { conn with lastSeq := some w.drv.nextSeq.2.nextSeq.1 } := by
  obtain ⟨haty, _, _, _, hle8⟩ := ldr_atomic_table c sz name t hat hb hsz
  obtain ⟨w1, frm1, hwr, hd1, hsent1, hext1, hbl, hh1⟩ := write_atomic_element_e2e cfg w sess cidb conn st s info c sz
    dim i name t v bytes hw hlogix hs hbytes huniqN huniqI hid hinst hty hat hb hsz hdims hlen hget hinfo hi hi32 hcanon henc
    (by omega) (by omega)
  rw [ldw2_written_eq st.proj s (ldr2_locAt s c sz i dim) (i * sz) bytes rfl rfl] at hext1
  have hlogix1 : w1.net.target.ext.logix = some { st with proj := ldw2_proj st.proj s (i * sz) bytes } := by rw [hext1]
  have hcs : w1.drv.connectionSize = w.drv.connectionSize := by rw [hd1, (Cli.lcs_nextSeq w.drv).2]
  have hfit : i * sz + bytes.length ≤ s.mem.length := by
    rw [hlen, hbl]
    have : (i + 1) * sz ≤ dim * sz := Nat.mul_le_mul_right sz hi
    rw [Nat.succ_mul] at this; exact this
  obtain ⟨rest, hdec⟩ := ldw2_decode_written c sz t s.mem bytes i [v] haty hb hsz
    (by intro x hx; simp only [List.mem_cons, List.not_mem_nil, or_false] at hx; rw [hx]; exact hcanon)
    (by simp [hbl]) hfit
    (by
      intro k hk
      have hk0 : k = 0 := by simpa using hk
      subst hk0
      simp only [List.getElem_cons_zero, Nat.zero_mul, List.drop_zero]
      rw [henc, ← hbl, List.take_length]) 0 (by simp)
  simp only [Nat.add_zero, List.getElem_cons_zero] at hdec
  obtain ⟨w2, frm2, hrd, hd2, hsent2, hext2, hh2⟩ := read_atomic_element_e2e cfg w1 sess cidb
    { conn with lastSeq := some w.drv.nextSeq.1 } { st with proj := ldw2_proj st.proj s (i * sz) bytes }
    (ldw2_sym s (i * sz) bytes) info c sz dim i name t v rest hh1 hlogix1
    (ldw2_mem_ctl st.proj.controller s (i * sz) bytes hs)
    (ldw2_ctl_bytes st.proj.controller s.inst (i * sz) bytes hbytes)
    (ldw2_ctl_uniqN st.proj.controller s (i * sz) bytes huniqN)
    (ldw2_ctl_uniqI st.proj.controller s (i * sz) bytes huniqI) hid hinst hty hat hb hsz hdims
    (by rw [← hlen]; exact (splice_frame s.mem bytes (i * sz) hfit).1) hget hinfo hi hi32 hdec
    (by rw [hcs]; show s.name.length + 34 ≤ _; omega) hT
  refine ⟨w1, w2, frm1, frm2, hwr, hrd, ?_, ?_, ?_⟩
  · rw [hsent2, hsent1, List.append_assoc]; rfl
  · rw [hext2, hext1]
  · rw [hd1] at hh2; exact hh2

/-! ### non-vacuity: all hypotheses instantiated on the concrete project and world of `LogixDriverRead2.Ex`
    (`abc : DINT`, `arr : DINT[4]`, `xyz : INT`, `bits : BOOL[64]`), and on a second world with a 50-byte connection
    and `big : DINT[16]` for the fragmented write -/

namespace Ex

/-- tags and outcome of a `write` call on `world2`: per Tag (name, type, error-free, truthy), then the memories of the
    controller-scope symbols, the write log, frames written and sequence numbers drawn -/
def wout (w0 : Cli.World Ext) (c : Cfg) (tvs : List (Name × PyVal)) :
    Option (List (Name × Option Name × Bool) × List Bytes × List (Nat × Nat × Nat) × Nat × Nat) :=
  match write hookAll c w0 tvs with
  | (w', .ok ts) =>
      w'.net.target.ext.logix.map fun (st' : LState) =>
        (ts.map fun t => (t.tag, t.type, t.error.isNone), st'.proj.controller.map (·.mem), st'.proj.writeLog,
         w'.net.sent.length - w0.net.sent.length, w'.drv.seqVal - w0.drv.seqVal)
  | _ => none

-- evaluation checks of the runs (interpreter)
#guard wout world2 cfg2 [(Drv.nm "arr[1]", .int 7)] ==
  some ([(Drv.nm "arr[1]", some (Drv.nm "DINT"), true)],
        [[42, 0, 0, 0], [1, 0, 0, 0, 7, 0, 0, 0, 255, 255, 255, 255, 4, 0, 0, 0], [5, 128], [5, 0, 0, 128, 1, 0, 0, 0]],
        [(9, 4, 4)], 1, 1)
#guard wout world2 cfg2 [(Drv.nm "arr[1]{2}", .list [.int 5, .int 6])] ==
  some ([(Drv.nm "arr[1]", some (Drv.nm "DINT[2]"), true)],
        [[42, 0, 0, 0], [1, 0, 0, 0, 5, 0, 0, 0, 6, 0, 0, 0, 4, 0, 0, 0], [5, 128], [5, 0, 0, 128, 1, 0, 0, 0]],
        [(9, 4, 8)], 1, 1)
-- observation: `{1}` with a one-element list writes one element; the type string is `DINT`
#guard wout world2 cfg2 [(Drv.nm "arr[3]{1}", .list [.int 9])] ==
  some ([(Drv.nm "arr[3]", some (Drv.nm "DINT"), true)],
        [[42, 0, 0, 0], [1, 0, 0, 0, 2, 0, 0, 0, 255, 255, 255, 255, 9, 0, 0, 0], [5, 128], [5, 0, 0, 128, 1, 0, 0, 0]],
        [(9, 12, 4)], 1, 1)
-- observation (not a theorem): a list LONGER than the element count is silently cut to the count (2 elements written)
#guard wout world2 cfg2 [(Drv.nm "arr[1]{2}", .list [.int 5, .int 6, .int 7])] ==
  some ([(Drv.nm "arr[1]", some (Drv.nm "DINT[2]"), true)],
        [[42, 0, 0, 0], [1, 0, 0, 0, 5, 0, 0, 0, 6, 0, 0, 0, 4, 0, 0, 0], [5, 128], [5, 0, 0, 128, 1, 0, 0, 0]],
        [(9, 4, 8)], 1, 1)
#guard wout world2 cfg2 [(Drv.nm "abc", .int 5), (Drv.nm "xyz", .int 6)] ==
  some ([(Drv.nm "abc", some (Drv.nm "DINT"), true), (Drv.nm "xyz", some (Drv.nm "INT"), true)],
        [[5, 0, 0, 0], [1, 0, 0, 0, 2, 0, 0, 0, 255, 255, 255, 255, 4, 0, 0, 0], [6, 0], [5, 0, 0, 128, 1, 0, 0, 0]],
        [(7, 0, 4), (11, 0, 2)], 1, 3)
-- observation: the same tag twice in one call is written twice, in request order (the last value stays)
#guard wout world2 cfg2 [(Drv.nm "abc", .int 5), (Drv.nm "abc", .int 6)] ==
  some ([(Drv.nm "abc", some (Drv.nm "DINT"), true), (Drv.nm "abc", some (Drv.nm "DINT"), true)],
        [[6, 0, 0, 0], [1, 0, 0, 0, 2, 0, 0, 0, 255, 255, 255, 255, 4, 0, 0, 0], [5, 128], [5, 0, 0, 128, 1, 0, 0, 0]],
        [(7, 0, 4), (7, 0, 4)], 1, 3)
#guard wout world2 cfg2 [(Drv.nm "bits[32]{32}", .list ((List.replicate 31 false ++ [true]).map PyVal.bool))] ==
  some ([(Drv.nm "bits[32]", some (Drv.nm "BOOL[32]"), true)],
        [[42, 0, 0, 0], [1, 0, 0, 0, 2, 0, 0, 0, 255, 255, 255, 255, 4, 0, 0, 0], [5, 128], [5, 0, 0, 128, 0, 0, 0, 128]],
        [(12, 4, 4)], 1, 1)

theorem arr1_str : symArr.name ++ [91] ++ decRender 1 ++ [93] = Drv.nm "arr[1]" := by
  rw [ldr2_decRender_small 1 (by omega)]; rfl

/-- every hypothesis of `write_atomic_element_e2e` holds for the concrete world: `write(("arr[1]", 7))` succeeds and the
    project afterwards is `written proj loc 4 [07 00 00 00]` -/
example : ∃ w' frm, write hookAll cfg2 world2 [(Drv.nm "arr[1]", .int 7)] =
      (w', .ok [{ tag := Drv.nm "arr[1]", value := .int 7, type := some (Drv.nm "DINT"), error := none }]) ∧
    w'.drv = world2.drv.nextSeq.2 ∧ w'.net.sent = world2.net.sent ++ [frm] ∧
    w'.net.target.ext =
      { world2.net.target.ext with
        logix := some { state2 with proj := written state2.proj (ldr2_locAt symArr 0xC4 4 1 4) (1 * 4) [7, 0, 0, 0] } } ∧
    ldr_Healthy w' 4097 [238, 255, 192, 0] { conn with lastSeq := some world2.drv.nextSeq.1 } := by
  obtain ⟨w', frm, h1, h2, h3, h4, _, h6⟩ := write_atomic_element_e2e cfg2 world2 4097 [238, 255, 192, 0] conn state2 symArr
      infoArr 0xC4 4 4 1 (Drv.nm "DINT") (.int .dint) (.int 7) [7, 0, 0, 0]
      healthy2 (by rfl) hsArr bytes2 (uniqN2 symArr hsArr) (uniqI2 symArr hsArr)
      ⟨by decide, by decide, by decide⟩ (by decide)
      (by decide) rfl rfl rfl                                    -- hty hat hb hsz
      (by decide) (by decide)                                    -- hdims hlen
      (by rfl) ⟨rfl, rfl, rfl, rfl, rfl⟩                         -- hget hinfo
      (by decide) (by decide)                                    -- hi hi32
      ⟨7, rfl, by decide, by decide⟩ (by rfl)                    -- hcanon henc
      (by decide +kernel) (by decide)                            -- hC hT
  rw [arr1_str] at h1
  exact ⟨w', frm, h1, h2, h3, h4, h6⟩

/-- the memory afterwards: only the bytes 4..7 of `arr` (element 1) changed, one write logged -/
example : written state2.proj (ldr2_locAt symArr 0xC4 4 1 4) (1 * 4) [7, 0, 0, 0] =
    { proj2 with
      controller := [sym, { symArr with mem := [1, 0, 0, 0, 7, 0, 0, 0, 0xFF, 0xFF, 0xFF, 0xFF, 4, 0, 0, 0] }, symXyz, symBits],
      writeLog := [(9, 4, 4)] } := rfl

/-- … of `write_atomic_slice_e2e`: `write(("arr[1]{2}", [5, 6]))` returns the list as `DINT[2]`, Tag name `arr[1]`, and
    writes the 8 bytes of elements 1 and 2 -/
example : ∃ w' frm, write hookAll cfg2 world2 [(Drv.nm "arr[1]{2}", .list [.int 5, .int 6])] =
      (w', .ok [{ tag := Drv.nm "arr[1]", value := .list [.int 5, .int 6], type := some (Drv.nm "DINT[2]"), error := none }]) ∧
    w'.drv = world2.drv.nextSeq.2 ∧ w'.net.sent = world2.net.sent ++ [frm] ∧
    w'.net.target.ext =
      { world2.net.target.ext with
        logix := some { state2 with
          proj := written state2.proj (ldr2_locAt symArr 0xC4 4 1 4) (1 * 4) [5, 0, 0, 0, 6, 0, 0, 0] } } ∧
    ldr_Healthy w' 4097 [238, 255, 192, 0] { conn with lastSeq := some world2.drv.nextSeq.1 } := by
  obtain ⟨w', frm, h1, h2, h3, h4, _, _, h7⟩ := write_atomic_slice_e2e cfg2 world2 4097 [238, 255, 192, 0] conn state2 symArr
      infoArr 0xC4 4 4 1 2 (Drv.nm "DINT") (.int .dint) [.int 5, .int 6] [5, 0, 0, 0, 6, 0, 0, 0]
      healthy2 (by rfl) hsArr bytes2 (uniqN2 symArr hsArr) (uniqI2 symArr hsArr)
      ⟨by decide, by decide, by decide⟩ (by decide)
      (by decide) rfl rfl rfl (by decide) (by decide) (by rfl) ⟨rfl, rfl, rfl, rfl, rfl⟩
      (by decide) (by decide) (by decide) (by decide) rfl        -- hi32 hn hn16 hin hvs
      (by intro x hx
          simp only [List.mem_cons, List.not_mem_nil, or_false] at hx
          rcases hx with rfl | rfl
          · exact ⟨5, rfl, by decide, by decide⟩
          · exact ⟨6, rfl, by decide, by decide⟩)
      (by rfl) (by decide)                                       -- henc hsmall
      (by decide +kernel) (by decide)
  rw [show symArr.name ++ [91] ++ decRender 1 ++ [93] ++ [123] ++ decRender 2 ++ [125] = Drv.nm "arr[1]{2}" from by
    rw [ldr2_decRender_small 1 (by omega)]; rw [ldr2_decRender_small 2 (by omega)]; rfl] at h1
  rw [arr1_str] at h1
  rw [show ldr2_typeStr (Drv.nm "DINT") 2 = Drv.nm "DINT[2]" from by decide] at h1
  exact ⟨w', frm, h1, h2, h3, h4, h7⟩

example : written state2.proj (ldr2_locAt symArr 0xC4 4 1 4) (1 * 4) [5, 0, 0, 0, 6, 0, 0, 0] =
    { proj2 with
      controller := [sym, { symArr with mem := [1, 0, 0, 0, 5, 0, 0, 0, 6, 0, 0, 0, 4, 0, 0, 0] }, symXyz, symBits],
      writeLog := [(9, 4, 8)] } := rfl

/-- … of `write_two_tags_e2e`: `write(("abc", 5), ("xyz", 6))` in one multi-service exchange -/
example : ∃ w' frm, write hookAll cfg2 world2 [(Drv.nm "abc", .int 5), (Drv.nm "xyz", .int 6)] =
      (w', .ok [{ tag := Drv.nm "abc", value := .int 5, type := some (Drv.nm "DINT"), error := none },
                { tag := Drv.nm "xyz", value := .int 6, type := some (Drv.nm "INT"), error := none }]) ∧
    w'.drv = world2.drv.nextSeq.2.nextSeq.2.nextSeq.2 ∧ w'.net.sent = world2.net.sent ++ [frm] ∧
    w'.net.target.ext =
      { world2.net.target.ext with
        logix := some { state2 with
          proj := written (written state2.proj (ldr_loc sym 0xC4) 0 [5, 0, 0, 0]) (ldr_loc symXyz 0xC3) 0 [6, 0] } } ∧
    ldr_Healthy w' 4097 [238, 255, 192, 0] { conn with lastSeq := some world2.drv.nextSeq.2.nextSeq.2.nextSeq.1 } := by
  obtain ⟨w', frm, h1, h2, h3, h4, _, _, h7⟩ := write_two_tags_e2e cfg2 world2 4097 [238, 255, 192, 0] conn state2 sym symXyz
    info infoXyz 0xC4 0xC3 4 2 (Drv.nm "DINT") (Drv.nm "INT") (.int .dint) (.int .int) (.int 5) (.int 6) [5, 0, 0, 0] [6, 0]
    healthy2 (by rfl) rfl bytes2 hsAbc hsXyz (by decide)
    (uniqN2 sym hsAbc) (uniqN2 symXyz hsXyz) (uniqI2 sym hsAbc) (uniqI2 symXyz hsXyz)
    ⟨by decide, by decide, by decide⟩ ⟨by decide, by decide, by decide⟩ (by decide) (by decide)
    (by decide) (by decide) rfl rfl rfl rfl rfl rfl rfl rfl          -- hty hat hb hsz hlen
    (by rfl) (by rfl) ⟨rfl, rfl, rfl, rfl, rfl⟩ ⟨rfl, rfl, rfl, rfl, rfl⟩
    ⟨5, rfl, by decide, by decide⟩ ⟨6, rfl, by decide, by decide⟩ (by rfl) (by rfl)
    (by decide +kernel) (by decide)
  exact ⟨w', frm, h1, h2, h3, h4, h7⟩

example : written (written state2.proj (ldr_loc sym 0xC4) 0 [5, 0, 0, 0]) (ldr_loc symXyz 0xC3) 0 [6, 0] =
    { proj2 with
      controller := [{ sym with mem := [5, 0, 0, 0] }, symArr, { symXyz with mem := [6, 0] }, symBits],
      writeLog := [(7, 0, 4), (11, 0, 2)] } := rfl

/-- … of `write_bool_array_aligned_e2e`: `write(("bits[32]{32}", [False]*31 + [True]))` writes the second DWORD
    (bytes 4..7) to 00 00 00 80 with one Write Tag of one DWORD at `bits[1]` -/
example : ∃ w' frm, write hookAll cfg2 world2
        [(Drv.nm "bits[32]{32}", .list ((List.replicate 31 false ++ [true]).map PyVal.bool))] =
      (w', .ok [{ tag := Drv.nm "bits[32]", value := .list ((List.replicate 31 false ++ [true]).map PyVal.bool),
                  type := some (Drv.nm "BOOL[32]"), error := none }]) ∧
    w'.drv = world2.drv.nextSeq.2 ∧ w'.net.sent = world2.net.sent ++ [frm] ∧
    w'.net.target.ext =
      { world2.net.target.ext with
        logix := some { state2 with proj := written state2.proj (ldr2_locAt symBits 0xD3 4 1 2) (1 * 4) [0, 0, 0, 0x80] } } ∧
    ldr_Healthy w' 4097 [238, 255, 192, 0] { conn with lastSeq := some world2.drv.nextSeq.1 } := by
  obtain ⟨w', frm, h1, h2, h3, h4, _, _, h7⟩ := write_bool_array_aligned_e2e cfg2 world2 4097 [238, 255, 192, 0] conn state2
      symBits infoBits 2 1 1 (List.replicate 31 false ++ [true]) [0, 0, 0, 0x80]
      healthy2 (by rfl) hsBits bytes2 (uniqN2 symBits hsBits) (uniqI2 symBits hsBits)
      ⟨by decide, by decide, by decide⟩ (by decide)
      (by decide) (by decide) (by decide)                        -- hty hdims hlen
      (by rfl) ⟨rfl, rfl, rfl, rfl, rfl⟩                         -- hget hinfo
      (by decide) (by decide) (by decide) (by decide)            -- hm hkm hm16 hkm16
      (by decide) (by rfl)                                       -- hl henc
      (by decide +kernel) (by decide)                            -- hC hT
  rw [show symBits.name ++ [91] ++ decRender (32 * 1) ++ [93] ++ [123] ++ decRender (32 * 1) ++ [125] = Drv.nm "bits[32]{32}" from by
    rw [ldr2_decRender_two (32 * 1) (by omega) (by omega)]; rfl] at h1
  rw [show symBits.name ++ [91] ++ decRender (32 * 1) ++ [93] = Drv.nm "bits[32]" from by
    rw [ldr2_decRender_two (32 * 1) (by omega) (by omega)]; rfl] at h1
  rw [show Drv.nm "BOOL[" ++ renderDec ((32 * 1 : Nat) : Int) ++ [93] = Drv.nm "BOOL[32]" from by decide] at h1
  exact ⟨w', frm, h1, h2, h3, h4, h7⟩

example : written state2.proj (ldr2_locAt symBits 0xD3 4 1 2) (1 * 4) [0, 0, 0, 0x80] =
    { proj2 with
      controller := [sym, symArr, symXyz, { symBits with mem := [0x05, 0, 0, 0x80, 0, 0, 0, 0x80] }],
      writeLog := [(12, 4, 4)] } := rfl

/-! #### the fragmented write: a second world with a 50-byte connection and `big : DINT[16]` -/

/-- `big : DINT[16]`, all zero -/
def symBig : Symbol :=
  { inst := 13, name := Drv.nm "big", symbolType := 0x20C4, dims := [16, 0, 0], attr3 := 0, attr5 := 0, attr6 := 2 ^ 26,
    access := 0, mem := List.replicate 64 0 }
def proj3 : Project := { templates := [], controller := [sym, symBig], programs := [] }
def state3 : LState := { proj := proj3 }
/-- the driver asks for a 50-byte connection -/
def world03 : Cli.World Ext :=
  { drv := { connectionSize := 50 }, net := { target := { base := base, ext := { logix := some state3 } } } }
/-- after `open()` and the Forward Open: the model is run; the target grants the 50 bytes -/
def world3 : Cli.World Ext :=
  (Cli.ensureForwardOpen hookAll Cli.FUEL (Cli.openDrv hookAll world03 [1, 2, 3, 4, 5, 6, 7, 8]).1).1
def cfg3 : Cfg := { tags := (tagDbOf proj3 false).getD [] }
def conn3 : Tgt.Conn := { conn with size := 50 }
def infoBig : TagInfo :=
  .mk { tagType := .atomic, dataTypeName := Drv.nm "DINT", ty := .arr (.fixed 16) (.int .dint), dim := 1,
        dimensions := [16, 0, 0], instanceId := some 13 } .nil
/-- the values 0 … 15 -/
def vs16 : List PyVal := (List.range 16).map fun k => PyVal.int (k : Nat)
/-- their encoding: 64 bytes -/
def bytes16 : Bytes := ((List.range 16).map fun k => [UInt8.ofNat k, 0, 0, 0]).flatten

#guard world3.drv.targetIsConnected && world3.drv.connectionSize == 50 && world3.net.target.base.conns == [conn3]
#guard (match encode (.arr (.fixed 16) (.int .dint)) (.list vs16) with | .ok b => b == bytes16 | _ => false)
-- 64 bytes on a 50-byte connection: two Write Tag Fragmented requests of 32 bytes each (two frames, two write-log
-- entries that tile the value), four sequence numbers
#guard wout world3 cfg3 [(Drv.nm "big[0]{16}", .list vs16)] ==
  some ([(Drv.nm "big[0]", some (Drv.nm "DINT[16]"), true)], [[42, 0, 0, 0], bytes16], [(13, 0, 32), (13, 32, 32)], 2, 4)

theorem healthy3 : ldr_Healthy world3 4097 [238, 255, 192, 0] conn3 :=
  ⟨by decide +kernel, by decide +kernel, by decide +kernel, by decide +kernel, by decide +kernel, by decide,
   by decide +kernel, by decide +kernel, by decide, by decide +kernel, by decide +kernel, by decide +kernel⟩

theorem mem_ctl3 (s' : Symbol) (h : s' ∈ proj3.controller) : s' = sym ∨ s' = symBig := by
  simpa [proj3] using h

theorem hsBig : symBig ∈ state3.proj.controller := by simp [state3, proj3]

/-- every hypothesis of `write_fragmented_e2e` holds for the concrete world: `write(("big[0]{16}", [0, …, 15]))` on the
    50-byte connection goes out in two 32-byte segments; afterwards `big` holds the 64 bytes and the write log shows
    the two segments at offsets 0 and 32 -/
example : ∃ (w' : Cli.World Ext) (fs : List Bytes) (ls : Option Nat),
    write hookAll cfg3 world3 [(Drv.nm "big[0]{16}", .list vs16)] =
      (w', .ok [{ tag := Drv.nm "big[0]", value := .list vs16, type := some (Drv.nm "DINT[16]"), error := none }]) ∧
    w'.drv = { world3.drv with seqVal := w'.drv.seqVal } ∧ w'.net.sent = world3.net.sent ++ fs ∧ fs.length = 2 ∧
    w'.net.target.ext =
      { world3.net.target.ext with
        logix := some { state3 with
          proj := { proj3 with controller := [sym, { symBig with mem := bytes16 }], writeLog := [(13, 0, 32), (13, 32, 32)] } } } ∧
    ldr_Healthy w' 4097 [238, 255, 192, 0] { conn3 with lastSeq := ls } := by
  obtain ⟨w', fs, ls, path, hpath, _, h1, h2, h3, h4, h5, _, _, _, _, _, _, h12⟩ :=
    write_fragmented_e2e cfg3 world3 4097 [238, 255, 192, 0] conn3 state3 symBig infoBig 0xC4 4 16 0 16 (Drv.nm "DINT")
      (.int .dint) vs16 bytes16
      healthy3 (by rfl) hsBig
      (fun s' h => by rcases mem_ctl3 s' h with rfl | rfl <;> decide)
      (fun s' h e => by rcases mem_ctl3 s' h with rfl | rfl <;> first | rfl | (exfalso; revert e; decide))
      (fun s' h e => by rcases mem_ctl3 s' h with rfl | rfl <;> first | rfl | (exfalso; revert e; decide))
      ⟨by decide, by decide, by decide⟩ (by decide)
      (by decide) rfl rfl rfl (by decide) (by decide) (by rfl) ⟨rfl, rfl, rfl, rfl, rfl⟩
      (by decide) (by decide) (by decide) (by decide) (by decide)       -- hi32 hn hn16 hin hvs
      (by intro x hx
          obtain ⟨k, hk, rfl⟩ := List.mem_map.1 hx
          have := List.mem_range.1 hk
          exact ⟨(k : Nat), rfl, by show (-2147483648 : Int) ≤ _; omega, by show _ ≤ (2147483647 : Int); omega⟩)
      (by rfl)                                                   -- henc
      (by decide +kernel) (by decide +kernel) (by decide +kernel) (by decide +kernel)   -- hfrag hC1 hCT hC16
  have hp : requestPathOf cfg3 (symBig.name ++ [91] ++ decRender 0 ++ [93]) infoBig = .ok [3, 0x20, 0x6B, 0x24, 13, 0x28, 0] := by
    rw [ldr2_decRender_small 0 (by omega)]; rfl
  rw [hp] at hpath
  cases hpath
  have hfr : K.writeFragments (ldw2_segSize world3.drv.connectionSize [3, 0x20, 0x6B, 0x24, 13, 0x28, 0]) bytes16 =
      [(0, bytes16.take 32), (32, bytes16.drop 32)] := by decide +kernel
  rw [hfr] at h4 h5
  rw [show symBig.name ++ [91] ++ decRender 0 ++ [93] ++ [123] ++ decRender 16 ++ [125] = Drv.nm "big[0]{16}" from by
    rw [ldr2_decRender_small 0 (by omega), ldr2_decRender_two 16 (by omega) (by omega)]; rfl] at h1
  rw [show symBig.name ++ [91] ++ decRender 0 ++ [93] = Drv.nm "big[0]" from by
    rw [ldr2_decRender_small 0 (by omega)]; rfl] at h1
  rw [show ldr2_typeStr (Drv.nm "DINT") 16 = Drv.nm "DINT[16]" from by decide] at h1
  exact ⟨w', fs, ls, h1, h2, h3, h4, h5, h12⟩

/-- … of `write_then_read_slice_e2e`: the following `read("arr[1]{2}")` returns [5, 6] -/
example : ∃ w1 w2 frm1 frm2,
    write hookAll cfg2 world2 [(Drv.nm "arr[1]{2}", .list [.int 5, .int 6])] =
      (w1, .ok [{ tag := Drv.nm "arr[1]", value := .list [.int 5, .int 6], type := some (Drv.nm "DINT[2]"), error := none }]) ∧
    read hookAll cfg2 w1 [Drv.nm "arr[1]{2}"] =
      (w2, .ok [{ tag := Drv.nm "arr[1]", value := .list [.int 5, .int 6], type := some (Drv.nm "DINT[2]"), error := none }]) ∧
    w2.net.sent = world2.net.sent ++ [frm1, frm2] := by
  obtain ⟨w1, w2, frm1, frm2, h1, h2, h3, _, _⟩ := write_then_read_slice_e2e cfg2 world2 4097 [238, 255, 192, 0] conn state2
      symArr infoArr 0xC4 4 4 1 2 (Drv.nm "DINT") (.int .dint) [.int 5, .int 6] [5, 0, 0, 0, 6, 0, 0, 0]
      healthy2 (by rfl) hsArr bytes2 (uniqN2 symArr hsArr) (uniqI2 symArr hsArr)
      ⟨by decide, by decide, by decide⟩ (by decide)
      (by decide) rfl rfl rfl (by decide) (by decide) (by rfl) ⟨rfl, rfl, rfl, rfl, rfl⟩
      (by decide) (by decide) (by decide) (by decide) rfl
      (by intro x hx
          simp only [List.mem_cons, List.not_mem_nil, or_false] at hx
          rcases hx with rfl | rfl
          · exact ⟨5, rfl, by decide, by decide⟩
          · exact ⟨6, rfl, by decide, by decide⟩)
      (by rfl) (by decide) (by decide +kernel) (by decide)
  have e1 : symArr.name ++ [91] ++ decRender 1 ++ [93] ++ [123] ++ decRender 2 ++ [125] = Drv.nm "arr[1]{2}" := by
    rw [ldr2_decRender_small 1 (by omega)]; rw [ldr2_decRender_small 2 (by omega)]; rfl
  rw [e1, arr1_str, show ldr2_typeStr (Drv.nm "DINT") 2 = Drv.nm "DINT[2]" from by decide] at h1 h2
  rw [show ldr2_value [PyVal.int 5, PyVal.int 6] = .list [.int 5, .int 6] from rfl] at h2
  exact ⟨w1, w2, frm1, frm2, h1, h2, h3⟩

/-- … and of `write_atomic_element_e2e_db`, with the tag database computed from the project -/
example : ∃ w' frm, write hookAll cfg2 world2 [(Drv.nm "arr[1]", .int 7)] =
      (w', .ok [{ tag := Drv.nm "arr[1]", value := .int 7, type := some (Drv.nm "DINT"), error := none }]) ∧
    w'.net.sent = world2.net.sent ++ [frm] := by
  obtain ⟨w', frm, h1, _, h3, _⟩ := write_atomic_element_e2e_db cfg2 world2 4097 [238, 255, 192, 0] conn state2 symArr 4 4 1
      (Drv.nm "DINT") (.int .dint) (.int 7) [7, 0, 0, 0] false
      healthy2 (by rfl) hsArr bytes2 (uniqN2 symArr hsArr) (uniqI2 symArr hsArr)
      ⟨by decide, by decide, by decide⟩ (by decide)
      (by decide) (by decide) rfl rfl rfl rfl rfl                -- hstruct hd1 hat hb hsz hdims hlen
      (by decide) (by rfl)                                       -- hkeep hdb
      (by decide) (by decide) ⟨7, rfl, by decide, by decide⟩ (by rfl) (by decide +kernel) (by decide)
  rw [arr1_str] at h1
  exact ⟨w', frm, h1, h3⟩

/-! #### the size hypotheses: counterexamples to the natural statements (STATEMENT CHANGED above) -/

/-- the world with a `c`-byte connection (driver and target) -/
def world3c (c : Nat) : Cli.World Ext :=
  (Cli.ensureForwardOpen hookAll Cli.FUEL
    (Cli.openDrv hookAll { world03 with drv := { connectionSize := c } } [1, 2, 3, 4, 5, 6, 7, 8]).1).1

-- the Write Tag request for `big[0]{16}` is 78 bytes long (sequence count included): it fits a 79-byte connection,
-- yet the value goes out in two fragments of 61 + 3 bytes (not element-aligned), two log entries, four sequence numbers
#guard wout (world3c 79) cfg3 [(Drv.nm "big[0]{16}", .list vs16)] ==
  some ([(Drv.nm "big[0]", some (Drv.nm "DINT[16]"), true)], [[42, 0, 0, 0], bytes16], [(13, 0, 61), (13, 61, 3)], 2, 4)
-- up to 141 bytes the fragmented service is used (one segment, three sequence numbers) …
#guard wout (world3c 141) cfg3 [(Drv.nm "big[0]{16}", .list vs16)] ==
  some ([(Drv.nm "big[0]", some (Drv.nm "DINT[16]"), true)], [[42, 0, 0, 0], bytes16], [(13, 0, 64)], 1, 3)
-- … and from 142 = 2·64 + 14 bytes on the plain Write Tag request
#guard wout (world3c 142) cfg3 [(Drv.nm "big[0]{16}", .list vs16)] ==
  some ([(Drv.nm "big[0]", some (Drv.nm "DINT[16]"), true)], [[42, 0, 0, 0], bytes16], [(13, 0, 64)], 1, 1)
-- `hkm16`: one DWORD at word 65535 of a BOOL array is refused by the request parser (k + m = 65536) …
#guard (parseTagRequest cfg2.tags true 0 (Drv.nm "bits[2097120]{32}")).error ==
  some (.text (Drv.nm "Array index out of range: 2097120"))
-- … while word 65534 is accepted (k + m = 65535; the request then carries 65535 elements until `encode_value` cuts
-- them down to the one word written)
#guard (parseTagRequest cfg2.tags true 0 (Drv.nm "bits[2097088]{32}")).error.isNone &&
  (parseTagRequest cfg2.tags true 0 (Drv.nm "bits[2097088]{32}")).elements == 65535

end Ex

end Pycomm.Lgx.Drv
