/-
  Helper lemmas for the Logix bit-level kernel proofs: truncated little-endian masks, DWORD bit lists,
  fixed-width chunk tables, prefix sums over concatenated messages.
-/
import PycommModel.Logix.Kernels
import PycommProofs.ENBasic
namespace Pycomm.LB
open Pycomm Pycomm.Lgx Pycomm.Lgx.K

/-! ### little-endian bytes, truncated -/

theorem leBytes_take (k w m : Nat) (h : w ≤ k) : (leBytes k m).take w = leBytes w m := by
  induction w generalizing k m with
  | zero => simp [leBytes]
  | succ w ih =>
    cases k with
    | zero => omega
    | succ k => simp [leBytes, ih k (m / 256) (by omega)]

theorem leVal_leBytes_mod (w m : Nat) : leVal (leBytes w m) = m % 256 ^ w := by
  induction w generalizing m with
  | zero => simp [leBytes, leVal, Nat.mod_one]
  | succ w ih =>
    simp only [leBytes, leVal, EN.toNat_ofNat, ih]
    rw [Nat.pow_succ, Nat.mul_comm (256 ^ w) 256, Nat.mod_mul, Nat.mod_mod]

theorem pow_256 (w : Nat) : 256 ^ w = 2 ^ (8 * w) := by
  rw [Nat.pow_mul]

theorem leVal_maskBytes (w m : Nat) (hw : w ≤ 8) : leVal (maskBytes w m) = m % 2 ^ (8 * w) := by
  rw [maskBytes, leBytes_take 8 w m hw, leVal_leBytes_mod, pow_256]

theorem allOnes_testBit (w i : Nat) : (2 ^ w - 1).testBit i = decide (i < w) :=
  Nat.testBit_two_pow_sub_one w i

theorem one_shl_testBit (b i : Nat) : (1 <<< b).testBit i = decide (i = b) := by
  rw [Nat.one_shiftLeft, Nat.testBit_two_pow]; simp [eq_comm]

/-! ### the bits of a DWORD list -/

theorem dwordBits_cons (w : Nat) (ws : List Nat) :
    dwordBits (w :: ws) = (List.range 32).map (fun i => w.testBit i) ++ dwordBits ws := by
  simp [dwordBits]

/-- the k-th bit of the list is bit k%32 of DWORD k/32 (both sides are `false` past the end) -/
theorem dwordBits_getElem? (ws : List Nat) (k : Nat) :
    (dwordBits ws)[k]?.getD false = (ws.getD (k / 32) 0).testBit (k % 32) := by
  induction ws generalizing k with
  | nil => simp [dwordBits]
  | cons w ws ih =>
    rw [dwordBits_cons]
    by_cases hk : k < 32
    · rw [List.getElem?_append_left (by simpa using hk)]
      have h0 : k / 32 = 0 := by omega
      have h1 : k % 32 = k := by omega
      simp [h0, h1, hk]
    · rw [List.getElem?_append_right (by simp; omega)]
      have h0 : k / 32 = (k - 32) / 32 + 1 := by omega
      have h1 : k % 32 = (k - 32) % 32 := by omega
      simp only [List.length_map, List.length_range]
      rw [ih (k - 32), h0, h1]
      simp

end Pycomm.LB
