/-
  Proofs for C10 (connection lifecycle is safe under any call history and failure point):
  invariants of the client model ‖ reference target over ALL histories, fault plans and target policies.
-/
import PycommModel.Client
import PycommProofs.EncapProofs
namespace Pycomm.Cli
open Pycomm.Tgt Pycomm.Encap Pycomm.Path

/-- the public calls of the connection lifecycle -/
inductive Call where
  | open (rnd : Bytes)
  | close
  | generic (a : GenArgs)

/-- result classes -/
inductive Outcome where
  | ok
  | raised (e : Exn)

/-- one call against the world -/
def call {σ} (hook : ObjHook σ) (w : World σ) : Call → World σ × Outcome
  | .open rnd => match openDrv hook w rnd with
      | (w', .ok _) => (w', .ok)
      | (w', .error e) => (w', .raised e)
  | .close => match closeDrv hook w with
      | (w', .ok _) => (w', .ok)
      | (w', .error e) => (w', .raised e)
  | .generic a => match genericMessage hook FUEL w a with
      | (w', .ok _) => (w', .ok)
      | (w', .error e) => (w', .raised e)

def run {σ} (hook : ObjHook σ) (w : World σ) : List Call → World σ
  | [] => w
  | c :: cs => run hook (call hook w c).1 cs

/-- a fresh driver in front of a target that holds no sessions or connections yet -/
def Fresh {σ} (w : World σ) : Prop :=
  w.drv.hasSock = false ∧ w.drv.session = some 0 ∧ w.drv.connectionOpened = false ∧ w.drv.targetIsConnected = false ∧
  w.drv.targetCid = none ∧ w.drv.extendedFo = true ∧ w.drv.connectionSize = 4000 ∧ w.drv.context.length = 8 ∧
  w.drv.option = 0 ∧
  w.net.target.base.sessions = [] ∧ w.net.target.base.conns = [] ∧ w.net.target.base.log = [] ∧
  w.net.pending = [] ∧ w.net.sent = [] ∧ w.net.tcpOpen = false ∧
  0 < w.net.target.base.nextSession ∧ w.net.target.base.nextSession < 2 ^ 32 ∧ w.net.target.base.nextCid < 2 ^ 32

/-- the target never had to reject a connected message for lack of a session / open connection -/
def NoEarlyUnitData (log : List Event) : Prop :=
  ∀ e ∈ log, e ≠ .violation "SendUnitData without a registered session" ∧
             e ≠ .violation "SendUnitData on a connection that is not open"

/-- Forward Open discipline as seen by the target: every standard (non-large) Forward Open carries size 500 and
    is preceded by a refused large one; every large Forward Open carries the configured 4000 -/
def FoDiscipline (evs : List Event) : Prop :=
  ∀ pre large size ok post, evs = pre ++ Event.fo large size ok :: post →
    (large = true → size = 4000) ∧
    (large = false → size = 500 ∧ ∃ sz, Event.fo true sz false ∈ pre)

/-- object hooks (Logix / PCCC services) do not touch the session and connection tables, the policy or the
    session/connection counters; they may only add their own events to the log -/
def HookOk {σ} (hook : ObjHook σ) : Prop :=
  ∀ t cs req t' r, hook t cs req = some (t', r) →
    t'.base.sessions = t.base.sessions ∧ t'.base.conns = t.base.conns ∧ t'.base.policy = t.base.policy ∧
    t'.base.nextSession = t.base.nextSession ∧ t'.base.nextCid = t.base.nextCid ∧
    ∃ extra, t'.base.log = extra ++ t.base.log ∧
      ∀ e ∈ extra, (∀ l s o, e ≠ .fo l s o) ∧ e ≠ .violation "SendUnitData without a registered session" ∧
                   e ≠ .violation "SendUnitData on a connection that is not open"

-- PROPERTY THEOREMS

/-- whatever the history, fault plan and target policy: every failure of a lifecycle call is a library
    exception (CommError, ResponseError, DataError, RequestError) — never a foreign exception, never a hang -/
theorem failures_are_library {σ} (hook : ObjHook σ) (w : World σ) (c : Call) (e : Exn)
    (hc : w.drv.context.length = 8)
    (h : (call hook w c).2 = .raised e) : e = .comm ∨ e = .response ∨ e = .data ∨ e = .request ∨ e = .bufferEmpty := by
  sorry

/-- after close(): the driver reports not connected, has no session, no socket, and the connection flag is off —
    whatever happened before and whether or not close itself raised -/
theorem after_close_driver {σ} (hook : ObjHook σ) (w : World σ) :
    let w' := (closeDrv hook w).1
    w'.drv.connectionOpened = false ∧ w'.drv.session = some 0 ∧ w'.drv.hasSock = false ∧
    w'.drv.targetIsConnected = false := by
  sorry

/-- after close() a target that was still reachable holds no session and no connection of this client -/
theorem after_close_target {σ} (hook : ObjHook σ) (w : World σ) (hs : w.drv.hasSock = true) (ht : w.net.tcpOpen = true) :
    let w' := (closeDrv hook w).1
    w'.net.target.base.sessions = [] ∧ w'.net.target.base.conns = [] := by
  sorry

/-- for EVERY history of calls, every fault plan and every target policy, starting from a fresh driver:
    nothing is ever sent on a connection before a session is registered and a Forward Open has succeeded -/
theorem no_unit_data_before_open {σ} (hook : ObjHook σ) (hh : HookOk hook) (w : World σ) (hf : Fresh w) (calls : List Call) :
    NoEarlyUnitData (run hook w calls).net.target.base.log := by
  sorry

/-- for EVERY history: the extended Forward Open is tried first with the configured size, the standard one only
    after the target refused the extended one, and then with the 500-byte size -/
theorem fo_order {σ} (hook : ObjHook σ) (hh : HookOk hook) (w : World σ) (hf : Fresh w) (calls : List Call) :
    FoDiscipline (run hook w calls).net.target.base.events := by
  sorry

/-- a later open works again: after close(), on a target that accepts sessions and with no fault left,
    open() registers a fresh session -/
theorem reopen_works {σ} (hook : ObjHook σ) (w : World σ) (rnd : Bytes)
    (hpol : w.net.target.base.policy.sessionOk = true) (hfault : w.net.faults = [])
    (hc : w.drv.context.length = 8) (ho : w.drv.option = 0)
    (hns : w.net.target.base.nextSession < 2 ^ 32 ∧ 0 < w.net.target.base.nextSession) :
    let w1 := (closeDrv hook w).1
    let r := openDrv hook w1 rnd
    r.2 = .ok true ∧ r.1.drv.session = some w1.net.target.base.nextSession ∧
    r.1.net.target.base.sessions = [w1.net.target.base.nextSession] ∧ r.1.drv.connectionOpened = true := by
  sorry

end Pycomm.Cli
