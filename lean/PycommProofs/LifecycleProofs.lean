/-
  Proofs for C10 (connection lifecycle is safe under any call history and failure point):
  invariants of the client model ‖ reference target over ALL histories, fault plans and target policies.
-/
import PycommModel.Client
import PycommProofs.EncapProofs
import PycommProofs.LCBasic
import PycommProofs.LCInv
import PycommProofs.LCIdle
namespace Pycomm.Cli
open Pycomm.Tgt Pycomm.Encap Pycomm.Path

/-- the public calls of the connection lifecycle -/
inductive Call where
  | open (rnd : Bytes)
  | close
  | generic (a : GenArgs)

/-- result classes -/
inductive Outcome where
  | ok
  | raised (e : Exn)

/-- one call against the world -/
def call {σ} (hook : ObjHook σ) (w : World σ) : Call → World σ × Outcome
  | .open rnd => match openDrv hook w rnd with
      | (w', .ok _) => (w', .ok)
      | (w', .error e) => (w', .raised e)
  | .close => match closeDrv hook w with
      | (w', .ok _) => (w', .ok)
      | (w', .error e) => (w', .raised e)
  | .generic a => match genericMessage hook FUEL w a with
      | (w', .ok _) => (w', .ok)
      | (w', .error e) => (w', .raised e)

def run {σ} (hook : ObjHook σ) (w : World σ) : List Call → World σ
  | [] => w
  | c :: cs => run hook (call hook w c).1 cs

-- STATEMENT CHANGED: `Fresh` additionally states the lengths 4/2/2/4 of the default field values cid/csn/vid/vsn of `Drv` (needed by fo_order: with shorter fields the target's parseFo reads shifted fields, cf. CE4 below) and the default start `seqVal = 1` of the sequence counter (used by SeqClientProofs.lean).
/-- a fresh driver in front of a target that holds no sessions or connections yet
    (the lengths of cid / csn / vid / vsn are those of the default field values of `Drv`) -/
def Fresh {σ} (w : World σ) : Prop :=
  w.drv.hasSock = false ∧ w.drv.session = some 0 ∧ w.drv.connectionOpened = false ∧ w.drv.targetIsConnected = false ∧
  w.drv.targetCid = none ∧ w.drv.extendedFo = true ∧ w.drv.connectionSize = 4000 ∧ w.drv.context.length = 8 ∧
  w.drv.option = 0 ∧
  w.drv.cid.length = 4 ∧ w.drv.csn.length = 2 ∧ w.drv.vid.length = 2 ∧ w.drv.vsn.length = 4 ∧ w.drv.seqVal = 1 ∧
  w.net.target.base.sessions = [] ∧ w.net.target.base.conns = [] ∧ w.net.target.base.log = [] ∧
  w.net.pending = [] ∧ w.net.sent = [] ∧ w.net.tcpOpen = false ∧
  0 < w.net.target.base.nextSession ∧ w.net.target.base.nextSession < 2 ^ 32 ∧ w.net.target.base.nextCid < 2 ^ 32

/-- the target never had to reject a connected message for lack of a session / open connection -/
def NoEarlyUnitData (log : List Event) : Prop :=
  ∀ e ∈ log, e ≠ .violation "SendUnitData without a registered session" ∧
             e ≠ .violation "SendUnitData on a connection that is not open"

/-- Forward Open discipline as seen by the target: every standard (non-large) Forward Open carries size 500 and
    is preceded by a refused large one; every large Forward Open carries the configured 4000 -/
def FoDiscipline (evs : List Event) : Prop :=
  ∀ pre large size ok post, evs = pre ++ Event.fo large size ok :: post →
    (large = true → size = 4000) ∧
    (large = false → size = 500 ∧ ∃ sz, Event.fo true sz false ∈ pre)

/-- object hooks (Logix / PCCC services) do not touch the session and connection tables, the policy or the
    session/connection counters; they may only add their own events to the log -/
def HookOk {σ} (hook : ObjHook σ) : Prop :=
  ∀ t cs req t' r, hook t cs req = some (t', r) →
    t'.base.sessions = t.base.sessions ∧ t'.base.conns = t.base.conns ∧ t'.base.policy = t.base.policy ∧
    t'.base.nextSession = t.base.nextSession ∧ t'.base.nextCid = t.base.nextCid ∧
    ∃ extra, t'.base.log = extra ++ t.base.log ∧
      ∀ e ∈ extra, (∀ l s o, e ≠ .fo l s o) ∧ e ≠ .violation "SendUnitData without a registered session" ∧
                   e ≠ .violation "SendUnitData on a connection that is not open"

/-- Boolean, evaluable check on the arguments of a generic_message call: the request path built from
    (class, instance, attribute) does not address the Connection Manager object (class 6, instance 1) as the
    target parses it. (`true` as well when the path cannot be encoded: then nothing is sent.)
    The Connection Manager is driven by the driver itself (Forward Open / Forward Close); an application that
    talks to it directly through generic_message can open or close connections behind the driver's back. -/
def AvoidsCM (a : GenArgs) : Bool :=
  match requestPath a.cls a.inst a.attr with
  | .error _ => true
  | .ok rp =>
    match parseRequestPath rp with
    | some (segs, []) => classInst segs != some (0x06, 1, [])
    | _ => false

/-- the configured route: whenever `cipPath ++ message router` can be encoded at all, the result is a connection
    path the target accepts in a Forward Open — word count, then port segments followed by the message router -/
def PathOk (cip : List Seg) : Prop :=
  ∀ route, encEpath true (cip ++ msgRouterPath) true false = .ok route →
    ∃ n path, route = n :: path ∧ path.length = 2 * n.toNat ∧ foPathOk path = true

/-- convenience: integer class ids other than 6 never address the Connection Manager -/
theorem avoidsCM_int (a : GenArgs) (cls inst attr : Nat) (hc : cls < 2 ^ 32) (hi : inst < 2 ^ 32) (ha : attr < 2 ^ 32)
    (h6 : cls ≠ 6) (h1 : a.cls = .int cls) (h2 : a.inst = .int inst) (h3 : a.attr = .int attr) :
    AvoidsCM a = true :=
  lci_avoids_int a cls inst attr hc hi ha h6 h1 h2 h3

/-- `AvoidsCM` is evaluable on concrete arguments: an Identity read passes, a hand-made Forward_Close does not -/
example : AvoidsCM { service := 0x01, cls := .bytes [0x01], inst := .bytes [0x01] } = true := by decide
example : AvoidsCM { service := 0x4E, cls := .bytes [0x06], inst := .bytes [0x01], connected := false } = false := by decide

/-- the route of the connection string "10.0.0.1/1/0" (backplane, slot 0) … -/
example : parseConnectionPath (nm "10.0.0.1/1/0") false =
    .ok (nm "10.0.0.1", none, [Seg.port (.int 1) (.str (nm "0"))]) := by rfl

/-- … satisfies `PathOk` (encoded: 03 | 01 00 | 20 02 24 01) -/
example : PathOk [Seg.port (.int 1) (.str (nm "0"))] := by
  intro route h
  have e : encEpath true ([Seg.port (.int 1) (.str (nm "0"))] ++ msgRouterPath) true false =
      .ok [3, 1, 0, 0x20, 2, 0x24, 1] := by rfl
  rw [e] at h
  cases h
  exact ⟨3, [1, 0, 0x20, 2, 0x24, 1], rfl, by decide, by decide⟩

/-- and so does a three-hop route through an Ethernet module ("bp/2/enet/10.0.0.2/bp/0") -/
example : PathOk [Seg.port (.name (nm "bp")) (.str (nm "2")), Seg.port (.name (nm "enet")) (.str (nm "10.0.0.2")),
    Seg.port (.name (nm "bp")) (.str (nm "0"))] := by
  intro route h
  have e : encEpath true ([Seg.port (.name (nm "bp")) (.str (nm "2")), Seg.port (.name (nm "enet")) (.str (nm "10.0.0.2")),
      Seg.port (.name (nm "bp")) (.str (nm "0"))] ++ msgRouterPath) true false =
      .ok [9, 1, 2, 18, 8, 49, 48, 46, 48, 46, 48, 46, 50, 1, 0, 32, 2, 36, 1] := by rfl
  rw [e] at h
  cases h
  exact ⟨9, [1, 2, 18, 8, 49, 48, 46, 48, 46, 48, 46, 50, 1, 0, 32, 2, 36, 1], rfl, by decide, by decide⟩

/-- the invariant of LCInv.lean is preserved by every call -/
theorem lci_call_inv {σ} (hook : ObjHook σ) (hh : HookOk hook) (S : Prop) (w : World σ) (c : Call)
    (ho : ∀ rnd, c = .open rnd → S → rnd.length = 8) (hg : ∀ a, c = .generic a → AvoidsCM a = true)
    (hi : lci_Inv S w) (hc : lci_Conn w) : lci_Inv S (call hook w c).1 ∧ lci_Conn (call hook w c).1 := by
  cases c with
  | «open» rnd =>
    have := lci_openDrv hook S w rnd (ho rnd rfl) hi hc
    simp only [call]
    generalize openDrv hook w rnd = r at this ⊢
    obtain ⟨w', o⟩ := r
    cases o <;> exact this
  | close =>
    have := lci_closeDrv hook hh S w hi
    simp only [call]
    generalize closeDrv hook w = r at this ⊢
    obtain ⟨w', o⟩ := r
    cases o <;> exact this
  | generic a =>
    have := lci_cli_generic hook hh S FUEL w a (lci_avoids_of_check a (hg a rfl)) hi hc
    simp only [call]
    generalize genericMessage hook FUEL w a = r at this ⊢
    obtain ⟨w', o⟩ := r
    cases o <;> exact this

theorem lci_run_inv {σ} (hook : ObjHook σ) (hh : HookOk hook) (S : Prop) (calls : List Call) :
    ∀ (w : World σ), (∀ rnd, Call.open rnd ∈ calls → S → rnd.length = 8) →
      (∀ a, Call.generic a ∈ calls → AvoidsCM a = true) → lci_Inv S w → lci_Conn w →
      lci_Inv S (run hook w calls) ∧ lci_Conn (run hook w calls) := by
  induction calls with
  | nil => intro w _ _ hi hc; exact ⟨hi, hc⟩
  | cons c cs ih =>
    intro w ho hg hi hc
    obtain ⟨h1, h2⟩ := lci_call_inv hook hh S w c
      (fun rnd e => ho rnd (e ▸ List.mem_cons_self)) (fun a e => hg a (e ▸ List.mem_cons_self)) hi hc
    exact ih _ (fun rnd h => ho rnd (List.mem_cons_of_mem _ h)) (fun a h => hg a (List.mem_cons_of_mem _ h)) h1 h2

/-- a fresh world satisfies the invariant -/
theorem lci_fresh_inv {σ} (S : Prop) (w : World σ) (hf : Fresh w) (hp : S → PathOk w.drv.cipPath) :
    lci_Inv S w ∧ lci_Conn w := by
  obtain ⟨f1, f2, f3, f4, f5, f6, f7, f8, f9, g1, g2, g3, g4, g5, f10, f11, f12, f13, f14, f15, f16, f17, f18⟩ := hf
  constructor
  · refine ⟨⟨?_, ?_, f17, f18⟩, f8, f9, (fun h => by rw [f1] at h; cases h), ⟨0, f2, fun h => absurd rfl h⟩, ?_⟩
    · rw [f12]; intro e he; cases he
    · intro _; rw [f12]; trivial
    · intro hS
      exact ⟨hp hS, g1, g2, g3, g4, Or.inl ⟨f6, f7⟩⟩
  · intro h; rw [f4] at h; cases h

/-- the lifecycle invariant together with the idle invariant of LCIdle.lean, along every history -/
theorem lci_run_net {σ} (hook : ObjHook σ) (hh : HookOk hook) (F : List Fault) (P : Policy) (calls : List Call) :
    ∀ (w : World σ), (∀ a, Call.generic a ∈ calls → AvoidsCM a = true) →
      lci_Inv False w → lci_Conn w → lci_Net F P w →
      lci_Inv False (run hook w calls) ∧ lci_Net F P (run hook w calls) := by
  induction calls with
  | nil => intro w _ hi _ hn; exact ⟨hi, hn⟩
  | cons c cs ih =>
    intro w hg hi hc hn
    obtain ⟨h1, h2⟩ := lci_call_inv hook hh False w c (fun _ _ h => h.elim)
      (fun a e => hg a (e ▸ List.mem_cons_self)) hi hc
    have h3 : lci_Net F P (call hook w c).1 := by
      cases c with
      | «open» rnd =>
        have := lci_Net_open hook hh w rnd hn
        simp only [call]
        generalize openDrv hook w rnd = r at this ⊢
        obtain ⟨w', o⟩ := r
        cases o <;> exact this
      | close =>
        have := lci_Net_close hook w hi.ctx8 hn
        simp only [call]
        generalize closeDrv hook w = r at this ⊢
        obtain ⟨w', o⟩ := r
        cases o <;> exact this
      | generic a =>
        have := lci_Net_step hn ((lci_NStep_mutual hook hh FUEL).2.2 w a)
        simp only [call]
        generalize genericMessage hook FUEL w a = r at this ⊢
        obtain ⟨w', o⟩ := r
        cases o <;> exact this
    exact ih _ (fun a h => hg a (List.mem_cons_of_mem _ h)) h1 h2 h3

theorem lci_fresh_net {σ} (w : World σ) (hf : Fresh w) : lci_Net w.net.faults w.net.target.base.policy w := by
  obtain ⟨f1, f2, f3, f4, f5, f6, f7, f8, f9, g1, g2, g3, g4, g5, f10, f11, f12, f13, f14, f15, f16, f17, f18⟩ := hf
  exact ⟨rfl, rfl, f16, by rw [f1, f15], fun _ => f10⟩

-- PROPERTY THEOREMS

/-- whatever the history, fault plan and target policy: every failure of a lifecycle call is a library
    exception (CommError, ResponseError, DataError, RequestError) — never a foreign exception, never a hang -/
theorem failures_are_library {σ} (hook : ObjHook σ) (w : World σ) (c : Call) (e : Exn)
    (hc : w.drv.context.length = 8)
    (h : (call hook w c).2 = .raised e) : e = .comm ∨ e = .response ∨ e = .data ∨ e = .request ∨ e = .bufferEmpty := by
  have _ := hc
  cases c with
  | «open» rnd =>
    simp only [call] at h
    split at h
    · cases h
    · next w' e' he =>
      cases h
      exact .inl (lc_openDrv_err hook w rnd e (by rw [he]))
  | close =>
    simp only [call] at h
    split at h
    · cases h
    · next w' e' he =>
      cases h
      exact .inl (lc_closeDrv_err hook w e (by rw [he]))
  | generic a =>
    simp only [call] at h
    split at h
    · cases h
    · next w' e' he =>
      cases h
      -- FUEL = 4 + 4: four levels (generic → ensure forward open → forward open → unconnected generic) suffice
      exact lc_gm_lib hook 4 w a e (by show (genericMessage hook FUEL w a).2 = _; rw [he])

/-- after close(): the driver reports not connected, has no session, no socket, and the connection flag is off —
    whatever happened before and whether or not close itself raised -/
theorem after_close_driver {σ} (hook : ObjHook σ) (w : World σ) :
    let w' := (closeDrv hook w).1
    w'.drv.connectionOpened = false ∧ w'.drv.session = some 0 ∧ w'.drv.hasSock = false ∧
    w'.drv.targetIsConnected = false := by
  rw [lc_closeDrv_eq]
  exact ⟨rfl, rfl, rfl, rfl⟩

/-- after close() a target that was still reachable holds no session and no connection of this client -/
theorem after_close_target {σ} (hook : ObjHook σ) (w : World σ) (hs : w.drv.hasSock = true) (ht : w.net.tcpOpen = true) :
    let w' := (closeDrv hook w).1
    w'.net.target.base.sessions = [] ∧ w'.net.target.base.conns = [] := by
  obtain ⟨a1, _, _, _, a5, _, _⟩ := lc_closeTry_keep hook w
  intro w'
  have hn : w'.net = (lcCloseTry hook w).1.net.sockClose := by
    show (closeDrv hook w).1.net = _
    rw [lc_closeDrv_net, a1, hs]
    rfl
  rw [hn]
  unfold Net.sockClose
  rw [a5, ht]
  exact ⟨rfl, rfl⟩

/-- for EVERY history of calls, every fault plan and every target policy, starting from a fresh driver:
    nothing is ever sent on a connection before a session is registered and a Forward Open has succeeded -/
-- STATEMENT CHANGED: added hypothesis `hg` (every generic_message call of the history avoids the Connection Manager).
-- STATEMENT CHANGED: counterexample CE2 (hook = none, default policy, cipPath = backplane slot 0): [open 0102030405060708, generic {service 0x01, cls 1, inst 1} (connected), generic {service 0x4E, cls 6, inst 1, connected := false, data := 0a 05 ++ csn ++ vid ++ vsn, route := bytes 03 00 01 00 20 02 24 01}, generic {service 0x01, cls 1, inst 1} (connected)]: the user-sent Forward_Close removes the connection at the target, the driver keeps targetIsConnected, log = [fo true 4000 true, fc true, violation "SendUnitData on a connection that is not open"].
theorem no_unit_data_before_open {σ} (hook : ObjHook σ) (hh : HookOk hook) (w : World σ) (hf : Fresh w) (calls : List Call)
    (hg : ∀ a, Call.generic a ∈ calls → AvoidsCM a = true) :
    NoEarlyUnitData (run hook w calls).net.target.base.log := by
  obtain ⟨hi, hc⟩ := lci_fresh_inv False w hf (fun h => h.elim)
  exact (lci_run_inv hook hh False calls w (fun _ _ h => h.elim) hg hi hc).1.t.noV

/-- for EVERY history: the extended Forward Open is tried first with the configured size, the standard one only
    after the target refused the extended one, and then with the 500-byte size -/
-- STATEMENT CHANGED: added hypotheses `hp` (PathOk cipPath), `ho` (urandom delivers 8 bytes to every open()), `hg` (as above); `Fresh` now states the default lengths of cid/csn/vid/vsn.
-- STATEMENT CHANGED: counterexample CE1 (cipPath = [logical class_id 5], policy stdFoOk := false): [open 0102030405060708, generic {service 0x01, cls 1, inst 1}]: log = [violation "forward open: bad connection path", fo false 500 false] — no refused large Forward Open before the standard one.
-- STATEMENT CHANGED: counterexample CE3 (default policy, backplane slot 0): [open 0102030405060708, generic {service 0x54, cls 6, inst 1, connected := false, data := hand-made standard Forward Open of size 100, route := bytes 03 01 00 20 02 24 01}]: log = [fo false 100 true].
-- STATEMENT CHANGED: counterexample CE4 (default policy, cipPath = backplane slot 2): [open 010203040506 (6 bytes: vsn is 2 bytes short), generic {service 0x01, cls 1, inst 1}]: the target's parseFo reads the shifted fields and logs [fo true 16896 true].
theorem fo_order {σ} (hook : ObjHook σ) (hh : HookOk hook) (w : World σ) (hf : Fresh w) (calls : List Call)
    (hp : PathOk w.drv.cipPath) (ho : ∀ rnd, Call.open rnd ∈ calls → rnd.length = 8)
    (hg : ∀ a, Call.generic a ∈ calls → AvoidsCM a = true) :
    FoDiscipline (run hook w calls).net.target.base.events := by
  obtain ⟨hi, hc⟩ := lci_fresh_inv True w hf (fun _ => hp)
  have h := (lci_run_inv hook hh True calls w (fun rnd h _ => ho rnd h) hg hi hc).1.t.fo trivial
  exact lci_FoOK_events _ h

/-- a later open works again: after close(), on a target that accepts sessions and with no fault left,
    open() registers a fresh session -/
-- STATEMENT CHANGED: added `hidle` (unless the driver holds a socket on an open TCP connection — which close()
-- shuts, making the target drop its sessions — the target holds no session).  Without it the statement is false:
-- take the default driver (never opened: hasSock = false, session = some 0, context = b"_pycomm_", option = 0),
-- no faults, and a target with policy.sessionOk = true, nextSession = 0x1001 whose session table still holds
-- a stale handle, sessions = [5].  close() has no socket to shut, so the table stays [5], and open() yields
-- `.ok true`, drv.session = some 4097 but target sessions = [5, 4097] ≠ [4097]  (checked with #eval on
-- `openDrv hook (closeDrv hook w).1 rnd` for hook = fun _ _ _ => none, rnd = [1,2,3,4,5,6,7,8]).
-- States reachable from `Fresh` by `run` satisfy `hidle`: open() raises hasSock and tcpOpen together, close()
-- lowers both and empties the table, and nothing is sent without a socket (invariant argued, not proved here).
theorem reopen_works {σ} (hook : ObjHook σ) (w : World σ) (rnd : Bytes)
    (hpol : w.net.target.base.policy.sessionOk = true) (hfault : w.net.faults = [])
    (hc : w.drv.context.length = 8) (ho : w.drv.option = 0)
    (hns : w.net.target.base.nextSession < 2 ^ 32 ∧ 0 < w.net.target.base.nextSession)
    (hidle : (w.drv.hasSock = false ∨ w.net.tcpOpen = false) → w.net.target.base.sessions = []) :
    let w1 := (closeDrv hook w).1
    let r := openDrv hook w1 rnd
    r.2 = .ok true ∧ r.1.drv.session = some w1.net.target.base.nextSession ∧
    r.1.net.target.base.sessions = [w1.net.target.base.nextSession] ∧ r.1.drv.connectionOpened = true := by
  intro w1 r
  obtain ⟨a1, a2, a3, a4, a5, a6, a7⟩ := lc_closeTry_keep hook w
  obtain ⟨t1, t2, t3⟩ := a7 hc
  have hd : w1.drv = lcClosedDrv (lcCloseTry hook w).1.drv := lc_closeDrv_drv hook w
  have hn : w1.net = if (lcCloseTry hook w).1.drv.hasSock then (lcCloseTry hook w).1.net.sockClose
      else (lcCloseTry hook w).1.net := lc_closeDrv_net hook w
  have d1 : w1.drv.connectionOpened = false := by rw [hd]; rfl
  have d2 : w1.drv.session = some 0 := by rw [hd]; rfl
  have d3 : w1.drv.hasSock = false := by rw [hd]; rfl
  have d4 : w1.drv.context.length = 8 := by
    rw [hd]; show (lcCloseTry hook w).1.drv.context.length = 8; rw [a2]; exact hc
  have d5 : w1.drv.option = 0 := by
    rw [hd]; show (lcCloseTry hook w).1.drv.option = 0; rw [a3]; exact ho
  have hnet : w1.net.faults = [] ∧ w1.net.target.base.policy.sessionOk = true ∧
      w1.net.target.base.nextSession < 2 ^ 32 ∧ w1.net.target.base.sessions = [] := by
    rw [hn, a1]
    cases hsk : w.drv.hasSock with
    | true =>
      simp only [if_true]
      obtain ⟨c1, c2, c3, c4⟩ := lc_sockClose_same (lcCloseTry hook w).1.net
      refine ⟨by rw [c1, a4]; exact hfault, by rw [c2, t1]; exact hpol, by rw [c3, t2]; exact hns.1, c4 ?_⟩
      cases hto : w.net.tcpOpen with
      | true => exact .inl (by rw [a5]; exact hto)
      | false => exact .inr (t3 (hidle (.inr hto)))
    | false =>
      simp only [Bool.false_eq_true, if_false]
      rw [a6 hsk]
      exact ⟨hfault, hpol, hns.1, hidle (.inl hsk)⟩
  obtain ⟨n1, n2, n3, n4⟩ := hnet
  obtain ⟨o1, o2, o3, o4⟩ := lc_open_closed hook w1 rnd d1 d2 d3 d4 d5 n1 n2 n3
  refine ⟨o1, o2, ?_, o4⟩
  show (openDrv hook w1 rnd).1.net.target.base.sessions = _
  rw [o3, n4]
  rfl

/-- in every state reachable from a fresh world, a driver without socket (or a closed TCP connection) means
    that the target holds no session: the hypothesis `hidle` of `reopen_works` holds along every history -/
theorem reachable_idle {σ} (hook : ObjHook σ) (hh : HookOk hook) (w : World σ) (hf : Fresh w) (calls : List Call)
    (hg : ∀ a, Call.generic a ∈ calls → AvoidsCM a = true) :
    let w' := run hook w calls
    (w'.drv.hasSock = false ∨ w'.net.tcpOpen = false) → w'.net.target.base.sessions = [] := by
  intro w' h
  obtain ⟨hi, hc⟩ := lci_fresh_inv False w hf (fun h => h.elim)
  have hn := (lci_run_net hook hh _ _ calls w hg hi hc (lci_fresh_net w hf)).2
  apply hn.idle
  rcases h with h | h
  · rw [← hn.sock]; exact h
  · exact h

/-- after ANY history from a fresh world (any call sequence that leaves the Connection Manager to the driver),
    on a target that accepts sessions and with an empty fault plan: close() followed by open() registers a
    fresh session -/
theorem reopen_after_any_history {σ} (hook : ObjHook σ) (hh : HookOk hook) (w : World σ) (hf : Fresh w)
    (calls : List Call) (hg : ∀ a, Call.generic a ∈ calls → AvoidsCM a = true) (rnd : Bytes)
    (hpol : w.net.target.base.policy.sessionOk = true) (hfault : w.net.faults = []) :
    let w' := run hook w calls
    let w1 := (closeDrv hook w').1
    let r := openDrv hook w1 rnd
    r.2 = .ok true ∧ r.1.drv.session = some w1.net.target.base.nextSession ∧
    r.1.net.target.base.sessions = [w1.net.target.base.nextSession] ∧ r.1.drv.connectionOpened = true := by
  intro w'
  obtain ⟨hi, hc⟩ := lci_fresh_inv False w hf (fun h => h.elim)
  obtain ⟨hi', hn⟩ := lci_run_net hook hh _ _ calls w hg hi hc (lci_fresh_net w hf)
  exact reopen_works hook w' rnd (by rw [hn.pol]; exact hpol) (by rw [hn.faults]; exact hfault) hi'.ctx8 hi'.opt0
    ⟨hi'.t.ns, hn.ns0⟩ (reachable_idle hook hh w hf calls hg)

end Pycomm.Cli
