/-
  Failure isolation inside a Multiple Service Packet, `LogixDriver.read(good, bad)` and `read(bad, good)`:
  `good` an elementary scalar tag, `bad` an element beyond a one-dimensional array.
-/
import PycommProofs.LDFailMulti
namespace Pycomm.Lgx.Drv
open Pycomm Pycomm.Tgt Pycomm.Path Pycomm.Reply Pycomm.Encap Pycomm.Lgx Pycomm.Lgx.E2E

/-- the Tag of the refused element request -/
def ldx_oobTag (tag : Name) : LTag :=
  { tag := tag, value := .none, type := none,
    error := some (.reply (.text (ldx_errText { status := 0xFF, ext := [0x2105] }))) }

theorem ldx_refusal_ff : ldx_refusal 0xFF = { status := 0xFF, ext := [0x2105] } := rfl

/-- `read(good, bad)` -/
theorem ldx_read_good_bad (cfg : Cfg) (w : Cli.World Ext) (sess : Nat) (cidb : Bytes) (conn : Conn) (st : LState)
    (sa sb : Symbol) (ia ib : TagInfo) (ca cb sza szb dim i : Nat) (na nb : Name) (ta tb : Ty) (va : PyVal) (ra : Bytes)
    (hw : ldr_Healthy w sess cidb conn) (hlogix : w.net.target.ext.logix = some st) (hmicro : cfg.micro800 = false)
    (hbytes : ∀ s' ∈ st.proj.controller, ∀ ch ∈ s'.name, ch < 256)
    (hsa : sa ∈ st.proj.controller) (hsb : sb ∈ st.proj.controller)
    (huniqNa : ∀ s' ∈ st.proj.controller, s'.name = sa.name → s' = sa)
    (huniqNb : ∀ s' ∈ st.proj.controller, s'.name = sb.name → s' = sb)
    (huniqIa : ∀ s' ∈ st.proj.controller, s'.inst = sa.inst → s' = sa)
    (huniqIb : ∀ s' ∈ st.proj.controller, s'.inst = sb.inst → s' = sb)
    (hida : PlainIdent sa.name) (hidb : PlainIdent sb.name) (hinsta : sa.inst < 2 ^ 32) (hinstb : sb.inst < 2 ^ 32)
    (htya : elTyOfWord sa.symbolType = .atomic ca) (htyb : elTyOfWord sb.symbolType = .atomic cb)
    (hata : atomicOfCode ca = some (na, ta)) (hatb : atomicOfCode cb = some (nb, tb))
    (hba : ta.isBits = none) (hbb : tb.isBits = none)
    (hsza : atomicSize ca = some sza) (hszb : atomicSize cb = some szb)
    (hlena : sa.mem.length = sza)
    (hdimsb : sb.dims.filter (· != 0) = [dim]) (hlenb : sb.mem.length = dim * szb)
    (hgeta : cfg.tags.get? sa.name = some ia) (hgetb : cfg.tags.get? sb.name = some ib)
    (hinfoa : ldr_InfoOf ia na ta sa.inst) (hinfob : ldr_InfoOf ib nb (.arr (.fixed dim) tb) sb.inst)
    (hdeca : decode ta sa.mem = .ok (va, ra))
    (hi : dim ≤ i) (hi32 : i < 2 ^ 32)
    (hC : sa.name.length + sb.name.length + 72 ≤ w.drv.connectionSize)
    (hT : sa.name.length + sb.name.length + 72 ≤ conn.size) :
    ∃ w' frm, read hookAll cfg w [sa.name, renderLevel ⟨sb.name, [i]⟩] =
        (w', .ok [{ tag := sa.name, value := va, type := some na, error := none },
                  ldx_oobTag (renderLevel ⟨sb.name, [i]⟩)]) ∧
      w'.drv = w.drv.nextSeq.2.nextSeq.2.nextSeq.2 ∧ w'.net.sent = w.net.sent ++ [frm] ∧
      w'.net.target.ext = { w.net.target.ext with logix := some { st with ctr := st.ctr + 1 } } ∧
      ldr_Healthy w' sess cidb { conn with lastSeq := some w.drv.nextSeq.2.nextSeq.2.nextSeq.1 } := by
  obtain ⟨hatya, hentrya, hndwa, hposa, hle8a⟩ := ldr_atomic_table ca sza na ta hata hba hsza
  obtain ⟨hatyb, hentryb, hndwb, hposb, hle8b⟩ := ldr_atomic_table cb szb nb tb hatb hbb hszb
  -- (a) parsing
  have hnda : isDword ia = false := by
    have : (na == nm "DWORD") = false := by simpa using hndwa
    simp [isDword, hinfoa.typeName, this]
  obtain ⟨hl, hparseb⟩ := ldx_parse_elem cfg false 1 sb.name i ib nb _ sb.inst hidb hi32 hgetb hinfob hndwb
  have hparsed : parseRequestedTags cfg.tags false [sa.name, renderLevel ⟨sb.name, [i]⟩] =
      [ldr2_parsedAt 0 sa.name ia, ldr2_parsedAt 1 (renderLevel ⟨sb.name, [i]⟩) ib] := by
    show [parseTagRequest cfg.tags false 0 sa.name, parseTagRequest cfg.tags false 1 (renderLevel ⟨sb.name, [i]⟩)] = _
    rw [ldr_parse_plain cfg.tags false 0 sa.name ia hida hgeta hnda, hparseb]
    rfl
  -- (b) the paths
  obtain ⟨pa, hpa, hpla, hdena⟩ := ldr_requestPath cfg sa.name ia sa.inst hida hinfoa.instanceId hinsta
  obtain ⟨pb, hpb, hplb, hdenb⟩ := ldr2_requestPath cfg ⟨sb.name, [i]⟩ ib sb.inst hl hinfob.instanceId hinstb
  have hplb' : pb.length ≤ sb.name.length + 19 := by
    have : pb.length ≤ sb.name.length + 13 + 6 * 1 := hplb
    omega
  have hrsa : tagReturnSize ia 1 = sza := by simp [tagReturnSize, hinfoa.struct, hinfoa.typeName, hentrya]
  have hrsb : tagReturnSize ib 1 = szb := by simp [tagReturnSize, hinfob.struct, hinfob.typeName, hentryb]
  have hmla : (Cl.readMsg pa 1).length = pa.length + 3 := by simp [Cl.readMsg, le, RT.leBytes_length]
  have hmlb : (Cl.readMsg pb 1).length = pb.length + 3 := by simp [Cl.readMsg, le, RT.leBytes_length]
  have hoh : K.OVERHEAD = 10 := rfl
  -- (d) the two answers
  have hexa := ldr_exchange st (conn.size - 2) sa ca sza cfg.useInstanceIds pa hida hsa hbytes huniqNa huniqIa htya hsza hlena
    hposa hdena (by omega)
  have hmemb : sb.mem ≠ [] := by
    intro h
    rw [h, List.length_nil] at hlenb
    have hdim : dim ≠ 0 := by
      intro h0
      have : dim ∈ sb.dims.filter (· != 0) := by rw [hdimsb]; simp
      have := (List.mem_filter.1 this).2
      simp [h0] at this
    have : 0 < dim * szb := Nat.mul_pos (by omega) hposb
    omega
  have hrb : resolve st.proj (ldr_segs sb.name sb.inst cfg.useInstanceIds ++ [PSeg.logical 8 i]) = .error 0xFF :=
    ldx_resolve_oob st.proj sb cb szb cfg.useInstanceIds i dim hidb hsb hbytes huniqNb huniqIb htyb hszb hmemb hdimsb hi
  have hexb : Cl.exchange { st with ctr := st.ctr + 1 } (conn.size - 2) (Cl.readMsg pb 1) =
      ({ st with ctr := st.ctr + 1 }, ldx_refusal 0xFF) :=
    ldx_exchange_refused { st with ctr := st.ctr + 1 } (conn.size - 2) 0x4C pb (le 2 1) _ 0xFF hdenb hrb (Or.inl rfl)
      (ldx_tagPath_segs sb.name sb.inst cfg.useInstanceIds [PSeg.logical 8 i])
  -- (e) the two embedded replies
  have hrpa := ldr2_readResp_padded
    { seq := w.drv.nextSeq.1, tag := sa.name, elements := 1, info := ia, rid := 0, path := pa } (le 2 ca ++ sa.mem) va na
    (ldr_parseReadReply ia ca ta na sa.mem ra va hinfoa.ty hinfoa.typeName hndwa hatya hba hdeca)
  have hrpb := ldx_readResp_refused_padded
    { seq := w.drv.nextSeq.2.nextSeq.1, tag := renderLevel ⟨sb.name, [i]⟩, elements := 1, info := ib, rid := 1, path := pb }
    (ldx_refusal 0xFF) (by decide) (by decide) (by decide)
  have hmr : multiReadResults []
      [({ seq := w.drv.nextSeq.1, tag := sa.name, elements := 1, info := ia, rid := 0, path := pa },
          some (List.replicate 46 0 ++ encMRReply 0x4C { status := 0, data := le 2 ca ++ sa.mem })),
       ({ seq := w.drv.nextSeq.2.nextSeq.1, tag := renderLevel ⟨sb.name, [i]⟩, elements := 1, info := ib, rid := 1, path := pb },
          some (List.replicate 46 0 ++ encMRReply 0x4C (ldx_refusal 0xFF)))] =
      .ok [((0 : Nat), { tag := sa.name, value := va, type := some na, error := none }),
           ((1 : Nat), ldx_oobTag (renderLevel ⟨sb.name, [i]⟩))] := by
    simp only [multiReadResults, hrpa.1, hrpa.2, hrpb.1, hrpb.2, if_true, Bool.false_eq_true, if_false]
    rfl
  obtain ⟨w', frm, hread, hrest⟩ := ldx_read_two_general cfg w sess cidb conn st { st with ctr := st.ctr + 1 }
    { st with ctr := st.ctr + 1 } sa.name (renderLevel ⟨sb.name, [i]⟩) ia ib pa pb _ _ _ _ _ hw hlogix hmicro hparsed hpa hpb
    hdena hdenb hexa hexb hmr
    (by unfold ldr2_estimate; rw [hrsa, hrsb, hmla, hmlb, hoh]; omega) (by omega)
    (by have := hida.2.1; have := hidb.2.1; omega)
    (by simp only [ldx_refusal, List.length_append, le, RT.leBytes_length, hlena]; simp; omega)
  refine ⟨w', frm, ?_, hrest⟩
  rw [hread]
  have hresa := ldr2_readResult_get (ldr2_parsedAt 0 sa.name ia) ia
    { tag := sa.name, value := va, type := some na, error := none }
    [((0 : Nat), { tag := sa.name, value := va, type := some na, error := none }),
     ((1 : Nat), ldx_oobTag (renderLevel ⟨sb.name, [i]⟩))]
    rfl rfl rfl (by rw [hinfoa.typeName]; exact hndwa) (ldr_decode_not_none ca ta hatya hba sa.mem ra va hdeca) rfl rfl
  have hresb := ldx_readResult_falsy (ldr2_parsedAt 1 (renderLevel ⟨sb.name, [i]⟩) ib) ib
    (ldx_oobTag (renderLevel ⟨sb.name, [i]⟩))
    [((0 : Nat), { tag := sa.name, value := va, type := some na, error := none }),
     ((1 : Nat), ldx_oobTag (renderLevel ⟨sb.name, [i]⟩))]
    rfl rfl rfl rfl
  rw [hresa, hresb]
  rfl

/-- `read(bad, good)` -/
theorem ldx_read_bad_good (cfg : Cfg) (w : Cli.World Ext) (sess : Nat) (cidb : Bytes) (conn : Conn) (st : LState)
    (sa sb : Symbol) (ia ib : TagInfo) (ca cb sza szb dim i : Nat) (na nb : Name) (ta tb : Ty) (va : PyVal) (ra : Bytes)
    (hw : ldr_Healthy w sess cidb conn) (hlogix : w.net.target.ext.logix = some st) (hmicro : cfg.micro800 = false)
    (hbytes : ∀ s' ∈ st.proj.controller, ∀ ch ∈ s'.name, ch < 256)
    (hsa : sa ∈ st.proj.controller) (hsb : sb ∈ st.proj.controller)
    (huniqNa : ∀ s' ∈ st.proj.controller, s'.name = sa.name → s' = sa)
    (huniqNb : ∀ s' ∈ st.proj.controller, s'.name = sb.name → s' = sb)
    (huniqIa : ∀ s' ∈ st.proj.controller, s'.inst = sa.inst → s' = sa)
    (huniqIb : ∀ s' ∈ st.proj.controller, s'.inst = sb.inst → s' = sb)
    (hida : PlainIdent sa.name) (hidb : PlainIdent sb.name) (hinsta : sa.inst < 2 ^ 32) (hinstb : sb.inst < 2 ^ 32)
    (htya : elTyOfWord sa.symbolType = .atomic ca) (htyb : elTyOfWord sb.symbolType = .atomic cb)
    (hata : atomicOfCode ca = some (na, ta)) (hatb : atomicOfCode cb = some (nb, tb))
    (hba : ta.isBits = none) (hbb : tb.isBits = none)
    (hsza : atomicSize ca = some sza) (hszb : atomicSize cb = some szb)
    (hlena : sa.mem.length = sza)
    (hdimsb : sb.dims.filter (· != 0) = [dim]) (hlenb : sb.mem.length = dim * szb)
    (hgeta : cfg.tags.get? sa.name = some ia) (hgetb : cfg.tags.get? sb.name = some ib)
    (hinfoa : ldr_InfoOf ia na ta sa.inst) (hinfob : ldr_InfoOf ib nb (.arr (.fixed dim) tb) sb.inst)
    (hdeca : decode ta sa.mem = .ok (va, ra))
    (hi : dim ≤ i) (hi32 : i < 2 ^ 32)
    (hC : sa.name.length + sb.name.length + 72 ≤ w.drv.connectionSize)
    (hT : sa.name.length + sb.name.length + 72 ≤ conn.size) :
    ∃ w' frm, read hookAll cfg w [renderLevel ⟨sb.name, [i]⟩, sa.name] =
        (w', .ok [ldx_oobTag (renderLevel ⟨sb.name, [i]⟩),
                  { tag := sa.name, value := va, type := some na, error := none }]) ∧
      w'.drv = w.drv.nextSeq.2.nextSeq.2.nextSeq.2 ∧ w'.net.sent = w.net.sent ++ [frm] ∧
      w'.net.target.ext = { w.net.target.ext with logix := some { st with ctr := st.ctr + 1 } } ∧
      ldr_Healthy w' sess cidb { conn with lastSeq := some w.drv.nextSeq.2.nextSeq.2.nextSeq.1 } := by
  obtain ⟨hatya, hentrya, hndwa, hposa, hle8a⟩ := ldr_atomic_table ca sza na ta hata hba hsza
  obtain ⟨hatyb, hentryb, hndwb, hposb, hle8b⟩ := ldr_atomic_table cb szb nb tb hatb hbb hszb
  -- (a) parsing
  have hnda : isDword ia = false := by
    have : (na == nm "DWORD") = false := by simpa using hndwa
    simp [isDword, hinfoa.typeName, this]
  obtain ⟨hl, hparseb⟩ := ldx_parse_elem cfg false 0 sb.name i ib nb _ sb.inst hidb hi32 hgetb hinfob hndwb
  have hparsed : parseRequestedTags cfg.tags false [renderLevel ⟨sb.name, [i]⟩, sa.name] =
      [ldr2_parsedAt 0 (renderLevel ⟨sb.name, [i]⟩) ib, ldr2_parsedAt 1 sa.name ia] := by
    show [parseTagRequest cfg.tags false 0 (renderLevel ⟨sb.name, [i]⟩), parseTagRequest cfg.tags false 1 sa.name] = _
    rw [ldr_parse_plain cfg.tags false 1 sa.name ia hida hgeta hnda, hparseb]
    rfl
  -- (b) the paths
  obtain ⟨pa, hpa, hpla, hdena⟩ := ldr_requestPath cfg sa.name ia sa.inst hida hinfoa.instanceId hinsta
  obtain ⟨pb, hpb, hplb, hdenb⟩ := ldr2_requestPath cfg ⟨sb.name, [i]⟩ ib sb.inst hl hinfob.instanceId hinstb
  have hplb' : pb.length ≤ sb.name.length + 19 := by
    have : pb.length ≤ sb.name.length + 13 + 6 * 1 := hplb
    omega
  have hrsa : tagReturnSize ia 1 = sza := by simp [tagReturnSize, hinfoa.struct, hinfoa.typeName, hentrya]
  have hrsb : tagReturnSize ib 1 = szb := by simp [tagReturnSize, hinfob.struct, hinfob.typeName, hentryb]
  have hmla : (Cl.readMsg pa 1).length = pa.length + 3 := by simp [Cl.readMsg, le, RT.leBytes_length]
  have hmlb : (Cl.readMsg pb 1).length = pb.length + 3 := by simp [Cl.readMsg, le, RT.leBytes_length]
  have hoh : K.OVERHEAD = 10 := rfl
  -- (d) the two answers
  have hexa := ldr_exchange st (conn.size - 2) sa ca sza cfg.useInstanceIds pa hida hsa hbytes huniqNa huniqIa htya hsza hlena
    hposa hdena (by omega)
  have hmemb : sb.mem ≠ [] := by
    intro h
    rw [h, List.length_nil] at hlenb
    have hdim : dim ≠ 0 := by
      intro h0
      have : dim ∈ sb.dims.filter (· != 0) := by rw [hdimsb]; simp
      have := (List.mem_filter.1 this).2
      simp [h0] at this
    have : 0 < dim * szb := Nat.mul_pos (by omega) hposb
    omega
  have hrb : resolve st.proj (ldr_segs sb.name sb.inst cfg.useInstanceIds ++ [PSeg.logical 8 i]) = .error 0xFF :=
    ldx_resolve_oob st.proj sb cb szb cfg.useInstanceIds i dim hidb hsb hbytes huniqNb huniqIb htyb hszb hmemb hdimsb hi
  have hexb : Cl.exchange st (conn.size - 2) (Cl.readMsg pb 1) = (st, ldx_refusal 0xFF) :=
    ldx_exchange_refused st (conn.size - 2) 0x4C pb (le 2 1) _ 0xFF hdenb hrb (Or.inl rfl)
      (ldx_tagPath_segs sb.name sb.inst cfg.useInstanceIds [PSeg.logical 8 i])
  -- (e) the two embedded replies
  have hrpa := ldr2_readResp_padded
    { seq := w.drv.nextSeq.2.nextSeq.1, tag := sa.name, elements := 1, info := ia, rid := 1, path := pa } (le 2 ca ++ sa.mem) va na
    (ldr_parseReadReply ia ca ta na sa.mem ra va hinfoa.ty hinfoa.typeName hndwa hatya hba hdeca)
  have hrpb := ldx_readResp_refused_padded
    { seq := w.drv.nextSeq.1, tag := renderLevel ⟨sb.name, [i]⟩, elements := 1, info := ib, rid := 0, path := pb }
    (ldx_refusal 0xFF) (by decide) (by decide) (by decide)
  have hmr : multiReadResults []
      [({ seq := w.drv.nextSeq.1, tag := renderLevel ⟨sb.name, [i]⟩, elements := 1, info := ib, rid := 0, path := pb },
          some (List.replicate 46 0 ++ encMRReply 0x4C (ldx_refusal 0xFF))),
       ({ seq := w.drv.nextSeq.2.nextSeq.1, tag := sa.name, elements := 1, info := ia, rid := 1, path := pa },
          some (List.replicate 46 0 ++ encMRReply 0x4C { status := 0, data := le 2 ca ++ sa.mem }))] =
      .ok [((0 : Nat), ldx_oobTag (renderLevel ⟨sb.name, [i]⟩)),
           ((1 : Nat), { tag := sa.name, value := va, type := some na, error := none })] := by
    simp only [multiReadResults, hrpa.1, hrpa.2, hrpb.1, hrpb.2, if_true, Bool.false_eq_true, if_false]
    rfl
  obtain ⟨w', frm, hread, hrest⟩ := ldx_read_two_general cfg w sess cidb conn st st
    { st with ctr := st.ctr + 1 } (renderLevel ⟨sb.name, [i]⟩) sa.name ib ia pb pa _ _ _ _ _ hw hlogix hmicro hparsed hpb hpa
    hdenb hdena hexb hexa hmr
    (by unfold ldr2_estimate; rw [hrsa, hrsb, hmla, hmlb, hoh]; omega) (by omega)
    (by have := hida.2.1; have := hidb.2.1; omega)
    (by simp only [ldx_refusal, List.length_append, le, RT.leBytes_length, hlena]; simp; omega)
  refine ⟨w', frm, ?_, hrest⟩
  rw [hread]
  have hresa := ldr2_readResult_get (ldr2_parsedAt 1 sa.name ia) ia
    { tag := sa.name, value := va, type := some na, error := none }
    [((0 : Nat), ldx_oobTag (renderLevel ⟨sb.name, [i]⟩)),
     ((1 : Nat), { tag := sa.name, value := va, type := some na, error := none })]
    rfl rfl rfl (by rw [hinfoa.typeName]; exact hndwa) (ldr_decode_not_none ca ta hatya hba sa.mem ra va hdeca) rfl rfl
  have hresb := ldx_readResult_falsy (ldr2_parsedAt 0 (renderLevel ⟨sb.name, [i]⟩) ib) ib
    (ldx_oobTag (renderLevel ⟨sb.name, [i]⟩))
    [((0 : Nat), ldx_oobTag (renderLevel ⟨sb.name, [i]⟩)),
     ((1 : Nat), { tag := sa.name, value := va, type := some na, error := none })]
    rfl rfl rfl rfl
  rw [hresa, hresb]
  rfl

end Pycomm.Lgx.Drv
