/-
  SLC refinement (C18 over histories), helper layer 3 (reads): the read request of an accepted address in the word
  view (`slrf_readAddr`), and what `_parse_read_reply` makes of the words the target returns - for every form of
  address `parse_tag` accepts (`slrf_reply`).
-/
import PycommProofs.SlcRef2
namespace Pycomm.Slc.Drv
open Pycomm Pycomm.Tgt Pycomm.Slc

/-- 16-bit words per element of a file type -/
def slrf_wpe (ft : Name) : Nat := dataSize ft / 2

theorem slrf_ft_facts {ft : Name} (h : ft ∈ [[78], [66], [70], [76], [83], [73], [79], [84], [67]]) :
    dataSize ft = 2 * slrf_wpe ft ∧ elemBytes (typeCode ft) = 2 * slrf_wpe ft ∧ 1 ≤ slrf_wpe ft ∧ slrf_wpe ft ≤ 3 := by
  simp only [List.mem_cons, List.not_mem_nil, or_false] at h
  rcases h with rfl | rfl | rfl | rfl | rfl | rfl | rfl | rfl | rfl <;> decide

theorem slrf_wpe_word {ft : Name} (h : ft ∈ wordFiles) : slrf_wpe ft = 1 := by
  simp only [wordFiles, List.mem_cons, List.not_mem_nil, or_false] at h
  rcases h with rfl | rfl | rfl | rfl | rfl <;> decide

/-- the byte offset of an address is twice its word index -/
theorem slrf_byteOffset (a : Addr) (hr : InRange a) (sub : Nat) :
    byteOffset (typeCode a.fileType) a.element sub = 2 * (slrf_wpe a.fileType * a.element + sub) := by
  obtain ⟨_, h2, _, _⟩ := slrf_ft_facts hr.ftype
  have e : a.element * (2 * slrf_wpe a.fileType) = 2 * (slrf_wpe a.fileType * a.element) := by
    rw [Nat.mul_comm a.element, Nat.mul_assoc]
  simp only [byteOffset, h2, e]
  omega

/-- the read request of an accepted address: a typed read of `wpe × count` words from word `wpe × element +
    position` on -/
theorem slrf_readAddr (tbl : Table) (a : Addr) (hr : InRange a) (hp : a.posNumber < 65536)
    (hs : dataSize a.fileType * a.count ≤ 255) :
    readAddr tbl a = typedRead tbl (2 * (slrf_wpe a.fileType * a.count)) a.fileNumber (typeCode a.fileType) a.element
      a.posNumber := by
  obtain ⟨h1, _, _, _⟩ := slrf_ft_facts hr.ftype
  rw [slx_readAddr_eq tbl a hs hr.file hr.elem hp, h1, Nat.mul_assoc]

/-! ### `_parse_read_reply` on words -/

/-- one element's value out of the words `ws`, the element starting at word i: a binary32 (low word first) widened
    to a Python float (F), a 32-bit integer (L), a 16-bit integer (every other file) -/
def slrf_elem (ft : Name) (ws : List Nat) (i : Nat) : PyVal :=
  if ft = [70] then .float (Flt.widen (ws.getD i 0 + 65536 * ws.getD (i + 1) 0))
  else if ft = [76] then .int (int32 (ws.getD i 0 + 65536 * ws.getD (i + 1) 0))
  else .int (int16 (ws.getD i 0))

/-- what `_parse_read_reply` makes of the words `ws` a read request of address `a` returned -/
def slrf_value (a : Addr) (ws : List Nat) : PyVal :=
  if a.addressField = 3 then
    if (a.fileType = [84] ∨ a.fileType = [67]) ∧ a.subElement = 1 then .int (int16 (ws.getD 1 0))
    else if (a.fileType = [84] ∨ a.fileType = [67]) ∧ a.subElement = 2 then .int (int16 (ws.getD 2 0))
    else .bool ((ws.getD 0 0).testBit a.subElement)
  else if a.count = 1 then slrf_elem a.fileType ws 0
  else .list ((List.range a.count).map fun j => slrf_elem a.fileType ws (slrf_wpe a.fileType * j))

theorem slrf_le_byte (w : Nat) (hw : w < 65536) :
    (UInt8.ofNat (w % 256)).toNat + 256 * (UInt8.ofNat (w / 256 % 256)).toNat = w := slx_le2_val w hw

theorem slrf_leVal4 (b0 b1 b2 b3 : UInt8) :
    leVal [b0, b1, b2, b3] = (b0.toNat + 256 * b1.toNat) + 65536 * (b2.toNat + 256 * b3.toNat) := by
  simp only [leVal]; omega

/-- bit b ≤ 15 of a 32-bit two's complement value is the bit of its low word -/
theorem slrf_intBit32 (v b : Nat) (hv : v < 4294967296) (hb : b ≤ 15) : intBit (int32 v) b = (v % 65536).testBit b := by
  unfold intBit int32
  rw [Nat.testBit_eq_decide_div_mod_eq]
  have hcases : b = 0 ∨ b = 1 ∨ b = 2 ∨ b = 3 ∨ b = 4 ∨ b = 5 ∨ b = 6 ∨ b = 7 ∨ b = 8 ∨ b = 9 ∨ b = 10 ∨ b = 11 ∨
      b = 12 ∨ b = 13 ∨ b = 14 ∨ b = 15 := by omega
  split
  · have : ((v : Int) % ((2 ^ 64 : Nat) : Int)).toNat = v := by omega
    rw [this]
    rcases hcases with rfl | rfl | rfl | rfl | rfl | rfl | rfl | rfl | rfl | rfl | rfl | rfl | rfl | rfl | rfl | rfl <;>
      (congr 1; apply propext; omega)
  · have : (((v : Int) - 4294967296) % ((2 ^ 64 : Nat) : Int)).toNat = 2 ^ 64 - 4294967296 + v := by omega
    rw [this]
    rcases hcases with rfl | rfl | rfl | rfl | rfl | rfl | rfl | rfl | rfl | rfl | rfl | rfl | rfl | rfl | rfl | rfl <;>
      (congr 1; apply propext; omega)

/-- a bit read of a long-file address: the bit of the element's low word -/
theorem slrf_reply_long_bit (a : Addr) (hft : a.fileType = [76]) (haf : a.addressField = 3) (hb : a.subElement ≤ 15)
    (b0 b1 b2 b3 : UInt8) (rest : Bytes) :
    parseReadReply a (b0 :: b1 :: b2 :: b3 :: rest) =
      .ok (.bool ((b0.toNat + 256 * b1.toNat).testBit a.subElement)) := by
  have hty : elemTy a.fileType = some (.int .dint) := by rw [hft]; rfl
  have hsz : dataSize a.fileType = 4 := by rw [hft]; decide
  have h84 : a.fileType ≠ [84] := by rw [hft]; decide
  have h67 : a.fileType ≠ [67] := by rw [hft]; decide
  have h70 : a.fileType ≠ [70] := by rw [hft]; decide
  have hd := decode_int_wire .dint [b0, b1, b2, b3] [] rfl
  simp only [List.append_nil, IntK.signed, IntK.size, true_and] at hd
  have hv : (if 2 ^ (8 * 4 - 1) ≤ leVal [b0, b1, b2, b3]
      then (leVal [b0, b1, b2, b3] : Int) - ((2 ^ (8 * 4) : Nat) : Int) else (leVal [b0, b1, b2, b3] : Int))
      = int32 (leVal [b0, b1, b2, b3]) := by
    unfold int32
    split <;> split <;> first | rfl | omega
  rw [hv] at hd
  have h0 := b0.toNat_lt
  have h1 := b1.toNat_lt
  have h2 := b2.toNat_lt
  have h3 := b3.toNat_lt
  have hlt : leVal [b0, b1, b2, b3] < 4294967296 := by rw [slrf_leVal4]; omega
  have hlo : leVal [b0, b1, b2, b3] % 65536 = b0.toNat + 256 * b1.toNat := by rw [slrf_leVal4]; omega
  unfold parseReadReply
  simp only [hty, hsz, haf, h84, h67, h70, or_self, false_and, if_false, if_true, List.take_succ_cons, List.take_zero, hd,
    slrf_intBit32 _ _ hlt hb, hlo]

/-- the 32-bit values of the bytes of a word list: the words in pairs, low word first -/
theorem slrf_dwords_bytes : ∀ (n : Nat) (ws : List Nat), ws.length = 2 * n → (∀ w ∈ ws, w < 65536) →
    sd2_dwords (slrf_bytes ws) = (List.range n).map fun j => ws.getD (2 * j) 0 + 65536 * ws.getD (2 * j + 1) 0
  | 0, ws, h, _ => by
      have : ws = [] := List.length_eq_zero_iff.mp (by omega)
      subst this; rfl
  | n + 1, w0 :: w1 :: rest, h, hlt => by
      simp only [List.length_cons] at h
      have ih := slrf_dwords_bytes n rest (by omega) (fun w hw => hlt w (by simp [hw]))
      have e0 := slrf_le_byte w0 (hlt w0 (by simp))
      have e1 := slrf_le_byte w1 (hlt w1 (by simp))
      rw [slrf_bytes_cons, slrf_bytes_cons]
      simp only [sd2_dwords, ih, List.range_succ_eq_map, List.map_cons, List.map_map, slrf_leVal4, e0, e1]
      congr 1
  | n + 1, [], h, _ => by simp at h
  | n + 1, [_], h, _ => by simp at h; omega

/-- `_parse_read_reply` on the words a read request of an accepted address returned -/
theorem slrf_reply (a : Addr) (hr : InRange a) (ws : List Nat) (hc : 1 ≤ a.count)
    (hlen : ws.length = slrf_wpe a.fileType * a.count) (hlt : ∀ w ∈ ws, w < 65536) :
    parseReadReply a (slrf_bytes ws) = .ok (slrf_value a ws) := by
  have hft := hr.ftype
  have hsub := hr.sub
  by_cases hct : a.fileType = [84] ∨ a.fileType = [67]
  · -- timers and counters: three words
    obtain ⟨haf, hcnt, _⟩ := hr.ct hct
    have hw : slrf_wpe a.fileType = 3 := by rcases hct with h | h <;> rw [h] <;> decide
    rw [hw, hcnt] at hlen
    match ws, hlen, hlt with
    | [w0, w1, w2], _, hlt =>
      have e0 := slrf_le_byte w0 (hlt w0 (by simp))
      have e1 := slrf_le_byte w1 (hlt w1 (by simp))
      have e2 := slrf_le_byte w2 (hlt w2 (by simp))
      simp only [slrf_bytes_cons, show slrf_bytes [] = [] from rfl]
      rw [slx_reply_ct a hct haf, e0, e1, e2]
      simp only [slrf_value, haf, hct, true_and, if_true, List.getD_cons_zero, List.getD_cons_succ,
        slx_intBit16 w0 _ (hlt w0 (by simp)) hsub]
  · have hnct : ¬ ((a.fileType = [84] ∨ a.fileType = [67]) ∧ a.subElement = 1) := fun h => hct h.1
    have hnct2 : ¬ ((a.fileType = [84] ∨ a.fileType = [67]) ∧ a.subElement = 2) := fun h => hct h.1
    have h84 : a.fileType ≠ [84] := fun h => hct (.inl h)
    have h67 : a.fileType ≠ [67] := fun h => hct (.inr h)
    by_cases hF : a.fileType = [70]
    · -- float file
      have hw : slrf_wpe a.fileType = 2 := by rw [hF]; decide
      have hty : elemTy a.fileType = some .real := by rw [hF]; rfl
      have hsz : dataSize a.fileType = 4 := by rw [hF]; decide
      rw [hw] at hlen
      rcases hr.field with haf | haf
      · by_cases hc1 : a.count = 1
        · rw [hc1] at hlen
          match ws, hlen, hlt with
          | [w0, w1], _, hlt =>
            have e0 := slrf_le_byte w0 (hlt w0 (by simp))
            have e1 := slrf_le_byte w1 (hlt w1 (by simp))
            simp only [slrf_bytes_cons, show slrf_bytes [] = [] from rfl]
            rw [slx_reply_real a hty hsz haf, slrf_leVal4, e0, e1]
            simp only [slrf_value, haf, hc1, slrf_elem, hF, if_true, List.getD_cons_zero, List.getD_cons_succ]
            rfl
        · rw [sd2_reply_dwords_float a hF haf a.count _ (by rw [slrf_bytes_length, hlen]; omega) (by omega),
            slrf_dwords_bytes a.count ws hlen hlt]
          simp only [slrf_value, haf, hc1, slrf_elem, hF, if_true, if_false, List.map_map]
          rfl
      · match ws, hlen, hlt with
        | w0 :: w1 :: rest, _, hlt =>
          have e0 := slrf_le_byte w0 (hlt w0 (by simp))
          rw [slrf_bytes_cons, sd2_reply_float_bit a hF haf, e0]
          simp only [slrf_value, haf, hnct, hnct2, if_true, if_false, List.getD_cons_zero]
        | [], hlen, _ => simp at hlen; omega
        | [_], hlen, _ => simp at hlen; omega
    · by_cases hL : a.fileType = [76]
      · -- long file
        have hw : slrf_wpe a.fileType = 2 := by rw [hL]; decide
        have hty : elemTy a.fileType = some (.int .dint) := by rw [hL]; rfl
        have hsz : dataSize a.fileType = 4 := by rw [hL]; decide
        rw [hw] at hlen
        rcases hr.field with haf | haf
        · by_cases hc1 : a.count = 1
          · rw [hc1] at hlen
            match ws, hlen, hlt with
            | [w0, w1], _, hlt =>
              have e0 := slrf_le_byte w0 (hlt w0 (by simp))
              have e1 := slrf_le_byte w1 (hlt w1 (by simp))
              simp only [slrf_bytes_cons, show slrf_bytes [] = [] from rfl]
              rw [slx_reply_dint a hty hsz haf, slrf_leVal4, e0, e1]
              simp only [slrf_value, haf, hc1, slrf_elem, hL, if_true, List.getD_cons_zero,
                List.getD_cons_succ]
              rfl
          · rw [sd2_reply_dwords_long a hL haf a.count _ (by rw [slrf_bytes_length, hlen]; omega) (by omega),
              slrf_dwords_bytes a.count ws hlen hlt]
            simp only [slrf_value, haf, hc1, slrf_elem, hL, if_true, if_false, List.map_map]
            rfl
        · match ws, hlen, hlt with
          | w0 :: w1 :: rest, _, hlt =>
            have e0 := slrf_le_byte w0 (hlt w0 (by simp))
            rw [slrf_bytes_cons, slrf_bytes_cons, slrf_reply_long_bit a hL haf hsub, e0]
            simp only [slrf_value, haf, hnct, hnct2, if_true, if_false, List.getD_cons_zero]
          | [], hlen, _ => simp at hlen; omega
          | [_], hlen, _ => simp at hlen; omega
      · -- word files
        have hwf : a.fileType ∈ wordFiles := by
          simp only [List.mem_cons, List.not_mem_nil, or_false] at hft
          simp only [wordFiles, List.mem_cons, List.not_mem_nil, or_false]
          rcases hft with h | h | h | h | h | h | h | h | h
          · exact .inl h
          · exact .inr (.inl h)
          · exact absurd h hF
          · exact absurd h hL
          · exact .inr (.inr (.inl h))
          · exact .inr (.inr (.inr (.inr h)))
          · exact .inr (.inr (.inr (.inl h)))
          · exact absurd h h84
          · exact absurd h h67
        obtain ⟨hty, hsz, _, _, _⟩ := slx_wordFiles hwf
        rw [slrf_wpe_word hwf, Nat.one_mul] at hlen
        rcases hr.field with haf | haf
        · by_cases hc1 : a.count = 1
          · rw [hc1] at hlen
            match ws, hlen, hlt with
            | [w0], _, hlt =>
              have e0 := slrf_le_byte w0 (hlt w0 (by simp))
              simp only [slrf_bytes_cons, show slrf_bytes [] = [] from rfl]
              rw [slx_reply_word a hty hsz haf, e0]
              simp only [slrf_value, haf, hc1, slrf_elem, hF, hL, if_true, if_false, List.getD_cons_zero]
              rfl
          · rw [slx_reply_words a hty hsz haf a.count _ (by rw [slrf_bytes_length, hlen]) (by omega),
              slrf_words_bytes ws hlt, slrf_map_range, hlen]
            simp only [slrf_value, haf, hc1, slrf_elem, hF, hL, slrf_wpe_word hwf, Nat.one_mul, if_false]
            rfl
        · match ws, hlen, hlt with
          | w0 :: rest, _, hlt =>
            have e0 := slrf_le_byte w0 (hlt w0 (by simp))
            rw [slrf_bytes_cons, slx_reply_bit a hty haf ⟨h84, h67⟩ hsz, e0, slx_intBit16 w0 _ (hlt w0 (by simp)) hsub]
            simp only [slrf_value, haf, hnct, hnct2, if_true, if_false, List.getD_cons_zero]
          | [], hlen, _ => simp at hlen; omega

end Pycomm.Slc.Drv
