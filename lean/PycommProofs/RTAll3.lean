/-
  C06, composition of all round-trip results: the mutual induction over `Ty` / `Members` / `TMembers`
  for the value domain `CanonAll`.
-/
import PycommProofs.RTAll2
import PycommProofs.CodecRoundTripExt
namespace Pycomm
open Pycomm.RT

/-- the invariant of the induction: the value encodes, and decoding exactly those bytes returns the value
    (in the shape `decode` gives it) and consumes everything -/
def RTA (t : Ty) (v : PyVal) : Prop :=
  ∃ bs, encode t v = .ok bs ∧ decode t bs = .ok (decodedAs t v, [])

theorem RTA.stable {t : Ty} {v : PyVal} (h : RTA t v) (hs : SelfDelim t) :
    ∃ bs, encode t v = .ok bs ∧ ∀ rest, decode t (bs ++ rest) = .ok (decodedAs t v, rest) := by
  obtain ⟨bs, h1, h2⟩ := h
  exact ⟨bs, h1, fun rest => by simpa using rta_stable t hs bs _ [] h2 rest⟩

/-! ### element lists, with the shape change of the elements -/

theorem rta_list_rt (f : PyVal → R Bytes) (g : Bytes → R (PyVal × Bytes)) (o : PyVal → PyVal)
    (vs : List PyVal)
    (h : ∀ x ∈ vs, ∃ bs, f x = .ok bs ∧ ∀ rest, g (bs ++ rest) = .ok (o x, rest)) :
    ∃ bs, encodeList f vs = .ok bs ∧ ∀ rest, decodeN g vs.length (bs ++ rest) = .ok (vs.map o, rest) := by
  induction vs with
  | nil => exact ⟨[], rfl, fun rest => rfl⟩
  | cons x xs ih =>
    obtain ⟨a, ha, hda⟩ := h x (List.mem_cons_self)
    obtain ⟨r, hr, hdr⟩ := ih (fun y hy => h y (List.mem_cons_of_mem _ hy))
    refine ⟨a ++ r, ?_, ?_⟩
    · simp [encodeList, ha, hr, bind, Except.bind]
    · intro rest
      simp [decodeN, List.append_assoc, hda, hdr, bind, Except.bind]

theorem rta_list_rt_all (f : PyVal → R Bytes) (g : Bytes → R (PyVal × Bytes)) (o : PyVal → PyVal)
    (vs : List PyVal)
    (h : ∀ x ∈ vs, ∃ bs, f x = .ok bs ∧ bs ≠ [] ∧ ∀ rest, g (bs ++ rest) = .ok (o x, rest))
    (h0 : g [] = .error .bufferEmpty) :
    ∃ bs, encodeList f vs = .ok bs ∧
      ∀ fuel, bs.length < fuel → decodeAll g fuel bs = .ok (vs.map o, []) := by
  induction vs with
  | nil =>
    refine ⟨[], rfl, ?_⟩
    intro fuel hf
    cases fuel with
    | zero => simp at hf
    | succ fuel => simp [decodeAll, h0]
  | cons x xs ih =>
    obtain ⟨a, ha, hne, hda⟩ := h x (List.mem_cons_self)
    obtain ⟨r, hr, hdr⟩ := ih (fun y hy => h y (List.mem_cons_of_mem _ hy))
    have hal : 1 ≤ a.length := by
      cases a with
      | nil => exact absurd rfl hne
      | cons _ _ => simp
    refine ⟨a ++ r, ?_, ?_⟩
    · simp [encodeList, ha, hr, bind, Except.bind]
    · intro fuel hf
      cases fuel with
      | zero => simp at hf
      | succ fuel =>
        have hf' : r.length < fuel := by simp at hf; omega
        have := hda r
        simp [decodeAll, this, hdr fuel hf', hne, bind, Except.bind]

/-! ### structures -/

/-- dict lookup in member order agrees with positional encoding -/
theorem rta_membersDict_eq_seq : (ms : Members) → (kvs pre : List (Name × PyVal)) → CanonAllMembers ms kvs →
    (∀ p ∈ pre, some p.1 ∉ ms.names) →
    encodeMembersDict ms (pre ++ kvs) = encodeMembersSeq ms (kvs.map (·.2))
  | .nil, kvs, pre, _, _ => by simp [encodeMembersDict, encodeMembersSeq]
  | .cons none t rest, kvs, pre, h, _ => by simp [CanonAllMembers] at h
  | .cons (some nm) t rest, [], pre, h, _ => by simp [CanonAllMembers] at h
  | .cons (some nm) t rest, (k, v) :: kvs, pre, h, hpre => by
    simp only [CanonAllMembers] at h
    obtain ⟨rfl, hne, hfresh, _, _, hrest⟩ := h
    have hg : dictGet (pre ++ (k, v) :: kvs) k = some v := by
      apply dictGet_fresh
      intro a ha e
      have := hpre a ha
      simp [Members.names, e] at this
    have ih := rta_membersDict_eq_seq rest kvs (pre ++ [(k, v)]) hrest (by
      intro p hp
      simp only [List.mem_append, List.mem_singleton] at hp
      rcases hp with hp | rfl
      · have := hpre p hp
        simp only [Members.names, List.mem_cons, not_or] at this
        exact this.2
      · exact hfresh)
    simp only [List.append_assoc, List.singleton_append] at ih
    simp only [encodeMembersDict, encodeMembersSeq, List.map_cons, hg, ih]

/-! ### StructTag members -/

theorem rta_tmembers_iff : (ms : TMembers) → (priv : List Name) → (kvs : List (Name × PyVal)) →
    (CanonAllTMembers ms priv kvs ↔
      ∀ m ∈ ms.toList, m.1 ∉ priv → ∃ v, dictGet kvs m.1 = some v ∧ CanonAll m.2.1 v)
  | .nil, priv, kvs => by simp [CanonAllTMembers, TMembers.toList]
  | .cons name t off rest, priv, kvs => by
    simp only [CanonAllTMembers, TMembers.toList, List.mem_cons, rta_tmembers_iff rest priv kvs]
    constructor
    · rintro ⟨h1, h2⟩ m (rfl | hm) hp
      · exact h1 hp
      · exact h2 m hm hp
    · intro h
      exact ⟨fun hp => h (name, t, off) (Or.inl rfl) hp, fun m hm hp => h m (Or.inr hm) hp⟩

/-! ### leaves -/

theorem rta_of_canon (t : Ty) (v : PyVal) (h : Canon t v) (hd : decodedAs t v = v) : RTA t v := by
  obtain ⟨bs, h1, h2⟩ := decode_encode t v h
  exact ⟨bs, h1, by rw [hd]; simpa using h2 []⟩

theorem rta_stringI_out (items : List SIItem) :
    stringIOut (.list (items.map SIItem.val)) =
      .tuple [.list (items.map fun i => .str i.s), .list (items.map fun i => .str i.lang),
        .list (items.map fun i => .int i.cset)] := by
  simp only [stringIOut, List.map_map]
  rfl

theorem rta_stringI_out_tuple (items : List SIItem) :
    stringIOut (.tuple (items.map SIItem.val)) =
      .tuple [.list (items.map fun i => .str i.s), .list (items.map fun i => .str i.lang),
        .list (items.map fun i => .int i.cset)] := by
  simp only [stringIOut, List.map_map]
  rfl

theorem rta_stringI (v : PyVal) (h : CanonAll .stringI v) : RTA .stringI v := by
  simp only [CanonAll] at h
  obtain ⟨items, hv, hok, hn⟩ := h
  obtain ⟨enc, he, hd⟩ := stringI_roundtrip items hok hn
  rcases hv with rfl | rfl
  · refine ⟨enc, he, ?_⟩
    simp only [decodedAs, rta_stringI_out]
    simpa using hd []
  · refine ⟨enc, by rw [stringI_tuple_eq_list]; exact he, ?_⟩
    simp only [decodedAs, rta_stringI_out_tuple]
    simpa using hd []

theorem rta_bits (k : IntK) (v : PyVal) (h : CanonAll (.bits k) v) : RTA (.bits k) v := by
  simp only [CanonAll] at h
  obtain ⟨bs, rfl, hlen⟩ := h
  obtain ⟨enc, he, _, _, hd⟩ := rtx_bits_rt k bs hlen
  exact ⟨enc, he, by simp only [decodedAs]; simpa using hd []⟩

theorem rta_nbytes (n : Int) (v : PyVal) (h : CanonAll (.nbytes n) v) : RTA (.nbytes n) v := by
  simp only [CanonAll] at h
  obtain ⟨bs, rfl, h | ⟨rfl, hne⟩⟩ := h
  · exact rta_of_canon (.nbytes n) (.bytes bs) ⟨bs, rfl, h.1, h.2⟩ (by simp only [decodedAs])
  · refine ⟨bs, by simp [encode, encodeNBytes, sliceN], ?_⟩
    simp only [decodedAs, ER.decode_nbytes_eq, ER.decodeNBytes_neg (-1) (by omega), hne, if_false]

theorem rta_bitarr_id (l : ArrLen) (k : IntK) (vs : List PyVal) :
    decodedAs (.arr l (.bits k)) (.list vs) = .list vs := by
  simp only [decodedAs]
  rw [rta_map_id (fun x => argOf (Ty.bits k) x) vs (fun x => rfl)]

/-! ### the induction -/

mutual
theorem rta_full : (t : Ty) → (v : PyVal) → CanonAll t v → RTA t v
  | .bool, v, h => rta_of_canon .bool v (by simpa only [CanonAll] using h) (by simp only [decodedAs])
  | .int k, v, h => rta_of_canon (.int k) v (by simpa only [CanonAll] using h) (by simp only [decodedAs])
  | .real, v, h => rta_of_canon .real v (by simpa only [CanonAll] using h) (by simp only [decodedAs])
  | .lreal, v, h => rta_of_canon .lreal v (by simpa only [CanonAll] using h) (by simp only [decodedAs])
  | .dateAndTime, v, h =>
      rta_of_canon .dateAndTime v (by simpa only [CanonAll] using h) (by simp only [decodedAs])
  | .str lenK enc, v, h =>
      rta_of_canon (.str lenK enc) v (by simpa only [CanonAll] using h) (by simp only [decodedAs])
  | .stringN c, v, h =>
      rta_of_canon (.stringN c) v (by simpa only [CanonAll] using h) (by simp only [decodedAs])
  | .fixedStr size lenK, v, h =>
      rta_of_canon (.fixedStr size lenK) v (by simpa only [CanonAll] using h) (by simp only [decodedAs])
  | .ipAddr, v, h => rta_of_canon .ipAddr v (by simpa only [CanonAll] using h) (by simp only [decodedAs])
  | .stringI, v, h => rta_stringI v h
  | .bits k, v, h => rta_bits k v h
  | .nbytes n, v, h => rta_nbytes n v h
  | .arr (.fixed n) t, v, h => by
    simp only [CanonAll] at h
    rcases h with ⟨k, bools, rfl, rfl, hlen⟩ | ⟨hb, htl, vs, rfl, hlen, hall⟩
    · obtain ⟨enc, he, _, hd⟩ := bitarray_roundtrip n k bools hlen
      refine ⟨enc, he, ?_⟩
      rw [rta_bitarr_id]
      simpa using hd []
    · subst hlen
      have key : ∃ bs, encodeList (fun x => encode t (argOf t x)) vs = .ok bs ∧
          decodeN (decode t) vs.length bs = .ok (vs.map (fun x => decodedAs t (argOf t x)), []) := by
        rcases htl with hn | hs
        · match vs, hn, hall with
          | [], _, _ => exact ⟨[], rfl, rfl⟩
          | [x], _, hall =>
            obtain ⟨a, h1, h2⟩ := rta_full t (argOf t x) (hall x (by simp))
            exact ⟨a ++ [], by simp [encodeList, h1, bind, Except.bind],
              by simp [decodeN, h2, bind, Except.bind]⟩
          | _ :: _ :: _, hn, _ => simp at hn
        · obtain ⟨bs, he, hd⟩ := rta_list_rt (fun x => encode t (argOf t x)) (decode t)
            (fun x => decodedAs t (argOf t x)) vs
            (fun x hx => (rta_full t (argOf t x) (hall x hx)).stable hs)
          exact ⟨bs, he, by simpa using hd []⟩
      obtain ⟨bs, he, hd⟩ := key
      refine ⟨bs, ?_, ?_⟩
      · simp [encode, PyVal.len?, PyVal.seq?, hb, he]
      · simp [decode, hd, hb, decodedAs]
  | .arr (.pref _) _, _, h => by simp [CanonAll] at h
  | .arr .all t, v, h => by
    simp only [CanonAll] at h
    rcases h with ⟨k, m, bools, rfl, rfl, hlen⟩ | ⟨hb, hw, hs, vs, rfl, hall⟩
    · obtain ⟨enc, he, _, hd⟩ := bitarray_roundtrip_unbounded m k bools hlen
      refine ⟨enc, he, ?_⟩
      rw [rta_bitarr_id]
      exact hd
    · obtain ⟨bs, he, hd⟩ := rta_list_rt_all (fun x => encode t (argOf t x)) (decode t)
        (fun x => decodedAs t (argOf t x)) vs
        (fun x hx => by
          obtain ⟨a, h1, h2⟩ := rta_full t (argOf t x) (hall x hx)
          have hp := decode_progress t hw a _ [] h2
          refine ⟨a, h1, ?_, fun rest => by simpa using rta_stable t hs a _ [] h2 rest⟩
          intro e; subst e; simp at hp)
        (rta_decode_nil t hs hw)
      refine ⟨bs, ?_, ?_⟩
      · simp [encode, PyVal.len?, PyVal.seq?, hb, he]
      · simp [decode, hd (bs.length + 1) (Nat.lt_succ_self _), hb, decodedAs]
  | .struct ms, v, h => by
    simp only [CanonAll] at h
    obtain ⟨kvs, rfl, hm⟩ := h
    obtain ⟨bs, he, hd⟩ := rta_fullm ms kvs hm
    have heq := rta_membersDict_eq_seq ms kvs [] hm (by simp)
    simp only [List.nil_append] at heq
    refine ⟨bs, ?_, ?_⟩
    · simp only [encode, heq, he]
    · have := hd [] (by simp)
      simp only [decode, this, List.nil_append, decodedAs]
  | .structTag ms bits priv size, v, h => by
    simp only [CanonAll] at h
    obtain ⟨kvs, rfl, hl, hkeys, hmem, hbits⟩ := h
    have hmem2 := (rta_tmembers_iff ms priv kvs).1 hmem
    obtain ⟨enc, he, _, hd⟩ := rtx_structTag (fun t x => CanonAll t x ∧ ∃ m ∈ ms.toList, m.2.1 = t) (by
        intro t x w hp hw
        obtain ⟨hc, m, hm, hmt⟩ := hp
        subst hmt
        obtain ⟨enc, he, hd⟩ := rta_fullT ms m hm x hc
        rw [rta_fixed_id _ w hw] at hd
        obtain ⟨h1, h2⟩ := fixed_width_needs_width _ w hw enc x [] hd
        have hlen : enc.length ≤ w := List.drop_eq_nil_iff.1 h2.symm
        refine ⟨enc, he, by omega, fun rest => ?_⟩
        simpa using rta_stable _ (rta_fixed_selfDelim _ w hw) enc x [] hd rest)
      ms bits priv size hl kvs ⟨hkeys, fun m hm hp => by
        obtain ⟨x, hx, hc⟩ := hmem2 m hm hp
        exact ⟨x, hx, hc, m, hm, rfl⟩, hbits⟩
    refine ⟨enc, he, ?_⟩
    simp only [decodedAs]
    simpa using hd []
theorem rta_fullm : (ms : Members) → (kvs : List (Name × PyVal)) → CanonAllMembers ms kvs →
    ∃ bs, encodeMembersSeq ms (kvs.map (·.2)) = .ok bs ∧
      ∀ acc, (∀ a ∈ acc, some a.1 ∉ ms.names) →
        decodeMembers ms bs acc = .ok (acc ++ decodedAsMembers ms kvs, [])
  | .nil, kvs, h => by
    simp only [CanonAllMembers] at h
    subst h
    exact ⟨[], by simp [encodeMembersSeq], by intro acc _; simp [decodeMembers, decodedAsMembers]⟩
  | .cons none t rest, kvs, h => by simp [CanonAllMembers] at h
  | .cons (some nm) t rest, [], h => by simp [CanonAllMembers] at h
  | .cons (some nm) t rest, (k, v) :: kvs, h => by
    simp only [CanonAllMembers] at h
    obtain ⟨rfl, hne, hfresh, hc, htail, hrest⟩ := h
    obtain ⟨a, ha, hda⟩ := rta_full t (argOf t v) hc
    obtain ⟨r, hr, hdr⟩ := rta_fullm rest kvs hrest
    have hdec : decode t (a ++ r) = .ok (decodedAs t (argOf t v), r) := by
      rcases htail with hnil | hs
      · rw [hnil] at hr
        simp only [encodeMembersSeq, Except.ok.injEq] at hr
        subst hr
        simpa using hda
      · simpa using rta_stable t hs a _ [] hda r
    have hemp : k.isEmpty = false := by
      cases k with
      | nil => exact absurd rfl hne
      | cons _ _ => rfl
    refine ⟨a ++ r, ?_, ?_⟩
    · simp [encodeMembersSeq, ha, hr, bind, Except.bind]
    · intro acc hacc
      have hset : dictSet acc k (decodedAs t (argOf t v)) = acc ++ [(k, decodedAs t (argOf t v))] := by
        apply dictSet_fresh
        intro x hx e
        have := hacc x hx
        simp [Members.names, e] at this
      have := hdr (acc ++ [(k, decodedAs t (argOf t v))]) (by
        intro p hp
        simp only [List.mem_append, List.mem_singleton] at hp
        rcases hp with hp | rfl
        · have := hacc p hp
          simp only [Members.names, List.mem_cons, not_or] at this
          exact this.2
        · exact hfresh)
      simp only [decodeMembers, hdec, bind, Except.bind, hemp, hset, this, decodedAsMembers]
      simp
theorem rta_fullT : (ms : TMembers) → ∀ m ∈ ms.toList, ∀ v, CanonAll m.2.1 v → RTA m.2.1 v
  | .nil => by
    intro m hm
    simp [TMembers.toList] at hm
  | .cons name t off rest => by
    intro m hm v h
    simp only [TMembers.toList, List.mem_cons] at hm
    rcases hm with rfl | hm
    · exact rta_full t v h
    · exact rta_fullT rest m hm v h
end

end Pycomm
