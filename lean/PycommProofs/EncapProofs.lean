/-
  Proofs for C11 (every emitted frame is a well-formed EtherNet/IP encapsulation message).
  `parseFrame` / `parseCpf` (PycommModel/Encap.lean) are the independent strict parsers.
-/
import PycommModel.Encap
import PycommProofs.ENParse
namespace Pycomm.Encap
open Pycomm.EN

theorem command_lt (r : Req) : r.command < 256 ^ 2 := by
  cases r <;> simp [Req.command, CMD_REGISTER, CMD_UNREGISTER, CMD_LIST_IDENTITY, CMD_SEND_RR, CMD_SEND_UNIT]

/-- a successfully built request, parsed: the one lemma behind all the frame properties -/
theorem parse_built (r : Req) (ctx : Ctx) (f : Bytes) (hc : ctx.context.length = 8)
    (h : buildRequest r ctx = .ok f) :
    ∃ s common, ctx.session = some s ∧ commonOf r ctx common ∧ f.length = 24 + common.length ∧
      parseFrame f = some { command := r.command, session := s, status := 0, context := ctx.context,
                            options := ctx.option, body := common } := by
  obtain ⟨s, common, hs, hs32, ho32, hl, hco, rfl⟩ := buildRequest_nf r ctx f h
  refine ⟨s, common, hs, hco, ?_, ?_⟩
  · simp only [List.length_append, leBytes_length, hc, List.length_cons, List.length_nil]
    omega
  · rw [parseFrame_segments _ _ _ _ _ _ _ (leBytes_length _ _) (leBytes_length _ _) (leBytes_length _ _)
      rfl hc (leBytes_length _ _) (leVal_leBytes 2 _ (by simpa using hl))]
    rw [leVal_leBytes 2 _ (command_lt r), leVal_leBytes 4 s (by simpa using hs32),
      leVal_leBytes 4 ctx.option (by simpa using ho32)]
    rfl

-- PROPERTY THEOREMS

/-- the strict frame parser accepts only what the prose of C11 asks for: a 24-byte header whose length
    field equals the number of bytes that follow, and it reports the header fields as they are on the wire -/
theorem parseFrame_sound (bs : Bytes) (fr : Frame) (h : parseFrame bs = some fr) :
    bs.length = 24 + fr.body.length ∧ leVal ((bs.drop 2).take 2) = fr.body.length ∧
    fr.command = leVal (bs.take 2) ∧ fr.session = leVal ((bs.drop 4).take 4) ∧
    fr.status = leVal ((bs.drop 8).take 4) ∧ fr.options = leVal ((bs.drop 20).take 4) ∧ fr.body = bs.drop 24 := by
  unfold parseFrame at h
  split at h
  · cases h
  · dsimp only at h
    split at h
    · cases h
    · rename_i h1 h2
      simp only [Option.some.injEq] at h
      subst h
      refine ⟨?_, ?_, rfl, rfl, rfl, rfl, rfl⟩ <;> simp only [List.length_drop] <;> omega

/-- acceptance by the common-packet parser means: interface handle 0, exactly two items, item lengths equal to
    their contents, and one of the two legal shapes -/
theorem parseCpf_sound (body : Bytes) (c : Cpf) (h : parseCpf body = some c) :
    leVal (body.take 4) = 0 ∧ leVal ((body.drop 6).take 2) = 2 ∧
    (match c with
     | .unconnected m => body.drop 8 = leBytes 2 ITEM_NULL ++ leBytes 2 0 ++ leBytes 2 ITEM_UNCONNECTED_DATA ++
         leBytes 2 m.length ++ m ∧ m.length < 65536
     | .connected cid seq m => ∃ cidb seqb, cidb.length = 4 ∧ seqb.length = 2 ∧ leVal cidb = cid ∧ leVal seqb = seq ∧
         body.drop 8 = leBytes 2 ITEM_CONNECTION ++ leBytes 2 4 ++ cidb ++ leBytes 2 ITEM_CONNECTED_DATA ++
           leBytes 2 (m.length + 2) ++ seqb ++ m ∧ m.length + 2 < 65536) := by
  obtain ⟨aT, dT, aD, dD, h1, h2, hd, hb, hc⟩ := parseCpf_some body c h
  refine ⟨h1, h2, ?_⟩
  rcases hc with ⟨rfl, ha, rfl, rfl⟩ | ⟨rfl, ha, rfl, hd2, rfl⟩
  · have : aD = [] := List.eq_nil_of_length_eq_zero ha
    subst this
    refine ⟨?_, hd⟩
    rw [hb]
    simp
  · refine ⟨aD, dD.take 2, ha, ?_, rfl, rfl, ?_, ?_⟩
    · simp only [List.length_take]; omega
    · have hl : (dD.drop 2).length + 2 = dD.length := by simp only [List.length_drop]; omega
      rw [hb, ha, hl]
      simp
    · simp only [List.length_drop]; omega

/-- every request the driver builds — whatever the payload length, session handle, context and options —
    is exactly one frame: the strict parser accepts it, the length field counts the body, the command is the
    operation's, the session handle is the driver's, status is zero, options and context are the configured ones -/
theorem frame_wf (r : Req) (ctx : Ctx) (f : Bytes) (hc : ctx.context.length = 8)
    (h : buildRequest r ctx = .ok f) :
    ∃ fr, parseFrame f = some fr ∧ fr.command = r.command ∧ ctx.session = some fr.session ∧ fr.status = 0 ∧
      fr.options = ctx.option ∧ fr.context = ctx.context ∧ f.length = 24 + fr.body.length := by
  obtain ⟨s, common, hs, _, hlen, hp⟩ := parse_built r ctx f hc h
  exact ⟨_, hp, rfl, hs, rfl, rfl, rfl, hlen⟩

/-- SendRRData bodies: null address item + unconnected data item carrying exactly the message -/
theorem cpf_rr_wf (m : Bytes) (ctx : Ctx) (f : Bytes) (hc : ctx.context.length = 8)
    (h : buildRequest (.sendRR m) ctx = .ok f) :
    ∃ fr, parseFrame f = some fr ∧ parseCpf fr.body = some (.unconnected m) := by
  obtain ⟨s, common, hs, hco, hlen, hp⟩ := parse_built _ ctx f hc h
  obtain ⟨hm, rfl⟩ := hco
  exact ⟨_, hp, parseCpf_unconnected m hm⟩

/-- SendUnitData bodies: connection address item holding the target's connection id + connected data item
    that begins with the sequence count and carries exactly the message -/
theorem cpf_unit_wf (seq : Nat) (m : Bytes) (ctx : Ctx) (cid f : Bytes) (hc : ctx.context.length = 8)
    (hcid : ctx.targetCid = some cid) (hl : cid.length = 4)
    (h : buildRequest (.sendUnit seq m) ctx = .ok f) :
    ∃ fr, parseFrame f = some fr ∧ parseCpf fr.body = some (.connected (leVal cid) seq m) := by
  obtain ⟨s, common, hs, hco, hlen, hp⟩ := parse_built _ ctx f hc h
  obtain ⟨hseq, hm, _, rfl⟩ := hco
  refine ⟨_, hp, ?_⟩
  rw [hcid]
  exact parseCpf_connected cid m seq hl hseq hm

/-- RegisterSession: protocol version 1, no option flags, handle 0 before registration -/
theorem register_frame (ctx : Ctx) (f : Bytes) (hc : ctx.context.length = 8) (hs : ctx.session = some 0)
    (h : buildRequest (.registerSession [1, 0] [0, 0]) ctx = .ok f) :
    ∃ fr, parseFrame f = some fr ∧ fr.command = CMD_REGISTER ∧ fr.session = 0 ∧ fr.body = [1, 0, 0, 0] := by
  obtain ⟨s, common, hs', hco, hlen, hp⟩ := parse_built _ ctx f hc h
  rw [hs] at hs'
  cases hs'
  cases hco
  exact ⟨_, hp, rfl, rfl, rfl⟩

/-- UnRegisterSession and ListIdentity have no body -/
theorem bodyless_frames (ctx : Ctx) (f : Bytes) (hc : ctx.context.length = 8) (r : Req)
    (hr : r = .unregisterSession ∨ r = .listIdentity) (h : buildRequest r ctx = .ok f) :
    ∃ fr, parseFrame f = some fr ∧ fr.body = [] ∧ f.length = 24 := by
  obtain ⟨s, common, hs', hco, hlen, hp⟩ := parse_built _ ctx f hc h
  rcases hr with rfl | rfl
  · cases hco
    exact ⟨_, hp, rfl, hlen⟩
  · cases hco
    exact ⟨_, hp, rfl, hlen⟩

/-- building fails (with a library exception) exactly when a length/handle does not fit its field:
    it never produces a frame with a truncated length field -/
theorem build_fails_only_on_overflow (r : Req) (ctx : Ctx) (e : Exn) (h : buildRequest r ctx = .error e) :
    e = .comm ∨ e = .data := by
  exact buildRequest_err r ctx e h

end Pycomm.Encap
