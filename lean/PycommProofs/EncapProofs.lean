/-
  Proofs for C11 (every emitted frame is a well-formed EtherNet/IP encapsulation message).
  `parseFrame` / `parseCpf` (PycommModel/Encap.lean) are the independent strict parsers.
-/
import PycommModel.Encap
namespace Pycomm.Encap

-- PROPERTY THEOREMS

/-- the strict frame parser accepts only what the prose of C11 asks for: a 24-byte header whose length
    field equals the number of bytes that follow, and it reports the header fields as they are on the wire -/
theorem parseFrame_sound (bs : Bytes) (fr : Frame) (h : parseFrame bs = some fr) :
    bs.length = 24 + fr.body.length ∧ leVal ((bs.drop 2).take 2) = fr.body.length ∧
    fr.command = leVal (bs.take 2) ∧ fr.session = leVal ((bs.drop 4).take 4) ∧
    fr.status = leVal ((bs.drop 8).take 4) ∧ fr.options = leVal ((bs.drop 20).take 4) ∧ fr.body = bs.drop 24 := by
  sorry

/-- acceptance by the common-packet parser means: interface handle 0, exactly two items, item lengths equal to
    their contents, and one of the two legal shapes -/
theorem parseCpf_sound (body : Bytes) (c : Cpf) (h : parseCpf body = some c) :
    leVal (body.take 4) = 0 ∧ leVal ((body.drop 6).take 2) = 2 ∧
    (match c with
     | .unconnected m => body.drop 8 = leBytes 2 ITEM_NULL ++ leBytes 2 0 ++ leBytes 2 ITEM_UNCONNECTED_DATA ++
         leBytes 2 m.length ++ m ∧ m.length < 65536
     | .connected cid seq m => ∃ cidb seqb, cidb.length = 4 ∧ seqb.length = 2 ∧ leVal cidb = cid ∧ leVal seqb = seq ∧
         body.drop 8 = leBytes 2 ITEM_CONNECTION ++ leBytes 2 4 ++ cidb ++ leBytes 2 ITEM_CONNECTED_DATA ++
           leBytes 2 (m.length + 2) ++ seqb ++ m ∧ m.length + 2 < 65536) := by
  sorry

/-- every request the driver builds — whatever the payload length, session handle, context and options —
    is exactly one frame: the strict parser accepts it, the length field counts the body, the command is the
    operation's, the session handle is the driver's, status is zero, options and context are the configured ones -/
theorem frame_wf (r : Req) (ctx : Ctx) (f : Bytes) (hc : ctx.context.length = 8)
    (h : buildRequest r ctx = .ok f) :
    ∃ fr, parseFrame f = some fr ∧ fr.command = r.command ∧ ctx.session = some fr.session ∧ fr.status = 0 ∧
      fr.options = ctx.option ∧ fr.context = ctx.context ∧ f.length = 24 + fr.body.length := by
  sorry

/-- SendRRData bodies: null address item + unconnected data item carrying exactly the message -/
theorem cpf_rr_wf (m : Bytes) (ctx : Ctx) (f : Bytes) (hc : ctx.context.length = 8)
    (h : buildRequest (.sendRR m) ctx = .ok f) :
    ∃ fr, parseFrame f = some fr ∧ parseCpf fr.body = some (.unconnected m) := by
  sorry

/-- SendUnitData bodies: connection address item holding the target's connection id + connected data item
    that begins with the sequence count and carries exactly the message -/
theorem cpf_unit_wf (seq : Nat) (m : Bytes) (ctx : Ctx) (cid f : Bytes) (hc : ctx.context.length = 8)
    (hcid : ctx.targetCid = some cid) (hl : cid.length = 4)
    (h : buildRequest (.sendUnit seq m) ctx = .ok f) :
    ∃ fr, parseFrame f = some fr ∧ parseCpf fr.body = some (.connected (leVal cid) seq m) := by
  sorry

/-- RegisterSession: protocol version 1, no option flags, handle 0 before registration -/
theorem register_frame (ctx : Ctx) (f : Bytes) (hc : ctx.context.length = 8) (hs : ctx.session = some 0)
    (h : buildRequest (.registerSession [1, 0] [0, 0]) ctx = .ok f) :
    ∃ fr, parseFrame f = some fr ∧ fr.command = CMD_REGISTER ∧ fr.session = 0 ∧ fr.body = [1, 0, 0, 0] := by
  sorry

/-- UnRegisterSession and ListIdentity have no body -/
theorem bodyless_frames (ctx : Ctx) (f : Bytes) (hc : ctx.context.length = 8) (r : Req)
    (hr : r = .unregisterSession ∨ r = .listIdentity) (h : buildRequest r ctx = .ok f) :
    ∃ fr, parseFrame f = some fr ∧ fr.body = [] ∧ f.length = 24 := by
  sorry

/-- building fails (with a library exception) exactly when a length/handle does not fit its field:
    it never produces a frame with a truncated length field -/
theorem build_fails_only_on_overflow (r : Req) (ctx : Ctx) (e : Exn) (h : buildRequest r ctx = .error e) :
    e = .comm ∨ e = .data := by
  sorry

end Pycomm.Encap
