/-
  C01 / C03 at the driver level, ANY number of requests in one call: `LogixDriver.read(t1, …, tn)` (n ≥ 2) through the
  whole stack of the model (tag-string parsing, `_read_build_multi_requests` with its grouping into Multiple Service
  Packets, `CIPDriver.send`, encapsulation, the reference target's encapsulation layer / message router / Logix
  services executing the embedded requests in order, reply framing, `MultiServiceResponsePacket`, the embedded
  response classes, value decoding, the results table, result assembly).

  Generalises `read_two_tags_e2e` (LogixDriverRead2) and the mixed pairs of LogixDriverFail from two requests to n.

  Layers (lemmas usable on their own):
    LDReadN1  `ldrn_Ent`, `ldrn_adv`, `ldrn_parse`, `ldrn_buildLive`, `ldrn_groups`, `ldrn_seqd`, `ldrn_build`
    LDReadN2  `ldrn_groups_flatten`, `ldrn_groups_nonempty`, `ldrn_groups_fit`, `ldrn_groups_one`
    LDReadN3  `ldrn_exec`, `ldrn_logixService_multi`, `ldrn_sendRequest_multi`, `ldrn_mrr_append`, `ldrn_send_groups`
    LDReadN4  `ldrn_EntOk`, `ldrn_mrr_table`, `ldrn_table_get`, `ldrn_results`, composed `ldrn_read_general`
    LDReadN5  `ldrn_Scalar` / `ldrn_ScalarOk` / `ldrn_scalar_ok`, `ldrn_Elem` / `ldrn_ElemOob` / `ldrn_oob_ok`, `readEstimate`
-/
import PycommProofs.LDReadN5
import PycommProofs.LogixDriverRead2
namespace Pycomm.Lgx.Drv
open Pycomm Pycomm.Tgt Pycomm.Path Pycomm.Reply Pycomm.Encap Pycomm.Lgx Pycomm.Lgx.E2E

/-- one request of the call: a scalar tag `name`, or an array element `name[i]` -/
inductive ldrn_Item where
  | scalar (x : ldrn_Scalar)
  | oob (y : ldrn_Elem)

/-- the request string -/
def ldrn_Item.request : ldrn_Item → Name
  | .scalar x => x.s.name
  | .oob y => y.request

/-- the tag-database entry the request is parsed against -/
def ldrn_Item.info : ldrn_Item → TagInfo
  | .scalar x => x.info
  | .oob y => y.info

/-- the Tag `read` returns for it: name, value, type name for a scalar tag; a falsy Tag carrying the controller's
    status text for an element beyond the array -/
def ldrn_Item.out : ldrn_Item → LTag
  | .scalar x => x.out
  | .oob y => ldx_oobTag y.request

/-- how many Read Tag services the controller completes for it -/
def ldrn_Item.served : ldrn_Item → Nat
  | .scalar _ => 1
  | .oob _ => 0

/-- the hypotheses on it -/
def ldrn_Item.Ok (cfg : Cfg) (st : LState) : ldrn_Item → Prop
  | .scalar x => ldrn_ScalarOk cfg st x
  | .oob y => ldrn_ElemOob cfg st y

def ldrn_entItem (cfg : Cfg) : ldrn_Item → ldrn_Ent
  | .scalar x => ldrn_entScalar cfg x
  | .oob y => ldrn_entOob cfg y

/-- the Multiple Service Packets `_read_build_multi_requests` forms for requests (ids 0, 1, …) with the given
    estimates on a connection of size `C`: the request ids per packet, in order (`K.plan`) -/
def readPackets (C : Nat) (ests : List Nat) : List (List Nat) :=
  (K.plan C (((List.range ests.length).zip ests).map fun p => { id := p.1, error := false, size := p.2 })).groups

theorem ldrn_kitems_range (d : Cli.Drv) (k : Nat) (es : List ldrn_Ent) :
    ldrn_kitems (ldrn_reqs d k es) =
      ((List.range' k es.length).zip (es.map fun e => ldr2_estimate e.info e.path)).map
        fun p => ({ id := p.1, error := false, size := p.2 } : K.Item) := by
  induction es generalizing d k with
  | nil => rfl
  | cons e es ih =>
    rw [ldrn_reqs, List.length_cons, List.range'_succ, List.map_cons, List.zip_cons_cons, List.map_cons, ← ih]
    rfl

theorem ldrn_groups_count (C : Nat) (d : Cli.Drv) (es : List ldrn_Ent) :
    (ldrn_groups C (ldrn_reqs d 0 es)).length = (readPackets C (es.map fun e => ldr2_estimate e.info e.path)).length := by
  unfold ldrn_groups readPackets
  rw [List.length_map, ldrn_kitems_range, List.length_map, List.range_eq_range']

theorem ldrn_lastSeq_eq (d : Cli.Drv) (gs : List (List ReadReq)) (o : Option Nat) (hne : gs ≠ []) :
    ldrn_lastSeq d gs o = some (ldrn_adv (gs.length - 1) d).nextSeq.1 := by
  induction gs generalizing d o with
  | nil => exact absurd rfl hne
  | cons g gs ih =>
    rw [ldrn_lastSeq]
    cases gs with
    | nil => rfl
    | cons g' gs' => rw [ih d.nextSeq.2 _ (List.cons_ne_nil _ _)]; rfl

/-- the frames `CIPDriver.send` writes (driver context `ctx`) for the connected messages `msgs`, one after the other,
    the j-th with the j-th sequence number drawn from `d` -/
def unitFrames (ctx : Encap.Ctx) : Cli.Drv → List Bytes → List Bytes → Prop
  | _, [], [] => True
  | d, m :: ms, f :: fs => Encap.buildRequest (.sendUnit d.nextSeq.1 m) ctx = .ok f ∧ unitFrames ctx d.nextSeq.2 ms fs
  | _, _, _ => False

/-- the Multiple Service Packet messages of a call with the given (request string, tag-database entry) pairs on a
    connection of size `C`: per packet of `readPackets`, service 0x0A to the message router embedding the Read Tag
    messages (one element each) of the requests of that packet, in order -/
def readPacketMsgs (cfg : Cfg) (C : Nat) (reqs : List (Name × TagInfo)) : List Bytes :=
  (readPackets C (reqs.map fun r => readEstimate cfg r.1 r.2)).map fun g =>
    Cl.multiMsg (g.filterMap fun i => (reqs[i]?).map fun r => Cl.readMsg (ldrn_pathOf cfg r.1 r.2) 1)

theorem ldrn_framesOf_unit (ctx : Encap.Ctx) (gs : List (List ReadReq)) (d : Cli.Drv) (frms : List Bytes)
    (h : ldrn_FramesOf ctx d gs frms) : unitFrames ctx d (gs.map fun g => Cl.multiMsg (g.map ldrn_msg)) frms := by
  induction gs generalizing d frms with
  | nil =>
    cases frms with
    | nil => trivial
    | cons _ _ => exact h.elim
  | cons g gs ih =>
    cases frms with
    | nil => exact h.elim
    | cons f fs => exact ⟨h.1, ih _ _ h.2⟩

theorem ldrn_find_msg (d : Cli.Drv) (k : Nat) (es : List ldrn_Ent) (i : Nat) :
    ((ldrn_reqs d k es).find? (·.rid == k + i)).map ldrn_msg = (es[i]?).map fun e => Cl.readMsg e.path 1 := by
  induction es generalizing d k i with
  | nil => rfl
  | cons e es ih =>
    rw [ldrn_reqs, List.find?_cons]
    cases i with
    | zero => simp [ldrn_msg]
    | succ i =>
      have hne : (k == k + (i + 1)) = false := by simp
      simp only [hne, List.getElem?_cons_succ]
      have := ih d.nextSeq.2 (k + 1) i
      rw [show k + 1 + i = k + (i + 1) by omega] at this
      exact this

theorem ldrn_reqs_msgs (d : Cli.Drv) (k : Nat) (es : List ldrn_Ent) :
    (ldrn_reqs d k es).map ldrn_msg = es.map fun e => Cl.readMsg e.path 1 := by
  induction es generalizing d k with
  | nil => rfl
  | cons e es ih => rw [ldrn_reqs, List.map_cons, ih, List.map_cons]; rfl

theorem ldrn_filterMap_congr {α β} (f g : α → Option β) (l : List α) (h : ∀ x ∈ l, f x = g x) :
    l.filterMap f = l.filterMap g := by
  induction l with
  | nil => rfl
  | cons a t ih =>
    rw [List.filterMap_cons, List.filterMap_cons, h a List.mem_cons_self, ih (fun x hx => h x (List.mem_cons_of_mem _ hx))]

/-- the messages of the groups are `readPacketMsgs` -/
theorem ldrn_groups_msgs (cfg : Cfg) (C : Nat) (d : Cli.Drv) (its : List ldrn_Item) :
    (ldrn_groups C (ldrn_reqs d 0 (its.map (ldrn_entItem cfg)))).map (fun g => Cl.multiMsg (g.map ldrn_msg)) =
      readPacketMsgs cfg C (its.map fun it => (it.request, it.info)) := by
  have hests : ((its.map (ldrn_entItem cfg)).map fun e => ldr2_estimate e.info e.path) =
      (its.map fun it => (it.request, it.info)).map fun r => readEstimate cfg r.1 r.2 := by
    rw [List.map_map, List.map_map]; apply List.map_congr_left; intro it _; cases it <;> rfl
  unfold ldrn_groups readPacketMsgs readPackets
  rw [ldrn_kitems_range, List.map_map, List.length_map, hests, List.range_eq_range', List.length_map, List.length_map]
  apply List.map_congr_left
  intro g _
  simp only [Function.comp]
  rw [List.map_filterMap]
  congr 1
  apply ldrn_filterMap_congr
  intro i _
  have := ldrn_find_msg d 0 (its.map (ldrn_entItem cfg)) i
  rw [Nat.zero_add] at this
  rw [this, List.getElem?_map, List.getElem?_map, Option.map_map, Option.map_map]
  cases its[i]? with
  | none => rfl
  | some it => cases it <;> rfl

/-- `read` of n ≥ 2 requests, each a scalar tag or an element beyond an array, none of which needs the fragmented
    service; `M` bounds the accounted size of every packet -/
theorem ldrn_read_items (cfg : Cfg) (w : Cli.World Ext) (sess : Nat) (cidb : Bytes) (conn : Conn) (st : LState)
    (its : List ldrn_Item)
    (hw : ldr_Healthy w sess cidb conn) (hlogix : w.net.target.ext.logix = some st) (hmicro : cfg.micro800 = false)
    (hbytes : ∀ s' ∈ st.proj.controller, ∀ ch ∈ s'.name, ch < 256)
    (hn : 2 ≤ its.length) (hok : ∀ it ∈ its, it.Ok cfg st)
    (hf : ∀ it ∈ its, readEstimate cfg it.request it.info + K.OVERHEAD ≤ w.drv.connectionSize)
    (M : Nat)
    (hgM : ∀ g ∈ ldrn_groups w.drv.connectionSize (ldrn_reqs w.drv 0 (its.map (ldrn_entItem cfg))),
      K.OVERHEAD + (g.map ldrn_est).sum ≤ M)
    (hMT : M ≤ conn.size) (hM64 : M ≤ 65400) :
    ∃ w' frms, read hookAll cfg w (its.map (·.request)) = (w', .ok (its.map (·.out))) ∧
      w'.drv = ldrn_adv (its.length +
        (ldrn_groups w.drv.connectionSize (ldrn_reqs w.drv 0 (its.map (ldrn_entItem cfg)))).length) w.drv ∧
      w'.net.sent = w.net.sent ++ frms ∧
      frms.length = (ldrn_groups w.drv.connectionSize (ldrn_reqs w.drv 0 (its.map (ldrn_entItem cfg)))).length ∧
      ldrn_FramesOf w.drv.ctx (ldrn_adv its.length w.drv)
        (ldrn_groups w.drv.connectionSize (ldrn_reqs w.drv 0 (its.map (ldrn_entItem cfg)))) frms ∧
      w'.net.target.ext = { w.net.target.ext with logix := some { st with ctr := st.ctr + (its.map (·.served)).sum } } ∧
      ldr_Healthy w' sess cidb { conn with
        lastSeq := (ldrn_lastSeq (ldrn_adv its.length w.drv)
          (ldrn_groups w.drv.connectionSize (ldrn_reqs w.drv 0 (its.map (ldrn_entItem cfg)))) conn.lastSeq) } := by
  have htag : (its.map (ldrn_entItem cfg)).map (·.tag) = its.map (·.request) := by
    rw [List.map_map]; apply List.map_congr_left; intro it _; cases it <;> rfl
  have hres : (its.map (ldrn_entItem cfg)).map (·.res) = its.map (·.out) := by
    rw [List.map_map]; apply List.map_congr_left; intro it _; cases it <;> rfl
  have hadv : (its.map (ldrn_entItem cfg)).map (·.adv) = its.map (·.served) := by
    rw [List.map_map]; apply List.map_congr_left; intro it _; cases it <;> rfl
  have hest : ∀ it : ldrn_Item, ldr2_estimate (ldrn_entItem cfg it).info (ldrn_entItem cfg it).path =
      readEstimate cfg it.request it.info := by
    intro it; cases it <;> rfl
  have hf' : ∀ e ∈ its.map (ldrn_entItem cfg), ldr2_estimate e.info e.path + K.OVERHEAD ≤ w.drv.connectionSize := by
    intro e he
    obtain ⟨it, hit, rfl⟩ := List.mem_map.1 he
    rw [hest]; exact hf it hit
  -- every request is in some packet, so its estimate is within `M`
  have hcap : ∀ it ∈ its, readEstimate cfg it.request it.info + K.OVERHEAD ≤ conn.size := by
    intro it hit
    have hfq : ∀ q ∈ ldrn_reqs w.drv 0 (its.map (ldrn_entItem cfg)), ldrn_est q + K.OVERHEAD ≤ w.drv.connectionSize := by
      intro q hq
      obtain ⟨e, he, _, hi, hp, _⟩ := ldrn_reqs_mem _ _ _ q hq
      unfold ldrn_est; rw [hi, hp]; exact hf' e he
    have hflat := ldrn_groups_flatten w.drv.connectionSize _ (ldrn_reqs_nodup w.drv 0 (its.map (ldrn_entItem cfg))) hfq
    have hmem : readEstimate cfg it.request it.info ∈
        (ldrn_reqs w.drv 0 (its.map (ldrn_entItem cfg))).map ldrn_est := by
      rw [ldrn_reqs_est, List.map_map]
      exact List.mem_map.2 ⟨it, hit, hest it⟩
    obtain ⟨q, hq, hqe⟩ := List.mem_map.1 hmem
    rw [← hflat] at hq
    obtain ⟨g, hg, hqg⟩ := List.mem_flatten.1 hq
    have h1 := hgM g hg
    have h2 := ldrn_le_sum ldrn_est g q hqg
    omega
  have hok' : ∀ e ∈ its.map (ldrn_entItem cfg), ldrn_EntOk cfg st (conn.size - 2) e := by
    intro e he
    obtain ⟨it, hit, rfl⟩ := List.mem_map.1 he
    have hc := hcap it hit
    have hoh : K.OVERHEAD = 10 := rfl
    cases it with
    | scalar x =>
      have hx : ldrn_ScalarOk cfg st x := hok _ hit
      have := (ldrn_scalar_est cfg st x hx).1
      exact ldrn_scalar_ok cfg st _ x hbytes hx (by
        have hc' : readEstimate cfg x.s.name x.info + K.OVERHEAD ≤ conn.size := hc
        omega)
    | oob y => exact ldrn_oob_ok cfg st _ y hbytes (hok _ hit)
  have h := ldrn_read_general cfg w sess cidb conn st (its.map (ldrn_entItem cfg)) hw hlogix hmicro
    (by rw [List.length_map]; exact hn) hok' hf' M hgM hMT hM64
  rw [htag, hres, hadv, List.length_map] at h
  exact h

/-- the one group when everything fits one packet -/
theorem ldrn_items_one (cfg : Cfg) (d : Cli.Drv) (C : Nat) (its : List ldrn_Item) (hn : 2 ≤ its.length)
    (hone : K.OVERHEAD + (its.map fun it => readEstimate cfg it.request it.info).sum ≤ C) :
    ldrn_groups C (ldrn_reqs d 0 (its.map (ldrn_entItem cfg))) = [ldrn_reqs d 0 (its.map (ldrn_entItem cfg))] ∧
    (ldrn_reqs d 0 (its.map (ldrn_entItem cfg))).map ldrn_est = its.map fun it => readEstimate cfg it.request it.info := by
  have hest : (ldrn_reqs d 0 (its.map (ldrn_entItem cfg))).map ldrn_est =
      its.map fun it => readEstimate cfg it.request it.info := by
    rw [ldrn_reqs_est, List.map_map]
    apply List.map_congr_left
    intro it _
    cases it <;> rfl
  refine ⟨ldrn_groups_one C _ (ldrn_reqs_nodup d 0 _) ?_ (by rw [hest]; exact hone), hest⟩
  intro h
  have := ldrn_reqs_length d 0 (its.map (ldrn_entItem cfg))
  rw [h, List.length_map, List.length_nil] at this
  omega

-- PROPERTY THEOREMS

/-- C01 / C03, driver level, n requests with failures isolated, ONE packet: `read(t1, …, tn)` (n ≥ 2, any n) where
    every request is either a controller-scope elementary scalar tag (`.scalar`) or an element `name[i]` beyond a
    one-dimensional controller-scope array (`.oob`, which the controller refuses with status 0xFF / 0x2105), on a
    healthy connected driver that is not a Micro800, when all n requests fit ONE Multiple Service Packet by the
    driver's accounting (`hone`): no exception; exactly one frame is written — the frame `CIPDriver.send` builds for
    the Multiple Service Packet embedding the n one-element Read Tag messages in request order, with the (n+1)-th
    sequence number —; n + 1 sequence numbers are drawn (one per embedded Read Tag packet, one for the multi-service
    packet); the result list holds, in request order, for
    each scalar tag exactly `Tag(name, value decoded from its symbol's memory, type name, None)` and for each refused
    request a falsy Tag named as requested whose error is the controller's status text
    (`read_n_refused_tag_names_status`) — ANY subset of the requests may be refused, the others are unaffected; the
    controller's project is unchanged (its schedule counter advances by the number of served requests); the
    resulting world is healthy again. Requests may repeat.

    Hypotheses: `hw` healthy world; `hlogix` Logix target; `hmicro` not a Micro800 (a Micro800 sends single
    requests); `hbytes` byte-string symbol names; `hok`: per request the hypotheses of `read_atomic_scalar_e2e`
    (`ldrn_ScalarOk`) resp. of the refused element of LogixDriverFail (`ldrn_ElemOob`); `hone`, `hT`, `h64`: the
    accounted size of the packet — 10 + Σ `readEstimate` — fits the driver's connection size, the size the target
    registered for the connection, and 65400 (one encapsulation frame; real connection sizes are at most 4002). -/
theorem read_n_tags_isolated_e2e (cfg : Cfg) (w : Cli.World Ext) (sess : Nat) (cidb : Bytes) (conn : Conn) (st : LState)
    (its : List ldrn_Item)
    (hw : ldr_Healthy w sess cidb conn) (hlogix : w.net.target.ext.logix = some st) (hmicro : cfg.micro800 = false)
    (hbytes : ∀ s' ∈ st.proj.controller, ∀ ch ∈ s'.name, ch < 256)
    (hn : 2 ≤ its.length) (hok : ∀ it ∈ its, it.Ok cfg st)
    (hone : K.OVERHEAD + (its.map fun it => readEstimate cfg it.request it.info).sum ≤ w.drv.connectionSize)
    (hT : K.OVERHEAD + (its.map fun it => readEstimate cfg it.request it.info).sum ≤ conn.size)
    (h64 : K.OVERHEAD + (its.map fun it => readEstimate cfg it.request it.info).sum ≤ 65400) :
    ∃ w' frm, read hookAll cfg w (its.map (·.request)) = (w', .ok (its.map (·.out))) ∧
      w'.drv = ldrn_adv (its.length + 1) w.drv ∧ w'.net.sent = w.net.sent ++ [frm] ∧
      Encap.buildRequest (.sendUnit (ldrn_adv its.length w.drv).nextSeq.1
        (Cl.multiMsg (its.map fun it => Cl.readMsg (ldrn_pathOf cfg it.request it.info) 1))) w.drv.ctx = .ok frm ∧
      w'.net.target.ext = { w.net.target.ext with logix := some { st with ctr := st.ctr + (its.map (·.served)).sum } } ∧
      ldr_Healthy w' sess cidb { conn with lastSeq := some (ldrn_adv its.length w.drv).nextSeq.1 } := by
  obtain ⟨hg, hest⟩ := ldrn_items_one cfg w.drv w.drv.connectionSize its hn hone
  have hf : ∀ it ∈ its, readEstimate cfg it.request it.info + K.OVERHEAD ≤ w.drv.connectionSize := by
    intro it hit
    have := ldrn_le_sum (fun it : ldrn_Item => readEstimate cfg it.request it.info) its it hit
    omega
  obtain ⟨w', frms, hread, hd, hsent, hlen, hfrms, hext, hh⟩ := ldrn_read_items cfg w sess cidb conn st its hw hlogix hmicro hbytes
    hn hok hf (K.OVERHEAD + (its.map fun it => readEstimate cfg it.request it.info).sum)
    (by
      intro g hgm
      rw [hg, List.mem_singleton] at hgm
      rw [hgm, hest]
      exact Nat.le_refl _)
    hT h64
  rw [hg] at hd hlen hh hfrms
  obtain ⟨frm, rfl⟩ := List.length_eq_one_iff.1 hlen
  have hmsgs : (ldrn_reqs w.drv 0 (its.map (ldrn_entItem cfg))).map ldrn_msg =
      its.map fun it => Cl.readMsg (ldrn_pathOf cfg it.request it.info) 1 := by
    rw [ldrn_reqs_msgs, List.map_map]; apply List.map_congr_left; intro it _; cases it <;> rfl
  have hfrm := hfrms.1
  rw [hmsgs] at hfrm
  exact ⟨w', frm, hread, hd, hsent, hfrm, hext, hh⟩

/-- the Tag of a refused element request is falsy and names the status: its error is the text of general status
    0xFF with extended status 0x2105 -/
theorem read_n_refused_tag_names_status (y : ldrn_Elem) :
    (ldrn_Item.oob y).out.truthy = false ∧ (ldrn_Item.oob y).out.tag = y.s.name ++ [91] ++ decRender y.i ++ [93] ∧
    (ldrn_Item.oob y).out.error = some (.reply (.text
      (Drv.nm "General Error (see extended status) - Access beyond end of the object  (ff, 2105)"))) := by
  refine ⟨rfl, ?_, ?_⟩
  · show renderLevel ⟨y.s.name, [y.i]⟩ = _
    exact ldr2_renderLevel_elem _ _
  · show some (TagErr.reply (.text (ldx_errText { status := 0xFF, ext := [0x2105] }))) = _
    rw [ldx_oob_text]

/-- C01 / C03, driver level, n tags in ONE packet: `read(s1.name, …, sn.name)` (n ≥ 2, any n) of controller-scope
    elementary (non-bit-string) scalar tags on a healthy connected driver that is not a Micro800, when all n requests
    fit ONE Multiple Service Packet by the driver's accounting: exactly one frame is written (the Multiple Service
    Packet embedding the n Read Tag messages in request order), n + 1 sequence numbers are drawn, and the result list is exactly `[Tag(si.name, value_i, type_i, None)]` in request order, each value
    decoded from its symbol's memory; the controller's project is unchanged (its schedule counter advances by n); the
    resulting world is healthy again. The tags need not be distinct.

    Hypotheses as in `read_two_tags_e2e`, per tag collected in `ldrn_ScalarOk` (`hok`); `hone`, `hT`, `h64` as in
    `read_n_tags_isolated_e2e`. -/
theorem read_n_tags_one_packet_e2e (cfg : Cfg) (w : Cli.World Ext) (sess : Nat) (cidb : Bytes) (conn : Conn)
    (st : LState) (xs : List ldrn_Scalar)
    (hw : ldr_Healthy w sess cidb conn) (hlogix : w.net.target.ext.logix = some st) (hmicro : cfg.micro800 = false)
    (hbytes : ∀ s' ∈ st.proj.controller, ∀ ch ∈ s'.name, ch < 256)
    (hn : 2 ≤ xs.length) (hok : ∀ x ∈ xs, ldrn_ScalarOk cfg st x)
    (hone : K.OVERHEAD + (xs.map fun x => readEstimate cfg x.s.name x.info).sum ≤ w.drv.connectionSize)
    (hT : K.OVERHEAD + (xs.map fun x => readEstimate cfg x.s.name x.info).sum ≤ conn.size)
    (h64 : K.OVERHEAD + (xs.map fun x => readEstimate cfg x.s.name x.info).sum ≤ 65400) :
    ∃ w' frm, read hookAll cfg w (xs.map (·.s.name)) =
        (w', .ok (xs.map fun x => { tag := x.s.name, value := x.v, type := some x.name, error := none })) ∧
      w'.drv = ldrn_adv (xs.length + 1) w.drv ∧ w'.net.sent = w.net.sent ++ [frm] ∧
      Encap.buildRequest (.sendUnit (ldrn_adv xs.length w.drv).nextSeq.1
        (Cl.multiMsg (xs.map fun x => Cl.readMsg (ldrn_pathOf cfg x.s.name x.info) 1))) w.drv.ctx = .ok frm ∧
      w'.net.target.ext = { w.net.target.ext with logix := some { st with ctr := st.ctr + xs.length } } ∧
      ldr_Healthy w' sess cidb { conn with lastSeq := some (ldrn_adv xs.length w.drv).nextSeq.1 } := by
  have hsum : ((xs.map ldrn_Item.scalar).map fun it => readEstimate cfg it.request it.info) =
      xs.map fun x => readEstimate cfg x.s.name x.info := by rw [List.map_map]; rfl
  have hserved : ((xs.map ldrn_Item.scalar).map (·.served)).sum = xs.length := by
    rw [List.map_map]
    clear hn hok hone hT h64 hsum
    induction xs with
    | nil => rfl
    | cons x xs ih => rw [List.map_cons, List.sum_cons, ih, List.length_cons]; simp [ldrn_Item.served]; omega
  have h := read_n_tags_isolated_e2e cfg w sess cidb conn st (xs.map .scalar) hw hlogix hmicro hbytes
    (by rw [List.length_map]; exact hn)
    (by intro it hit; obtain ⟨x, hx, rfl⟩ := List.mem_map.1 hit; exact hok x hx)
    (by rw [hsum]; exact hone) (by rw [hsum]; exact hT) (by rw [hsum]; exact h64)
  rw [hserved, List.length_map, List.map_map, List.map_map, List.map_map] at h
  exact h

/-- the packets of `readPackets` partition the requests in request order and none is empty, when no request needs the
    fragmented service (`K.plan_partition`, `K.plan_no_empty_group`; `K.plan_groups_fit`: each fits `C` by the loop's
    accounting) -/
theorem read_packets_partition (C : Nat) (ests : List Nat) (hfit : ∀ e ∈ ests, e + K.OVERHEAD ≤ C) :
    (readPackets C ests).flatten = List.range ests.length ∧ ∀ g ∈ readPackets C ests, g ≠ [] := by
  refine ⟨?_, K.plan_no_empty_group C _⟩
  unfold readPackets
  rw [(K.plan_partition C _).1]
  have h1 : ∀ (l : List K.Item), (∀ x ∈ l, x.error = false ∧ x.size + K.OVERHEAD ≤ C) →
      (l.filter (!·.error)).filter (fun i => !(i.size + K.OVERHEAD > C)) = l := by
    intro l hl
    have e1 : l.filter (!·.error) = l := by
      rw [List.filter_eq_self]; intro x hx; simp [(hl x hx).1]
    rw [e1, List.filter_eq_self]
    intro x hx
    have := (hl x hx).2
    simp only [Bool.not_eq_eq_eq_not, Bool.not_true, decide_eq_false_iff_not]
    omega
  rw [h1 _ (by
    intro x hx
    obtain ⟨p, hp, rfl⟩ := List.mem_map.1 hx
    exact ⟨rfl, hfit p.2 (List.of_mem_zip hp).2⟩)]
  rw [List.map_map]
  show ((List.range ests.length).zip ests).map (fun p => p.1) = _
  rw [← List.unzip_fst, List.unzip_zip (by simp)]

/-- C01 / C03, driver level, n requests in k packets, failures isolated: `read(t1, …, tn)` (n ≥ 2, any n), every
    request a controller-scope elementary scalar tag or an element beyond a one-dimensional array (as in
    `read_n_tags_isolated_e2e`), on a healthy connected driver that is not a Micro800, WITHOUT the one-packet
    assumption: the driver's greedy grouping (`readPackets`, i.e. `K.plan` over the estimates `readEstimate`) splits
    the requests into k Multiple Service Packets; exactly k frames are written, n + k sequence numbers are drawn (the
    n embedded Read Tag packets first, then the k multi-service packets in order), and the result list is still
    exactly the per-request Tags in request order — whatever packet a refused request travels in, every other
    request gets its own Tag; the controller's project is unchanged (schedule counter + number of served requests);
    the resulting world is healthy again, the last sequence count seen by the target being the one of the last packet.

    Hypotheses beyond `read_n_tags_isolated_e2e`: `hfit1` every request alone fits a multi-service packet (otherwise
    the driver sends it with the fragmented service; for a scalar tag that needs a connection size below
    `name length + 38`); `hCT` the target registered at least the connection size the driver accounts with (after a
    Forward Open the two are equal); `hC64` that size is at most 65400.

    The frames: `unitFrames` — the j-th frame written is the frame `CIPDriver.send` builds for the j-th message of
    `readPacketMsgs` (the Multiple Service Packet over the requests of the j-th packet of `readPackets`, in request
    order) with the (n + j)-th sequence number. -/
-- STATEMENT CHANGED: "the requests are split into k packets by the driver's grouping and k frames are sent" is false of
-- the model without `hfit1`: on a connection of 25 bytes the estimates of `abc`, `flt`, `cnt` (16 bytes) plus the
-- multi-service overhead (10) exceed the connection size, so the driver sends these three with the Read Tag Fragmented
-- service — one frame each, after the multi-service packets, each with a second sequence number —: `readPackets` has 2
-- packets ([[1], [4]]) but 5 frames are written and 10 sequence numbers are drawn (`#guard`s in `ExN` below). The five
-- Tags are still the right ones there; the fragmented path is the subject of LogixDriverRead3. The theorems below
-- therefore assume `hfit1`: no request needs the fragmented service.
theorem read_n_items_e2e (cfg : Cfg) (w : Cli.World Ext) (sess : Nat) (cidb : Bytes) (conn : Conn)
    (st : LState) (its : List ldrn_Item)
    (hw : ldr_Healthy w sess cidb conn) (hlogix : w.net.target.ext.logix = some st) (hmicro : cfg.micro800 = false)
    (hbytes : ∀ s' ∈ st.proj.controller, ∀ ch ∈ s'.name, ch < 256)
    (hn : 2 ≤ its.length) (hok : ∀ it ∈ its, it.Ok cfg st)
    (hfit1 : ∀ it ∈ its, readEstimate cfg it.request it.info + K.OVERHEAD ≤ w.drv.connectionSize)
    (hCT : w.drv.connectionSize ≤ conn.size) (hC64 : w.drv.connectionSize ≤ 65400) :
    ∃ w' frms, read hookAll cfg w (its.map (·.request)) = (w', .ok (its.map (·.out))) ∧
      frms.length = (readPackets w.drv.connectionSize (its.map fun it => readEstimate cfg it.request it.info)).length ∧
      1 ≤ frms.length ∧
      w'.drv = ldrn_adv (its.length + frms.length) w.drv ∧ w'.net.sent = w.net.sent ++ frms ∧
      unitFrames w.drv.ctx (ldrn_adv its.length w.drv)
        (readPacketMsgs cfg w.drv.connectionSize (its.map fun it => (it.request, it.info))) frms ∧
      w'.net.target.ext = { w.net.target.ext with logix := some { st with ctr := st.ctr + (its.map (·.served)).sum } } ∧
      ldr_Healthy w' sess cidb { conn with lastSeq := some (ldrn_adv (its.length + (frms.length - 1)) w.drv).nextSeq.1 } := by
  have hnd := ldrn_reqs_nodup w.drv 0 (its.map (ldrn_entItem cfg))
  obtain ⟨w', frms, hread, hd, hsent, hlen, hfrms, hext, hh⟩ := ldrn_read_items cfg w sess cidb conn st its hw hlogix
    hmicro hbytes hn hok hfit1 w.drv.connectionSize (ldrn_groups_fit _ _ hnd) hCT hC64
  have hframes := ldrn_framesOf_unit _ _ _ _ hfrms
  rw [ldrn_groups_msgs] at hframes
  have hcount := ldrn_groups_count w.drv.connectionSize w.drv (its.map (ldrn_entItem cfg))
  have hests : ((its.map (ldrn_entItem cfg)).map fun e => ldr2_estimate e.info e.path) =
      its.map fun it => readEstimate cfg it.request it.info := by
    rw [List.map_map]; apply List.map_congr_left; intro it _; cases it <;> rfl
  rw [hests] at hcount
  have hgne : ldrn_groups w.drv.connectionSize (ldrn_reqs w.drv 0 (its.map (ldrn_entItem cfg))) ≠ [] := by
    intro h
    have hfq : ∀ q ∈ ldrn_reqs w.drv 0 (its.map (ldrn_entItem cfg)), ldrn_est q + K.OVERHEAD ≤ w.drv.connectionSize := by
      intro q hq
      obtain ⟨e, he, _, hi, hp, _⟩ := ldrn_reqs_mem _ _ _ q hq
      obtain ⟨it, hit, rfl⟩ := List.mem_map.1 he
      have := hfit1 it hit
      unfold ldrn_est; rw [hi, hp]
      cases it <;> exact this
    have hflat := ldrn_groups_flatten w.drv.connectionSize _ hnd hfq
    rw [h, List.flatten_nil] at hflat
    have := ldrn_reqs_length w.drv 0 (its.map (ldrn_entItem cfg))
    rw [← hflat, List.length_nil, List.length_map] at this
    omega
  rw [ldrn_lastSeq_eq _ _ _ hgne, ← ldrn_adv_add, ← hlen] at hh
  rw [← hlen] at hd
  have hpos : 1 ≤ frms.length := by
    rw [hlen]
    exact Nat.succ_le_of_lt (List.length_pos_iff.2 hgne)
  exact ⟨w', frms, hread, by rw [hlen, hcount], hpos, hd, hsent, hframes, hext, hh⟩

/-- C01 / C03, driver level, n tags in k packets: `read(s1.name, …, sn.name)` (n ≥ 2, any n) of controller-scope
    elementary scalar tags on a healthy connected driver that is not a Micro800, WITHOUT the one-packet assumption:
    the driver's greedy grouping (`readPackets`) splits the requests into k Multiple Service Packets; exactly k frames
    are written (`unitFrames`: the frames of the messages `readPacketMsgs`), n + k sequence numbers are drawn, and the
    result list is still exactly `[Tag(si.name, value_i, type_i, None)]` in request order; the controller's project is unchanged (schedule counter
    + n); the resulting world is healthy again. Hypotheses as in `read_n_items_e2e`. -/
theorem read_n_tags_e2e (cfg : Cfg) (w : Cli.World Ext) (sess : Nat) (cidb : Bytes) (conn : Conn)
    (st : LState) (xs : List ldrn_Scalar)
    (hw : ldr_Healthy w sess cidb conn) (hlogix : w.net.target.ext.logix = some st) (hmicro : cfg.micro800 = false)
    (hbytes : ∀ s' ∈ st.proj.controller, ∀ ch ∈ s'.name, ch < 256)
    (hn : 2 ≤ xs.length) (hok : ∀ x ∈ xs, ldrn_ScalarOk cfg st x)
    (hfit1 : ∀ x ∈ xs, readEstimate cfg x.s.name x.info + K.OVERHEAD ≤ w.drv.connectionSize)
    (hCT : w.drv.connectionSize ≤ conn.size) (hC64 : w.drv.connectionSize ≤ 65400) :
    ∃ w' frms, read hookAll cfg w (xs.map (·.s.name)) =
        (w', .ok (xs.map fun x => { tag := x.s.name, value := x.v, type := some x.name, error := none })) ∧
      frms.length = (readPackets w.drv.connectionSize (xs.map fun x => readEstimate cfg x.s.name x.info)).length ∧
      1 ≤ frms.length ∧
      w'.drv = ldrn_adv (xs.length + frms.length) w.drv ∧ w'.net.sent = w.net.sent ++ frms ∧
      unitFrames w.drv.ctx (ldrn_adv xs.length w.drv)
        (readPacketMsgs cfg w.drv.connectionSize (xs.map fun x => (x.s.name, x.info))) frms ∧
      w'.net.target.ext = { w.net.target.ext with logix := some { st with ctr := st.ctr + xs.length } } ∧
      ldr_Healthy w' sess cidb { conn with lastSeq := some (ldrn_adv (xs.length + (frms.length - 1)) w.drv).nextSeq.1 } := by
  have hsum : ((xs.map ldrn_Item.scalar).map fun it => readEstimate cfg it.request it.info) =
      xs.map fun x => readEstimate cfg x.s.name x.info := by rw [List.map_map]; rfl
  have hserved : ((xs.map ldrn_Item.scalar).map (·.served)).sum = xs.length := by
    rw [List.map_map]
    clear hn hok hfit1 hsum
    induction xs with
    | nil => rfl
    | cons x xs ih => rw [List.map_cons, List.sum_cons, ih, List.length_cons]; simp [ldrn_Item.served]; omega
  have h := read_n_items_e2e cfg w sess cidb conn st (xs.map .scalar) hw hlogix hmicro hbytes
    (by rw [List.length_map]; exact hn)
    (by intro it hit; obtain ⟨x, hx, rfl⟩ := List.mem_map.1 hit; exact hok x hx)
    (by intro it hit; obtain ⟨x, hx, rfl⟩ := List.mem_map.1 hit; exact hfit1 x hx) hCT hC64
  rw [hserved, hsum, List.length_map, List.map_map, List.map_map, List.map_map] at h
  exact h

/-! ### non-vacuity: all hypotheses instantiated on a concrete project and worlds obtained by running the model -/

namespace ExN
open Ex

/-- `flt : REAL` = 1.5 -/
def symFlt : Symbol :=
  { inst := 13, name := Drv.nm "flt", symbolType := 0xCA, dims := [0, 0, 0], attr3 := 0, attr5 := 0, attr6 := 2 ^ 26,
    access := 0, mem := [0, 0, 0xC0, 0x3F] }
/-- `cnt : DINT` = -2 -/
def symCnt : Symbol :=
  { inst := 14, name := Drv.nm "cnt", symbolType := 0xC4, dims := [0, 0, 0], attr3 := 0, attr5 := 0, attr6 := 2 ^ 26,
    access := 0, mem := [0xFE, 0xFF, 0xFF, 0xFF] }
/-- `lim : INT` = 7 -/
def symLim : Symbol :=
  { inst := 15, name := Drv.nm "lim", symbolType := 0xC3, dims := [0, 0, 0], attr3 := 0, attr5 := 0, attr6 := 2 ^ 26,
    access := 0, mem := [7, 0] }
/-- five scalar tags (`abc : DINT` = 42, `xyz : INT` = -32763, `flt`, `cnt`, `lim`) and `arr : DINT[4]` -/
def projN : Project := { templates := [], controller := [sym, symArr, symXyz, symFlt, symCnt, symLim], programs := [] }
def stateN : LState := { proj := projN }
/-- a fresh driver with connection size `C` in front of a fresh target holding the project -/
def worldN0 (C : Nat) : Cli.World Ext :=
  { drv := { connectionSize := C }, net := { target := { base := base, ext := { logix := some stateN } } } }
/-- … after `open()` and the Forward Open: the model is run -/
def worldN (C : Nat) : Cli.World Ext :=
  (Cli.ensureForwardOpen hookAll Cli.FUEL (Cli.openDrv hookAll (worldN0 C) [1, 2, 3, 4, 5, 6, 7, 8]).1).1
/-- the driver configuration after the tag upload -/
def cfgN : Cfg := { tags := (tagDbOf projN false).getD [] }
/-- the connection the target holds when the driver asked for 50 bytes -/
def connS : Tgt.Conn := { conn with size := 50 }

def infoFlt : TagInfo :=
  .mk { tagType := .atomic, dataTypeName := Drv.nm "REAL", ty := .real, dim := 0, dimensions := [0, 0, 0],
        instanceId := some 13 } .nil
def infoCnt : TagInfo :=
  .mk { tagType := .atomic, dataTypeName := Drv.nm "DINT", ty := .int .dint, dim := 0, dimensions := [0, 0, 0],
        instanceId := some 14 } .nil
def infoLim : TagInfo :=
  .mk { tagType := .atomic, dataTypeName := Drv.nm "INT", ty := .int .int, dim := 0, dimensions := [0, 0, 0],
        instanceId := some 15 } .nil

def xAbc : ldrn_Scalar := ⟨sym, info, 0xC4, 4, Drv.nm "DINT", .int .dint, .int 42, []⟩
def xXyz : ldrn_Scalar := ⟨symXyz, infoXyz, 0xC3, 2, Drv.nm "INT", .int .int, .int (-32763), []⟩
def xFlt : ldrn_Scalar := ⟨symFlt, infoFlt, 0xCA, 4, Drv.nm "REAL", .real, .float 4609434218613702656, []⟩
def xCnt : ldrn_Scalar := ⟨symCnt, infoCnt, 0xC4, 4, Drv.nm "DINT", .int .dint, .int (-2), []⟩
def xLim : ldrn_Scalar := ⟨symLim, infoLim, 0xC3, 2, Drv.nm "INT", .int .int, .int 7, []⟩
/-- `arr[7]` and `arr[4]`: beyond the four elements -/
def yArr7 : ldrn_Elem := ⟨symArr, infoArr, 0xC4, 4, 4, 7, Drv.nm "DINT", .int .dint⟩
def yArr4 : ldrn_Elem := ⟨symArr, infoArr, 0xC4, 4, 4, 4, Drv.nm "DINT", .int .dint⟩

def five : List ldrn_Scalar := [xAbc, xXyz, xFlt, xCnt, xLim]
def mixed : List ldrn_Item := [.scalar xAbc, .oob yArr7, .scalar xFlt, .oob yArr4, .scalar xLim]

def valEq : PyVal → PyVal → Bool
  | .none, .none => true
  | .int a, .int b => a == b
  | .float a, .float b => a == b
  | .bool a, .bool b => a == b
  | _, _ => false
def tagEq (a b : LTag) : Bool := a.tag == b.tag && valEq a.value b.value && a.type == b.type && a.error == b.error
def tagsEq : List LTag → List LTag → Bool
  | [], [] => true
  | a :: as, b :: bs => tagEq a b && tagsEq as bs
  | _, _ => false
def framesOf (ctx : Encap.Ctx) : Cli.Drv → List Bytes → List Bytes
  | _, [] => []
  | d, m :: ms => ((Encap.buildRequest (.sendUnit d.nextSeq.1 m) ctx).toOption.getD []) :: framesOf ctx d.nextSeq.2 ms
def okEq (r : Except Exn (List LTag)) (expected : List LTag) : Bool :=
  match r with
  | .ok ts => tagsEq ts expected
  | .error _ => false

-- evaluation checks of the runs (interpreter): the right-hand sides of the theorems against the model
#guard (worldN 4000).drv.targetIsConnected && (worldN 4000).drv.session == some 4097 &&
  (worldN 4000).drv.targetCid == some [238, 255, 192, 0] && (worldN 4000).drv.connectionSize == 4000
#guard (worldN 4000).net.target.base.sessions == [4097] && (worldN 4000).net.target.base.conns == [conn]
#guard (worldN 50).drv.targetIsConnected && (worldN 50).drv.session == some 4097 &&
  (worldN 50).drv.targetCid == some [238, 255, 192, 0] && (worldN 50).drv.connectionSize == 50
#guard (worldN 50).net.target.base.sessions == [4097] && (worldN 50).net.target.base.conns == [connS]
#guard five.map (fun x => readEstimate cfgN x.s.name x.info) == [16, 14, 16, 16, 14]
#guard mixed.map (fun it => readEstimate cfgN it.request it.info) == [16, 18, 16, 18, 14]
#guard readPackets 4000 [16, 14, 16, 16, 14] == [[0, 1, 2, 3, 4]]
#guard readPackets 50 [16, 14, 16, 16, 14] == [[0, 1], [2, 3], [4]]
#guard readPackets 50 [16, 18, 16, 18, 14] == [[0, 1], [2, 3], [4]]
#guard okEq (read hookAll cfgN (worldN 4000) (five.map (·.s.name))).2 (five.map (·.out))
#guard okEq (read hookAll cfgN (worldN 50) (five.map (·.s.name))).2 (five.map (·.out))
#guard okEq (read hookAll cfgN (worldN 4000) (mixed.map (·.request))).2 (mixed.map (·.out))
#guard okEq (read hookAll cfgN (worldN 50) (mixed.map (·.request))).2 (mixed.map (·.out))
#guard (read hookAll cfgN (worldN 4000) (five.map (·.s.name))).1.net.sent.length == (worldN 4000).net.sent.length + 1
#guard (read hookAll cfgN (worldN 50) (five.map (·.s.name))).1.net.sent.length == (worldN 50).net.sent.length + 3
#guard (read hookAll cfgN (worldN 50) (mixed.map (·.request))).1.net.sent.length == (worldN 50).net.sent.length + 3
#guard (read hookAll cfgN (worldN 4000) (five.map (·.s.name))).1.drv.seqVal == (ldrn_adv 6 (worldN 4000).drv).seqVal
#guard (read hookAll cfgN (worldN 50) (five.map (·.s.name))).1.drv.seqVal == (ldrn_adv 8 (worldN 50).drv).seqVal
#guard mixed.map (·.request) == [Drv.nm "abc", Drv.nm "arr[7]", Drv.nm "flt", Drv.nm "arr[4]", Drv.nm "lim"]
-- the counterexample of the STATEMENT CHANGED note: a connection of 25 bytes, three of the five reads go fragmented
#guard (worldN 25).drv.targetIsConnected && (worldN 25).drv.connectionSize == 25
#guard readPackets 25 (five.map fun x => readEstimate cfgN x.s.name x.info) == [[1], [4]]
#guard (read hookAll cfgN (worldN 25) (five.map (·.s.name))).1.net.sent.length == (worldN 25).net.sent.length + 5
#guard (read hookAll cfgN (worldN 25) (five.map (·.s.name))).1.drv.seqVal == (ldrn_adv 10 (worldN 25).drv).seqVal
#guard okEq (read hookAll cfgN (worldN 25) (five.map (·.s.name))).2 (five.map (·.out))
-- the frames written are the frames of `readPacketMsgs` (`unitFrames`), computed here with `framesOf`
#guard (read hookAll cfgN (worldN 4000) (five.map (·.s.name))).1.net.sent.drop (worldN 4000).net.sent.length ==
  framesOf (worldN 4000).drv.ctx (ldrn_adv 5 (worldN 4000).drv) (readPacketMsgs cfgN 4000 (five.map fun x => (x.s.name, x.info)))
#guard (read hookAll cfgN (worldN 50) (five.map (·.s.name))).1.net.sent.drop (worldN 50).net.sent.length ==
  framesOf (worldN 50).drv.ctx (ldrn_adv 5 (worldN 50).drv) (readPacketMsgs cfgN 50 (five.map fun x => (x.s.name, x.info)))
#guard (read hookAll cfgN (worldN 50) (mixed.map (·.request))).1.net.sent.drop (worldN 50).net.sent.length ==
  framesOf (worldN 50).drv.ctx (ldrn_adv 5 (worldN 50).drv) (readPacketMsgs cfgN 50 (mixed.map fun it => (it.request, it.info)))
#guard (readPacketMsgs cfgN 50 (five.map fun x => (x.s.name, x.info))).length == 3 &&
  (readPacketMsgs cfgN 4000 (five.map fun x => (x.s.name, x.info))) ==
    [Cl.multiMsg (five.map fun x => Cl.readMsg (ldrn_pathOf cfgN x.s.name x.info) 1)]

private theorem healthyN : ldr_Healthy (worldN 4000) 4097 [238, 255, 192, 0] conn :=
  ⟨by decide +kernel, by decide +kernel, by decide +kernel, by decide +kernel, by decide +kernel, by decide,
   by decide +kernel, by decide +kernel, by decide, by decide +kernel, by decide +kernel, by decide +kernel⟩

private theorem healthyS : ldr_Healthy (worldN 50) 4097 [238, 255, 192, 0] connS :=
  ⟨by decide +kernel, by decide +kernel, by decide +kernel, by decide +kernel, by decide +kernel, by decide,
   by decide +kernel, by decide +kernel, by decide, by decide +kernel, by decide +kernel, by decide +kernel⟩

private theorem mem_ctlN (s' : Symbol) (h : s' ∈ projN.controller) :
    s' = sym ∨ s' = symArr ∨ s' = symXyz ∨ s' = symFlt ∨ s' = symCnt ∨ s' = symLim := by
  simpa [projN] using h

private theorem bytesN (s' : Symbol) (h : s' ∈ stateN.proj.controller) : ∀ ch ∈ s'.name, ch < 256 := by
  rcases mem_ctlN s' h with rfl | rfl | rfl | rfl | rfl | rfl <;> decide

private theorem uniqNN (s : Symbol) (hs : s ∈ stateN.proj.controller) (s' : Symbol) (h : s' ∈ stateN.proj.controller)
    (e : s'.name = s.name) : s' = s := by
  rcases mem_ctlN s hs with rfl | rfl | rfl | rfl | rfl | rfl <;>
    rcases mem_ctlN s' h with rfl | rfl | rfl | rfl | rfl | rfl <;>
    first | rfl | (exfalso; revert e; decide)

private theorem uniqIN (s : Symbol) (hs : s ∈ stateN.proj.controller) (s' : Symbol) (h : s' ∈ stateN.proj.controller)
    (e : s'.inst = s.inst) : s' = s := by
  rcases mem_ctlN s hs with rfl | rfl | rfl | rfl | rfl | rfl <;>
    rcases mem_ctlN s' h with rfl | rfl | rfl | rfl | rfl | rfl <;>
    first | rfl | (exfalso; revert e; decide)

private theorem hsAbcN : sym ∈ stateN.proj.controller := by simp [stateN, projN]
private theorem hsArrN : symArr ∈ stateN.proj.controller := by simp [stateN, projN]
private theorem hsXyzN : symXyz ∈ stateN.proj.controller := by simp [stateN, projN]
private theorem hsFltN : symFlt ∈ stateN.proj.controller := by simp [stateN, projN]
private theorem hsCntN : symCnt ∈ stateN.proj.controller := by simp [stateN, projN]
private theorem hsLimN : symLim ∈ stateN.proj.controller := by simp [stateN, projN]

private theorem okAbc : ldrn_ScalarOk cfgN stateN xAbc :=
  ⟨hsAbcN, uniqNN sym hsAbcN, uniqIN sym hsAbcN, ⟨by decide, by decide, by decide⟩, by decide, by decide, rfl, rfl, rfl, rfl,
   by rfl, ⟨rfl, rfl, rfl, rfl, rfl⟩, by rfl⟩
private theorem okXyz : ldrn_ScalarOk cfgN stateN xXyz :=
  ⟨hsXyzN, uniqNN symXyz hsXyzN, uniqIN symXyz hsXyzN, ⟨by decide, by decide, by decide⟩, by decide, by decide, rfl, rfl, rfl,
   rfl, by rfl, ⟨rfl, rfl, rfl, rfl, rfl⟩, by rfl⟩
private theorem okFlt : ldrn_ScalarOk cfgN stateN xFlt :=
  ⟨hsFltN, uniqNN symFlt hsFltN, uniqIN symFlt hsFltN, ⟨by decide, by decide, by decide⟩, by decide, by decide, rfl, rfl, rfl,
   rfl, by rfl, ⟨rfl, rfl, rfl, rfl, rfl⟩, by rfl⟩
private theorem okCnt : ldrn_ScalarOk cfgN stateN xCnt :=
  ⟨hsCntN, uniqNN symCnt hsCntN, uniqIN symCnt hsCntN, ⟨by decide, by decide, by decide⟩, by decide, by decide, rfl, rfl, rfl,
   rfl, by rfl, ⟨rfl, rfl, rfl, rfl, rfl⟩, by rfl⟩
private theorem okLim : ldrn_ScalarOk cfgN stateN xLim :=
  ⟨hsLimN, uniqNN symLim hsLimN, uniqIN symLim hsLimN, ⟨by decide, by decide, by decide⟩, by decide, by decide, rfl, rfl, rfl,
   rfl, by rfl, ⟨rfl, rfl, rfl, rfl, rfl⟩, by rfl⟩
private theorem oobArr7 : ldrn_ElemOob cfgN stateN yArr7 :=
  ⟨hsArrN, uniqNN symArr hsArrN, uniqIN symArr hsArrN, ⟨by decide, by decide, by decide⟩, by decide, by decide, rfl, rfl, rfl,
   by decide, by decide, by rfl, ⟨rfl, rfl, rfl, rfl, rfl⟩, by decide, by decide⟩
private theorem oobArr4 : ldrn_ElemOob cfgN stateN yArr4 :=
  ⟨hsArrN, uniqNN symArr hsArrN, uniqIN symArr hsArrN, ⟨by decide, by decide, by decide⟩, by decide, by decide, rfl, rfl, rfl,
   by decide, by decide, by rfl, ⟨rfl, rfl, rfl, rfl, rfl⟩, by decide, by decide⟩

private theorem okFive (x : ldrn_Scalar) (hx : x ∈ five) : ldrn_ScalarOk cfgN stateN x := by
  simp only [five, List.mem_cons, List.not_mem_nil, or_false] at hx
  rcases hx with rfl | rfl | rfl | rfl | rfl
  · exact okAbc
  · exact okXyz
  · exact okFlt
  · exact okCnt
  · exact okLim

private theorem okMixed (it : ldrn_Item) (h : it ∈ mixed) : it.Ok cfgN stateN := by
  simp only [mixed, List.mem_cons, List.not_mem_nil, or_false] at h
  rcases h with rfl | rfl | rfl | rfl | rfl
  · exact okAbc
  · exact oobArr7
  · exact okFlt
  · exact oobArr4
  · exact okLim

/-- every hypothesis of `read_n_tags_one_packet_e2e` holds for the concrete world: `read("abc", "xyz", "flt", "cnt",
    "lim")` returns 42, -32763, 1.5, -2, 7 in ONE multi-service exchange, six sequence numbers drawn -/
example : ∃ w' frm, read hookAll cfgN (worldN 4000) [Drv.nm "abc", Drv.nm "xyz", Drv.nm "flt", Drv.nm "cnt", Drv.nm "lim"] =
      (w', .ok [{ tag := Drv.nm "abc", value := .int 42, type := some (Drv.nm "DINT"), error := none },
                { tag := Drv.nm "xyz", value := .int (-32763), type := some (Drv.nm "INT"), error := none },
                { tag := Drv.nm "flt", value := .float 4609434218613702656, type := some (Drv.nm "REAL"), error := none },
                { tag := Drv.nm "cnt", value := .int (-2), type := some (Drv.nm "DINT"), error := none },
                { tag := Drv.nm "lim", value := .int 7, type := some (Drv.nm "INT"), error := none }]) ∧
    w'.drv = ldrn_adv 6 (worldN 4000).drv ∧ w'.net.sent = (worldN 4000).net.sent ++ [frm] ∧
    w'.net.target.ext = { (worldN 4000).net.target.ext with logix := some { stateN with ctr := stateN.ctr + 5 } } ∧
    ldr_Healthy w' 4097 [238, 255, 192, 0] { conn with lastSeq := some (ldrn_adv 5 (worldN 4000).drv).nextSeq.1 } := by
  obtain ⟨w', frm, h1, h2, h3, _, h5, h6⟩ := read_n_tags_one_packet_e2e cfgN (worldN 4000) 4097 [238, 255, 192, 0] conn
    stateN five healthyN (by rfl) rfl bytesN (by decide) okFive (by decide +kernel) (by decide +kernel) (by decide +kernel)
  exact ⟨w', frm, h1, h2, h3, h5, h6⟩

/-- … of `read_n_tags_e2e` on a connection of 50 bytes: the same five tags travel in THREE multi-service packets
    (`readPackets` = [[0, 1], [2, 3], [4]]), eight sequence numbers drawn, the same five Tags in request order -/
example : ∃ w' frms, read hookAll cfgN (worldN 50) [Drv.nm "abc", Drv.nm "xyz", Drv.nm "flt", Drv.nm "cnt", Drv.nm "lim"] =
      (w', .ok [{ tag := Drv.nm "abc", value := .int 42, type := some (Drv.nm "DINT"), error := none },
                { tag := Drv.nm "xyz", value := .int (-32763), type := some (Drv.nm "INT"), error := none },
                { tag := Drv.nm "flt", value := .float 4609434218613702656, type := some (Drv.nm "REAL"), error := none },
                { tag := Drv.nm "cnt", value := .int (-2), type := some (Drv.nm "DINT"), error := none },
                { tag := Drv.nm "lim", value := .int 7, type := some (Drv.nm "INT"), error := none }]) ∧
    frms.length = 3 ∧ w'.drv = ldrn_adv 8 (worldN 50).drv ∧ w'.net.sent = (worldN 50).net.sent ++ frms ∧
    w'.net.target.ext = { (worldN 50).net.target.ext with logix := some { stateN with ctr := stateN.ctr + 5 } } ∧
    ldr_Healthy w' 4097 [238, 255, 192, 0] { connS with lastSeq := some (ldrn_adv 7 (worldN 50).drv).nextSeq.1 } := by
  obtain ⟨w', frms, h1, h2, _, h4, h5, _, h6, h7⟩ := read_n_tags_e2e cfgN (worldN 50) 4097 [238, 255, 192, 0] connS stateN five
    healthyS (by rfl) rfl bytesN (by decide)
    okFive
    (by
      intro x hx
      simp only [five, List.mem_cons, List.not_mem_nil, or_false] at hx
      rcases hx with rfl | rfl | rfl | rfl | rfl <;> decide +kernel)
    (by decide +kernel) (by decide +kernel)
  have hk : (readPackets (worldN 50).drv.connectionSize (five.map fun x => readEstimate cfgN x.s.name x.info)).length = 3 := by
    decide +kernel
  rw [hk] at h2
  rw [h2] at h4 h7
  exact ⟨w', frms, h1, h2, h4, h5, h6, h7⟩

/-- … of `read_n_tags_isolated_e2e`: `read("abc", "arr[7]", "flt", "arr[4]", "lim")` — two of the five requests are
    beyond the four elements of `arr` — returns 42, a falsy Tag, 1.5, a falsy Tag, 7; one frame; the controller
    serves three requests -/
example : ∃ w' frm, read hookAll cfgN (worldN 4000)
        [Drv.nm "abc", Drv.nm "arr[7]", Drv.nm "flt", Drv.nm "arr[4]", Drv.nm "lim"] =
      (w', .ok [{ tag := Drv.nm "abc", value := .int 42, type := some (Drv.nm "DINT"), error := none },
                { tag := Drv.nm "arr[7]", value := .none, type := none, error := some (.reply (.text
                    (Drv.nm "General Error (see extended status) - Access beyond end of the object  (ff, 2105)"))) },
                { tag := Drv.nm "flt", value := .float 4609434218613702656, type := some (Drv.nm "REAL"), error := none },
                { tag := Drv.nm "arr[4]", value := .none, type := none, error := some (.reply (.text
                    (Drv.nm "General Error (see extended status) - Access beyond end of the object  (ff, 2105)"))) },
                { tag := Drv.nm "lim", value := .int 7, type := some (Drv.nm "INT"), error := none }]) ∧
    w'.drv = ldrn_adv 6 (worldN 4000).drv ∧ w'.net.sent = (worldN 4000).net.sent ++ [frm] ∧
    w'.net.target.ext = { (worldN 4000).net.target.ext with logix := some { stateN with ctr := stateN.ctr + 3 } } ∧
    ldr_Healthy w' 4097 [238, 255, 192, 0] { conn with lastSeq := some (ldrn_adv 5 (worldN 4000).drv).nextSeq.1 } := by
  obtain ⟨w', frm, h, h2, h3, _, h5, h6⟩ := read_n_tags_isolated_e2e cfgN (worldN 4000) 4097 [238, 255, 192, 0] conn stateN
    mixed healthyN (by rfl) rfl bytesN (by decide) okMixed (by decide +kernel) (by decide +kernel) (by decide +kernel)
  have hreq : mixed.map (·.request) = [Drv.nm "abc", Drv.nm "arr[7]", Drv.nm "flt", Drv.nm "arr[4]", Drv.nm "lim"] := by
    decide +kernel
  have hout : mixed.map (·.out) =
      [{ tag := Drv.nm "abc", value := .int 42, type := some (Drv.nm "DINT"), error := none },
       { tag := Drv.nm "arr[7]", value := .none, type := none, error := some (.reply (.text
           (Drv.nm "General Error (see extended status) - Access beyond end of the object  (ff, 2105)"))) },
       { tag := Drv.nm "flt", value := .float 4609434218613702656, type := some (Drv.nm "REAL"), error := none },
       { tag := Drv.nm "arr[4]", value := .none, type := none, error := some (.reply (.text
           (Drv.nm "General Error (see extended status) - Access beyond end of the object  (ff, 2105)"))) },
       { tag := Drv.nm "lim", value := .int 7, type := some (Drv.nm "INT"), error := none }] := by
    have e7 := (read_n_refused_tag_names_status yArr7).2.2
    have e4 := (read_n_refused_tag_names_status yArr4).2.2
    have t7 : (ldrn_Item.oob yArr7).out.tag = Drv.nm "arr[7]" := by decide +kernel
    have t4 : (ldrn_Item.oob yArr4).out.tag = Drv.nm "arr[4]" := by decide +kernel
    show [xAbc.out, (ldrn_Item.oob yArr7).out, xFlt.out, (ldrn_Item.oob yArr4).out, xLim.out] = _
    have o7 : (ldrn_Item.oob yArr7).out = { tag := Drv.nm "arr[7]", value := .none, type := none, error := some (.reply (.text
           (Drv.nm "General Error (see extended status) - Access beyond end of the object  (ff, 2105)"))) } := by
      rw [← e7, ← t7]; rfl
    have o4 : (ldrn_Item.oob yArr4).out = { tag := Drv.nm "arr[4]", value := .none, type := none, error := some (.reply (.text
           (Drv.nm "General Error (see extended status) - Access beyond end of the object  (ff, 2105)"))) } := by
      rw [← e4, ← t4]; rfl
    rw [o7, o4]
    rfl
  rw [hreq, hout] at h
  exact ⟨w', frm, h, h2, h3, h5, h6⟩

/-- … and of `read_n_items_e2e` on the connection of 50 bytes: the same mixed requests travel in three packets, the
    two refusals sit in the first and in the second one; every other request still gets its value -/
example : ∃ w' frms, read hookAll cfgN (worldN 50) (mixed.map (·.request)) = (w', .ok (mixed.map (·.out))) ∧
    frms.length = 3 ∧ w'.drv = ldrn_adv 8 (worldN 50).drv ∧ w'.net.sent = (worldN 50).net.sent ++ frms ∧
    w'.net.target.ext = { (worldN 50).net.target.ext with logix := some { stateN with ctr := stateN.ctr + 3 } } ∧
    ldr_Healthy w' 4097 [238, 255, 192, 0] { connS with lastSeq := some (ldrn_adv 7 (worldN 50).drv).nextSeq.1 } := by
  obtain ⟨w', frms, h1, h2, _, h4, h5, _, h6, h7⟩ := read_n_items_e2e cfgN (worldN 50) 4097 [238, 255, 192, 0] connS stateN mixed
    healthyS (by rfl) rfl bytesN (by decide) okMixed
    (by
      intro it hit
      simp only [mixed, List.mem_cons, List.not_mem_nil, or_false] at hit
      rcases hit with rfl | rfl | rfl | rfl | rfl <;> decide +kernel)
    (by decide +kernel) (by decide +kernel)
  have hk : (readPackets (worldN 50).drv.connectionSize (mixed.map fun it => readEstimate cfgN it.request it.info)).length = 3 := by
    decide +kernel
  rw [hk] at h2
  rw [h2] at h4 h7
  exact ⟨w', frms, h1, h2, h4, h5, h6, h7⟩

/-- … of `read_packets_partition` -/
example : (readPackets 50 [16, 14, 16, 16, 14]).flatten = List.range 5 ∧ ∀ g ∈ readPackets 50 [16, 14, 16, 16, 14], g ≠ [] :=
  read_packets_partition 50 [16, 14, 16, 16, 14] (by decide)

end ExN

end Pycomm.Lgx.Drv

