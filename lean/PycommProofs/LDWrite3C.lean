/-
  LogixDriver.write of a string tag: the bytes `FixedSizeString(cap)` (4-byte length) makes of a `str` — LEN, the
  characters, zero padding up to the capacity; characters beyond the capacity are dropped — and what a following read
  decodes from them.
    `ldw3_strBytes`, `ldw3_encode_fixedStr`, `ldw3_strBytes_len`, `ldw3_strBytes_data`, `ldw3_strBytes_pad`,
    `ldw3_strBytes_read`
-/
import PycommProofs.LDWrite3B
import PycommProofs.CodecWire
namespace Pycomm.Lgx.Drv
open Pycomm Pycomm.Tgt Pycomm.Path Pycomm.Reply Pycomm.Encap Pycomm.Lgx Pycomm.Lgx.E2E

/-- what `FixedSizeString(cap)` with a 4-byte length makes of a `str` (custom_types.py:70): the characters beyond
    the capacity are dropped (`value[:size]`); then LEN (UDINT), the characters (Latin-1, one byte each), and zero
    bytes up to the capacity -/
def ldw3_strBytes (cap : Nat) (cs : Name) : Bytes :=
  le 4 (cs.take cap).length ++ (cs.take cap).map UInt8.ofNat ++ zeros (cap - (cs.take cap).length)

theorem ldw3_take_len (cap : Nat) (cs : Name) : (cs.take cap).length = min cs.length cap := by
  rw [List.length_take]; omega

/-- the codec's encoding of a `str` for a string tag of capacity `cap` -/
theorem ldw3_encode_fixedStr (cap : Nat) (cs : Name) (hcap32 : cap < 2 ^ 32) (hc : ∀ c ∈ cs.take cap, c < 256) :
    encode (.fixedStr cap .udint) (.str cs) = .ok (ldw3_strBytes cap cs) ∧ (ldw3_strBytes cap cs).length = 4 + cap := by
  have e : encode (.fixedStr cap .udint) (.str cs) = encode (.fixedStr cap .udint) (.str (cs.take cap)) := by
    simp only [encode, encodeFixedStr, List.take_take, Nat.min_self]
  have hk : (cs.take cap).length ≤ cap := by rw [ldw3_take_len]; omega
  have hl : (((cs.take cap).length : Nat) : Int) ≤ IntK.udint.hi := by
    show (((cs.take cap).length : Nat) : Int) ≤ ((4294967296 : Nat) : Int) - 1
    omega
  obtain ⟨h1, h2⟩ := encode_fixedStr_wire cap .udint (cs.take cap) rfl hl hc hk
  rw [e]
  exact ⟨h1, h2⟩

/-- LEN: bytes 0–3 are the number of characters kept -/
theorem ldw3_strBytes_len (cap : Nat) (cs : Name) : (ldw3_strBytes cap cs).take 4 = le 4 (cs.take cap).length := by
  unfold ldw3_strBytes
  rw [List.append_assoc, RT.take_append_len _ _ _ (le_length 4 _)]

/-- DATA[0:LEN]: the characters kept, one byte each -/
theorem ldw3_strBytes_data (cap : Nat) (cs : Name) :
    ((ldw3_strBytes cap cs).drop 4).take (cs.take cap).length = (cs.take cap).map UInt8.ofNat := by
  unfold ldw3_strBytes
  rw [List.append_assoc, RT.drop_append_len _ _ _ (le_length 4 _), RT.take_append_len _ _ _ (by simp)]

/-- DATA[LEN:]: every byte beyond the new length is zero -/
theorem ldw3_strBytes_pad (cap : Nat) (cs : Name) (j : Nat) (h1 : 4 + (cs.take cap).length ≤ j) (h2 : j < 4 + cap) :
    (ldw3_strBytes cap cs)[j]? = some 0 := by
  have hk : (cs.take cap).length ≤ cap := by rw [ldw3_take_len]; omega
  unfold ldw3_strBytes
  rw [List.getElem?_append_right (by simp only [List.length_append, le_length, List.length_map]; omega)]
  simp only [List.length_append, le_length, List.length_map, zeros]
  rw [List.getElem?_replicate]
  rw [if_pos (by omega)]

theorem ldw3_map_toNat_ofNat (cs : Name) (h : ∀ c ∈ cs, c < 256) : (cs.map UInt8.ofNat).map (·.toNat) = cs := by
  induction cs with
  | nil => rfl
  | cons c cs ih =>
    have hc : c < 256 := h c (by simp)
    simp only [List.map_cons, RT.toNat_ofNat, Nat.mod_eq_of_lt hc, ih (fun x hx => h x (by simp [hx]))]

/-- what `read` decodes from those bytes (`read_string_e2e`): the characters kept -/
theorem ldw3_strBytes_read (cap : Nat) (cs : Name) (hcap32 : cap < 2 ^ 32) (hc : ∀ c ∈ cs.take cap, c < 256) :
    (((ldw3_strBytes cap cs).drop 4).take (leVal ((ldw3_strBytes cap cs).take 4))).map (·.toNat) = cs.take cap := by
  have hk : (cs.take cap).length ≤ cap := by rw [ldw3_take_len]; omega
  rw [ldw3_strBytes_len]
  have hv : leVal (le 4 (cs.take cap).length) = (cs.take cap).length :=
    RT.leVal_leBytes 4 _ (by show _ < 4294967296; omega)
  rw [hv, ldw3_strBytes_data, ldw3_map_toNat_ofNat _ hc]

end Pycomm.Lgx.Drv
