/-
  LogixDriver.write of MIXED shapes in one call: what the engine (LDWMix2 driver side, LDWMix3 controller side) needs
  of one request (`ldwx_Facts`), and these facts for
    * the requests of LDWriteN5 (whole scalar tag, element beyond an array) — `ldwx_facts_of_ldwn`;
    * an element `name[i]` inside a one-dimensional array of an elementary type — `ldwx_elem_facts`;
    * a slice `name[i]{n}` of such an array — `ldwx_slice_facts`.
-/
import PycommProofs.LDWMix3
import PycommProofs.LogixDriverWrite2
namespace Pycomm.Lgx.Drv
open Pycomm Pycomm.Tgt Pycomm.Path Pycomm.Reply Pycomm.Encap Pycomm.Lgx Pycomm.Lgx.E2E

/-- everything the engine needs of one request: how its string is parsed (at any position), that `encode_value` yields
    the item's bytes, the request path, what the controller does with the message (judged on the project `p` before
    the call) and the Tag the result loop makes of the controller's answer -/
structure ldwx_Facts (cfg : Cfg) (p : Project) (it : ldwx_It) (b : ldwx_Beh) (out : LTag) : Prop where
  parse : ∀ rid, parseTagRequest cfg.tags true rid it.tag = { ldwx_parsedOf rid it with value := .none }
  enc : ∀ rid, encodeValue (ldwx_parsedOf rid it) it.info = (ldwx_parsedOf rid it, some it.value)
  path : requestPathOf cfg it.utag it.info = .ok it.path
  count : it.n ≤ 65535
  den : ∃ segs, Denotes it.path segs
  beh : ldwx_BehOk p (ldwx_itMsg it) b
  out : ldwx_outTag it b.ans = out

/-! ### the requests of LDWriteN5 -/

/-- a one-element request of LDWriteN1 as a request of the mixed engine -/
def ldwx_liftIt (it : ldwn_Item) : ldwx_It :=
  { tag := it.tag, utag := it.tag, n := 1, info := it.info, v := it.v, path := it.path, value := it.value }

def ldwx_liftBeh : ldwn_Beh → ldwx_Beh
  | .good s _ bytes => .good s.inst 0 bytes
  | .refused e => .refused e

theorem ldwx_liftBeh_ans (b : ldwn_Beh) : (ldwx_liftBeh b).ans = b.ans := by
  cases b <;> rfl

theorem ldwx_behOk_of_ldwn (p0 : Project) (useIds : Bool) (msg : Bytes) (b : ldwn_Beh) (h : ldwn_BehOk p0 useIds msg b) :
    ldwx_BehOk p0 msg (ldwx_liftBeh b) := by
  cases b with
  | good s c bytes =>
    obtain ⟨path, sz, hmsg, hden, hres, hs, huniqI, hsz, hlen, hbl, hpos⟩ := h
    refine ⟨path, _, ldr_loc s c, s, 1, sz, hmsg, hden, hres, rfl, rfl, rfl, by intro b; simp [ldr_loc], Nat.le_refl 1,
      ldr_dimsProduct_pos s.dims, by omega, hs, rfl, huniqI, hsz, by omega, by omega⟩
  | refused e => exact h

theorem ldwx_facts_of_ldwn (cfg : Cfg) (p : Project) (r : ldwn_Req) (h : ldwn_ReqFacts cfg p r) :
    ldwx_Facts cfg p (ldwx_liftIt (r.item cfg)) (ldwx_liftBeh r.beh) r.result := by
  refine ⟨?_, ?_, h.path, by show 1 ≤ 65535; omega, h.den, ?_, ?_⟩
  · intro rid
    have := h.parse rid
    exact this
  · intro rid
    exact h.enc rid
  · exact ldwx_behOk_of_ldwn p cfg.useInstanceIds _ r.beh h.beh
  · rw [ldwx_liftBeh_ans, ← h.out r.beh.ans rfl]
    show ({ tag := r.tag, value := r.v, type := some (ldr2_typeStr r.info.core.dataTypeName 1), error := _ } : LTag) = _
    rw [ldw2_typeStr_one]
    rfl

/-! ### an element inside an array -/

/-- `(name[i], value)` writes element `i` of the one-dimensional array symbol `s` (`dim` elements of elementary type
    code `c`, `sz` bytes each) -/
structure ldwx_Elem where
  s : Symbol
  info : TagInfo
  c : Nat
  sz : Nat
  dim : Nat
  i : Nat
  tname : Name
  t : Ty
  v : PyVal
  bytes : Bytes

/-- the hypotheses of `write_atomic_element_e2e` about one request -/
structure ldwx_ElemOk (cfg : Cfg) (p : Project) (x : ldwx_Elem) : Prop where
  mem : x.s ∈ p.controller
  uniqN : ∀ s' ∈ p.controller, s'.name = x.s.name → s' = x.s
  uniqI : ∀ s' ∈ p.controller, s'.inst = x.s.inst → s' = x.s
  ident : PlainIdent x.s.name
  inst32 : x.s.inst < 2 ^ 32
  ty : elTyOfWord x.s.symbolType = .atomic x.c
  atom : atomicOfCode x.c = some (x.tname, x.t)
  notBits : x.t.isBits = none
  size : atomicSize x.c = some x.sz
  dims : x.s.dims.filter (· != 0) = [x.dim]
  len : x.s.mem.length = x.dim * x.sz
  get : cfg.tags.get? x.s.name = some x.info
  infoOf : ldr_InfoOf x.info x.tname (.arr (.fixed x.dim) x.t) x.s.inst
  canon : Canon x.t x.v
  enc : encode x.t x.v = .ok x.bytes
  inside : x.i < x.dim
  i32 : x.i < 2 ^ 32

/-- the request string `name[i]` -/
def ldwx_Elem.tag (x : ldwx_Elem) : Name := x.s.name ++ [91] ++ decRender x.i ++ [93]

def ldwx_Elem.it (cfg : Cfg) (x : ldwx_Elem) : ldwx_It :=
  { tag := x.tag, utag := x.tag, n := 1, info := x.info, v := x.v, path := ldwn_pathOf cfg x.tag x.info, value := x.bytes }

def ldwx_Elem.beh (x : ldwx_Elem) : ldwx_Beh := .good x.s.inst (x.i * x.sz) x.bytes

def ldwx_Elem.out (x : ldwx_Elem) : LTag := { tag := x.tag, value := x.v, type := some x.tname, error := none }

theorem ldwx_errOf_ok : ldwn_errOf {} = none := rfl

theorem ldwx_elem_facts (cfg : Cfg) (p : Project) (x : ldwx_Elem)
    (hbytes : ∀ s' ∈ p.controller, ∀ ch ∈ s'.name, ch < 256) (h : ldwx_ElemOk cfg p x) :
    ldwx_Facts cfg p (x.it cfg) x.beh x.out ∧ x.bytes.length = x.sz := by
  obtain ⟨haty, hentry, hndw, hpos, hle8⟩ := ldr_atomic_table x.c x.sz x.tname x.t h.atom h.notBits h.size
  have hshape := ldr_atomicTy_shape x.c x.t haty h.notBits
  have hbl : x.bytes.length = x.sz := ldw_encode_length x.c x.sz x.t x.v x.bytes haty h.notBits h.size h.canon h.enc
  have htag : x.tag = renderLevel ⟨x.s.name, [x.i]⟩ := (ldr2_renderLevel_elem x.s.name x.i).symm
  obtain ⟨hl, _⟩ := ldx_parse_elem cfg true 0 x.s.name x.i x.info x.tname _ x.s.inst h.ident h.i32 h.get h.infoOf hndw
  obtain ⟨pb, hpb, hplb, hdenb⟩ := ldr2_requestPath cfg ⟨x.s.name, [x.i]⟩ x.info x.s.inst hl h.infoOf.instanceId h.inst32
  have hpo : ldwn_pathOf cfg x.tag x.info = pb := by
    rw [htag]; exact ldwn_pathOf_ok cfg _ _ pb hpb
  have hpt : packedTypeOf x.info = le 2 x.c := ldw_packedType x.info x.tname x.c x.sz h.infoOf.struct h.infoOf.typeName hentry
  have hmem : x.s.mem ≠ [] := by
    intro he
    have hlen := h.len
    rw [he, List.length_nil] at hlen
    have : 0 < x.dim * x.sz := Nat.mul_pos (by have := h.inside; omega) hpos
    omega
  have hfit : x.i * x.sz + 1 * x.sz ≤ x.s.mem.length := by
    rw [h.len, ← Nat.add_mul]; exact Nat.mul_le_mul_right x.sz h.inside
  refine ⟨⟨?_, ?_, ?_, by show 1 ≤ 65535; omega, ?_, ?_, ?_⟩, hbl⟩
  · intro rid
    show parseTagRequest cfg.tags true rid x.tag = _
    rw [htag]
    exact (ldx_parse_elem cfg true rid x.s.name x.i x.info x.tname _ x.s.inst h.ident h.i32 h.get h.infoOf hndw).2
  · intro rid
    exact ldw2_encodeValue_elem (ldwx_parsedOf rid (x.it cfg)) x.info x.dim x.t x.bytes
      (by rw [h.infoOf.typeName]; exact hndw) h.infoOf.ty hshape h.notBits rfl rfl h.canon h.enc
  · show requestPathOf cfg x.tag x.info = .ok (ldwn_pathOf cfg x.tag x.info)
    rw [hpo, htag]; exact hpb
  · exact ⟨_, by show Denotes (ldwn_pathOf cfg x.tag x.info) _; rw [hpo]; exact hdenb⟩
  · show ldwx_BehOk p (Cl.writeMsg (ldwn_pathOf cfg x.tag x.info) (packedTypeOf x.info) 1 x.bytes)
      (.good x.s.inst (x.i * x.sz) x.bytes)
    rw [hpo, hpt]
    exact ⟨pb, _, ldr2_locAt x.s x.c x.sz x.i x.dim, x.s, 1, x.sz, rfl, hdenb,
      ldr2_resolve_elem p x.s x.c x.sz cfg.useInstanceIds x.i x.dim h.ident h.mem hbytes h.uniqN h.uniqI h.ty h.size hmem
        h.dims h.inside,
      rfl, rfl, rfl, by intro b; simp [ldr2_locAt], Nat.le_refl 1, by simp only [ldr2_locAt]; have := h.inside; omega,
      by omega, h.mem, rfl, h.uniqI, h.size, by omega, hfit⟩
  · show ({ tag := x.tag, value := x.v, type := some (ldr2_typeStr x.info.core.dataTypeName 1), error := ldwn_errOf {} } : LTag) = _
    rw [ldw2_typeStr_one, h.infoOf.typeName]
    rfl

/-! ### a slice of an array -/

/-- `(name[i]{n}, [v1, …, vn])` writes the `n` elements from element `i` of the one-dimensional array symbol `s` -/
structure ldwx_Slice where
  s : Symbol
  info : TagInfo
  c : Nat
  sz : Nat
  dim : Nat
  i : Nat
  n : Nat
  tname : Name
  t : Ty
  vs : List PyVal
  bytes : Bytes

/-- the hypotheses of `write_atomic_slice_e2e` about one request -/
structure ldwx_SliceOk (cfg : Cfg) (p : Project) (x : ldwx_Slice) : Prop where
  mem : x.s ∈ p.controller
  uniqN : ∀ s' ∈ p.controller, s'.name = x.s.name → s' = x.s
  uniqI : ∀ s' ∈ p.controller, s'.inst = x.s.inst → s' = x.s
  ident : PlainIdent x.s.name
  inst32 : x.s.inst < 2 ^ 32
  ty : elTyOfWord x.s.symbolType = .atomic x.c
  atom : atomicOfCode x.c = some (x.tname, x.t)
  notBits : x.t.isBits = none
  size : atomicSize x.c = some x.sz
  dims : x.s.dims.filter (· != 0) = [x.dim]
  len : x.s.mem.length = x.dim * x.sz
  get : cfg.tags.get? x.s.name = some x.info
  infoOf : ldr_InfoOf x.info x.tname (.arr (.fixed x.dim) x.t) x.s.inst
  count : 1 ≤ x.n
  count16 : x.n ≤ 65535
  vlen : x.vs.length = x.n
  canon : ∀ v ∈ x.vs, Canon x.t v
  enc : encode (.arr (.fixed x.n) x.t) (.list x.vs) = .ok x.bytes
  inside : x.i + x.n ≤ x.dim
  i32 : x.i < 2 ^ 32

/-- the request string `name[i]{n}` -/
def ldwx_Slice.tag (x : ldwx_Slice) : Name :=
  x.s.name ++ [91] ++ decRender x.i ++ [93] ++ [123] ++ decRender x.n ++ [125]

/-- the name of the Tag: the request string without the element count -/
def ldwx_Slice.utag (x : ldwx_Slice) : Name := x.s.name ++ [91] ++ decRender x.i ++ [93]

def ldwx_Slice.it (cfg : Cfg) (x : ldwx_Slice) : ldwx_It :=
  { tag := x.tag, utag := x.utag, n := x.n, info := x.info, v := .list x.vs, path := ldwn_pathOf cfg x.utag x.info,
    value := x.bytes }

def ldwx_Slice.beh (x : ldwx_Slice) : ldwx_Beh := .good x.s.inst (x.i * x.sz) x.bytes

def ldwx_Slice.out (x : ldwx_Slice) : LTag :=
  { tag := x.utag, value := .list x.vs, type := some (ldr2_typeStr x.tname x.n), error := none }

theorem ldwx_slice_facts (cfg : Cfg) (p : Project) (x : ldwx_Slice)
    (hbytes : ∀ s' ∈ p.controller, ∀ ch ∈ s'.name, ch < 256) (h : ldwx_SliceOk cfg p x) :
    ldwx_Facts cfg p (x.it cfg) x.beh x.out ∧ x.bytes.length = x.n * x.sz ∧
      (∀ k (hk : k < x.vs.length), encode x.t x.vs[k] = .ok ((x.bytes.drop (k * x.sz)).take x.sz)) := by
  obtain ⟨haty, hentry, hndw, hpos, hle8⟩ := ldr_atomic_table x.c x.sz x.tname x.t h.atom h.notBits h.size
  have hel := ldw2_encode_arr_list x.t x.vs x.n x.bytes h.notBits h.vlen h.enc
  rw [RT.encodeList_argOf_canon x.t x.vs h.canon] at hel
  obtain ⟨hbl, hchunks⟩ := ldw2_encodeList_chunks (encode x.t) x.sz x.vs x.bytes
    (fun y hy e he => ldw_encode_length x.c x.sz x.t y e haty h.notBits h.size (h.canon y hy) he) hel
  rw [h.vlen] at hbl
  have hutag : x.utag = renderLevel ⟨x.s.name, [x.i]⟩ := (ldr2_renderLevel_elem x.s.name x.i).symm
  have htag : x.tag = ldr2_tagStr ⟨x.s.name, [x.i]⟩ none (some x.n) := (ldr2_tagStr_slice x.s.name x.i x.n).symm
  have hl : ldr2_Level ⟨x.s.name, [x.i]⟩ := ⟨h.ident, by simp, by simp [h.i32]⟩
  have hnd : isDword x.info = false := by
    have : (x.tname == nm "DWORD") = false := by simpa using hndw
    simp [isDword, h.infoOf.typeName, this]
  obtain ⟨pb, hpb, hplb, hdenb⟩ := ldr2_requestPath cfg ⟨x.s.name, [x.i]⟩ x.info x.s.inst hl h.infoOf.instanceId h.inst32
  have hpo : ldwn_pathOf cfg x.utag x.info = pb := by
    rw [hutag]; exact ldwn_pathOf_ok cfg _ _ pb hpb
  have hpt : packedTypeOf x.info = le 2 x.c := ldw_packedType x.info x.tname x.c x.sz h.infoOf.struct h.infoOf.typeName hentry
  have hdpos : 0 < x.dim := by have := h.inside; have := h.count; omega
  have hmem : x.s.mem ≠ [] := by
    intro he
    have hlen := h.len
    rw [he, List.length_nil] at hlen
    have : 0 < x.dim * x.sz := Nat.mul_pos hdpos hpos
    omega
  have hfit : x.i * x.sz + x.n * x.sz ≤ x.s.mem.length := by
    rw [h.len, ← Nat.add_mul]; exact Nat.mul_le_mul_right x.sz h.inside
  have hilt : x.i < x.dim := by have := h.inside; have := h.count; omega
  refine ⟨⟨?_, ?_, ?_, h.count16, ?_, ?_, ?_⟩, hbl, hchunks⟩
  · intro rid
    show parseTagRequest cfg.tags true rid x.tag = _
    have hparse := ldr2_parse_unfold cfg.tags true rid ⟨x.s.name, [x.i]⟩ none (some x.n) hl
      (by intro n hc; cases hc; exact h.count16)
    rw [Option.map_none, ldr2_tail_plain cfg.tags true rid _ _ _ _ ⟨x.s.name, [x.i]⟩ none x.info hl h.get hnd rfl,
      ldr2_tagStr_plain, ← htag, ← hutag] at hparse
    rw [hparse]
    rfl
  · intro rid
    exact ldw2_encodeValue_slice (ldwx_parsedOf rid (x.it cfg)) x.info x.dim x.n x.t x.vs x.bytes
      (by rw [h.infoOf.typeName]; exact hndw) h.infoOf.ty rfl rfl h.count rfl h.vlen h.enc
  · show requestPathOf cfg x.utag x.info = .ok (ldwn_pathOf cfg x.utag x.info)
    rw [hpo, hutag]; exact hpb
  · exact ⟨_, by show Denotes (ldwn_pathOf cfg x.utag x.info) _; rw [hpo]; exact hdenb⟩
  · show ldwx_BehOk p (Cl.writeMsg (ldwn_pathOf cfg x.utag x.info) (packedTypeOf x.info) x.n x.bytes)
      (.good x.s.inst (x.i * x.sz) x.bytes)
    rw [hpo, hpt]
    exact ⟨pb, _, ldr2_locAt x.s x.c x.sz x.i x.dim, x.s, x.n, x.sz, rfl, hdenb,
      ldr2_resolve_elem p x.s x.c x.sz cfg.useInstanceIds x.i x.dim h.ident h.mem hbytes h.uniqN h.uniqI h.ty h.size hmem
        h.dims hilt,
      rfl, rfl, rfl, by intro b; simp [ldr2_locAt], h.count, by simp only [ldr2_locAt]; have := h.inside; omega,
      by have := h.count16; omega, h.mem, rfl, h.uniqI, h.size, hbl, hfit⟩
  · show ({ tag := x.utag, value := .list x.vs, type := some (ldr2_typeStr x.info.core.dataTypeName x.n),
            error := ldwn_errOf {} } : LTag) = _
    rw [h.infoOf.typeName]
    rfl

end Pycomm.Lgx.Drv
