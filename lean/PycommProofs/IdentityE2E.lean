/-
  C16, end to end at the driver level: `_list_identity` (`Opn.listIdentity`), `get_module_info` (`ide_getModuleInfo`),
  `get_plc_info` (`Opn.getPlcInfo`) and the reply parsing of `discover`, each running the client model against the
  reference target — request frame → `handle` → ListIdentity item / Identity object → reply frame → response class →
  struct decode → vendor / product-type names, hex serial, keyswitch — for EVERY identity in the wire ranges.

  Reading guide.
  * `ide_Sock w sess` (IdE2E1): the driver has an open socket, an 8-byte sender context, option 0, the session attribute
    is `sess` (32 bit; 0 before registration — ListIdentity does not need a registered session), nothing pending, no
    transport faults. `gme_Session w sess` (GMe2eTarget) adds: the target has registered `sess`.
  * `IdOk idn` (IdentityProofs): every field of the target's identity is in its wire range (16-bit vendor / type / code /
    status, 8-bit major / minor / state, 32-bit serial / IP, product name of at most 255 bytes).
  * `Ident.s "key"` = the key as character codes; `lookupId id table` = `table.get(id, "UNKNOWN")` (`lookupId_spec`,
    `ide_lookup_unknown`); `hex8 n` = `f"{n:08x}"` (`hex8_spec`); `ide_dotted ip` = dotted quad, most significant octet
    first; `Lgx.Opn.keyswitchText b0 b1` = `KEYSWITCH.get(b0, {}).get(b1, "UNKNOWN")`.
  * `gme_rrIn t sess viaUcs req route` (GMe2eCore): `t` with two log entries added — the SendRRData event and the
    message-router entry `.mr false viaUcs req route` (newest first); everything else of the target is unchanged.
  * `EncAll hops ps n` (EPBasic): the hops encode as a padded EPATH within `n` bytes which the target's strict parser
    reads back as `ps` (`gme_hops_enc` gives it for backplane/port hops).
  * `ide_setIdentity w idn`: the same world with another device identity behind the socket.
-/
import PycommProofs.IdE2E3
namespace Pycomm.Cli
open Pycomm.Tgt Pycomm.Encap Pycomm.Path Pycomm.Reply Pycomm.EN Pycomm.EP Pycomm.Ident

/-- ListIdentity leaves a registered session registered -/
theorem ide_Session_of_li {σ} {w : World σ} {sess : Nat} (h : gme_Session w sess) (frm : Bytes) :
    gme_Session ({ w with net := { w.net with
        nSend := w.net.nSend + 1, nRecv := w.net.nRecv + 1, sent := w.net.sent ++ [frm], pending := [],
        target := { w.net.target with base := w.net.target.base.event (.encap CMD_LIST_IDENTITY sess true) } } } : World σ) sess :=
  { sock := h.sock, ctx8 := h.ctx8, opt0 := h.opt0, session := h.session, session32 := h.session32,
    sessionReg := h.sessionReg, pend := rfl, faults := h.faults }

-- PROPERTY THEOREMS

/-- (1) `_list_identity()` — what `list_identity`, `LogixDriver.open` and (per reply) `discover` run — on an open socket
    in front of a target with ANY identity `idn` in the wire ranges.
    Conclusion: the call returns exactly the ten-key dictionary of `idn`: protocol version 1, the IP address as a dotted
    quad, vendor and product-type NAMES through the generated tables ("UNKNOWN" for ids that are not listed), product
    code, revision {major, minor}, the two status bytes as they are on the wire, the serial number as 8 lower-case hex
    digits, the product name (Latin-1), the state. Exactly one frame is written — a ListIdentity (0x63) with the driver's
    session attribute and an empty body; the driver does not change; the target only logs the command; the world is
    ready for the next call. -/
theorem list_identity_e2e {σ} (hook : ObjHook σ) (w : World σ) (sess : Nat) (idn : Identity)
    (hw : ide_Sock w sess) (hidn : w.net.target.base.identity = idn) (hid : IdOk idn) :
    ∃ w' frm f,
      Lgx.Opn.listIdentity hook w =
        (w', .ok [(Ident.s "encap_protocol_version", .int 1),
                  (Ident.s "ip_address", .str (ide_dotted idn.ip)),
                  (Ident.s "vendor", .str (lookupId idn.vendor Gen.vendors)),
                  (Ident.s "product_type", .str (lookupId idn.productType Gen.productTypes)),
                  (Ident.s "product_code", .int idn.productCode),
                  (Ident.s "revision", .dict [(Ident.s "major", .int idn.major), (Ident.s "minor", .int idn.minor)]),
                  (Ident.s "status", .bytes [UInt8.ofNat (idn.status % 256), UInt8.ofNat (idn.status / 256 % 256)]),
                  (Ident.s "serial", .str (hex8 idn.serial)),
                  (Ident.s "product_name", .str (idn.name.map (·.toNat))),
                  (Ident.s "state", .int idn.state)]) ∧
      w'.net.sent = w.net.sent ++ [frm] ∧ w'.drv = w.drv ∧
      parseFrame frm = some f ∧ f.command = CMD_LIST_IDENTITY ∧ f.session = sess ∧ f.body = [] ∧
      w'.net.target = { w.net.target with base := w.net.target.base.event (.encap CMD_LIST_IDENTITY sess true) } ∧
      ide_Sock w' sess ∧ (gme_Session w sess → gme_Session w' sess) := by
  subst hidn
  obtain ⟨frm, f, _, hf, hc, hs, hb, hli⟩ := Lgx.Opn.ide_listIdentity hook w sess hw hid
  rw [ide_presentList_eq] at hli
  refine ⟨_, frm, f, hli, rfl, rfl, hf, hc, hs, hb, rfl, ?_, fun h => ide_Session_of_li h frm⟩
  exact { sock := hw.sock, ctx8 := hw.ctx8, opt0 := hw.opt0, session := hw.session, session32 := hw.session32,
          pend := rfl, faults := hw.faults }

/-- (1') the parsing used by `discover`: the broadcast request is built with session 0 and an all-zero sender context;
    the reply any target with identity `idn` sends to that frame parses (`ListIdentityResponsePacket.identity`) to the
    same ten-key dictionary -/
theorem discover_reply_e2e {σ} (hook : ObjHook σ) (t : Target σ) (idn : Identity)
    (hidn : t.base.identity = idn) (hid : IdOk idn) :
    ∃ frm t' reply,
      buildRequest .listIdentity { session := some 0, context := [0, 0, 0, 0, 0, 0, 0, 0], option := 0, targetCid := none } =
        .ok frm ∧
      handle hook t frm = (t', some reply) ∧
      t' = { t with base := t.base.event (.encap CMD_LIST_IDENTITY 0 true) } ∧
      parseListIdentity reply =
        some (.dict [(Ident.s "encap_protocol_version", .int 1),
                  (Ident.s "ip_address", .str (ide_dotted idn.ip)),
                  (Ident.s "vendor", .str (lookupId idn.vendor Gen.vendors)),
                  (Ident.s "product_type", .str (lookupId idn.productType Gen.productTypes)),
                  (Ident.s "product_code", .int idn.productCode),
                  (Ident.s "revision", .dict [(Ident.s "major", .int idn.major), (Ident.s "minor", .int idn.minor)]),
                  (Ident.s "status", .bytes [UInt8.ofNat (idn.status % 256), UInt8.ofNat (idn.status / 256 % 256)]),
                  (Ident.s "serial", .str (hex8 idn.serial)),
                  (Ident.s "product_name", .str (idn.name.map (·.toNat))),
                  (Ident.s "state", .int idn.state)]) := by
  subst hidn
  have hb := ide_build_li { session := some 0, context := [0, 0, 0, 0, 0, 0, 0, 0], option := 0, targetCid := none } 0
    rfl (by decide) rfl
  obtain ⟨s2, common, g1, g2, _, g4⟩ := parse_built _ _ _ rfl hb
  cases g1
  have g2' : common = [] := g2
  subst g2'
  have hh := ide_handle_li hook t _ _ g4 rfl rfl rfl rfl
  refine ⟨_, _, _, hb, hh, rfl, ?_⟩
  rw [list_identity_decode_spec _ hid 0 _ rfl]
  exact congrArg (fun x => some (PyVal.dict x)) (ide_presentList_eq _)

/-- (2) `get_module_info(slot)` on a registered session in front of a target with ANY identity `idn`:
    `generic_message(service=1, class=1, instance=1, connected=False, unconnected_send=True,
    route_path=cip_path[:-1] + bp/slot)`.
    Hypotheses: the hops of the configured path before the last one encode (`EncAll`, within 298 bytes); the slot is a
    byte (a larger slot makes the real encoder raise; the call then ends in ResponseError).
    Conclusion: the call returns exactly the seven-key dictionary of `idn`; the generic message itself returns a Tag
    without error whose value decodes (`ModuleIdentityObject.decode`) to that dictionary with nothing left over; one
    frame is written; the route the target's strict parser reads is the hops followed by backplane/slot; the driver does
    not change; the target only logs the request (Get_Attributes_All on class 1 instance 1, via Unconnected Send, with
    that route); the session stays healthy. -/
theorem get_module_info_e2e {σ} (hook : ObjHook σ) (w : World σ) (sess slot : Nat) (idn : Identity)
    (hops : List Seg) (ps : List PSeg)
    (hw : gme_Session w sess) (hidn : w.net.target.base.identity = idn) (hid : IdOk idn)
    (hhops : w.drv.cipPath.take (w.drv.cipPath.length - 1) = hops) (henc : EncAll hops ps 298) (hslot : slot < 256) :
    ∃ pre, encSegs true hops = .ok pre ∧
      let route := pre ++ [1, UInt8.ofNat slot]
      let req : MRReq := { service := 1, path := [.logical 0 1, .logical 4 1], data := [] }
      let dict : List (Name × PyVal) :=
        [(Ident.s "vendor", .str (lookupId idn.vendor Gen.vendors)),
         (Ident.s "product_type", .str (lookupId idn.productType Gen.productTypes)),
         (Ident.s "product_code", .int idn.productCode),
         (Ident.s "revision", .dict [(Ident.s "major", .int idn.major), (Ident.s "minor", .int idn.minor)]),
         (Ident.s "status", .bytes [UInt8.ofNat (idn.status % 256), UInt8.ofNat (idn.status / 256 % 256)]),
         (Ident.s "serial", .str (hex8 idn.serial)),
         (Ident.s "product_name", .str (idn.name.map (·.toNat)))]
      ∃ w' frm rb b,
        ide_getModuleInfo hook w slot = (w', .ok dict) ∧
        encEpath true (hops ++ [Seg.port (.name (nm "bp")) (.int slot)]) true true = .ok rb ∧
        genericMessage hook FUEL w
          { service := 0x01, cls := .bytes [0x01], inst := .bytes [0x01], connected := false, unconnectedSend := true,
            route := .bytes rb, name := nm "get_module_info" } =
          (w', .ok { name := nm "get_module_info", value := .bytes b, error := none }) ∧
        decodeModuleIdentity b = .ok (.dict dict, []) ∧
        w'.net.sent = w.net.sent ++ [frm] ∧ w'.drv = w.drv ∧
        parsePadded (route.length + 1) route = some (ps ++ [PSeg.port 1 [UInt8.ofNat slot]]) ∧
        w'.net.target = gme_rrIn w.net.target sess true req route ∧
        gme_Session w' sess := by
  subst hidn
  obtain ⟨pre, hpre, hrb, hr2, hrl, hparse⟩ := ide_route_bp hops ps slot henc hslot
  refine ⟨pre, hpre, ?_⟩
  intro route req dict
  obtain ⟨frm, hgm⟩ := ide_ucs_identity hook w sess
    { service := 0x01, cls := .bytes [0x01], inst := .bytes [0x01], connected := false, unconnectedSend := true,
      route := .bytes _, name := nm "get_module_info" } route _ hw rfl rfl rfl hr2 hrl hparse rfl
    (gme_Id.bytes [1] (.inl rfl)) (gme_Id.bytes [1] (.inl rfl)) .absent rfl (Nat.zero_le _)
  have hdec := module_identity_decode_spec w.net.target.base.identity hid []
  rw [List.append_nil] at hdec
  refine ⟨_, frm, _, _, ?_, hrb, hgm, hdec, rfl, rfl, hparse, rfl, ide_Session_after hw frm true _ _⟩
  exact ide_getModuleInfo_of_gm hook w _ slot _ _ hid (by rw [hhops]; exact hrb) hgm

/-- (3) `get_plc_info()` on a registered session in front of a target with ANY identity `idn`, for both variants the
    model distinguishes: `micro800 = false` wraps the request in an Unconnected Send over the configured path;
    `micro800 = true` sends it directly, and the encoded path (size byte, reserved 0, hops) follows the request — the
    target's message router reads those bytes as request data, which the Identity object ignores.
    Hypothesis: the configured path encodes (`EncAll`, within 300 bytes).
    Conclusion: the call returns exactly the seven-key dictionary of `idn` plus `keyswitch`, the text the KEYSWITCH table
    gives for the two status bytes (low byte, then high byte; "UNKNOWN" when either lookup misses) — for EVERY status
    word; one frame; driver unchanged; the target only logs the request; the session stays healthy. -/
theorem get_plc_info_e2e {σ} (hook : ObjHook σ) (w : World σ) (sess : Nat) (micro800 : Bool) (idn : Identity)
    (ps : List PSeg)
    (hw : gme_Session w sess) (hidn : w.net.target.base.identity = idn) (hid : IdOk idn)
    (henc : EncAll w.drv.cipPath ps 300) :
    ∃ route, encSegs true w.drv.cipPath = .ok route ∧ parsePadded (route.length + 1) route = some ps ∧
      let req : MRReq :=
        { service := 1, path := [.logical 0 1, .logical 4 1],
          data := if micro800 then [UInt8.ofNat (route.length / 2), 0] ++ route else [] }
      ∃ w' frm,
        Lgx.Opn.getPlcInfo hook w micro800 =
          (w', .ok [(Ident.s "vendor", .str (lookupId idn.vendor Gen.vendors)),
                    (Ident.s "product_type", .str (lookupId idn.productType Gen.productTypes)),
                    (Ident.s "product_code", .int idn.productCode),
                    (Ident.s "revision", .dict [(Ident.s "major", .int idn.major), (Ident.s "minor", .int idn.minor)]),
                    (Ident.s "status", .bytes [UInt8.ofNat (idn.status % 256), UInt8.ofNat (idn.status / 256 % 256)]),
                    (Ident.s "serial", .str (hex8 idn.serial)),
                    (Ident.s "product_name", .str (idn.name.map (·.toNat))),
                    (Ident.s "keyswitch", .str (Lgx.Opn.keyswitchText (idn.status % 256) (idn.status / 256 % 256)))]) ∧
        w'.net.sent = w.net.sent ++ [frm] ∧ w'.drv = w.drv ∧
        w'.net.target = gme_rrIn w.net.target sess (!micro800) req (if micro800 then [] else route) ∧
        gme_Session w' sess := by
  subst hidn
  obtain ⟨route, henc1, hgr, hr2, hrl, hparse⟩ := gme_route_enc henc (by omega)
  refine ⟨route, henc1, hparse, ?_⟩
  intro req
  cases micro800 with
  | false =>
    obtain ⟨frm, hgm⟩ := ide_ucs_identity hook w sess
      { service := 0x01, cls := .bytes [0x01], inst := .bytes [0x01], connected := false, unconnectedSend := !false,
        name := Lgx.Opn.nm "get_plc_info" } route ps hw rfl rfl hgr hr2 hrl hparse rfl
      (gme_Id.bytes [1] (.inl rfl)) (gme_Id.bytes [1] (.inl rfl)) .absent rfl (by decide)
    exact ⟨_, frm, Lgx.Opn.ide_getPlcInfo_of_gm hook w _ false _ hid hgm, rfl, rfl, rfl, ide_Session_after hw frm true _ _⟩
  | true =>
    obtain ⟨frm, hgm⟩ := ide_direct_identity hook w sess
      { service := 0x01, cls := .bytes [0x01], inst := .bytes [0x01], connected := false, unconnectedSend := !true,
        name := Lgx.Opn.nm "get_plc_info" } _ hw rfl rfl hgr (by simp; omega) rfl
      (gme_Id.bytes [1] (.inl rfl)) (gme_Id.bytes [1] (.inl rfl)) .absent rfl (by decide)
    exact ⟨_, frm, Lgx.Opn.ide_getPlcInfo_of_gm hook w _ true _ hid hgm, rfl, rfl, rfl, ide_Session_after hw frm false _ _⟩

/-- (3') the first two steps of `LogixDriver._initialize_driver`: `_list_identity()`, then `get_plc_info()` with the
    Micro800 flag derived from the first answer (`product_name.startswith("2080")`). Both answers are the target's
    identity; the flag is exactly "the product name starts with 2080"; two frames. -/
theorem identify_then_info_e2e {σ} (hook : ObjHook σ) (w : World σ) (sess : Nat) (idn : Identity) (ps : List PSeg)
    (hw : gme_Session w sess) (hidn : w.net.target.base.identity = idn) (hid : IdOk idn)
    (henc : EncAll w.drv.cipPath ps 300) :
    ∃ w1 w2 identity,
      Lgx.Opn.listIdentity hook w = (w1, .ok identity) ∧ identity = ide_presentList idn ∧
      Lgx.Opn.isMicro800 identity = PyStr.startsWith Gen.MICRO800_PREFIX (idn.name.map (·.toNat)) ∧
      Lgx.Opn.getPlcInfo hook w1 (Lgx.Opn.isMicro800 identity) = (w2, .ok (Lgx.Opn.ide_presentInfo idn)) ∧
      w2.net.sent.length = w.net.sent.length + 2 ∧ w2.drv = w.drv ∧ gme_Session w2 sess := by
  obtain ⟨w1, frm1, _, h1, hs1, hd1, _, _, _, _, ht1, _, hk1⟩ :=
    list_identity_e2e hook w sess idn (ide_Sock_of_Session hw) hidn hid
  have hidn1 : w1.net.target.base.identity = idn := by rw [ht1]; exact hidn
  obtain ⟨_, _, _, h2⟩ := get_plc_info_e2e hook w1 sess (Lgx.Opn.isMicro800 (ide_presentList idn)) idn ps (hk1 hw) hidn1 hid
    (by rw [hd1]; exact henc)
  obtain ⟨w2, frm2, h2, hs2, hd2, _, hk2⟩ := h2
  refine ⟨w1, w2, _, ?_, rfl, Lgx.Opn.ide_isMicro800 idn, h2, ?_, by rw [hd2, hd1], hk2⟩
  · rw [ide_presentList_eq]; exact h1
  · rw [hs2, hs1]; simp

/-- (4) no state is carried from one call to the next: on one driver, `_list_identity`, `get_plc_info` and
    `get_module_info` in front of a device with identity `idn1`, then — the device behind the socket replaced by one
    with identity `idn2` (`ide_setIdentity`) — the same three calls: each call returns the dictionary of the identity the
    device has when the call is made; nothing of the earlier answers survives (a driver that merged or cached earlier
    results would contradict the last three equations whenever `idn1 ≠ idn2`). Six frames in all. -/
theorem identity_changes_e2e {σ} (hook : ObjHook σ) (w : World σ) (sess slot : Nat) (m1 m2 : Bool) (idn1 idn2 : Identity)
    (ps ps' : List PSeg)
    (hw : gme_Session w sess) (hidn : w.net.target.base.identity = idn1) (hid1 : IdOk idn1) (hid2 : IdOk idn2)
    (henc : EncAll w.drv.cipPath ps 300)
    (henc' : EncAll (w.drv.cipPath.take (w.drv.cipPath.length - 1)) ps' 298) (hslot : slot < 256) :
    ∃ w1 w2 w3 w4 w5 w6,
      Lgx.Opn.listIdentity hook w = (w1, .ok (ide_presentList idn1)) ∧
      Lgx.Opn.getPlcInfo hook w1 m1 = (w2, .ok (Lgx.Opn.ide_presentInfo idn1)) ∧
      ide_getModuleInfo hook w2 slot = (w3, .ok (presentModule idn1)) ∧
      Lgx.Opn.listIdentity hook (ide_setIdentity w3 idn2) = (w4, .ok (ide_presentList idn2)) ∧
      Lgx.Opn.getPlcInfo hook w4 m2 = (w5, .ok (Lgx.Opn.ide_presentInfo idn2)) ∧
      ide_getModuleInfo hook w5 slot = (w6, .ok (presentModule idn2)) ∧
      w6.net.sent.length = w.net.sent.length + 6 ∧ w6.drv = w.drv ∧ gme_Session w6 sess := by
  -- first device
  obtain ⟨w1, _, _, h1, hs1, hd1, _, _, _, _, ht1, _, hk1⟩ :=
    list_identity_e2e hook w sess idn1 (ide_Sock_of_Session hw) hidn hid1
  have hi1 : w1.net.target.base.identity = idn1 := by rw [ht1]; exact hidn
  obtain ⟨_, _, _, w2, _, h2, hs2, hd2, ht2, hk2⟩ :=
    get_plc_info_e2e hook w1 sess m1 idn1 ps (hk1 hw) hi1 hid1 (by rw [hd1]; exact henc)
  have hi2 : w2.net.target.base.identity = idn1 := by rw [ht2]; exact hi1
  obtain ⟨_, _, w3, _, _, _, h3, _, _, _, hs3, hd3, _, ht3, hk3⟩ :=
    get_module_info_e2e hook w2 sess slot idn1 _ ps' hk2 hi2 hid1 rfl (by rw [hd2, hd1]; exact henc') hslot
  -- the device is replaced
  have hk3' := ide_Session_setIdentity hk3 idn2
  have hd3' : (ide_setIdentity w3 idn2).drv = w.drv := by show w3.drv = _; rw [hd3, hd2, hd1]
  obtain ⟨w4, _, _, h4, hs4, hd4, _, _, _, _, ht4, _, hk4⟩ :=
    list_identity_e2e hook (ide_setIdentity w3 idn2) sess idn2 (ide_Sock_of_Session hk3') rfl hid2
  have hi4 : w4.net.target.base.identity = idn2 := by rw [ht4]; rfl
  obtain ⟨_, _, _, w5, _, h5, hs5, hd5, ht5, hk5⟩ :=
    get_plc_info_e2e hook w4 sess m2 idn2 ps (hk4 hk3') hi4 hid2 (by rw [hd4, hd3']; exact henc)
  have hi5 : w5.net.target.base.identity = idn2 := by rw [ht5]; exact hi4
  obtain ⟨_, _, w6, _, _, _, h6, _, _, _, hs6, hd6, _, _, hk6⟩ :=
    get_module_info_e2e hook w5 sess slot idn2 _ ps' hk5 hi5 hid2 rfl (by rw [hd5, hd4, hd3']; exact henc') hslot
  refine ⟨w1, w2, w3, w4, w5, w6, ?_, h2, h3, ?_, h5, h6, ?_, by rw [hd6, hd5, hd4, hd3'], hk6⟩
  · rw [ide_presentList_eq]; exact h1
  · rw [ide_presentList_eq]; exact h4
  · have hs3' : (ide_setIdentity w3 idn2).net.sent = w3.net.sent := rfl
    rw [hs6, hs5, hs4, hs3', hs3, hs2, hs1]
    simp

/-! ### the hypotheses can be met: concrete worlds obtained by running the model -/

namespace IdEx

/-- no extension objects -/
def hookU : ObjHook Unit := fun _ _ _ => none
/-- a ControlLogix controller: vendor 1, type 14, code 55, revision 32.11, status 0x3060, serial 0x00C0FFEE,
    "1756-L83E/B", state 3, 192.168.1.10 -/
def idA : Identity :=
  { vendor := 1, productType := 14, productCode := 55, major := 32, minor := 11, status := 0x3060, serial := 0x00C0FFEE,
    name := [49, 55, 53, 54, 45, 76, 56, 51, 69, 47, 66], state := 3, ip := 0xC0A8010A }
/-- a device with vendor and product-type ids no table lists, an empty name, all-ones status and state, address 0.0.0.0 -/
def idB : Identity :=
  { vendor := 60000, productType := 999, productCode := 7, major := 1, minor := 2, status := 0xFFFF, serial := 1,
    name := [], state := 255, ip := 0 }
/-- a Micro850: "2080-LC50-48QWB", status 0x3170 (remote program), 10.0.0.5 -/
def idM : Identity :=
  { vendor := 1, productType := 14, productCode := 151, major := 12, minor := 11, status := 0x3170, serial := 0x600DCAFE,
    name := [50, 48, 56, 48, 45, 76, 67, 53, 48, 45, 52, 56, 81, 87, 66], state := 3, ip := 0x0A000005 }
/-- a fresh driver (configured path: backplane, slot 0) in front of a fresh target with identity `i`; `ok` = the target
    accepts RegisterSession -/
def world0 (i : Identity) (ok : Bool) : World Unit :=
  { drv := { cipPath := [Seg.port (.int 1) (.int 0)] },
    net := { target := { base := { identity := i, plcName := [], policy := { sessionOk := ok } }, ext := () } } }
/-- … after `open()`: a registered session (handle 4097) -/
def worldS (i : Identity) : World Unit := (openDrv hookU (world0 i true) [1, 2, 3, 4, 5, 6, 7, 8]).1
/-- … after an `open()` whose RegisterSession was refused: the socket is open, the session attribute is still 0 — the
    state in which the classmethod `list_identity` (which ignores the result of `open()`) sends its request -/
def worldR (i : Identity) : World Unit := (openDrv hookU (world0 i false) [1, 2, 3, 4, 5, 6, 7, 8]).1

def render (r : World Unit × Except Exn (List (Name × PyVal))) : String :=
  match r.2 with | .ok kvs => (PyVal.dict kvs).toSexp.render | .error e => "raise " ++ e.render
def str (x : String) : String := " ".intercalate ("s" :: (x.toList.map fun c => toString c.toNat))

-- evaluation checks of the runs (interpreter)
#guard (worldS idA).drv.session == some 4097 && (worldS idA).drv.hasSock && (worldS idA).net.target.base.sessions == [4097]
#guard (worldR idB).drv.session == some 0 && (worldR idB).drv.hasSock && (worldR idB).net.target.base.sessions == [] &&
  (worldR idB).net.pending.length == 0
#guard render (Lgx.Opn.listIdentity hookU (worldS idA)) ==
  s!"(d (({str "encap_protocol_version"}) (i 1)) (({str "ip_address"}) ({str "192.168.1.10"})) " ++
  s!"(({str "vendor"}) ({str "Rockwell Automation/Allen-Bradley"})) (({str "product_type"}) ({str "Programmable Logic Controller"})) " ++
  s!"(({str "product_code"}) (i 55)) (({str "revision"}) (d (({str "major"}) (i 32)) (({str "minor"}) (i 11)))) " ++
  s!"(({str "status"}) (b 6030)) (({str "serial"}) ({str "00c0ffee"})) (({str "product_name"}) ({str "1756-L83E/B"})) " ++
  s!"(({str "state"}) (i 3)))"
#guard render (Lgx.Opn.listIdentity hookU (worldR idB)) ==
  s!"(d (({str "encap_protocol_version"}) (i 1)) (({str "ip_address"}) ({str "0.0.0.0"})) " ++
  s!"(({str "vendor"}) ({str "UNKNOWN"})) (({str "product_type"}) ({str "UNKNOWN"})) " ++
  s!"(({str "product_code"}) (i 7)) (({str "revision"}) (d (({str "major"}) (i 1)) (({str "minor"}) (i 2)))) " ++
  s!"(({str "status"}) (b ffff)) (({str "serial"}) ({str "00000001"})) (({str "product_name"}) (s)) " ++
  s!"(({str "state"}) (i 255)))"
-- the runs agree with what the theorems predict (`ide_presentList` / `presentModule` / `ide_presentInfo`)
#guard render (Lgx.Opn.listIdentity hookU (worldS idA)) == (PyVal.dict (ide_presentList idA)).toSexp.render
#guard render (Lgx.Opn.listIdentity hookU (worldR idB)) == (PyVal.dict (ide_presentList idB)).toSexp.render
#guard render (ide_getModuleInfo hookU (worldS idA) 3) == (PyVal.dict (presentModule idA)).toSexp.render
#guard render (ide_getModuleInfo hookU (worldS idB) 255) == (PyVal.dict (presentModule idB)).toSexp.render
#guard render (Lgx.Opn.getPlcInfo hookU (worldS idA) false) == (PyVal.dict (Lgx.Opn.ide_presentInfo idA)).toSexp.render
#guard render (Lgx.Opn.getPlcInfo hookU (worldS idM) true) == (PyVal.dict (Lgx.Opn.ide_presentInfo idM)).toSexp.render
#guard render (Lgx.Opn.getPlcInfo hookU (worldS idB) false) == (PyVal.dict (Lgx.Opn.ide_presentInfo idB)).toSexp.render
-- keyswitch texts: status bytes 60 30 → REMOTE RUN, 70 31 → REMOTE PROG, FF FF → UNKNOWN
#guard Lgx.Opn.keyswitchText 0x60 0x30 == "REMOTE RUN".toList.map Char.toNat &&
  Lgx.Opn.keyswitchText 0x70 0x31 == "REMOTE PROG".toList.map Char.toNat &&
  Lgx.Opn.keyswitchText 0xFF 0xFF == "UNKNOWN".toList.map Char.toNat
-- ids 60000 / 999 are in neither table; 1 / 14 are
#guard Gen.vendors.all (·.1 != 60000) && Gen.productTypes.all (·.1 != 999) &&
  Gen.vendors.any (·.1 == 1) && Gen.productTypes.any (·.1 == 14)
-- the Micro800 test on the ListIdentity answers
#guard Lgx.Opn.isMicro800 (ide_presentList idM) && !Lgx.Opn.isMicro800 (ide_presentList idA) &&
  !Lgx.Opn.isMicro800 (ide_presentList idB)
-- what the target logs: get_module_info(3) = Get_Attributes_All via Unconnected Send with route 01 03 (the configured
-- hop bp/0 replaced by bp/3); get_plc_info of the Micro800 = the same request sent directly, with the encoded
-- configured path 01 00 01 00 as request data
#guard (ide_getModuleInfo hookU (worldS idA) 3).1.net.target.base.log.head? ==
  some (.mr false true { service := 1, path := [.logical 0 1, .logical 4 1], data := [] } [1, 3])
#guard (Lgx.Opn.getPlcInfo hookU (worldS idM) true).1.net.target.base.log.head? ==
  some (.mr false false { service := 1, path := [.logical 0 1, .logical 4 1], data := [1, 0, 1, 0] } [])
-- the harness operations print the same results (OpsClient glue; extension state `Ext`, hook `hookAll`)
def worldOps (i : Identity) : W :=
  (openDrv hookAll { drv := { cipPath := [Seg.port (.int 1) (.int 0)] },
                     net := { target := { base := { identity := i, plcName := [] }, ext := {} } } } [1, 2, 3, 4, 5, 6, 7, 8]).1
#guard (modInfoOp (worldOps idA) 3).2 == (ide_renderInfo (ide_getModuleInfo hookAll (worldOps idA) 3)).2
#guard (modInfoOp (worldOps idB) 300).2 == (ide_renderInfo (ide_getModuleInfo hookAll (worldOps idB) 300)).2
#guard (listIdentityOp (worldOps idA)).2 == "(identity " ++ (PyVal.dict (ide_presentList idA)).toSexp.render ++ ")"
#guard (plcInfoOp (worldOps idA) false).2 == "(identity " ++ (PyVal.dict (Lgx.Opn.ide_presentInfo idA)).toSexp.render ++ ")"
#guard (plcInfoOp (worldOps idM) true).2 == "(identity " ++ (PyVal.dict (Lgx.Opn.ide_presentInfo idM)).toSexp.render ++ ")"

-- STATEMENT CHANGED: "target unchanged" is false of the model as stated: the reference target keeps a log of what it
-- receives, and every call adds to it (one entry for ListIdentity; two — the SendRRData event and the message-router
-- request — for the Identity object). The theorems say exactly which entries are added and that NOTHING ELSE of the
-- target changes (`w'.net.target = { … with base := base.event … }` / `gme_rrIn …`). Counterexample to literal equality:
#guard (Lgx.Opn.listIdentity hookU (worldS idA)).1.net.target.base.log.length == (worldS idA).net.target.base.log.length + 1
#guard (Lgx.Opn.getPlcInfo hookU (worldS idA) false).1.net.target.base.log.length == (worldS idA).net.target.base.log.length + 2
-- … while identity, sessions, connections, policy are untouched:
#guard (Lgx.Opn.getPlcInfo hookU (worldS idA) false).1.net.target.base.identity == idA &&
  (Lgx.Opn.getPlcInfo hookU (worldS idA) false).1.net.target.base.sessions == [4097]
-- STATEMENT CHANGED: `get_module_info(slot)` needs `slot < 256` (hypothesis `hslot`): the slot is the one-byte link
-- address of a port segment; for a larger slot the path encoder raises, nothing is sent, the call ends in ResponseError.
-- Counterexample:
#guard render (ide_getModuleInfo hookU (worldS idA) 256) == "raise " ++ Exn.response.render &&
  (ide_getModuleInfo hookU (worldS idA) 256).1.net.sent.length == (worldS idA).net.sent.length
-- STATEMENT CHANGED: the Identity-object calls need a REGISTERED session (`gme_Session`, not just an open socket):
-- SendRRData without a session is refused by the target with encapsulation status 0x64, and the call ends in
-- ResponseError. ListIdentity has no such requirement (`ide_Sock`). Counterexample (registration refused, then):
#guard render (Lgx.Opn.getPlcInfo hookU (worldR idA) false) == "raise " ++ Exn.response.render
#guard render (Lgx.Opn.listIdentity hookU (worldR idA)) == (PyVal.dict (ide_presentList idA)).toSexp.render

private theorem idOk (i : Identity) (hi : i = idA ∨ i = idB ∨ i = idM) : IdOk i := by
  rcases hi with rfl | rfl | rfl <;> (unfold IdOk; decide)

private theorem sessionOk (i : Identity) (hi : i = idA ∨ i = idB ∨ i = idM) : gme_Session (worldS i) 4097 := by
  rcases hi with rfl | rfl | rfl <;>
  exact { sock := by decide +kernel, ctx8 := by decide +kernel, opt0 := by decide +kernel, session := by decide +kernel,
          session32 := by decide, sessionReg := by decide +kernel, pend := by decide +kernel, faults := by decide +kernel }

private theorem sockOk (i : Identity) (hi : i = idA ∨ i = idB ∨ i = idM) : ide_Sock (worldR i) 0 := by
  rcases hi with rfl | rfl | rfl <;>
  exact { sock := by decide +kernel, ctx8 := by decide +kernel, opt0 := by decide +kernel, session := by decide +kernel,
          session32 := by decide, pend := by decide +kernel, faults := by decide +kernel }

private theorem identS (i : Identity) (hi : i = idA ∨ i = idB ∨ i = idM) : (worldS i).net.target.base.identity = i := by
  rcases hi with rfl | rfl | rfl <;> decide +kernel

private theorem identR (i : Identity) (hi : i = idA ∨ i = idB ∨ i = idM) : (worldR i).net.target.base.identity = i := by
  rcases hi with rfl | rfl | rfl <;> decide +kernel

private theorem pathS (i : Identity) (hi : i = idA ∨ i = idB ∨ i = idM) :
    (worldS i).drv.cipPath = [Seg.port (.int 1) (.int 0)] := by
  rcases hi with rfl | rfl | rfl <;> decide +kernel

private theorem encPath : EncAll [Seg.port (.int 1) (.int 0)] [PSeg.port 1 [0]] 300 :=
  (gme_hops_enc [(1, 0)] (by decide)).1.mono (by decide)

/-- (1) on the registered session, the known identity: every hypothesis holds; the answer, key by key -/
example : ∃ w', Lgx.Opn.listIdentity hookU (worldS idA) =
    (w', .ok [(Ident.s "encap_protocol_version", .int 1),
              (Ident.s "ip_address", .str (Ident.s "192.168.1.10")),
              (Ident.s "vendor", .str (Ident.s "Rockwell Automation/Allen-Bradley")),
              (Ident.s "product_type", .str (Ident.s "Programmable Logic Controller")),
              (Ident.s "product_code", .int 55),
              (Ident.s "revision", .dict [(Ident.s "major", .int 32), (Ident.s "minor", .int 11)]),
              (Ident.s "status", .bytes [0x60, 0x30]),
              (Ident.s "serial", .str (Ident.s "00c0ffee")),
              (Ident.s "product_name", .str (Ident.s "1756-L83E/B")),
              (Ident.s "state", .int 3)]) := by
  obtain ⟨w', _, _, h, _⟩ := list_identity_e2e hookU (worldS idA) 4097 idA
    (ide_Sock_of_Session (sessionOk _ (.inl rfl))) (identS _ (.inl rfl)) (idOk _ (.inl rfl))
  have e1 : ide_dotted idA.ip = Ident.s "192.168.1.10" := by decide +kernel
  have e2 : lookupId idA.vendor Gen.vendors = Ident.s "Rockwell Automation/Allen-Bradley" := by decide +kernel
  have e3 : lookupId idA.productType Gen.productTypes = Ident.s "Programmable Logic Controller" := by decide +kernel
  have e4 : hex8 idA.serial = Ident.s "00c0ffee" := by decide +kernel
  have e5 : idA.name.map (·.toNat) = Ident.s "1756-L83E/B" := by decide +kernel
  rw [e1, e2, e3, e4, e5] at h
  exact ⟨w', h⟩

/-- (1) on the open socket without a session, the device no table knows: "UNKNOWN" twice, empty name, 0.0.0.0 -/
example : ∃ w', Lgx.Opn.listIdentity hookU (worldR idB) =
    (w', .ok [(Ident.s "encap_protocol_version", .int 1),
              (Ident.s "ip_address", .str (Ident.s "0.0.0.0")),
              (Ident.s "vendor", .str (Ident.s "UNKNOWN")),
              (Ident.s "product_type", .str (Ident.s "UNKNOWN")),
              (Ident.s "product_code", .int 7),
              (Ident.s "revision", .dict [(Ident.s "major", .int 1), (Ident.s "minor", .int 2)]),
              (Ident.s "status", .bytes [0xFF, 0xFF]),
              (Ident.s "serial", .str (Ident.s "00000001")),
              (Ident.s "product_name", .str []),
              (Ident.s "state", .int 255)]) := by
  obtain ⟨w', _, _, h, _⟩ := list_identity_e2e hookU (worldR idB) 0 idB (sockOk _ (.inr (.inl rfl)))
    (identR _ (.inr (.inl rfl))) (idOk _ (.inr (.inl rfl)))
  have e1 : ide_dotted idB.ip = Ident.s "0.0.0.0" := by decide +kernel
  have e2 : lookupId idB.vendor Gen.vendors = Ident.s "UNKNOWN" := by decide +kernel
  have e3 : lookupId idB.productType Gen.productTypes = Ident.s "UNKNOWN" := by decide +kernel
  have e4 : hex8 idB.serial = Ident.s "00000001" := by decide +kernel
  rw [e1, e2, e3, e4] at h
  exact ⟨w', h⟩

/-- (1') `discover`: the reply of the unknown device to the broadcast frame parses to its dictionary -/
example := discover_reply_e2e hookU (worldS idB).net.target idB (identS _ (.inr (.inl rfl))) (idOk _ (.inr (.inl rfl)))

private theorem encS (i : Identity) (hi : i = idA ∨ i = idB ∨ i = idM) : EncAll (worldS i).drv.cipPath [PSeg.port 1 [0]] 300 := by
  rw [pathS i hi]; exact encPath

private theorem hopsS (i : Identity) (hi : i = idA ∨ i = idB ∨ i = idM) :
    (worldS i).drv.cipPath.take ((worldS i).drv.cipPath.length - 1) = [] := by
  rw [pathS i hi]; rfl

/-- (2) `get_module_info(3)` on the registered session: the module's dictionary, key by key; the target saw
    Get_Attributes_All on the Identity object through an Unconnected Send routed to backplane slot 3 -/
example : ∃ w', ide_getModuleInfo hookU (worldS idA) 3 =
    (w', .ok [(Ident.s "vendor", .str (Ident.s "Rockwell Automation/Allen-Bradley")),
              (Ident.s "product_type", .str (Ident.s "Programmable Logic Controller")),
              (Ident.s "product_code", .int 55),
              (Ident.s "revision", .dict [(Ident.s "major", .int 32), (Ident.s "minor", .int 11)]),
              (Ident.s "status", .bytes [0x60, 0x30]),
              (Ident.s "serial", .str (Ident.s "00c0ffee")),
              (Ident.s "product_name", .str (Ident.s "1756-L83E/B"))]) ∧
    w'.net.target.base.log.head? =
      some (.mr false true { service := 1, path := [.logical 0 1, .logical 4 1], data := [] } [1, 3]) := by
  obtain ⟨pre, hpre, h⟩ := get_module_info_e2e hookU (worldS idA) 4097 3 idA [] [] (sessionOk _ (.inl rfl))
    (identS _ (.inl rfl)) (idOk _ (.inl rfl)) (hopsS _ (.inl rfl)) (EncAll.nil.mono (by decide)) (by decide)
  cases hpre
  obtain ⟨w', _, _, _, h1, _, _, _, _, _, _, ht, _⟩ := h
  have e2 : lookupId idA.vendor Gen.vendors = Ident.s "Rockwell Automation/Allen-Bradley" := by decide +kernel
  have e3 : lookupId idA.productType Gen.productTypes = Ident.s "Programmable Logic Controller" := by decide +kernel
  have e4 : hex8 idA.serial = Ident.s "00c0ffee" := by decide +kernel
  have e5 : idA.name.map (·.toNat) = Ident.s "1756-L83E/B" := by decide +kernel
  rw [e2, e3, e4, e5] at h1
  exact ⟨w', h1, by rw [ht]; rfl⟩

/-- (2) … and for the device no table knows, in the last slot -/
example := get_module_info_e2e hookU (worldS idB) 4097 255 idB [] [] (sessionOk _ (.inr (.inl rfl)))
  (identS _ (.inr (.inl rfl))) (idOk _ (.inr (.inl rfl))) (hopsS _ (.inr (.inl rfl))) (EncAll.nil.mono (by decide)) (by decide)

/-- (3) `get_plc_info()` of the ControlLogix (Unconnected Send over the configured path): status 60 30 → "REMOTE RUN" -/
example : ∃ w', Lgx.Opn.getPlcInfo hookU (worldS idA) false =
    (w', .ok [(Ident.s "vendor", .str (Ident.s "Rockwell Automation/Allen-Bradley")),
              (Ident.s "product_type", .str (Ident.s "Programmable Logic Controller")),
              (Ident.s "product_code", .int 55),
              (Ident.s "revision", .dict [(Ident.s "major", .int 32), (Ident.s "minor", .int 11)]),
              (Ident.s "status", .bytes [0x60, 0x30]),
              (Ident.s "serial", .str (Ident.s "00c0ffee")),
              (Ident.s "product_name", .str (Ident.s "1756-L83E/B")),
              (Ident.s "keyswitch", .str (Ident.s "REMOTE RUN"))]) := by
  obtain ⟨_, _, _, w', _, h1, _⟩ := get_plc_info_e2e hookU (worldS idA) 4097 false idA _ (sessionOk _ (.inl rfl))
    (identS _ (.inl rfl)) (idOk _ (.inl rfl)) (encS _ (.inl rfl))
  have e2 : lookupId idA.vendor Gen.vendors = Ident.s "Rockwell Automation/Allen-Bradley" := by decide +kernel
  have e3 : lookupId idA.productType Gen.productTypes = Ident.s "Programmable Logic Controller" := by decide +kernel
  have e4 : hex8 idA.serial = Ident.s "00c0ffee" := by decide +kernel
  have e5 : idA.name.map (·.toNat) = Ident.s "1756-L83E/B" := by decide +kernel
  have e6 : Lgx.Opn.keyswitchText (idA.status % 256) (idA.status / 256 % 256) = Ident.s "REMOTE RUN" := by decide +kernel
  rw [e2, e3, e4, e5, e6] at h1
  exact ⟨w', h1⟩

/-- (3) `get_plc_info()` of the Micro850 (sent directly): status 70 31 → "REMOTE PROG"; the target's message router saw
    the encoded configured path as request data -/
example : ∃ w', Lgx.Opn.getPlcInfo hookU (worldS idM) true = (w', .ok (Lgx.Opn.ide_presentInfo idM)) ∧
    Lgx.Opn.keyswitchText (idM.status % 256) (idM.status / 256 % 256) = Ident.s "REMOTE PROG" ∧
    w'.net.target.base.log.head? =
      some (.mr false false { service := 1, path := [.logical 0 1, .logical 4 1], data := [1, 0, 1, 0] } []) := by
  obtain ⟨route, hr, _, w', _, h1, _, _, ht, _⟩ := get_plc_info_e2e hookU (worldS idM) 4097 true idM _
    (sessionOk _ (.inr (.inr rfl))) (identS _ (.inr (.inr rfl))) (idOk _ (.inr (.inr rfl))) (encS _ (.inr (.inr rfl)))
  have hr' : route = [1, 0] := by
    rw [pathS _ (.inr (.inr rfl))] at hr
    have : encSegs true [Seg.port (.int 1) (.int 0)] = .ok [1, 0] := (gme_hops_enc [(1, 0)] (by decide)).2
    rw [this] at hr
    cases hr; rfl
  subst hr'
  exact ⟨w', h1, by decide +kernel, by rw [ht]; rfl⟩

/-- (3) the device no table knows, all-ones status: "UNKNOWN" three times -/
example := get_plc_info_e2e hookU (worldS idB) 4097 false idB _ (sessionOk _ (.inr (.inl rfl)))
  (identS _ (.inr (.inl rfl))) (idOk _ (.inr (.inl rfl))) (encS _ (.inr (.inl rfl)))

/-- (3') identify, then info, on the Micro850: the flag is true, both answers are the device's -/
example : ∃ w1 w2 identity, Lgx.Opn.listIdentity hookU (worldS idM) = (w1, .ok identity) ∧
    Lgx.Opn.isMicro800 identity = true ∧
    Lgx.Opn.getPlcInfo hookU w1 true = (w2, .ok (Lgx.Opn.ide_presentInfo idM)) := by
  obtain ⟨w1, w2, identity, h1, _, h3, h4, _⟩ := identify_then_info_e2e hookU (worldS idM) 4097 idM _
    (sessionOk _ (.inr (.inr rfl))) (identS _ (.inr (.inr rfl))) (idOk _ (.inr (.inr rfl))) (encS _ (.inr (.inr rfl)))
  have hm : Lgx.Opn.isMicro800 identity = true := by rw [h3]; decide +kernel
  rw [hm] at h4
  exact ⟨w1, w2, identity, h1, hm, h4⟩

/-- (4) the ControlLogix is replaced by the device no table knows: all six hypotheses hold; the last three answers are
    those of the new device, and they differ from the first three -/
example : ∃ w3 w4, Lgx.Opn.listIdentity hookU (ide_setIdentity w3 idB) = (w4, .ok (ide_presentList idB)) ∧
    ide_presentList idB ≠ ide_presentList idA := by
  obtain ⟨_, _, w3, w4, _, _, _, _, _, h4, _⟩ := identity_changes_e2e hookU (worldS idA) 4097 3 false false idA idB _ []
    (sessionOk _ (.inl rfl)) (identS _ (.inl rfl)) (idOk _ (.inl rfl)) (idOk _ (.inr (.inl rfl))) (encS _ (.inl rfl))
    (by rw [hopsS _ (.inl rfl)]; exact EncAll.nil.mono (by decide)) (by decide)
  refine ⟨w3, w4, h4, ?_⟩
  intro h
  have h5 : dictGet (ide_presentList idB) (Ident.s "state") = dictGet (ide_presentList idA) (Ident.s "state") := by rw [h]
  have hb : dictGet (ide_presentList idB) (Ident.s "state") = some (.int 255) := rfl
  have ha : dictGet (ide_presentList idA) (Ident.s "state") = some (.int 3) := rfl
  rw [hb, ha] at h5
  cases h5

/-- (4) … and a ControlLogix replaced by a Micro850 between the calls, the second `get_plc_info` in Micro800 mode -/
example := identity_changes_e2e hookU (worldS idA) 4097 3 false true idA idM _ []
  (sessionOk _ (.inl rfl)) (identS _ (.inl rfl)) (idOk _ (.inl rfl)) (idOk _ (.inr (.inr rfl))) (encS _ (.inl rfl))
  (by rw [hopsS _ (.inl rfl)]; exact EncAll.nil.mono (by decide)) (by decide)

-- (4) by evaluation: the six calls of the theorem on the run world
def run6 : List String :=
  let r1 := Lgx.Opn.listIdentity hookU (worldS idA)
  let r2 := Lgx.Opn.getPlcInfo hookU r1.1 false
  let r3 := ide_getModuleInfo hookU r2.1 3
  let r4 := Lgx.Opn.listIdentity hookU (ide_setIdentity r3.1 idB)
  let r5 := Lgx.Opn.getPlcInfo hookU r4.1 false
  let r6 := ide_getModuleInfo hookU r5.1 3
  [render r1, render r2, render r3, render r4, render r5, render r6, toString (r6.1.net.sent.length - (worldS idA).net.sent.length)]
#guard run6 ==
  [(PyVal.dict (ide_presentList idA)).toSexp.render, (PyVal.dict (Lgx.Opn.ide_presentInfo idA)).toSexp.render,
   (PyVal.dict (presentModule idA)).toSexp.render, (PyVal.dict (ide_presentList idB)).toSexp.render,
   (PyVal.dict (Lgx.Opn.ide_presentInfo idB)).toSexp.render, (PyVal.dict (presentModule idB)).toSexp.render, "6"]

end IdEx

end Pycomm.Cli
