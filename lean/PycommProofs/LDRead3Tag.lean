/-
  LogixDriver.read of a member of a structure tag (`udt.member`) and of a whole structure tag (`udt`): the layers
  composed.
    `ldr3_read_member`     an elementary scalar member, decoded from the tag memory at the member's offset
    `ldr3_read_structTag`  the whole tag, for whatever `parse_read_reply` makes of marker + memory
    `ldr3_read_structTag_frag`  … when the structure does not fit the connection: Read Tag Fragmented
-/
import PycommProofs.LDRead3Reply
import PycommProofs.LDRead2Reply
import PycommProofs.LDRead3Frag
namespace Pycomm.Lgx.Drv
open Pycomm Pycomm.Tgt Pycomm.Path Pycomm.Reply Pycomm.Encap Pycomm.Lgx Pycomm.Lgx.E2E

/-- `read` of `udt.member`: an elementary (non-BOOL, non-bit-string) scalar member of a controller-scope structure -/
theorem ldr3_read_member (cfg : Cfg) (w : Cli.World Ext) (sess : Nat) (cidb : Bytes) (conn : Conn)
    (st : LState) (s : Symbol) (tid : Nat) (tm : Template) (m : MemberDef) (info minfo : TagInfo)
    (c sz : Nat) (name : Name) (t : Ty) (v : PyVal) (rest : Bytes)
    (hw : ldr_Healthy w sess cidb conn) (hlogix : w.net.target.ext.logix = some st)
    (hs : s ∈ st.proj.controller)
    (hbytes : ∀ s' ∈ st.proj.controller, ∀ ch ∈ s'.name, ch < 256)
    (huniqN : ∀ s' ∈ st.proj.controller, s'.name = s.name → s' = s)
    (huniqI : ∀ s' ∈ st.proj.controller, s'.inst = s.inst → s' = s)
    (hid : PlainIdent s.name)
    (hty : elTyOfWord s.symbolType = .struct tid) (htm : st.proj.template? tid = some tm)
    (hm : m ∈ tm.members) (hmbytes : ∀ m' ∈ tm.members, ∀ ch ∈ m'.name, ch < 256)
    (hmuniq : ∀ m' ∈ tm.members, m'.name = m.name → m' = m)
    (hmid : PlainIdent m.name) (hnum : PyStr.isDigit m.name = false) (hnl : s.name.length + m.name.length ≤ 500)
    (hmty : elTyOfWord m.typeWord = .atomic c) (hnb : c ≠ 0xC1) (hscalar : m.info = 0)
    (hat : atomicOfCode c = some (name, t)) (hb : t.isBits = none) (hsz : atomicSize c = some sz)
    (hin : m.offset + sz ≤ s.mem.length)
    (hget : cfg.tags.get? s.name = some info) (hk : info.core.tagType = .struct)
    (hmget : info.members.get? m.name = some minfo) (hminfo : ldr3_MemberOf minfo name t)
    (hdec : decode t (s.mem.drop m.offset) = .ok (v, rest))
    (hC : s.name.length + m.name.length + 22 ≤ w.drv.connectionSize)
    (hT : s.name.length + m.name.length + 22 ≤ conn.size) :
    ∃ w' frm, read hookAll cfg w [ldr3_memberStr s.name m.name] =
        (w', .ok [{ tag := ldr3_memberStr s.name m.name, value := v, type := some name, error := none }]) ∧
      w'.drv = w.drv.nextSeq.2 ∧ w'.net.sent = w.net.sent ++ [frm] ∧
      w'.net.target.ext = { w.net.target.ext with logix := some { st with ctr := st.ctr + 1 } } ∧
      ldr_Healthy w' sess cidb { conn with lastSeq := some w.drv.nextSeq.1 } := by
  obtain ⟨haty, hentry, hndw, hpos, hle8⟩ := ldr_atomic_table c sz name t hat hb hsz
  have hnd : isDword minfo = false := by
    have : (name == nm "DWORD") = false := by simpa using hndw
    simp [isDword, hminfo.typeName, this]
  have hmem : s.mem ≠ [] := by
    intro h; rw [h, List.length_nil] at hin; omega
  have hl1 := hid.2.1
  have hl2 := hmid.2.1
  -- (a)
  have hparse := ldr3_parse_member cfg.tags false 0 s.name m.name info minfo hid hmid hnum hget hk hmget hnd
  -- (b)
  obtain ⟨path, hpath, hpl, hden⟩ := ldr3_requestPath_member cfg s.name m.name minfo hid hmid (by omega) hminfo.instanceId
  have hrs : tagReturnSize minfo 1 = sz := by
    simp [tagReturnSize, hminfo.struct, hminfo.typeName, hentry]
  -- (d)
  have hr := ldr3_resolve_member st.proj s tid tm m c sz hid hs hbytes huniqN hty htm hmem hm hmbytes hmuniq hmty hnb hsz
    hscalar
  have hbts := ldr3_readBytes_member st.proj s m c sz hs huniqI hsz hin
  -- (e)
  obtain ⟨hshape, hts⟩ := ldr2_atomic_shape c sz t haty hb hsz
  obtain ⟨_, hpre⟩ := ldr2_decode_prefix t hshape _ v rest hdec
  have hdec' : decode t ((s.mem.drop m.offset).take sz) = .ok (v, []) := by
    have := hpre []
    rwa [hts, List.append_nil] at this
  have hreply := ldr_parseReadReply minfo c t name _ [] v hminfo.ty hminfo.typeName hndw haty hb hdec'
  have hbl : ((s.mem.drop m.offset).take sz).length ≤ sz := by
    rw [List.length_take]; exact Nat.min_le_left _ _
  obtain ⟨w', frm, hread, hrest⟩ := ldr2_read_single cfg w sess cidb conn st (ldr3_memberStr s.name m.name) _ minfo path
    _ (ldr3_locMember s m c) c 1 _ v name hw hlogix hparse rfl rfl rfl rfl hpath hden (by omega) hr rfl
    ⟨Nat.le_refl 1, Nat.le_refl 1, by omega⟩ hbts hreply (by rw [hrs]; omega) (by omega) (by omega)
  refine ⟨w', frm, ?_, hrest⟩
  rw [hread]
  have hresult := ldr_readResult
    { requestId := 0, requestTag := ldr3_memberStr s.name m.name, userTag := ldr3_memberStr s.name m.name,
      plcTag := ldr3_memberStr s.name m.name, bit := none, elements := 1, info := some minfo, boolElements := none } minfo
    { tag := ldr3_memberStr s.name m.name, value := v, type := some name, error := none }
    rfl rfl rfl (by rw [hminfo.typeName]; exact hndw) (ldr_decode_not_none c t haty hb _ rest v hdec) rfl
  dsimp only at hresult ⊢
  rw [hresult]

/-- `read` of a whole controller-scope structure tag by its plain name: one plain Read Tag, answered with the structure
    marker `A0 02` + handle and the tag's memory; the Tag carries what `parse_read_reply` makes of that -/
theorem ldr3_read_structTag (cfg : Cfg) (w : Cli.World Ext) (sess : Nat) (cidb : Bytes) (conn : Conn)
    (st : LState) (s : Symbol) (tid : Nat) (tm : Template) (info : TagInfo) (si : StructInfo) (ty : Ty)
    (v : PyVal) (dt : Name)
    (hw : ldr_Healthy w sess cidb conn) (hlogix : w.net.target.ext.logix = some st)
    (hs : s ∈ st.proj.controller)
    (hbytes : ∀ s' ∈ st.proj.controller, ∀ ch ∈ s'.name, ch < 256)
    (huniqN : ∀ s' ∈ st.proj.controller, s'.name = s.name → s' = s)
    (huniqI : ∀ s' ∈ st.proj.controller, s'.inst = s.inst → s' = s)
    (hid : PlainIdent s.name) (hinst : s.inst < 2 ^ 32)
    (hty : elTyOfWord s.symbolType = .struct tid) (htm : st.proj.template? tid = some tm)
    (hlen : s.mem.length = tm.size) (hpos : 0 < tm.size)
    (hget : cfg.tags.get? s.name = some info) (hinfo : ldr3_StructOf info si ty s.inst) (hnd : si.name ≠ nm "DWORD")
    (hreply : parseReadReply (typeBytes st.proj (.struct tid) ++ s.mem) info 1 = .ok (v, dt)) (hvn : v ≠ .none)
    (hC : si.size + s.name.length + 20 ≤ w.drv.connectionSize) (hT : tm.size + s.name.length + 20 ≤ conn.size) :
    ∃ w' frm, read hookAll cfg w [s.name] =
        (w', .ok [{ tag := s.name, value := v, type := some dt, error := none }]) ∧
      w'.drv = w.drv.nextSeq.2 ∧ w'.net.sent = w.net.sent ++ [frm] ∧
      w'.net.target.ext = { w.net.target.ext with logix := some { st with ctr := st.ctr + 1 } } ∧
      ldr_Healthy w' sess cidb { conn with lastSeq := some w.drv.nextSeq.1 } := by
  have hnd' : isDword info = false := by simp [isDword, hinfo.kind]
  have hmem : s.mem ≠ [] := by
    intro h; rw [h, List.length_nil] at hlen; omega
  have hl1 := hid.2.1
  have hparse := ldr_parse_plain cfg.tags false 0 s.name info hid hget hnd'
  obtain ⟨path, hpath, hpl, hden⟩ := ldr_requestPath cfg s.name info s.inst hid hinfo.instanceId hinst
  have hrs : tagReturnSize info 1 = si.size := by
    simp [tagReturnSize, hinfo.struct]
  have hr := ldr3_resolve_struct st.proj s tid tm cfg.useInstanceIds hid hs hbytes huniqN huniqI hty htm hmem
  have hbts := ldr3_readBytes_struct st.proj s tid tm hs huniqI htm hlen
  have hav := ldr_dimsProduct_pos s.dims
  have htb : (typeBytes st.proj (ldr3_locStruct s tid).ty).length = 4 := by
    simp [ldr3_locStruct, typeBytes, le, RT.leBytes_length]
  obtain ⟨w', frm, hread, hrest⟩ := ldr3_read_single cfg w sess cidb conn st s.name _ info path
    _ (ldr3_locStruct s tid) 1 s.mem v dt hw hlogix hparse rfl rfl rfl rfl hpath hden (by omega) hr
    ⟨Nat.le_refl 1, hav, by omega⟩ hbts hreply (by rw [hrs]; omega) (by omega) (by rw [htb, hlen]; omega)
  refine ⟨w', frm, ?_, hrest⟩
  rw [hread]
  have hresult := ldr_readResult
    { requestId := 0, requestTag := s.name, userTag := s.name, plcTag := s.name, bit := none, elements := 1,
      info := some info, boolElements := none } info
    { tag := s.name, value := v, type := some dt, error := none }
    rfl rfl rfl (by rw [hinfo.typeName]; exact hnd) hvn rfl
  dsimp only at hresult ⊢
  rw [hresult]

/-- `read` of a whole controller-scope structure tag whose estimated answer does not fit the driver's connection size:
    Read Tag Fragmented, one request per fragment the controller delivers; the Tag carries what `parse_read_reply`
    makes of marker + ALL the memory bytes -/
theorem ldr3_read_structTag_frag (cfg : Cfg) (w : Cli.World Ext) (sess : Nat) (cidb : Bytes) (conn : Conn)
    (st : LState) (s : Symbol) (tid : Nat) (tm : Template) (info : TagInfo) (si : StructInfo) (ty : Ty)
    (v : PyVal) (dt : Name)
    (hw : ldr_Healthy w sess cidb conn) (hlogix : w.net.target.ext.logix = some st)
    (hs : s ∈ st.proj.controller)
    (hbytes : ∀ s' ∈ st.proj.controller, ∀ ch ∈ s'.name, ch < 256)
    (huniqN : ∀ s' ∈ st.proj.controller, s'.name = s.name → s' = s)
    (huniqI : ∀ s' ∈ st.proj.controller, s'.inst = s.inst → s' = s)
    (hid : PlainIdent s.name) (hinst : s.inst < 2 ^ 32)
    (hty : elTyOfWord s.symbolType = .struct tid) (htm : st.proj.template? tid = some tm)
    (hlen : s.mem.length = tm.size) (hpos : 0 < tm.size) (hfuel : tm.size ≤ FRAG_FUEL)
    (hget : cfg.tags.get? s.name = some info) (hinfo : ldr3_StructOf info si ty s.inst) (hnd : si.name ≠ nm "DWORD")
    (hreply : parseReadReply (typeBytes st.proj (.struct tid) ++ s.mem) info 1 = .ok (v, dt)) (hvn : v ≠ .none)
    (hfrag : ∀ path, requestPathOf cfg s.name info = .ok path → w.drv.connectionSize < si.size + path.length + 7)
    (hT : s.name.length + 22 ≤ conn.size) :
    ∃ w' fs ls', read hookAll cfg w [s.name] =
        (w', .ok [{ tag := s.name, value := v, type := some dt, error := none }]) ∧
      w'.drv = ldr3_seqs (fs.length + 1) w.drv ∧ w'.net.sent = w.net.sent ++ fs ∧
      fs.length = (ldr3_fragSizes st.proj.readSchedule (conn.size - 10) tm.size FRAG_FUEL st.ctr 0).length ∧
      w'.net.target.ext = { w.net.target.ext with logix := some { st with ctr := st.ctr + fs.length } } ∧
      ldr_Healthy w' sess cidb { conn with lastSeq := ls' } := by
  have hnd' : isDword info = false := by simp [isDword, hinfo.kind]
  have hmem : s.mem ≠ [] := by
    intro h; rw [h, List.length_nil] at hlen; omega
  have hl1 := hid.2.1
  have hparse := ldr_parse_plain cfg.tags false 0 s.name info hid hget hnd'
  obtain ⟨path, hpath, hpl, hden⟩ := ldr_requestPath cfg s.name info s.inst hid hinfo.instanceId hinst
  have hrs : tagReturnSize info 1 = si.size := by
    simp [tagReturnSize, hinfo.struct]
  have hr := ldr3_resolve_struct st.proj s tid tm cfg.useInstanceIds hid hs hbytes huniqN huniqI hty htm hmem
  have hbts := ldr3_readBytes_struct st.proj s tid tm hs huniqI htm hlen
  have hav := ldr_dimsProduct_pos s.dims
  have htb : (typeBytes st.proj (ldr3_locStruct s tid).ty).length = 4 := by
    simp [ldr3_locStruct, typeBytes, le, RT.leBytes_length]
  have hC := hfrag path hpath
  obtain ⟨w', fs, ls', hread, h1, h2, h3, h4, h5⟩ := ldr3_read_single_frag cfg w sess cidb conn st s.name _ info path
    _ (ldr3_locStruct s tid) 1 s.mem v dt hw hlogix hparse rfl rfl rfl rfl hpath hden (by omega) hr
    (fun c e => by simp [ldr3_locStruct] at e)
    ⟨Nat.le_refl 1, hav, by omega⟩ hbts hmem (by rw [hlen]; exact hfuel) hreply (by rw [hrs]; omega) (by omega)
    (by rw [htb]; omega)
  rw [hlen, htb] at h3
  have e10 : conn.size - 2 - 4 - 4 = conn.size - 10 := by omega
  rw [e10] at h3
  refine ⟨w', fs, ls', ?_, h1, h2, h3, h4, h5⟩
  rw [hread]
  have hresult := ldr_readResult
    { requestId := 0, requestTag := s.name, userTag := s.name, plcTag := s.name, bit := none, elements := 1,
      info := some info, boolElements := none } info
    { tag := s.name, value := v, type := some dt, error := none }
    rfl rfl rfl (by rw [hinfo.typeName]; exact hnd) hvn rfl
  dsimp only at hresult ⊢
  rw [hresult]

end Pycomm.Lgx.Drv
