/-
  Controller-side failures, `LogixDriver.write` composed: ONE request that parses against the tag database, is sent
  as one plain Write Tag service and is refused by the controller.
-/
import PycommProofs.LDFailRead
import PycommProofs.LogixDriverWrite
namespace Pycomm.Lgx.Drv
open Pycomm Pycomm.Tgt Pycomm.Path Pycomm.Reply Pycomm.Encap Pycomm.Lgx Pycomm.Lgx.E2E

/-! ### (b) `encode_value` for one element of an array tag -/

/-- a one-element array encodes to the encoding of the element -/
theorem ldx_encode_one (t : Ty) (v : PyVal) (bytes : Bytes) (hb : t.isBits = none)
    (henc : encode t (argOf t v) = .ok bytes) :
    encode (.arr (.fixed 1) t) (.list [v]) = .ok bytes := by
  unfold encode
  simp only [PyVal.len?, PyVal.seq?, List.length_cons, List.length_nil, Nat.zero_add, Nat.lt_irrefl, decide_false,
    Bool.false_eq_true, if_false, hb, List.take_succ_cons, List.take_zero, encodeList, henc, bind, Except.bind,
    List.append_nil]

/-- a canonical value of an elementary type is a scalar: not `bytes`, not a list or tuple -/
theorem ldx_canon_scalar (t : Ty) (v : PyVal)
    (hshape : t = .bool ∨ (∃ k, t = .int k) ∨ t = .real ∨ t = .lreal) (hcanon : Canon t v) :
    (∀ b, v ≠ .bytes b) ∧ isNonStrSequence v = false := by
  rcases hshape with rfl | ⟨k, rfl⟩ | rfl | rfl
  · obtain ⟨x, rfl⟩ := hcanon; exact ⟨by simp, rfl⟩
  · obtain ⟨x, rfl, _⟩ := hcanon; exact ⟨by simp, rfl⟩
  · obtain ⟨x, _, rfl, _⟩ := hcanon; exact ⟨by simp, rfl⟩
  · obtain ⟨x, rfl, _⟩ := hcanon; exact ⟨by simp, rfl⟩

/-- (b) `encode_value` of a request for ONE element of an array tag of an elementary (non-bit-string) type with a
    scalar value: the request is unchanged, the bytes are the codec's encoding of the value -/
theorem ldx_encodeValue_elem (p : Parsed) (info : TagInfo) (dim : Nat) (t : Ty) (bytes : Bytes)
    (hnb : ∀ b, p.value ≠ .bytes b) (hseq : isNonStrSequence p.value = false)
    (hnd : info.core.dataTypeName ≠ nm "DWORD") (hty : info.core.ty = .arr (.fixed dim) t) (hb : t.isBits = none)
    (hbe : p.boolElements = none) (hel : p.elements = 1)
    (henc : encode t (argOf t p.value) = .ok bytes) : encodeValue p info = (p, some bytes) := by
  have hdw : (info.core.dataTypeName == nm "DWORD") = false := by simpa using hnd
  have h1 := ldx_encode_one t p.value bytes hb henc
  unfold encodeValue
  split
  · rename_i b hv
    exact absurd hv (hnb b)
  · rw [hty]
    simp only [hdw, Bool.false_eq_true, false_and, if_false, hbe, hel, Int.lt_irrefl, hseq, Bool.not_false, if_true,
      encodeArrayLen, Int.one_ne_zero, Int.toNat_one, h1]

/-! ### (f) result assembly -/

/-- (f) the result loop of `write` for an error-free request for one element without bit number: the Tag carries the
    request's tag, the caller's value, the type name — and the error of the recorded response -/
theorem ldx_writeResult_get (p : Parsed) (info : TagInfo) (t : LTag) (rs : Results)
    (herr : p.error = none) (hinfo : p.info = some info) (hbit : p.bit = none) (hbe : p.boolElements = none)
    (hel : p.elements = 1) (hget : rs.get? p.requestId = some t) :
    writeResult p rs =
      { tag := p.userTag, value := p.value, type := some info.core.dataTypeName, error := t.error } := by
  unfold writeResult
  simp only [herr, hinfo, hget, hbit, hbe, hel, Option.isSome_none, Bool.false_and, Bool.false_eq_true, if_false]
  simp

/-! ### the composition -/

/-- the parsed write request of one element `tag` (`ldr2_parsedAt` with the caller's value) -/
def ldx_wparsed (rid : Nat) (tag : Name) (info : TagInfo) (v : PyVal) : Parsed :=
  { requestId := rid, requestTag := tag, userTag := tag, plcTag := tag, bit := none, elements := 1, info := some info,
    boolElements := none, value := v }

/-- `LogixDriver.write` of one (tag, value) pair on a healthy connected driver, when the request is one plain Write
    Tag service for one element whose address the controller rejects with status `e`: no exception, the result is
    one Tag named as requested carrying the caller's value, the type name and the status text as error (so the Tag
    is falsy). One frame is written, one sequence number drawn, the controller's state is untouched. -/
theorem ldx_write_single_refused (cfg : Cfg) (w : Cli.World Ext) (sess : Nat) (cidb : Bytes) (conn : Conn)
    (st : LState) (tag : Name) (info : TagInfo) (v : PyVal) (path bytes : Bytes) (segs : List PSeg) (e : Nat)
    (hw : ldr_Healthy w sess cidb conn) (hlogix : w.net.target.ext.logix = some st)
    (hparse : parseTagRequest cfg.tags true 0 tag = ldr2_parsedAt 0 tag info)
    (hencv : encodeValue (ldx_wparsed 0 tag info v) info = (ldx_wparsed 0 tag info v, some bytes))
    (hpath : requestPathOf cfg tag info = .ok path) (hden : Denotes path segs) (hpl : path.length ≤ 600)
    (hr : resolve st.proj segs = .error e) (htp : ldx_TagPath segs) (he : e ≠ 0) (he8 : e < 256)
    (hbl : bytes.length ≤ 600) (hpt : (packedTypeOf info).length ≤ 4)
    (hC : 2 * bytes.length + path.length + (packedTypeOf info).length + 5 ≤ w.drv.connectionSize)
    (hT : bytes.length + path.length + (packedTypeOf info).length + 5 ≤ conn.size) :
    ∃ w' frm, write hookAll cfg w [(tag, v)] =
        (w', .ok [{ tag := tag, value := v, type := some info.core.dataTypeName,
                    error := some (.reply (.text (ldx_errText (ldx_refusal e)))) }]) ∧
      w'.drv = w.drv.nextSeq.2 ∧ w'.net.sent = w.net.sent ++ [frm] ∧
      w'.net.target.ext = w.net.target.ext ∧
      ldr_Healthy w' sess cidb { conn with lastSeq := some w.drv.nextSeq.1 } := by
  have hparsed : ((parseRequestedTags cfg.tags true ([(tag, v)].map (·.1))).zip ([(tag, v)].map (·.2))).map
      (fun x => ({ x.1 with value := x.2 } : Drv.Parsed)) = [ldx_wparsed 0 tag info v] := by
    show ([parseTagRequest cfg.tags true 0 tag].zip [v]).map _ = _
    rw [hparse]; rfl
  have hml : (Cl.writeMsg path (packedTypeOf info) 1 bytes).length =
      path.length + (packedTypeOf info).length + bytes.length + 3 := by
    simp only [Cl.writeMsg, List.length_append, List.length_cons, List.length_nil, le_length]; omega
  have hbuild := ldw_build_single cfg w.drv (ldx_wparsed 0 tag info v) info path bytes rfl rfl rfl rfl hencv hpath
    (by rw [hml]; omega)
  have hw1 : ldr_Healthy ({ w with drv := w.drv.nextSeq.2 } : Cli.World Ext) sess cidb conn :=
    ldr_Healthy_seq hw _ (by rw [(Cli.lcs_nextSeq w.drv).2])
  have hmsg : Cl.writeMsg path (packedTypeOf info) 1 bytes = [0x4D] ++ path ++ (packedTypeOf info ++ le 2 1 ++ bytes) := by
    simp only [Cl.writeMsg, List.append_assoc]
  obtain ⟨w2, frm, hsend, hd2, hsent2, hext2, hh2⟩ := ldx_sendUnit_refused ({ w with drv := w.drv.nextSeq.2 } : Cli.World Ext)
    sess cidb conn st w.drv.nextSeq.1 0x4D path (packedTypeOf info ++ le 2 1 ++ bytes) segs e hw1 hlogix hden hr
    (Or.inr (Or.inr (Or.inl rfl))) htp (ldr_nextSeq_lt w.drv) (by rw [← hmsg, hml]; omega) (by rw [← hmsg, hml]; omega)
  rw [← hmsg] at hsend
  obtain ⟨f1, f2, f3⟩ := ldx_refusal_facts e he he8
  have hresp := ldx_writeTag_refused tag (.bytes bytes) info.core.dataTypeName 0x4D sess conn.toId w.drv.nextSeq.1
    w.drv.nextSeq.2.context (ldx_refusal e) hw1.ctx8 f1 f2 f3 (Or.inr (Or.inr (Or.inl rfl)))
  have hresult := ldx_writeResult_get (ldx_wparsed 0 tag info v) info
    { tag := tag, value := .none, type := none, error := some (.reply (.text (ldx_errText (ldx_refusal e)))) }
    [((0 : Nat), { tag := tag, value := .none, type := none,
                   error := some (.reply (.text (ldx_errText (ldx_refusal e)))) })]
    rfl rfl rfl rfl rfl rfl
  have hfo : Cli.ensureForwardOpen hookAll Cli.FUEL w = (w, .ok ()) := ldr_ensureFO_connected hookAll 7 w hw.connected
  refine ⟨w2, frm, ?_, hd2, hsent2, hext2, hh2⟩
  unfold write
  rw [hfo]
  dsimp only
  rw [hparsed, hbuild]
  dsimp only
  unfold sendRequests sendRequest
  dsimp only
  rw [hsend]
  dsimp only [ldx_wparsed]
  have h4d : (0x4D : UInt8).toNat = 0x4D := rfl
  rw [h4d]
  rw [hresp]
  dsimp only [Except.map]
  unfold sendRequests
  dsimp only [ldw_fanOut_write, List.isEmpty_cons, Bool.false_eq_true, if_false, List.map_cons, List.map_nil,
    Results.set, List.any_nil, List.nil_append]
  simp only [Bool.false_eq_true, if_false, List.map_cons, List.map_nil]
  dsimp only [ldx_wparsed] at hresult
  rw [hresult]

end Pycomm.Lgx.Drv
