/-
  Helper lemmas for C10 / C17 over histories with the uploads of the LogixDriver.  Part 3: the invariants of
  LCInv.lean (lifecycle), LCIdle.lean (idle), LCLogix7.lean (connection size) and LCLogix3.lean (sequence counts
  with budget) are closed in the sense of `lcu_Closed`, hence hold across `get_tag_list` and `LogixDriver.open()`.
-/
import PycommProofs.LCUp2
import PycommProofs.LCLogix3
import PycommProofs.LCLogix6
namespace Pycomm.Lgx.Opn
open Pycomm.Tgt Pycomm.Encap Pycomm.Path Pycomm.Reply Pycomm.Lgx

/-! ### the lifecycle invariant, with the routes the Micro800 pop can produce -/

/-- the route after `n` pops of the trailing port segment (`_initialize_driver` pops one per call on a Micro800) -/
def lcu_popN : Nat → List Seg → List Seg
  | 0, p => p
  | n + 1, p => lcu_popN n (popPortSegment p)

/-- lifecycle invariant + connectedness + (when the Forward-Open discipline `S` is tracked) every route the
    Micro800 pop can leave is one the target accepts -/
structure lcu_InvP (S : Prop) {σ} (w : Cli.World σ) : Prop where
  inv : Cli.lci_Inv S w
  conn : Cli.lci_Conn w
  pops : S → ∀ n, Cli.lci_PathOk (lcu_popN n w.drv.cipPath)

theorem lcu_InvP_step {S : Prop} {σ} {w w' : Cli.World σ} (h : lcu_InvP S w) (hp : lcu_PathStep w w')
    (hi : Cli.lci_Inv S w' ∧ Cli.lci_Conn w') : lcu_InvP S w' :=
  ⟨hi.1, hi.2, fun hs n => by rw [show w'.drv.cipPath = w.drv.cipPath from hp]; exact h.pops hs n⟩

theorem lcu_closed_inv {σ} (hook : ObjHook σ) (hh : Cli.lci_HookOk hook) (S : Prop) :
    lcu_Closed hook (fun rnd => S → rnd.length = 8) (lcu_InvP S) where
  openD w rnd hr h := lcu_InvP_step h (lcu_PathStep_open hook w rnd) (Cli.lci_openDrv hook S w rnd hr h.inv h.conn)
  listId w h := lcu_InvP_step h (lcu_PathStep_sendReq hook w _ _) (lcu_listIdentity_inv hook S w h.inv h.conn)
  gm w a ha _ h := lcu_InvP_step h ((lcu_PathStep_mutual hook Cli.FUEL).2.2 w a)
    (Cli.lci_cli_generic hook hh S Cli.FUEL w a ha h.inv h.conn)
  efo w h := by
    obtain ⟨b1, b2, _⟩ := Cli.lci_cli_ensureFO hook S Cli.FUEL w h.inv h.conn _ rfl
    exact lcu_InvP_step h ((lcu_PathStep_mutual hook Cli.FUEL).2.1 w) ⟨b1, b2⟩
  pop w h := by
    refine ⟨⟨h.inv.t, h.inv.ctx8, h.inv.opt0, h.inv.pend, h.inv.sess, ?_⟩, h.conn, fun hs n => h.pops hs (n + 1)⟩
    intro hs
    have c := h.inv.cfg hs
    exact ⟨h.pops hs 1, c.cid4, c.csn2, c.vid2, c.vsn4, c.mode⟩
  fresh w w' hcon hf h := by
    obtain ⟨a1, a2, _⟩ := Drv.lcl_Reach_inv hh (lcu_Fresh_reach hf) h.inv h.conn hcon
    exact lcu_InvP_step h (lcu_PathStep_reach (lcu_Fresh_reach hf)) ⟨a1, a2⟩

/-! ### the idle invariant -/

theorem lcu_closed_net {σ} (hook : ObjHook σ) (hh : Cli.lci_HookOk hook) (F : List Cli.Fault) (P : Policy) :
    lcu_Closed hook (fun _ => True) (fun w : Cli.World σ => Cli.lci_Net F P w) where
  openD w rnd _ h := Cli.lci_Net_open hook hh w rnd h
  listId w h := Cli.lci_Net_step h (Cli.lci_NStep_sendReq hook hh w _ _)
  gm w a _ _ h := Cli.lci_Net_step h ((Cli.lci_NStep_mutual hook hh Cli.FUEL).2.2 w a)
  efo w h := Cli.lci_Net_step h ((Cli.lci_NStep_mutual hook hh Cli.FUEL).2.1 w)
  pop w h := Cli.lci_Net_step h (Cli.lci_NStep_drv w w _ (Cli.lci_NStep_refl w) rfl)
  fresh w w' _ hf h := Cli.lci_Net_step h (Drv.lcl_Reach_nstep hh (lcu_Fresh_reach hf))

/-! ### the connection size -/

theorem lcu_closed_sz {σ} (hook : ObjHook σ) :
    lcu_Closed hook (fun _ => True) (fun w : Cli.World σ => Cli.lcl_Sz w.drv) where
  openD w rnd _ h := Cli.lcl_Sz_step h (Cli.lcl_SzStep_open hook w rnd)
  listId w h := Cli.lcl_Sz_step h (Cli.lcl_SzStep_sendReq hook w _ _)
  gm w a _ _ h := Cli.lcl_Sz_step h ((Cli.lcl_SzStep_mutual hook Cli.FUEL).2.2 w a)
  efo w h := Cli.lcl_Sz_step h ((Cli.lcl_SzStep_mutual hook Cli.FUEL).2.1 w)
  pop w h := h
  fresh w w' _ hf h := Cli.lcl_Sz_step h (Cli.lcl_SzStep_reach (lcu_Fresh_reach hf))

/-! ### the sequence counts -/

/-- lifecycle invariant + connectedness + sequence invariant with budget `B` -/
structure lcu_SeqI (B : Nat) {σ} (w : Cli.World σ) : Prop where
  inv : Cli.lci_Inv False w
  conn : Cli.lci_Conn w
  seq : Cli.lcl_SeqB B w

/-- along connected requests with freshly drawn counts the budget does not grow -/
theorem lcu_Fresh_seq {σ} (hook : ObjHook σ) (hh : Cli.lci_HookOk hook) (hn : Cli.lcs_HookNoSeq hook) (B : Nat)
    {w w' : Cli.World σ} (hf : lcu_Fresh hook w w') (h : lcu_SeqI B w) (hcon : w.drv.targetIsConnected = true) :
    lcu_SeqI B w' ∧ w'.drv.targetIsConnected = true := by
  induction hf with
  | refl => exact ⟨h, hcon⟩
  | @step w1 m hm hf1 ih =>
    obtain ⟨b, bc⟩ := ih
    have hq := Cli.lcl_unit_step hook hh hn False B w1 b.inv b.conn b.seq bc m hm
    obtain ⟨a1, a2, a3⟩ := Drv.lcl_Reach_inv hh (lcu_Fresh_reach (lcu_Fresh_one hook w1 m hm)) b.inv b.conn bc
    exact ⟨⟨a1, a2, hq⟩, a3⟩

theorem lcu_closed_seq {σ} (hook : ObjHook σ) (hh : Cli.lci_HookOk hook) (hn : Cli.lcs_HookNoSeq hook) (B : Nat) :
    lcu_Closed hook (fun _ => True) (fun w : Cli.World σ => lcu_SeqI B w) where
  openD w rnd _ h := by
    obtain ⟨a1, a2⟩ := Cli.lci_openDrv hook False w rnd (fun f => f.elim) h.inv h.conn
    exact ⟨a1, a2, Cli.lcl_openDrv_seq hook hh hn B w rnd h.seq⟩
  listId w h := by
    obtain ⟨a1, a2⟩ := lcu_listIdentity_inv hook False w h.inv h.conn
    have hk := Cli.lcs_Keep_sendReq hook hh hn w h.seq.ctx8 .listIdentity (by decide) false
    have hd := (Cli.lcs_sendReq hook w .listIdentity false _ rfl).1
    exact ⟨a1, a2, Cli.lcl_SeqB_keep h.seq hk (by rw [hd]) (by rw [hd]) (by rw [hd]; exact h.seq.sess32)⟩
  gm w a ha hs h := by
    obtain ⟨a1, a2⟩ := Cli.lci_cli_generic hook hh False Cli.FUEL w a ha h.inv h.conn
    exact ⟨a1, a2, Cli.lcl_generic_seq hook hh hn False B Cli.FUEL w a hs h.inv h.conn h.seq⟩
  efo w h := by
    obtain ⟨b1, b2, _⟩ := Cli.lci_cli_ensureFO hook False Cli.FUEL w h.inv h.conn _ rfl
    exact ⟨b1, b2, Cli.lcl_ensureFO_seq hook hh hn B Cli.FUEL w h.seq⟩
  pop w h :=
    ⟨⟨h.inv.t, h.inv.ctx8, h.inv.opt0, h.inv.pend, h.inv.sess, fun f => f.elim⟩, h.conn,
     ⟨h.seq.fl, h.seq.val, h.seq.ctx8, h.seq.sess32, h.seq.sockc, h.seq.conns, h.seq.log⟩⟩
  fresh w w' hcon hf h := (lcu_Fresh_seq hook hh hn B hf h hcon).1

end Pycomm.Lgx.Opn
