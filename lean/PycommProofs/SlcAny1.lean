/-
  C13 / C18 for the SLC driver over ARBITRARY reply bytes, part 1: the transport with a reply waiting in the queue, the
  request builders' exceptions, and what `request_status` / `_parse_read_reply` make of arbitrary bytes.

    * `sda_sendReq_step`, `sda_sendPccc_step`: with `some raw` at the head of the transport's queue the next
      `CIPDriver.send` hands back exactly `raw` (and the queue moves on by one) or fails with CommError / DataError;
      `sda_sendPccc_exact`: with a socket, no scheduled faults and a frame that builds it IS `raw`;
    * `sda_readMsg_err`, `sda_writeMsg_err`: the PCCC request builders raise DataError only;
    * `sda_requestStatus_none_iff`: `request_status` is None exactly when byte 58 exists and is 0;
      `sda_requestStatus_text`: otherwise it is a non-empty text;
    * `sda_parseReadReply_notNone`: a decoded value is never None; `sda_parseReadReply_nil`: no data, no value.
-/
import PycommProofs.LDAny1
import PycommProofs.SlcDrvSend
namespace Pycomm.Slc.Drv
open Pycomm Pycomm.Tgt Pycomm.Slc Pycomm.Encap Pycomm.Lgx.Drv

/-! ### the transport: a reply that is already waiting is what `send` returns, and the queue advances by one -/

theorem sda_sockSend_cases {σ} (hook : ObjHook σ) (n : Cli.Net σ) (msg raw : Bytes) (rest : List (Option Bytes))
    (hp : n.pending = some raw :: rest) :
    (n.sockSend hook msg).2 = .error .comm ∨
    (∃ x, (n.sockSend hook msg).2 = .ok () ∧ (n.sockSend hook msg).1.pending = some raw :: (rest ++ [x])) := by
  unfold Cli.Net.sockSend
  dsimp only
  split
  · exact .inl rfl
  · split
    · exact .inr ⟨none, rfl, by simp [hp]⟩
    · exact .inr ⟨(handle hook n.target msg).2, rfl, by simp [hp]⟩

theorem sda_sockReceive_cases {σ} (n : Cli.Net σ) (raw : Bytes) (rest : List (Option Bytes))
    (hp : n.pending = some raw :: rest) :
    n.sockReceive.2 = .error .comm ∨ (n.sockReceive.2 = .ok raw ∧ n.sockReceive.1.pending = rest) := by
  unfold Cli.Net.sockReceive
  dsimp only
  split
  · exact .inl rfl
  · rw [hp]
    exact .inr ⟨rfl, rfl⟩

/-- `CIPDriver.send` with a reply `raw` waiting in the queue: the reply returned is `raw`, the queue is the rest with
    whatever the target answered (or nothing, for a dropped frame) appended, the driver's attributes are untouched —
    unless building / sending / receiving fails (CommError, DataError) -/
theorem sda_sendReq_step {σ} (hook : ObjHook σ) (w : Cli.World σ) (r : Req) (raw : Bytes) (rest : List (Option Bytes))
    (hp : w.net.pending = some raw :: rest) :
    (∃ w1 x, Cli.sendReq hook w r false = (w1, .ok (some raw)) ∧ w1.net.pending = rest ++ [x] ∧ w1.drv = w.drv) ∨
    (Cli.sendReq hook w r false).2 = .error .comm ∨ (Cli.sendReq hook w r false).2 = .error .data := by
  unfold Cli.sendReq
  split
  · next e hb =>
    rcases EN.buildRequest_err _ _ _ hb with rfl | rfl
    · exact .inr (.inl rfl)
    · exact .inr (.inr rfl)
  · next frame hb =>
    split
    · exact .inr (.inl rfl)
    · have hss := sda_sockSend_cases hook w.net frame raw rest hp
      rcases hs : w.net.sockSend hook frame with ⟨n1, s⟩
      rw [hs] at hss
      dsimp only at hss ⊢
      rcases hss with he | ⟨x, hok, hpend⟩
      · subst he
        exact .inr (.inl rfl)
      · subst hok
        dsimp only
        simp only [Bool.false_eq_true, if_false]
        have hrr := sda_sockReceive_cases n1 raw (rest ++ [x]) hpend
        rcases hr : n1.sockReceive with ⟨n2, rcv⟩
        rw [hr] at hrr
        dsimp only at hrr ⊢
        rcases hrr with he | ⟨hok, hp2⟩
        · subst he
          exact .inr (.inl rfl)
        · subst hok
          exact .inl ⟨_, x, rfl, hp2, rfl⟩

/-- `SendUnitDataRequestPacket(self._sequence)` + `self.send` with `raw` waiting: one counter value is drawn -/
theorem sda_sendPccc_step {σ} (hook : ObjHook σ) (w : Cli.World σ) (msg raw : Bytes) (rest : List (Option Bytes))
    (hp : w.net.pending = some raw :: rest) :
    (∃ w1 x, sendPccc hook w msg = (w1, .ok raw) ∧ w1.net.pending = rest ++ [x] ∧ w1.drv = w.drv.nextSeq.2) ∨
    (sendPccc hook w msg).2 = .error .comm ∨ (sendPccc hook w msg).2 = .error .data := by
  have hp1 : ({ w with drv := w.drv.nextSeq.2 } : Cli.World σ).net.pending = some raw :: rest := hp
  have hs := sda_sendReq_step hook { w with drv := w.drv.nextSeq.2 } (.sendUnit w.drv.nextSeq.1 msg) raw rest hp1
  unfold sendPccc
  dsimp only
  rcases hs with ⟨w1, x, heq, hpend, hdrv⟩ | he | he
  · rw [heq]
    exact .inl ⟨w1, x, rfl, hpend, hdrv⟩
  · rcases hsend : Cli.sendReq hook { w with drv := w.drv.nextSeq.2 } (.sendUnit w.drv.nextSeq.1 msg) false with ⟨w1, rr⟩
    rw [hsend] at he
    dsimp only at he
    subst he
    exact .inr (.inl rfl)
  · rcases hsend : Cli.sendReq hook { w with drv := w.drv.nextSeq.2 } (.sendUnit w.drv.nextSeq.1 msg) false with ⟨w1, rr⟩
    rw [hsend] at he
    dsimp only at he
    subst he
    exact .inr (.inr rfl)

/-- … and with a socket, no scheduled transport faults and a frame that builds, the reply IS `raw` -/
theorem sda_sendPccc_exact {σ} (hook : ObjHook σ) (w : Cli.World σ) (msg raw frm : Bytes) (rest : List (Option Bytes))
    (hp : w.net.pending = some raw :: rest) (hsock : w.drv.hasSock = true) (hf : w.net.faults = [])
    (hb : buildRequest (.sendUnit w.drv.nextSeq.1 msg) w.drv.ctx = .ok frm) :
    (sendPccc hook w msg).2 = .ok raw := by
  have hs := lda_sendReq_exact hook ({ w with drv := w.drv.nextSeq.2 } : Cli.World σ) (.sendUnit w.drv.nextSeq.1 msg)
    raw frm rest hp hsock hf hb
  unfold sendPccc
  dsimp only
  rcases hsend : Cli.sendReq hook { w with drv := w.drv.nextSeq.2 } (.sendUnit w.drv.nextSeq.1 msg) false with ⟨w1, rr⟩
  rw [hsend] at hs
  dsimp only at hs
  subst hs
  rfl

/-! ### the request builders raise DataError only -/

theorem sda_packInt_err (k : IntK) (v : PyVal) (e : Exn) (h : packInt k v = .error e) : e = .data := by
  unfold packInt at h
  split at h
  · split at h
    · cases h
    · cases h; rfl
  · cases h; rfl

theorem sda_packField_err (n : Nat) (e : Exn) (h : packField n = .error e) : e = .data := by
  unfold packField at h
  split at h
  · exact sda_packInt_err _ _ _ h
  · cases hp : packInt .uint (.int n) with
    | error e' =>
      rw [hp] at h
      cases h
      exact sda_packInt_err _ _ _ hp
    | ok b => rw [hp] at h; cases h

theorem sda_addressFields_err (a : Addr) (size : Nat) (e : Exn) (h : addressFields a size = .error e) : e = .data := by
  unfold addressFields at h
  cases h1 : packInt .usint (.int size) with
  | error e1 => rw [h1] at h; cases h; exact sda_packInt_err _ _ _ h1
  | ok s =>
    cases h2 : packField a.fileNumber with
    | error e2 => rw [h1, h2] at h; cases h; exact sda_packField_err _ _ h2
    | ok f =>
      cases h3 : packField a.element with
      | error e3 => rw [h1, h2, h3] at h; cases h; exact sda_packField_err _ _ h3
      | ok el =>
        cases h4 : packField a.posNumber with
        | error e4 => rw [h1, h2, h3, h4] at h; cases h; exact sda_packField_err _ _ h4
        | ok p => rw [h1, h2, h3, h4] at h; cases h

/-- `_read_tag`'s message list: `UINT.encode` / `USINT.encode` / `_address_field` raise DataError, nothing else -/
theorem sda_readMsg_err (a : Addr) (tns : Nat) (e : Exn) (h : slcReadMsg a tns = .error e) : e = .data := by
  unfold slcReadMsg at h
  cases h1 : packInt .uint (.int tns) with
  | error e1 => rw [h1] at h; cases h; exact sda_packInt_err _ _ _ h1
  | ok t =>
    cases h2 : addressFields a (dataSize a.fileType * a.count) with
    | error e2 => rw [h1, h2] at h; cases h; exact sda_addressFields_err _ _ _ h2
    | ok f => rw [h1, h2] at h; cases h

/-- a value `writeable_value` accepts: the message list of `_write_tag` raises DataError, nothing else -/
theorem sda_writeMsg_err (a : Addr) (tns : Nat) (v : PyVal) (x : Bytes × Nat) (e : Exn)
    (hv : writeValue a v = .ok x) (h : writeMsg a tns v = .error e) : e = .data := by
  have key : ∀ y, writeableValue a v = .ok y → slcWriteMsg a tns v = .error e → e = .data := by
    intro y hy hm
    unfold slcWriteMsg at hm
    rw [hy] at hm
    dsimp only at hm
    split at hm
    · cases hm
    · cases hm; rfl
  cases v with
  | bytes b =>
    unfold writeMsg at h
    dsimp only at h
    split at h
    · cases h
    · cases h; rfl
  | dict kvs =>
    unfold writeValue at hv
    dsimp only at hv
    split at hv
    · split at hv <;> cases hv
    · exact key x hv h
  | none => exact key x hv h
  | bool b => exact key x hv h
  | int i => exact key x hv h
  | float f => exact key x hv h
  | str s => exact key x hv h
  | list xs => exact key x hv h
  | tuple xs => exact key x hv h

/-! ### `request_status` over arbitrary bytes -/

theorem sda_u8_zero (b : UInt8) (h : b.toNat = 0) : b = 0 := by
  apply UInt8.toNat_inj.1
  rw [h]
  rfl

/-- `request_status(raw)` is None exactly when byte 58 of the frame exists and is 0 -/
theorem sda_requestStatus_none_iff (raw : Bytes) : requestStatus raw = none ↔ raw[58]? = some 0 := by
  unfold requestStatus
  constructor
  · intro h
    split at h
    · cases h
    · next b hb =>
      split at h
      · next hz =>
        rw [hb, sda_u8_zero b hz]
      · cases h
  · intro h
    rw [h]
    rfl

theorem sda_lookupNat_mem {α} (k : Nat) : ∀ (l : List (Nat × α)) (v : α), Status.lookupNat k l = some v → v ∈ l.map (·.2)
  | [], v, h => by cases h
  | (k', v') :: rest, v, h => by
    unfold Status.lookupNat at h
    split at h
    · next v'' hr =>
      cases h
      exact List.mem_cons_of_mem _ (sda_lookupNat_mem k rest _ hr)
    · split at h
      · cases h; exact List.mem_cons_self
      · cases h

theorem sda_pcccTexts_nonempty : ∀ v ∈ Gen.pcccErrorCode.map (·.2), v ≠ [] := by decide

/-- … and otherwise it is a non-empty text: a `PCCC_ERROR_CODE` text or "Unknown Status" -/
theorem sda_requestStatus_text (raw : Bytes) (s : Name) (h : requestStatus raw = some s) : s ≠ [] := by
  unfold requestStatus at h
  split at h
  · cases h; decide
  · next b hb =>
    split at h
    · cases h
    · cases h
      cases hl : Status.lookupNat b.toNat Gen.pcccErrorCode with
      | none => decide
      | some v => exact sda_pcccTexts_nonempty v (sda_lookupNat_mem _ _ _ hl)

/-! ### `_parse_read_reply` over arbitrary bytes: a decoded value is never None; no data, no value -/

theorem sda_elemTy_cases (ft : Name) (ty : Ty) (h : elemTy ft = some ty) :
    ty = .int .int ∨ ty = .real ∨ ty = .int .dint := by
  unfold elemTy at h
  split at h
  · cases h; exact .inl rfl
  · cases h; exact .inr (.inl rfl)
  · cases h; exact .inr (.inr rfl)
  · cases h

theorem sda_decode_int_shape (k : IntK) (bs : Bytes) (v : PyVal) (r : Bytes) (h : decode (.int k) bs = .ok (v, r)) :
    ∃ i, v = .int i := by
  unfold decode at h
  cases hd : decodeIntVal k bs with
  | error e => rw [hd] at h; cases h
  | ok p =>
    obtain ⟨i, rest⟩ := p
    rw [hd] at h
    cases h
    exact ⟨i, rfl⟩

theorem sda_decode_real_shape (bs : Bytes) (v : PyVal) (r : Bytes) (h : decode .real bs = .ok (v, r)) :
    ∃ f, v = .float f := by
  unfold decode at h
  cases hd : decodeIntNat .udint bs with
  | error e => rw [hd] at h; cases h
  | ok p =>
    obtain ⟨n, rest⟩ := p
    rw [hd] at h
    cases h
    exact ⟨_, rfl⟩

theorem sda_decode_notNone (ft : Name) (ty : Ty) (hty : elemTy ft = some ty) (bs : Bytes) (v : PyVal) (r : Bytes)
    (h : decode ty bs = .ok (v, r)) : v ≠ .none := by
  rcases sda_elemTy_cases ft ty hty with rfl | rfl | rfl
  · obtain ⟨i, rfl⟩ := sda_decode_int_shape _ _ _ _ h; intro hc; cases hc
  · obtain ⟨f, rfl⟩ := sda_decode_real_shape _ _ _ h; intro hc; cases hc
  · obtain ⟨i, rfl⟩ := sda_decode_int_shape _ _ _ _ h; intro hc; cases hc

theorem sda_decodeIntNat_nil (k : IntK) : ∃ e, decodeIntNat k [] = .error e := by
  unfold decodeIntNat streamRead
  by_cases hk : (k.size : Int) < 0
  · simp [hk]
    exact ⟨_, rfl⟩
  · simp [hk]
    exact ⟨_, rfl⟩

theorem sda_decode_nil (ft : Name) (ty : Ty) (hty : elemTy ft = some ty) : ∃ e, decode ty [] = .error e := by
  have hint : ∀ k, ∃ e, decode (.int k) [] = .error e := by
    intro k
    obtain ⟨e, he⟩ := sda_decodeIntNat_nil k
    exact ⟨e, by simp [decode, decodeIntVal, he]; rfl⟩
  rcases sda_elemTy_cases ft ty hty with rfl | rfl | rfl
  · exact hint _
  · obtain ⟨e, he⟩ := sda_decodeIntNat_nil .udint
    exact ⟨e, by simp [decode, he]; rfl⟩
  · exact hint _

/-- the element codec as `_parse_read_reply` wraps it: every exception becomes ResponseError -/
def sda_dec (ty : Ty) (bs : Bytes) : Except Exn PyVal :=
  match decode ty bs with | .ok (v, _) => .ok v | .error _ => .error .response

theorem sda_dec_notNone (ft : Name) (ty : Ty) (hty : elemTy ft = some ty) (bs : Bytes) (v : PyVal)
    (h : sda_dec ty bs = .ok v) : v ≠ .none := by
  unfold sda_dec at h
  split at h
  · next v' r hd => cases h; exact sda_decode_notNone ft ty hty bs _ r hd
  · cases h

theorem sda_dec_nil (ft : Name) (ty : Ty) (hty : elemTy ft = some ty) : sda_dec ty [] = .error .response := by
  obtain ⟨e, he⟩ := sda_decode_nil ft ty hty
  unfold sda_dec
  rw [he]

theorem sda_go_notNone (size : Nat) (dec : Bytes → Except Exn PyVal)
    (hdec : ∀ bs v, dec bs = .ok v → v ≠ .none) :
    ∀ (fuel : Nat) (bs : Bytes) (vs : List PyVal), parseReadReply.go size dec fuel bs = .ok vs → ∀ v ∈ vs, v ≠ .none
  | 0, bs, vs, h => by
    unfold parseReadReply.go at h
    cases h
    intro v hv
    cases hv
  | fuel + 1, bs, vs, h => by
    unfold parseReadReply.go at h
    split at h
    · cases h
      intro v hv
      cases hv
    · cases hd : dec (bs.take size) with
      | error e => rw [hd] at h; cases h
      | ok v0 =>
        rw [hd] at h
        dsimp only at h
        cases hg : parseReadReply.go size dec fuel (bs.drop size) with
        | error e => rw [hg] at h; cases h
        | ok vs0 =>
          rw [hg] at h
          cases h
          intro v hv
          rcases List.mem_cons.1 hv with rfl | hv
          · exact hdec _ _ hd
          · exact sda_go_notNone size dec hdec fuel _ vs0 hg v hv

/-- `_parse_read_reply` never yields None as a value: an element value, a bool, or a list -/
theorem sda_parseReadReply_notNone (a : Addr) (data : Bytes) (v : PyVal) (h : parseReadReply a data = .ok v) :
    v ≠ .none := by
  unfold parseReadReply at h
  split at h
  · cases h
  · next ty hty =>
    have hdec : ∀ bs v, sda_dec ty bs = .ok v → v ≠ .none := sda_dec_notNone a.fileType ty hty
    change (if a.addressField = 3 then
        (if (a.fileType = [84] ∨ a.fileType = [67]) ∧ a.subElement = 1 then sda_dec ty ((data.drop 2).take (dataSize a.fileType))
         else if (a.fileType = [84] ∨ a.fileType = [67]) ∧ a.subElement = 2 then sda_dec ty ((data.drop 4).take (dataSize a.fileType))
         else if a.fileType = [70] then
           (match decode (.int .uint) (data.take 2) with
            | .ok (.int i, _) => .ok (.bool (intBit i a.subElement))
            | _ => .error .response)
         else
           (match sda_dec ty (data.take (dataSize a.fileType)) with
            | .ok (.int i) => .ok (.bool (intBit i a.subElement))
            | .ok _ => .error .response
            | .error e => .error e))
      else
        (if dataSize a.fileType = 0 then .error .response else
          match parseReadReply.go (dataSize a.fileType) (sda_dec ty) (data.length + 1) data with
          | .error e => .error e
          | .ok [v] => .ok v
          | .ok [] => .error .response
          | .ok vs => .ok (.list vs))) = Except.ok v at h
    split at h
    · split at h
      · exact hdec _ _ h
      · split at h
        · exact hdec _ _ h
        · split at h
          · split at h
            · cases h; intro hc; cases hc
            · cases h
          · split at h
            · cases h; intro hc; cases hc
            · cases h
            · cases h
    · split at h
      · cases h
      · split at h
        · cases h
        · next v0 hg =>
          cases h
          exact sda_go_notNone _ _ hdec _ _ _ hg v (List.mem_singleton.2 rfl)
        · cases h
        · cases h; intro hc; cases hc

/-- no data behind the PCCC header: `_parse_read_reply` fails for every address -/
theorem sda_parseReadReply_nil (a : Addr) : ∃ e, parseReadReply a [] = .error e := by
  unfold parseReadReply
  split
  · exact ⟨_, rfl⟩
  · next ty hty =>
    have hnil : sda_dec ty [] = .error .response := sda_dec_nil a.fileType ty hty
    change ∃ e, (if a.addressField = 3 then
        (if (a.fileType = [84] ∨ a.fileType = [67]) ∧ a.subElement = 1 then sda_dec ty ((([] : Bytes).drop 2).take (dataSize a.fileType))
         else if (a.fileType = [84] ∨ a.fileType = [67]) ∧ a.subElement = 2 then sda_dec ty ((([] : Bytes).drop 4).take (dataSize a.fileType))
         else if a.fileType = [70] then
           (match decode (.int .uint) (([] : Bytes).take 2) with
            | .ok (.int i, _) => .ok (.bool (intBit i a.subElement))
            | _ => .error .response)
         else
           (match sda_dec ty (([] : Bytes).take (dataSize a.fileType)) with
            | .ok (.int i) => .ok (.bool (intBit i a.subElement))
            | .ok _ => .error .response
            | .error e => .error e))
      else
        (if dataSize a.fileType = 0 then .error .response else
          match parseReadReply.go (dataSize a.fileType) (sda_dec ty) (([] : Bytes).length + 1) [] with
          | .error e => .error e
          | .ok [v] => .ok v
          | .ok [] => .error .response
          | .ok vs => .ok (.list vs))) = Except.error e
    simp only [List.drop_nil, List.take_nil, hnil]
    split
    · split
      · exact ⟨_, rfl⟩
      · split
        · exact ⟨_, rfl⟩
        · split
          · have h0 : ∃ e, decode (.int .uint) [] = .error e := by
              obtain ⟨e, he⟩ := sda_decodeIntNat_nil .uint
              exact ⟨e, by simp [decode, decodeIntVal, he]; rfl⟩
            obtain ⟨e, he⟩ := h0
            rw [he]
            exact ⟨_, rfl⟩
          · exact ⟨_, rfl⟩
    · split
      · exact ⟨_, rfl⟩
      · exact ⟨.response, by simp [parseReadReply.go]⟩

end Pycomm.Slc.Drv
