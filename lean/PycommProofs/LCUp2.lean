/-
  Helper lemmas for C10 / C17 over histories with the uploads of the LogixDriver.  Part 2:
  * the `@with_forward_open` decorator returns normally only on a connected driver;
  * a ListIdentity exchange preserves the lifecycle invariant;
  * the configured route (`cipPath`) is changed by nothing but the Micro800 pop of `_initialize_driver`;
  * `lcu_Closed`: the closure properties an invariant needs to hold across `get_tag_list` and `LogixDriver.open()`,
    and the traversal of both calls for any such invariant.
-/
import PycommProofs.LCUp1
import PycommProofs.LCLogix7
namespace Pycomm.Lgx.Opn
open Pycomm.Tgt Pycomm.Encap Pycomm.Path Pycomm.Reply Pycomm.Lgx

/-! ### the decorator -/

theorem lcu_fo_ok_conn {σ} (hook : ObjHook σ) (fuel : Nat) (w w1 : Cli.World σ)
    (h : Cli.forwardOpen hook fuel w = (w1, .ok true)) : w1.drv.targetIsConnected = true := by
  cases fuel with
  | zero => unfold Cli.forwardOpen at h; cases h
  | succ fuel =>
    unfold Cli.forwardOpen at h
    split at h
    · rename_i hcon
      cases h; exact hcon
    split at h
    · cases h
    simp only [] at h
    split at h
    · generalize Cli.genericMessage hook fuel w _ = g at h
      obtain ⟨w2, r⟩ := g
      cases r with
      | error e => simp only [] at h; cases h
      | ok tag =>
        simp only [] at h
        split at h
        · cases h; rfl
        · cases h
    · cases h

/-- `with_forward_open` lets the wrapped call proceed only on a connected driver -/
theorem lcu_efo_ok_conn {σ} (hook : ObjHook σ) (fuel : Nat) (w w0 : Cli.World σ) (u : Unit)
    (h : Cli.ensureForwardOpen hook fuel w = (w0, .ok u)) : w0.drv.targetIsConnected = true := by
  cases fuel with
  | zero => unfold Cli.ensureForwardOpen at h; cases h
  | succ fuel =>
    unfold Cli.ensureForwardOpen at h
    split at h
    · rename_i hcon
      cases h; exact hcon
    have h1 := lcu_fo_ok_conn hook fuel w
    generalize Cli.forwardOpen hook fuel w = r1 at h h1
    obtain ⟨w1, o1⟩ := r1
    cases o1 with
    | error e => simp only [] at h; cases h
    | ok b =>
      cases b with
      | true => simp only [] at h; cases h; exact h1 _ rfl
      | false =>
        simp only [] at h
        split at h
        · have h2 := lcu_fo_ok_conn hook fuel ({ w1 with drv := { w1.drv with extendedFo := false, connectionSize := 500 } } : Cli.World σ)
          generalize Cli.forwardOpen hook fuel _ = r2 at h h2
          obtain ⟨w3, o3⟩ := r2
          cases o3 with
          | error e => simp only [] at h; cases h
          | ok b =>
            cases b with
            | true => simp only [] at h; cases h; exact h2 _ rfl
            | false => simp only [] at h; cases h
        · cases h

/-! ### ListIdentity -/

theorem lcu_handle_li {σ} (hook : ObjHook σ) (t : Target σ) (raw : Bytes) (f : Frame)
    (hp : parseFrame raw = some f) (hst : f.status = 0) (hopt : f.options = 0) (hc : f.command = CMD_LIST_IDENTITY) :
    Cli.lci_QStep t.base (handle hook t raw).1.base := by
  have c1 : ¬ (CMD_LIST_IDENTITY = CMD_REGISTER) := by decide
  unfold handle
  simp only [hp]
  rw [if_neg (by simp [hst, hopt])]
  simp only [hc, c1, if_false, if_true]
  split
  · exact Cli.lci_QStep_event _ _ (Cli.lci_quiet_viol _ (by decide) (by decide))
  · exact Cli.lci_QStep_event _ _ (Cli.lci_quiet_encap _ _ _)

/-- `_list_identity()`'s exchange preserves the lifecycle invariant -/
theorem lcu_listIdentity_inv {σ} (hook : ObjHook σ) (S : Prop) (w : Cli.World σ) (hi : Cli.lci_Inv S w)
    (hc : Cli.lci_Conn w) :
    Cli.lci_Inv S (Cli.sendReq hook w .listIdentity false).1 ∧ Cli.lci_Conn (Cli.sendReq hook w .listIdentity false).1 := by
  obtain ⟨hd, hp, hcases⟩ := Cli.lci_sendReq hook w .listIdentity false hi.pend _ rfl
  refine Cli.lci_Inv_qstep hi hc hd ?_ (hp rfl)
  rcases hcases with ⟨ht, _⟩ | ⟨frame, hb, hsock, ht, _⟩
  · rw [ht]; exact Cli.lci_QStep_refl _
  · obtain ⟨s, f, g1, g2, g3, g4, g5, g6, g7, g8⟩ := Cli.lci_built w hi _ frame hb
    rw [ht]
    exact lcu_handle_li hook _ frame f g2 g5 g6 g3

/-! ### the configured route -/

/-- a step that leaves the configured route alone -/
def lcu_PathStep {σ} (w w' : Cli.World σ) : Prop := w'.drv.cipPath = w.drv.cipPath

theorem lcu_PathStep_refl {σ} (w : Cli.World σ) : lcu_PathStep w w := rfl

theorem lcu_PathStep_trans {σ} {a b c : Cli.World σ} (h1 : lcu_PathStep a b) (h2 : lcu_PathStep b c) : lcu_PathStep a c :=
  Eq.trans h2 h1

theorem lcu_PathStep_sendReq {σ} (hook : ObjHook σ) (w : Cli.World σ) (r : Req) (nr : Bool) :
    lcu_PathStep w (Cli.sendReq hook w r nr).1 := by
  have hd := (Cli.lcs_sendReq hook w r nr _ rfl).1
  unfold lcu_PathStep
  rw [hd]

theorem lcu_PathStep_register {σ} (hook : ObjHook σ) (w : Cli.World σ) : lcu_PathStep w (Cli.registerSession hook w).1 := by
  have hs := lcu_PathStep_sendReq hook w (.registerSession [1, 0] [0, 0]) false
  unfold Cli.registerSession
  split
  · split
    · exact lcu_PathStep_refl _
    · simp only []
      split
      · exact hs
      · split
        · exact hs
        · exact hs
  · simp only []
    split
    · exact hs
    · split
      · exact hs
      · exact hs

theorem lcu_PathStep_open {σ} (hook : ObjHook σ) (w : Cli.World σ) (rnd : Bytes) :
    lcu_PathStep w (Cli.openDrv hook w rnd).1 := by
  unfold Cli.openDrv
  split
  · exact lcu_PathStep_refl _
  · simp only []
    have h2 := lcu_PathStep_register hook ({ drv := { w.drv with hasSock := true, connectionOpened := true, cid := rnd.take 4, vsn := (rnd.drop 4).take 4 }, net := { w.net with tcpOpen := true, pending := if w.drv.hasSock then w.net.pending else [] } } : Cli.World σ)
    generalize Cli.registerSession hook _ = res at h2 ⊢
    obtain ⟨w2, r⟩ := res
    cases r with
    | error e => exact h2
    | ok o => cases o <;> exact h2

/-- forward open / the decorator / generic_message, by induction on the fuel -/
theorem lcu_PathStep_mutual {σ} (hook : ObjHook σ) (fuel : Nat) :
    (∀ w : Cli.World σ, lcu_PathStep w (Cli.forwardOpen hook fuel w).1) ∧
    (∀ w : Cli.World σ, lcu_PathStep w (Cli.ensureForwardOpen hook fuel w).1) ∧
    (∀ (w : Cli.World σ) (a : Cli.GenArgs), lcu_PathStep w (Cli.genericMessage hook fuel w a).1) := by
  induction fuel with
  | zero =>
    refine ⟨fun w => ?_, fun w => ?_, fun w a => ?_⟩
    · unfold Cli.forwardOpen; exact lcu_PathStep_refl _
    · unfold Cli.ensureForwardOpen; exact lcu_PathStep_refl _
    · unfold Cli.genericMessage; exact lcu_PathStep_refl _
  | succ fuel ih =>
    obtain ⟨ihF, ihE, ihG⟩ := ih
    refine ⟨fun w => ?_, fun w => ?_, fun w a => ?_⟩
    · generalize hr : Cli.forwardOpen hook (fuel + 1) w = r
      unfold Cli.forwardOpen at hr
      split at hr
      · subst hr; exact lcu_PathStep_refl _
      split at hr
      · subst hr; exact lcu_PathStep_refl _
      simp only [] at hr
      split at hr
      · generalize hgg : Cli.genericMessage hook fuel w _ = g at hr
        have hg : lcu_PathStep w g.1 := hgg ▸ ihG w _
        clear hgg
        obtain ⟨w1, r1⟩ := g
        cases r1 with
        | error e => simp only [] at hr; subst hr; exact hg
        | ok tag =>
          simp only [] at hr
          split at hr
          · subst hr; exact hg
          · subst hr; exact hg
      · subst hr; exact lcu_PathStep_refl _
    · generalize hr : Cli.ensureForwardOpen hook (fuel + 1) w = r
      unfold Cli.ensureForwardOpen at hr
      split at hr
      · subst hr; exact lcu_PathStep_refl _
      have h1 := ihF w
      generalize Cli.forwardOpen hook fuel w = r1 at hr h1
      obtain ⟨w1, o1⟩ := r1
      cases o1 with
      | error e => simp only [] at hr; subst hr; exact h1
      | ok b =>
        cases b with
        | true => simp only [] at hr; subst hr; exact h1
        | false =>
          simp only [] at hr
          split at hr
          · have h2 := ihF ({ w1 with drv := { w1.drv with extendedFo := false, connectionSize := 500 } } : Cli.World σ)
            have h12 : lcu_PathStep w (Cli.forwardOpen hook fuel
                ({ w1 with drv := { w1.drv with extendedFo := false, connectionSize := 500 } } : Cli.World σ)).1 :=
              Eq.trans h2 h1
            generalize Cli.forwardOpen hook fuel _ = r2 at hr h12
            obtain ⟨w3, o3⟩ := r2
            cases o3 with
            | error e => simp only [] at hr; subst hr; exact h12
            | ok b => cases b <;> (simp only [] at hr; subst hr; exact h12)
          · subst hr; exact h1
    · generalize hr : Cli.genericMessage hook (fuel + 1) w a = r
      unfold Cli.genericMessage at hr
      have h0 : lcu_PathStep w (if a.connected = true then Cli.ensureForwardOpen hook fuel w else (w, Except.ok ())).1 := by
        split
        · exact ihE w
        · exact lcu_PathStep_refl _
      generalize (if a.connected = true then Cli.ensureForwardOpen hook fuel w else (w, Except.ok ())) = p0 at hr h0
      obtain ⟨w0, pre⟩ := p0
      cases pre with
      | error e => simp only [] at hr; subst hr; exact h0
      | ok u =>
        simp only [] at hr
        split at hr
        · subst hr; exact h0
        rename_i reqPath _
        split at hr
        · have hs : lcu_PathStep w (Cli.sendReq hook ({ w0 with drv := w0.drv.nextSeq.2 } : Cli.World σ)
              (.sendUnit w0.drv.nextSeq.1 ([UInt8.ofNat a.service] ++ reqPath ++ a.data)) false).1 :=
            lcu_PathStep_trans h0 (lcu_PathStep_trans (a := w0) (b := ({ w0 with drv := w0.drv.nextSeq.2 } : Cli.World σ)) rfl
              (lcu_PathStep_sendReq hook _ _ false))
          split at hr
          · subst hr; exact hs
          · split at hr <;> (subst hr; exact hs)
        · split at hr
          · subst hr; exact h0
          split at hr
          · subst hr; exact h0
          rename_i m _
          have hs := lcu_PathStep_trans h0 (lcu_PathStep_sendReq hook w0 (.sendRR m) false)
          split at hr
          · subst hr; exact hs
          · split at hr <;> (subst hr; exact hs)

theorem lcu_PathStep_forwardCloseF {σ} (hook : ObjHook σ) (fuel : Nat) (w : Cli.World σ) :
    lcu_PathStep w (Cli.lci_forwardCloseF hook fuel w).1 := by
  generalize hr : Cli.lci_forwardCloseF hook fuel w = r
  unfold Cli.lci_forwardCloseF at hr
  split at hr
  · subst hr; exact lcu_PathStep_refl _
  simp only [] at hr
  split at hr
  · subst hr; exact lcu_PathStep_refl _
  generalize hgg : Cli.genericMessage hook fuel w _ = g at hr
  have k1 : lcu_PathStep w g.1 := hgg ▸ (lcu_PathStep_mutual hook fuel).2.2 w _
  clear hgg
  obtain ⟨w1, r1⟩ := g
  cases r1 with
  | error e => simp only [] at hr; subst hr; exact k1
  | ok tag =>
    simp only [] at hr
    split at hr
    · subst hr; exact k1
    · subst hr; exact k1

theorem lcu_PathStep_close {σ} (hook : ObjHook σ) (w : Cli.World σ) : lcu_PathStep w (Cli.closeDrv hook w).1 := by
  have h1 : lcu_PathStep w (Cli.lcCloseFc hook w).1 := by
    unfold Cli.lcCloseFc
    split
    · have : lcu_PathStep w (Cli.forwardClose hook w).1 := by
        rw [Cli.lcs_forwardCloseF_eq]
        exact lcu_PathStep_forwardCloseF hook Cli.FUEL w
      generalize Cli.forwardClose hook w = fc at this ⊢
      obtain ⟨wf, rf⟩ := fc
      cases rf <;> exact this
    · exact lcu_PathStep_refl _
  have h2 : lcu_PathStep w (Cli.lcCloseTry hook w).1 := by
    unfold Cli.lcCloseTry
    generalize Cli.lcCloseFc hook w = p at h1
    obtain ⟨wa, ra⟩ := p
    unfold Cli.lcCloseUnreg
    cases ra with
    | error e => exact h1
    | ok u =>
      simp only []
      split
      · have h3 := lcu_PathStep_trans h1 (lcu_PathStep_sendReq hook wa .unregisterSession true)
        generalize Cli.sendReq hook wa .unregisterSession true = sr at h3 ⊢
        obtain ⟨wb, rb⟩ := sr
        cases rb with
        | error e => exact h3
        | ok x => exact h3
      · exact h1
  rw [Cli.lc_closeDrv_eq]
  exact h2

theorem lcu_PathStep_reach {σ} {hook : ObjHook σ} {w w' : Cli.World σ} (h : Drv.lcl_Reach hook w w') : lcu_PathStep w w' := by
  obtain ⟨v, hv⟩ := (Drv.lcl_Reach_facts h).2.2
  unfold lcu_PathStep
  rw [hv]

theorem lcu_PathStep_read {σ} (hook : ObjHook σ) (cfg : Drv.Cfg) (w : Cli.World σ) (tags : List Name) :
    lcu_PathStep w (Drv.read hook cfg w tags).1 := by
  have b1 := (lcu_PathStep_mutual hook Cli.FUEL).2.1 w
  obtain ⟨r1, r2⟩ := Drv.lcl_read_reach hook cfg w tags _ rfl
  generalize Cli.ensureForwardOpen hook Cli.FUEL w = r0 at b1 r1 r2
  obtain ⟨w0, pre⟩ := r0
  cases pre with
  | error e => rw [r1 e rfl]; exact b1
  | ok u => exact lcu_PathStep_trans b1 (lcu_PathStep_reach (r2 u rfl))

theorem lcu_PathStep_write {σ} (hook : ObjHook σ) (cfg : Drv.Cfg) (w : Cli.World σ) (tvs : List (Name × PyVal)) :
    lcu_PathStep w (Drv.write hook cfg w tvs).1 := by
  have b1 := (lcu_PathStep_mutual hook Cli.FUEL).2.1 w
  obtain ⟨r1, r2⟩ := Drv.lcl_write_reach hook cfg w tvs _ rfl
  generalize Cli.ensureForwardOpen hook Cli.FUEL w = r0 at b1 r1 r2
  obtain ⟨w0, pre⟩ := r0
  cases pre with
  | error e => rw [r1 e rfl]; exact b1
  | ok u => exact lcu_PathStep_trans b1 (lcu_PathStep_reach (r2 u rfl))

/-! ### what an invariant needs to hold across the uploads -/

/-- the closure properties: `R rnd` is what the invariant asks of the random bytes of `CIPDriver.open()` -/
structure lcu_Closed {σ} (hook : ObjHook σ) (R : Bytes → Prop) (I : Cli.World σ → Prop) : Prop where
  openD : ∀ w rnd, R rnd → I w → I (Cli.openDrv hook w rnd).1
  listId : ∀ w, I w → I (Cli.sendReq hook w .listIdentity false).1
  gm : ∀ w a, Cli.lci_AvoidsCM a → (a.connected = true → Cli.lcs_SizeOk a) → I w → I (Cli.genericMessage hook Cli.FUEL w a).1
  efo : ∀ w, I w → I (Cli.ensureForwardOpen hook Cli.FUEL w).1
  pop : ∀ w, I w → I { w with drv := { w.drv with cipPath := popPortSegment w.drv.cipPath } }
  fresh : ∀ w w', w.drv.targetIsConnected = true → lcu_Fresh hook w w' → I w → I w'

/-- `get_tag_list` keeps every such invariant, whatever its outcome -/
theorem lcu_getTagList_closed {σ} {hook : ObjHook σ} {R : Bytes → Prop} {I : Cli.World σ → Prop}
    (C : lcu_Closed hook R I) (w : Cli.World σ) (l : LDrv) (allPrograms : Bool) (hi : I w) :
    I (getTagList hook w l allPrograms).1 := by
  have b1 := C.efo w hi
  have hok : ∀ u, (Cli.ensureForwardOpen hook Cli.FUEL w).2 = .ok u →
      (Cli.ensureForwardOpen hook Cli.FUEL w).1.drv.targetIsConnected = true :=
    fun u h => lcu_efo_ok_conn hook Cli.FUEL w (Cli.ensureForwardOpen hook Cli.FUEL w).1 u (by rw [← h])
  obtain ⟨r1, r2⟩ := lcu_getTagList_fresh hook w l allPrograms _ rfl hok
  generalize Cli.ensureForwardOpen hook Cli.FUEL w = r0 at b1 r1 r2 hok
  obtain ⟨w0, pre⟩ := r0
  cases pre with
  | error e => rw [r1 e rfl]; exact b1
  | ok u => exact C.fresh w0 _ (hok u rfl) (r2 u rfl) b1

theorem lcu_listIdentity_closed {σ} {hook : ObjHook σ} {R : Bytes → Prop} {I : Cli.World σ → Prop}
    (C : lcu_Closed hook R I) (w : Cli.World σ) (hi : I w) : I (listIdentity hook w).1 := by
  unfold listIdentity
  have h1 := C.listId w hi
  generalize Cli.sendReq hook w .listIdentity false = r at h1 ⊢
  obtain ⟨w1, r⟩ := r
  dsimp only at h1 ⊢
  cases r with
  | error e => exact h1
  | ok o =>
    cases o with
    | none => exact h1
    | some raw =>
      dsimp only
      split <;> exact h1

theorem lcu_plcInfo_avoids (m : Bool) : Cli.lci_AvoidsCM
    { service := 0x01, cls := .bytes [0x01], inst := .bytes [0x01], connected := false, unconnectedSend := !m,
      name := nm "get_plc_info" } :=
  Cli.lci_avoids_of_check _ (by cases m <;> decide)

theorem lcu_getPlcInfo_closed {σ} {hook : ObjHook σ} {R : Bytes → Prop} {I : Cli.World σ → Prop}
    (C : lcu_Closed hook R I) (w : Cli.World σ) (m : Bool) (hi : I w) : I (getPlcInfo hook w m).1 := by
  unfold getPlcInfo
  have h1 := C.gm w { service := 0x01, cls := .bytes [0x01], inst := .bytes [0x01], connected := false, unconnectedSend := !m, name := nm "get_plc_info" }
    (lcu_plcInfo_avoids m) (fun h => nomatch h) hi
  generalize Cli.genericMessage hook Cli.FUEL w _ = r at h1 ⊢
  obtain ⟨w1, r⟩ := r
  dsimp only at h1 ⊢
  cases r with
  | error e => exact h1
  | ok tag =>
    dsimp only
    split
    · exact h1
    · split
      · split
        · split <;> exact h1
        · exact h1
      · exact h1

theorem lcu_getPlcName_closed {σ} {hook : ObjHook σ} {R : Bytes → Prop} {I : Cli.World σ → Prop}
    (C : lcu_Closed hook R I) (w : Cli.World σ) (hi : I w) : I (getPlcName hook w).1 := by
  unfold getPlcName
  have h0 := C.efo w hi
  generalize Cli.ensureForwardOpen hook Cli.FUEL w = r0 at h0 ⊢
  obtain ⟨w0, pre⟩ := r0
  dsimp only at h0 ⊢
  cases pre with
  | error e => exact h0
  | ok u =>
    dsimp only
    have h1 := C.gm w0 { service := 0x01, cls := .bytes [0x64], inst := .int 1, dataType := some (.str .uint .latin1), name := nm "get_plc_name" }
      (Cli.lci_avoids_of_check _ (by decide)) (fun _ => Cli.lcs_size_of_check _ (by decide)) h0
    generalize Cli.genericMessage hook Cli.FUEL w0 _ = r at h1 ⊢
    obtain ⟨w1, r⟩ := r
    dsimp only at h1 ⊢
    cases r with
    | error e => exact h1
    | ok tag =>
      dsimp only
      split
      · exact h1
      · split <;> exact h1

/-- `_initialize_driver` with the calls it makes as parameters -/
def lcu_initF {σ} (f1 : Cli.World σ → Cli.World σ × Except Exn (List (Name × PyVal)))
    (f2 : Cli.World σ → Bool → Cli.World σ × Except Exn (List (Name × PyVal))) (f3 : Cli.World σ → Cli.World σ × Except Exn Name)
    (f4 : Cli.World σ → LDrv → Bool → Cli.World σ × LDrv × Except Exn Unit) (f5 : List Seg → List Seg)
    (f6 : List (Name × PyVal) → Bool) (f7 : Info → Nat) (f8 : Nat → Bool → Bool)
    (cfg : Config) (w : Cli.World σ) (l : LDrv) : Cli.World σ × LDrv × Except Exn Unit :=
  let (w1, idn) := f1 w
  match idn with
  | .error e => (w1, l, .error e)
  | .ok identity =>
    let l1 := { l with micro800 := f6 identity }
    let (w2, inf) := f2 w1 l1.micro800
    match inf with
    | .error e => (w2, l1, .error e)
    | .ok plc =>
      let l2 := { l1 with info := { plc := plc } }
      let l3 := { l2 with useInstanceIds := f8 (f7 l2.info) l2.micro800 }
      let (w3, l4, named) : Cli.World σ × LDrv × Except Exn Unit :=
        if l3.micro800 then (w2, l3, .ok ()) else
        match f3 w2 with
        | (w', .error e) => (w', l3, .error e)
        | (w', .ok n) => (w', { l3 with info := { l3.info with name := some n } }, .ok ())
      match named with
      | .error e => (w3, l4, .error e)
      | .ok _ =>
        let w4 := if l4.micro800 then { w3 with drv := { w3.drv with cipPath := f5 w3.drv.cipPath } } else w3
        if cfg.initTags then f4 w4 l4 cfg.initProgramTags else (w4, l4, .ok ())

theorem lcu_initF_eq {σ} (hook : ObjHook σ) (cfg : Config) (w : Cli.World σ) (l : LDrv) :
    initializeDriver hook cfg w l = lcu_initF (listIdentity hook) (getPlcInfo hook) (getPlcName hook) (getTagList hook)
      popPortSegment isMicro800 revisionMajor Drv.useInstanceIdsOf cfg w l := rfl

theorem lcu_initF_closed {σ} {I : Cli.World σ → Prop} f1 f2 f3 f4 f5 f6 f7 f8
    (a1 : ∀ w, I w → I (f1 w).1) (a2 : ∀ w m, I w → I (f2 w m).1) (a3 : ∀ w, I w → I (f3 w).1)
    (a4 : ∀ w l b, I w → I (f4 w l b).1)
    (a5 : ∀ w : Cli.World σ, I w → I { w with drv := { w.drv with cipPath := f5 w.drv.cipPath } })
    (cfg : Config) (w : Cli.World σ) (l : LDrv) (hi : I w) :
    I (lcu_initF f1 f2 f3 f4 f5 f6 f7 f8 cfg w l).1 := by
  unfold lcu_initF
  have h1 := a1 w hi
  generalize f1 w = r1 at h1 ⊢
  obtain ⟨w1, idn⟩ := r1
  dsimp only at h1 ⊢
  cases idn with
  | error e => exact h1
  | ok identity =>
    dsimp only
    have h2 := a2 w1 (f6 identity) h1
    generalize f2 w1 (f6 identity) = r2 at h2 ⊢
    obtain ⟨w2, inf⟩ := r2
    dsimp only at h2 ⊢
    cases inf with
    | error e => exact h2
    | ok plc =>
      dsimp only
      generalize htr : (if f6 identity = true then (_ : Cli.World σ × LDrv × Except Exn Unit) else _) = trip
      have h3 : I trip.1 := by
        rw [← htr]
        split
        · exact h2
        · have h3 := a3 w2 h2
          generalize f3 w2 = r3 at h3 ⊢
          obtain ⟨w3, nmr⟩ := r3
          cases nmr <;> exact h3
      clear htr
      obtain ⟨w3, l4, named⟩ := trip
      dsimp only at h3 ⊢
      cases named with
      | error e => exact h3
      | ok u =>
        dsimp only
        have h4 : I (if l4.micro800 then { w3 with drv := { w3.drv with cipPath := f5 w3.drv.cipPath } } else w3) := by
          split
          · exact a5 w3 h3
          · exact h3
        generalize (if l4.micro800 then ({ w3 with drv := { w3.drv with cipPath := f5 w3.drv.cipPath } } : Cli.World σ) else w3) = w4 at h4 ⊢
        split
        · exact a4 w4 l4 _ h4
        · exact h4

/-- `_initialize_driver` keeps every such invariant, whatever its outcome -/
theorem lcu_initializeDriver_closed {σ} {hook : ObjHook σ} {R : Bytes → Prop} {I : Cli.World σ → Prop}
    (C : lcu_Closed hook R I) (cfg : Config) (w : Cli.World σ) (l : LDrv) (hi : I w) :
    I (initializeDriver hook cfg w l).1 := by
  rw [lcu_initF_eq]
  exact lcu_initF_closed _ _ _ _ _ _ _ _ (lcu_listIdentity_closed C) (lcu_getPlcInfo_closed C) (lcu_getPlcName_closed C)
    (lcu_getTagList_closed C) C.pop cfg w l hi

/-- `LogixDriver.open()` keeps every such invariant, whatever its outcome -/
theorem lcu_openLogixSt_closed {σ} {hook : ObjHook σ} {R : Bytes → Prop} {I : Cli.World σ → Prop}
    (C : lcu_Closed hook R I) (cfg : Config) (w : Cli.World σ) (l : LDrv) (rnd : Bytes) (hr : R rnd) (hi : I w) :
    I (openLogixSt hook cfg w l rnd).1 := by
  unfold openLogixSt
  have h1 := C.openD w rnd hr hi
  generalize Cli.openDrv hook w rnd = r1 at h1 ⊢
  obtain ⟨w1, r⟩ := r1
  dsimp only at h1 ⊢
  cases r with
  | error e => exact h1
  | ok b =>
    cases b with
    | false => exact h1
    | true =>
      dsimp only
      have h2 := lcu_initializeDriver_closed C cfg w1 l h1
      generalize initializeDriver hook cfg w1 l = r2 at h2 ⊢
      obtain ⟨w2, l2, r2⟩ := r2
      exact h2

end Pycomm.Lgx.Opn
