/-
  LogixDriver.read, layer (e) for structure tags: `parse_read_reply` of the data of a Read Tag reply that starts
  with the structure marker `A0 02` + handle —
    `ldr3_parseReadReply_string`  a string type (`FixedSizeString`): the first LEN characters of DATA
    `ldr3_parseReadReply_struct`  a `StructTag`: the decoded dict re-keyed by the visible attributes
    `ldr3_rekey_id`               … which is the decoded dict itself when its keys are the attributes
-/
import PycommProofs.LDRead3Struct
import PycommProofs.RTExt
namespace Pycomm.Lgx.Drv
open Pycomm Pycomm.Tgt Pycomm.Path Pycomm.Reply Pycomm.Lgx Pycomm.Lgx.E2E

/-- a structure reply: the marker is recognised and the stream is what follows the 4 type bytes -/
theorem ldr3_struct_data (p : Project) (tid : Nat) (mem : Bytes) :
    ((typeBytes p (.struct tid) ++ mem).take 2 == [0xA0, 0x02]) = true ∧
    (Cl.splitTyped (typeBytes p (.struct tid) ++ mem)).2 = mem := by
  refine ⟨by simp [typeBytes], ?_⟩
  rw [splitTyped_typeBytes p (.struct tid) (fun c e => by cases e) mem]

/-- the type string of one element -/
theorem ldr3_typeStr_one (name : Name) (hnd : name ≠ nm "DWORD") :
    (if (name == nm "DWORD") = true then nm "BOOL[" ++ renderDec ((1 * 32 : Nat) : Int) ++ [93]
     else if (1 : Nat) > 1 then name ++ [91] ++ renderDec ((1 : Nat) : Int) ++ [93] else name) = name := by
  have hdw : (name == nm "DWORD") = false := by simpa using hnd
  simp [hdw]

/-- `FixedSizeString(cap).decode` over exactly `4 + cap` bytes: the first LEN (little-endian UDINT) characters of the
    `cap` data bytes, Latin-1 -/
theorem ldr3_decode_fixedStr (cap : Nat) (mem : Bytes) (hcap : 1 ≤ cap) (hlen : mem.length = 4 + cap) :
    decode (.fixedStr cap .udint) mem =
      .ok (.str (((mem.drop 4).take (leVal (mem.take 4))).map (·.toNat)), []) := by
  have h4 : IntK.udint.size = 4 := rfl
  have hi : decodeIntNat .udint mem = .ok (leVal (mem.take 4), mem.drop 4) := by
    have := RP.decodeIntNat_ok .udint mem (by rw [h4]; omega)
    rw [h4] at this; exact this
  have hsr : streamRead (cap : Int) (mem.drop 4) = .ok (mem.drop 4, []) := by
    have := rtx_streamRead_total cap (mem.drop 4) hcap (by rw [List.length_drop]; omega)
    have e1 : (mem.drop 4).take cap = mem.drop 4 := List.take_of_length_le (by rw [List.length_drop]; omega)
    have e2 : (mem.drop 4).drop cap = [] := List.drop_of_length_le (by rw [List.length_drop]; omega)
    rw [this, e1, e2]
  have hdl : ¬ ((mem.drop 4).length < cap) := by rw [List.length_drop]; omega
  have hsg : IntK.udint.signed = false := rfl
  simp only [decode, decodeFixedStr, decodeIntVal, hi, hsr, bind, Except.bind, hdl, if_false, hsg, Bool.false_eq_true,
    pySliceTo, Int.natCast_nonneg, if_true, Int.toNat_natCast, Text.decLatin1]

/-- (e) `parse_read_reply` of a structure reply for a tag whose `type_class` is a string type: the string -/
theorem ldr3_parseReadReply_string (p : Project) (tid : Nat) (info : TagInfo) (cap : Nat) (name : Name) (mem : Bytes)
    (hty : info.core.ty = .fixedStr cap .udint) (hname : info.core.dataTypeName = name) (hnd : name ≠ nm "DWORD")
    (hcap : 1 ≤ cap) (hlen : mem.length = 4 + cap) :
    parseReadReply (typeBytes p (.struct tid) ++ mem) info 1 =
      .ok (.str (((mem.drop 4).take (leVal (mem.take 4))).map (·.toNat)), name) := by
  obtain ⟨h1, h2⟩ := ldr3_struct_data p tid mem
  have hd := ldr3_decode_fixedStr cap mem hcap hlen
  unfold parseReadReply
  rw [hty, hname]
  simp only [h1, h2, hd]
  rw [ldr3_typeStr_one name hnd]

/-- (e) `parse_read_reply` of a structure reply for a tag whose `type_class` is a `StructTag`: the decoded dict,
    re-keyed by the visible attributes of the data type -/
theorem ldr3_parseReadReply_struct (p : Project) (tid : Nat) (info : TagInfo) (si : StructInfo)
    (ms : TMembers) (bits : List (Name × Nat × Nat)) (priv : List Name) (size : Nat) (mem rest : Bytes)
    (kvs kvs' : List (Name × PyVal))
    (hty : info.core.ty = .structTag ms bits priv size) (hname : info.core.dataTypeName = si.name)
    (hsi : info.core.struct = some si) (hnd : si.name ≠ nm "DWORD")
    (hdec : decode (.structTag ms bits priv size) mem = .ok (.dict kvs, rest))
    (hattr : si.attributes.mapM (fun a => (dictGet kvs a).map fun x => (a, x)) = some kvs') :
    parseReadReply (typeBytes p (.struct tid) ++ mem) info 1 = .ok (.dict kvs', si.name) := by
  obtain ⟨h1, h2⟩ := ldr3_struct_data p tid mem
  unfold parseReadReply
  rw [hty, hname]
  simp only [h1, h2, hdec, hsi, Option.map_some, Option.getD_some, hattr]
  rw [ldr3_typeStr_one si.name hnd]

/-- what `StructTag.decode` returns is a dict -/
theorem ldr3_decode_struct_dict (ms : TMembers) (bits : List (Name × Nat × Nat)) (priv : List Name) (size : Nat)
    (mem rest : Bytes) (v : PyVal) (h : decode (.structTag ms bits priv size) mem = .ok (v, rest)) :
    ∃ kvs, v = .dict kvs := by
  simp only [decode] at h
  split at h
  · cases h
  · split at h
    · cases h
    · split at h
      · cases h
      · split at h
        · cases h
        · simp only [Except.ok.injEq, Prod.mk.injEq] at h
          exact ⟨_, h.1.symm⟩

/-- `{attr: value[attr] for attr in attributes}` over a dict whose keys are exactly the attributes (in order,
    without repetition) is that dict -/
theorem ldr3_rekey_id : ∀ (kvs : List (Name × PyVal)), (kvs.map (·.1)).Nodup →
    (kvs.map (·.1)).mapM (fun a => (dictGet kvs a).map fun x => (a, x)) = some kvs := by
  -- generalised: the lookups go into a larger dict `pre ++ kvs` whose earlier keys differ
  have gen : ∀ (kvs pre : List (Name × PyVal)), (kvs.map (·.1)).Nodup → (∀ k ∈ kvs.map (·.1), k ∉ pre.map (·.1)) →
      (kvs.map (·.1)).mapM (fun a => (dictGet (pre ++ kvs) a).map fun x => (a, x)) = some kvs := by
    intro kvs
    induction kvs with
    | nil => intro pre _ _; rfl
    | cons kv kvs ih =>
      intro pre hnd hpre
      obtain ⟨k, v⟩ := kv
      simp only [List.map_cons, List.nodup_cons] at hnd
      have hget : dictGet (pre ++ (k, v) :: kvs) k = some v := by
        unfold dictGet
        rw [List.find?_append]
        have hnone : pre.find? (fun kv => kv.1 == k) = none := by
          rw [List.find?_eq_none]
          intro x hx hxk
          apply hpre k (by simp)
          rw [← beq_iff_eq.1 hxk]
          exact List.mem_map_of_mem hx
        rw [hnone]
        simp
      have hrest := ih (pre ++ [(k, v)]) hnd.2 (by
        intro k' hk' hm
        simp only [List.map_append, List.map_cons, List.map_nil, List.mem_append, List.mem_singleton] at hm
        rcases hm with hm | hm
        · exact hpre k' (by simp [hk']) hm
        · subst hm; exact hnd.1 hk')
      rw [List.append_assoc] at hrest
      simp only [List.map_cons, List.mapM_cons, hget, Option.map_some, List.singleton_append] at hrest ⊢
      rw [hrest]
      rfl
  intro kvs hnd
  have := gen kvs [] hnd (by simp)
  simpa using this

end Pycomm.Lgx.Drv
