/-
  LogixDriver.write of a MEMBER PATH of any depth (`tag[i].m1[j]. … .leaf`, the write analogue of LDRead4A–C): the
  layers composed for a path that ends at an elementary (non-BOOL, non-bit-string) member, scalar or element of an
  array member.
    `ldwx_leaf_encodeValue`   `encode_value` with the `internal_tags` entry of the leaf
    `ldwx_locPath`            the location the controller resolves the path to
    `ldwx_path_core`          parse (any request id), request path, address, symbol — everything about the request
                              that does not depend on the value
    `ldwx_write_path_leaf`    `write([(path, v)])`
    `ldwx_chain_congr`        a walk through the structure definitions is a fact about the templates only
    `ldwx_write_then_read_path`
-/
import PycommProofs.LogixDriverRead4
import PycommProofs.LogixDriverWrite3
namespace Pycomm.Lgx.Drv
open Pycomm Pycomm.Tgt Pycomm.Path Pycomm.Reply Pycomm.Encap Pycomm.Lgx Pycomm.Lgx.E2E

/-- (b) `encode_value` of a one-element request (no bit number, no BOOL range) on the `internal_tags` entry of an
    elementary member — a scalar member (`type_class` = the elementary class) or an array member (`ArrayType`: the
    value is wrapped into a one-element list) — with a canonical value: the request is unchanged, the bytes are the
    codec's encoding of the value -/
theorem ldwx_leaf_encodeValue (p : Drv.Parsed) (leaf : TagInfo) (c sz : Nat) (name : Name) (t : Ty) (bytes : Bytes)
    (hleaf : ldr4_LeafOf leaf name t) (hat : atomicOfCode c = some (name, t)) (hb : t.isBits = none)
    (hsz : atomicSize c = some sz) (hbe : p.boolElements = none) (hel : p.elements = 1)
    (hcanon : Canon t p.value) (henc : encode t p.value = .ok bytes) : encodeValue p leaf = (p, some bytes) := by
  obtain ⟨haty, _, hndw, _, _⟩ := ldr_atomic_table c sz name t hat hb hsz
  have hshape := ldr_atomicTy_shape c t haty hb
  rcases hleaf.ty with hty | ⟨n, hty⟩
  · exact ldw_encodeValue p leaf t bytes (ldw_canon_not_bytes t p.value hshape hcanon)
      (by rw [hleaf.typeName]; exact hndw) hty hshape henc
  · exact ldw2_encodeValue_elem p leaf n t bytes (by rw [hleaf.typeName]; exact hndw) hty hshape hb hbe hel hcanon henc

/-- the location the controller resolves a member path to: inside the symbol `s`, at the byte offset the walk
    accumulates from element `li` of the tag -/
def ldwx_locPath (s : Symbol) (tm0 : Template) (li : Nat) (hops : List ldr4_Hop) (ty : ElTy) : Loc :=
  { symInst := s.inst, scope := none, offset := li * tm0.size + ldr4_offset hops, ty := ty,
    avail := ldr4_avail (dimsProduct s.dims - li) hops }

/-- the parsed request of a member path -/
def ldwx_parsedPath (rid : Nat) (tag : Name) (leaf : TagInfo) : Drv.Parsed :=
  { requestId := rid, requestTag := tag, userTag := tag, plcTag := tag, bit := none, elements := 1, info := some leaf,
    boolElements := none }

/-- everything about a member-path request that does not depend on the value: how it is parsed (at any position of a
    call), its request path, where the controller resolves it -/
theorem ldwx_path_core (cfg : Cfg) (p : Project) (s : Symbol) (tid0 : Nat) (tm0 : Template) (idx0 : List Nat) (li : Nat)
    (hops : List ldr4_Hop) (final : ElTy) (info leaf : TagInfo) (write : Bool)
    (hs : s ∈ p.controller)
    (hbytes : ∀ s' ∈ p.controller, ∀ ch ∈ s'.name, ch < 256)
    (huniqN : ∀ s' ∈ p.controller, s'.name = s.name → s' = s)
    (hl0 : ldr2_Level ⟨s.name, idx0⟩)
    (hty : elTyOfWord s.symbolType = .struct tid0) (htm0 : p.template? tid0 = some tm0) (hmem : s.mem ≠ [])
    (hidx : (idx0 = [] ∧ li = 0) ∨ (idx0 ≠ [] ∧ linearIndex s.dims idx0 = some li))
    (hne : hops ≠ []) (hchain : ldr4_Chain p (.struct tid0) hops final)
    (hlv : ∀ h ∈ hops, ldr2_Level h.level)
    (hnum : ∀ h, hops.getLast? = some h → PyStr.isDigit h.m.name = false)
    (hsize : ldr4_pathSize (ldr4_levels s.name idx0 hops) ≤ 500)
    (hget : cfg.tags.get? s.name = some info) (hk : info.core.tagType = .struct)
    (hpath : ldr4_InfoPath info.members (hops.map (·.m.name)) leaf)
    (hnd : leaf.core.dataTypeName ≠ nm "DWORD") (hinst : leaf.core.instanceId = none) :
    (∀ rid, parseTagRequest cfg.tags write rid (ldr4_pathStr s.name idx0 hops) =
      ldwx_parsedPath rid (ldr4_pathStr s.name idx0 hops) leaf) ∧
    ∃ path, requestPathOf cfg (ldr4_pathStr s.name idx0 hops) leaf = .ok path ∧
      path.length ≤ ldr4_pathSize (ldr4_levels s.name idx0 hops) + 1 ∧
      Denotes path (levelSegs ⟨s.name, idx0⟩ ++ ldr4_segs hops) ∧
      resolve p (levelSegs ⟨s.name, idx0⟩ ++ ldr4_segs hops) = .ok (ldwx_locPath s tm0 li hops final) ∧
      1 ≤ (ldwx_locPath s tm0 li hops final).avail := by
  have hndw : isDword leaf = false := by
    have : (leaf.core.dataTypeName == nm "DWORD") = false := by simpa using hnd
    simp [isDword, this]
  have hlvs : ∀ l ∈ hops.map (·.level), ldr2_Level l := by
    intro l hl
    obtain ⟨h, hh, rfl⟩ := List.mem_map.1 hl
    exact hlv h hh
  have hall : ∀ l ∈ ldr4_levels s.name idx0 hops, ldr2_Level l := by
    intro l hl
    rcases List.mem_cons.1 hl with rfl | hl
    · exact hl0
    · exact hlvs l hl
  refine ⟨?_, ?_⟩
  · intro rid
    exact ldr4_parse_path cfg.tags write rid ⟨s.name, idx0⟩ (hops.map (·.level)) info leaf hl0 hlvs
      (by simpa using hne)
      (by intro l hl
          rw [ldr4_getLast_levels] at hl
          cases hg : hops.getLast? with
          | none => rw [hg] at hl; cases hl
          | some h =>
            rw [hg] at hl
            simp only [Option.map_some, Option.some.injEq] at hl
            subst hl
            exact hnum h hg)
      hget hk (by simpa [ldr4_Hop.level, List.map_map, Function.comp_def] using hpath) hndw
  · obtain ⟨path, hpathOk, hpl, hden⟩ := ldr4_requestPath cfg (ldr4_levels s.name idx0 hops) leaf (by simp [ldr4_levels]) hall
      (by omega) hinst
    rw [ldr4_flatMap_levels] at hden
    have hr := ldr4_resolve_path p s tid0 tm0 idx0 li hops final hl0.1 hs hbytes huniqN hty htm0 hmem hidx hchain
    have hdp : 1 ≤ dimsProduct s.dims - li := by
      rcases hidx with ⟨_, rfl⟩ | ⟨h0, hli⟩
      · have := ldr_dimsProduct_pos s.dims; omega
      · have := ldr4_linearIndex_lt s.dims idx0 li hli; omega
    have hav := ldr4_avail_pos p hops (.struct tid0) final (dimsProduct s.dims - li) hdp hchain
    exact ⟨path, hpathOk, hpl, hden, hr, hav⟩

/-- `write` of a member path that ends at an elementary (non-BOOL, non-bit-string) member with a canonical value:
    exactly the leaf's bytes inside the TAG's memory are written — at byte offset linear index · structure size + the
    sum of the steps' offsets (member offset + element index · element size) -/
theorem ldwx_write_path_leaf (cfg : Cfg) (w : Cli.World Ext) (sess : Nat) (cidb : Bytes) (conn : Conn)
    (st : LState) (s : Symbol) (tid0 : Nat) (tm0 : Template) (idx0 : List Nat) (li : Nat) (hops : List ldr4_Hop)
    (info leaf : TagInfo) (c sz : Nat) (name : Name) (t : Ty) (v : PyVal) (bytes : Bytes)
    (hw : ldr_Healthy w sess cidb conn) (hlogix : w.net.target.ext.logix = some st)
    (hs : s ∈ st.proj.controller)
    (hbytes : ∀ s' ∈ st.proj.controller, ∀ ch ∈ s'.name, ch < 256)
    (huniqN : ∀ s' ∈ st.proj.controller, s'.name = s.name → s' = s)
    (huniqI : ∀ s' ∈ st.proj.controller, s'.inst = s.inst → s' = s)
    (hl0 : ldr2_Level ⟨s.name, idx0⟩)
    (hty : elTyOfWord s.symbolType = .struct tid0) (htm0 : st.proj.template? tid0 = some tm0)
    (hidx : (idx0 = [] ∧ li = 0) ∨ (idx0 ≠ [] ∧ linearIndex s.dims idx0 = some li))
    (hne : hops ≠ []) (hchain : ldr4_Chain st.proj (.struct tid0) hops (.atomic c))
    (hlv : ∀ h ∈ hops, ldr2_Level h.level)
    (hnum : ∀ h, hops.getLast? = some h → PyStr.isDigit h.m.name = false)
    (hsize : ldr4_pathSize (ldr4_levels s.name idx0 hops) ≤ 500)
    (hat : atomicOfCode c = some (name, t)) (hb : t.isBits = none) (hsz : atomicSize c = some sz)
    (hin : li * tm0.size + ldr4_offset hops + sz ≤ s.mem.length)
    (hget : cfg.tags.get? s.name = some info) (hk : info.core.tagType = .struct)
    (hpath : ldr4_InfoPath info.members (hops.map (·.m.name)) leaf) (hleaf : ldr4_LeafOf leaf name t)
    (hcanon : Canon t v) (henc : encode t v = .ok bytes)
    (hC : ldr4_pathSize (ldr4_levels s.name idx0 hops) + 2 * sz + 8 ≤ w.drv.connectionSize)
    (hT : ldr4_pathSize (ldr4_levels s.name idx0 hops) + sz + 8 ≤ conn.size) :
    ∃ w' frm, write hookAll cfg w [(ldr4_pathStr s.name idx0 hops, v)] =
        (w', .ok [{ tag := ldr4_pathStr s.name idx0 hops, value := v, type := some name, error := none }]) ∧
      w'.drv = w.drv.nextSeq.2 ∧ w'.net.sent = w.net.sent ++ [frm] ∧
      w'.net.target.ext =
        { w.net.target.ext with
          logix := some { st with proj := written st.proj (ldwx_locPath s tm0 li hops (.atomic c))
                                    (li * tm0.size + ldr4_offset hops) bytes } } ∧
      bytes.length = sz ∧
      ldr_Healthy w' sess cidb { conn with lastSeq := some w.drv.nextSeq.1 } := by
  obtain ⟨haty, hentry, hndw, hpos, hle8⟩ := ldr_atomic_table c sz name t hat hb hsz
  have hbl : bytes.length = sz := ldw_encode_length c sz t v bytes haty hb hsz hcanon henc
  have hmem : s.mem ≠ [] := by
    intro h; rw [h, List.length_nil] at hin; omega
  obtain ⟨hparse, path, hpathOk, hpl, hden, hr, hav⟩ := ldwx_path_core cfg st.proj s tid0 tm0 idx0 li hops (.atomic c) info leaf
    true hs hbytes huniqN hl0 hty htm0 hmem hidx hne hchain hlv hnum hsize hget hk hpath
    (by rw [hleaf.typeName]; exact hndw) hleaf.instanceId
  have hpt : packedTypeOf leaf = le 2 c := ldw_packedType leaf name c sz hleaf.struct hleaf.typeName hentry
  have hencv := ldwx_leaf_encodeValue
    ({ ldwx_parsedPath 0 (ldr4_pathStr s.name idx0 hops) leaf with value := v } : Drv.Parsed) leaf c sz name t bytes hleaf hat
    hb hsz rfl rfl hcanon henc
  have hsym : st.proj.symbolOf (ldwx_locPath s tm0 li hops (.atomic c)) = some s := ldr_find_inst st.proj s hs huniqI
  have hex := write_e2e st (conn.size - 2) path _ (ldwx_locPath s tm0 li hops (.atomic c)) 1 sz bytes s hden hr
    (by intro b; simp [ldwx_locPath]) ⟨Nat.le_refl 1, hav, by omega⟩ hsym hsz (by omega)
    (by simp only [ldwx_locPath]; omega)
  have htb : typeBytes st.proj (ldwx_locPath s tm0 li hops (.atomic c)).ty = le 2 c := rfl
  rw [htb, ← hpt] at hex
  obtain ⟨w', frm, hwr, h2, h3, h4, h5⟩ := ldw3_write_single cfg w sess cidb conn st _ (ldr4_pathStr s.name idx0 hops) v _ _
    leaf path _ (ldwx_locPath s tm0 li hops (.atomic c)) 1 bytes hw hlogix (hparse 0) rfl rfl rfl hencv rfl rfl rfl (by omega)
    hpathOk hden (by omega) hr hex (by rw [hpt, le_length]; omega) (by omega) (by rw [hpt, le_length]; omega)
    (by rw [hpt, le_length]; omega)
  refine ⟨w', frm, ?_, h2, h3, h4, hbl, h5⟩
  rw [hwr]
  have hresult := ldw_writeResult
    ({ ldwx_parsedPath 0 (ldr4_pathStr s.name idx0 hops) leaf with value := v } : Drv.Parsed) leaf
    { tag := ldr4_pathStr s.name idx0 hops, value := .bytes bytes, type := some leaf.core.dataTypeName, error := none }
    rfl rfl rfl rfl rfl rfl
  dsimp only [ldwx_parsedPath] at hresult ⊢
  rw [hresult, hleaf.typeName]

/-! ### the walk is a fact about the structure definitions only -/

theorem ldwx_hopOk_congr (p p' : Project) (ht : p'.templates = p.templates) (tid : Nat) (h : ldr4_Hop)
    (hok : ldr4_HopOk p tid h) : ldr4_HopOk p' tid h := by
  have htm : ∀ tid, p'.template? tid = p.template? tid := by intro tid; unfold Project.template?; rw [ht]
  have hel : ∀ ty, p'.elSize ty = p.elSize ty := by
    intro ty; cases ty <;> simp [Project.elSize, htm]
  exact ⟨by rw [htm]; exact hok.tmpl, hok.mem, hok.bytes, hok.uniq, hok.notBool, by rw [hel]; exact hok.size, hok.index⟩

/-- a legal walk stays legal in a project with the same structure definitions (memory contents do not matter) -/
theorem ldwx_chain_congr (p p' : Project) (ht : p'.templates = p.templates) :
    ∀ (hops : List ldr4_Hop) (cur final : ElTy), ldr4_Chain p cur hops final → ldr4_Chain p' cur hops final
  | [], _, _, h => h
  | h :: rest, cur, final, hc => by
    simp only [ldr4_Chain] at hc ⊢
    obtain ⟨tid, e, hok, hrest⟩ := hc
    exact ⟨tid, e, ldwx_hopOk_congr p p' ht tid h hok, ldwx_chain_congr p p' ht rest _ _ hrest⟩

/-- `write` of a member path followed by `read` of the same path returns the written value -/
theorem ldwx_write_then_read_path (cfg : Cfg) (w : Cli.World Ext) (sess : Nat) (cidb : Bytes) (conn : Conn)
    (st : LState) (s : Symbol) (tid0 : Nat) (tm0 : Template) (idx0 : List Nat) (li : Nat) (hops : List ldr4_Hop)
    (info leaf : TagInfo) (c sz : Nat) (name : Name) (t : Ty) (v : PyVal) (bytes : Bytes)
    (hw : ldr_Healthy w sess cidb conn) (hlogix : w.net.target.ext.logix = some st)
    (hs : s ∈ st.proj.controller)
    (hbytes : ∀ s' ∈ st.proj.controller, ∀ ch ∈ s'.name, ch < 256)
    (huniqN : ∀ s' ∈ st.proj.controller, s'.name = s.name → s' = s)
    (huniqI : ∀ s' ∈ st.proj.controller, s'.inst = s.inst → s' = s)
    (hl0 : ldr2_Level ⟨s.name, idx0⟩)
    (hty : elTyOfWord s.symbolType = .struct tid0) (htm0 : st.proj.template? tid0 = some tm0)
    (hidx : (idx0 = [] ∧ li = 0) ∨ (idx0 ≠ [] ∧ linearIndex s.dims idx0 = some li))
    (hne : hops ≠ []) (hchain : ldr4_Chain st.proj (.struct tid0) hops (.atomic c))
    (hlv : ∀ h ∈ hops, ldr2_Level h.level)
    (hnum : ∀ h, hops.getLast? = some h → PyStr.isDigit h.m.name = false)
    (hsize : ldr4_pathSize (ldr4_levels s.name idx0 hops) ≤ 500)
    (hat : atomicOfCode c = some (name, t)) (hb : t.isBits = none) (hsz : atomicSize c = some sz)
    (hin : li * tm0.size + ldr4_offset hops + sz ≤ s.mem.length)
    (hget : cfg.tags.get? s.name = some info) (hk : info.core.tagType = .struct)
    (hpath : ldr4_InfoPath info.members (hops.map (·.m.name)) leaf) (hleaf : ldr4_LeafOf leaf name t)
    (hcanon : Canon t v) (henc : encode t v = .ok bytes)
    (hC : ldr4_pathSize (ldr4_levels s.name idx0 hops) + 24 ≤ w.drv.connectionSize)
    (hT : ldr4_pathSize (ldr4_levels s.name idx0 hops) + 18 ≤ conn.size) :
    ∃ w1 w2 frm1 frm2,
      write hookAll cfg w [(ldr4_pathStr s.name idx0 hops, v)] =
        (w1, .ok [{ tag := ldr4_pathStr s.name idx0 hops, value := v, type := some name, error := none }]) ∧
      read hookAll cfg w1 [ldr4_pathStr s.name idx0 hops] =
        (w2, .ok [{ tag := ldr4_pathStr s.name idx0 hops, value := v, type := some name, error := none }]) ∧
      w2.net.sent = w.net.sent ++ [frm1, frm2] ∧
      w2.net.target.ext =
        { w.net.target.ext with
          logix := some { st with proj := ldw2_proj st.proj s (li * tm0.size + ldr4_offset hops) bytes,
                                  ctr := st.ctr + 1 } } ∧
      ldr_Healthy w2 sess cidb { conn with lastSeq := some w.drv.nextSeq.2.nextSeq.1 } := by
  obtain ⟨haty, _, _, _, hle8⟩ := ldr_atomic_table c sz name t hat hb hsz
  obtain ⟨w1, frm1, hwr, hd1, hsent1, hext1, hbl, hh1⟩ := ldwx_write_path_leaf cfg w sess cidb conn st s tid0 tm0 idx0 li hops
    info leaf c sz name t v bytes hw hlogix hs hbytes huniqN huniqI hl0 hty htm0 hidx hne hchain hlv hnum hsize hat hb hsz hin
    hget hk hpath hleaf hcanon henc (by omega) (by omega)
  generalize hoff : li * tm0.size + ldr4_offset hops = off at *
  rw [ldw2_written_eq st.proj s _ off bytes rfl rfl] at hext1
  have hlogix1 : w1.net.target.ext.logix = some { st with proj := ldw2_proj st.proj s off bytes } := by rw [hext1]
  have hcs : w1.drv.connectionSize = w.drv.connectionSize := by rw [hd1, (Cli.lcs_nextSeq w.drv).2]
  have hfit : off + bytes.length ≤ s.mem.length := by omega
  have hml : (ldw2_sym s off bytes).mem.length = s.mem.length := (splice_frame s.mem bytes off hfit).1
  obtain ⟨enc, he, _, hd⟩ := canon_fixed_roundtrip t v sz hcanon (ldw_atomic_width c sz t haty hb hsz).1
  rw [henc] at he
  cases he
  have hdec : decode t ((ldw2_sym s off bytes).mem.drop off) = .ok (v, s.mem.drop (off + bytes.length)) := by
    show decode t ((splice s.mem off bytes).drop off) = _
    rw [ldw3_splice_drop0 s.mem bytes off hfit]
    exact hd _
  have hchain' : ldr4_Chain (ldw2_proj st.proj s off bytes) (.struct tid0) hops (.atomic c) :=
    ldwx_chain_congr st.proj (ldw2_proj st.proj s off bytes) rfl hops _ _ hchain
  obtain ⟨w2, frm2, hrd, hd2, hsent2, hext2, hh2⟩ := ldr4_read_path_leaf cfg w1 sess cidb
    { conn with lastSeq := some w.drv.nextSeq.1 } { st with proj := ldw2_proj st.proj s off bytes }
    (ldw2_sym s off bytes) tid0 tm0 idx0 li hops info leaf c sz name t v _ hh1 hlogix1
    (ldw2_mem_ctl st.proj.controller s off bytes hs)
    (ldw2_ctl_bytes st.proj.controller s.inst off bytes hbytes)
    (ldw2_ctl_uniqN st.proj.controller s off bytes huniqN)
    (ldw2_ctl_uniqI st.proj.controller s off bytes huniqI) hl0 hty htm0 hidx hne hchain' hlv hnum hsize hat hb hsz
    (by rw [hml, hoff]; exact hin) hget hk hpath hleaf (by rw [hoff]; exact hdec)
    (by rw [hcs]; show ldr4_pathSize (ldr4_levels s.name idx0 hops) + 16 ≤ _; omega) hT
  refine ⟨w1, w2, frm1, frm2, hwr, hrd, ?_, ?_, ?_⟩
  · rw [hsent2, hsent1, List.append_assoc]; rfl
  · rw [hext2, hext1]
  · rw [hd1] at hh2; exact hh2

end Pycomm.Lgx.Drv
