/-
  Helper lemmas for C17 over histories with LogixDriver reads and writes.  Part 3: the sequence-count invariant
  `lcs_Seq` of LCSeq.lean with a budget: `lcl_SeqB B w` allows the sequence count the target saw last on the
  driver's connection to lie `B` draws further back than the consumed transport faults explain — the request
  builders of the LogixDriver draw sequence numbers they never send (one per request embedded in a multi-service
  packet, one per request that is sent fragmented instead).  `lcl_SeqB 0` is `lcs_Seq`; open / close /
  generic_message preserve `lcl_SeqB B`; close() resets the budget.
-/
import PycommProofs.LCSeq
namespace Pycomm.Cli
open Pycomm.Tgt Pycomm.Encap Pycomm.Path Pycomm.Reply Pycomm.EN

structure lcl_SeqB (B : Nat) {σ} (w : World σ) : Prop where
  fl : w.net.faults.length + B < 65534
  val : 1 ≤ w.drv.seqVal ∧ w.drv.seqVal ≤ 65536
  ctx8 : w.drv.context.length = 8
  sess32 : ∀ s, w.drv.session = some s → s < 2 ^ 32
  sockc : w.drv.targetIsConnected = true → w.drv.hasSock = true
  conns : ∀ c ∈ w.net.target.base.conns, ∀ s, c.lastSeq = some s →
    w.drv.targetIsConnected = true ∧ (∃ cidb, w.drv.targetCid = some cidb ∧ c.cid = leVal cidb) ∧
    lcs_recent s w.drv.seqVal (lcs_D w + B)
  log : ∀ e ∈ w.net.target.base.log, lcs_NotSeq e

theorem lcl_SeqB_of_seq {σ} {w : World σ} (h : lcs_Seq w) : lcl_SeqB 0 w :=
  ⟨h.fl, h.val, h.ctx8, h.sess32, h.sockc, h.conns, h.log⟩

theorem lcl_SeqB_mono {σ} {w : World σ} {B B' : Nat} (h : lcl_SeqB B w) (hb : B ≤ B')
    (hfl : w.net.faults.length + B' < 65534) : lcl_SeqB B' w := by
  refine ⟨hfl, h.val, h.ctx8, h.sess32, h.sockc, ?_, h.log⟩
  intro c hc s hs
  obtain ⟨a1, a2, a3⟩ := h.conns c hc s hs
  exact ⟨a1, a2, lcs_recent_mono a3 (by omega)⟩

/-- when no connection at the target carries a sequence count, the budget is arbitrary -/
theorem lcl_SeqB_reset {σ} {w : World σ} {B : Nat} (B' : Nat) (h : lcl_SeqB B w)
    (hnone : ∀ c ∈ w.net.target.base.conns, c.lastSeq = none) (hfl : w.net.faults.length + B' < 65534) :
    lcl_SeqB B' w := by
  refine ⟨hfl, h.val, h.ctx8, h.sess32, h.sockc, ?_, h.log⟩
  intro c hc s hs
  rw [hnone c hc] at hs; cases hs

theorem lcl_SeqB_keep {σ} {B : Nat} {w w' : World σ} (h : lcl_SeqB B w) (k : lcs_Keep w w')
    (hc : w'.drv.targetIsConnected = w.drv.targetIsConnected) (hcid : w'.drv.targetCid = w.drv.targetCid)
    (hs : ∀ s, w'.drv.session = some s → s < 2 ^ 32) : lcl_SeqB B w' := by
  refine ⟨k.faults ▸ h.fl, k.seq ▸ h.val, k.ctx ▸ h.ctx8, hs, ?_, ?_, lcs_log_ext k.tgt.log h.log⟩
  · rw [hc, k.sock]; exact h.sockc
  · intro c hcm s hsq
    rcases k.tgt.conns c hcm with hin | hnone
    · obtain ⟨a1, a2, a3⟩ := h.conns c hin s hsq
      have := lcs_D_mono k
      exact ⟨hc ▸ a1, hcid ▸ a2, k.seq ▸ lcs_recent_mono a3 (by omega)⟩
    · rw [hnone] at hsq; cases hsq

theorem lcl_SeqB_fresh {σ} {B : Nat} {w w' : World σ} (h : lcl_SeqB B w) (k : lcs_Keep w w')
    (hnc : w.drv.targetIsConnected = false) (hsk : w'.drv.targetIsConnected = true → w'.drv.hasSock = true)
    (hs : ∀ s, w'.drv.session = some s → s < 2 ^ 32) : lcl_SeqB B w' := by
  refine ⟨k.faults ▸ h.fl, k.seq ▸ h.val, k.ctx ▸ h.ctx8, hs, hsk, ?_, lcs_log_ext k.tgt.log h.log⟩
  intro c hcm s hsq
  rcases k.tgt.conns c hcm with hin | hnone
  · have := (h.conns c hin s hsq).1
    rw [hnc] at this; cases this
  · rw [hnone] at hsq; cases hsq

theorem lcl_registerSession {σ} (hook : ObjHook σ) (hh : lci_HookOk hook) (hn : lcs_HookNoSeq hook) (B : Nat)
    (w : World σ) (h : lcl_SeqB B w) : lcl_SeqB B (registerSession hook w).1 := by
  have hk := lcs_Keep_sendReq hook hh hn w h.ctx8 (.registerSession [1, 0] [0, 0]) (by decide) false
  have hd := (lcs_sendReq hook w (.registerSession [1, 0] [0, 0]) false _ rfl).1
  have h1 : lcl_SeqB B (sendReq hook w (.registerSession [1, 0] [0, 0]) false).1 :=
    lcl_SeqB_keep h hk (by rw [hd]) (by rw [hd]) (by rw [hd]; exact h.sess32)
  have h2 : ∀ reply, (parseRegister reply).valid = true →
      lcl_SeqB B ({ (sendReq hook w (.registerSession [1, 0] [0, 0]) false).1 with
        drv := { (sendReq hook w (.registerSession [1, 0] [0, 0]) false).1.drv with session := (parseRegister reply).session } } : World σ) := by
    intro reply hv
    refine ⟨h1.fl, h1.val, h1.ctx8, ?_, h1.sockc, h1.conns, h1.log⟩
    intro s hs
    cases reply with
    | none => simp [parseRegister, RegReply.valid] at hv
    | some raw => exact lcs_parseRegister_lt raw s hv hs
  unfold registerSession
  split
  · split
    · exact h
    · simp only []
      split
      · exact h1
      · split
        · rename_i hv; exact h2 _ hv
        · exact h1
  · simp only []
    split
    · exact h1
    · split
      · rename_i hv; exact h2 _ hv
      · exact h1

theorem lcl_openDrv_seq {σ} (hook : ObjHook σ) (hh : lci_HookOk hook) (hn : lcs_HookNoSeq hook) (B : Nat) (w : World σ)
    (rnd : Bytes) (h : lcl_SeqB B w) : lcl_SeqB B (openDrv hook w rnd).1 := by
  unfold openDrv
  split
  · exact h
  · simp only []
    have h1 : lcl_SeqB B ({ drv := { w.drv with hasSock := true, connectionOpened := true, cid := rnd.take 4, vsn := (rnd.drop 4).take 4 }, net := { w.net with tcpOpen := true, pending := if w.drv.hasSock then w.net.pending else [] } } : World σ) :=
      ⟨h.fl, h.val, h.ctx8, h.sess32, fun _ => rfl, h.conns, h.log⟩
    have h2 := lcl_registerSession hook hh hn B _ h1
    generalize registerSession hook _ = res at h2 ⊢
    obtain ⟨w2, r⟩ := res
    cases r with
    | error e => exact h2
    | ok o => cases o <;> exact h2

theorem lcl_forwardOpen_seq {σ} (hook : ObjHook σ) (hh : lci_HookOk hook) (hn : lcs_HookNoSeq hook) (B : Nat) (fuel : Nat)
    (w : World σ) (h : lcl_SeqB B w) : lcl_SeqB B (forwardOpen hook fuel w).1 := by
  cases fuel with
  | zero => unfold forwardOpen; exact h
  | succ fuel =>
    generalize hr : forwardOpen hook (fuel + 1) w = r
    unfold forwardOpen at hr
    split at hr
    · subst hr; exact h
    rename_i hcon
    have hcon : w.drv.targetIsConnected = false := by simpa using hcon
    split at hr
    · subst hr; exact h
    simp only [] at hr
    split at hr
    · generalize hgg : genericMessage hook fuel w _ = g at hr
      have K : lcs_Keep w g.1 ∧ g.1.drv = w.drv ∧ (∀ tag, g.2 = .ok tag → w.drv.hasSock = true) :=
        hgg ▸ lcs_gm_unconn hook hh hn fuel w _ (by rfl) h.ctx8
      obtain ⟨k1, k2, k3⟩ := K
      have hg : lcl_SeqB B g.1 := lcl_SeqB_keep h k1 (by rw [k2]) (by rw [k2]) (by rw [k2]; exact h.sess32)
      clear hgg
      obtain ⟨w1, r1⟩ := g
      cases r1 with
      | error e => simp only [] at hr; subst hr; exact hg
      | ok tag =>
        simp only [] at hr k1 k2 k3 hg
        split at hr
        · subst hr
          have hsk : w1.drv.hasSock = true := by rw [k2]; exact k3 tag rfl
          exact lcl_SeqB_fresh h ⟨k1.seq, k1.ctx, k1.sock, k1.faults, k1.nsend, k1.tgt⟩ hcon (fun _ => hsk) (by show ∀ s, w1.drv.session = some s → _; rw [k2]; exact h.sess32)
        · subst hr; exact hg
    · subst hr; exact h

theorem lcl_ensureFO_seq {σ} (hook : ObjHook σ) (hh : lci_HookOk hook) (hn : lcs_HookNoSeq hook) (B : Nat) (fuel : Nat)
    (w : World σ) (h : lcl_SeqB B w) : lcl_SeqB B (ensureForwardOpen hook fuel w).1 := by
  cases fuel with
  | zero => unfold ensureForwardOpen; exact h
  | succ fuel =>
    generalize hr : ensureForwardOpen hook (fuel + 1) w = r
    unfold ensureForwardOpen at hr
    split at hr
    · subst hr; exact h
    have h1 := lcl_forwardOpen_seq hook hh hn B fuel w h
    generalize forwardOpen hook fuel w = r1 at hr h1
    obtain ⟨w1, o1⟩ := r1
    cases o1 with
    | error e => simp only [] at hr; subst hr; exact h1
    | ok b =>
      cases b with
      | true => simp only [] at hr; subst hr; exact h1
      | false =>
        simp only [] at hr
        split at hr
        · have h1' : lcl_SeqB B ({ w1 with drv := { w1.drv with extendedFo := false, connectionSize := 500 } } : World σ) :=
            ⟨h1.fl, h1.val, h1.ctx8, h1.sess32, h1.sockc, h1.conns, h1.log⟩
          have h2 := lcl_forwardOpen_seq hook hh hn B fuel _ h1'
          generalize forwardOpen hook fuel _ = r2 at hr h2
          obtain ⟨w3, o3⟩ := r2
          cases o3 with
          | error e => simp only [] at hr; subst hr; exact h2
          | ok b => cases b <;> (simp only [] at hr; subst hr; exact h2)
        · subst hr; exact h1

/-- the core step of a connected generic_message (port of `lcs_unit_step`): draw, then send -/
theorem lcl_unit_step {σ} (hook : ObjHook σ) (hh : lci_HookOk hook) (hn : lcs_HookNoSeq hook) (S : Prop) (B : Nat)
    (w0 : World σ) (hi : lci_Inv S w0) (hc : lci_Conn w0) (hq : lcl_SeqB B w0)
    (hcon : w0.drv.targetIsConnected = true) (m : Bytes) (hm : m.length ≤ 65400) :
    lcl_SeqB B (sendReq hook ({ w0 with drv := w0.drv.nextSeq.2 } : World σ) (.sendUnit w0.drv.nextSeq.1 m) false).1 := by
  obtain ⟨e1, e2⟩ := lcs_nextSeq w0.drv
  rw [e1, e2]
  generalize hv : (if w0.drv.seqVal > 65535 then 1 else w0.drv.seqVal) = v
  have hvr : 1 ≤ v ∧ v ≤ 65535 ∧ v = 1 + (w0.drv.seqVal - 1) % 65535 := by
    have := hq.val
    rw [← hv]; split <;> omega
  obtain ⟨s, cidb, c0, k1, k2, k3, k4, k5, k6, k7⟩ := hc hcon
  obtain ⟨s', hs', hmem⟩ := hi.sess
  rw [k1] at hs'; cases hs'
  have hsm := hmem k2
  have hsock := hq.sockc hcon
  have hL := hq.fl
  generalize hw1 : ({ w0 with drv := { w0.drv with seqVal := v + 1 } } : World σ) = w1
  have d1 : w1.drv = { w0.drv with seqVal := v + 1 } := by rw [← hw1]
  have n1 : w1.net = w0.net := by rw [← hw1]
  obtain ⟨frame, hb⟩ := lcs_build_unit w1.drv.ctx s (by rw [d1]; exact k1) (hq.sess32 s k1)
    (by rw [d1]; exact hi.opt0) cidb (by rw [d1]; exact k3) k4 v (by omega) m hm
  obtain ⟨hd, hf, hns, hcase⟩ := lcs_sendReq hook w1 (.sendUnit v m) false _ rfl
  generalize sendReq hook w1 (.sendUnit v m) false = res at hd hf hns hcase
  have hD0 : lcs_D w0 + B ≤ 65534 := by unfold lcs_D; omega
  have hrem := lcs_rem_le w0.net.faults res.1.net.nSend
  rcases hcase with ⟨ht, hwhy⟩ | ⟨frame', hb', _, ht⟩
  · have hcons : lcs_rem w0.net.faults res.1.net.nSend + 1 ≤ lcs_rem w0.net.faults w0.net.nSend := by
      rcases hwhy with ⟨e, he⟩ | h | h
      · rw [hb] at he; cases he
      · rw [d1] at h; rw [hsock] at h; cases h
      · rw [n1] at h; exact h
    have hDD : lcs_D w0 + 1 ≤ lcs_D res.1 := by
      unfold lcs_D; rw [hf, n1]
      have := lcs_rem_le w0.net.faults w0.net.nSend
      omega
    refine ⟨by rw [hf, n1]; exact hL, by rw [hd, d1]; show 1 ≤ v + 1 ∧ v + 1 ≤ 65536; omega,
      by rw [hd, d1]; exact hq.ctx8, by rw [hd, d1]; exact hq.sess32, by rw [hd, d1]; exact hq.sockc, ?_,
      by rw [ht, n1]; exact hq.log⟩
    intro c hcm s' hs'
    rw [ht, n1] at hcm
    obtain ⟨a1, a2, d, b1, b2, b3⟩ := hq.conns c hcm s' hs'
    refine ⟨by rw [hd, d1]; exact a1, by rw [hd, d1]; exact a2, d + 1, by omega, by omega, ?_⟩
    rw [hd, d1]
    show s' = 1 + ((v + 1 - 1) + 65535 - (d + 1)) % 65535
    have := hq.val
    omega
  · rw [hb] at hb'; cases hb'
    obtain ⟨s2, common, g1, g2, _, g4⟩ := parse_built _ w1.drv.ctx frame (by rw [d1]; exact hq.ctx8) hb
    have g1' : w1.drv.ctx.session = some s := by rw [d1]; exact k1
    rw [g1'] at g1; cases g1
    obtain ⟨hseq, hml, _, g2⟩ := g2
    have hcid : w1.drv.ctx.targetCid = some cidb := by rw [d1]; exact k3
    have hcpf : parseCpf common = some (.connected (leVal cidb) v m) := by
      rw [g2, hcid]; exact parseCpf_connected cidb m v k4 hseq hml
    have hopt : w1.drv.ctx.option = 0 := by rw [d1]; exact hi.opt0
    cases hfind : w1.net.target.base.conns.find? (fun c => c.cid == leVal cidb && c.session == s) with
    | none =>
      exfalso
      have := List.find?_eq_none.1 hfind c0 (by rw [n1]; exact k5)
      simp [k6, k7] at this
    | some c =>
      have hu := lcs_handle_unit hook hh hn w1.net.target frame _ (leVal cidb) v m c g4 rfl hopt rfl
        (by rw [n1]; exact hsm) hcpf hfind
      rw [← ht] at hu
      have hcm : c ∈ w0.net.target.base.conns := by rw [← n1]; exact List.mem_of_find?_eq_some hfind
      have hne : c.lastSeq ≠ some v := by
        intro hl
        obtain ⟨_, _, d, b1, b2, b3⟩ := hq.conns c hcm v hl
        have := hq.val
        omega
      refine ⟨by rw [hf, n1]; exact hL, by rw [hd, d1]; show 1 ≤ v + 1 ∧ v + 1 ≤ 65536; omega,
        by rw [hd, d1]; exact hq.ctx8, by rw [hd, d1]; exact hq.sess32, by rw [hd, d1]; exact hq.sockc, ?_, ?_⟩
      · intro c' hcm' s' hs'
        rcases hu.conns c' hcm' with hnone | ⟨c1, hc1, hcid1, hor⟩
        · rw [hnone] at hs'; cases hs'
        · rw [n1] at hc1
          rcases hor with ⟨hx, hy⟩ | ⟨hx, hy⟩
          · rw [hy] at hs'; cases hs'
            refine ⟨by rw [hd, d1]; exact hcon, ⟨cidb, by rw [hd, d1]; exact k3, by rw [hcid1, hx]⟩, 1, by omega, ?_, ?_⟩
            · unfold lcs_D; rw [hf, n1]; omega
            · rw [hd, d1]
              show v = 1 + ((v + 1 - 1) + 65535 - 1) % 65535
              omega
          · subst hy
            obtain ⟨_, ⟨cidb', q1, q2⟩, _⟩ := hq.conns c' hc1 s' hs'
            rw [k3] at q1; cases q1
            exact absurd q2 hx
      · obtain ⟨extra, hl, hx⟩ := hu.log
        rw [hl]
        intro e he
        rcases List.mem_append.1 he with h | h
        · exact hx hne e h
        · rw [n1] at h; exact hq.log e h

theorem lcl_generic_seq {σ} (hook : ObjHook σ) (hh : lci_HookOk hook) (hn : lcs_HookNoSeq hook) (S : Prop) (B : Nat)
    (fuel : Nat) (w : World σ) (a : GenArgs) (hsz : a.connected = true → lcs_SizeOk a) (hi : lci_Inv S w)
    (hc : lci_Conn w) (hq : lcl_SeqB B w) : lcl_SeqB B (genericMessage hook fuel w a).1 := by
  cases fuel with
  | zero => unfold genericMessage; exact hq
  | succ fuel =>
    by_cases hcn : a.connected = true
    · generalize hg : genericMessage hook (fuel + 1) w a = g
      unfold genericMessage at hg
      simp only [hcn, if_true] at hg
      obtain ⟨b1, b2, b3⟩ := lci_cli_ensureFO hook S fuel w hi hc _ rfl
      have b4 := lcl_ensureFO_seq hook hh hn B fuel w hq
      generalize ensureForwardOpen hook fuel w = r0 at hg b1 b2 b3 b4
      obtain ⟨w0, o0⟩ := r0
      simp only [] at hg b1 b2 b3 b4
      cases o0 with
      | error e => simp only [] at hg; subst hg; exact b4
      | ok u =>
        simp only [] at hg
        split at hg
        · subst hg; exact b4
        · rename_i reqPath hrp
          have hm : ([UInt8.ofNat a.service] ++ reqPath ++ a.data).length ≤ 65400 := by
            have := hsz hcn reqPath hrp
            simp; omega
          have := lcl_unit_step hook hh hn S B w0 b1 b2 b4 (b3 rfl) _ hm
          split at hg
          · subst hg; exact this
          · split at hg
            · subst hg; exact this
            · subst hg; exact this
    · have hcn : a.connected = false := by simpa using hcn
      obtain ⟨k1, k2, _⟩ := lcs_gm_unconn hook hh hn (fuel + 1) w a hcn hq.ctx8
      exact lcl_SeqB_keep hq k1 (by rw [k2]) (by rw [k2]) (by rw [k2]; exact hq.sess32)

/-- close(): afterwards no connection at the target carries a sequence count the driver still relates to — the
    budget starts again (any `B'` within the bound) -/
theorem lcl_closeDrv_seq {σ} (hook : ObjHook σ) (hh : lci_HookOk hook) (hn : lcs_HookNoSeq hook) (F : List Fault) (P : Policy)
    (B B' : Nat) (w : World σ) (hnet : lci_Net F P w) (hq : lcl_SeqB B w) (hfl : w.net.faults.length + B' < 65534) :
    lcl_SeqB B' (closeDrv hook w).1 := by
  have k := lcs_Keep_closeTry hook hh hn w hq.ctx8
  obtain ⟨a1, _, _, _, a5, a6, _⟩ := lc_closeTry_keep hook w
  rw [lc_closeDrv_eq]
  simp only []
  generalize lcCloseTry hook w = p at k a1 a5 a6
  obtain ⟨w1, e1⟩ := p
  simp only [] at k a1 a5 a6 ⊢
  by_cases hs : w.drv.hasSock = true
  · have hto : w1.net.tcpOpen = true := by rw [a5, ← hnet.sock]; exact hs
    simp only [a1, hs, if_true]
    unfold Net.sockClose
    simp only [hto, if_true]
    refine ⟨k.faults ▸ hfl, k.seq ▸ hq.val, k.ctx ▸ hq.ctx8, ?_, (fun h => nomatch h), ?_, lcs_log_ext k.tgt.log hq.log⟩
    · intro s hs'; cases hs'; decide
    · intro c hc; cases hc
  · have hs : w.drv.hasSock = false := by simpa using hs
    have hnc : w.drv.targetIsConnected = false := by
      cases h : w.drv.targetIsConnected
      · rfl
      · rw [hq.sockc h] at hs; cases hs
    simp only [a1, hs, Bool.false_eq_true, if_false]
    refine ⟨k.faults ▸ hfl, k.seq ▸ hq.val, k.ctx ▸ hq.ctx8, ?_, (fun h => nomatch h), ?_, lcs_log_ext k.tgt.log hq.log⟩
    · intro s hs'; cases hs'; decide
    · intro c hc s hsq
      rw [a6 hs] at hc
      have := (hq.conns c hc s hsq).1
      rw [hnc] at this; cases this

end Pycomm.Cli
