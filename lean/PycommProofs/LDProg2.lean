/-
  LogixDriver.write of a program-scoped tag: what the write effect `written` does to the project when the location is
  a whole symbol of a program scope — that program symbol's memory is replaced, one entry is logged, the controller
  scope and every other program scope are untouched — and the facts about the new project that a following `read`
  needs.
-/
import PycommProofs.LDProg1
namespace Pycomm.Lgx.Drv
open Pycomm Pycomm.Tgt Pycomm.Path Pycomm.Reply Pycomm.Lgx Pycomm.Lgx.E2E

/-- the program scopes with the memory of the symbols of instance id `inst` replaced in the scopes named `pn` -/
def ldp_progs (l : List (Name × List Symbol)) (pn : Name) (inst : Nat) (bytes : Bytes) : List (Name × List Symbol) :=
  l.map fun pr => if pr.1 == pn then (pr.1, ldw_ctl pr.2 inst bytes) else pr

/-- the project after the write: the program symbol's memory replaced, one write logged -/
def ldp_proj (p : Project) (pn : Name) (s : Symbol) (bytes : Bytes) : Project :=
  { p with programs := ldp_progs p.programs pn s.inst bytes, writeLog := p.writeLog ++ [(s.inst, 0, bytes.length)] }

/-- writing a whole symbol with unique instance id of the program scope `pn` (a unique scope name): the project
    afterwards is the project with that symbol's memory replaced by the bytes and one more write-log entry -/
theorem ldp_written_eq (p : Project) (pn : Name) (syms : List Symbol) (s : Symbol) (c : Nat) (bytes : Bytes)
    (hprogU : ∀ pr ∈ p.programs, pr.1 = pn → pr = (pn, syms))
    (huniqI : ∀ s' ∈ syms, s'.inst = s.inst → s' = s) (hl : bytes.length = s.mem.length) :
    written p (ldp_loc pn s c) 0 bytes = ldp_proj p pn s bytes := by
  have hsyms : (syms.map fun x => if x.inst == s.inst then { x with mem := splice x.mem 0 bytes } else x) =
      ldw_ctl syms s.inst bytes := by
    unfold ldw_ctl
    apply List.map_congr_left
    intro x hx
    by_cases hi : (x.inst == s.inst) = true
    · have : x = s := huniqI x hx (by simpa using hi)
      subst this
      simp only [hi, if_true, ldw_sym, ldw_splice_whole _ _ hl]
    · simp only [hi]
      rfl
  have hmap : (p.programs.map fun pr =>
      if pr.1 == pn then
        (pr.1, pr.2.map fun x => if x.inst == s.inst then { x with mem := splice x.mem 0 bytes } else x)
      else pr) = ldp_progs p.programs pn s.inst bytes := by
    unfold ldp_progs
    apply List.map_congr_left
    intro pr hpr
    by_cases hk : (pr.1 == pn) = true
    · have e : pr = (pn, syms) := hprogU pr hpr (by simpa using hk)
      subst e
      simp only [hk, if_true, hsyms]
    · simp only [hk, Bool.false_eq_true, if_false]
  have e : written p (ldp_loc pn s c) 0 bytes =
      { p with programs := p.programs.map fun pr =>
                 if pr.1 == pn then
                   (pr.1, pr.2.map fun x => if x.inst == s.inst then { x with mem := splice x.mem 0 bytes } else x)
                 else pr,
               writeLog := p.writeLog ++ [(s.inst, 0, bytes.length)] } := rfl
  rw [e, hmap]
  rfl

/-- position by position: the scope `pn` holds the updated symbol table, every other program scope is untouched -/
theorem ldp_progs_other (l : List (Name × List Symbol)) (pn : Name) (syms : List Symbol) (inst : Nat) (bytes : Bytes)
    (hprogU : ∀ pr ∈ l, pr.1 = pn → pr = (pn, syms)) (i : Nat) (pr : Name × List Symbol) (hx : l[i]? = some pr) :
    (ldp_progs l pn inst bytes)[i]? = some (if pr.1 = pn then (pn, ldw_ctl syms inst bytes) else pr) ∧
    (pr.1 = pn → pr = (pn, syms)) := by
  have hmem : pr ∈ l := List.mem_of_getElem? hx
  refine ⟨?_, hprogU pr hmem⟩
  unfold ldp_progs
  rw [List.getElem?_map, hx, Option.map_some]
  by_cases hi : pr.1 = pn
  · rw [hprogU pr hmem hi]; simp
  · simp [hi]

theorem ldp_mem_progs (l : List (Name × List Symbol)) (pn : Name) (syms : List Symbol) (inst : Nat) (bytes : Bytes)
    (h : (pn, syms) ∈ l) : (pn, ldw_ctl syms inst bytes) ∈ ldp_progs l pn inst bytes := by
  unfold ldp_progs
  exact List.mem_map.2 ⟨(pn, syms), h, by simp⟩

theorem ldp_progs_uniq (l : List (Name × List Symbol)) (pn : Name) (syms : List Symbol) (inst : Nat) (bytes : Bytes)
    (hprogU : ∀ pr ∈ l, pr.1 = pn → pr = (pn, syms)) :
    ∀ pr ∈ ldp_progs l pn inst bytes, pr.1 = pn → pr = (pn, ldw_ctl syms inst bytes) := by
  intro y hy hn
  unfold ldp_progs at hy
  obtain ⟨x, hx, rfl⟩ := List.mem_map.1 hy
  by_cases hk : (x.1 == pn) = true
  · have e : x = (pn, syms) := hprogU x hx (by simpa using hk)
    subst e
    simp
  · simp only [hk] at hn
    exact absurd (by simpa using hn) hk

end Pycomm.Lgx.Drv
