/-
  C06, composition of all round-trip results: `CanonAll` extends `Canon` and `TagCanonN`;
  introduction rules for `CanonAll` (structures of three members, StructTag from `TagDict`, arrays);
  STRINGI never decodes to the value that was encoded.
-/
import PycommProofs.RTAll3
namespace Pycomm
open Pycomm.RT Pycomm.ER

/-! ### `Canon → CanonAll` -/

theorem rta_canon_all : (∀ t v, Canon t v → CanonAll t v) ∧
    (∀ ms kvs, CanonMembers ms kvs → CanonAllMembers ms kvs) ∧ (∀ _ : TMembers, True) := by
  refine Ty.induct3 ?_ ?_ ?_ ?_ ?_ ?_ ?_ ?_
  · intro t h v hc
    cases t <;> simp only [NonRec] at h <;> simp only [CanonAll] <;> try exact hc
    case stringI => simp [Canon] at hc
    case bits k =>
      obtain ⟨bs, h1, h2, _⟩ := hc
      exact ⟨bs, h1, h2⟩
    case nbytes n =>
      obtain ⟨bs, h1, h2, h3⟩ := hc
      exact ⟨bs, h1, Or.inl ⟨h2, h3⟩⟩
  · intro len t ih v hc
    cases len with
    | all => simp [Canon] at hc
    | pref k => simp [Canon] at hc
    | fixed n =>
      simp only [Canon] at hc
      obtain ⟨vs, h1, h2, h3, h4⟩ := hc
      simp only [CanonAll]
      refine Or.inr ⟨h3, ?_, vs, h1, h2, fun x hx => by rw [argOf_of_canon t x (h4 x hx)]; exact ih x (h4 x hx)⟩
      cases vs with
      | nil => exact Or.inl (by simp at h2; omega)
      | cons x xs => exact Or.inr (rta_selfDelim_of_tailSafe t (canon_tailSafe t x (h4 x List.mem_cons_self)))
  · intro ms ih v hc
    simp only [Canon] at hc
    obtain ⟨kvs, h1, h2⟩ := hc
    simp only [CanonAll]
    exact ⟨kvs, h1, ih kvs h2⟩
  · intro ms bits priv size _ v hc; simp [Canon] at hc
  · intro kvs hc
    simp only [CanonMembers] at hc
    simp only [CanonAllMembers]; exact hc
  · intro name t rest iht ihr kvs hc
    cases name with
    | none => simp [CanonMembers] at hc
    | some nm =>
      cases kvs with
      | nil => simp [CanonMembers] at hc
      | cons kv kvs =>
        obtain ⟨k, v⟩ := kv
        simp only [CanonMembers] at hc
        obtain ⟨h1, h2, h3, h4, h5⟩ := hc
        simp only [CanonAllMembers]
        exact ⟨h1, h2, h3, by rw [argOf_of_canon t v h4]; exact iht v h4,
          Or.inr (rta_selfDelim_of_tailSafe t (canon_tailSafe t v h4)), ihr kvs h5⟩
  · trivial
  · intros; trivial

/-! ### introduction rules -/

theorem rta_intro_structTag (ms : TMembers) (bits : List (Name × Nat × Nat)) (priv : List Name) (size : Nat)
    (hl : TagLayout ms bits priv size) (kvs : List (Name × PyVal)) (hk : TagDict CanonAll ms bits priv kvs) :
    CanonAll (.structTag ms bits priv size) (.dict kvs) := by
  simp only [CanonAll]
  exact ⟨kvs, rfl, hl, hk.1, (rta_tmembers_iff ms priv kvs).2 hk.2.1, hk.2.2⟩

theorem rta_tagCanon : ∀ (n : Nat) (t : Ty) (v : PyVal), TagCanonN n t v → CanonAll t v
  | 0, t, v, h => rta_canon_all.1 t v h
  | n + 1, t, v, h => by
    rcases h with h | ⟨ms, bits, priv, size, kvs, rfl, rfl, hl, hk⟩
    · exact rta_canon_all.1 t v h
    · refine rta_intro_structTag ms bits priv size hl kvs ⟨hk.1, fun m hm hp => ?_, hk.2.2⟩
      obtain ⟨x, hx, hc⟩ := hk.2.1 m hm hp
      exact ⟨x, hx, rta_tagCanon n _ _ hc⟩

theorem rta_intro_stringI (items : List SIItem) (hok : ∀ i ∈ items, i.Ok) (hn : items.length ≤ 255) :
    CanonAll .stringI (.list (items.map SIItem.val)) := by
  simp only [CanonAll]
  exact ⟨items, Or.inl rfl, hok, hn⟩

/-- ONE item is the canonical value of a STRINGI member / element -/
theorem rta_intro_stringI_item (i : SIItem) (hok : i.Ok) : CanonArg .stringI i.val := by
  show CanonAll .stringI (.tuple [i.val])
  simp only [CanonAll]
  exact ⟨[i], Or.inr rfl, by simpa using hok, by simp⟩

/-- for every type but STRINGI the member / element position changes nothing -/
theorem rta_canonArg_iff (t : Ty) (v : PyVal) (h : t ≠ .stringI) : CanonArg t v ↔ CanonAll t v := by
  rw [CanonArg, argOf_of_ne_stringI t v h]

theorem rta_decodedArg_eq (t : Ty) (v : PyVal) (h : t ≠ .stringI) : decodedArg t v = decodedAs t v := by
  rw [decodedArg, argOf_of_ne_stringI t v h]

theorem rta_intro_bitarray (n : Nat) (k : IntK) (bools : List Bool) (h : bools.length = n * (8 * k.size)) :
    CanonAll (.arr (.fixed n) (.bits k)) (.list (bools.map PyVal.bool)) := by
  simp only [CanonAll]
  exact Or.inl ⟨k, bools, rfl, rfl, h⟩

theorem rta_intro_array (n : Nat) (t : Ty) (vs : List PyVal) (hb : t.isBits = none) (hlen : vs.length = n)
    (hs : SelfDelim t) (h : ∀ x ∈ vs, CanonArg t x) : CanonAll (.arr (.fixed n) t) (.list vs) := by
  simp only [CanonAll]
  exact Or.inr ⟨hb, Or.inr hs, vs, rfl, hlen, h⟩

theorem rta_intro_unbounded (t : Ty) (vs : List PyVal) (hb : t.isBits = none) (hw : PosWidth t)
    (hs : SelfDelim t) (h : ∀ x ∈ vs, CanonArg t x) : CanonAll (.arr .all t) (.list vs) := by
  simp only [CanonAll]
  exact Or.inr ⟨hb, hw, hs, vs, rfl, h⟩

/-- a structure of three named members; only the last may read to the end of the buffer -/
theorem rta_intro_struct3 (n1 n2 n3 : Name) (t1 t2 t3 : Ty) (v1 v2 v3 : PyVal)
    (hn : n1 ≠ [] ∧ n2 ≠ [] ∧ n3 ≠ [] ∧ n1 ≠ n2 ∧ n1 ≠ n3 ∧ n2 ≠ n3)
    (h1 : CanonArg t1 v1) (h2 : CanonArg t2 v2) (h3 : CanonArg t3 v3) (hs1 : SelfDelim t1) (hs2 : SelfDelim t2) :
    CanonAll (.struct (.cons (some n1) t1 (.cons (some n2) t2 (.cons (some n3) t3 .nil))))
      (.dict [(n1, v1), (n2, v2), (n3, v3)]) := by
  obtain ⟨a1, a2, a3, a4, a5, a6⟩ := hn
  simp only [CanonAll]
  refine ⟨_, rfl, ?_⟩
  simp only [CanonAllMembers, Members.names, List.mem_cons, Option.some.injEq, List.not_mem_nil, or_false,
    not_or, true_and]
  exact ⟨a1, ⟨a4, a5⟩, h1, Or.inr hs1, a2, a6, h2, Or.inr hs2, a3, by simp, h3, Or.inl trivial, trivial⟩

theorem rta_decodedAs_struct3 (n1 n2 n3 : Name) (t1 t2 t3 : Ty) (v1 v2 v3 : PyVal) :
    decodedAs (.struct (.cons (some n1) t1 (.cons (some n2) t2 (.cons (some n3) t3 .nil))))
      (.dict [(n1, v1), (n2, v2), (n3, v3)]) =
    .dict [(n1, decodedArg t1 v1), (n2, decodedArg t2 v2), (n3, decodedArg t3 v3)] := by
  simp only [decodedAs, decodedAsMembers]

theorem rta_decodedAs_tag (ms : TMembers) (bits : List (Name × Nat × Nat)) (priv : List Name) (size : Nat)
    (v : PyVal) : decodedAs (.structTag ms bits priv size) v = v := by
  simp only [decodedAs]

theorem rta_decodedAs_stringI (items : List SIItem) :
    decodedAs .stringI (.list (items.map SIItem.val)) =
      .tuple [.list (items.map fun i => .str i.s), .list (items.map fun i => .str i.lang),
        .list (items.map fun i => .int i.cset)] := by
  simp only [decodedAs, rta_stringI_out]

/-- a STRINGI member / element comes back as the triple of one-element lists -/
theorem rta_decodedArg_stringI (i : SIItem) :
    decodedArg .stringI i.val = .tuple [.list [.str i.s], .list [.str i.lang], .list [.int i.cset]] := by
  show decodedAs .stringI (.tuple ([i].map SIItem.val)) = _
  simp only [decodedAs, rta_stringI_out_tuple]
  rfl

theorem rta_decodedAs_arr (l : ArrLen) (t : Ty) (vs : List PyVal) :
    decodedAs (.arr l t) (.list vs) = .list (vs.map fun x => decodedArg t x) := by
  simp only [decodedAs]

/-! ### STRINGI never returns what was encoded -/

theorem rta_items_shape : ∀ (n : Nat) (bs : Bytes) (ss ls cs : List PyVal) (v : PyVal) (r : Bytes),
    decodeStringIItems n bs ss ls cs = .ok (v, r) →
    ∃ a b c, v = .tuple [.list a, .list b, .list c] ∧ a.length = n + ss.length
  | 0, bs, ss, ls, cs, v, r, h => by
    rw [decodeStringIItems] at h
    cases h
    exact ⟨_, _, _, rfl, by simp⟩
  | n + 1, bs, ss, ls, cs, v, r, h => by
    rw [items_succ] at h
    obtain ⟨l3, r1, _, h⟩ := (bindD_ok ..).1 h
    obtain ⟨tb, r2, _, h⟩ := (bindD_ok ..).1 h
    unfold itemK at h
    split at h
    · cases h
    · obtain ⟨cset, r3, _, h⟩ := (bindD_ok ..).1 h
      obtain ⟨s, r4, _, h⟩ := (bindD_ok ..).1 h
      obtain ⟨a, b, c, hv, hl⟩ := rta_items_shape n _ _ _ _ _ _ h
      exact ⟨a, b, c, hv, by rw [hl]; simp; omega⟩

theorem rta_items_len : ∀ (xs : List PyVal) (d : Bytes), encodeStringIItems xs = .ok d →
    ∀ x ∈ xs, ∃ ys, x.seq? = some ys ∧ ys.length = 4
  | [], _, _, x, hx => by simp at hx
  | y :: ys, d, h, x, hx => by
    simp only [encodeStringIItems, bind, Except.bind] at h
    split at h
    · cases h
    · rename_i a ha
      split at h
      · cases h
      · rename_i r hr
        rcases List.mem_cons.1 hx with rfl | hx
        · unfold encodeStringIItem at ha
          split at ha
          · rename_i s code lang cset hseq
            exact ⟨_, hseq, rfl⟩
          · cases ha
        · exact rta_items_len ys r hr x hx

/-- whatever value STRINGI accepts, decoding the encoding gives a different value: the decoder returns the
    triple of lists, which the encoder does not accept as a list of items -/
theorem rta_stringI_never_id (v : PyVal) (bs r : Bytes) (he : encode .stringI v = .ok bs) :
    decode .stringI bs ≠ .ok (v, r) := by
  intro hd
  simp only [decode, decodeStringI, bind, Except.bind] at hd
  split at hd
  · cases hd
  · rename_i p hp
    obtain ⟨a, b, c, hv, hl⟩ := rta_items_shape _ _ _ _ _ _ _ hd
    subst hv
    simp only [encode, encodeStringI, bind, Except.bind] at he
    split at he
    · cases he
    · rename_i cnt hc
      split at he
      · cases he
      · rename_i d hdd
        have := rta_items_len _ d hdd (.list a) (by simp)
        obtain ⟨ys, hy, hyl⟩ := this
        simp only [PyVal.seq?, Option.some.injEq] at hy
        subst hy
        cases he
        -- the count that was written is 3, so three items were read: `a` has length 3, not 4
        have h3 : packInt .usint (.int ((3 : Nat) : Int)) = .ok cnt := hc
        obtain ⟨hp3, _⟩ := packInt_nat .usint 3 rfl (by simp [IntK.hi, IntK.signed, IntK.size])
        rw [hp3] at h3
        cases h3
        have hcnt : decodeIntNat .usint (leBytes IntK.usint.size 3 ++ d) = .ok (3, d) :=
          decodeIntNat_append .usint 3 d (by simp [IntK.size])
        rw [hcnt] at hp
        cases hp
        simp at hl
        omega

end Pycomm
