/-
  LogixDriver.write of ANY number of requests, the controller side: how the project evolves under a sequence of
  whole-symbol writes (`ldwn_Ev`: names, instance ids, types, dimensions and memory sizes of all symbols stay, only
  memory contents and the write log change), that the address resolver does not see such changes
  (`ldwn_resolve_ev`), and the controller's answers to a list of embedded Write Tag requests each of which either
  writes a whole elementary scalar symbol or is refused by the resolver (`ldwn_run`).
-/
import PycommProofs.LDWriteN3
namespace Pycomm.Lgx.Drv
open Pycomm Pycomm.Tgt Pycomm.Path Pycomm.Reply Pycomm.Encap Pycomm.Lgx Pycomm.Lgx.E2E

/-! ### projects that differ only in memory contents -/

/-- same instance id, name, type word, dimensions and memory size -/
structure ldwn_SameShape (x y : Symbol) : Prop where
  inst : y.inst = x.inst
  name : y.name = x.name
  symbolType : y.symbolType = x.symbolType
  dims : y.dims = x.dims
  len : y.mem.length = x.mem.length

theorem ldwn_SameShape_refl (x : Symbol) : ldwn_SameShape x x := ⟨rfl, rfl, rfl, rfl, rfl⟩

/-- `p` evolved from `p0` by changing memory contents of controller-scope symbols (the same change for equal symbols)
    and the write log: templates, program scopes and the shape of every controller-scope symbol are as in `p0` -/
def ldwn_Ev (p0 p : Project) : Prop :=
  ∃ g : Symbol → Symbol, (∀ x ∈ p0.controller, ldwn_SameShape x (g x)) ∧ p.controller = p0.controller.map g ∧
    p.templates = p0.templates ∧ p.programs = p0.programs

theorem ldwn_Ev_refl (p : Project) : ldwn_Ev p p :=
  ⟨id, fun x _ => ldwn_SameShape_refl x, by simp, rfl, rfl⟩

theorem ldwn_resolveMembers_congr (p p' : Project) (ht : p'.templates = p.templates) :
    ∀ fuel loc segs, resolveMembers p' fuel loc segs = resolveMembers p fuel loc segs := by
  have htm : ∀ tid, p'.template? tid = p.template? tid := by intro tid; unfold Project.template?; rw [ht]
  have hel : ∀ ty, p'.elSize ty = p.elSize ty := by
    intro ty; cases ty <;> simp [Project.elSize, htm]
  intro fuel
  induction fuel with
  | zero => intro loc segs; rfl
  | succ n ih =>
    intro loc segs
    cases segs with
    | nil => rfl
    | cons sg rest =>
      cases sg with
      | symbol nm => simp only [resolveMembers, htm, hel, ih]
      | logical a b => rfl
      | port a b => rfl

/-! ### the address resolver looks at the shape of a symbol only -/

/-- the scope prefix of a tag-service path -/
def ldwn_scopeOf (path : List PSeg) : Option Name × List PSeg :=
  match path with
  | .symbol nm :: rest => if isProgramName nm then (some (nm.map (·.toNat)), rest) else (none, .symbol nm :: rest)
  | other => (none, other)

/-- the base symbol of a tag-service path -/
def ldwn_baseOf (p : Project) (scope : Option Name) (path : List PSeg) : Option (Symbol × List PSeg) :=
  match path with
  | .symbol nm :: rest => (p.findSymbol scope (fun s => s.name.map (fun c => UInt8.ofNat c) == nm)).map (·, rest)
  | .logical 0 0x6B :: .logical 4 i :: rest => (p.findSymbol scope (fun s => s.inst == i)).map (·, rest)
  | _ => none

/-- the rest of `resolve` once the base symbol is found: it uses the symbol's instance id, type word, dimensions
    and whether its memory is empty -/
def ldwn_tailOf (p : Project) (scope : Option Name) (inst symbolType : Nat) (dims : List Nat) (empty : Bool)
    (rest : List PSeg) : Except Nat Loc :=
  if empty then .error 0x05 else
  let ty := elTyOfWord symbolType
  match p.elSize ty with
  | none => .error 0x05
  | some sz =>
      let (idx, rest') := takeIndices rest
      let total := dimsProduct dims
      let start? : Except Nat (Nat × Nat) :=
        if idx = [] then .ok (0, total)
        else match linearIndex dims idx with
          | some li => .ok (li, total - li)
          | none => .error 0xFF
      match start? with
      | .error e => .error e
      | .ok (li, avail) =>
          resolveMembers p (rest'.length + 1) { symInst := inst, scope := scope, offset := li * sz, ty := ty, avail := avail } rest'

theorem ldwn_resolve_eq (p : Project) (path : List PSeg) :
    resolve p path =
      match ldwn_baseOf p (ldwn_scopeOf path).1 (ldwn_scopeOf path).2 with
      | none => .error 0x05
      | some (s, rest) => ldwn_tailOf p (ldwn_scopeOf path).1 s.inst s.symbolType s.dims s.mem.isEmpty rest := by
  rfl

/-- what the resolver uses of the base symbol -/
def ldwn_shp (x : Symbol × List PSeg) : (Nat × Nat × List Nat × Bool) × List PSeg :=
  ((x.1.inst, x.1.symbolType, x.1.dims, x.1.mem.isEmpty), x.2)

def ldwn_fin (p : Project) (scope : Option Name) : Option ((Nat × Nat × List Nat × Bool) × List PSeg) → Except Nat Loc
  | none => .error 0x05
  | some (sh, rest) => ldwn_tailOf p scope sh.1 sh.2.1 sh.2.2.1 sh.2.2.2 rest

theorem ldwn_resolve_eq' (p : Project) (path : List PSeg) :
    resolve p path =
      ldwn_fin p (ldwn_scopeOf path).1 ((ldwn_baseOf p (ldwn_scopeOf path).1 (ldwn_scopeOf path).2).map ldwn_shp) := by
  rw [ldwn_resolve_eq]
  cases ldwn_baseOf p (ldwn_scopeOf path).1 (ldwn_scopeOf path).2 with
  | none => rfl
  | some x => rfl

theorem ldwn_tailOf_congr (p p' : Project) (ht : p'.templates = p.templates) (scope : Option Name)
    (inst symbolType : Nat) (dims : List Nat) (empty : Bool) (rest : List PSeg) :
    ldwn_tailOf p' scope inst symbolType dims empty rest = ldwn_tailOf p scope inst symbolType dims empty rest := by
  have htm : ∀ tid, p'.template? tid = p.template? tid := by intro tid; unfold Project.template?; rw [ht]
  have hel : ∀ ty, p'.elSize ty = p.elSize ty := by
    intro ty; cases ty <;> simp [Project.elSize, htm]
  unfold ldwn_tailOf
  simp only [hel, ldwn_resolveMembers_congr p p' ht]

theorem ldwn_isEmpty_of_len {α} (a b : List α) (h : a.length = b.length) : a.isEmpty = b.isEmpty := by
  cases a <;> cases b <;> simp_all

theorem ldwn_find_congr {α} (l : List α) (p q : α → Bool) (h : ∀ x ∈ l, p x = q x) : l.find? p = l.find? q := by
  induction l with
  | nil => rfl
  | cons a t ih =>
    simp only [List.find?_cons, h a List.mem_cons_self, ih (fun x hx => h x (List.mem_cons_of_mem _ hx))]

theorem ldwn_findSymbol_ev (p0 p : Project) (g : Symbol → Symbol) (hg : ∀ x ∈ p0.controller, ldwn_SameShape x (g x))
    (hc : p.controller = p0.controller.map g) (hp : p.programs = p0.programs) (scope : Option Name)
    (pred : Symbol → Bool) (hpred : ∀ x ∈ p0.controller, pred (g x) = pred x) (rest : List PSeg) :
    ((p.findSymbol scope pred).map (·, rest)).map ldwn_shp = ((p0.findSymbol scope pred).map (·, rest)).map ldwn_shp := by
  cases scope with
  | some prog => simp only [Project.findSymbol, hp]
  | none =>
    simp only [Project.findSymbol, hc, List.find?_map]
    have hcongr : List.find? (pred ∘ g) p0.controller = List.find? pred p0.controller :=
      ldwn_find_congr _ _ _ (fun x hx => hpred x hx)
    rw [hcongr]
    cases hf : List.find? pred p0.controller with
    | none => rfl
    | some x =>
      have hx : x ∈ p0.controller := List.mem_of_find?_eq_some hf
      have hs := hg x hx
      simp only [Option.map_some, ldwn_shp, hs.inst, hs.symbolType, hs.dims, ldwn_isEmpty_of_len _ _ hs.len]

theorem ldwn_baseOf_ev (p0 p : Project) (h : ldwn_Ev p0 p) (scope : Option Name) (path : List PSeg) :
    (ldwn_baseOf p scope path).map ldwn_shp = (ldwn_baseOf p0 scope path).map ldwn_shp := by
  obtain ⟨g, hg, hc, _, hp⟩ := h
  unfold ldwn_baseOf
  split
  · exact ldwn_findSymbol_ev p0 p g hg hc hp scope _ (fun x hx => by rw [(hg x hx).name]) _
  · exact ldwn_findSymbol_ev p0 p g hg hc hp scope _ (fun x hx => by rw [(hg x hx).inst]) _
  · rfl

/-- the address resolver gives the same answer in a project that evolved by whole-symbol writes -/
theorem ldwn_resolve_ev (p0 p : Project) (h : ldwn_Ev p0 p) (path : List PSeg) : resolve p path = resolve p0 path := by
  rw [ldwn_resolve_eq', ldwn_resolve_eq', ldwn_baseOf_ev p0 p h]
  have ht : p.templates = p0.templates := by obtain ⟨g, _, _, ht, _⟩ := h; exact ht
  cases (ldwn_baseOf p0 (ldwn_scopeOf path).1 (ldwn_scopeOf path).2).map ldwn_shp with
  | none => rfl
  | some x => exact ldwn_tailOf_congr p0 p ht _ _ _ _ _ _

/-! ### the controller's answers to the embedded requests -/

/-- what the controller does with one embedded Write Tag request: the whole symbol `s` (elementary type code `c`) is
    written with `bytes`, or the request is refused with status `e` -/
inductive ldwn_Beh where
  | good (s : Symbol) (c : Nat) (bytes : Bytes)
  | refused (e : Nat)

def ldwn_Beh.ans : ldwn_Beh → MRReply
  | .good _ _ _ => {}
  | .refused e => ldx_refusal e

/-- the project after the behaviours, in order -/
def ldwn_apply (p : Project) : List ldwn_Beh → Project
  | [] => p
  | .good s c bytes :: rest => ldwn_apply (written p (ldr_loc s c) 0 bytes) rest
  | .refused _ :: rest => ldwn_apply p rest

/-- the facts, all about the project `p0` before the call, that make the controller behave so on message `msg` -/
def ldwn_BehOk (p0 : Project) (useIds : Bool) (msg : Bytes) : ldwn_Beh → Prop
  | .good s c bytes =>
      ∃ path sz, msg = Cl.writeMsg path (le 2 c) 1 bytes ∧ Denotes path (ldr_segs s.name s.inst useIds) ∧
        resolve p0 (ldr_segs s.name s.inst useIds) = .ok (ldr_loc s c) ∧ s ∈ p0.controller ∧
        (∀ x ∈ p0.controller, x.inst = s.inst → x = s) ∧ atomicSize c = some sz ∧ s.mem.length = sz ∧
        bytes.length = sz ∧ 0 < sz
  | .refused e =>
      ∃ path segs data, msg = [0x4D] ++ path ++ data ∧ Denotes path segs ∧ resolve p0 segs = .error e ∧
        ldx_TagPath segs ∧ e ≠ 0 ∧ e < 256

theorem ldwn_Beh_ans_ok (p0 : Project) (useIds : Bool) (msg : Bytes) (b : ldwn_Beh) (h : ldwn_BehOk p0 useIds msg b) :
    ldwn_Ans b.ans := by
  cases b with
  | good s c bytes => exact Or.inl rfl
  | refused e =>
    obtain ⟨_, _, _, _, _, _, _, he0, he8⟩ := h
    refine Or.inr ⟨he0, he8, ?_, rfl⟩
    simp only [ldwn_Beh.ans, ldx_refusal]
    split <;> simp

/-- a whole-symbol write keeps the evolution invariant -/
theorem ldwn_Ev_written (p0 p : Project) (h : ldwn_Ev p0 p) (s : Symbol) (c : Nat) (bytes : Bytes)
    (huniqI : ∀ x ∈ p0.controller, x.inst = s.inst → x = s) (hlen : bytes.length = s.mem.length) :
    ldwn_Ev p0 (written p (ldr_loc s c) 0 bytes) := by
  obtain ⟨g, hg, hc, ht, hp⟩ := h
  refine ⟨fun x => if (g x).inst == s.inst then { g x with mem := splice (g x).mem 0 bytes } else g x, ?_, ?_, ht, hp⟩
  · intro x hx
    have hs := hg x hx
    by_cases hi : ((g x).inst == s.inst) = true
    · have hxi : x.inst = s.inst := by rw [← hs.inst]; simpa using hi
      have hxs : x = s := huniqI x hx hxi
      simp only [hi, if_true]
      refine ⟨hs.inst, hs.name, hs.symbolType, hs.dims, ?_⟩
      show (splice (g x).mem 0 bytes).length = x.mem.length
      rw [(splice_frame (g x).mem bytes 0 (by rw [hs.len, hxs]; omega)).1, hs.len]
    · simp only [hi]
      exact hs
  · show (p.controller.map fun x => if x.inst == s.inst then { x with mem := splice x.mem 0 bytes } else x) = _
    rw [hc, List.map_map]
    rfl

theorem ldwn_symbolOf_ev (p0 p : Project) (h : ldwn_Ev p0 p) (s : Symbol) (c : Nat) (hs : s ∈ p0.controller)
    (huniqI : ∀ x ∈ p0.controller, x.inst = s.inst → x = s) :
    ∃ s', p.symbolOf (ldr_loc s c) = some s' ∧ s'.mem.length = s.mem.length := by
  obtain ⟨g, hg, hc, _, _⟩ := h
  refine ⟨g s, ?_, (hg s hs).len⟩
  show p.controller.find? (fun x => x.inst == s.inst) = some (g s)
  rw [hc, List.find?_map]
  have hcongr : List.find? ((fun x => x.inst == s.inst) ∘ g) p0.controller = List.find? (fun x => x.inst == s.inst) p0.controller :=
    ldwn_find_congr _ _ _ (fun x hx => by simp only [Function.comp, (hg x hx).inst])
  rw [hcongr, ldr_find_inst p0 s hs huniqI]
  rfl

/-- message by message -/
def ldwn_AllOk (p0 : Project) (useIds : Bool) : List Bytes → List ldwn_Beh → Prop
  | [], [] => True
  | m :: ms, b :: bs => ldwn_BehOk p0 useIds m b ∧ ldwn_AllOk p0 useIds ms bs
  | _, _ => False

/-- (d) the controller's answers to a list of embedded Write Tag requests each of which writes a whole elementary
    scalar symbol or is refused by the address resolver — judged on the project before the call —, executed one
    after the other: every good request is applied (exactly once, in order), every refused one leaves the state as it
    is and is answered with its status -/
theorem ldwn_run (p0 : Project) (useIds : Bool) (cap : Nat) (msgs : List Bytes) (behs : List ldwn_Beh)
    (h : ldwn_AllOk p0 useIds msgs behs) :
    ∀ st : LState, ldwn_Ev p0 st.proj →
      ldwn_exch cap st msgs = ({ st with proj := ldwn_apply st.proj behs }, behs.map (·.ans)) ∧
      ldwn_Ev p0 (ldwn_apply st.proj behs) := by
  induction msgs generalizing behs with
  | nil =>
    cases behs with
    | nil => intro st hev; exact ⟨rfl, hev⟩
    | cons b bs => exact absurd h (by simp [ldwn_AllOk])
  | cons msg msgs' ih =>
    cases behs with
    | nil => exact absurd h (by simp [ldwn_AllOk])
    | cons b behs' =>
    obtain ⟨hb, hrest⟩ := h
    have ih := ih behs' hrest
    intro st hev
    cases b with
    | good s c bytes =>
      obtain ⟨path, sz, rfl, hden, hres, hs, huniqI, hsz, hlen, hbl, hpos⟩ := hb
      obtain ⟨s', hsym, hlen'⟩ := ldwn_symbolOf_ev p0 st.proj hev s c hs huniqI
      have hr : resolve st.proj (ldr_segs s.name s.inst useIds) = .ok (ldr_loc s c) := by
        rw [ldwn_resolve_ev p0 st.proj hev, hres]
      have hav := ldr_dimsProduct_pos s.dims
      have hex := write_e2e st cap path _ (ldr_loc s c) 1 sz bytes s' hden hr (by intro b; simp [ldr_loc])
        ⟨Nat.le_refl 1, hav, by omega⟩ hsym hsz (by omega) (by simp only [ldr_loc]; omega)
      have htb : typeBytes st.proj (ldr_loc s c).ty = le 2 c := rfl
      rw [htb, show (ldr_loc s c).offset = 0 from rfl] at hex
      have hev' := ldwn_Ev_written p0 st.proj hev s c bytes huniqI (by omega)
      obtain ⟨h1, h2⟩ := ih { st with proj := written st.proj (ldr_loc s c) 0 bytes } hev'
      refine ⟨?_, h2⟩
      rw [ldwn_exch, hex]
      simp only
      rw [h1]
      rfl
    | refused e =>
      obtain ⟨path, segs, data, rfl, hden, hres, htp, _, _⟩ := hb
      have hr : resolve st.proj segs = .error e := by rw [ldwn_resolve_ev p0 st.proj hev, hres]
      have hex := ldx_exchange_refused st cap 0x4D path data segs e hden hr (Or.inr (Or.inr (Or.inl rfl))) htp
      obtain ⟨h1, h2⟩ := ih st hev
      refine ⟨?_, h2⟩
      rw [ldwn_exch, hex]
      simp only
      rw [h1]
      rfl

end Pycomm.Lgx.Drv
