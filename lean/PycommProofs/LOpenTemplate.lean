/-
  LogixDriver.open(), template upload: `_read_template` through the whole stack against the controller's fragmented
  Read service of the template object, for every fragment schedule.
-/
import PycommProofs.LOpenSymbols
import PycommProofs.LogixDriverRead
namespace Pycomm.Lgx.Opn
open Pycomm Pycomm.Tgt Pycomm.Path Pycomm.Reply Pycomm.Encap Pycomm.Lgx Pycomm.EP Pycomm.Lgx.E2E Pycomm.Lgx.Drv

/-! ### the controller's side -/

/-- the stored definition is `object_definition_size * 4 - 23` bytes long -/
theorem lo_templateData_length (t : Template) : (templateData t).length = t.defWords * 4 - 23 := by
  unfold templateData Template.defWords
  simp only [List.length_append, List.length_replicate]
  omega

theorem lo_templateData_pos (t : Template) : 0 < (templateData t).length := by
  rw [lo_templateData_length]
  unfold Template.defWords
  omega

/-- the bytes of one fragment: what the controller's Read service of the template object takes from offset `off`
    with capacity `cap` at schedule index `ctr` -/
def lo_fragLen (t : Template) (sched : List Nat) (ctr cap off : Nat) : Nat :=
  min ((templateData t).length - off) (min cap (cyc sched ctr 1000000))

theorem lo_cyc_pos (sched : List Nat) (i d : Nat) (hd : 1 ≤ d) : 1 ≤ cyc sched i d := by
  unfold cyc
  split
  · exact hd
  · exact Nat.le_max_left _ _

/-- the Read service of the template object on the client's request (offset, `words * 4 - 21 - offset` bytes wanted):
    a fragment of `lo_fragLen` bytes of the stored definition from that offset, status 6 unless it reaches the end -/
theorem lo_templateRead (st : LState) (t : Template) (off cap : Nat) (hoff : off < (templateData t).length)
    (hwords : t.defWords * 4 - 21 < 65536) :
    templateRead st t (le 4 off ++ le 2 (t.defWords * 4 - 21 - off)) cap =
      ({ st with ctr := st.ctr + 1 },
       { status := if lo_fragLen t st.proj.tmplSchedule st.ctr cap off < (templateData t).length - off then 6 else 0,
         data := ((templateData t).drop off).take (lo_fragLen t st.proj.tmplSchedule st.ctr cap off) }) := by
  have hlen := lo_templateData_length t
  have h1 : leAt (le 4 off ++ le 2 (t.defWords * 4 - 21 - off)) 0 4 = off :=
    leAt_head 4 off _ (by omega)
  have h2 : leAt (le 4 off ++ le 2 (t.defWords * 4 - 21 - off)) 4 2 = t.defWords * 4 - 21 - off := by
    have := leAt_second 4 off 2 (t.defWords * 4 - 21 - off) [] (by omega)
    rwa [List.append_nil] at this
  have hl : (le 4 off ++ le 2 (t.defWords * 4 - 21 - off)).length = 6 := by simp [le, RT.leBytes_length]
  unfold templateRead
  rw [if_neg (by rw [hl]; simp)]
  simp only [h1, h2]
  have hfull : t.defBytes ++ List.replicate (t.defWords * 4 - 23 - t.defBytes.length) 0 = templateData t := rfl
  rw [hfull, if_neg (by omega)]
  have hmin : min ((templateData t).length - off) (t.defWords * 4 - 21 - off) = (templateData t).length - off := by
    rw [hlen]; omega
  simp only [hmin, lo_fragLen]
  rfl

/-! ### the client's side -/

/-- the request path of the template object -/
theorem lo_templatePath (tid : Nat) (hs : tid < 2 ^ 32) :
    ∃ path, requestPath (.bytes [0x6c]) (.int tid) (.bytes []) = .ok path ∧ path.length ≤ 13 ∧
      Denotes path [PSeg.logical 0 0x6C, PSeg.logical 4 tid] := by
  have hc0 : lookupName (Path.nm "class_id") Gen.logicalTypes = some 0 := by decide
  have hi4 : lookupName (Path.nm "instance_id") Gen.logicalTypes = some 4 := by decide
  have h := EncAll.cons (enc1_logical_byte _ _ hc0 0x6c) (EncAll.cons (enc1_logical _ _ hi4 tid hs) EncAll.nil)
  have e : (0x6c : UInt8).toNat = 0x6C := by decide
  rw [e] at h
  obtain ⟨bs, hb, hp⟩ := h.request (by omega)
  refine ⟨bs, ?_, Drv.ldr_encEpath_len h hb, hp⟩
  unfold requestPath
  simp only [LVal.truthy, List.isEmpty_nil, Bool.not_true, Bool.false_eq_true, if_false]
  exact hb

/-- the Logix services route a Read (0x4C) of the template object to `templateRead` -/
theorem lo_logixService_templateRead (st : LState) (t : Template) (tid : Nat) (d : Bytes) (cap : Nat)
    (ht : st.proj.template? tid = some t) :
    logixService st { service := 0x4C, path := [PSeg.logical 0 0x6C, PSeg.logical 4 tid], data := d } (some cap) =
      some (templateRead st t d (cap - 4)) := by
  simp [logixService, single, ht]

/-- `generic_message(service=0x4C, class 0x6C, instance tid, connected, return_response_packet)` on a healthy
    connection: one frame, the framed answer of the template Read service, parsed by the response class -/
theorem lo_rawTemplateRead (w : Cli.World Ext) (sess : Nat) (cidb : Bytes) (conn : Conn) (st st' : LState)
    (t : Template) (tid : Nat) (d : Bytes) (status : Nat) (data : Bytes)
    (hw : ldr_Healthy w sess cidb conn) (hlogix : w.net.target.ext.logix = some st)
    (ht : st.proj.template? tid = some t) (htid : tid < 2 ^ 32) (hd : d.length = 6) (hsize : 22 ≤ conn.size)
    (hst : status < 256)
    (hls : templateRead st t d (conn.size - 2 - 4) = (st', { status := status, ext := [], data := data })) :
    ∃ w' raw, genericConnectedRaw hookAll w 0x4C (.bytes [0x6c]) (.int tid) d = (w', .ok (some raw)) ∧
      (parseCip (some raw) .connected).serviceStatus = some status ∧
      (parseCip (some raw) .connected).data = some data ∧
      ldr_Healthy w' sess cidb { conn with lastSeq := some w.drv.nextSeq.1 } ∧ w'.drv = w.drv.nextSeq.2 ∧
      (∃ frm, w'.net.sent = w.net.sent ++ [frm]) ∧
      w'.net.target.ext = { w.net.target.ext with logix := some st' } := by
  obtain ⟨path, hpath, hpl, hden⟩ := lo_templatePath tid htid
  have hfo : Cli.ensureForwardOpen hookAll Cli.FUEL w = (w, .ok ()) := ldr_ensureFO_connected hookAll 7 w hw.connected
  have hw1 : ldr_Healthy ({ w with drv := w.drv.nextSeq.2 } : Cli.World Ext) sess cidb conn :=
    ldr_Healthy_seq hw _ (by rw [(Cli.lcs_nextSeq w.drv).2])
  have hpm : parseMR ([UInt8.ofNat 0x4C] ++ path ++ d) =
      some { service := 0x4C, path := [PSeg.logical 0 0x6C, PSeg.logical 4 tid], data := d } :=
    parseMR_msg (UInt8.ofNat 0x4C) path d _ hden
  have hls' : logixService st { service := 0x4C, path := [PSeg.logical 0 0x6C, PSeg.logical 4 tid], data := d }
      (some (conn.size - 2)) = some (st', { status := status, ext := [], data := data }) := by
    rw [lo_logixService_templateRead st t tid d _ ht, hls]
  have hlp : ldr2_LogixPath [PSeg.logical 0 0x6C, PSeg.logical 4 tid] :=
    Or.inr ⟨0x6C, tid, [], rfl, by decide, by decide, by decide, by decide, by decide⟩
  have hml : ([UInt8.ofNat 0x4C] ++ path ++ d).length = path.length + 7 := by
    simp [hd]
  obtain ⟨w', frm, hsend, hdrv, hsent, hext, hh⟩ := ldr2_sendUnit_logix ({ w with drv := w.drv.nextSeq.2 } : Cli.World Ext)
    sess cidb conn st w.drv.nextSeq.1 ([UInt8.ofNat 0x4C] ++ path ++ d) _ _ hw1 hlogix hpm hlp hls' (ldr_nextSeq_lt w.drv)
    (by omega) (by omega)
  obtain ⟨cmd, svc', _, hp⟩ := lo_parseCip_reply 0x4C status sess conn.toId w.drv.nextSeq.1
    w.drv.nextSeq.2.context data hw1.ctx8 hst
  obtain ⟨err, herr⟩ := lo_errorCip_ok 0x4C status sess conn.toId w.drv.nextSeq.1 w.drv.nextSeq.2.context data hw1.ctx8
    (parseCip (some (frame CMD_SEND_UNIT sess 0 w.drv.nextSeq.2.context (cpfReplyConnected conn.toId w.drv.nextSeq.1
        (encMRReply 0x4C { status := status, ext := [], data := data })))) .connected)
    (validCip .connected (parseCip (some (frame CMD_SEND_UNIT sess 0 w.drv.nextSeq.2.context (cpfReplyConnected conn.toId w.drv.nextSeq.1
        (encMRReply 0x4C { status := status, ext := [], data := data })))) .connected))
  refine ⟨w', frame CMD_SEND_UNIT sess 0 w.drv.nextSeq.2.context (cpfReplyConnected conn.toId w.drv.nextSeq.1
        (encMRReply 0x4C { status := status, ext := [], data := data })), ?_, ?_, ?_, hh, hdrv, ⟨frm, hsent⟩, hext⟩
  · unfold Drv.sendUnit at hsend
    dsimp only at hsend
    unfold genericConnectedRaw
    rw [hfo]
    dsimp only
    rw [hpath]
    dsimp only
    rw [hsend]
    dsimp only
    rw [herr]
  · rw [hp]
  · rw [hp]

/-- one round of `_read_template` at offset `off` (inside the stored definition) -/
theorem lo_readTemplate_step (w : Cli.World Ext) (sess : Nat) (cidb : Bytes) (conn : Conn) (st : LState)
    (t : Template) (tid fuel off : Nat) (acc : Bytes)
    (hw : ldr_Healthy w sess cidb conn) (hlogix : w.net.target.ext.logix = some st)
    (ht : st.proj.template? tid = some t) (htid : tid < 2 ^ 32) (hsize : 22 ≤ conn.size)
    (hwords : t.defWords * 4 - 21 < 65536) (hoff : off < (templateData t).length) :
    ∃ w', ldr_Healthy w' sess cidb { conn with lastSeq := some w.drv.nextSeq.1 } ∧ w'.drv = w.drv.nextSeq.2 ∧
      (∃ frm, w'.net.sent = w.net.sent ++ [frm]) ∧
      w'.net.target.ext = { w.net.target.ext with logix := some { st with ctr := st.ctr + 1 } } ∧
      readTemplate hookAll tid t.defWords (fuel + 1) w off acc =
        if lo_fragLen t st.proj.tmplSchedule st.ctr (conn.size - 2 - 4) off < (templateData t).length - off then
          readTemplate hookAll tid t.defWords fuel w'
            (off + lo_fragLen t st.proj.tmplSchedule st.ctr (conn.size - 2 - 4) off)
            (acc ++ ((templateData t).drop off).take (lo_fragLen t st.proj.tmplSchedule st.ctr (conn.size - 2 - 4) off))
        else (w', .ok (acc ++ (templateData t).drop off)) := by
  have hlen := lo_templateData_length t
  have hls := lo_templateRead st t off (conn.size - 2 - 4) hoff hwords
  generalize hn : lo_fragLen t st.proj.tmplSchedule st.ctr (conn.size - 2 - 4) off = n at hls
  have hnle : n ≤ (templateData t).length - off := by
    rw [← hn]; unfold lo_fragLen; exact Nat.min_le_left _ _
  have hd6 : (le 4 off ++ le 2 (t.defWords * 4 - 21 - off)).length = 6 := by simp [le, RT.leBytes_length]
  obtain ⟨w', raw, hraw, hstatus, hdata, hh, hdrv, hsent, hext⟩ := lo_rawTemplateRead w sess cidb conn st _ t tid _ _ _
    hw hlogix ht htid hd6 hsize (by split <;> decide) hls
  refine ⟨w', hh, hdrv, hsent, hext, ?_⟩
  have hp1 : packInt .dint (.int (off : Nat)) = .ok (le 4 off) := by
    have := RT.packInt_int .dint (off : Nat) (by simp [IntK.lo, IntK.signed, IntK.size])
      (by simp [IntK.hi, IntK.signed, IntK.size]; omega)
    rw [this]
    simp [ofSigned, IntK.size, le]
  have hwant : ((t.defWords * 4 : Nat) : Int) - 21 - (off : Nat) = ((t.defWords * 4 - 21 - off : Nat) : Int) := by omega
  have hp2 : packInt .uint (.int (((t.defWords * 4 : Nat) : Int) - 21 - (off : Nat))) = .ok (le 2 (t.defWords * 4 - 21 - off)) := by
    rw [hwant]
    exact (RT.packInt_nat .uint _ rfl (by simp [IntK.hi, IntK.signed, IntK.size]; omega)).1
  rw [readTemplate, hp1, hp2]
  dsimp only
  rw [hraw]
  dsimp only
  rw [hstatus, hdata]
  dsimp only
  have hdl : (((templateData t).drop off).take n).length = n := by
    rw [List.length_take, List.length_drop]; omega
  by_cases hlt : n < (templateData t).length - off
  · simp only [hlt, if_true, Gen.SUCCESS, Gen.INSUFFICIENT_PACKETS, hdl]
    rw [if_neg (by decide)]
  · have hneq : n = (templateData t).length - off := by omega
    simp only [hlt, if_false, Gen.SUCCESS, if_true]
    rw [hneq, List.take_of_length_le (by rw [List.length_drop]; omega)]

/-- the fragment loop from offset `off` on: for every fragment schedule it appends exactly the rest of the stored
    definition; the world stays healthy, only the schedule counter of the controller and the sequence counter of
    the driver advance -/
theorem lo_readTemplate_from (sess : Nat) (cidb : Bytes) (t : Template) (tid : Nat) :
    ∀ (fuel : Nat) (w : Cli.World Ext) (conn : Conn) (st : LState) (off : Nat) (acc : Bytes),
    ldr_Healthy w sess cidb conn → w.net.target.ext.logix = some st →
    st.proj.template? tid = some t → tid < 2 ^ 32 → 22 ≤ conn.size → t.defWords * 4 - 21 < 65536 →
    off < (templateData t).length → (templateData t).length - off ≤ fuel →
    ∃ w' conn' k, readTemplate hookAll tid t.defWords fuel w off acc = (w', .ok (acc ++ (templateData t).drop off)) ∧
      ldr_Healthy w' sess cidb conn' ∧ conn'.size = conn.size ∧ lo_SameDrv w.drv w'.drv ∧
      (∃ frms, w'.net.sent = w.net.sent ++ frms) ∧
      w'.net.target.ext = { w.net.target.ext with logix := some { st with ctr := st.ctr + k } } := by
  intro fuel
  induction fuel with
  | zero => intro w conn st off acc _ _ _ _ _ _ ho hf; omega
  | succ fuel ih =>
    intro w conn st off acc hw hlogix ht htid hsize hwords hoff hf
    obtain ⟨w1, hh1, hd1, ⟨frm, hsent1⟩, hext1, hstep⟩ :=
      lo_readTemplate_step w sess cidb conn st t tid fuel off acc hw hlogix ht htid hsize hwords hoff
    rw [hstep]
    generalize hn : lo_fragLen t st.proj.tmplSchedule st.ctr (conn.size - 2 - 4) off = n
    have hnpos : 1 ≤ n := by
      rw [← hn]; unfold lo_fragLen
      have := lo_cyc_pos st.proj.tmplSchedule st.ctr 1000000 (by omega)
      omega
    by_cases hlt : n < (templateData t).length - off
    · rw [if_pos hlt]
      have hlogix1 : w1.net.target.ext.logix = some { st with ctr := st.ctr + 1 } := by rw [hext1]
      obtain ⟨w', conn', k, hres, hh', hcs, hsd, ⟨frms, hsent'⟩, hext'⟩ :=
        ih w1 { conn with lastSeq := some w.drv.nextSeq.1 } { st with ctr := st.ctr + 1 } (off + n)
          (acc ++ ((templateData t).drop off).take n) hh1 hlogix1 ht htid hsize hwords (by omega) (by omega)
      refine ⟨w', conn', 1 + k, ?_, hh', hcs, ?_, ⟨frm :: frms, ?_⟩, ?_⟩
      · rw [hres, List.append_assoc]
        congr 2
        rw [← List.drop_drop, List.take_append_drop]
      · exact lo_SameDrv.trans (by rw [hd1]; exact lo_SameDrv.nextSeq w.drv) hsd
      · rw [hsent', hsent1, List.append_assoc]; rfl
      · rw [hext', hext1]
        simp only [Nat.add_assoc]
    · rw [if_neg hlt]
      refine ⟨w1, _, 1, rfl, hh1, rfl, ?_, ⟨[frm], hsent1⟩, hext1⟩
      rw [hd1]; exact lo_SameDrv.nextSeq w.drv

end Pycomm.Lgx.Opn
