/-
  Proofs for C15 (connection-path strings parse to the documented route).
-/
import PycommModel.PathStr
namespace Pycomm.Path

/-- spec side: one hop of a route = CIP port number (1..14) and link (slot number or IPv4 text) -/
inductive Link where
  | slot (n : Nat)
  | ip (s : Name)

structure Hop where
  port : Nat
  link : Link

/-- CIP Vol 1 C-1.3 port segment: port byte, link byte; or extended: port|0x10, length, text, pad -/
def refHop (h : Hop) : Bytes :=
  match h.link with
  | .slot n => [UInt8.ofNat h.port, UInt8.ofNat n]
  | .ip s =>
      let body := [UInt8.ofNat (h.port + 16), UInt8.ofNat s.length] ++ s.map UInt8.ofNat
      if body.length % 2 == 1 then body ++ [0] else body

def refRoute (hops : List Hop) : Bytes :=
  let body := (hops.map refHop).flatten
  UInt8.ofNat (body.length / 2) :: body

/-- spec-side decimal rendering -/
def decRev' (n : Nat) : List Nat :=
  if h : n < 10 then [48 + n] else (48 + n % 10) :: decRev' (n / 10)
termination_by n
decreasing_by omega
def decStr (n : Nat) : Name := (decRev' n).reverse

/-- a spelling of a hop: the port as decimal number or as one of its aliases, the link as text -/
def PortSpelling (h : Hop) (p : Name) : Prop :=
  p = decStr h.port ∨ lookupName p Gen.portSegments = some h.port

def linkText (l : Link) : Name :=
  match l with
  | .slot n => decStr n
  | .ip s => s

def WfHop (h : Hop) : Prop :=
  1 ≤ h.port ∧ h.port ≤ 14 ∧
  match h.link with
  | .slot n => n ≤ 255
  | .ip s => (∃ o, parseIPv4 s = some o) ∧ 1 < s.length ∧ s.length ≤ 255 ∧ (∀ c ∈ s, c < 128)

/-- segments list spelled for the hops -/
def Spells : List Hop → List Name → Prop
  | [], [] => True
  | h :: hs, p :: l :: rest => PortSpelling h p ∧ l = linkText h.link ∧ Spells hs rest
  | _, _ => False

-- PROPERTY THEOREMS

/-- every spelling (alias or number per port) of a well-formed route yields segments whose encoding is
    the CIP route of the hops: in particular all spellings give identical route bytes -/
theorem route_of_spelling (hops : List Hop) (segs : List Name) (hw : ∀ h ∈ hops, WfHop h)
    (hs : Spells hops segs) (hn : hops.length ≤ 60) :
    ∃ route, parseCipRouteList segs false = .ok route ∧ encEpath true route true false = .ok (refRoute hops) := by
  sorry

/-- the shortcuts of the Logix/SLC drivers: bare address = backplane slot 0, address/slot = backplane slot -/
theorem shortcut_bare : parseCipRouteList [] true = .ok [Seg.port (.name (nm "bp")) (.int 0)] ∧
    encEpath true [Seg.port (.name (nm "bp")) (.int 0)] true false = .ok (refRoute [⟨1, .slot 0⟩]) := by
  sorry

theorem shortcut_slot (n : Nat) (hn : n ≤ 255) :
    parseCipRouteList [decStr n] true = .ok [Seg.port (.name (nm "bp")) (.str (decStr n))] ∧
    encEpath true [Seg.port (.name (nm "bp")) (.str (decStr n))] true false = .ok (refRoute [⟨1, .slot n⟩]) := by
  sorry

/-- an odd number of route segments is rejected with RequestError (whatever the segments are) -/
theorem odd_segments_rejected (segs : List Name) (auto : Bool) (h : segs.length % 2 = 1)
    (h1 : segs.length ≠ 1 ∨ auto = false) : parseCipRouteList segs auto = .error .request := by
  sorry

/-- an unknown port name makes the route unencodable (DataError), wherever it occurs in the route -/
theorem unknown_port_rejected (pre post : List Seg) (p : Name) (l : LinkVal)
    (hp : lookupName p Gen.portSegments = none) (length padLen : Bool) :
    encEpath true (pre ++ Seg.port (.name p) l :: post) length padLen = .error .data := by
  sorry

/-- a link that is neither a number 0..255 nor an IPv4 address makes the route unencodable -/
theorem bad_link_rejected (pre post : List Seg) (p : PortVal) (s : Name)
    (hs : (PyStr.isDigit s = true ∧ 255 < PyStr.decVal s) ∨ (PyStr.isDigit s = false ∧ parseIPv4 s = none))
    (length padLen : Bool) :
    encEpath true (pre ++ Seg.port p (.str s) :: post) length padLen = .error .data := by
  sorry

/-- an invalid TCP port (not a number, 0, or ≥ 65535) is rejected with RequestError whatever follows -/
theorem bad_tcp_port_rejected (host pt : Name) (route : List Name) (auto : Bool)
    (hh : 58 ∉ host ∧ 47 ∉ host ∧ 92 ∉ host ∧ 44 ∉ host)
    (hpt : 58 ∉ pt ∧ 47 ∉ pt ∧ 92 ∉ pt ∧ 44 ∉ pt)
    (hr : ∀ r ∈ route, 47 ∉ r ∧ 92 ∉ r ∧ 44 ∉ r)
    (hbad : PyStr.pyInt pt = none ∨ ∃ v, PyStr.pyInt pt = some v ∧ (v ≤ 0 ∨ 65535 ≤ v))
    (seps : List Nat) (hseps : ∀ c ∈ seps, c = 47 ∨ c = 92 ∨ c = 44) (hlen : seps.length = route.length) :
    parseConnectionPath
      (host ++ [58] ++ pt ++ ((seps.zip route).map fun p => p.1 :: p.2).flatten) auto = .error .request := by
  sorry

/-- the three separators are interchangeable: a path string whose pieces are joined by any mix of
    '/', '\' and ',' is split into exactly those pieces -/
theorem separators_interchangeable (host : Name) (route : List Name) (auto : Bool)
    (hh : 58 ∉ host ∧ 47 ∉ host ∧ 92 ∉ host ∧ 44 ∉ host)
    (hr : ∀ r ∈ route, 47 ∉ r ∧ 92 ∉ r ∧ 44 ∉ r)
    (seps : List Nat) (hseps : ∀ c ∈ seps, c = 47 ∨ c = 92 ∨ c = 44) (hlen : seps.length = route.length) :
    parseConnectionPath (host ++ ((seps.zip route).map fun p => p.1 :: p.2).flatten) auto =
      (match parseCipRouteList route auto with
       | .ok segs => .ok (host, none, segs)
       | .error e => .error e) := by
  sorry

end Pycomm.Path
