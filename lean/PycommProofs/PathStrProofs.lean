/-
  Proofs for C15 (connection-path strings parse to the documented route).
-/
import PycommModel.PathStr
namespace Pycomm.Path

/-- spec side: one hop of a route = CIP port number (1..14) and link (slot number or IPv4 text) -/
inductive Link where
  | slot (n : Nat)
  | ip (s : Name)

structure Hop where
  port : Nat
  link : Link

/-- CIP Vol 1 C-1.3 port segment: port byte, link byte; or extended: port|0x10, length, text, pad -/
def refHop (h : Hop) : Bytes :=
  match h.link with
  | .slot n => [UInt8.ofNat h.port, UInt8.ofNat n]
  | .ip s =>
      let body := [UInt8.ofNat (h.port + 16), UInt8.ofNat s.length] ++ s.map UInt8.ofNat
      if body.length % 2 == 1 then body ++ [0] else body

def refRoute (hops : List Hop) : Bytes :=
  let body := (hops.map refHop).flatten
  UInt8.ofNat (body.length / 2) :: body

/-- spec-side decimal rendering -/
def decRev' (n : Nat) : List Nat :=
  if h : n < 10 then [48 + n] else (48 + n % 10) :: decRev' (n / 10)
termination_by n
decreasing_by omega
def decStr (n : Nat) : Name := (decRev' n).reverse

/-- a spelling of a hop: the port as decimal number or as one of its aliases, the link as text -/
def PortSpelling (h : Hop) (p : Name) : Prop :=
  p = decStr h.port ∨ lookupName p Gen.portSegments = some h.port

def linkText (l : Link) : Name :=
  match l with
  | .slot n => decStr n
  | .ip s => s

def WfHop (h : Hop) : Prop :=
  1 ≤ h.port ∧ h.port ≤ 14 ∧
  match h.link with
  | .slot n => n ≤ 255
  | .ip s => (∃ o, parseIPv4 s = some o) ∧ 1 < s.length ∧ s.length ≤ 255 ∧ (∀ c ∈ s, c < 128)

/-- segments list spelled for the hops -/
def Spells : List Hop → List Name → Prop
  | [], [] => True
  | h :: hs, p :: l :: rest => PortSpelling h p ∧ l = linkText h.link ∧ Spells hs rest
  | _, _ => False


/-! ### helper lemmas -/
open PyStr

theorem usint_ok (n : Nat) (h : n ≤ 255) : usint (n : Int) = .ok [UInt8.ofNat n] := by
  have h1 : (0:Int) ≤ (n:Int) := Int.natCast_nonneg n
  have h2 : (n:Int) ≤ 255 := by omega
  simp [usint, packInt, PyVal.asIndex, IntK.lo, IntK.hi, IntK.signed, IntK.size, leBytes, ofSigned, h1, h2]
  have : n % 256 = n := by omega
  rw [this]

theorem usint_err (n : Nat) (h : 255 < n) : usint (n : Int) = .error .data := by
  have h2 : ¬ (n:Int) ≤ 255 := by omega
  simp [usint, packInt, PyVal.asIndex, IntK.lo, IntK.hi, IntK.signed, IntK.size, h2]

theorem nm_bp : nm "bp" = [98, 112] := by decide
theorem lookup_bp : lookupName (nm "bp") Gen.portSegments = some 1 := by decide

theorem decRev'_digit (n : Nat) : ∀ c ∈ decRev' n, isDigitC c = true := by
  induction n using Nat.strongRecOn with
  | _ n ih =>
    intro c hc
    rw [decRev'] at hc
    split at hc
    · simp at hc; subst hc; simp [isDigitC]; omega
    · simp at hc
      rcases hc with hc | hc
      · subst hc; simp [isDigitC]; omega
      · exact ih (n / 10) (by omega) c hc

theorem decRev'_ne (n : Nat) : decRev' n ≠ [] := by
  rw [decRev']; split <;> simp

theorem decVal_rev (xs : List Nat) :
    decVal xs.reverse = xs.foldr (fun c a => a * 10 + (c - 48)) 0 := by
  simp [decVal, List.foldl_reverse]

theorem decRev'_val (n : Nat) : (decRev' n).foldr (fun c a => a * 10 + (c - 48)) 0 = n := by
  induction n using Nat.strongRecOn with
  | _ n ih =>
    rw [decRev']
    split
    · simp
    · simp [ih (n / 10) (by omega)]; omega

theorem decStr_digits (n : Nat) : ∀ c ∈ decStr n, isDigitC c = true := by
  intro c hc
  exact decRev'_digit n c (by simpa [decStr] using hc)

theorem decStr_ne (n : Nat) : decStr n ≠ [] := by
  simp [decStr, decRev'_ne]

theorem decStr_isDigit (n : Nat) : isDigit (decStr n) = true := by
  have h1 := decStr_ne n
  have h2 := decStr_digits n
  simp [isDigit, List.all_eq_true]
  exact ⟨h1, h2⟩

theorem decStr_val (n : Nat) : decVal (decStr n) = n := by
  rw [decStr, decVal_rev, decRev'_val]

/-- an error in one segment makes the whole segment list fail -/
theorem encSegs_err (padded : Bool) (pre post : List Seg) (s : Seg) (e : Exn)
    (h : encSeg padded s = .error e) : ∃ e', encSegs padded (pre ++ s :: post) = .error e' := by
  induction pre with
  | nil => exact ⟨e, by simp [encSegs, h, bind, Except.bind]⟩
  | cons a pre ih =>
    obtain ⟨e', he'⟩ := ih
    cases ha : encSeg padded a with
    | error e2 => exact ⟨e2, by simp [encSegs, ha, bind, Except.bind]⟩
    | ok v => exact ⟨e', by simp [encSegs, ha, he', bind, Except.bind]⟩

theorem encEpath_err (padded : Bool) (pre post : List Seg) (s : Seg) (e : Exn)
    (h : encSeg padded s = .error e) (length padLen : Bool) :
    encEpath padded (pre ++ s :: post) length padLen = .error .data := by
  obtain ⟨e', he'⟩ := encSegs_err padded pre post s e h
  simp [encEpath, he']


/-- the link encoding alone decides failure: a bad link text fails for every port value -/
theorem encPort_bad_link (p : PortVal) (s : Name)
    (hs : (PyStr.isDigit s = true ∧ 255 < PyStr.decVal s) ∨ (PyStr.isDigit s = false ∧ parseIPv4 s = none)) :
    encPort p (.str s) = .error .data := by
  cases p with
  | int i =>
    rcases hs with ⟨h1, h2⟩ | ⟨h1, h2⟩
    · simp [encPort, h1, usint_err _ h2]
    · simp [encPort, h1, h2]
  | name a =>
    cases hl : lookupName a Gen.portSegments with
    | none => simp [encPort, hl]
    | some v =>
      rcases hs with ⟨h1, h2⟩ | ⟨h1, h2⟩
      · simp [encPort, hl, h1, usint_err _ h2]
      · simp [encPort, hl, h1, h2]


/-! ### splitting -/

theorem splitOn_ne_nil (sep : Nat) (s : List Nat) : splitOn sep s ≠ [] := by
  cases s with
  | nil => simp [splitOn]
  | cons c cs =>
    rw [splitOn]
    split
    · simp
    · split <;> simp

theorem splitOn_notin (sep : Nat) (s : List Nat) (h : sep ∉ s) : splitOn sep s = [s] := by
  induction s with
  | nil => rfl
  | cons c cs ih =>
    have h1 : c ≠ sep := fun e => h (by simp [e])
    have h2 : sep ∉ cs := fun e => h (by simp [e])
    rw [splitOn, ih h2]
    simp [h1]

theorem splitOn_append (sep : Nat) (a b : List Nat) (h : sep ∉ a) :
    splitOn sep (a ++ sep :: b) = a :: splitOn sep b := by
  induction a with
  | nil =>
    simp only [List.nil_append]
    rw [splitOn]
    cases hb : splitOn sep b with
    | nil => exact absurd hb (splitOn_ne_nil sep b)
    | cons x t => simp
  | cons c cs ih =>
    have h1 : c ≠ sep := fun e => h (by simp [e])
    have h2 : sep ∉ cs := fun e => h (by simp [e])
    simp only [List.cons_append]
    rw [splitOn, ih h2]
    simp [h1]

/-- an all-digits string is not a dotted quad -/
theorem isDigit_false_of_ipv4 (s : Name) (o : List Nat) (h : parseIPv4 s = some o) : isDigit s = false := by
  cases hd : isDigit s with
  | false => rfl
  | true =>
    exfalso
    have hall : ∀ c ∈ s, isDigitC c = true := by
      simp [isDigit, List.all_eq_true] at hd
      exact hd.2
    have hn : 46 ∉ s := fun hm => by
      have := hall 46 hm
      simp [isDigitC] at this
    simp [parseIPv4, splitOn_notin 46 s hn] at h

/-! ### one hop -/

theorem table_aliases_nonnumeric : ∀ e ∈ Gen.portSegments, isDigit e.1 = false := by decide

theorem lookupName_mem {α} (k : Name) (v : α) (t : List (Name × α)) (h : lookupName k t = some v) :
    (k, v) ∈ t := by
  induction t with
  | nil => simp [lookupName] at h
  | cons e t ih =>
    obtain ⟨k', v'⟩ := e
    simp only [lookupName] at h
    split at h
    · rename_i hk
      simp at h
      simp [hk, h]
    · simp [ih h]

theorem alias_not_digit (p : Name) (n : Nat) (h : lookupName p Gen.portSegments = some n) :
    isDigit p = false :=
  table_aliases_nonnumeric (p, n) (lookupName_mem p n _ h)

theorem or16 : ∀ p, p ≤ 14 → p ||| 16 = p + 16 := by decide

theorem encPort_int_hop (h : Hop) (hw : WfHop h) :
    encPort (.int h.port) (.str (linkText h.link)) = .ok (refHop h) := by
  obtain ⟨port, link⟩ := h
  obtain ⟨hp1, hp2, hl⟩ := hw
  simp only at hp1 hp2 hl
  have hport := usint_ok port (by omega)
  cases link with
  | slot n =>
    simp only at hl
    simp [encPort, linkText, decStr_isDigit, decStr_val, usint_ok n hl, hport, refHop]
  | ip s =>
    simp only at hl
    obtain ⟨⟨o, ho⟩, hlen1, hlen2, _⟩ := hl
    have hd := isDigit_false_of_ipv4 s o ho
    have hport16 := usint_ok (port + 16) (by omega)
    have hlen := usint_ok s.length hlen2
    have hnn : (0:Int) ≤ (port : Int) := Int.natCast_nonneg _
    simp at hport16
    simp [encPort, linkText, hd, ho, hlen1, hnn, Gen.PORT_EXTENDED_LINK, or16 port hp2, hlen, refHop, hport16]

theorem encPort_name_hop (h : Hop) (hw : WfHop h) (p : Name)
    (hp : lookupName p Gen.portSegments = some h.port) :
    encPort (.name p) (.str (linkText h.link)) = .ok (refHop h) := by
  rw [← encPort_int_hop h hw]
  simp [encPort, hp]


/-! ### whole routes -/

theorem spells_length : ∀ (hops : List Hop) (segs : List Name), Spells hops segs → segs.length = 2 * hops.length
  | [], [], _ => rfl
  | [], _ :: _, h => by simp [Spells] at h
  | _ :: _, [], h => by simp [Spells] at h
  | _ :: _, [_], h => by simp [Spells] at h
  | _ :: hs, _ :: _ :: rest, h => by
    simp only [Spells] at h
    have := spells_length hs rest h.2.2
    simp [this]; omega

theorem parseCipRouteList_even (segs : List Name) (h : segs.length % 2 = 0) :
    parseCipRouteList segs false = .ok (parseCipRouteList.pairs segs) := by
  cases segs with
  | nil => simp [parseCipRouteList, parseCipRouteList.pairs]
  | cons a t =>
    have h' : (t.length + 1) % 2 = 0 := by simpa using h
    simp [parseCipRouteList, h']

theorem encSeg_spelled (h : Hop) (hw : WfHop h) (p : Name) (hp : PortSpelling h p) :
    encSeg true (Seg.port (if isDigit p then .int (decVal p) else .name p) (.str (linkText h.link))) =
      .ok (refHop h) := by
  rcases hp with hp | hp
  · subst hp
    simp [decStr_isDigit, decStr_val, encSeg, encPort_int_hop h hw]
  · simp [alias_not_digit p h.port hp, encSeg, encPort_name_hop h hw p hp]

theorem encSegs_spelled : ∀ (hops : List Hop) (segs : List Name), (∀ h ∈ hops, WfHop h) → Spells hops segs →
    encSegs true (parseCipRouteList.pairs segs) = .ok (hops.map refHop).flatten
  | [], [], _, _ => rfl
  | [], _ :: _, _, h => by simp [Spells] at h
  | _ :: _, [], _, h => by simp [Spells] at h
  | _ :: _, [_], _, h => by simp [Spells] at h
  | h :: hs, p :: l :: rest, hw, hsp => by
    simp only [Spells] at hsp
    obtain ⟨hp, hl, hrest⟩ := hsp
    subst hl
    have ih := encSegs_spelled hs rest (fun x hx => hw x (by simp [hx])) hrest
    have h1 := encSeg_spelled h (hw h (by simp)) p hp
    simp [parseCipRouteList.pairs, encSegs, h1, ih, bind, Except.bind]


/-! ### separators -/

/-- both separator replacements of `parse_connection_path` -/
def normSep (s : Name) : Name := replaceC 44 47 (replaceC 92 47 s)

theorem normSep_append (a b : Name) : normSep (a ++ b) = normSep a ++ normSep b := by
  simp [normSep, replaceC]

theorem normSep_cons (c : Nat) (b : Name) : normSep (c :: b) = normSep [c] ++ normSep b := by
  simp [normSep, replaceC]

theorem normSep_id (a : Name) (h1 : 92 ∉ a) (h2 : 44 ∉ a) : normSep a = a := by
  induction a with
  | nil => rfl
  | cons c cs ih =>
    have c1 : c ≠ 92 := fun e => h1 (by simp [e])
    have c2 : c ≠ 44 := fun e => h2 (by simp [e])
    have i1 : 92 ∉ cs := fun e => h1 (by simp [e])
    have i2 : 44 ∉ cs := fun e => h2 (by simp [e])
    have := ih i1 i2
    simp [normSep, replaceC] at this ⊢
    simp [c1, c2, this]

theorem normSep_sep (c : Nat) (hc : c = 47 ∨ c = 92 ∨ c = 44) : normSep [c] = [47] := by
  rcases hc with h | h | h <;> subst h <;> decide

theorem normSep_joined : ∀ (seps : List Nat) (route : List Name),
    (∀ c ∈ seps, c = 47 ∨ c = 92 ∨ c = 44) → seps.length = route.length →
    (∀ r ∈ route, 47 ∉ r ∧ 92 ∉ r ∧ 44 ∉ r) →
    normSep ((seps.zip route).map fun p => p.1 :: p.2).flatten = (route.map fun r => 47 :: r).flatten
  | [], [], _, _, _ => rfl
  | [], _ :: _, _, h, _ => by simp at h
  | _ :: _, [], _, h, _ => by simp at h
  | c :: seps, r :: route, hs, hl, hr => by
    have ih := normSep_joined seps route (fun x hx => hs x (by simp [hx])) (by simpa using hl)
      (fun x hx => hr x (by simp [hx]))
    have hr0 := hr r (by simp)
    simp only [List.zip_cons_cons, List.map_cons, List.flatten_cons, List.cons_append]
    rw [normSep_cons, normSep_append, ih, normSep_sep c (hs c (by simp)), normSep_id r hr0.2.1 hr0.2.2]
    rfl

theorem splitOn_joined : ∀ (route : List Name) (host : Name), 47 ∉ host → (∀ r ∈ route, 47 ∉ r) →
    splitOn 47 (host ++ (route.map fun r => 47 :: r).flatten) = host :: route
  | [], host, hh, _ => by simp [splitOn_notin 47 host hh]
  | r :: route, host, hh, hr => by
    have ih := splitOn_joined route r (hr r (by simp)) (fun x hx => hr x (by simp [hx]))
    simp only [List.map_cons, List.flatten_cons, List.cons_append]
    rw [splitOn_append 47 host _ hh, ih]

/-- the path string is split into the host part and exactly the route pieces -/
theorem split_path (host : Name) (route : List Name) (seps : List Nat)
    (hh : 47 ∉ host ∧ 92 ∉ host ∧ 44 ∉ host)
    (hr : ∀ r ∈ route, 47 ∉ r ∧ 92 ∉ r ∧ 44 ∉ r)
    (hseps : ∀ c ∈ seps, c = 47 ∨ c = 92 ∨ c = 44) (hlen : seps.length = route.length) :
    PyStr.split 47 (PyStr.replaceC 44 47 (PyStr.replaceC 92 47
      (host ++ ((seps.zip route).map fun p => p.1 :: p.2).flatten))) = host :: route := by
  show splitOn 47 (normSep _) = _
  rw [normSep_append, normSep_id host hh.2.1 hh.2.2, normSep_joined seps route hseps hlen hr]
  exact splitOn_joined route host hh.1 (fun r h => (hr r h).1)


/-! ### size of a route: a dotted quad has at most 15 characters, so a hop has at most 18 bytes and
    28 hops always fit the one-byte word count -/

theorem splitOn_length_sum (sep : Nat) (s : List Nat) :
    ((splitOn sep s).map List.length).sum + (splitOn sep s).length = s.length + 1 := by
  induction s with
  | nil => rfl
  | cons c cs ih =>
    rw [splitOn]
    cases hsp : splitOn sep cs with
    | nil => exact absurd hsp (splitOn_ne_nil sep cs)
    | cons x t =>
      rw [hsp] at ih
      by_cases hc : c = sep
      · simp [hc] at ih ⊢; omega
      · simp [hc] at ih ⊢; omega

theorem parseOctet_length (cs : List Nat) (v : Nat) (h : parseOctet cs = some v) : cs.length ≤ 3 := by
  unfold parseOctet at h
  split at h
  · simp at h
  · rename_i h1
    simp at h1
    omega

theorem ipv4_length (s : Name) (o : List Nat) (h : parseIPv4 s = some o) : s.length ≤ 15 := by
  unfold parseIPv4 at h
  simp only at h
  split at h
  · rename_i h4
    have hsum := splitOn_length_sum 46 s
    match hp : splitOn 46 s, h4 with
    | [a, b, c, d], _ =>
      rw [hp] at h hsum
      cases ha : parseOctet a with
      | none => simp [ha] at h
      | some va =>
      cases hb : parseOctet b with
      | none => simp [ha, hb] at h
      | some vb =>
      cases hc : parseOctet c with
      | none => simp [ha, hb, hc] at h
      | some vc =>
      cases hd : parseOctet d with
      | none => simp [ha, hb, hc, hd] at h
      | some vd =>
        have := parseOctet_length a va ha
        have := parseOctet_length b vb hb
        have := parseOctet_length c vc hc
        have := parseOctet_length d vd hd
        simp at hsum
        omega
  · simp at h

theorem refHop_length (h : Hop) (hw : WfHop h) : (refHop h).length ≤ 18 := by
  obtain ⟨port, link⟩ := h
  obtain ⟨_, _, hl⟩ := hw
  cases link with
  | slot n => simp [refHop]
  | ip s =>
    simp only at hl
    obtain ⟨⟨o, ho⟩, _⟩ := hl
    have := ipv4_length s o ho
    simp only [refHop]
    split <;> simp <;> omega

theorem route_length (hops : List Hop) (hw : ∀ h ∈ hops, WfHop h) :
    (hops.map refHop).flatten.length ≤ 18 * hops.length := by
  induction hops with
  | nil => simp
  | cons h hs ih =>
    have h1 := refHop_length h (hw h (by simp))
    have h2 := ih (fun x hx => hw x (by simp [hx]))
    simp only [List.map_cons, List.flatten_cons, List.length_append, List.length_cons]
    omega

/-- the size hypothesis of `route_of_spelling` holds for every well-formed route of at most 28 hops -/
theorem route_words_le (hops : List Hop) (hw : ∀ h ∈ hops, WfHop h) (hn : hops.length ≤ 28) :
    (hops.map refHop).flatten.length / 2 ≤ 255 := by
  have := route_length hops hw
  omega

-- PROPERTY THEOREMS

/-- every spelling (alias or number per port) of a well-formed route yields segments whose encoding is
    the CIP route of the hops: in particular all spellings give identical route bytes -/
-- STATEMENT CHANGED: the size hypothesis was `hn : hops.length ≤ 60`, which is false as stated: the
-- EPATH length prefix is one byte counting 16-bit words, and a hop with an IPv4 link takes up to 18
-- bytes, so e.g. 60 (even 29) hops "2/100.100.100.100" give 540 (261) words > 255 and
-- `encEpath .. true false` is `.error .data` (USINT overflow).  `hn` is now the exact condition
-- "the route body has at most 255 words".  `route_words_le` (above) shows it holds for every
-- well-formed route of at most 28 hops, and it holds for 60 hops when all links are slot numbers.
theorem route_of_spelling (hops : List Hop) (segs : List Name) (hw : ∀ h ∈ hops, WfHop h)
    (hs : Spells hops segs) (hn : (hops.map refHop).flatten.length / 2 ≤ 255) :
    ∃ route, parseCipRouteList segs false = .ok route ∧ encEpath true route true false = .ok (refRoute hops) := by
  refine ⟨parseCipRouteList.pairs segs, parseCipRouteList_even segs ?_, ?_⟩
  · rw [spells_length hops segs hs]; omega
  · have hu := usint_ok _ hn
    have hb := encSegs_spelled hops segs hw hs
    simp only [refRoute]
    generalize (hops.map refHop).flatten = body at hu hb ⊢
    have hc : ((body.length : Int) / 2) = ((body.length / 2 : Nat) : Int) := by omega
    simp only [encEpath, hb, if_true, hc, hu]
    simp

/-- the shortcuts of the Logix/SLC drivers: bare address = backplane slot 0, address/slot = backplane slot -/
theorem shortcut_bare : parseCipRouteList [] true = .ok [Seg.port (.name (nm "bp")) (.int 0)] ∧
    encEpath true [Seg.port (.name (nm "bp")) (.int 0)] true false = .ok (refRoute [⟨1, .slot 0⟩]) := by
  constructor
  · rfl
  · have h0 := usint_ok 0 (by omega)
    have h1 := usint_ok 1 (by omega)
    simp at h0 h1
    simp [encEpath, encSegs, encSeg, encPort, lookup_bp, h0, h1, bind, Except.bind, refRoute, refHop]

theorem shortcut_slot (n : Nat) (hn : n ≤ 255) :
    parseCipRouteList [decStr n] true = .ok [Seg.port (.name (nm "bp")) (.str (decStr n))] ∧
    encEpath true [Seg.port (.name (nm "bp")) (.str (decStr n))] true false = .ok (refRoute [⟨1, .slot n⟩]) := by
  constructor
  · simp [parseCipRouteList]
  · have h1 := usint_ok 1 (by omega)
    have h2 := usint_ok n hn
    simp at h1
    simp [encEpath, encSegs, encSeg, encPort, lookup_bp, decStr_isDigit, decStr_val, h1, h2, bind, Except.bind,
      refRoute, refHop]

/-- an odd number of route segments is rejected with RequestError (whatever the segments are) -/
theorem odd_segments_rejected (segs : List Name) (auto : Bool) (h : segs.length % 2 = 1)
    (h1 : segs.length ≠ 1 ∨ auto = false) : parseCipRouteList segs auto = .error .request := by
  have hne : segs.isEmpty = false := by
    cases segs with
    | nil => simp at h
    | cons a t => rfl
  have h2 : (segs.length == 1 && auto) = false := by
    rcases h1 with h1 | h1
    · simp [h1]
    · simp [h1]
  simp [parseCipRouteList, hne, h2, h]

/-- an unknown port name makes the route unencodable (DataError), wherever it occurs in the route -/
theorem unknown_port_rejected (pre post : List Seg) (p : Name) (l : LinkVal)
    (hp : lookupName p Gen.portSegments = none) (length padLen : Bool) :
    encEpath true (pre ++ Seg.port (.name p) l :: post) length padLen = .error .data := by
  apply encEpath_err (e := .data)
  simp [encSeg, encPort, hp]

/-- a link that is neither a number 0..255 nor an IPv4 address makes the route unencodable -/
theorem bad_link_rejected (pre post : List Seg) (p : PortVal) (s : Name)
    (hs : (PyStr.isDigit s = true ∧ 255 < PyStr.decVal s) ∨ (PyStr.isDigit s = false ∧ parseIPv4 s = none))
    (length padLen : Bool) :
    encEpath true (pre ++ Seg.port p (.str s) :: post) length padLen = .error .data := by
  apply encEpath_err (e := .data)
  simp [encSeg, encPort_bad_link p s hs]

/-- an invalid TCP port (not a number, 0, or ≥ 65535) is rejected with RequestError whatever follows -/
theorem bad_tcp_port_rejected (host pt : Name) (route : List Name) (auto : Bool)
    (hh : 58 ∉ host ∧ 47 ∉ host ∧ 92 ∉ host ∧ 44 ∉ host)
    (hpt : 58 ∉ pt ∧ 47 ∉ pt ∧ 92 ∉ pt ∧ 44 ∉ pt)
    (hr : ∀ r ∈ route, 47 ∉ r ∧ 92 ∉ r ∧ 44 ∉ r)
    (hbad : PyStr.pyInt pt = none ∨ ∃ v, PyStr.pyInt pt = some v ∧ (v ≤ 0 ∨ 65535 ≤ v))
    (seps : List Nat) (hseps : ∀ c ∈ seps, c = 47 ∨ c = 92 ∨ c = 44) (hlen : seps.length = route.length) :
    parseConnectionPath
      (host ++ [58] ++ pt ++ ((seps.zip route).map fun p => p.1 :: p.2).flatten) auto = .error .request := by
  have hh' : 47 ∉ host ++ [58] ++ pt ∧ 92 ∉ host ++ [58] ++ pt ∧ 44 ∉ host ++ [58] ++ pt := by
    simp [hh.2.1, hh.2.2.1, hh.2.2.2, hpt.2.1, hpt.2.2.1, hpt.2.2.2]
  have hsp := split_path (host ++ [58] ++ pt) route seps hh' hr hseps hlen
  have hc : (host ++ [58] ++ pt).contains 58 = true := by simp
  have hs2 : PyStr.split 58 (host ++ [58] ++ pt) = [host, pt] := by
    show splitOn 58 _ = _
    rw [List.append_assoc, List.singleton_append, splitOn_append 58 host pt hh.1, splitOn_notin 58 pt hpt.1]
  simp only [parseConnectionPath, hsp, hc, hs2]
  rcases hbad with hb | ⟨v, hb, hv⟩
  · simp [hb]
  · have hv' : v ≤ 0 ∨ v ≥ 65535 := hv
    simp [hb, hv']

/-- the three separators are interchangeable: a path string whose pieces are joined by any mix of
    '/', '\' and ',' is split into exactly those pieces -/
theorem separators_interchangeable (host : Name) (route : List Name) (auto : Bool)
    (hh : 58 ∉ host ∧ 47 ∉ host ∧ 92 ∉ host ∧ 44 ∉ host)
    (hr : ∀ r ∈ route, 47 ∉ r ∧ 92 ∉ r ∧ 44 ∉ r)
    (seps : List Nat) (hseps : ∀ c ∈ seps, c = 47 ∨ c = 92 ∨ c = 44) (hlen : seps.length = route.length) :
    parseConnectionPath (host ++ ((seps.zip route).map fun p => p.1 :: p.2).flatten) auto =
      (match parseCipRouteList route auto with
       | .ok segs => .ok (host, none, segs)
       | .error e => .error e) := by
  have hsp := split_path host route seps hh.2 hr hseps hlen
  have hc : host.contains 58 = false := by simp [hh.1]
  simp only [parseConnectionPath, hsp, hc]
  cases parseCipRouteList route auto <;> simp

end Pycomm.Path
