/-
  C02 / C03 at the driver level for ANY number of requests: `LogixDriver.write((t1, v1), …, (tn, vn))`, n ≥ 2, of whole
  elementary scalar tags — all in one Multiple Service Packet, or in as many packets as the driver's greedy grouping
  forms —, and the same with any subset of the requests refused by the controller (elements beyond an array), through
  the whole stack of the model (tag-string parsing, `encode_value`, `_write_build_multi_requests` with the grouping
  kernel `K.plan`, `CIPDriver.send`, encapsulation, the reference target's encapsulation layer / message router /
  Multiple Service Packet / Write Tag service, reply framing, `MultiServiceResponsePacket`, `_send_requests`, result
  assembly). Generalises `write_two_tags_e2e` (LogixDriverWrite2) and `write_mixed_two_e2e` (LogixDriverFail).

  Layers (lemmas usable on their own):
    (a)      LDWriteN3 `ldwn_wparse`
    (b)      LDWriteN1 `ldwn_buildLive`, `ldwn_groups` with `ldwn_groups_flatten` / `_ne_nil` / `_fit` / `_one`, `ldwn_build`;
             LDWriteN6 `ldwn_packets_eq`, `ldwn_groups_all`
    (c)+(d)  LDWriteN2 `ldwn_exch`, `ldwn_execEmbedded`, `ldwn_logix_multi`, `ldwn_sendRequest_multi`;
             LDWriteN3 `ldwn_sendRequests`
             LDWriteN4 `ldwn_Ev`, `ldwn_resolve_ev` (the resolver does not see memory contents), `ldwn_run`
    (e)+(f)  LDWriteN2 `ldwn_embedded`; LDWriteN3 `ldwn_multiWriteResults`, `ldwn_get_set`, `ldwn_table_get`, `ldwn_results`
    composed LDWriteN3 `ldwn_write_general` (any answers of the controller); LDWriteN5 `ldwn_write_mixed`
    effect   LDWriteN6 `ldwn_writtenAll_eq`, `ldwn_lastFor_nodup`
-/
import PycommProofs.LDWriteN6
import PycommProofs.LDWriteN7
import PycommProofs.LogixDriverWrite2
import PycommProofs.LogixDriverFail
namespace Pycomm.Lgx.Drv
open Pycomm Pycomm.Tgt Pycomm.Path Pycomm.Reply Pycomm.Encap Pycomm.Lgx Pycomm.Lgx.E2E

/-- the driver's accounting of a scalar write: `len(request.message)` of its Write Tag packet
    (sequence count 2 + service 1 + request path + type 2 + element count 2 + value) -/
def ldwn_Scalar.acct (cfg : Cfg) (x : ldwn_Scalar) : Nat := (ldwn_Req.scalar x).acct cfg

/-- the Tag `write` returns for a scalar write that succeeded -/
def ldwn_Scalar.result (x : ldwn_Scalar) : LTag := { tag := x.s.name, value := x.v, type := some x.tname, error := none }

theorem ldwn_scalar_acct_le (cfg : Cfg) (p : Project) (x : ldwn_Scalar)
    (hbytes : ∀ s' ∈ p.controller, ∀ ch ∈ s'.name, ch < 256) (h : ldwn_ScalarOk cfg p x) :
    x.acct cfg ≤ x.s.name.length + 32 :=
  (ldwn_scalar_facts cfg p x hbytes h).1.acctLe

theorem ldwn_last_one (o : Option Nat) (d : Cli.Drv) (g : List WriteReq) :
    ldwn_last o (drawSeqs d [g]).2 = some d.nextSeq.1 := rfl

-- PROPERTY THEOREMS

-- STATEMENT CHANGED (all theorems below): the requested hypothesis "pairwise DISTINCT tags" is not assumed. The model
-- sends and applies two requests for the same tag both, in request order, so "afterwards every s_i holds the encoding
-- of v_i" is false for the earlier one (`#guard` under "the hypotheses" in `ExWN`: `write(("abc", 5), ("abc", 9))`
-- leaves 9 and logs two writes). The theorems give the project as `ldwn_writtenAll` (one `written` per request, in
-- order); `write_n_tags_effect` describes it: the LAST request for a symbol decides its memory, and under
-- `Nodup` instance ids every s_i holds exactly the encoding of v_i.

/-- C02, what the project `ldwn_writtenAll p xs` after `write_n_tags_one_packet_e2e` / `write_n_tags_e2e` /
    `write_n_tags_isolated_e2e` is — the old project with the whole-symbol writes `xs` applied one after the other
    (`written` once per request, in request order) —, for requests that address symbols with unique instance ids and
    carry as many bytes as the symbol holds:
    * templates, program scopes, the number and order of the controller-scope symbols are unchanged;
    * the symbol at every position keeps name, instance id, type and dimensions; its memory is replaced by the bytes
      of the LAST request that addresses it (`ldwn_symAfter`), and a symbol no request addresses is unchanged byte
      for byte;
    * when the requests address pairwise DISTINCT symbols, every requested symbol holds exactly the bytes of its
      request;
    * the write log grew by exactly one entry `(instance, 0, size)` per request, in request order: every requested
      write was applied exactly once (also when two requests name the same tag: both are applied, the later value
      stays). -/
theorem write_n_tags_effect (p : Project) (xs : List ldwn_Scalar)
    (huniqI : ∀ x ∈ xs, ∀ s' ∈ p.controller, s'.inst = x.s.inst → s' = x.s)
    (hlen : ∀ x ∈ xs, x.bytes.length = x.s.mem.length) :
    (ldwn_writtenAll p xs).templates = p.templates ∧ (ldwn_writtenAll p xs).programs = p.programs ∧
    (ldwn_writtenAll p xs).controller.length = p.controller.length ∧
    (∀ (i : Nat) (y : Symbol), p.controller[i]? = some y →
        (ldwn_writtenAll p xs).controller[i]? = some (ldwn_symAfter xs y)) ∧
    (∀ y : Symbol, (∀ x ∈ xs, x.s.inst ≠ y.inst) → ldwn_symAfter xs y = y) ∧
    (∀ (y : Symbol) (x : ldwn_Scalar), ldwn_lastFor xs y.inst = some x →
        x ∈ xs ∧ x.s.inst = y.inst ∧ ldwn_symAfter xs y = { y with mem := x.bytes }) ∧
    ((xs.map (·.s.inst)).Nodup → ∀ x ∈ xs, ldwn_symAfter xs x.s = { x.s with mem := x.bytes }) ∧
    (ldwn_writtenAll p xs).writeLog = p.writeLog ++ xs.map fun x => (x.s.inst, 0, x.bytes.length) := by
  rw [ldwn_writtenAll_eq p xs huniqI hlen]
  refine ⟨rfl, rfl, by simp, ?_, ?_, ?_, ?_, rfl⟩
  · intro i y hy
    show (p.controller.map (ldwn_symAfter xs))[i]? = _
    rw [List.getElem?_map, hy]; rfl
  · intro y hy
    unfold ldwn_symAfter
    rw [ldwn_lastFor_none xs y.inst hy]
  · intro y x hx
    obtain ⟨h1, h2⟩ := ldwn_lastFor_some xs y.inst x hx
    refine ⟨h1, h2, ?_⟩
    unfold ldwn_symAfter
    rw [hx]
  · intro hnd x hx
    unfold ldwn_symAfter
    rw [ldwn_lastFor_nodup xs hnd x hx]

/-- C02 (and C03), driver level, n tags in ONE packet: `write((s1.name, v1), …, (sn.name, vn))`, n ≥ 2, of
    controller-scope elementary (non-bit-string) scalar tags with canonical values on a healthy connected driver that
    is not a Micro800, all requests fitting one multi-service packet by the driver's own accounting, returns the n
    error-free Tags in the order of the request, each with its name, the caller's value and the type name. All writes
    travel in ONE Multiple Service Packet (one frame written); n + 1 sequence numbers are drawn (one per embedded
    Write Tag packet, then one for the multi-service packet); the controller's project afterwards is
    `ldwn_writtenAll st.proj xs` — every requested write applied exactly once, in request order, nothing else
    changed (`write_n_tags_effect`) —; every encoding has the size of its symbol; the resulting world is healthy again.

    The tags need NOT be distinct: a tag named twice is written twice, in request order (`write_n_tags_effect`).

    Hypotheses: `hok`: for every request those of `write_two_tags_e2e` about one tag (`ldwn_ScalarOk`); `hbytes`;
    `hmicro`: the multi-service path is taken only when the driver is not a Micro800; `hn`: a single request takes
    the single-request path (`write_atomic_scalar_e2e`); `hfit`: the multi-service overhead (10) plus
    `len(request.message)` of every Write Tag packet is within the connection size — the test of the driver's
    grouping loop (`name length + 32` bytes per request suffice, `ldwn_scalar_acct_le`); `hCT`: the connection the
    target holds is at least as large as the driver believes; `hCmax`: connection sizes the encapsulation length
    field can carry. -/
theorem write_n_tags_one_packet_e2e (cfg : Cfg) (w : Cli.World Ext) (sess : Nat) (cidb : Bytes) (conn : Conn)
    (st : LState) (xs : List ldwn_Scalar)
    (hw : ldr_Healthy w sess cidb conn) (hlogix : w.net.target.ext.logix = some st) (hmicro : cfg.micro800 = false)
    (hn : 2 ≤ xs.length)
    (hbytes : ∀ s' ∈ st.proj.controller, ∀ ch ∈ s'.name, ch < 256)
    (hok : ∀ x ∈ xs, ldwn_ScalarOk cfg st.proj x)
    (hfit : K.OVERHEAD + (xs.map (·.acct cfg)).sum ≤ w.drv.connectionSize)
    (hCT : w.drv.connectionSize ≤ conn.size) (hCmax : w.drv.connectionSize ≤ 65400) :
    ∃ w' frm, write hookAll cfg w (xs.map fun x => (x.s.name, x.v)) = (w', .ok (xs.map (·.result))) ∧
      w'.drv = ldwn_seqN (xs.length + 1) w.drv ∧ w'.net.sent = w.net.sent ++ [frm] ∧
      w'.net.target.ext =
        { w.net.target.ext with logix := some { st with proj := ldwn_writtenAll st.proj xs } } ∧
      (∀ x ∈ xs, x.bytes.length = x.sz) ∧
      ldr_Healthy w' sess cidb { conn with lastSeq := some (ldwn_seqN xs.length w.drv).nextSeq.1 } := by
  have hsum : ((xs.map ldwn_Req.scalar).map (·.acct cfg)).sum = (xs.map (·.acct cfg)).sum := by
    rw [List.map_map]; rfl
  have hne : xs.map ldwn_Req.scalar ≠ [] := by
    intro h
    have := congrArg List.length h
    rw [List.length_map] at this
    simp only [List.length_nil] at this
    omega
  have hall := ldwn_groups_all cfg w.drv (xs.map .scalar) hne (by rw [hsum]; exact hfit)
  obtain ⟨w', frms, h1, h2, h3, h4, h5, h6⟩ := ldwn_write_mixed cfg w sess cidb conn st (xs.map .scalar) hw hlogix hmicro
    (by rw [List.length_map]; exact hn) hbytes
    (by intro r hr; obtain ⟨x, hx, rfl⟩ := List.mem_map.1 hr; exact hok x hx)
    (by
      intro r hr
      have := ldwn_acct_le_sum cfg _ r hr
      rw [hsum] at this
      omega)
    hCT hCmax
  have hk : ldwn_packets cfg w.drv (xs.map .scalar) = 1 := by
    unfold ldwn_packets; rw [hall]; rfl
  rw [hk] at h2 h4
  rw [hall, List.length_map, ldwn_last_one] at h6
  rw [List.length_map] at h2
  obtain ⟨frm, rfl⟩ : ∃ frm, frms = [frm] := by
    cases frms with
    | nil => simp at h4
    | cons a t =>
      cases t with
      | nil => exact ⟨a, rfl⟩
      | cons b t' => simp at h4
  rw [ldwn_apply_goods, ldwn_goods_scalars] at h5
  rw [List.map_map, List.map_map] at h1
  exact ⟨w', frm, h1, h2, h3, h5, fun x hx => (ldwn_scalar_facts cfg st.proj x hbytes (hok x hx)).2, h6⟩

/-- C02 (and C03), driver level, n tags in as many packets as needed: `write_n_tags_one_packet_e2e` without the
    assumption that everything fits one packet. The driver forms `k` multi-service packets — `k` is the number of
    groups its greedy grouping loop (kernel `K.plan`: a packet is closed when the next request's
    `len(request.message)` would push the accounted size beyond the connection size) makes of the accounted sizes —;
    `k` frames are written, n + k sequence numbers are drawn (first the n Write Tag packets, then the k multi-service
    packets); the n error-free Tags come back in request order and the controller's project afterwards is the same
    `ldwn_writtenAll st.proj xs`: every requested write applied exactly once, in request order.

    Hypotheses as in `write_n_tags_one_packet_e2e`, with `hfit1` in place of `hfit`: every single request stays below
    the fragmentation threshold of the multi-request path (`len(request.message) + 10 ≤ connection size`; excluded:
    requests that are sent with Write Tag Fragmented instead, which for a scalar tag needs a connection smaller than
    `name length + 42` bytes). -/
theorem write_n_tags_e2e (cfg : Cfg) (w : Cli.World Ext) (sess : Nat) (cidb : Bytes) (conn : Conn)
    (st : LState) (xs : List ldwn_Scalar)
    (hw : ldr_Healthy w sess cidb conn) (hlogix : w.net.target.ext.logix = some st) (hmicro : cfg.micro800 = false)
    (hn : 2 ≤ xs.length)
    (hbytes : ∀ s' ∈ st.proj.controller, ∀ ch ∈ s'.name, ch < 256)
    (hok : ∀ x ∈ xs, ldwn_ScalarOk cfg st.proj x)
    (hfit1 : ∀ x ∈ xs, x.acct cfg + K.OVERHEAD ≤ w.drv.connectionSize)
    (hCT : w.drv.connectionSize ≤ conn.size) (hCmax : w.drv.connectionSize ≤ 65400) :
    ∃ w' frms ls, write hookAll cfg w (xs.map fun x => (x.s.name, x.v)) = (w', .ok (xs.map (·.result))) ∧
      frms.length = (K.plan w.drv.connectionSize (ldwn_planItems 0 (xs.map (·.acct cfg)))).groups.length ∧
      w'.drv = ldwn_seqN (xs.length + frms.length) w.drv ∧ w'.net.sent = w.net.sent ++ frms ∧
      w'.net.target.ext =
        { w.net.target.ext with logix := some { st with proj := ldwn_writtenAll st.proj xs } } ∧
      (∀ x ∈ xs, x.bytes.length = x.sz) ∧
      ldr_Healthy w' sess cidb { conn with lastSeq := ls } := by
  obtain ⟨w', frms, h1, h2, h3, h4, h5, h6⟩ := ldwn_write_mixed cfg w sess cidb conn st (xs.map .scalar) hw hlogix hmicro
    (by rw [List.length_map]; exact hn) hbytes
    (by intro r hr; obtain ⟨x, hx, rfl⟩ := List.mem_map.1 hr; exact hok x hx)
    (by intro r hr; obtain ⟨x, hx, rfl⟩ := List.mem_map.1 hr; exact hfit1 x hx)
    hCT hCmax
  rw [ldwn_apply_goods, ldwn_goods_scalars] at h5
  rw [List.map_map, List.map_map] at h1
  rw [← h4, List.length_map] at h2
  rw [ldwn_packets_eq, List.map_map] at h4
  exact ⟨w', frms, _, h1, h4, h2, h3, h5, fun x hx => (ldwn_scalar_facts cfg st.proj x hbytes (hok x hx)).2, h6⟩

/-- C03 (and C02), driver level, failure isolation among n requests: `write(r1, …, rn)`, n ≥ 2, where every request is
    either the write of a whole controller-scope elementary scalar tag with a canonical value (`ldwn_Req.scalar`) or
    the write of an element BEYOND a one-dimensional array (`ldwn_Req.oob`, `name[i]` with `i ≥ dim`, as in
    `write_mixed_two_e2e`) — any subset, in any order, on a healthy connected driver that is not a Micro800 —, returns,
    no exception, one Tag per request in request order: for a scalar write the error-free Tag (name, caller's value,
    type name: exactly the Tag of `write_n_tags_e2e`), for a refused request a falsy Tag carrying the request string,
    the caller's value, the type name and the controller's "Access beyond end of the object" error text. The driver
    forms `k` multi-service packets by its grouping loop, writes `k` frames, draws n + k sequence numbers. Every scalar
    write is applied EXACTLY ONCE, in request order, whatever its neighbours in the packet are: the controller's project
    afterwards is `ldwn_writtenAll st.proj (ldwn_goods reqs)` (`write_n_tags_effect` for the scalar writes among the
    requests); the refused requests leave no trace in memory or write log.

    Hypotheses: per request those of `write_mixed_two_e2e` for a `good` (`ldwn_ScalarOk`) or a `bad` (`ldwn_OobOk`)
    request; the others as in `write_n_tags_e2e`. -/
theorem write_n_tags_isolated_e2e (cfg : Cfg) (w : Cli.World Ext) (sess : Nat) (cidb : Bytes) (conn : Conn)
    (st : LState) (reqs : List ldwn_Req)
    (hw : ldr_Healthy w sess cidb conn) (hlogix : w.net.target.ext.logix = some st) (hmicro : cfg.micro800 = false)
    (hn : 2 ≤ reqs.length)
    (hbytes : ∀ s' ∈ st.proj.controller, ∀ ch ∈ s'.name, ch < 256)
    (hok : ∀ r ∈ reqs, ldwn_ReqOk cfg st.proj r)
    (hfit1 : ∀ r ∈ reqs, r.acct cfg + K.OVERHEAD ≤ w.drv.connectionSize)
    (hCT : w.drv.connectionSize ≤ conn.size) (hCmax : w.drv.connectionSize ≤ 65400) :
    ∃ w' frms ls, write hookAll cfg w (reqs.map fun r => (r.tag, r.v)) = (w', .ok (reqs.map (·.result))) ∧
      (∀ x, ldwn_Req.oob x ∈ reqs → (ldwn_Req.oob x).result.truthy = false) ∧
      (∀ x, ldwn_Req.scalar x ∈ reqs → (ldwn_Req.scalar x).result.error = none) ∧
      frms.length = (K.plan w.drv.connectionSize (ldwn_planItems 0 (reqs.map (·.acct cfg)))).groups.length ∧
      w'.drv = ldwn_seqN (reqs.length + frms.length) w.drv ∧ w'.net.sent = w.net.sent ++ frms ∧
      w'.net.target.ext =
        { w.net.target.ext with logix := some { st with proj := ldwn_writtenAll st.proj (ldwn_goods reqs) } } ∧
      ldr_Healthy w' sess cidb { conn with lastSeq := ls } := by
  obtain ⟨w', frms, h1, h2, h3, h4, h5, h6⟩ := ldwn_write_mixed cfg w sess cidb conn st reqs hw hlogix hmicro hn hbytes hok
    hfit1 hCT hCmax
  rw [ldwn_apply_goods] at h5
  rw [← h4] at h2
  rw [ldwn_packets_eq] at h4
  exact ⟨w', frms, _, h1, fun x _ => ldx_falsy_of_error _ _ rfl, fun x _ => rfl, h4, h2, h3, h5, h6⟩

/-- C02 (and C03), driver level, several bits of ONE integer tag in one call:
    `write(("tag.b1", v1), …, ("tag.bn", vn))`, n ≥ 2, bit numbers below the width of the controller-scope elementary
    INTEGER scalar tag, any Python values, on a healthy connected driver that is not a Micro800, goes out as exactly
    ONE Read-Modify-Write request (one frame, ONE sequence number: the bit requests are merged into the packet of the
    first one) whose OR / AND masks are the combination of the requests in request order (`K.applyOps`); the result of
    that one packet is fanned out: every request gets its own error-free Tag, in request order, carrying its request
    string, the caller's value and the type "BOOL". The controller's project afterwards is
    `written st.proj loc 0 (le sz new)` — ONE logged write of the whole integer — where every bit of `new` holds the
    truth value of the LAST request that names it, and every bit no request names is unchanged; `new` stays inside the
    integer. (Generalises `write_bit_e2e`; the same bit may be named more than once: the last value stays.)

    Hypotheses: those of `write_bit_e2e` (with `hds` for every request), `hn`: a single bit request takes the
    single-request path (`write_bit_e2e`), `hmicro`. -/
theorem write_n_bits_e2e (cfg : Cfg) (w : Cli.World Ext) (sess : Nat) (cidb : Bytes) (conn : Conn)
    (st : LState) (s : Symbol) (info : TagInfo) (c sz : Nat) (name : Name) (t : Ty) (bits : List (Name × PyVal))
    (hw : ldr_Healthy w sess cidb conn) (hlogix : w.net.target.ext.logix = some st) (hmicro : cfg.micro800 = false)
    (hn : 2 ≤ bits.length)
    (hs : s ∈ st.proj.controller)
    (hbytes : ∀ s' ∈ st.proj.controller, ∀ ch ∈ s'.name, ch < 256)
    (huniqN : ∀ s' ∈ st.proj.controller, s'.name = s.name → s' = s)
    (huniqI : ∀ s' ∈ st.proj.controller, s'.inst = s.inst → s' = s)
    (hid : PlainIdent s.name) (hinst : s.inst < 2 ^ 32)
    (hty : elTyOfWord s.symbolType = .atomic c) (hat : atomicOfCode c = some (name, t)) (hb : t.isBits = none)
    (hsz : atomicSize c = some sz) (hlen : s.mem.length = sz) (hint : c ≠ 0xCA ∧ c ≠ 0xCB ∧ c ≠ 0xC1)
    (hget : cfg.tags.get? s.name = some info) (hinfo : ldr_InfoOf info name t s.inst)
    (hds : ∀ b ∈ bits, PyStr.isDigit b.1 = true ∧ PyStr.decVal b.1 < 8 * sz)
    (hT : s.name.length + 2 * sz + 18 ≤ conn.size) :
    ∃ w' frm, write hookAll cfg w (bits.map fun b => (ldw_bitTag s.name b.1, b.2)) =
        (w', .ok (bits.map fun b => { tag := ldw_bitTag s.name b.1, value := b.2, type := some (Drv.nm "BOOL"), error := none })) ∧
      w'.drv = w.drv.nextSeq.2 ∧ w'.net.sent = w.net.sent ++ [frm] ∧
      w'.net.target.ext =
        { w.net.target.ext with
          logix := some
            { st with
              proj := written st.proj (ldr_loc s c) 0
                (le sz (K.rmwResult sz (leVal s.mem) (K.applyOps (ldwn_ops bits)))) } } ∧
      (∀ i, i < 8 * sz →
        (K.rmwResult sz (leVal s.mem) (K.applyOps (ldwn_ops bits))).testBit i =
          match K.lastOp (ldwn_ops bits) i with
          | some v => v
          | none => (leVal s.mem).testBit i) ∧
      K.rmwResult sz (leVal s.mem) (K.applyOps (ldwn_ops bits)) < 2 ^ (8 * sz) ∧
      ldr_Healthy w' sess cidb { conn with lastSeq := some w.drv.nextSeq.1 } := by
  obtain ⟨_, hszs⟩ := ldw_intBits c sz name t hat hb hsz hint
  have hold : leVal s.mem < 2 ^ (8 * sz) := by
    have := EN.leVal_lt s.mem
    rw [hlen, show (256 : Nat) = 2 ^ 8 from rfl, ← Nat.pow_mul] at this
    exact this
  have hops : ∀ o ∈ ldwn_ops bits, o.1 < 8 * sz := by
    intro o ho
    obtain ⟨b, hb', rfl⟩ := List.mem_map.1 ho
    exact (hds b hb').2
  obtain ⟨w', frm, h1, h2, h3, h4, h5⟩ := ldwn_write_bits cfg w sess cidb conn st s info c sz name t bits hw hlogix hmicro hn
    hs hbytes huniqN huniqI hid hinst hty hat hb hsz hlen hint hget hinfo hds hT
  exact ⟨w', frm, h1, h2, h3, h4, fun i hi => K.rmw_law sz hszs (ldwn_ops bits) hops (leVal s.mem) hold i hi,
    K.rmw_in_range sz hszs (ldwn_ops bits) (leVal s.mem) hold, h5⟩

/-- the per-request hypotheses `ldwn_ScalarOk` with the tag database the driver really holds after `open()` (`tagDbOf`
    of the controller's project): the hypotheses on the database entry follow from hypotheses on the symbol alone
    (as in `write_atomic_scalar_e2e_db`), so `write_n_tags_one_packet_e2e` / `write_n_tags_e2e` /
    `write_n_tags_isolated_e2e` can be used with facts about the controller's project only -/
theorem write_n_tags_scalar_ok_db (cfg : Cfg) (p : Project) (s : Symbol) (sz : Nat) (name : Name) (t : Ty) (v : PyVal)
    (bytes : Bytes) (programTags : Bool)
    (hs : s ∈ p.controller)
    (huniqN : ∀ s' ∈ p.controller, s'.name = s.name → s' = s)
    (huniqI : ∀ s' ∈ p.controller, s'.inst = s.inst → s' = s)
    (hid : PlainIdent s.name) (hinst : s.inst < 2 ^ 32)
    (hstruct : s.symbolType / 32768 % 2 = 0) (hdims : s.symbolType / 8192 % 4 = 0)
    (hat : atomicOfCode (s.symbolType % 256) = some (name, t)) (hb : t.isBits = none)
    (hsz : atomicSize (s.symbolType % 256) = some sz) (hlen : s.mem.length = sz)
    (hkeep : K.keepSymbol s.name s.symbolType = true) (hdb : tagDbOf p programTags = some cfg.tags)
    (hcanon : Canon t v) (henc : encode t v = .ok bytes) :
    ∃ info, ldwn_ScalarOk cfg p
      { s := s, info := info, c := s.symbolType % 256, sz := sz, tname := name, t := t, v := v, bytes := bytes } := by
  obtain ⟨info, hc1, hinfo⟩ := ldr_createTag_atomic p s name t hstruct hdims hat
  obtain ⟨i, hc2, hget⟩ := ldr_tagDb_get p programTags cfg.tags s hdb hs hkeep huniqN
    (ldr_plain_not_mem s.name hid 58 (by omega))
  rw [hc1] at hc2
  cases hc2
  have hty : elTyOfWord s.symbolType = .atomic (s.symbolType % 256) := by
    unfold elTyOfWord
    rw [if_neg (by omega)]
  exact ⟨info, hs, huniqN, huniqI, hid, hinst, hty, hat, hb, hsz, hlen, hget, hinfo, hcanon, henc⟩

/-! ### non-vacuity: a project with five scalar tags of five elementary types (`abc : DINT`, `xyz : INT`,
    `flag : BOOL`, `level : LREAL`, `cnt : SINT`) and `arr : DINT[4]`; the world is obtained by RUNNING the model
    (`open()`, Forward Open) for a driver that asks for a `c`-byte connection -/

namespace ExWN
open Ex

def symA : Symbol :=
  { inst := 7, name := Drv.nm "abc", symbolType := 0xC4, dims := [0, 0, 0], attr3 := 0, attr5 := 0, attr6 := 2 ^ 26,
    access := 0, mem := [0x2A, 0, 0, 0] }
def symArr : Symbol :=
  { inst := 9, name := Drv.nm "arr", symbolType := 0x20C4, dims := [4, 0, 0], attr3 := 0, attr5 := 0, attr6 := 2 ^ 26,
    access := 0, mem := [1, 0, 0, 0, 2, 0, 0, 0, 0xFF, 0xFF, 0xFF, 0xFF, 4, 0, 0, 0] }
def symB : Symbol :=
  { inst := 11, name := Drv.nm "xyz", symbolType := 0xC3, dims := [0, 0, 0], attr3 := 0, attr5 := 0, attr6 := 2 ^ 26,
    access := 0, mem := [0x05, 0x80] }
def symC : Symbol :=
  { inst := 13, name := Drv.nm "flag", symbolType := 0xC1, dims := [0, 0, 0], attr3 := 0, attr5 := 0, attr6 := 2 ^ 26,
    access := 0, mem := [0] }
def symD : Symbol :=
  { inst := 14, name := Drv.nm "level", symbolType := 0xCB, dims := [0, 0, 0], attr3 := 0, attr5 := 0, attr6 := 2 ^ 26,
    access := 0, mem := [0, 0, 0, 0, 0, 0, 0, 0] }
def symE : Symbol :=
  { inst := 15, name := Drv.nm "cnt", symbolType := 0xC2, dims := [0, 0, 0], attr3 := 0, attr5 := 0, attr6 := 2 ^ 26,
    access := 0, mem := [3] }
def projN : Project := { templates := [], controller := [symA, symArr, symB, symC, symD, symE], programs := [] }
def stateN : LState := { proj := projN }
/-- a fresh driver asking for a `c`-byte connection in front of a fresh target holding the project -/
def world0N (c : Nat) : Cli.World Ext :=
  { drv := { connectionSize := c }, net := { target := { base := base, ext := { logix := some stateN } } } }
/-- after `open()` and the Forward Open: the model is run; the target grants the `c` bytes -/
def worldN (c : Nat) : Cli.World Ext :=
  (Cli.ensureForwardOpen hookAll Cli.FUEL (Cli.openDrv hookAll (world0N c) [1, 2, 3, 4, 5, 6, 7, 8]).1).1
/-- the driver configuration after the tag upload: the tag database computed from the project -/
def cfgN : Cfg := { tags := (tagDbOf projN false).getD [] }
def connN (c : Nat) : Tgt.Conn := { conn with size := c }

def scalarInfo (tn : String) (t : Ty) (inst : Nat) : TagInfo :=
  .mk { tagType := .atomic, dataTypeName := Drv.nm tn, ty := t, dim := 0, dimensions := [0, 0, 0], instanceId := some inst } .nil
def infoArrN : TagInfo :=
  .mk { tagType := .atomic, dataTypeName := Drv.nm "DINT", ty := .arr (.fixed 4) (.int .dint), dim := 1, dimensions := [4, 0, 0],
        instanceId := some 9 } .nil

/-- `("abc", 5)`, `("xyz", -6)`, `("flag", True)`, `("level", 1.5)`, `("cnt", -1)` -/
def xA : ldwn_Scalar :=
  { s := symA, info := scalarInfo "DINT" (.int .dint) 7, c := 0xC4, sz := 4, tname := Drv.nm "DINT", t := .int .dint,
    v := .int 5, bytes := [5, 0, 0, 0] }
def xB : ldwn_Scalar :=
  { s := symB, info := scalarInfo "INT" (.int .int) 11, c := 0xC3, sz := 2, tname := Drv.nm "INT", t := .int .int,
    v := .int (-6), bytes := [0xFA, 0xFF] }
def xC : ldwn_Scalar :=
  { s := symC, info := scalarInfo "BOOL" .bool 13, c := 0xC1, sz := 1, tname := Drv.nm "BOOL", t := .bool,
    v := .bool true, bytes := [0xFF] }
def xD : ldwn_Scalar :=
  { s := symD, info := scalarInfo "LREAL" .lreal 14, c := 0xCB, sz := 8, tname := Drv.nm "LREAL", t := .lreal,
    v := .float 0x3FF8000000000000, bytes := [0, 0, 0, 0, 0, 0, 0xF8, 0x3F] }
def xE : ldwn_Scalar :=
  { s := symE, info := scalarInfo "SINT" (.int .sint) 15, c := 0xC2, sz := 1, tname := Drv.nm "SINT", t := .int .sint,
    v := .int (-1), bytes := [0xFF] }
/-- `("abc", 9)`: the same tag as `xA` with another value -/
def xA' : ldwn_Scalar := { xA with v := .int 9, bytes := [9, 0, 0, 0] }
/-- `("arr[9]", 1)` and `("arr[4]", 1)`: elements beyond `arr : DINT[4]` -/
def oob (i : Nat) : ldwn_Oob :=
  { s := symArr, info := infoArrN, c := 0xC4, sz := 4, dim := 4, i := i, tname := Drv.nm "DINT", t := .int .dint,
    v := .int 1, bytes := [1, 0, 0, 0] }

def five : List ldwn_Scalar := [xA, xB, xC, xD, xE]

/-- tags and outcome of a `write` call: per Tag (name, type, error-free), then the memories of the controller-scope
    symbols, the write log, frames written and sequence numbers drawn -/
def woutN (c : Nat) (tvs : List (Name × PyVal)) :
    Option (List (Name × Option Name × Bool) × List Bytes × List (Nat × Nat × Nat) × Nat × Nat) :=
  wout (worldN c) cfgN tvs

def tvs5 : List (Name × PyVal) := five.map fun x => (x.s.name, x.v)

-- evaluation checks of the runs (interpreter)
#guard (worldN 4000).drv.targetIsConnected && (worldN 4000).drv.connectionSize == 4000 &&
  (worldN 4000).net.target.base.conns == [connN 4000]
#guard (worldN 60).drv.targetIsConnected && (worldN 60).drv.connectionSize == 60 &&
  (worldN 60).net.target.base.conns == [connN 60]
-- the accounted sizes `len(request.message)` of the five Write Tag packets (instance-id addressing: 5-byte request paths)
#guard five.map (·.acct cfgN) == [16, 14, 13, 20, 13]
-- five tags of five types on the 4000-byte connection: ONE frame, 5 + 1 sequence numbers, five log entries in order
#guard woutN 4000 tvs5 ==
  some ([(Drv.nm "abc", some (Drv.nm "DINT"), true), (Drv.nm "xyz", some (Drv.nm "INT"), true),
         (Drv.nm "flag", some (Drv.nm "BOOL"), true), (Drv.nm "level", some (Drv.nm "LREAL"), true),
         (Drv.nm "cnt", some (Drv.nm "SINT"), true)],
        [[5, 0, 0, 0], symArr.mem, [0xFA, 0xFF], [0xFF], [0, 0, 0, 0, 0, 0, 0xF8, 0x3F], [0xFF]],
        [(7, 0, 4), (11, 0, 2), (13, 0, 1), (14, 0, 8), (15, 0, 1)], 1, 6)
-- … on a 60-byte connection: TWO packets (10 + 16 + 14 + 13 = 53, + 20 = 73 > 60), 5 + 2 sequence numbers, same effect
#guard woutN 60 tvs5 ==
  some ([(Drv.nm "abc", some (Drv.nm "DINT"), true), (Drv.nm "xyz", some (Drv.nm "INT"), true),
         (Drv.nm "flag", some (Drv.nm "BOOL"), true), (Drv.nm "level", some (Drv.nm "LREAL"), true),
         (Drv.nm "cnt", some (Drv.nm "SINT"), true)],
        [[5, 0, 0, 0], symArr.mem, [0xFA, 0xFF], [0xFF], [0, 0, 0, 0, 0, 0, 0xF8, 0x3F], [0xFF]],
        [(7, 0, 4), (11, 0, 2), (13, 0, 1), (14, 0, 8), (15, 0, 1)], 2, 7)
-- … on a 40-byte connection: FOUR packets
#guard (woutN 40 tvs5).map (fun r => (r.2.2.1, r.2.2.2)) ==
  some ([(7, 0, 4), (11, 0, 2), (13, 0, 1), (14, 0, 8), (15, 0, 1)], 4, 9)
-- the SAME tag twice in one call (`write_n_tags_effect` without distinctness): written twice, in request order, the
-- later value stays, both writes logged
#guard woutN 4000 [(Drv.nm "abc", .int 5), (Drv.nm "xyz", .int (-6)), (Drv.nm "abc", .int 9)] ==
  some ([(Drv.nm "abc", some (Drv.nm "DINT"), true), (Drv.nm "xyz", some (Drv.nm "INT"), true),
         (Drv.nm "abc", some (Drv.nm "DINT"), true)],
        [[9, 0, 0, 0], symArr.mem, [0xFA, 0xFF], [0], [0, 0, 0, 0, 0, 0, 0, 0], [3]],
        [(7, 0, 4), (11, 0, 2), (7, 0, 4)], 1, 4)
-- good, refused, good, refused, good (the last naming `abc` again): the refused ones are falsy and leave no trace
#guard woutN 4000 [(Drv.nm "abc", .int 5), (Drv.nm "arr[9]", .int 1), (Drv.nm "xyz", .int (-6)), (Drv.nm "arr[4]", .int 1),
                   (Drv.nm "abc", .int 9)] ==
  some ([(Drv.nm "abc", some (Drv.nm "DINT"), true), (Drv.nm "arr[9]", some (Drv.nm "DINT"), false),
         (Drv.nm "xyz", some (Drv.nm "INT"), true), (Drv.nm "arr[4]", some (Drv.nm "DINT"), false),
         (Drv.nm "abc", some (Drv.nm "DINT"), true)],
        [[9, 0, 0, 0], symArr.mem, [0xFA, 0xFF], [0], [0, 0, 0, 0, 0, 0, 0, 0], [3]],
        [(7, 0, 4), (11, 0, 2), (7, 0, 4)], 1, 6)

private theorem healthyN4000 : ldr_Healthy (worldN 4000) 4097 [238, 255, 192, 0] (connN 4000) :=
  ⟨by decide +kernel, by decide +kernel, by decide +kernel, by decide +kernel, by decide +kernel, by decide,
   by decide +kernel, by decide +kernel, by decide, by decide +kernel, by decide +kernel, by decide +kernel⟩

private theorem healthyN60 : ldr_Healthy (worldN 60) 4097 [238, 255, 192, 0] (connN 60) :=
  ⟨by decide +kernel, by decide +kernel, by decide +kernel, by decide +kernel, by decide +kernel, by decide,
   by decide +kernel, by decide +kernel, by decide, by decide +kernel, by decide +kernel, by decide +kernel⟩

private theorem mem_ctlN (s' : Symbol) (h : s' ∈ projN.controller) :
    s' = symA ∨ s' = symArr ∨ s' = symB ∨ s' = symC ∨ s' = symD ∨ s' = symE := by
  simpa [projN] using h

private theorem bytesN (s' : Symbol) (h : s' ∈ stateN.proj.controller) : ∀ ch ∈ s'.name, ch < 256 := by
  rcases mem_ctlN s' h with rfl | rfl | rfl | rfl | rfl | rfl <;> decide

private theorem uniqNN (s : Symbol) (hs : s ∈ stateN.proj.controller) (s' : Symbol) (h : s' ∈ stateN.proj.controller)
    (e : s'.name = s.name) : s' = s := by
  rcases mem_ctlN s hs with rfl | rfl | rfl | rfl | rfl | rfl <;>
    rcases mem_ctlN s' h with rfl | rfl | rfl | rfl | rfl | rfl <;> first | rfl | (exfalso; revert e; decide)

private theorem uniqIN (s : Symbol) (hs : s ∈ stateN.proj.controller) (s' : Symbol) (h : s' ∈ stateN.proj.controller)
    (e : s'.inst = s.inst) : s' = s := by
  rcases mem_ctlN s hs with rfl | rfl | rfl | rfl | rfl | rfl <;>
    rcases mem_ctlN s' h with rfl | rfl | rfl | rfl | rfl | rfl <;> first | rfl | (exfalso; revert e; decide)

private theorem hsA : symA ∈ stateN.proj.controller := by simp [stateN, projN]
private theorem hsB : symB ∈ stateN.proj.controller := by simp [stateN, projN]
private theorem hsC : symC ∈ stateN.proj.controller := by simp [stateN, projN]
private theorem hsD : symD ∈ stateN.proj.controller := by simp [stateN, projN]
private theorem hsE : symE ∈ stateN.proj.controller := by simp [stateN, projN]
private theorem hsArrN : symArr ∈ stateN.proj.controller := by simp [stateN, projN]

private theorem okA : ldwn_ScalarOk cfgN stateN.proj xA :=
  ⟨hsA, uniqNN symA hsA, uniqIN symA hsA, ⟨by decide, by decide, by decide⟩, by decide, by decide, rfl, rfl, rfl, rfl,
   by rfl, ⟨rfl, rfl, rfl, rfl, rfl⟩, ⟨5, rfl, by decide, by decide⟩, by rfl⟩
private theorem okA' : ldwn_ScalarOk cfgN stateN.proj xA' :=
  ⟨hsA, uniqNN symA hsA, uniqIN symA hsA, ⟨by decide, by decide, by decide⟩, by decide, by decide, rfl, rfl, rfl, rfl,
   by rfl, ⟨rfl, rfl, rfl, rfl, rfl⟩, ⟨9, rfl, by decide, by decide⟩, by rfl⟩
private theorem okB : ldwn_ScalarOk cfgN stateN.proj xB :=
  ⟨hsB, uniqNN symB hsB, uniqIN symB hsB, ⟨by decide, by decide, by decide⟩, by decide, by decide, rfl, rfl, rfl, rfl,
   by rfl, ⟨rfl, rfl, rfl, rfl, rfl⟩, ⟨-6, rfl, by decide, by decide⟩, by rfl⟩
private theorem okC : ldwn_ScalarOk cfgN stateN.proj xC :=
  ⟨hsC, uniqNN symC hsC, uniqIN symC hsC, ⟨by decide, by decide, by decide⟩, by decide, by decide, rfl, rfl, rfl, rfl,
   by rfl, ⟨rfl, rfl, rfl, rfl, rfl⟩, ⟨true, rfl⟩, by rfl⟩
private theorem okD : ldwn_ScalarOk cfgN stateN.proj xD :=
  ⟨hsD, uniqNN symD hsD, uniqIN symD hsD, ⟨by decide, by decide, by decide⟩, by decide, by decide, rfl, rfl, rfl, rfl,
   by rfl, ⟨rfl, rfl, rfl, rfl, rfl⟩, ⟨0x3FF8000000000000, rfl, by decide⟩, by rfl⟩
private theorem okE : ldwn_ScalarOk cfgN stateN.proj xE :=
  ⟨hsE, uniqNN symE hsE, uniqIN symE hsE, ⟨by decide, by decide, by decide⟩, by decide, by decide, rfl, rfl, rfl, rfl,
   by rfl, ⟨rfl, rfl, rfl, rfl, rfl⟩, ⟨-1, rfl, by decide, by decide⟩, by rfl⟩
private theorem okOob9 : ldwn_OobOk cfgN stateN.proj (oob 9) :=
  ⟨hsArrN, uniqNN symArr hsArrN, uniqIN symArr hsArrN, ⟨by decide, by decide, by decide⟩, by decide, by decide, rfl, rfl,
   rfl, by decide, by decide, by rfl, ⟨rfl, rfl, rfl, rfl, rfl⟩, ⟨1, rfl, by decide, by decide⟩, by rfl, by decide, by decide⟩
private theorem okOob4 : ldwn_OobOk cfgN stateN.proj (oob 4) :=
  ⟨hsArrN, uniqNN symArr hsArrN, uniqIN symArr hsArrN, ⟨by decide, by decide, by decide⟩, by decide, by decide, rfl, rfl,
   rfl, by decide, by decide, by rfl, ⟨rfl, rfl, rfl, rfl, rfl⟩, ⟨1, rfl, by decide, by decide⟩, by rfl, by decide, by decide⟩

private theorem okFive : ∀ x ∈ five, ldwn_ScalarOk cfgN stateN.proj x := by
  intro x hx
  simp only [five, List.mem_cons, List.not_mem_nil, or_false] at hx
  rcases hx with rfl | rfl | rfl | rfl | rfl
  · exact okA
  · exact okB
  · exact okC
  · exact okD
  · exact okE

private theorem acctFive : five.map (·.acct cfgN) = [16, 14, 13, 20, 13] := by decide +kernel

/-- every hypothesis of `write_n_tags_one_packet_e2e` holds for the concrete world with the 4000-byte connection:
    the five writes go out in ONE frame, six sequence numbers are drawn, the five Tags come back in order, and the
    project afterwards has the five memories replaced and five log entries in request order -/
example : ∃ w' frm, write hookAll cfgN (worldN 4000) tvs5 =
      (w', .ok [{ tag := Drv.nm "abc", value := .int 5, type := some (Drv.nm "DINT"), error := none },
                { tag := Drv.nm "xyz", value := .int (-6), type := some (Drv.nm "INT"), error := none },
                { tag := Drv.nm "flag", value := .bool true, type := some (Drv.nm "BOOL"), error := none },
                { tag := Drv.nm "level", value := .float 0x3FF8000000000000, type := some (Drv.nm "LREAL"), error := none },
                { tag := Drv.nm "cnt", value := .int (-1), type := some (Drv.nm "SINT"), error := none }]) ∧
    w'.drv = ldwn_seqN 6 (worldN 4000).drv ∧ w'.net.sent = (worldN 4000).net.sent ++ [frm] ∧
    w'.net.target.ext =
      { (worldN 4000).net.target.ext with
        logix := some { stateN with proj :=
          { projN with
            controller := [{ symA with mem := [5, 0, 0, 0] }, symArr, { symB with mem := [0xFA, 0xFF] },
                           { symC with mem := [0xFF] }, { symD with mem := [0, 0, 0, 0, 0, 0, 0xF8, 0x3F] },
                           { symE with mem := [0xFF] }],
            writeLog := [(7, 0, 4), (11, 0, 2), (13, 0, 1), (14, 0, 8), (15, 0, 1)] } } } ∧
    ldr_Healthy w' 4097 [238, 255, 192, 0] { connN 4000 with lastSeq := some (ldwn_seqN 5 (worldN 4000).drv).nextSeq.1 } := by
  obtain ⟨w', frm, h1, h2, h3, h4, _, h6⟩ := write_n_tags_one_packet_e2e cfgN (worldN 4000) 4097 [238, 255, 192, 0]
    (connN 4000) stateN five healthyN4000 (by rfl) rfl (by decide) bytesN okFive
    (by rw [acctFive]; decide +kernel) (by decide +kernel) (by decide +kernel)
  exact ⟨w', frm, h1, h2, h3, h4, h6⟩

/-- … of `write_n_tags_effect`: the five symbols are distinct, each holds its bytes afterwards -/
example : (∀ x ∈ five, ldwn_symAfter five x.s = { x.s with mem := x.bytes }) ∧ ldwn_symAfter five symArr = symArr ∧
    (ldwn_writtenAll projN five).writeLog = [(7, 0, 4), (11, 0, 2), (13, 0, 1), (14, 0, 8), (15, 0, 1)] := by
  obtain ⟨_, _, _, _, h5, _, h7, h8⟩ := write_n_tags_effect projN five
    (fun x hx s' hs' e => uniqIN x.s (okFive x hx).mem s' hs' e)
    (fun x hx => by
      simp only [five, List.mem_cons, List.not_mem_nil, or_false] at hx
      rcases hx with rfl | rfl | rfl | rfl | rfl <;> rfl)
  exact ⟨h7 (by decide), h5 symArr (by decide), h8⟩

/-- … of `write_n_tags_effect` WITHOUT distinctness: `abc` written with 5, `xyz`, `abc` written with 9 — `abc` holds
    the later value, the log shows all three writes -/
example : ldwn_symAfter [xA, xB, xA'] symA = { symA with mem := [9, 0, 0, 0] } ∧
    (ldwn_writtenAll projN [xA, xB, xA']).writeLog = [(7, 0, 4), (11, 0, 2), (7, 0, 4)] := by
  obtain ⟨_, _, _, _, _, h6, _, h8⟩ := write_n_tags_effect projN [xA, xB, xA']
    (fun x hx s' hs' e => by
      simp only [List.mem_cons, List.not_mem_nil, or_false] at hx
      rcases hx with rfl | rfl | rfl
      · exact uniqIN symA hsA s' hs' e
      · exact uniqIN symB hsB s' hs' e
      · exact uniqIN symA hsA s' hs' e)
    (fun x hx => by
      simp only [List.mem_cons, List.not_mem_nil, or_false] at hx
      rcases hx with rfl | rfl | rfl <;> rfl)
  exact ⟨(h6 symA xA' rfl).2.2, h8⟩

/-- every hypothesis of `write_n_tags_e2e` holds for the world with the 60-byte connection: the driver's grouping
    makes TWO packets of the five requests (`abc`, `xyz`, `flag` | `level`, `cnt`), two frames, seven sequence
    numbers; the effect is the same -/
example : ∃ w' frms ls, write hookAll cfgN (worldN 60) tvs5 = (w', .ok (five.map (·.result))) ∧
    frms.length = 2 ∧ w'.drv = ldwn_seqN 7 (worldN 60).drv ∧ w'.net.sent = (worldN 60).net.sent ++ frms ∧
    w'.net.target.ext =
      { (worldN 60).net.target.ext with logix := some { stateN with proj := ldwn_writtenAll projN five } } ∧
    ldr_Healthy w' 4097 [238, 255, 192, 0] { connN 60 with lastSeq := ls } := by
  obtain ⟨w', frms, ls, h1, h2, h3, h4, h5, _, h7⟩ := write_n_tags_e2e cfgN (worldN 60) 4097 [238, 255, 192, 0]
    (connN 60) stateN five healthyN60 (by rfl) rfl (by decide) bytesN okFive
    (by
      intro x hx
      have : x.acct cfgN ∈ five.map (·.acct cfgN) := List.mem_map_of_mem hx
      rw [acctFive] at this
      have hc : (worldN 60).drv.connectionSize = 60 := by decide +kernel
      rw [hc]
      simp only [List.mem_cons, List.not_mem_nil, or_false] at this
      have hoh : K.OVERHEAD = 10 := rfl
      omega)
    (by decide +kernel) (by decide +kernel)
  have hk : (K.plan (worldN 60).drv.connectionSize (ldwn_planItems 0 (five.map (·.acct cfgN)))).groups = [[0, 1, 2], [3, 4]] := by
    rw [acctFive]; decide +kernel
  rw [hk] at h2
  have h2' : frms.length = 2 := h2
  rw [h2'] at h3
  exact ⟨w', frms, ls, h1, h2', h3, h4, h5, h7⟩

/-- every hypothesis of `write_n_tags_isolated_e2e` holds: good, refused, good, refused, good — in one call on the
    4000-byte connection: five Tags in request order, the refused ones falsy with the controller's error text, and the
    project afterwards shows exactly the three scalar writes, in order -/
example : ∃ w' frms ls, write hookAll cfgN (worldN 4000)
        [(Drv.nm "abc", .int 5), (Drv.nm "arr[9]", .int 1), (Drv.nm "xyz", .int (-6)), (Drv.nm "arr[4]", .int 1),
         (Drv.nm "abc", .int 9)] =
      (w', .ok [{ tag := Drv.nm "abc", value := .int 5, type := some (Drv.nm "DINT"), error := none },
                { tag := Drv.nm "arr[9]", value := .int 1, type := some (Drv.nm "DINT"), error := some oobError },
                { tag := Drv.nm "xyz", value := .int (-6), type := some (Drv.nm "INT"), error := none },
                { tag := Drv.nm "arr[4]", value := .int 1, type := some (Drv.nm "DINT"), error := some oobError },
                { tag := Drv.nm "abc", value := .int 9, type := some (Drv.nm "DINT"), error := none }]) ∧
    frms.length = 1 ∧ w'.drv = ldwn_seqN 6 (worldN 4000).drv ∧ w'.net.sent = (worldN 4000).net.sent ++ frms ∧
    w'.net.target.ext =
      { (worldN 4000).net.target.ext with
        logix := some { stateN with proj :=
          { projN with controller := [{ symA with mem := [9, 0, 0, 0] }, symArr, { symB with mem := [0xFA, 0xFF] }, symC, symD, symE],
                       writeLog := [(7, 0, 4), (11, 0, 2), (7, 0, 4)] } } } ∧
    ldr_Healthy w' 4097 [238, 255, 192, 0] { connN 4000 with lastSeq := ls } := by
  have hacct : ([ldwn_Req.scalar xA, .oob (oob 9), .scalar xB, .oob (oob 4), .scalar xA'].map (·.acct cfgN)) =
      [16, 18, 14, 18, 16] := by decide +kernel
  obtain ⟨w', frms, ls, h1, _, _, h4, h5, h6, h7, h8⟩ := write_n_tags_isolated_e2e cfgN (worldN 4000) 4097 [238, 255, 192, 0]
    (connN 4000) stateN [.scalar xA, .oob (oob 9), .scalar xB, .oob (oob 4), .scalar xA'] healthyN4000 (by rfl) rfl (by decide)
    bytesN
    (by
      intro r hr
      simp only [List.mem_cons, List.not_mem_nil, or_false] at hr
      rcases hr with rfl | rfl | rfl | rfl | rfl
      · exact okA
      · exact okOob9
      · exact okB
      · exact okOob4
      · exact okA')
    (by
      intro r hr
      have : r.acct cfgN ∈ [ldwn_Req.scalar xA, .oob (oob 9), .scalar xB, .oob (oob 4), .scalar xA'].map (·.acct cfgN) :=
        List.mem_map_of_mem hr
      rw [hacct] at this
      have hc : (worldN 4000).drv.connectionSize = 4000 := by decide +kernel
      rw [hc]
      simp only [List.mem_cons, List.not_mem_nil, or_false] at this
      have hoh : K.OVERHEAD = 10 := rfl
      omega)
    (by decide +kernel) (by decide +kernel)
  have hk : (K.plan (worldN 4000).drv.connectionSize (ldwn_planItems 0
      ([ldwn_Req.scalar xA, .oob (oob 9), .scalar xB, .oob (oob 4), .scalar xA'].map (·.acct cfgN)))).groups = [[0, 1, 2, 3, 4]] := by
    rw [hacct]; decide +kernel
  rw [hk] at h4
  have h4' : frms.length = 1 := h4
  rw [h4'] at h5
  have e9 : symArr.name ++ [91] ++ decRender 9 ++ [93] = Drv.nm "arr[9]" := by
    rw [ldr2_decRender_small 9 (by omega)]; rfl
  have e4 : symArr.name ++ [91] ++ decRender 4 ++ [93] = Drv.nm "arr[4]" := by
    rw [ldr2_decRender_small 4 (by omega)]; rfl
  simp only [List.map_cons, List.map_nil, ldwn_Req.tag, ldwn_Req.v, ldwn_Req.result, oob, e9, e4] at h1
  exact ⟨w', frms, ls, h1, h4', h5, h6, h7, h8⟩

/-! #### several bits of one tag -/

-- `abc` = 42 = 0b101010: set bit 0, clear bit 1, set bit 4, then clear bit 0 again (last wins): 0b111000 = 56;
-- ONE frame, ONE sequence number, ONE log entry, four Tags
#guard woutN 4000 [(Drv.nm "abc.0", .bool true), (Drv.nm "abc.1", .int 0), (Drv.nm "abc.4", .int 7), (Drv.nm "abc.0", .bool false)] ==
  some ([(Drv.nm "abc.0", some (Drv.nm "BOOL"), true), (Drv.nm "abc.1", some (Drv.nm "BOOL"), true),
         (Drv.nm "abc.4", some (Drv.nm "BOOL"), true), (Drv.nm "abc.0", some (Drv.nm "BOOL"), true)],
        [[56, 0, 0, 0], symArr.mem, symB.mem, symC.mem, symD.mem, symE.mem], [(7, 0, 4)], 1, 1)

def bits4 : List (Name × PyVal) :=
  [(Drv.nm "0", .bool true), (Drv.nm "1", .int 0), (Drv.nm "4", .int 7), (Drv.nm "0", .bool false)]

/-- every hypothesis of `write_n_bits_e2e` holds: the four bit requests on `abc` travel in ONE Read-Modify-Write
    request, four Tags come back, and `abc` is 56 afterwards -/
example : ∃ w' frm, write hookAll cfgN (worldN 4000)
        [(Drv.nm "abc.0", .bool true), (Drv.nm "abc.1", .int 0), (Drv.nm "abc.4", .int 7), (Drv.nm "abc.0", .bool false)] =
      (w', .ok [{ tag := Drv.nm "abc.0", value := .bool true, type := some (Drv.nm "BOOL"), error := none },
                { tag := Drv.nm "abc.1", value := .int 0, type := some (Drv.nm "BOOL"), error := none },
                { tag := Drv.nm "abc.4", value := .int 7, type := some (Drv.nm "BOOL"), error := none },
                { tag := Drv.nm "abc.0", value := .bool false, type := some (Drv.nm "BOOL"), error := none }]) ∧
    w'.drv = (worldN 4000).drv.nextSeq.2 ∧ w'.net.sent = (worldN 4000).net.sent ++ [frm] ∧
    w'.net.target.ext =
      { (worldN 4000).net.target.ext with
        logix := some { stateN with proj :=
          { projN with controller := [{ symA with mem := [56, 0, 0, 0] }, symArr, symB, symC, symD, symE],
                       writeLog := [(7, 0, 4)] } } } := by
  obtain ⟨w', frm, h1, h2, h3, h4, _, _, _⟩ := write_n_bits_e2e cfgN (worldN 4000) 4097 [238, 255, 192, 0] (connN 4000) stateN
    symA (scalarInfo "DINT" (.int .dint) 7) 0xC4 4 (Drv.nm "DINT") (.int .dint) bits4 healthyN4000 (by rfl) rfl (by decide)
    hsA bytesN (uniqNN symA hsA) (uniqIN symA hsA) ⟨by decide, by decide, by decide⟩ (by decide) (by decide) rfl rfl rfl rfl
    (by decide) (by rfl) ⟨rfl, rfl, rfl, rfl, rfl⟩
    (by
      intro b hb
      simp only [bits4, List.mem_cons, List.not_mem_nil, or_false] at hb
      rcases hb with rfl | rfl | rfl | rfl <;> exact ⟨by decide, by decide⟩)
    (by decide)
  have hv : written stateN.proj (ldr_loc symA 0xC4) 0 (le 4 (K.rmwResult 4 (leVal symA.mem) (K.applyOps (ldwn_ops bits4)))) =
      { projN with controller := [{ symA with mem := [56, 0, 0, 0] }, symArr, symB, symC, symD, symE],
                   writeLog := [(7, 0, 4)] } := by
    have hb : le 4 (K.rmwResult 4 (leVal symA.mem) (K.applyOps (ldwn_ops bits4))) = [56, 0, 0, 0] := by decide +kernel
    rw [hb]; rfl
  rw [hv] at h4
  exact ⟨w', frm, h1, h2, h3, h4⟩

/-- … of `write_n_tags_scalar_ok_db`: the database of `cfgN` is the one computed from the project -/
example : ∃ info, ldwn_ScalarOk cfgN projN
    { s := symB, info := info, c := 0xC3, sz := 2, tname := Drv.nm "INT", t := .int .int, v := .int (-6), bytes := [0xFA, 0xFF] } :=
  write_n_tags_scalar_ok_db cfgN projN symB 2 (Drv.nm "INT") (.int .int) (.int (-6)) [0xFA, 0xFF] false hsB (uniqNN symB hsB)
    (uniqIN symB hsB) ⟨by decide, by decide, by decide⟩ (by decide) (by decide) (by decide) rfl rfl rfl rfl (by decide) (by rfl)
    ⟨-6, rfl, by decide, by decide⟩ (by rfl)

/-! #### the hypotheses: what the model does outside them -/

-- STATEMENT CHANGED (`write_n_tags_one_packet_e2e`, `write_n_tags_e2e`, `write_n_tags_isolated_e2e`): the hypothesis
-- "pairwise distinct tags" was dropped instead of assumed. Two requests naming the SAME tag are both sent and both
-- applied, in request order, so the statement "afterwards every s_i holds the encoding of v_i" is false for the
-- earlier one: the tag holds the LAST value requested for it and the write log shows both writes. The theorems state
-- the project as `ldwn_writtenAll` (one `written` per request, in order) and `write_n_tags_effect` describes it
-- (`ldwn_symAfter`: last request wins; with `Nodup` instance ids every s_i holds exactly v_i). Model run:
#guard woutN 4000 [(Drv.nm "abc", .int 5), (Drv.nm "abc", .int 9)] ==
  some ([(Drv.nm "abc", some (Drv.nm "DINT"), true), (Drv.nm "abc", some (Drv.nm "DINT"), true)],
        [[9, 0, 0, 0], symArr.mem, symB.mem, symC.mem, symD.mem, symE.mem], [(7, 0, 4), (7, 0, 4)], 1, 3)

/-- the driver believes in a 4000-byte connection while the target holds a 60-byte one -/
def worldBad : Cli.World Ext := { worldN 60 with drv := { (worldN 60).drv with connectionSize := 4000 } }

-- `hCT` (the connection the target holds is at least as large as the driver believes; true after every Forward Open
-- of the model, where the target grants the requested size): without it the driver packs all five requests into one
-- 95-byte packet, the target refuses the oversized frame, all five Tags are falsy and nothing is written
#guard wout worldBad cfgN tvs5 ==
  some ([(Drv.nm "abc", none, false), (Drv.nm "xyz", none, false), (Drv.nm "flag", none, false),
         (Drv.nm "level", none, false), (Drv.nm "cnt", none, false)],
        [symA.mem, symArr.mem, symB.mem, symC.mem, symD.mem, symE.mem], [], 1, 6)

-- `hfit1` (`write_n_tags_e2e`): a request whose message alone exceeds the packet (here a 29-byte connection:
-- 20 + 10 > 29 for `level`) leaves the multi-service path: it is sent with Write Tag Fragmented after the packets
#guard (woutN 29 tvs5).map (fun r => (r.2.2.1, r.2.2.2)) ==
  some ([(7, 0, 4), (11, 0, 2), (13, 0, 1), (15, 0, 1), (14, 0, 8)], 5, 11)

-- `hn`: a single request takes the single-request path (one plain Write Tag, ONE sequence number): `write_atomic_scalar_e2e`
#guard (woutN 4000 [(Drv.nm "abc", .int 5)]).map (fun r => (r.2.2.1, r.2.2.2)) == some ([(7, 0, 4)], 1, 1)

end ExWN

end Pycomm.Lgx.Drv
