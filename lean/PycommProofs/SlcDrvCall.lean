/-
  SLCDriver.read / write at the driver level, helper layer 3: the public calls with ONE address on a healthy connected
  world, expressed through the table-level functions of SlcExt (`readAddr`, `writeAddr`), so that every table-level
  theorem of SlcProofsExt lifts to the driver.
-/
import PycommProofs.SlcDrvSend
namespace Pycomm.Slc.Drv
open Pycomm Pycomm.Tgt Pycomm.Path Pycomm.Encap Pycomm.Slc Pycomm.Lgx.Drv

theorem sdr_fieldBytes_len (n : Nat) : (fieldBytes n).length ≤ 3 := by
  unfold fieldBytes
  split <;> simp

/-- the explicit address fields are at most 11 bytes -/
theorem sdr_fields_len (size fn tc el p : Nat) :
    ([UInt8.ofNat size] ++ fieldBytes fn ++ [UInt8.ofNat tc] ++ fieldBytes el ++ fieldBytes p).length ≤ 11 := by
  have h1 := sdr_fieldBytes_len fn
  have h2 := sdr_fieldBytes_len el
  have h3 := sdr_fieldBytes_len p
  simp only [List.length_append, List.length_cons, List.length_nil]
  omega

/-- `SLCDriver.read(address)` with one accepted address on a healthy connected world: the result list holds exactly
    the Tag made of what the reference data table answers for the address (`readAddr`, SlcExt) -/
theorem sdr_read_one (w : Cli.World Ext) (sess : Nat) (cidb : Bytes) (conn : Conn) (tbl : Table) (t : Name) (a : Addr)
    (hH : ldr_Healthy w sess cidb conn) (htbl : w.net.target.ext.slc = some tbl)
    (hvid : w.drv.vid.length = 2) (hvsn : w.drv.vsn.length = 4) (hC : 64 ≤ conn.size)
    (hparse : parseTag t = some a) (hs : dataSize a.fileType * a.count ≤ 255) (hp : a.posNumber < 65536) :
    ∃ w' frm, slcRead hookAll w [t] = (w', .ok [sdr_readTagOf a (readAddr tbl a)]) ∧
      w'.drv = w.drv.nextSeq.2.nextSeq.2 ∧ w'.net.sent = w.net.sent ++ [frm] ∧
      w'.net.target.ext = w.net.target.ext ∧
      ldr_Healthy w' sess cidb { conn with lastSeq := some w.drv.nextSeq.2.nextSeq.1 } := by
  have hr := parse_accepts_in_range t a hparse
  have hf := slx_addressFields a _ hs (by have := hr.file; omega) (by have := hr.elem; omega) hp
  have hfl := sdr_fields_len (dataSize a.fileType * a.count) a.fileNumber (typeCode a.fileType) a.element a.posNumber
  obtain ⟨w', frm, hread, h1, h2, h3, h4⟩ := sdr_readTag w sess cidb conn tbl t a _ hH htbl hvid hvsn hparse hf
    (by omega) (by omega)
  have hra : readAddr tbl a = targetRead tbl ([UInt8.ofNat (dataSize a.fileType * a.count)] ++ fieldBytes a.fileNumber ++
      [UInt8.ofNat (typeCode a.fileType)] ++ fieldBytes a.element ++ fieldBytes a.posNumber) := by
    simp only [readAddr, hf]
  refine ⟨w', frm, ?_, h1, h2, h3, h4⟩
  unfold slcRead
  rw [sdr_FUEL, sdr_ensureFO_connected hookAll 7 w hH.connected]
  simp only [readTags, hread, hra]

/-- one `_read_tag` in terms of `readAddr` (the core of `sdr_read_one`) -/
theorem sdr_readTag_addr (w : Cli.World Ext) (sess : Nat) (cidb : Bytes) (conn : Conn) (tbl : Table) (t : Name) (a : Addr)
    (hH : ldr_Healthy w sess cidb conn) (htbl : w.net.target.ext.slc = some tbl)
    (hvid : w.drv.vid.length = 2) (hvsn : w.drv.vsn.length = 4) (hC : 64 ≤ conn.size)
    (hparse : parseTag t = some a) (hs : dataSize a.fileType * a.count ≤ 255) (hp : a.posNumber < 65536) :
    ∃ w' frm, readTag hookAll w t = (w', .ok (sdr_readTagOf a (readAddr tbl a))) ∧
      w'.drv = w.drv.nextSeq.2.nextSeq.2 ∧ w'.net.sent = w.net.sent ++ [frm] ∧
      w'.net.target.ext = w.net.target.ext ∧
      ldr_Healthy w' sess cidb { conn with lastSeq := some w.drv.nextSeq.2.nextSeq.1 } := by
  have hr := parse_accepts_in_range t a hparse
  have hf := slx_addressFields a _ hs (by have := hr.file; omega) (by have := hr.elem; omega) hp
  have hfl := sdr_fields_len (dataSize a.fileType * a.count) a.fileNumber (typeCode a.fileType) a.element a.posNumber
  obtain ⟨w', frm, hread, h1, h2, h3, h4⟩ := sdr_readTag w sess cidb conn tbl t a _ hH htbl hvid hvsn hparse hf
    (by omega) (by omega)
  refine ⟨w', frm, ?_, h1, h2, h3, h4⟩
  rw [hread]
  simp only [readAddr, hf]

/-- `[self._read_tag(tag) for tag in addresses]` for any list of accepted addresses whose requests can be built: one
    Tag per address, in order, each what the data table answers for that address alone; one frame per address; the
    data table unchanged; healthy again (on the same connection, whose last sequence count moved on) -/
theorem sdr_readTags_all (tbl : Table) (sess : Nat) (cidb : Bytes) (tas : List (Name × Addr)) :
    ∀ (w : Cli.World Ext) (conn : Conn), ldr_Healthy w sess cidb conn → w.net.target.ext.slc = some tbl →
      w.drv.vid.length = 2 → w.drv.vsn.length = 4 → 64 ≤ conn.size →
      (∀ p ∈ tas, parseTag p.1 = some p.2 ∧ dataSize p.2.fileType * p.2.count ≤ 255 ∧ p.2.posNumber < 65536) →
      ∃ w' frames conn', readTags hookAll w (tas.map (·.1)) =
          (w', .ok (tas.map fun p => sdr_readTagOf p.2 (readAddr tbl p.2))) ∧
        w'.net.sent = w.net.sent ++ frames ∧ frames.length = tas.length ∧
        w'.net.target.ext = w.net.target.ext ∧ w'.drv.vid = w.drv.vid ∧ w'.drv.vsn = w.drv.vsn ∧
        ldr_Healthy w' sess cidb conn' ∧ conn'.size = conn.size ∧ conn'.toId = conn.toId := by
  induction tas with
  | nil =>
    intro w conn hH _ _ _ _ _
    exact ⟨w, [], conn, rfl, by simp, rfl, rfl, rfl, rfl, hH, rfl, rfl⟩
  | cons p rest ih =>
    intro w conn hH htbl hvid hvsn hC hall
    obtain ⟨hp1, hp2, hp3⟩ := hall p List.mem_cons_self
    obtain ⟨w1, frm, h1, hd1, hs1, he1, hH1⟩ := sdr_readTag_addr w sess cidb conn tbl p.1 p.2 hH htbl hvid hvsn hC hp1 hp2 hp3
    obtain ⟨w2, frames, conn2, h2, hs2, hl2, he2, hv2, hn2, hH2, hz2, ht2⟩ := ih w1 _ hH1 (by rw [he1]; exact htbl)
      (by rw [hd1]; exact hvid) (by rw [hd1]; exact hvsn) (by show 64 ≤ conn.size; exact hC)
      (fun q hq => hall q (List.mem_cons_of_mem _ hq))
    refine ⟨w2, frm :: frames, conn2, ?_, ?_, by simp [hl2], by rw [he2, he1], by rw [hv2, hd1]; rfl,
      by rw [hn2, hd1]; rfl, hH2, hz2, ht2⟩
    · simp only [List.map_cons, readTags, h1, h2]
    · rw [hs2, hs1, List.append_assoc]
      rfl

/-- a size byte that encodes is at most 255 -/
theorem sdr_fields_ok_size (a : Addr) (size : Nat) (f : Bytes) (h : addressFields a size = .ok f) : size ≤ 255 := by
  by_cases hs : size ≤ 255
  · exact hs
  · exfalso
    unfold addressFields at h
    rw [slx_packUsint_err size (by omega)] at h
    cases h

/-- a successful write at the table level, taken apart: the value `writeable_value` made, the address fields, the
    target's masked write; and the sizes of the pieces -/
theorem sdr_writeAddr_ok (tbl : Table) (a : Addr) (v : PyVal) (tbl' : Table) (hf : a.fileNumber ≤ 255)
    (he : a.element ≤ 255) (hw : writeSub a < 65536) (h : writeAddr tbl a v = .ok tbl') :
    ∃ val sz fields, writeableValue a v = .ok (val, sz) ∧ writeAddressFields a (sz * a.count) = .ok fields ∧
      targetWrite tbl (fields ++ val) = .ok tbl' ∧ fields.length ≤ 11 ∧ val.length ≤ 257 := by
  unfold writeAddr at h
  cases hwv : writeableValue a v with
  | error e => rw [hwv] at h; cases h
  | ok p =>
    obtain ⟨val, sz⟩ := p
    rw [hwv] at h
    simp only at h
    cases hfl : writeAddressFields a (sz * a.count) with
    | error e => rw [hfl] at h; cases h
    | ok fields =>
      rw [hfl] at h
      simp only at h
      have hs : sz * a.count ≤ 255 := sdr_fields_ok_size _ _ _ hfl
      have hfe := slx_writeAddressFields a (sz * a.count) hs (by omega) (by omega) hw
      rw [hfe] at hfl
      injection hfl with hfl
      subst hfl
      refine ⟨val, sz, _, rfl, hfe, h, sdr_fields_len _ _ _ _ _, ?_⟩
      -- the masked write succeeded: the data are as long as the size byte says
      unfold targetWrite at h
      rw [slx_decodeAddress _ _ _ _ _ val hs (slx_typeCode_le a.fileType) (by omega) (by omega) hw] at h
      simp only at h
      split at h
      · cases h
      · unfold maskedWrite at h
        split at h
        · cases h
        · split at h
          · cases h
          · split at h
            · cases h
            · rename_i hsz
              simp only [List.length_drop, not_or, Decidable.not_not] at hsz
              omega

/-- `SLCDriver.write((address, value))` with one accepted address and a value other than `bytes` / `dict`, on a
    healthy connected world whose data table accepts the request (`writeAddr … = .ok tbl'`, SlcExt): the result list
    holds exactly the Tag echoing the value, the target's data table is `tbl'`, nothing else of the target's
    extension state changed -/
theorem sdr_write_one (w : Cli.World Ext) (sess : Nat) (cidb : Bytes) (conn : Conn) (tbl tbl' : Table) (t : Name)
    (a : Addr) (v : PyVal)
    (hH : ldr_Healthy w sess cidb conn) (htbl : w.net.target.ext.slc = some tbl)
    (hvid : w.drv.vid.length = 2) (hvsn : w.drv.vsn.length = 4) (hC : 500 ≤ conn.size)
    (hparse : parseTag t = some a) (hnb : ∀ b, v ≠ .bytes b) (hnd : ∀ kvs, v ≠ .dict kvs)
    (hp : a.posNumber < 65536) (hwa : writeAddr tbl a v = .ok tbl') :
    ∃ w' frm, slcWrite hookAll w [(t, v)] =
        (w', .ok [{ tag := a.tag, value := v, type := a.fileType, error := none }]) ∧
      w'.drv = w.drv.nextSeq.2.nextSeq.2 ∧ w'.net.sent = w.net.sent ++ [frm] ∧
      w'.net.target.ext = { w.net.target.ext with slc := some tbl' } ∧
      ldr_Healthy w' sess cidb { conn with lastSeq := some w.drv.nextSeq.2.nextSeq.1 } := by
  have hr := parse_accepts_in_range t a hparse
  have hws : writeSub a < 65536 := by
    rw [slx_writeSub]
    split
    · have := hr.sub; omega
    · exact hp
  obtain ⟨val, sz, fields, hwv, hfl, htw, hl1, hl2⟩ := sdr_writeAddr_ok tbl a v tbl' hr.file hr.elem hws hwa
  obtain ⟨w', frm, hwrite, h1, h2, h3, h4⟩ := sdr_writeTag w sess cidb conn tbl t a v val fields sz hH htbl hvid hvsn
    hparse hnb hnd hwv hfl (by omega) (by omega)
  rw [htw] at hwrite h3
  refine ⟨w', frm, ?_, h1, h2, h3, h4⟩
  unfold slcWrite
  rw [sdr_FUEL, sdr_ensureFO_connected hookAll 7 w hH.connected]
  simp only [writeTags, hwrite, sdr_writeTagOf]

/-- a write the data table refuses (`writeAddr … = .error e`, e ≠ 0: the request was built and the target answered
    STS e), taken apart -/
theorem sdr_writeAddr_refused (tbl : Table) (a : Addr) (v : PyVal) (e : Nat) (val : Bytes) (sz : Nat)
    (hf : a.fileNumber ≤ 255) (he : a.element ≤ 255) (hw : writeSub a < 65536)
    (hwv : writeableValue a v = .ok (val, sz)) (h : writeAddr tbl a v = .error e) (hne : e ≠ 0) :
    ∃ fields, writeAddressFields a (sz * a.count) = .ok fields ∧ targetWrite tbl (fields ++ val) = .error e ∧
      fields.length ≤ 11 := by
  unfold writeAddr at h
  rw [hwv] at h
  simp only at h
  cases hfl : writeAddressFields a (sz * a.count) with
  | error e' =>
    rw [hfl] at h
    simp only at h
    injection h with h
    exact absurd h.symm hne
  | ok fields =>
    rw [hfl] at h
    simp only at h
    have hs : sz * a.count ≤ 255 := sdr_fields_ok_size _ _ _ hfl
    have hfe := slx_writeAddressFields a (sz * a.count) hs (by omega) (by omega) hw
    rw [hfe] at hfl
    injection hfl with hfl
    subst hfl
    exact ⟨_, rfl, h, sdr_fields_len _ _ _ _ _⟩

/-- `SLCDriver.write((address, value))` that the data table refuses: one falsy Tag with the PCCC error text, no
    exception, the data table unchanged -/
theorem sdr_write_refused (w : Cli.World Ext) (sess : Nat) (cidb : Bytes) (conn : Conn) (tbl : Table) (t : Name)
    (a : Addr) (v : PyVal) (e : Nat) (val : Bytes) (sz : Nat)
    (hH : ldr_Healthy w sess cidb conn) (htbl : w.net.target.ext.slc = some tbl)
    (hvid : w.drv.vid.length = 2) (hvsn : w.drv.vsn.length = 4) (hC : 500 ≤ conn.size)
    (hparse : parseTag t = some a) (hnb : ∀ b, v ≠ .bytes b) (hnd : ∀ kvs, v ≠ .dict kvs)
    (hp : a.posNumber < 65536) (hwv : writeableValue a v = .ok (val, sz)) (hvl : val.length ≤ 400)
    (hwa : writeAddr tbl a v = .error e) (hne : e ≠ 0) :
    ∃ w' frm txt, slcWrite hookAll w [(t, v)] =
        (w', .ok [{ tag := a.tag, value := .none, type := a.fileType, error := some txt }]) ∧
      Status.lookupNat e Gen.pcccErrorCode = some txt ∧
      w'.drv = w.drv.nextSeq.2.nextSeq.2 ∧ w'.net.sent = w.net.sent ++ [frm] ∧
      w'.net.target.ext = w.net.target.ext ∧
      ldr_Healthy w' sess cidb { conn with lastSeq := some w.drv.nextSeq.2.nextSeq.1 } := by
  have hr := parse_accepts_in_range t a hparse
  have hws : writeSub a < 65536 := by
    rw [slx_writeSub]
    split
    · have := hr.sub; omega
    · exact hp
  obtain ⟨fields, hfl, htw, hl1⟩ := sdr_writeAddr_refused tbl a v e val sz hr.file hr.elem hws hwv hwa hne
  obtain ⟨w', frm, hwrite, h1, h2, h3, h4⟩ := sdr_writeTag w sess cidb conn tbl t a v val fields sz hH htbl hvid hvsn
    hparse hnb hnd hwv hfl (by omega) (by omega)
  rw [htw] at hwrite h3
  have hcode := sdr_targetWrite_codes tbl _ e htw
  have hsome : ∃ txt, Status.lookupNat e Gen.pcccErrorCode = some txt := by
    rcases hcode with rfl | rfl
    · exact ⟨_, rfl⟩
    · exact ⟨_, rfl⟩
  obtain ⟨txt, htxt⟩ := hsome
  refine ⟨w', frm, txt, ?_, htxt, h1, h2, ?_, h4⟩
  · unfold slcWrite
    rw [sdr_FUEL, sdr_ensureFO_connected hookAll 7 w hH.connected]
    simp only [writeTags, hwrite, sdr_writeTagOf, htxt, Option.getD_some]
  · rw [h3]
    simp only [sdr_tbl]
    exact sdr_ext_same _ tbl htbl

end Pycomm.Slc.Drv
