/-
  LogixDriver.write of an aligned range of a controller-scope BOOL array (a one-dimensional DWORD array tag):
  `name[32k]{32m}` with a list of `32m` bools goes out as ONE plain Write Tag of `m` DWORDs at `name[k]`.
-/
import PycommProofs.LDWrite2Array
import PycommProofs.CodecWire
namespace Pycomm.Lgx.Drv
open Pycomm Pycomm.Tgt Pycomm.Path Pycomm.Reply Pycomm.Encap Pycomm.Lgx Pycomm.Lgx.E2E

/-! ### `str(int)` of a natural number -/

theorem ldw2_digitChar (n : Nat) (h : n < 10) : (Nat.digitChar n).toNat = 48 + n := by
  revert n
  decide

theorem ldw2_toDigits (n : Nat) : (Nat.toDigits 10 n).map Char.toNat = decRender n := by
  induction n using Nat.strongRecOn with
  | _ n ih =>
    rw [Nat.toDigits_eq_if (by decide)]
    unfold decRender
    rw [decRev]
    by_cases h : n < 10
    · rw [if_pos h, dif_pos h]
      simp [ldw2_digitChar n h]
    · rw [if_neg h, dif_neg h, List.map_append, ih (n / 10) (by omega)]
      simp [ldw2_digitChar (n % 10) (by omega), decRender]

/-- python `str(n)` of a natural number is its decimal rendering -/
theorem ldw2_pyStrInt_nat (n : Nat) : pyStrInt ((n : Nat) : Int) = decRender n := by
  have hs : toString ((n : Nat) : Int) = toString n := rfl
  unfold pyStrInt
  have hl : (toString n).toList = Nat.toDigits 10 n := Nat.toList_repr
  rw [hs, hl, ldw2_toDigits]

/-! ### (a) parsing -/

/-- (a) a range starting at element `i` of a BOOL array, write side: the request addresses the DWORD `i / 32`;
    `bit` is the index, `elements` the number of DWORDs up to the one holding the last addressed bit -/
theorem ldw2_tail_dword (db : TagDb) (rid : Nat) (tag0 tag : Name) (elements : Int) (implicit : Bool)
    (name : Name) (i : Nat) (info : TagInfo) (hl : ldr2_Level ⟨name, [i]⟩) (hget : db.get? name = some info)
    (hd : isDword info = true)
    (hwords : ((i : Int) + elements) / 32 + (if ((i : Int) + elements) % 32 ≠ 0 then 1 else 0) ≤ 65535) :
    lds_tail db true rid tag0 tag elements implicit (renderLevel ⟨name, [i]⟩) none [] (renderLevel ⟨name, [i]⟩) =
      { requestId := rid, requestTag := tag0, userTag := tag, plcTag := renderLevel ⟨name, [i / 32]⟩, bit := some (i : Int),
        elements := ((i : Int) + elements) / 32 + (if ((i : Int) + elements) % 32 ≠ 0 then 1 else 0),
        info := some info, boolElements := if implicit || elements == 1 then none else some elements } := by
  have hnot : ¬ (((i : Int) + elements) / 32 + (if ((i : Int) + elements) % 32 ≠ 0 then 1 else 0) > 65535) := by omega
  have hdiv : (i : Int) / 32 = ((i / 32 : Nat) : Int) := by omega
  have hplc : name ++ [91] ++ pyStrInt ((i : Int) / 32) ++ [93] = renderLevel ⟨name, [i / 32]⟩ := by
    rw [hdiv, ldw2_pyStrInt_nat]
    simp [renderLevel, joinWith]
  unfold lds_tail
  simp only [ldr2_getTagInfo_level db ⟨name, [i]⟩ info hl hget, lds_bitBad, hd, Bool.false_eq_true, if_false, if_true,
    ldr2_getArrayIndex_one, Option.getD_some, hnot, hplc]

/-! ### (b) `encode_value` of an aligned range -/

/-- the elements of uniform chunks inside their concatenation -/
theorem ldw2_flatten_get {α} (w : Nat) (d : α) : ∀ (cs : List (List α)), (∀ c ∈ cs, c.length = w) →
    ∀ j b, j < cs.length → b < w → cs.flatten.getD (w * j + b) d = (cs.getD j []).getD b d := by
  intro cs
  induction cs with
  | nil => intro _ j b hj; simp at hj
  | cons c rest ih =>
    intro hall j b hj hb
    have hc : c.length = w := hall c (by simp)
    cases j with
    | zero =>
      simp only [List.flatten_cons, Nat.mul_zero, Nat.zero_add, List.getD_cons_zero]
      rw [List.getD_eq_getElem?_getD, List.getElem?_append_left (by omega), ← List.getD_eq_getElem?_getD]
    | succ j =>
      have hj' : j < rest.length := by simpa using hj
      simp only [List.flatten_cons, List.getD_cons_succ]
      rw [List.getD_eq_getElem?_getD, List.getElem?_append_right (by rw [hc, Nat.mul_succ]; omega),
        ← List.getD_eq_getElem?_getD]
      have e : w * (j + 1) + b - c.length = w * j + b := by rw [hc, Nat.mul_succ]; omega
      rw [e]
      exact ih (fun c' hc' => hall c' (List.mem_cons_of_mem _ hc')) j b hj' hb

/-- the codec's encoding of `32 * m` bools as an array of 32-bit bit strings: `m` DWORDs, and bit `b` of DWORD `j` is
    bool `32 * j + b` (least significant bit first, little-endian bytes) -/
theorem ldw2_encode_bits (m : Nat) (bools : List Bool) (bytes : Bytes) (hl : bools.length = 32 * m)
    (henc : encode (.arr (.fixed (32 * m)) (.bits .udint)) (.list (bools.map PyVal.bool)) = .ok bytes) :
    bytes.length = m * 4 ∧
    ∀ j b, j < m → b < 32 → (leVal ((bytes.drop (4 * j)).take 4)).testBit b = bools.getD (32 * j + b) false := by
  have hlen : (PyVal.list (bools.map PyVal.bool)).len? = some (32 * m) := by
    show some (bools.map PyVal.bool).length = _
    rw [List.length_map, hl]
  have hs : (PyVal.list (bools.map PyVal.bool)).seq? = some (bools.map PyVal.bool) := rfl
  obtain ⟨cs, hcl, hcw, hflat, hchunks⟩ := rtx_chunks 32 (by omega) m bools ((bools.map PyVal.bool).length + 1)
    (by rw [hl, Nat.mul_comm]) (by rw [List.length_map, hl]; omega)
  have hsz : IntK.udint.size = 4 := rfl
  have hib : (Ty.bits IntK.udint).isBits = some .udint := rfl
  have hdiv : 32 * m / (8 * IntK.udint.size) = m := by rw [hsz]; omega
  have htake : (cs.map fun c => c.map PyVal.bool).take m = cs.map fun c => c.map PyVal.bool := by
    rw [← hcl, ← List.length_map (f := fun (c : List Bool) => c.map PyVal.bool)]; exact List.take_length
  have hmm : (cs.map fun c => c.map PyVal.bool).map PyVal.list = cs.map fun c => PyVal.list (c.map PyVal.bool) := by
    rw [List.map_map]; rfl
  have hel : encodeList (encode (.bits .udint)) (cs.map fun c => PyVal.list (c.map PyVal.bool)) = .ok bytes := by
    unfold encode at henc
    simp only [hlen, hs, hib, Nat.lt_irrefl, decide_false, Bool.false_eq_true, if_false, hdiv] at henc
    rw [hsz] at henc
    rw [hchunks, htake, hmm] at henc
    cases h : encodeList (encode (.bits .udint)) (cs.map fun c => PyVal.list (c.map PyVal.bool)) with
    | ok bs => rw [h] at henc; simp only at henc; rw [← henc]
    | error e => rw [h] at henc; simp only at henc; cases henc
  have hone : ∀ c : List Bool, c.length = 32 →
      encode (.bits .udint) (.list (c.map PyVal.bool)) = .ok (leBytes 4 (bitsToNat (c.map PyVal.bool))) := by
    intro c hc
    simp [encode, encodeBits, PyVal.iter?, PyVal.seq?, hc, hsz]
  obtain ⟨hbl, hch⟩ := ldw2_encodeList_chunks (encode (.bits .udint)) 4 _ bytes
    (by
      intro x hx e he
      obtain ⟨c, hc, rfl⟩ := List.mem_map.1 hx
      rw [hone c (hcw c hc)] at he
      cases he
      exact leBytes_length _ _) hel
  rw [List.length_map, hcl] at hbl
  refine ⟨hbl, ?_⟩
  intro j b hj hb
  have hjc : j < (cs.map fun c => PyVal.list (c.map PyVal.bool)).length := by rw [List.length_map, hcl]; exact hj
  have h1 := hch j hjc
  rw [List.getElem_map, hone _ (hcw _ (List.getElem_mem _))] at h1
  have h2 : (bytes.drop (4 * j)).take 4 = leBytes 4 (bitsToNat ((cs[j]'(by rw [hcl]; exact hj)).map PyVal.bool)) := by
    have := h1.symm
    rw [Nat.mul_comm] at this
    exact (Except.ok.inj this)
  have hcj : (cs[j]'(by rw [hcl]; exact hj)).length = 32 := hcw _ (List.getElem_mem _)
  have hlt : bitsToNat ((cs[j]'(by rw [hcl]; exact hj)).map PyVal.bool) < 256 ^ 4 := by
    have := RT.bitsToNat_lt (cs[j]'(by rw [hcl]; exact hj))
    rw [hcj] at this
    exact this
  rw [h2, EN.leVal_leBytes _ _ hlt, WF.bitsToNat_testBit, ← hflat,
    ldw2_flatten_get 32 false cs hcw j b (by rw [hcl]; exact hj) hb]
  congr 1
  rw [List.getD_eq_getElem?_getD, List.getElem?_eq_getElem (by rw [hcl]; exact hj)]
  rfl

/-- the parsed write request for `32 * m` BOOLs from element `32 * k` of a BOOL array, with `el` DWORD elements -/
def ldw2_parsedBools (name : Name) (k m : Nat) (info : TagInfo) (v : PyVal) (el : Nat) : Parsed :=
  { requestId := 0, requestTag := ldr2_tagStr ⟨name, [32 * k]⟩ none (some (32 * m)),
    userTag := ldr2_tagStr ⟨name, [32 * k]⟩ none none, plcTag := renderLevel ⟨name, [k]⟩,
    bit := some ((32 * k : Nat) : Int), elements := ((el : Nat) : Int), info := some info,
    boolElements := some ((32 * m : Nat) : Int), value := v }

/-- (b) `encode_value` of an aligned BOOL-array range with a list of exactly `32 * m` bools: the element count of the
    request becomes the number `m` of DWORDs written, the bytes are the codec's encoding of the bools as `m` 32-bit
    bit strings -/
theorem ldw2_encodeValue_bools (name : Name) (k m : Nat) (info : TagInfo) (dim : Nat) (bools : List Bool) (bytes : Bytes)
    (hm : 1 ≤ m) (hdn : info.core.dataTypeName = nm "DWORD") (hty : info.core.ty = .arr (.fixed dim) (.bits .udint))
    (hl : bools.length = 32 * m)
    (henc : encode (.arr (.fixed (32 * m)) (.bits .udint)) (.list (bools.map PyVal.bool)) = .ok bytes) :
    encodeValue (ldw2_parsedBools name k m info (.list (bools.map PyVal.bool)) (k + m)) info =
      (ldw2_parsedBools name k m info (.list (bools.map PyVal.bool)) m, some bytes) := by
  have hdw : (info.core.dataTypeName == nm "DWORD") = true := by rw [hdn]; simp
  have hlen : (PyVal.list (bools.map PyVal.bool)).len? = some (32 * m) := by
    show some (bools.map PyVal.bool).length = _
    rw [List.length_map, hl]
  have h0 : ¬ (((32 * m : Nat) : Int) = 0) := by omega
  have h1 : (1 : Int) < ((32 * m : Nat) : Int) := by omega
  have h2 : ¬ (((32 * k : Nat) : Int) % 32 ≠ 0) := by omega
  have h3 : ((k + m : Nat) : Int) - ((32 * k : Nat) : Int) / 32 = ((m : Nat) : Int) := by omega
  have h4 : (((32 * m : Nat) : Int)).toNat = 32 * m := Int.toNat_natCast _
  unfold encodeValue
  simp only [ldw2_parsedBools, hdw, hty, Option.getD_some, ne_eq, h0, not_false_eq_true, if_true, h2, and_false, if_false,
    h3, gt_iff_lt, h1, hlen, Int.lt_irrefl, encodeArrayLen, h4, henc]

/-! ### the layers composed -/

/-- `write` of `32 * m` BOOLs (`m ≥ 1`) from element `32 * k` of a controller-scope BOOL array (a one-dimensional DWORD
    array tag of `dim` words, `k + m ≤ dim`), requested as `name[32k]{32m}` with a list of exactly `32 * m` bools -/
theorem ldw2_write_bools (cfg : Cfg) (w : Cli.World Ext) (sess : Nat) (cidb : Bytes) (conn : Conn)
    (st : LState) (s : Symbol) (info : TagInfo) (dim k m : Nat) (bools : List Bool) (bytes : Bytes)
    (hw : ldr_Healthy w sess cidb conn) (hlogix : w.net.target.ext.logix = some st)
    (hs : s ∈ st.proj.controller)
    (hbytes : ∀ s' ∈ st.proj.controller, ∀ ch ∈ s'.name, ch < 256)
    (huniqN : ∀ s' ∈ st.proj.controller, s'.name = s.name → s' = s)
    (huniqI : ∀ s' ∈ st.proj.controller, s'.inst = s.inst → s' = s)
    (hid : PlainIdent s.name) (hinst : s.inst < 2 ^ 32)
    (hty : elTyOfWord s.symbolType = .atomic 0xD3)
    (hdims : s.dims.filter (· != 0) = [dim]) (hlen : s.mem.length = dim * 4)
    (hget : cfg.tags.get? s.name = some info)
    (hinfo : ldr_InfoOf info (nm "DWORD") (.arr (.fixed dim) (.bits .udint)) s.inst)
    (hm : 1 ≤ m) (hkm : k + m ≤ dim) (hm16 : 32 * m ≤ 65535) (hkm16 : k + m ≤ 65535)
    (hl : bools.length = 32 * m)
    (henc : encode (.arr (.fixed (32 * m)) (.bits .udint)) (.list (bools.map PyVal.bool)) = .ok bytes)
    (hC : 2 * (m * 4) + s.name.length + 26 ≤ w.drv.connectionSize)
    (hT : m * 4 + s.name.length + 26 ≤ conn.size) :
    ∃ w' frm, write hookAll cfg w [(ldr2_tagStr ⟨s.name, [32 * k]⟩ none (some (32 * m)), .list (bools.map PyVal.bool))] =
        (w', .ok [{ tag := renderLevel ⟨s.name, [32 * k]⟩, value := .list (bools.map PyVal.bool),
                    type := some (nm "BOOL[" ++ renderDec ((32 * m : Nat) : Int) ++ [93]), error := none }]) ∧
      w'.drv = w.drv.nextSeq.2 ∧ w'.net.sent = w.net.sent ++ [frm] ∧
      w'.net.target.ext =
        { w.net.target.ext with logix := some { st with proj := ldw2_proj st.proj s (k * 4) bytes } } ∧
      ldr_Healthy w' sess cidb { conn with lastSeq := some w.drv.nextSeq.1 } := by
  have hl32 : ldr2_Level ⟨s.name, [32 * k]⟩ := ⟨hid, by simp, by simp; omega⟩
  have hlk : ldr2_Level ⟨s.name, [k]⟩ := ⟨hid, by simp, by simp; omega⟩
  have hsz : atomicSize 0xD3 = some 4 := rfl
  have hentry : typeEntryOfName (nm "DWORD") = some (nm "DWORD", 0xD3, 4) := by decide
  obtain ⟨hbl, _⟩ := ldw2_encode_bits m bools bytes hl henc
  -- (a) parsing
  have hdw : isDword info = true := by simp [isDword, hinfo.kind, hinfo.typeName]
  have hwords : (((32 * k : Nat) : Int) + ((32 * m : Nat) : Int)) / 32 +
      (if (((32 * k : Nat) : Int) + ((32 * m : Nat) : Int)) % 32 ≠ 0 then 1 else 0) = ((k + m : Nat) : Int) := by
    split <;> omega
  have hparse := ldr2_parse_unfold cfg.tags true 0 ⟨s.name, [32 * k]⟩ none (some (32 * m)) hl32
    (by intro n hc; cases hc; exact hm16)
  have htail := ldw2_tail_dword cfg.tags 0 (ldr2_tagStr ⟨s.name, [32 * k]⟩ none (some (32 * m)))
    (ldr2_tagStr ⟨s.name, [32 * k]⟩ none none) ((32 * m : Nat) : Int) false s.name (32 * k) info hl32 hget hdw
    (by rw [hwords]; omega)
  rw [hwords] at htail
  have hne1 : ((((32 * m : Nat) : Int)) == 1) = false := by
    have : ¬ (((32 * m : Nat) : Int) = 1) := by omega
    simpa using this
  simp only [Bool.false_or, hne1, Bool.false_eq_true, if_false] at htail
  have hk : 32 * k / 32 = k := by omega
  rw [hk] at htail
  rw [Option.map_none, Option.getD_some, Option.isNone_some, htail] at hparse
  -- (b) encode_value, the path
  have hencv := ldw2_encodeValue_bools s.name k m info dim bools bytes hm hinfo.typeName hinfo.ty hl henc
  obtain ⟨path, hpath, hpl, hden⟩ := ldr2_requestPath cfg ⟨s.name, [k]⟩ info s.inst hlk hinfo.instanceId hinst
  have hpl' : path.length ≤ s.name.length + 19 := by
    have : path.length ≤ s.name.length + 13 + 6 * 1 := hpl
    omega
  have hpt : packedTypeOf info = le 2 0xD3 := ldw_packedType info (nm "DWORD") 0xD3 4 hinfo.struct hinfo.typeName hentry
  -- (d) the address
  have hmem : s.mem ≠ [] := by
    intro h
    rw [h, List.length_nil] at hlen
    omega
  have hr := ldr2_resolve_elem st.proj s 0xD3 4 cfg.useInstanceIds k dim hid hs hbytes huniqN huniqI hty hsz hmem hdims (by omega)
  have hsym : st.proj.symbolOf (ldr2_locAt s 0xD3 4 k dim) = some s := ldr_find_inst st.proj s hs huniqI
  have hle : k * 4 + m * 4 ≤ s.mem.length := by omega
  obtain ⟨w', frm, hwrite, hd, hsent, hext, hh⟩ := ldw2_write_single cfg w sess cidb conn st
    (ldr2_tagStr ⟨s.name, [32 * k]⟩ none (some (32 * m))) (.list (bools.map PyVal.bool)) _
    (ldw2_parsedBools s.name k m info (.list (bools.map PyVal.bool)) m) info path _ (ldr2_locAt s 0xD3 4 k dim) s 0xD3 4 m bytes
    hw hlogix hparse rfl rfl rfl hencv rfl rfl rfl hpath hden
    (by have := hid.2.1; omega) hr rfl hpt
    ⟨hm, by simp only [ldr2_locAt]; omega, by omega⟩ hsym hsz hbl hle (by omega) (by omega) (by omega)
  refine ⟨w', frm, ?_, hd, hsent, ?_, hh⟩
  · rw [hwrite]
    have h0 : ¬ (((32 * m : Nat) : Int) = 0) := by omega
    unfold writeResult
    simp only [ldw2_parsedBools, Results.get?, List.find?_cons, beq_self_eq_true, Option.map_some, Option.isSome_some,
      Option.isNone_some, Bool.and_false, Bool.false_eq_true, if_false, ne_eq, h0, not_false_eq_true, if_true,
      ldr2_tagStr_plain]
  · rw [hext, ldw2_written_eq st.proj s (ldr2_locAt s 0xD3 4 k dim) _ bytes rfl rfl]
    rfl

end Pycomm.Lgx.Drv
