/-
  C05: what the client parses out of the controller's upload replies is what the controller defines:
  symbol records (Get_Instance_Attribute_List) and structure definitions (template object).
-/
import PycommModel.Logix.Upload
import PycommProofs.RTLemmas
import PycommProofs.UPDefs
import PycommProofs.UPBasic
namespace Pycomm.Lgx.Up
open Pycomm Pycomm.Tgt Pycomm.Lgx

-- `WfSymbol`, `Ident`, `WfMember`, `WfTemplate`, `hidden`, `isPredefined` are in PycommProofs/UPDefs.lean (verbatim);
-- helper lemmas (`up_…`) in PycommProofs/UPBasic.lean

/-- a concrete symbol for the non-vacuity examples -/
def exSym : Symbol :=
  { inst := 7, name := [84, 97, 103, 49], symbolType := 0x20C4, dims := [5, 2], attr3 := 0x1000, attr5 := 0x2000,
    attr6 := 0x4000000, access := 2, mem := [] }

/-- a concrete structure definition: "MyT;n<0xC8>" with a hidden padding member -/
def exTmpl : Template :=
  { id := 0x123, handle := 0xBEEF, size := 12,
    nameField := [77, 121, 84, 59, 110, 0xC8],
    members := [⟨[76, 69, 78], 0, 0xC4, 0⟩, ⟨[95, 95, 112, 97, 100], 0, 0xC2, 4⟩, ⟨[68, 65, 84, 65], 4, 0xC2, 5⟩] }

-- PROPERTY THEOREMS

/-- one record: parsing the controller's encoding of a symbol (with the attribute list the client asks for)
    returns exactly its fields and leaves exactly the following bytes -/
theorem record_roundtrip (wa : Bool) (s : Symbol) (rest : Bytes) (h : WfSymbol s) :
    parseRecord wa (encSymbolRecord s (wantedAttrs wa) ++ rest) = .ok (recOfSymbol wa s, rest) :=
  up_record wa s rest h

example : WfSymbol exSym := by unfold WfSymbol; decide
example : parseRecord true (encSymbolRecord exSym (wantedAttrs true) ++ [1, 2]) = .ok (recOfSymbol true exSym, [1, 2]) :=
  record_roundtrip true exSym [1, 2] (by unfold WfSymbol; decide)

/-- a whole reply page: every record comes back, in order, with its instance id, name, type word, addresses,
    software control word, dimensions and (from revision 18) external access -/
theorem records_roundtrip (wa : Bool) (ss : List Symbol) (fuel : Nat) (h : ∀ s ∈ ss, WfSymbol s)
    (hf : ss.length < fuel) :
    parseRecords wa fuel ((ss.map fun s => encSymbolRecord s (wantedAttrs wa)).flatten) =
      .ok (ss.map (recOfSymbol wa)) :=
  up_records wa ss h fuel hf

example : (∀ s ∈ [exSym, { exSym with inst := 9, name := [], dims := [] }], WfSymbol s) ∧
    [exSym, { exSym with inst := 9, name := [], dims := [] }].length < 3 := by unfold WfSymbol; decide
example : parseRecords false 3
    (([exSym, { exSym with inst := 9, name := [], dims := [] }].map fun s => encSymbolRecord s (wantedAttrs false)).flatten) =
    .ok ([exSym, { exSym with inst := 9, name := [], dims := [] }].map (recOfSymbol false)) :=
  records_roundtrip false _ 3 (by unfold WfSymbol; decide) (by decide)

/-- the continuation point after a partial page is the last returned instance + 1 -/
theorem next_instance_after_page (ss : List Symbol) (s : Symbol) (wa : Bool) :
    nextInstance 6 ((ss ++ [s]).map (recOfSymbol wa)) = some (s.inst + 1) ∧
    nextInstance 0 ((ss ++ [s]).map (recOfSymbol wa)) = none := by
  simp [nextInstance, recOfSymbol]

example : nextInstance 6 (([{ exSym with inst := 3 }] ++ [exSym]).map (recOfSymbol true)) = some 8 ∧
    nextInstance 0 (([{ exSym with inst := 3 }] ++ [exSym]).map (recOfSymbol true)) = none :=
  next_instance_after_page [{ exSym with inst := 3 }] exSym true

/-- a structure definition as the controller stores it (any zero padding after it) is parsed to exactly its
    name, its members in order with their info / type / offset fields, and the visible-member list that
    hides exactly the documented private members -/
theorem template_roundtrip (t : Template) (tname : Name) (junk : Bytes) (symbolType pad : Nat)
    (h : WfTemplate t tname junk) :
    ∃ pt, parseTemplate t.members.length symbolType (t.defBytes ++ List.replicate pad 0) = .ok pt ∧
      pt.name = some (if tname = Up.nm "ASCIISTRING82" then Up.nm "STRING" else tname) ∧
      pt.members.map (fun m => (m.name, m.info, m.typ, m.offset)) =
        t.members.map (fun m => (m.name, m.info, m.typeWord, m.offset)) ∧
      pt.members.map (·.priv) = t.members.map (fun m => hidden (isPredefined symbolType) m.name) ∧
      pt.attributes = (t.members.filter fun m => !hidden (isPredefined symbolType) m.name).map (·.name) := by
  obtain ⟨str, hs⟩ := up_template t tname junk symbolType pad h
  refine ⟨_, hs, ?_, ?_, ?_, ?_⟩
  · simp
  · simp [pmOf, List.map_map, Function.comp_def]
  · simp [pmOf, List.map_map, Function.comp_def]
  · simp [pmOf, List.filter_map, List.map_map, Function.comp_def]

example : WfTemplate exTmpl [77, 121, 84] [110, 0xC8] := by unfold WfTemplate WfMember Ident; decide
example : ∃ pt, parseTemplate 3 0x8123 (exTmpl.defBytes ++ List.replicate 5 0) = .ok pt ∧
    pt.name = some [77, 121, 84] ∧
    pt.members.map (·.priv) = [false, true, false] ∧
    pt.attributes = [[76, 69, 78], [68, 65, 84, 65]] := by
  obtain ⟨pt, h1, h2, _, h4, h5⟩ := template_roundtrip exTmpl [77, 121, 84] [110, 0xC8] 0x8123 5
    (by unfold WfTemplate WfMember Ident; decide)
  exact ⟨pt, h1, by rw [h2]; decide, by rw [h4]; decide, by rw [h5]; decide⟩


end Pycomm.Lgx.Up
