/-
  C05: what the client parses out of the controller's upload replies is what the controller defines:
  symbol records (Get_Instance_Attribute_List) and structure definitions (template object).
-/
import PycommModel.Logix.Upload
import PycommProofs.RTLemmas
namespace Pycomm.Lgx.Up
open Pycomm Pycomm.Tgt Pycomm.Lgx

/-- field ranges of a symbol as the wire format can carry them -/
def WfSymbol (s : Symbol) : Prop :=
  s.inst < 2 ^ 32 ∧ s.name.length < 65536 ∧ (∀ c ∈ s.name, c < 256) ∧ s.symbolType < 65536 ∧
  s.attr3 < 2 ^ 32 ∧ s.attr5 < 2 ^ 32 ∧ s.attr6 < 2 ^ 32 ∧ (∀ d ∈ s.dims, d < 2 ^ 32) ∧ s.access < 256

/-- an identifier as the controller stores it: ASCII, no NUL, no ';' -/
def Ident (n : Name) : Prop := n ≠ [] ∧ ∀ c ∈ n, 0 < c ∧ c < 128 ∧ c ≠ 59

def WfMember (m : MemberDef) : Prop :=
  Ident m.name ∧ m.info < 65536 ∧ m.typeWord < 65536 ∧ m.offset < 2 ^ 32

/-- the stored name field is "Name;encoded-info" -/
def WfTemplate (t : Template) (tname : Name) (junk : Bytes) : Prop :=
  Ident tname ∧ (∀ b ∈ junk, b ≠ 0) ∧
  t.nameField = tname.map (fun c => UInt8.ofNat c) ++ [59] ++ junk ∧
  ∀ m ∈ t.members, WfMember m

/-- which members the driver hides (documented: ZZZZZZZZZZ…, __…, and CTL / Control of predefined types) -/
def hidden (predefine : Bool) (name : Name) : Bool :=
  PyStr.startsWith (nm "ZZZZZZZZZZ") name || PyStr.startsWith (nm "__") name ||
  (predefine && (name == nm "CTL" || name == nm "Control"))

def isPredefined (symbolType : Nat) : Bool := symbolType % 4096 < 0x100 || symbolType % 4096 > 0xEFF

-- PROPERTY THEOREMS

/-- one record: parsing the controller's encoding of a symbol (with the attribute list the client asks for)
    returns exactly its fields and leaves exactly the following bytes -/
theorem record_roundtrip (wa : Bool) (s : Symbol) (rest : Bytes) (h : WfSymbol s) :
    parseRecord wa (encSymbolRecord s (wantedAttrs wa) ++ rest) = .ok (recOfSymbol wa s, rest) := by
  sorry

/-- a whole reply page: every record comes back, in order, with its instance id, name, type word, addresses,
    software control word, dimensions and (from revision 18) external access -/
theorem records_roundtrip (wa : Bool) (ss : List Symbol) (fuel : Nat) (h : ∀ s ∈ ss, WfSymbol s)
    (hf : ss.length < fuel) :
    parseRecords wa fuel ((ss.map fun s => encSymbolRecord s (wantedAttrs wa)).flatten) =
      .ok (ss.map (recOfSymbol wa)) := by
  sorry

/-- the continuation point after a partial page is the last returned instance + 1 -/
theorem next_instance_after_page (ss : List Symbol) (s : Symbol) (wa : Bool) :
    nextInstance 6 ((ss ++ [s]).map (recOfSymbol wa)) = some (s.inst + 1) ∧
    nextInstance 0 ((ss ++ [s]).map (recOfSymbol wa)) = none := by
  sorry

/-- a structure definition as the controller stores it (any zero padding after it) is parsed to exactly its
    name, its members in order with their info / type / offset fields, and the visible-member list that
    hides exactly the documented private members -/
theorem template_roundtrip (t : Template) (tname : Name) (junk : Bytes) (symbolType pad : Nat)
    (h : WfTemplate t tname junk) :
    ∃ pt, parseTemplate t.members.length symbolType (t.defBytes ++ List.replicate pad 0) = .ok pt ∧
      pt.name = some (if tname = nm "ASCIISTRING82" then nm "STRING" else tname) ∧
      pt.members.map (fun m => (m.name, m.info, m.typ, m.offset)) =
        t.members.map (fun m => (m.name, m.info, m.typeWord, m.offset)) ∧
      pt.members.map (·.priv) = t.members.map (fun m => hidden (isPredefined symbolType) m.name) ∧
      pt.attributes = (t.members.filter fun m => !hidden (isPredefined symbolType) m.name).map (·.name) := by
  sorry

end Pycomm.Lgx.Up
