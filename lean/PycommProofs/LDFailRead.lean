/-
  Controller-side failures, `LogixDriver.read` composed: ONE request that parses against the tag database, is sent
  as one plain Read Tag service and is answered by the controller with a CIP status other than 0.
-/
import PycommProofs.LDFailSend
import PycommProofs.LDRead2Core
import PycommProofs.LDRead2Array
namespace Pycomm.Lgx.Drv
open Pycomm Pycomm.Tgt Pycomm.Path Pycomm.Reply Pycomm.Encap Pycomm.Lgx Pycomm.Lgx.E2E

/-- `{ e with logix := some st }` is `e` when `e.logix = some st` -/
theorem ldx_ext_eta (e : Ext) (st : LState) (h : e.logix = some st) : { e with logix := some st } = e := by
  cases e with
  | mk lg sl => simp only at h; rw [h]

/-- `LogixDriver.read` of one tag string on a healthy connected driver, when the request is sent as one plain Read
    Tag service and the Logix services of the controller answer it with ANY reply `r` whose general status is not 0
    (status 6 included: Read Tag is not one of the services that legitimately continue): no exception, the result is
    one Tag named as requested without value and type whose error is the status text of `r`. One frame is written,
    one sequence number is drawn, the Logix state of the controller becomes the state `st'` the service left. -/
theorem ldx_read_single_status (cfg : Cfg) (w : Cli.World Ext) (sess : Nat) (cidb : Bytes) (conn : Conn)
    (st st' : LState) (tag0 : Name) (p : Parsed) (info : TagInfo) (path : Bytes) (segs : List PSeg) (n : Nat) (r : MRReply)
    (hw : ldr_Healthy w sess cidb conn) (hlogix : w.net.target.ext.logix = some st)
    (hparse : parseTagRequest cfg.tags false 0 tag0 = p)
    (hperr : p.error = none) (hpinfo : p.info = some info) (hpel : p.elements = (n : Int)) (hn : n ≤ 65535)
    (hrid : p.requestId = 0)
    (hpath : requestPathOf cfg p.plcTag info = .ok path) (hden : Denotes path segs) (hpl : path.length ≤ 600)
    (hlp : ldr2_LogixPath segs)
    (hls : logixService st { service := 0x4C, path := segs, data := le 2 n } (some (conn.size - 2)) = some (st', r))
    (hst : r.status ≠ 0) (hst8 : r.status < 256) (hext : r.ext.length < 256)
    (hC : tagReturnSize info n + path.length + 7 ≤ w.drv.connectionSize)
    (hT : path.length + 5 ≤ conn.size) :
    ∃ w' frm, read hookAll cfg w [tag0] =
        (w', .ok [{ tag := p.userTag, value := .none, type := none, error := some (.reply (.text (ldx_errText r))) }]) ∧
      w'.drv = w.drv.nextSeq.2 ∧ w'.net.sent = w.net.sent ++ [frm] ∧
      w'.net.target.ext = { w.net.target.ext with logix := some st' } ∧
      ldr_Healthy w' sess cidb { conn with lastSeq := some w.drv.nextSeq.1 } := by
  have hparsed : parseRequestedTags cfg.tags false [tag0] = [p] := by
    show [parseTagRequest cfg.tags false 0 tag0] = _
    rw [hparse]
  have hml : (Cl.readMsg path n).length = path.length + 3 := by
    simp [Cl.readMsg, le, RT.leBytes_length]
  have hbuild := ldr2_build_single cfg w.drv p info path n hperr hpinfo hpel hn hpath (by rw [hml]; omega)
  have hw1 : ldr_Healthy ({ w with drv := w.drv.nextSeq.2 } : Cli.World Ext) sess cidb conn :=
    ldr_Healthy_seq hw _ (by rw [(Cli.lcs_nextSeq w.drv).2])
  have hpm : parseMR (Cl.readMsg path n) = some { service := 0x4C, path := segs, data := le 2 n } := by
    have := parseMR_msg 0x4C path (le 2 n) segs hden
    simpa [Cl.readMsg] using this
  obtain ⟨w2, frm, hsend, hd2, hsent2, hext2, hh2⟩ := ldr2_sendUnit_logix ({ w with drv := w.drv.nextSeq.2 } : Cli.World Ext)
    sess cidb conn st w.drv.nextSeq.1 (Cl.readMsg path n) _ (st', r) hw1 hlogix hpm hlp hls (ldr_nextSeq_lt w.drv)
    (by omega) (by omega)
  have hresp := ldx_readTag_refused
    { seq := w.drv.nextSeq.1, tag := p.plcTag, elements := n, info := info, rid := p.requestId, path := path }
    sess conn.toId w.drv.nextSeq.1 w.drv.nextSeq.2.context r hw1.ctx8 hst hst8 hext
  have hresult := ldx_readResult_falsy p info
    { tag := p.plcTag, value := .none, type := none, error := some (.reply (.text (ldx_errText r))) }
    [((0 : Nat), { tag := p.plcTag, value := .none, type := none, error := some (.reply (.text (ldx_errText r))) })]
    hperr hpinfo (by rw [hrid]; rfl) rfl
  have hfo : Cli.ensureForwardOpen hookAll Cli.FUEL w = (w, .ok ()) := ldr_ensureFO_connected hookAll 7 w hw.connected
  refine ⟨w2, frm, ?_, hd2, hsent2, hext2, hh2⟩
  unfold read
  rw [hfo]
  dsimp only
  rw [hparsed, hbuild]
  dsimp only
  unfold sendRequests sendRequest
  dsimp only
  rw [hsend]
  dsimp only
  rw [hresp]
  dsimp only [Except.map]
  unfold sendRequests
  dsimp only [List.isEmpty_cons, Bool.false_eq_true, if_false, List.map_cons, List.map_nil, Results.set, List.any_nil,
    List.nil_append]
  simp only [Bool.false_eq_true, if_false, List.map_cons, List.map_nil, hrid]
  rw [hresult]

/-- the request of ONE element `name[i]` of a one-dimensional controller-scope array tag, as parsed against the tag
    database (any index: the parser does not know the bounds) -/
theorem ldx_parse_elem (cfg : Cfg) (write : Bool) (rid : Nat) (name : Name) (i : Nat) (info : TagInfo) (kname : Name)
    (t : Ty) (inst : Nat) (hid : PlainIdent name) (hi32 : i < 2 ^ 32)
    (hget : cfg.tags.get? name = some info) (hinfo : ldr_InfoOf info kname t inst) (hndw : kname ≠ nm "DWORD") :
    ldr2_Level ⟨name, [i]⟩ ∧
    parseTagRequest cfg.tags write rid (renderLevel ⟨name, [i]⟩) = ldr2_parsedAt rid (renderLevel ⟨name, [i]⟩) info := by
  have hl : ldr2_Level ⟨name, [i]⟩ := ⟨hid, by simp, by simp [hi32]⟩
  have hnd : isDword info = false := by
    have : (kname == nm "DWORD") = false := by simpa using hndw
    simp [isDword, hinfo.typeName, this]
  have hparse := ldr2_parse_unfold cfg.tags write rid ⟨name, [i]⟩ none none hl (by intro n hc; cases hc)
  rw [Option.map_none, ldr2_tail_plain cfg.tags write rid _ _ _ _ ⟨name, [i]⟩ none info hl hget hnd rfl] at hparse
  rw [ldr2_tagStr_plain] at hparse
  exact ⟨hl, hparse⟩

/-- `read("name[i]")` with `i` beyond the one-dimensional array `s` -/
theorem ldx_read_oob (cfg : Cfg) (w : Cli.World Ext) (sess : Nat) (cidb : Bytes) (conn : Conn)
    (st : LState) (s : Symbol) (info : TagInfo) (c sz dim i : Nat) (name : Name) (t : Ty)
    (hw : ldr_Healthy w sess cidb conn) (hlogix : w.net.target.ext.logix = some st)
    (hs : s ∈ st.proj.controller)
    (hbytes : ∀ s' ∈ st.proj.controller, ∀ ch ∈ s'.name, ch < 256)
    (huniqN : ∀ s' ∈ st.proj.controller, s'.name = s.name → s' = s)
    (huniqI : ∀ s' ∈ st.proj.controller, s'.inst = s.inst → s' = s)
    (hid : PlainIdent s.name) (hinst : s.inst < 2 ^ 32)
    (hty : elTyOfWord s.symbolType = .atomic c) (hat : atomicOfCode c = some (name, t)) (hb : t.isBits = none)
    (hsz : atomicSize c = some sz)
    (hdims : s.dims.filter (· != 0) = [dim]) (hlen : s.mem.length = dim * sz)
    (hget : cfg.tags.get? s.name = some info) (hinfo : ldr_InfoOf info name (.arr (.fixed dim) t) s.inst)
    (hi : dim ≤ i) (hi32 : i < 2 ^ 32)
    (hC : s.name.length + 34 ≤ w.drv.connectionSize) (hT : s.name.length + 34 ≤ conn.size) :
    ∃ w' frm, read hookAll cfg w [renderLevel ⟨s.name, [i]⟩] =
        (w', .ok [{ tag := renderLevel ⟨s.name, [i]⟩, value := .none, type := none,
                    error := some (.reply (.text (ldx_errText { status := 0xFF, ext := [0x2105] }))) }]) ∧
      w'.drv = w.drv.nextSeq.2 ∧ w'.net.sent = w.net.sent ++ [frm] ∧
      w'.net.target.ext = w.net.target.ext ∧
      ldr_Healthy w' sess cidb { conn with lastSeq := some w.drv.nextSeq.1 } := by
  obtain ⟨haty, hentry, hndw, hpos, hle8⟩ := ldr_atomic_table c sz name t hat hb hsz
  obtain ⟨hl, hparse⟩ := ldx_parse_elem cfg false 0 s.name i info name _ s.inst hid hi32 hget hinfo hndw
  obtain ⟨path, hpath, hpl, hden⟩ := ldr2_requestPath cfg ⟨s.name, [i]⟩ info s.inst hl hinfo.instanceId hinst
  have hpl' : path.length ≤ s.name.length + 19 := by
    have : path.length ≤ s.name.length + 13 + 6 * 1 := hpl
    omega
  have hrs : tagReturnSize info 1 = sz := by
    simp [tagReturnSize, hinfo.struct, hinfo.typeName, hentry]
  have hdim : dim ≠ 0 := by
    intro h0
    have : dim ∈ s.dims.filter (· != 0) := by rw [hdims]; simp
    have := (List.mem_filter.1 this).2
    simp [h0] at this
  have hmem : s.mem ≠ [] := by
    intro h
    rw [h, List.length_nil] at hlen
    have : 0 < dim * sz := Nat.mul_pos (by omega) hpos
    omega
  have hr : resolve st.proj (ldr_segs s.name s.inst cfg.useInstanceIds ++ [PSeg.logical 8 i]) = .error 0xFF :=
    ldx_resolve_oob st.proj s c sz cfg.useInstanceIds i dim hid hs hbytes huniqN huniqI hty hsz hmem hdims hi
  have htp := ldx_tagPath_segs s.name s.inst cfg.useInstanceIds [PSeg.logical 8 i]
  have hls := ldx_logixService_refused st
    { service := 0x4C, path := ldr_segs s.name s.inst cfg.useInstanceIds ++ [PSeg.logical 8 i], data := le 2 1 }
    (conn.size - 2) 0xFF hr (Or.inl rfl) htp
  have hnl := hid.2.1
  obtain ⟨w', frm, hread, hd, hsent, hext, hh⟩ := ldx_read_single_status cfg w sess cidb conn st st
    (renderLevel ⟨s.name, [i]⟩) _ info path _ 1 (ldx_refusal 0xFF) hw hlogix hparse rfl rfl rfl (by omega) rfl
    hpath hden (by omega) (ldx_tagPath_logix _ htp) hls (by decide) (by decide) (by decide)
    (by rw [hrs]; omega) (by omega)
  refine ⟨w', frm, ?_, hd, hsent, ?_, hh⟩
  · rw [hread]; rfl
  · rw [hext, ldx_ext_eta _ _ hlogix]

end Pycomm.Lgx.Drv
