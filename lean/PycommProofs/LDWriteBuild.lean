/-
  LogixDriver.write, layer (b): `encode_value`, the packed data type and `_write_build_requests` for one parsed
  request of an elementary scalar tag.
-/
import PycommProofs.LDReadBuild
import PycommProofs.LDReadSend
import PycommProofs.LDReadReply
import PycommProofs.CodecRoundTripExt
namespace Pycomm.Lgx.Drv
open Pycomm Pycomm.Tgt Pycomm.Path Pycomm.Reply Pycomm.EP Pycomm.Lgx.E2E

/-! ### the table of elementary types, write side -/

/-- the codec class of an elementary type other than a bit string encodes to exactly the controller's element size;
    the code fits one byte -/
theorem ldw_atomic_width (c sz : Nat) (t : Ty) (hty : Cl.atomicTy c = some t) (hb : t.isBits = none)
    (hsz : atomicSize c = some sz) : fixedWidth t = some sz ∧ c < 256 := by
  rcases ldr_atomicTy_codes c t hty hb with h | h | h | h | h | h | h | h | h | h | h <;> subst h
  · have e : some Ty.bool = some t := hty
    have f : some 1 = some sz := hsz
    cases e; cases f; exact ⟨rfl, by omega⟩
  · have e : some (Ty.int .sint) = some t := hty
    have f : some 1 = some sz := hsz
    cases e; cases f; exact ⟨rfl, by omega⟩
  · have e : some (Ty.int .int) = some t := hty
    have f : some 2 = some sz := hsz
    cases e; cases f; exact ⟨rfl, by omega⟩
  · have e : some (Ty.int .dint) = some t := hty
    have f : some 4 = some sz := hsz
    cases e; cases f; exact ⟨rfl, by omega⟩
  · have e : some (Ty.int .lint) = some t := hty
    have f : some 8 = some sz := hsz
    cases e; cases f; exact ⟨rfl, by omega⟩
  · have e : some (Ty.int .usint) = some t := hty
    have f : some 1 = some sz := hsz
    cases e; cases f; exact ⟨rfl, by omega⟩
  · have e : some (Ty.int .uint) = some t := hty
    have f : some 2 = some sz := hsz
    cases e; cases f; exact ⟨rfl, by omega⟩
  · have e : some (Ty.int .udint) = some t := hty
    have f : some 4 = some sz := hsz
    cases e; cases f; exact ⟨rfl, by omega⟩
  · have e : some (Ty.int .ulint) = some t := hty
    have f : some 8 = some sz := hsz
    cases e; cases f; exact ⟨rfl, by omega⟩
  · have e : some Ty.real = some t := hty
    have f : some 4 = some sz := hsz
    cases e; cases f; exact ⟨rfl, by omega⟩
  · have e : some Ty.lreal = some t := hty
    have f : some 8 = some sz := hsz
    cases e; cases f; exact ⟨rfl, by omega⟩

/-- a canonical value of an elementary type encodes to exactly the element size -/
theorem ldw_encode_length (c sz : Nat) (t : Ty) (v : PyVal) (bytes : Bytes) (hty : Cl.atomicTy c = some t)
    (hb : t.isBits = none) (hsz : atomicSize c = some sz) (hcanon : Canon t v) (henc : encode t v = .ok bytes) :
    bytes.length = sz := by
  obtain ⟨enc, he, hl, _⟩ := canon_fixed_roundtrip t v sz hcanon (ldw_atomic_width c sz t hty hb hsz).1
  rw [henc] at he
  cases he
  exact hl

/-- a canonical value of an elementary type is not a `bytes` object (which `encode_value` would pass through raw) -/
theorem ldw_canon_not_bytes (t : Ty) (v : PyVal)
    (hshape : t = .bool ∨ (∃ k, t = .int k) ∨ t = .real ∨ t = .lreal) (hcanon : Canon t v) (b : Bytes) :
    v ≠ .bytes b := by
  rcases hshape with rfl | ⟨k, rfl⟩ | rfl | rfl
  · obtain ⟨x, rfl⟩ := hcanon; simp
  · obtain ⟨x, rfl, _⟩ := hcanon; simp
  · obtain ⟨x, _, rfl, _⟩ := hcanon; simp
  · obtain ⟨x, rfl, _⟩ := hcanon; simp

/-! ### (b) `encode_value` -/

/-- (b) `encode_value` of a request for one element of a scalar (non-array, non-DWORD) tag whose value is not a
    `bytes` object: the request is unchanged, the bytes are the codec's encoding of the value -/
theorem ldw_encodeValue (p : Parsed) (info : TagInfo) (t : Ty) (bytes : Bytes)
    (hnb : ∀ b, p.value ≠ .bytes b) (hnd : info.core.dataTypeName ≠ nm "DWORD")
    (hty : info.core.ty = t) (hshape : t = .bool ∨ (∃ k, t = .int k) ∨ t = .real ∨ t = .lreal)
    (henc : encode t p.value = .ok bytes) : encodeValue p info = (p, some bytes) := by
  have hdw : (info.core.dataTypeName == nm "DWORD") = false := by simpa using hnd
  unfold encodeValue
  split
  · rename_i b hv
    exact absurd hv (hnb b)
  · rw [hty]
    rcases hshape with rfl | ⟨k, rfl⟩ | rfl | rfl <;>
      simp only [hdw, Bool.false_eq_true, false_and, if_false, henc]

/-! ### (b) the packed data type -/

/-- `_packed_data_type` of an elementary tag is the two-byte type code, the controller's type marker -/
theorem ldw_packedType (info : TagInfo) (name : Name) (c sz : Nat) (hstruct : info.core.struct = none)
    (hname : info.core.dataTypeName = name) (hentry : typeEntryOfName name = some (name, c, sz)) :
    packedTypeOf info = le 2 c := by
  unfold packedTypeOf
  rw [hstruct, hname, hentry]
  rfl

/-! ### (b) `_write_build_requests` -/

/-- (b) `_write_build_requests` for one error-free parsed request (no bit number) of one element whose value encodes
    and whose request stays below the fragmentation threshold — the single-request path compares
    `len(value) + len(request.message)` with the connection size, so the value counts twice
    (logix_driver.py:1225) —: one sequence number is drawn, the result is one plain Write Tag request, the parsed
    request is unchanged -/
theorem ldw_build_single (cfg : Cfg) (d : Cli.Drv) (p : Parsed) (info : TagInfo) (path value : Bytes)
    (hp : p.error = none) (hinfo : p.info = some info) (hel : p.elements = 1) (hbit : p.bit = none)
    (henc : encodeValue p info = (p, some value))
    (hpath : requestPathOf cfg p.plcTag info = .ok path)
    (hsize : value.length + (2 + (Cl.writeMsg path (packedTypeOf info) 1 value).length) ≤ d.connectionSize) :
    writeBuildRequests cfg d [p] =
      (d.nextSeq.2, .ok ([p], [Request.write
        { seq := d.nextSeq.1, tag := p.plcTag, elements := 1, info := info, rid := p.requestId, path := path,
          typeBytes := packedTypeOf info, value := value }])) := by
  have hel' : elementsNat p.elements = .ok 1 := by rw [hel]; rfl
  have hnf : ¬ (value.length + (2 + (Cl.writeMsg path (packedTypeOf info) 1 value).length) > d.connectionSize) := by omega
  have hbw : p.isBitWrite = false := by simp [Parsed.isBitWrite, hbit]
  unfold writeBuildRequests
  simp only [List.length_cons, List.length_nil, Nat.zero_add, ne_eq, not_true_eq_false, false_and, if_false,
    writeBuildSingles, hp, hinfo, hbw, Bool.false_eq_true, henc, mkWriteReq, hpath, hel', WriteReq.messageLen, hnf,
    decide_false, Except.map, replaceParsed, List.map_cons, List.map_nil, beq_self_eq_true, if_true]

end Pycomm.Lgx.Drv
