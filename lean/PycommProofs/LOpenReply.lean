/-
  LogixDriver.open(), upload: the request of one symbol-list page as the controller's message router reads it,
  and the connected reply frame (any general status, no extended status) as the response class parses it.
-/
import PycommProofs.LOpenTarget
import PycommProofs.LDRead2Send
import PycommProofs.LDReadReply
namespace Pycomm.Lgx.Opn
open Pycomm Pycomm.Tgt Pycomm.Path Pycomm.Reply Pycomm.Encap Pycomm.Lgx Pycomm.EP Pycomm.Lgx.E2E

/-! ### the reply frame -/

/-- the connected reply frame the target builds around a message-router reply with general status `status` and no
    extended status, as the response class parses it: no parse error, encapsulation status 0, the general status,
    the service data, and the request service looked up from the reply service byte -/
theorem lo_parseCip_reply (svc status s toId seq : Nat) (ctx data : Bytes) (hc : ctx.length = 8) (hst : status < 256) :
    ∃ cmd svc', serviceFromReply [UInt8.ofNat (svc % 128 + 128)] = .ok svc' ∧
      parseCip (some (frame CMD_SEND_UNIT s 0 ctx (cpfReplyConnected toId seq
        (encMRReply svc { status := status, ext := [], data := data })))) .connected =
      { err := none, command := some cmd, commandStatus := some 0, service := svc', serviceStatus := some status,
        data := some data } := by
  have hz : leBytes 4 0 = [0, 0, 0, 0] := rfl
  have hsv : 128 ≤ (UInt8.ofNat (svc % 128 + 128)).toNat := by rw [EP.toNat_ofNat]; omega
  have hmr : encMRReply svc { status := status, ext := [], data := data } =
      [UInt8.ofNat (svc % 128 + 128), 0, UInt8.ofNat status, 0] ++ data := by
    simp [encMRReply]
  generalize hmrd : encMRReply svc { status := status, ext := [], data := data } = mr at hmr
  generalize hraw : frame CMD_SEND_UNIT s 0 ctx (cpfReplyConnected toId seq mr) = raw
  have hH : (encHeader CMD_SEND_UNIT (cpfReplyConnected toId seq mr).length s 0 ctx ++
        (le 4 0 ++ le 2 0 ++ le 2 2 ++ le 2 ITEM_CONNECTION ++ le 2 4 ++ le 4 toId ++
         le 2 ITEM_CONNECTED_DATA ++ le 2 (mr.length + 2) ++ le 2 seq)).length = 46 := by
    simp [encHeader, le, RT.leBytes_length, hc]
  generalize hHd : (encHeader CMD_SEND_UNIT (cpfReplyConnected toId seq mr).length s 0 ctx ++
        (le 4 0 ++ le 2 0 ++ le 2 2 ++ le 2 ITEM_CONNECTION ++ le 2 4 ++ le 4 toId ++
         le 2 ITEM_CONNECTED_DATA ++ le 2 (mr.length + 2) ++ le 2 seq)) = H at hH
  have hraw2 : raw = H ++ ([UInt8.ofNat (svc % 128 + 128), 0, UInt8.ofNat status, 0] ++ data) := by
    rw [← hraw, ← hHd]
    simp only [frame, cpfReplyConnected, hmr, List.append_assoc]
  have hraw1 : raw = (le 2 CMD_SEND_UNIT ++ le 2 (cpfReplyConnected toId seq mr).length ++ le 4 s) ++
      ([0, 0, 0, 0] ++ (ctx ++ le 4 0 ++ cpfReplyConnected toId seq mr)) := by
    rw [← hraw]
    simp only [frame, encHeader, le, hz, List.append_assoc]
  have b1 : slice raw 8 12 = [0, 0, 0, 0] := by
    rw [hraw1]
    have := Cli.slice_at (le 2 CMD_SEND_UNIT ++ le 2 (cpfReplyConnected toId seq mr).length ++ le 4 s)
      ([0, 0, 0, 0] ++ (ctx ++ le 4 0 ++ cpfReplyConnected toId seq mr)) 8 0 4 (by simp [le, RT.leBytes_length])
    simp only [Nat.add_zero] at this
    rw [this]; simp [slice]
  have hlen : Transport.connected.off + 3 ≤ raw.length := by
    rw [hraw2, List.length_append, hH]; simp [Transport.off]; omega
  have g0 : raw.getD Transport.connected.off 0 = UInt8.ofNat (svc % 128 + 128) := by
    rw [hraw2]
    show (H ++ _).getD 46 0 = _
    rw [← hH]
    simp [List.getD_eq_getElem?_getD]
  have g2 : raw.getD (Transport.connected.off + 2) 0 = UInt8.ofNat status := by
    rw [hraw2]
    show (H ++ _).getD (46 + 2) 0 = _
    rw [← hH]
    simp [List.getD_eq_getElem?_getD]
  have g4 : raw.drop (Transport.connected.off + 4) = data := by
    rw [hraw2]
    show (H ++ _).drop (46 + 4) = _
    rw [← hH, List.drop_append]; simp
  have hget : 128 ≤ (raw.getD Transport.connected.off 0).toNat := by rw [g0]; exact hsv
  obtain ⟨svc', hs', hp⟩ := RP.parseCip_good .connected raw hlen hget
  rw [g0, UInt8.ofNat_toNat] at hs'
  refine ⟨slice raw 0 2, svc', hs', ?_⟩
  rw [hp, b1, g2, g4, EP.toNat_ofNat, Nat.mod_eq_of_lt hst]
  rfl

/-- the same frame as bytes: 46 bytes of encapsulation header and item headers, the reply service byte, the general
    status with an empty extended status, the service data -/
theorem lo_frame_shape (svc status s toId seq : Nat) (ctx data : Bytes) (hc : ctx.length = 8) :
    ∃ H : Bytes, H.length = 46 ∧
      frame CMD_SEND_UNIT s 0 ctx (cpfReplyConnected toId seq (encMRReply svc { status := status, ext := [], data := data })) =
        H ++ ([UInt8.ofNat (svc % 128 + 128), 0, UInt8.ofNat status, 0] ++ data) := by
  have hmr : encMRReply svc { status := status, ext := [], data := data } =
      [UInt8.ofNat (svc % 128 + 128), 0, UInt8.ofNat status, 0] ++ data := by
    simp [encMRReply]
  generalize hmrd : encMRReply svc { status := status, ext := [], data := data } = mr at hmr
  refine ⟨encHeader CMD_SEND_UNIT (cpfReplyConnected toId seq mr).length s 0 ctx ++
        (le 4 0 ++ le 2 0 ++ le 2 2 ++ le 2 ITEM_CONNECTION ++ le 2 4 ++ le 4 toId ++
         le 2 ITEM_CONNECTED_DATA ++ le 2 (mr.length + 2) ++ le 2 seq), ?_, ?_⟩
  · simp [encHeader, le, RT.leBytes_length, hc]
  · simp only [frame, cpfReplyConnected, hmr, List.append_assoc]

/-- `get_extended_status` on a reply whose extended-status size byte is 0 never raises -/
theorem lo_extendedStatus_sz0 (raw : Bytes) (start : Nat) (stb : UInt8) (rest : Bytes)
    (h : raw.drop start = stb :: 0 :: rest) : ∃ r, extendedStatus raw start = .ok r := by
  unfold extendedStatus
  rw [h]
  simp only [UInt8.toNat_zero, Nat.zero_mul, if_true]
  split
  · exact ⟨_, rfl⟩
  · split <;> exact ⟨_, rfl⟩

/-- `response.error` of such a reply never raises, whatever its status -/
theorem lo_errorCip_ok (svc status s toId seq : Nat) (ctx data : Bytes) (hc : ctx.length = 8) (p : Parsed) (v : Bool) :
    ∃ e, errorCip (some (frame CMD_SEND_UNIT s 0 ctx (cpfReplyConnected toId seq
        (encMRReply svc { status := status, ext := [], data := data })))) .connected p v = .ok e := by
  obtain ⟨H, hH, hraw⟩ := lo_frame_shape svc status s toId seq ctx data hc
  rw [hraw]
  have hd : (H ++ ([UInt8.ofNat (svc % 128 + 128), 0, UInt8.ofNat status, 0] ++ data)).drop (Transport.connected.off + 2) =
      UInt8.ofNat status :: 0 :: data := by
    show (H ++ _).drop (46 + 2) = _
    rw [← hH, List.drop_append]; simp
  obtain ⟨r, hr⟩ := lo_extendedStatus_sz0 _ _ _ _ hd
  have ht : ∀ i, ∃ t, extendedText (H ++ ([UInt8.ofNat (svc % 128 + 128), 0, UInt8.ofNat status, 0] ++ data))
      .connected i = .ok t := by
    intro i
    unfold extendedText
    rw [hr]
    cases r <;> exact ⟨_, rfl⟩
  unfold errorCip
  split
  · exact ⟨_, rfl⟩
  · split
    · exact ⟨_, rfl⟩
    · dsimp only
      split
      · obtain ⟨t, ht'⟩ := ht (p.commandStatus.getD 0)
        rw [ht']; exact ⟨_, rfl⟩
      · split
        · obtain ⟨t, ht'⟩ := ht ((p.serviceStatus.getD 0 : Nat) : Int)
          rw [ht']; exact ⟨_, rfl⟩
        · exact ⟨_, rfl⟩

/-- the reply service byte of Get_Instance_Attribute_List (0x55) names a multi-packet service: status 6 is a valid reply -/
theorem lo_sfr_55 : serviceFromReply [UInt8.ofNat (0x55 % 128 + 128)] = .ok (some [0x55]) := by rfl

/-- a symbol-list page reply (status 0 or 6) is valid for the response class and carries the page bytes -/
theorem lo_page_reply (status s toId seq : Nat) (ctx data : Bytes) (hc : ctx.length = 8)
    (hst : status = 0 ∨ status = 6) :
    validCip .connected (parseCip (some (frame CMD_SEND_UNIT s 0 ctx (cpfReplyConnected toId seq
        (encMRReply 0x55 { status := status, ext := [], data := data })))) .connected) = true ∧
    (parseCip (some (frame CMD_SEND_UNIT s 0 ctx (cpfReplyConnected toId seq
        (encMRReply 0x55 { status := status, ext := [], data := data })))) .connected).data = some data ∧
    (parseCip (some (frame CMD_SEND_UNIT s 0 ctx (cpfReplyConnected toId seq
        (encMRReply 0x55 { status := status, ext := [], data := data })))) .connected).serviceStatus = some status := by
  obtain ⟨cmd, svc', hs, hp⟩ := lo_parseCip_reply 0x55 status s toId seq ctx data hc (by omega)
  rw [lo_sfr_55] at hs
  cases hs
  rw [hp]
  refine ⟨?_, rfl, rfl⟩
  rw [Reply.validCip_record]
  refine ⟨rfl, ?_⟩
  rcases hst with h | h
  · exact Or.inl h
  · exact Or.inr ⟨h, rfl, by decide⟩

/-! ### the request -/

/-- the request path of one page (controller scope): it exists, is short, and the controller's strict parser reads it
    as class 0x6B, instance `start` -/
theorem lo_symbolListPath (start : Nat) (hs : start < 2 ^ 32) :
    ∃ path, symbolListPath none start = .ok path ∧ path.length ≤ 13 ∧
      Denotes path [PSeg.logical 0 0x6B, PSeg.logical 4 start] := by
  have hc0 : lookupName (Path.nm "class_id") Gen.logicalTypes = some 0 := by decide
  have hi4 : lookupName (Path.nm "instance_id") Gen.logicalTypes = some 4 := by decide
  have h := EncAll.cons (enc1_logical_byte _ _ hc0 0x6b) (EncAll.cons (enc1_logical _ _ hi4 start hs) EncAll.nil)
  have e : (0x6b : UInt8).toNat = 0x6B := by decide
  rw [e] at h
  obtain ⟨bs, hb, hp⟩ := h.request (by omega)
  exact ⟨bs, hb, Drv.ldr_encEpath_len h hb, hp⟩

theorem lo_symbolListMsg_length (path : Bytes) (wa : Bool) :
    (symbolListMsg path wa).length ≤ path.length + 17 := by
  cases wa <;> simp [symbolListMsg, Up.wantedAttrs, le, RT.leBytes_length] <;> omega

/-- the page request as the message router sees it -/
def lo_symbolListReq (segs : List PSeg) (wa : Bool) : MRReq :=
  { service := 0x55, path := segs, data := le 2 (Up.wantedAttrs wa).length ++ ((Up.wantedAttrs wa).map (le 2)).flatten }

/-- the message router parses the page request into service 0x55, the path, and the attribute list -/
theorem lo_parseMR_symbolList (path : Bytes) (wa : Bool) (segs : List PSeg) (hp : Denotes path segs) :
    parseMR (symbolListMsg path wa) = some (lo_symbolListReq segs wa) := by
  have := parseMR_msg 0x55 path (le 2 (Up.wantedAttrs wa).length ++ ((Up.wantedAttrs wa).map (le 2)).flatten) segs hp
  simpa [symbolListMsg, lo_symbolListReq, List.append_assoc] using this

/-- the Logix services route the page request to the symbol-list service of the controller scope -/
theorem lo_logixService_symbolList (st : LState) (start : Nat) (d : Bytes) (cap : Nat) :
    logixService st { service := 0x55, path := [PSeg.logical 0 0x6B, PSeg.logical 4 start], data := d } (some cap) =
      some (symbolList st none start d (cap - 4)) := by
  simp [logixService, single]

end Pycomm.Lgx.Opn
