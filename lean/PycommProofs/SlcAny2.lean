/-
  C13 / C18 for the SLC driver over ARBITRARY reply bytes, part 2: the Tags.

    * `sda_ReplyOk a raw`: the reply passes the PCCC-level checks for address `a` — byte 58 (the PCCC STS byte of a
      well-formed Execute-PCCC reply) exists and is 0, and the bytes from offset 61 on decode for the address
      (`_parse_read_reply`); `sda_replyOk` decides it; `sda_ReplyOk_length`: at least 62 bytes;
    * `sda_PcccReadJudged`, `sda_PcccWriteJudged`: what `readTagOf` / `writeTagOf` (the PCCC-level part of `_read_tag` /
      `_write_tag`) make of EVERY byte string (`sda_readTagOf_judged`, `sda_writeTagOf_judged`);
    * `sda_replyRefused_cases`: the repaired driver's first check, `if not response:` — the status words of the reply
      (`Reply.StatusWordsOk .connected`: encapsulation status 0, a reply service byte, general status 0) decide;
    * `sda_readOutcome`, `sda_writeOutcome`: the result of one `_read_tag` / `_write_tag` as a function of (address,
      reply); `sda_ReadJudged`, `sda_WriteJudged`: what its Tag says about the reply (`sda_readOutcome_judged`, …);
    * `sda_readTag_step`, `sda_writeTag_step`: one `_read_tag` / `_write_tag` with `raw` waiting in the queue;
      `sda_readTag_exact`, `sda_writeTag_exact`: with a socket, no faults, a frame that builds;
    * `sda_readTags_any`, `sda_writeTags_any`: the list comprehensions over a queue of arbitrary replies.
-/
import PycommProofs.SlcAny1
namespace Pycomm.Slc.Drv
open Pycomm Pycomm.Tgt Pycomm.Slc Pycomm.Encap Pycomm.Lgx.Drv Pycomm.Reply

/-- the reply `raw` passes the PCCC-level checks of the SLC driver for the address `a`: byte 58 of the frame (where a
    well-formed reply carries the PCCC STS byte) exists and is 0, and the bytes from offset 61 on (`SLC_REPLY_START`)
    decode for the address (`_parse_read_reply` succeeds).  (The status words of the frame — encapsulation status, general
    status of the Execute-PCCC reply — are judged before, by `replyRefused`.) -/
def sda_ReplyOk (a : Addr) (raw : Bytes) : Prop :=
  raw[58]? = some 0 ∧ ∃ v, parseReadReply a (raw.drop 61) = .ok v

/-- the same as a computation (for `#guard`) -/
def sda_replyOk (a : Addr) (raw : Bytes) : Bool :=
  (raw[58]? == some 0) && (match parseReadReply a (raw.drop 61) with | .ok _ => true | .error _ => false)

theorem sda_replyOk_iff (a : Addr) (raw : Bytes) : sda_replyOk a raw = true ↔ sda_ReplyOk a raw := by
  unfold sda_replyOk sda_ReplyOk
  rw [Bool.and_eq_true, beq_iff_eq]
  constructor
  · rintro ⟨h1, h2⟩
    refine ⟨h1, ?_⟩
    split at h2
    · next v hv => exact ⟨v, hv⟩
    · cases h2
  · rintro ⟨h1, v, hv⟩
    refine ⟨h1, ?_⟩
    rw [hv]

/-- a reply that passes has its STS byte and at least one data byte: 62 bytes or more -/
theorem sda_ReplyOk_length (a : Addr) (raw : Bytes) (h : sda_ReplyOk a raw) : 62 ≤ raw.length := by
  obtain ⟨_, v, hv⟩ := h
  by_cases hl : 62 ≤ raw.length
  · exact hl
  · have hnil : raw.drop 61 = [] := List.drop_eq_nil_of_le (by omega)
    rw [hnil] at hv
    obtain ⟨e, he⟩ := sda_parseReadReply_nil a
    rw [he] at hv
    cases hv

/-- the Tag `tg` the PCCC-level part of `_read_tag` (`readTagOf`) makes for address `a` of the bytes `raw`: it carries
    the address text and the file type letter; it is truthy EXACTLY when `raw` passes the PCCC-level checks
    (`sda_ReplyOk`), and then it is error-free and carries the value `_parse_read_reply` decodes from offset 61; otherwise
    its value is None and its error a non-empty text -/
def sda_PcccReadJudged (a : Addr) (raw : Bytes) (tg : STag) : Prop :=
  tg.tag = a.tag ∧ tg.type = a.fileType ∧
  (tg.truthy = true ↔ sda_ReplyOk a raw) ∧
  (sda_ReplyOk a raw → tg.error = none ∧ parseReadReply a (raw.drop 61) = .ok tg.value) ∧
  (¬ sda_ReplyOk a raw → tg.value = .none ∧ ∃ e, tg.error = some e ∧ e ≠ [])

theorem sda_truthy_of_notNone (tag : Name) (v : PyVal) (ty : Name) (hv : v ≠ .none) :
    ({ tag := tag, value := v, type := ty, error := none } : STag).truthy = true := by
  unfold STag.truthy
  cases v <;> first | rfl | exact absurd rfl hv

theorem sda_readTagOf_judged (a : Addr) (raw : Bytes) : sda_PcccReadJudged a raw (readTagOf a raw) := by
  unfold readTagOf
  cases hs : requestStatus raw with
  | some s =>
    have hno : ¬ sda_ReplyOk a raw := by
      intro h
      rw [(sda_requestStatus_none_iff raw).2 h.1] at hs
      cases hs
    dsimp only
    refine ⟨rfl, rfl, ⟨fun h => by simp [STag.truthy] at h, fun h => absurd h hno⟩, fun h => absurd h hno, fun _ => ⟨rfl, s, rfl, ?_⟩⟩
    exact sda_requestStatus_text raw s hs
  | none =>
    have h58 := (sda_requestStatus_none_iff raw).1 hs
    dsimp only
    have hstart : Gen.SLC_REPLY_START = 61 := rfl
    rw [hstart]
    cases hp : parseReadReply a (raw.drop 61) with
    | ok v =>
      have hok : sda_ReplyOk a raw := ⟨h58, v, hp⟩
      have hvn := sda_parseReadReply_notNone a _ v hp
      dsimp only
      exact ⟨rfl, rfl, ⟨fun _ => hok, fun _ => sda_truthy_of_notNone _ _ _ hvn⟩, fun _ => ⟨rfl, hp⟩,
        fun h => absurd hok h⟩
    | error e =>
      have hno : ¬ sda_ReplyOk a raw := by
        rintro ⟨_, v, hv⟩
        rw [hp] at hv
        cases hv
      dsimp only
      exact ⟨rfl, rfl, ⟨fun h => by simp [STag.truthy] at h, fun h => absurd h hno⟩, fun h => absurd h hno,
        fun _ => ⟨rfl, failedParse, rfl, by decide⟩⟩

/-- the Tag `tg` the PCCC-level part of `_write_tag` (`writeTagOf`) makes: it is error-free EXACTLY when byte 58 of
    `raw` exists and is 0, and then it echoes the caller's value (so it is truthy exactly when, in addition, the value
    handed in is not None); otherwise its value is None and its error a non-empty text -/
def sda_PcccWriteJudged (a : Addr) (v : PyVal) (raw : Bytes) (tg : STag) : Prop :=
  tg.tag = a.tag ∧ tg.type = a.fileType ∧
  (tg.error = none ↔ raw[58]? = some 0) ∧
  (tg.truthy = true ↔ (raw[58]? = some 0 ∧ v ≠ .none)) ∧
  (raw[58]? = some 0 → tg.value = v) ∧
  (raw[58]? ≠ some 0 → tg.value = .none ∧ ∃ e, tg.error = some e ∧ e ≠ [])

theorem sda_writeTagOf_judged (a : Addr) (v : PyVal) (raw : Bytes) :
    sda_PcccWriteJudged a v raw (writeTagOf a v raw) := by
  unfold writeTagOf
  cases hs : requestStatus raw with
  | some s =>
    have hno : raw[58]? ≠ some 0 := by
      intro h
      rw [(sda_requestStatus_none_iff raw).2 h] at hs
      cases hs
    dsimp only
    exact ⟨rfl, rfl, ⟨(fun h => nomatch h), fun h => absurd h hno⟩, ⟨fun h => by simp [STag.truthy] at h, fun h => absurd h.1 hno⟩,
      fun h => absurd h hno, fun _ => ⟨rfl, s, rfl, sda_requestStatus_text raw s hs⟩⟩
  | none =>
    have h58 := (sda_requestStatus_none_iff raw).1 hs
    dsimp only
    refine ⟨rfl, rfl, ⟨fun _ => h58, fun _ => rfl⟩, ⟨fun h => ⟨h58, ?_⟩, fun h => sda_truthy_of_notNone _ _ _ h.2⟩,
      fun _ => rfl, fun h => absurd h58 h⟩
    intro hv
    subst hv
    cases h

/-! ### the repaired driver's first check: `if not response: return Tag(tag, None, file_type, response.error)` -/

theorem sda_errText_nonempty (e : Reply.Err) (h : lda_ErrNonEmpty e) : errText e ≠ [] := by
  cases e with
  | noResponse => decide
  | parseFailed => decide
  | text s => exact h
  | unknownError => decide

/-- `replyRefused raw` over arbitrary bytes: the response is valid exactly when its status words are OK (`valid_iff`);
    otherwise `response.error` is a non-empty text — or raises BufferEmptyError / DataError while rendering the extended
    status of a reply cut inside it -/
theorem sda_replyRefused_cases (raw : Bytes) :
    (StatusWordsOk .connected raw ∧ replyRefused raw = .ok none) ∨
    (¬ StatusWordsOk .connected raw ∧
      ((∃ txt, replyRefused raw = .ok (some txt) ∧ txt ≠ []) ∨
       replyRefused raw = .error .bufferEmpty ∨ replyRefused raw = .error .data)) := by
  unfold replyRefused
  dsimp only
  cases hv : validCip .connected (parseCip (some raw) .connected) with
  | true =>
    left
    exact ⟨(valid_iff .connected raw).1 hv, by simp⟩
  | false =>
    right
    refine ⟨fun h => ?_, ?_⟩
    · rw [(valid_iff .connected raw).2 h] at hv
      cases hv
    · simp only [Bool.false_eq_true, if_false]
      rcases lda_errorCip_invalid .connected (some raw) with ⟨e, he, hne⟩ | he | he
      · rw [he]
        exact .inl ⟨_, rfl, sda_errText_nonempty e hne⟩
      · rw [he]; exact .inr (.inl rfl)
      · rw [he]; exact .inr (.inr rfl)

/-- the result of one `_read_tag` of address `a` once the reply `raw` arrived, as a function of (address, reply) -/
def sda_readOutcome (a : Addr) (raw : Bytes) : Except Exn STag :=
  match replyRefused raw with
  | .error e => .error e
  | .ok (some txt) => .ok (refusedTag a txt)
  | .ok none => .ok (readTagOf a raw)

/-- … of one `_write_tag` -/
def sda_writeOutcome (a : Addr) (v : PyVal) (raw : Bytes) : Except Exn STag :=
  match replyRefused raw with
  | .error e => .error e
  | .ok (some txt) => .ok (refusedTag a txt)
  | .ok none => .ok (writeTagOf a v raw)

/-- the Tag `tg` of a READ of address `a`, judged by the reply `raw`: it carries the address text and the file type
    letter; it is truthy EXACTLY when the status words of `raw` are OK (`Reply.StatusWordsOk .connected`, the predicate of
    `valid_iff`: at least 49 bytes, encapsulation status 0, a reply service byte, general status 0) AND `raw` passes the
    PCCC-level checks (`sda_ReplyOk`: STS byte 0, the data decode for the address) — and then it is error-free and carries
    the value `_parse_read_reply` decodes from offset 61; otherwise its value is None and its error a non-empty text -/
def sda_ReadJudged (a : Addr) (raw : Bytes) (tg : STag) : Prop :=
  tg.tag = a.tag ∧ tg.type = a.fileType ∧
  (tg.truthy = true ↔ (StatusWordsOk .connected raw ∧ sda_ReplyOk a raw)) ∧
  (StatusWordsOk .connected raw → sda_ReplyOk a raw → tg.error = none ∧ parseReadReply a (raw.drop 61) = .ok tg.value) ∧
  (¬ (StatusWordsOk .connected raw ∧ sda_ReplyOk a raw) → tg.value = .none ∧ ∃ e, tg.error = some e ∧ e ≠ [])

theorem sda_refusedTag_falsy (a : Addr) (txt : Name) : (refusedTag a txt).truthy = false := rfl

/-- `_read_tag` over arbitrary bytes: a Tag judged as `sda_ReadJudged` says — or, only when the status words are NOT OK,
    BufferEmptyError / DataError out of `response.error` -/
theorem sda_readOutcome_cases (a : Addr) (raw : Bytes) :
    (∃ tg, sda_readOutcome a raw = .ok tg ∧ sda_ReadJudged a raw tg) ∨
    (¬ StatusWordsOk .connected raw ∧
      (sda_readOutcome a raw = .error .bufferEmpty ∨ sda_readOutcome a raw = .error .data)) := by
  unfold sda_readOutcome
  rcases sda_replyRefused_cases raw with ⟨hsw, hr⟩ | ⟨hsw, ⟨txt, hr, hne⟩ | hr | hr⟩
  · rw [hr]
    obtain ⟨h1, h2, h3, h4, h5⟩ := sda_readTagOf_judged a raw
    exact .inl ⟨_, rfl, h1, h2, ⟨fun h => ⟨hsw, h3.1 h⟩, fun h => h3.2 h.2⟩, fun _ h => h4 h,
      fun h => h5 (fun hok => h ⟨hsw, hok⟩)⟩
  · rw [hr]
    exact .inl ⟨_, rfl, rfl, rfl, ⟨(fun h => by simp [refusedTag, STag.truthy] at h), fun h => absurd h.1 hsw⟩, fun h => absurd h hsw,
      fun _ => ⟨rfl, txt, rfl, hne⟩⟩
  · rw [hr]; exact .inr ⟨hsw, .inl rfl⟩
  · rw [hr]; exact .inr ⟨hsw, .inr rfl⟩

/-- the Tag `tg` of a WRITE of `v` to address `a`, judged by the reply `raw`: it is error-free EXACTLY when the status
    words of `raw` are OK AND byte 58 of `raw` (the PCCC STS byte) exists and is 0, and then it echoes the caller's value
    (so it is truthy exactly when, in addition, the value handed in is not None); otherwise its value is None and its
    error a non-empty text -/
def sda_WriteJudged (a : Addr) (v : PyVal) (raw : Bytes) (tg : STag) : Prop :=
  tg.tag = a.tag ∧ tg.type = a.fileType ∧
  (tg.error = none ↔ (StatusWordsOk .connected raw ∧ raw[58]? = some 0)) ∧
  (tg.truthy = true ↔ (StatusWordsOk .connected raw ∧ raw[58]? = some 0 ∧ v ≠ .none)) ∧
  (StatusWordsOk .connected raw → raw[58]? = some 0 → tg.value = v) ∧
  (¬ (StatusWordsOk .connected raw ∧ raw[58]? = some 0) → tg.value = .none ∧ ∃ e, tg.error = some e ∧ e ≠ [])

theorem sda_writeOutcome_cases (a : Addr) (v : PyVal) (raw : Bytes) :
    (∃ tg, sda_writeOutcome a v raw = .ok tg ∧ sda_WriteJudged a v raw tg) ∨
    (¬ StatusWordsOk .connected raw ∧
      (sda_writeOutcome a v raw = .error .bufferEmpty ∨ sda_writeOutcome a v raw = .error .data)) := by
  unfold sda_writeOutcome
  rcases sda_replyRefused_cases raw with ⟨hsw, hr⟩ | ⟨hsw, ⟨txt, hr, hne⟩ | hr | hr⟩
  · rw [hr]
    obtain ⟨h1, h2, h3, h4, h5, h6⟩ := sda_writeTagOf_judged a v raw
    exact .inl ⟨_, rfl, h1, h2, ⟨fun h => ⟨hsw, h3.1 h⟩, fun h => h3.2 h.2⟩,
      ⟨fun h => ⟨hsw, h4.1 h⟩, fun h => h4.2 h.2⟩, fun _ h => h5 h, fun h => h6 (fun hok => h ⟨hsw, hok⟩)⟩
  · rw [hr]
    exact .inl ⟨_, rfl, rfl, rfl, ⟨(fun h => nomatch h), fun h => absurd h.1 hsw⟩,
      ⟨(fun h => by simp [refusedTag, STag.truthy] at h), fun h => absurd h.1 hsw⟩, fun h => absurd h hsw, fun _ => ⟨rfl, txt, rfl, hne⟩⟩
  · rw [hr]; exact .inr ⟨hsw, .inl rfl⟩
  · rw [hr]; exact .inr ⟨hsw, .inr rfl⟩

/-! ### one `_read_tag` / `_write_tag` with a reply waiting -/

/-- `_read_tag(t)` for an accepted address with `raw` waiting in the queue: the result is `sda_readOutcome a raw`, two
    counter values are drawn and the queue moves on by one — or CommError / DataError is raised before -/
theorem sda_readTag_step {σ} (hook : ObjHook σ) (w : Cli.World σ) (t : Name) (a : Addr) (raw : Bytes)
    (rest : List (Option Bytes)) (hparse : parseTag t = some a) (hp : w.net.pending = some raw :: rest) :
    (∃ w1 x, readTag hook w t = (w1, sda_readOutcome a raw) ∧ w1.net.pending = rest ++ [x] ∧
      w1.drv = w.drv.nextSeq.2.nextSeq.2) ∨
    (readTag hook w t).2 = .error .comm ∨ (readTag hook w t).2 = .error .data := by
  unfold readTag
  rw [hparse]
  dsimp only
  cases hm : slcReadMsg a w.drv.nextSeq.1 with
  | error e =>
    dsimp only
    rw [sda_readMsg_err a _ e hm]
    exact .inr (.inr rfl)
  | ok pccc =>
    dsimp only
    have hp1 : ({ w with drv := w.drv.nextSeq.2 } : Cli.World σ).net.pending = some raw :: rest := hp
    rcases sda_sendPccc_step hook { w with drv := w.drv.nextSeq.2 } (msgStart w.drv.nextSeq.2 ++ pccc) raw rest hp1 with
      ⟨w1, x, heq, hpend, hdrv⟩ | he | he
    · rw [heq]
      refine .inl ⟨w1, x, ?_, hpend, hdrv⟩
      dsimp only
      unfold sda_readOutcome
      cases replyRefused raw with
      | error e => rfl
      | ok o => cases o <;> rfl
    · rcases hsend : sendPccc hook { w with drv := w.drv.nextSeq.2 } (msgStart w.drv.nextSeq.2 ++ pccc) with ⟨w1, rr⟩
      rw [hsend] at he
      dsimp only at he
      subst he
      exact .inr (.inl rfl)
    · rcases hsend : sendPccc hook { w with drv := w.drv.nextSeq.2 } (msgStart w.drv.nextSeq.2 ++ pccc) with ⟨w1, rr⟩
      rw [hsend] at he
      dsimp only at he
      subst he
      exact .inr (.inr rfl)

/-- … and with a socket, no scheduled faults, a request that encodes and a frame that builds: exactly `sda_readOutcome a raw` -/
theorem sda_readTag_exact {σ} (hook : ObjHook σ) (w : Cli.World σ) (t : Name) (a : Addr) (raw pccc frm : Bytes)
    (rest : List (Option Bytes)) (hparse : parseTag t = some a) (hp : w.net.pending = some raw :: rest)
    (hsock : w.drv.hasSock = true) (hf : w.net.faults = [])
    (hm : slcReadMsg a w.drv.nextSeq.1 = .ok pccc)
    (hb : buildRequest (.sendUnit w.drv.nextSeq.2.nextSeq.1 (msgStart w.drv ++ pccc)) w.drv.ctx = .ok frm) :
    (readTag hook w t).2 = sda_readOutcome a raw := by
  unfold readTag
  rw [hparse]
  dsimp only
  rw [hm]
  dsimp only
  have hs := sda_sendPccc_exact hook ({ w with drv := w.drv.nextSeq.2 } : Cli.World σ) (msgStart w.drv.nextSeq.2 ++ pccc)
    raw frm rest hp hsock hf hb
  rcases hsend : sendPccc hook { w with drv := w.drv.nextSeq.2 } (msgStart w.drv.nextSeq.2 ++ pccc) with ⟨w1, rr⟩
  rw [hsend] at hs
  dsimp only at hs
  subst hs
  dsimp only
  unfold sda_readOutcome
  cases replyRefused raw with
  | error e => rfl
  | ok o => cases o <;> rfl

/-- `_write_tag(t, v)` for an accepted address and a value `writeable_value` accepts, with `raw` waiting -/
theorem sda_writeTag_step {σ} (hook : ObjHook σ) (w : Cli.World σ) (t : Name) (a : Addr) (v : PyVal) (x : Bytes × Nat)
    (raw : Bytes) (rest : List (Option Bytes)) (hparse : parseTag t = some a) (hv : writeValue a v = .ok x)
    (hp : w.net.pending = some raw :: rest) :
    (∃ w1 y, writeTag hook w t v = (w1, sda_writeOutcome a v raw) ∧ w1.net.pending = rest ++ [y] ∧
      w1.drv = w.drv.nextSeq.2.nextSeq.2) ∨
    (writeTag hook w t v).2 = .error .comm ∨ (writeTag hook w t v).2 = .error .data := by
  unfold writeTag
  rw [hparse]
  dsimp only
  rw [hv]
  dsimp only
  cases hm : writeMsg a w.drv.nextSeq.1 v with
  | error e =>
    dsimp only
    rw [sda_writeMsg_err a _ v x e hv hm]
    exact .inr (.inr rfl)
  | ok pccc =>
    dsimp only
    have hp1 : ({ w with drv := w.drv.nextSeq.2 } : Cli.World σ).net.pending = some raw :: rest := hp
    rcases sda_sendPccc_step hook { w with drv := w.drv.nextSeq.2 } (msgStart w.drv.nextSeq.2 ++ pccc) raw rest hp1 with
      ⟨w1, y, heq, hpend, hdrv⟩ | he | he
    · rw [heq]
      refine .inl ⟨w1, y, ?_, hpend, hdrv⟩
      dsimp only
      unfold sda_writeOutcome
      cases replyRefused raw with
      | error e => rfl
      | ok o => cases o <;> rfl
    · rcases hsend : sendPccc hook { w with drv := w.drv.nextSeq.2 } (msgStart w.drv.nextSeq.2 ++ pccc) with ⟨w1, rr⟩
      rw [hsend] at he
      dsimp only at he
      subst he
      exact .inr (.inl rfl)
    · rcases hsend : sendPccc hook { w with drv := w.drv.nextSeq.2 } (msgStart w.drv.nextSeq.2 ++ pccc) with ⟨w1, rr⟩
      rw [hsend] at he
      dsimp only at he
      subst he
      exact .inr (.inr rfl)

theorem sda_writeTag_exact {σ} (hook : ObjHook σ) (w : Cli.World σ) (t : Name) (a : Addr) (v : PyVal) (x : Bytes × Nat)
    (raw pccc frm : Bytes) (rest : List (Option Bytes)) (hparse : parseTag t = some a) (hv : writeValue a v = .ok x)
    (hp : w.net.pending = some raw :: rest) (hsock : w.drv.hasSock = true) (hf : w.net.faults = [])
    (hm : writeMsg a w.drv.nextSeq.1 v = .ok pccc)
    (hb : buildRequest (.sendUnit w.drv.nextSeq.2.nextSeq.1 (msgStart w.drv ++ pccc)) w.drv.ctx = .ok frm) :
    (writeTag hook w t v).2 = sda_writeOutcome a v raw := by
  unfold writeTag
  rw [hparse]
  dsimp only
  rw [hv]
  dsimp only
  rw [hm]
  dsimp only
  have hs := sda_sendPccc_exact hook ({ w with drv := w.drv.nextSeq.2 } : Cli.World σ) (msgStart w.drv.nextSeq.2 ++ pccc)
    raw frm rest hp hsock hf hb
  rcases hsend : sendPccc hook { w with drv := w.drv.nextSeq.2 } (msgStart w.drv.nextSeq.2 ++ pccc) with ⟨w1, rr⟩
  rw [hsend] at hs
  dsimp only at hs
  subst hs
  dsimp only
  unfold sda_writeOutcome
  cases replyRefused raw with
  | error e => rfl
  | ok o => cases o <;> rfl

/-! ### the list comprehension over a queue of arbitrary replies -/

/-- the Tags of a call that served every address: one per address, in call order, the i-th the Tag `sda_readOutcome`
    makes of the i-th address and the i-th reply -/
def sda_Served (ts : List Name) (raws : List Bytes) (tags : List STag) : Prop :=
  tags.length = ts.length ∧
  ∀ (i : Nat) (t : Name), ts[i]? = some t →
    ∃ a raw tg, parseTag t = some a ∧ raws[i]? = some raw ∧ sda_readOutcome a raw = .ok tg ∧ tags[i]? = some tg

/-- the exception `e` that ended a call: there is a FIRST address (index `k`) whose `_read_tag` raised — every address
    in front of it was accepted by `parse_tag` — and either that address is rejected by `parse_tag` and `e` is
    RequestError, or it is accepted and `e` is CommError / DataError (building, sending, receiving; rendering the error
    of a reply cut inside its extended status) / BufferEmptyError (the same rendering) -/
def sda_FirstFailure (ts : List Name) (e : Exn) : Prop :=
  ∃ (k : Nat) (t : Name), ts[k]? = some t ∧
    (∀ i t', i < k → ts[i]? = some t' → (parseTag t').isSome = true) ∧
    ((parseTag t = none ∧ e = .request) ∨
     ((parseTag t).isSome = true ∧ (e = .comm ∨ e = .data ∨ e = .bufferEmpty)))

theorem sda_FirstFailure_cons (t : Name) (ts : List Name) (e : Exn) (ht : (parseTag t).isSome = true)
    (h : sda_FirstFailure ts e) : sda_FirstFailure (t :: ts) e := by
  obtain ⟨k, tk, hk, hbefore, hcase⟩ := h
  refine ⟨k + 1, tk, by simpa using hk, ?_, hcase⟩
  intro i t' hi hget
  cases i with
  | zero =>
    simp only [List.getElem?_cons_zero, Option.some.injEq] at hget
    subst hget
    exact ht
  | succ j =>
    simp only [List.getElem?_cons_succ] at hget
    exact hbefore j t' (by omega) hget

theorem sda_readTags_any {σ} (hook : ObjHook σ) :
    ∀ (ts : List Name) (raws : List Bytes) (w : Cli.World σ) (rest : List (Option Bytes)),
      raws.length = ts.length → w.net.pending = raws.map some ++ rest →
      (∃ w' tags, readTags hook w ts = (w', .ok tags) ∧ sda_Served ts raws tags) ∨
      (∃ e, (readTags hook w ts).2 = .error e ∧ sda_FirstFailure ts e)
  | [], raws, w, rest, _, _ => by
    left
    refine ⟨w, [], rfl, rfl, ?_⟩
    intro i t h
    cases h
  | t :: ts, [], w, rest, hl, _ => by cases hl
  | t :: ts, raw :: raws, w, rest, hl, hp => by
    simp only [readTags]
    cases hparse : parseTag t with
    | none =>
      right
      have hrt : readTag hook w t = (w, .error .request) := by
        unfold readTag
        rw [hparse]
      rw [hrt]
      exact ⟨.request, rfl, 0, t, rfl, fun i t' hi _ => by omega, .inl ⟨hparse, rfl⟩⟩
    | some a =>
      have hp0 : w.net.pending = some raw :: (raws.map some ++ rest) := by
        rw [hp]; rfl
      have hfail : ∀ e, (e = .comm ∨ e = .data ∨ e = .bufferEmpty) → sda_FirstFailure (t :: ts) e := fun e he =>
        ⟨0, t, rfl, fun i t' hi _ => by omega, .inr ⟨by rw [hparse]; rfl, he⟩⟩
      rcases sda_readTag_step hook w t a raw _ hparse hp0 with ⟨w1, x, heq, hpend, _⟩ | he | he
      · rw [heq]
        rcases sda_readOutcome_cases a raw with ⟨tg, hout, _⟩ | ⟨_, hout | hout⟩
        · rw [hout]
          dsimp only
          have hp1 : w1.net.pending = raws.map some ++ (rest ++ [x]) := by
            rw [hpend, List.append_assoc]
          have hl' : raws.length = ts.length := by
            simpa using hl
          rcases sda_readTags_any hook ts raws w1 (rest ++ [x]) hl' hp1 with
            ⟨w', tags, hrs, hlen, hserved⟩ | ⟨e, hrs, hff⟩
          · rw [hrs]
            left
            refine ⟨w', _, rfl, by simp [hlen], ?_⟩
            intro i ti hget
            cases i with
            | zero =>
              simp only [List.getElem?_cons_zero, Option.some.injEq] at hget
              subst hget
              exact ⟨a, raw, tg, hparse, rfl, hout, rfl⟩
            | succ j =>
              simp only [List.getElem?_cons_succ] at hget ⊢
              exact hserved j ti hget
          · right
            rcases hrest : readTags hook w1 ts with ⟨w2, rs⟩
            rw [hrest] at hrs
            dsimp only at hrs
            subst hrs
            exact ⟨e, rfl, sda_FirstFailure_cons t ts e (by rw [hparse]; rfl) hff⟩
        · rw [hout]
          exact .inr ⟨_, rfl, hfail _ (.inr (.inr rfl))⟩
        · rw [hout]
          exact .inr ⟨_, rfl, hfail _ (.inr (.inl rfl))⟩
      · right
        rcases hrt : readTag hook w t with ⟨w1, r1⟩
        rw [hrt] at he
        dsimp only at he
        subst he
        exact ⟨_, rfl, hfail _ (.inl rfl)⟩
      · right
        rcases hrt : readTag hook w t with ⟨w1, r1⟩
        rw [hrt] at he
        dsimp only at he
        subst he
        exact ⟨_, rfl, hfail _ (.inr (.inl rfl))⟩

/-- the Tags of a `write` call that served every pair: one per pair, in call order, the i-th the Tag `sda_writeOutcome`
    makes of the i-th address, the i-th value and the i-th reply -/
def sda_WServed (avs : List (Name × PyVal)) (raws : List Bytes) (tags : List STag) : Prop :=
  tags.length = avs.length ∧
  ∀ (i : Nat) (p : Name × PyVal), avs[i]? = some p →
    ∃ a raw tg, parseTag p.1 = some a ∧ raws[i]? = some raw ∧ sda_writeOutcome a p.2 raw = .ok tg ∧ tags[i]? = some tg

theorem sda_writeTags_any {σ} (hook : ObjHook σ) :
    ∀ (avs : List (Name × PyVal)) (raws : List Bytes) (w : Cli.World σ) (rest : List (Option Bytes)),
      raws.length = avs.length → w.net.pending = raws.map some ++ rest →
      (∀ p ∈ avs, ∃ a x, parseTag p.1 = some a ∧ writeValue a p.2 = .ok x) →
      (∃ w' tags, writeTags hook w avs = (w', .ok tags) ∧ sda_WServed avs raws tags) ∨
      (writeTags hook w avs).2 = .error .comm ∨ (writeTags hook w avs).2 = .error .data ∨
      (writeTags hook w avs).2 = .error .bufferEmpty
  | [], raws, w, rest, _, _, _ => by
    left
    refine ⟨w, [], rfl, rfl, ?_⟩
    intro i t h
    cases h
  | p :: avs, [], w, rest, hl, _, _ => by cases hl
  | (t, v) :: avs, raw :: raws, w, rest, hl, hp, hall => by
    simp only [writeTags]
    obtain ⟨a, x, hparse, hval⟩ := hall (t, v) List.mem_cons_self
    have hp0 : w.net.pending = some raw :: (raws.map some ++ rest) := by
      rw [hp]; rfl
    rcases sda_writeTag_step hook w t a v x raw _ hparse hval hp0 with ⟨w1, y, heq, hpend, _⟩ | he | he
    · rw [heq]
      rcases sda_writeOutcome_cases a v raw with ⟨tg, hout, _⟩ | ⟨_, hout | hout⟩
      · rw [hout]
        dsimp only
        have hp1 : w1.net.pending = raws.map some ++ (rest ++ [y]) := by
          rw [hpend, List.append_assoc]
        have hl' : raws.length = avs.length := by
          simpa using hl
        rcases sda_writeTags_any hook avs raws w1 (rest ++ [y]) hl' hp1
          (fun p hp => hall p (List.mem_cons_of_mem _ hp)) with ⟨w', tags, hrs, hlen, hserved⟩ | hrs | hrs | hrs
        · rw [hrs]
          left
          refine ⟨w', _, rfl, by simp [hlen], ?_⟩
          intro i pi hget
          cases i with
          | zero =>
            simp only [List.getElem?_cons_zero, Option.some.injEq] at hget
            subst hget
            exact ⟨a, raw, tg, hparse, rfl, hout, rfl⟩
          | succ j =>
            simp only [List.getElem?_cons_succ] at hget ⊢
            exact hserved j pi hget
        · right
          rcases hrest : writeTags hook w1 avs with ⟨w2, rs⟩
          rw [hrest] at hrs
          dsimp only at hrs
          subst hrs
          exact .inl rfl
        · right
          rcases hrest : writeTags hook w1 avs with ⟨w2, rs⟩
          rw [hrest] at hrs
          dsimp only at hrs
          subst hrs
          exact .inr (.inl rfl)
        · right
          rcases hrest : writeTags hook w1 avs with ⟨w2, rs⟩
          rw [hrest] at hrs
          dsimp only at hrs
          subst hrs
          exact .inr (.inr rfl)
      · rw [hout]
        exact .inr (.inr (.inr rfl))
      · rw [hout]
        exact .inr (.inr (.inl rfl))
    · right
      rcases hrt : writeTag hook w t v with ⟨w1, r1⟩
      rw [hrt] at he
      dsimp only at he
      subst he
      exact .inl rfl
    · right
      rcases hrt : writeTag hook w t v with ⟨w1, r1⟩
      rw [hrt] at he
      dsimp only at he
      subst he
      exact .inr (.inl rfl)

end Pycomm.Slc.Drv
