/-
  Helper lemmas for C04 at the level of the Logix driver model (LogixDriverFit.lean), part 2:
  what the request builders record about sizes, and the size accounting of every built packet.
-/
import PycommProofs.LDFitBasic
namespace Pycomm.Lgx.Drv
open Pycomm.Tgt Pycomm.Path Pycomm.Reply

/-! ### grouping: the members of a group and the accounted sizes -/

/-- the requests a group of the plan stands for (looked up by id, as the builders do) sum up to the size the
    grouping loop accounts for the group -/
theorem ldf_group_sum {α} (items : List α) (rid size val : α → Nat) (hv : ∀ x ∈ items, val x = size x) (g : List Nat) :
    ((g.filterMap fun id => items.find? (fun x => rid x == id)).map val).sum =
      K.sumSizes (items.map fun x => ({ id := rid x, error := false, size := size x } : K.Item)) g := by
  rw [K.sumSizes_eq]
  induction g with
  | nil => rfl
  | cons id g ih =>
    simp only [List.filterMap_cons, List.map_cons, List.sum_cons]
    have hs : K.sizeOf (items.map fun x => ({ id := rid x, error := false, size := size x } : K.Item)) id =
        ((items.find? (fun x => rid x == id)).map size).getD 0 := by
      unfold K.sizeOf
      rw [List.find?_map]
      simp only [Option.map_map]
      rfl
    rw [hs]
    cases hf : items.find? (fun x => rid x == id) with
    | none => simpa using ih
    | some x =>
      simp only [List.map_cons, List.sum_cons, Option.map_some, Option.getD_some]
      rw [ih, hv x (List.mem_of_find?_eq_some hf)]

theorem ldf_group_mem {α} (items : List α) (rid : α → Nat) (g : List Nat) (x : α)
    (h : x ∈ g.filterMap fun id => items.find? (fun x => rid x == id)) : x ∈ items := by
  obtain ⟨id, _, hid⟩ := List.mem_filterMap.1 h
  exact List.mem_of_find?_eq_some hid

theorem ldf_nodup_of_sublist {l l' : List Nat} (hs : l.Sublist l') (h : l'.Nodup) : l.Nodup := hs.nodup h

theorem ldf_uniqueIds {α} (items : List α) (rid size : α → Nat) (h : (items.map rid).Nodup) :
    K.UniqueIds (items.map fun x => ({ id := rid x, error := false, size := size x } : K.Item)) := by
  unfold K.UniqueIds
  rw [List.map_map]
  exact h

/-- `path` is the request path the driver computed for one of the accepted requests of `ps` -/
def ldf_PathOf (cfg : Cfg) (ps : List Parsed) (path : Bytes) : Prop :=
  ∃ p ∈ ps, ∃ info, p.error = none ∧ p.info = some info ∧ requestPathOf cfg p.plcTag info = .ok path

theorem ldf_PathOf_len {cfg : Cfg} {ps : List Parsed} {path : Bytes} (h : ldf_PathOf cfg ps path) :
    3 ≤ path.length ∧ path.length ≤ 512 := by
  obtain ⟨p, _, info, _, _, h⟩ := h
  exact ldf_requestPathOf_len cfg _ info path h

theorem ldf_PathOf_cons {cfg : Cfg} {ps : List Parsed} {path : Bytes} (q : Parsed) (h : ldf_PathOf cfg ps path) :
    ldf_PathOf cfg (q :: ps) path := by
  obtain ⟨p, hp, h⟩ := h
  exact ⟨p, List.mem_cons_of_mem _ hp, h⟩

/-! ### the read builders -/

/-- what the first loop of the read builders records for a live request: its path is the path of a tag, the size is
    `_tag_return_size + len(message) + 2`, the flag is the comparison with the connection size -/
def ldf_RItem (cfg : Cfg) (ps : List Parsed) (C : Nat) (multi : Bool) (x : ReadReq × Nat × Bool) : Prop :=
  ldf_PathOf cfg ps x.1.path ∧ x.2.1 = x.1.returnSize ∧
  x.2.2 = (if multi = true then decide (x.1.returnSize + K.OVERHEAD > C) else decide (x.1.returnSize > C))

theorem ldf_mkReadReq_ok (cfg : Cfg) (d d1 : Cli.Drv) (p : Parsed) (info : TagInfo) (req : ReadReq)
    (h : mkReadReq cfg d p info = (d1, .ok req)) :
    requestPathOf cfg p.plcTag info = .ok req.path ∧ req.rid = p.requestId := by
  unfold mkReadReq at h
  dsimp only at h
  split at h
  · cases h
  · cases h
  · next path n hp _ => cases h; exact ⟨hp, rfl⟩

theorem ldf_readBuildLive_items (cfg : Cfg) (C : Nat) (multi : Bool) (ps : List Parsed) :
    ∀ (d d' : Cli.Drv) (items : List (ReadReq × Nat × Bool)),
      readBuildLive cfg C multi d ps = (d', .ok items) →
      (∀ x ∈ items, ldf_RItem cfg ps C multi x) ∧ (items.map (·.1.rid)).Sublist (ps.map (·.requestId)) := by
  induction ps with
  | nil =>
    intro d d' items h
    simp only [readBuildLive] at h
    cases h
    exact ⟨fun x hx => (by cases hx), List.Sublist.refl _⟩
  | cons p rest ih =>
    intro d d' items h
    rw [readBuildLive] at h
    split at h
    · next info he hi =>
      rcases hm : mkReadReq cfg d p info with ⟨d1, r⟩
      rw [hm] at h
      dsimp only at h
      cases r with
      | error e => cases h
      | ok req =>
        dsimp only at h
        obtain ⟨hpath, hrid⟩ := ldf_mkReadReq_ok cfg d d1 p info req hm
        generalize hfr : (if (if multi = true then decide (req.returnSize + K.OVERHEAD > C) else decide (req.returnSize > C)) = true
          then req.refresh d1 else (d1, req)) = fr at h
        have hfr2 : fr.2.rid = req.rid ∧ fr.2.path = req.path ∧ fr.2.returnSize = req.returnSize := by
          have hb : ∀ b : Bool, (if b = true then req.refresh d1 else (d1, req)).2.rid = req.rid ∧
              (if b = true then req.refresh d1 else (d1, req)).2.path = req.path ∧
              (if b = true then req.refresh d1 else (d1, req)).2.returnSize = req.returnSize := by
            intro b; cases b <;> exact ⟨rfl, rfl, rfl⟩
          rw [← hfr]; exact hb _
        obtain ⟨d2, req2⟩ := fr
        dsimp only at h hfr2
        rcases hrec : readBuildLive cfg C multi d2 rest with ⟨d3, more⟩
        rw [hrec] at h
        dsimp only at h
        cases more with
        | error e => cases h
        | ok xs =>
          simp only [Except.map, Prod.mk.injEq, Except.ok.injEq] at h
          obtain ⟨_, rfl⟩ := h
          obtain ⟨ih1, ih2⟩ := ih d2 d3 xs hrec
          refine ⟨?_, ?_⟩
          · intro x hx
            rcases List.mem_cons.1 hx with rfl | hx
            · refine ⟨?_, ?_, ?_⟩
              · show ldf_PathOf cfg (p :: rest) req2.path
                rw [hfr2.2.1]; exact ⟨p, List.mem_cons_self, info, he, hi, hpath⟩
              · show req.returnSize = req2.returnSize
                rw [hfr2.2.2]
              · show _ = (if multi = true then decide (req2.returnSize + K.OVERHEAD > C) else decide (req2.returnSize > C))
                rw [hfr2.2.2]
            · obtain ⟨g1, g2, g3⟩ := ih1 x hx
              exact ⟨ldf_PathOf_cons p g1, g2, g3⟩
          · simp only [List.map_cons]
            rw [hfr2.1, hrid]
            exact ih2.cons_cons _
    · obtain ⟨ih1, ih2⟩ := ih d d' items h
      refine ⟨?_, by simp only [List.map_cons]; exact ih2.cons _⟩
      intro x hx
      obtain ⟨g1, g2, g3⟩ := ih1 x hx
      exact ⟨ldf_PathOf_cons p g1, g2, g3⟩

/-- the size facts about one built read packet (`C` = the connection size the builder saw) -/
def ldf_ReadFit (cfg : Cfg) (ps : List Parsed) (C : Nat) : Request → Prop
  | .read r => ldf_PathOf cfg ps r.path ∧ r.returnSize ≤ C
  | .readFrag r => ldf_PathOf cfg ps r.path
  | .multiRead _ rs => (∀ r ∈ rs, ldf_PathOf cfg ps r.path) ∧ K.OVERHEAD + (rs.map (·.returnSize)).sum ≤ C
  | _ => False

theorem ldf_readBuild_fit (cfg : Cfg) (d d' : Cli.Drv) (ps : List Parsed) (reqs : List Request)
    (hu : (ps.map (·.requestId)).Nodup)
    (h : readBuildRequests cfg d ps = (d', .ok reqs)) : ∀ q ∈ reqs, ldf_ReadFit cfg ps d.connectionSize q := by
  unfold readBuildRequests at h
  dsimp only at h
  split at h
  · rcases hl : readBuildLive cfg d.connectionSize true d ps with ⟨d1, live⟩
    rw [hl] at h
    dsimp only at h
    cases live with
    | error e => cases h
    | ok items =>
      dsimp only at h
      obtain ⟨hit, hsub⟩ := ldf_readBuildLive_items cfg _ true ps d d1 items hl
      simp only [Prod.mk.injEq, Except.ok.injEq] at h
      obtain ⟨_, rfl⟩ := h
      intro q hq
      rcases List.mem_append.1 hq with hq | hq
      · obtain ⟨m, hm, rfl⟩ := List.mem_map.1 hq
        have hm2 : m.2 ∈ (drawSeqs d1 _).2.map (·.2) := List.mem_map.2 ⟨m, hm, rfl⟩
        rw [lds_drawSeqs_snd] at hm2
        obtain ⟨g, hg, hgm⟩ := List.mem_map.1 hm2
        -- the group as a lookup in `items`, projected
        have hproj : m.2 = (g.filterMap fun id => items.find? (fun x => x.1.rid == id)).map (·.1) := by
          rw [← hgm, List.map_filterMap]
        show (∀ r ∈ m.2, ldf_PathOf cfg ps r.path) ∧ K.OVERHEAD + (m.2.map (·.returnSize)).sum ≤ d.connectionSize
        rw [hproj]
        refine ⟨?_, ?_⟩
        · intro r hr
          obtain ⟨x, hx, rfl⟩ := List.mem_map.1 hr
          exact (hit x (ldf_group_mem items (·.1.rid) g x hx)).1
        · rw [List.map_map]
          have hsum := ldf_group_sum items (·.1.rid) (·.2.1) (fun x => x.1.returnSize)
            (fun x hx => (hit x hx).2.1.symm) g
          have hfit := K.plan_groups_fit d.connectionSize
            (items.map fun x => ({ id := x.1.rid, error := false, size := x.2.1 } : K.Item))
            (ldf_uniqueIds items (·.1.rid) (·.2.1) (ldf_nodup_of_sublist hsub hu)) g hg
          have e : ((g.filterMap fun id => items.find? (fun x => x.1.rid == id)).map
              ((fun r : ReadReq => r.returnSize) ∘ fun x => x.1)).sum =
              ((g.filterMap fun id => items.find? (fun x => x.1.rid == id)).map fun x => x.1.returnSize).sum := rfl
          rw [e, hsum]
          exact hfit
      · obtain ⟨x, hx, rfl⟩ := List.mem_map.1 hq
        exact (hit x (List.mem_filter.1 hx).1).1
  · rcases hl : readBuildLive cfg d.connectionSize false d ps with ⟨d1, live⟩
    rw [hl] at h
    dsimp only at h
    cases live with
    | error e => cases h
    | ok items =>
      obtain ⟨hit, _⟩ := ldf_readBuildLive_items cfg _ false ps d d1 items hl
      simp only [Except.map, Prod.mk.injEq, Except.ok.injEq] at h
      obtain ⟨_, rfl⟩ := h
      intro q hq
      obtain ⟨x, hx, rfl⟩ := List.mem_map.1 hq
      obtain ⟨h1, _, h3⟩ := hit x hx
      split
      · exact h1
      · next hf =>
        refine ⟨h1, ?_⟩
        rw [h3] at hf
        simpa using hf

/-! ### the write builders -/

/-- what the first loop of `_write_build_multi_requests` records for a value write -/
def ldf_WItem (cfg : Cfg) (ps : List Parsed) (C : Nat) (x : WriteReq × Bool) : Prop :=
  ldf_PathOf cfg ps x.1.path ∧ x.2 = decide (x.1.messageLen + K.OVERHEAD > C)

theorem ldf_mkWriteReq_ok (cfg : Cfg) (d d1 : Cli.Drv) (p : Parsed) (info : TagInfo) (v : Bytes) (req : WriteReq)
    (h : mkWriteReq cfg d p info v = (d1, .ok req)) :
    requestPathOf cfg p.plcTag info = .ok req.path ∧ req.rid = p.requestId ∧ req.value = v := by
  unfold mkWriteReq at h
  dsimp only at h
  split at h
  · cases h
  · cases h
  · next path n hp _ => cases h; exact ⟨hp, rfl, rfl⟩

theorem ldf_mkRmwReq_ok (cfg : Cfg) (d d1 : Cli.Drv) (p : Parsed) (info : TagInfo) (rid : Int) (r : RmwReq)
    (h : mkRmwReq cfg d p info rid = (d1, .ok r)) : requestPathOf cfg p.plcTag info = .ok r.path := by
  unfold mkRmwReq at h
  dsimp only at h
  split at h
  · cases h
  · next path hp =>
    split at h
    · cases h
    · cases h; exact hp

theorem ldf_refresh_write (b : Bool) (d : Cli.Drv) (r : WriteReq) :
    (if b = true then r.refresh d else (d, r)).2.rid = r.rid ∧
    (if b = true then r.refresh d else (d, r)).2.path = r.path ∧
    (if b = true then r.refresh d else (d, r)).2.value = r.value ∧
    (if b = true then r.refresh d else (d, r)).2.messageLen = r.messageLen := by
  cases b <;> exact ⟨rfl, rfl, rfl, rfl⟩

theorem ldf_encode_rid (p : Parsed) (info : TagInfo) : (encodeValue p info).1.requestId = p.requestId := by
  rcases lds_encodeValue_fst p info with h | h <;> rw [h]

def ldf_WBOk (cfg : Cfg) (ps : List Parsed) (C : Nat) (b : WriteBuild) : Prop :=
  (∀ x ∈ b.writes, ldf_WItem cfg ps C x) ∧ (∀ r ∈ b.rmws, ldf_PathOf cfg ps r.path)

theorem ldf_writeBuildLive_items (cfg : Cfg) (ps : List Parsed) (C : Nat) (rest : List Parsed) :
    ∀ (d d' : Cli.Drv) (acc b : WriteBuild), (∀ p ∈ rest, p ∈ ps) →
      writeBuildLive cfg C d acc rest = (d', .ok b) → ldf_WBOk cfg ps C acc →
      ldf_WBOk cfg ps C b ∧
      ∃ l, b.writes.map (·.1.rid) = acc.writes.map (·.1.rid) ++ l ∧ l.Sublist (rest.map (·.requestId)) := by
  induction rest with
  | nil =>
    intro d d' acc b _ h hok
    simp only [writeBuildLive, Prod.mk.injEq, Except.ok.injEq] at h
    rw [← h.2]; exact ⟨hok, [], by simp, List.Sublist.refl _⟩
  | cons p rest ih =>
    intro d d' acc b hsub h hok
    have hpm : p ∈ ps := hsub p List.mem_cons_self
    have hsub' : ∀ q ∈ rest, q ∈ ps := fun q hq => hsub q (List.mem_cons_of_mem _ hq)
    rw [writeBuildLive] at h
    have skip : ∀ {d0 : Cli.Drv} {acc0 : WriteBuild}, writeBuildLive cfg C d0 acc0 rest = (d', .ok b) →
        ldf_WBOk cfg ps C acc0 → acc0.writes = acc.writes →
        ldf_WBOk cfg ps C b ∧
        ∃ l, b.writes.map (·.1.rid) = acc.writes.map (·.1.rid) ++ l ∧ l.Sublist ((p :: rest).map (·.requestId)) := by
      intro d0 acc0 h0 hok0 hw
      obtain ⟨h1, l, h2, h3⟩ := ih _ _ _ _ hsub' h0 hok0
      rw [hw] at h2
      exact ⟨h1, l, h2, by simp only [List.map_cons]; exact h3.cons _⟩
    split at h
    · next info he hi =>
      split at h
      · -- a bit write
        split at h
        · next r hf =>
          have hr := List.mem_of_find?_eq_some hf
          refine skip h ⟨hok.1, ?_⟩ rfl
          intro x hx
          obtain ⟨y, hy, rfl⟩ := List.mem_map.1 hx
          split
          · exact hok.2 r hr
          · exact hok.2 y hy
        · rcases hm : mkRmwReq cfg d p info (-(1 + (acc.rmws.length : Int))) with ⟨d1, r⟩
          rw [hm] at h
          dsimp only at h
          cases r with
          | error e => cases h
          | ok r =>
            dsimp only at h
            have hp := ldf_mkRmwReq_ok cfg d d1 p info _ r hm
            refine skip h ⟨hok.1, ?_⟩ rfl
            intro x hx
            rcases List.mem_append.1 hx with hx | hx
            · exact hok.2 x hx
            · simp only [List.mem_singleton] at hx
              subst hx
              exact ⟨p, hpm, info, he, hi, hp⟩
      · -- a value write
        have hrid1 := ldf_encode_rid p info
        have hplc1 := lds_encode_plcTag p info
        rcases hev : encodeValue p info with ⟨p1, enc⟩
        rw [hev] at h hrid1 hplc1
        dsimp only at h hrid1 hplc1
        cases enc with
        | none =>
          dsimp only at h
          exact skip h hok rfl
        | some value =>
          dsimp only at h
          rcases hm : mkWriteReq cfg d p1 info value with ⟨d1, r⟩
          rw [hm] at h
          dsimp only at h
          cases r with
          | error e => cases h
          | ok req =>
            dsimp only at h
            obtain ⟨hpath, hrid, _⟩ := ldf_mkWriteReq_ok cfg d d1 p1 info value req hm
            obtain ⟨f1, f2, _, f4⟩ := ldf_refresh_write (decide (req.messageLen + K.OVERHEAD > C)) d1 req
            rw [hplc1] at hpath
            obtain ⟨h1, l, h2, h3⟩ := ih _ _ _ _ hsub' h (by
              refine ⟨?_, hok.2⟩
              intro x hx
              rcases List.mem_append.1 hx with hx | hx
              · exact hok.1 x hx
              · simp only [List.mem_singleton] at hx
                subst hx
                refine ⟨?_, ?_⟩
                · show ldf_PathOf cfg ps _
                  rw [f2]; exact ⟨p, hpm, info, he, hi, hpath⟩
                · show _ = decide (WriteReq.messageLen _ + K.OVERHEAD > C)
                  rw [f4])
            refine ⟨h1, p.requestId :: l, ?_, ?_⟩
            · rw [h2]
              simp only [List.map_append, List.map_cons, List.map_nil, List.append_assoc, List.cons_append,
                List.nil_append]
              rw [f1, hrid, hrid1]
            · simp only [List.map_cons]; exact h3.cons_cons _
    · exact skip h hok rfl

/-- the size facts about one built write packet (`C` = the connection size the builder saw) -/
def ldf_WriteFit (cfg : Cfg) (ps : List Parsed) (C : Nat) : Request → Prop
  | .write r => ldf_PathOf cfg ps r.path ∧ r.messageLen ≤ C
  | .writeFrag r => ldf_PathOf cfg ps r.path
  | .rmw r => ldf_PathOf cfg ps r.path
  | .multiWrite _ rs => (∀ r ∈ rs, ldf_PathOf cfg ps r.path) ∧ K.OVERHEAD + (rs.map (·.messageLen)).sum ≤ C
  | _ => False

theorem ldf_writeBuildSingles_fit (cfg : Cfg) (ps : List Parsed) (C : Nat) (rest : List Parsed) :
    ∀ (d d' : Cli.Drv) (acc ps' : List Parsed) (reqs : List Request), (∀ p ∈ rest, p ∈ ps) →
      writeBuildSingles cfg C d acc rest = (d', .ok (ps', reqs)) → ∀ q ∈ reqs, ldf_WriteFit cfg ps C q := by
  induction rest with
  | nil =>
    intro d d' acc ps' reqs _ h
    simp only [writeBuildSingles, Prod.mk.injEq, Except.ok.injEq] at h
    obtain ⟨_, _, rfl⟩ := h
    intro q hq; cases hq
  | cons p rest ih =>
    intro d d' acc ps' reqs hsub h
    have hpm : p ∈ ps := hsub p List.mem_cons_self
    have hsub' : ∀ q ∈ rest, q ∈ ps := fun q hq => hsub q (List.mem_cons_of_mem _ hq)
    rw [writeBuildSingles] at h
    split at h
    · next info he hi =>
      split at h
      · rcases hm : mkRmwReq cfg d p info (-(1 + (p.requestId : Int))) with ⟨d1, r⟩
        rw [hm] at h
        dsimp only at h
        cases r with
        | error e => cases h
        | ok r =>
          dsimp only at h
          have hp := ldf_mkRmwReq_ok cfg d d1 p info _ r hm
          rcases hrec : writeBuildSingles cfg C d1 acc rest with ⟨d2, more⟩
          rw [hrec] at h
          dsimp only at h
          cases more with
          | error e => cases h
          | ok x =>
            obtain ⟨xs, xr⟩ := x
            simp only [Except.map, Prod.mk.injEq, Except.ok.injEq] at h
            obtain ⟨_, rfl, rfl⟩ := h
            intro q hq
            rcases List.mem_cons.1 hq with rfl | hq
            · exact ⟨p, hpm, info, he, hi, hp⟩
            · exact ih _ _ _ _ _ hsub' hrec q hq
      · have hplc1 := lds_encode_plcTag p info
        rcases hev : encodeValue p info with ⟨p1, enc⟩
        rw [hev] at h hplc1
        dsimp only at h hplc1
        cases enc with
        | none =>
          dsimp only at h
          exact ih _ _ _ _ _ hsub' h
        | some value =>
          dsimp only at h
          rcases hm : mkWriteReq cfg d p1 info value with ⟨d1, r⟩
          rw [hm] at h
          dsimp only at h
          cases r with
          | error e => cases h
          | ok req =>
            dsimp only at h
            obtain ⟨hpath, _, hval⟩ := ldf_mkWriteReq_ok cfg d d1 p1 info value req hm
            rw [hplc1] at hpath
            have hpo : ldf_PathOf cfg ps req.path := ⟨p, hpm, info, he, hi, hpath⟩
            obtain ⟨_, f2, _, f4⟩ := ldf_refresh_write (decide (value.length + req.messageLen > C)) d1 req
            generalize hfr : (if decide (value.length + req.messageLen > C) = true then req.refresh d1 else (d1, req)) = fr
              at h f2 f4
            obtain ⟨d2, req2⟩ := fr
            dsimp only at h f2 f4
            rcases hrec : writeBuildSingles cfg C d2 (replaceParsed acc p1) rest with ⟨d3, more⟩
            rw [hrec] at h
            dsimp only at h
            cases more with
            | error e => cases h
            | ok x =>
              obtain ⟨xs, xr⟩ := x
              simp only [Except.map, Prod.mk.injEq, Except.ok.injEq] at h
              obtain ⟨_, rfl, rfl⟩ := h
              intro q hq
              rcases List.mem_cons.1 hq with rfl | hq
              · split
                · show ldf_PathOf cfg ps req2.path
                  rw [f2]; exact hpo
                · next hf =>
                  refine ⟨by rw [f2]; exact hpo, ?_⟩
                  rw [f4]
                  have : ¬ (value.length + req.messageLen > C) := by simpa using hf
                  omega
              · exact ih _ _ _ _ _ hsub' hrec q hq
    · exact ih _ _ _ _ _ hsub' h

theorem ldf_writeBuild_fit (cfg : Cfg) (d d' : Cli.Drv) (ps ps' : List Parsed) (reqs : List Request)
    (hu : (ps.map (·.requestId)).Nodup)
    (h : writeBuildRequests cfg d ps = (d', .ok (ps', reqs))) : ∀ q ∈ reqs, ldf_WriteFit cfg ps d.connectionSize q := by
  unfold writeBuildRequests at h
  dsimp only at h
  split at h
  · rcases hl : writeBuildLive cfg d.connectionSize d { parsed := ps } ps with ⟨d1, b⟩
    rw [hl] at h
    dsimp only at h
    cases b with
    | error e => cases h
    | ok b =>
      dsimp only at h
      simp only [Prod.mk.injEq, Except.ok.injEq] at h
      obtain ⟨_, rfl, rfl⟩ := h
      obtain ⟨⟨hw, hr⟩, l, hl1, hl2⟩ := ldf_writeBuildLive_items cfg ps _ ps d d1 { parsed := ps } b (fun _ h => h) hl
        ⟨fun x hx => (by cases hx), fun r hr => (by cases hr)⟩
      simp only [List.map_nil, List.nil_append] at hl1
      intro q hq
      rcases List.mem_append.1 hq with hq | hq
      · rcases List.mem_append.1 hq with hq | hq
        · obtain ⟨m, hm, rfl⟩ := List.mem_map.1 hq
          have hm2 : m.2 ∈ (drawSeqs d1 _).2.map (·.2) := List.mem_map.2 ⟨m, hm, rfl⟩
          rw [lds_drawSeqs_snd] at hm2
          obtain ⟨g, hg, hgm⟩ := List.mem_map.1 hm2
          show (∀ r ∈ m.2, ldf_PathOf cfg ps r.path) ∧ K.OVERHEAD + (m.2.map (·.messageLen)).sum ≤ d.connectionSize
          rw [← hgm]
          refine ⟨?_, ?_⟩
          · intro r hr'
            have hmem := ldf_group_mem _ (·.rid) g r hr'
            obtain ⟨x, hx, rfl⟩ := List.mem_map.1 hmem
            exact (hw x (List.mem_filter.1 hx).1).1
          · have hsum := ldf_group_sum ((b.writes.filter (!·.2)).map (·.1)) (·.rid) (·.messageLen) (·.messageLen)
              (fun _ _ => rfl) g
            have hnd : (((b.writes.filter (!·.2)).map (·.1)).map (·.rid)).Nodup := by
              have hs1 : (((b.writes.filter (!·.2)).map (·.1)).map (·.rid)).Sublist ((b.writes.map (·.1)).map (·.rid)) :=
                ((List.filter_sublist).map _).map _
              have hl1' : (b.writes.map (·.1)).map (·.rid) = l := by rw [List.map_map]; exact hl1
              rw [hl1'] at hs1
              exact ldf_nodup_of_sublist (hs1.trans hl2) hu
            have huq := ldf_uniqueIds ((b.writes.filter (!·.2)).map (·.1)) (·.rid) (·.messageLen) hnd
            have hfit := K.plan_groups_fit d.connectionSize _ huq g hg
            rw [hsum]
            exact hfit
        · obtain ⟨x, hx, rfl⟩ := List.mem_map.1 hq
          exact (hw x (List.mem_filter.1 hx).1).1
      · obtain ⟨r, hr', rfl⟩ := List.mem_map.1 hq
        exact hr r hr'
  · exact ldf_writeBuildSingles_fit cfg ps _ ps d d' ps ps' reqs (fun _ h => h) h

/-! ### the builders only draw sequence numbers -/

/-- the encapsulation context and the connection size are the same in both driver states -/
def ldf_Same (d d' : Cli.Drv) : Prop := d'.ctx = d.ctx ∧ d'.connectionSize = d.connectionSize

theorem ldf_Same_refl (d : Cli.Drv) : ldf_Same d d := ⟨rfl, rfl⟩

theorem ldf_Same_trans {a b c : Cli.Drv} (h1 : ldf_Same a b) (h2 : ldf_Same b c) : ldf_Same a c :=
  ⟨h2.1.trans h1.1, h2.2.trans h1.2⟩

theorem ldf_Same_nextSeq (d : Cli.Drv) : ldf_Same d d.nextSeq.2 := ⟨rfl, rfl⟩

theorem ldf_mkReadReq_same (cfg : Cfg) (d : Cli.Drv) (p : Parsed) (info : TagInfo) :
    ldf_Same d (mkReadReq cfg d p info).1 := by
  have : (mkReadReq cfg d p info).1 = d.nextSeq.2 := by
    unfold mkReadReq
    dsimp only
    split <;> rfl
  rw [this]; exact ldf_Same_nextSeq d

theorem ldf_mkWriteReq_same (cfg : Cfg) (d : Cli.Drv) (p : Parsed) (info : TagInfo) (v : Bytes) :
    ldf_Same d (mkWriteReq cfg d p info v).1 := by
  have : (mkWriteReq cfg d p info v).1 = d.nextSeq.2 := by
    unfold mkWriteReq
    dsimp only
    split <;> rfl
  rw [this]; exact ldf_Same_nextSeq d

theorem ldf_mkRmwReq_same (cfg : Cfg) (d : Cli.Drv) (p : Parsed) (info : TagInfo) (rid : Int) :
    ldf_Same d (mkRmwReq cfg d p info rid).1 := by
  have : (mkRmwReq cfg d p info rid).1 = d.nextSeq.2 := by
    unfold mkRmwReq
    dsimp only
    split
    · rfl
    · split <;> rfl
  rw [this]; exact ldf_Same_nextSeq d

theorem ldf_refresh_read_same (b : Bool) (d : Cli.Drv) (r : ReadReq) :
    ldf_Same d (if b = true then r.refresh d else (d, r)).1 := by
  cases b
  · exact ldf_Same_refl d
  · exact ldf_Same_nextSeq d

theorem ldf_refresh_write_same (b : Bool) (d : Cli.Drv) (r : WriteReq) :
    ldf_Same d (if b = true then r.refresh d else (d, r)).1 := by
  cases b
  · exact ldf_Same_refl d
  · exact ldf_Same_nextSeq d

theorem ldf_drawSeqs_same {α} (xs : List α) : ∀ (d : Cli.Drv), ldf_Same d (drawSeqs d xs).1 := by
  induction xs with
  | nil => intro d; exact ldf_Same_refl d
  | cons x rest ih =>
    intro d
    rw [drawSeqs]
    exact ldf_Same_trans (ldf_Same_nextSeq d) (ih _)

theorem ldf_readBuildLive_same (cfg : Cfg) (C : Nat) (multi : Bool) (ps : List Parsed) :
    ∀ (d : Cli.Drv), ldf_Same d (readBuildLive cfg C multi d ps).1 := by
  induction ps with
  | nil => intro d; exact ldf_Same_refl d
  | cons p rest ih =>
    intro d
    rw [readBuildLive]
    split
    · next info _ _ =>
      have h1 := ldf_mkReadReq_same cfg d p info
      generalize mkReadReq cfg d p info = m at h1 ⊢
      obtain ⟨d1, r⟩ := m
      dsimp only at h1 ⊢
      cases r with
      | error e => exact h1
      | ok req =>
        dsimp only
        have h2 := ldf_refresh_read_same
          (if multi = true then decide (req.returnSize + K.OVERHEAD > C) else decide (req.returnSize > C)) d1 req
        generalize (if (if multi = true then decide (req.returnSize + K.OVERHEAD > C) else decide (req.returnSize > C)) = true
          then req.refresh d1 else (d1, req)) = fr at h2 ⊢
        obtain ⟨d2, req2⟩ := fr
        dsimp only at h2 ⊢
        exact ldf_Same_trans h1 (ldf_Same_trans h2 (ih d2))
    · exact ih d

theorem ldf_readBuild_same (cfg : Cfg) (d : Cli.Drv) (ps : List Parsed) : ldf_Same d (readBuildRequests cfg d ps).1 := by
  unfold readBuildRequests
  dsimp only
  split
  · have h1 := ldf_readBuildLive_same cfg d.connectionSize true ps d
    generalize readBuildLive cfg d.connectionSize true d ps = m at h1 ⊢
    obtain ⟨d1, live⟩ := m
    dsimp only at h1 ⊢
    cases live with
    | error e => exact h1
    | ok items => exact ldf_Same_trans h1 (ldf_drawSeqs_same _ d1)
  · exact ldf_readBuildLive_same cfg d.connectionSize false ps d

theorem ldf_writeBuildLive_same (cfg : Cfg) (C : Nat) (rest : List Parsed) :
    ∀ (d : Cli.Drv) (acc : WriteBuild), ldf_Same d (writeBuildLive cfg C d acc rest).1 := by
  induction rest with
  | nil => intro d acc; exact ldf_Same_refl d
  | cons p rest ih =>
    intro d acc
    rw [writeBuildLive]
    split
    · next info _ _ =>
      split
      · split
        · exact ih _ _
        · have h1 := ldf_mkRmwReq_same cfg d p info (-(1 + (acc.rmws.length : Int)))
          generalize mkRmwReq cfg d p info (-(1 + (acc.rmws.length : Int))) = m at h1 ⊢
          obtain ⟨d1, r⟩ := m
          dsimp only at h1 ⊢
          cases r with
          | error e => exact h1
          | ok r => exact ldf_Same_trans h1 (ih _ _)
      · generalize encodeValue p info = ev
        obtain ⟨p1, enc⟩ := ev
        dsimp only
        cases enc with
        | none => exact ih _ _
        | some value =>
          dsimp only
          have h1 := ldf_mkWriteReq_same cfg d p1 info value
          generalize mkWriteReq cfg d p1 info value = m at h1 ⊢
          obtain ⟨d1, r⟩ := m
          dsimp only at h1 ⊢
          cases r with
          | error e => exact h1
          | ok req =>
            dsimp only
            have h2 := ldf_refresh_write_same (decide (req.messageLen + K.OVERHEAD > C)) d1 req
            generalize (if decide (req.messageLen + K.OVERHEAD > C) = true then req.refresh d1 else (d1, req)) = fr at h2 ⊢
            obtain ⟨d2, req2⟩ := fr
            dsimp only at h2 ⊢
            exact ldf_Same_trans h1 (ldf_Same_trans h2 (ih _ _))
    · exact ih _ _

theorem ldf_writeBuildSingles_same (cfg : Cfg) (C : Nat) (rest : List Parsed) :
    ∀ (d : Cli.Drv) (acc : List Parsed), ldf_Same d (writeBuildSingles cfg C d acc rest).1 := by
  induction rest with
  | nil => intro d acc; exact ldf_Same_refl d
  | cons p rest ih =>
    intro d acc
    rw [writeBuildSingles]
    split
    · next info _ _ =>
      split
      · have h1 := ldf_mkRmwReq_same cfg d p info (-(1 + (p.requestId : Int)))
        generalize mkRmwReq cfg d p info (-(1 + (p.requestId : Int))) = m at h1 ⊢
        obtain ⟨d1, r⟩ := m
        dsimp only at h1 ⊢
        cases r with
        | error e => exact h1
        | ok r =>
          dsimp only
          have h2 := ih d1 acc
          generalize writeBuildSingles cfg C d1 acc rest = m2 at h2 ⊢
          obtain ⟨d2, more⟩ := m2
          exact ldf_Same_trans h1 h2
      · generalize encodeValue p info = ev
        obtain ⟨p1, enc⟩ := ev
        dsimp only
        cases enc with
        | none => exact ih _ _
        | some value =>
          dsimp only
          have h1 := ldf_mkWriteReq_same cfg d p1 info value
          generalize mkWriteReq cfg d p1 info value = m at h1 ⊢
          obtain ⟨d1, r⟩ := m
          dsimp only at h1 ⊢
          cases r with
          | error e => exact h1
          | ok req =>
            dsimp only
            have h2 := ldf_refresh_write_same (decide (value.length + req.messageLen > C)) d1 req
            generalize (if decide (value.length + req.messageLen > C) = true then req.refresh d1 else (d1, req)) = fr at h2 ⊢
            obtain ⟨d2, req2⟩ := fr
            dsimp only at h2 ⊢
            have h3 := ih d2 (replaceParsed acc p1)
            generalize writeBuildSingles cfg C d2 (replaceParsed acc p1) rest = m3 at h3 ⊢
            obtain ⟨d3, more⟩ := m3
            exact ldf_Same_trans h1 (ldf_Same_trans h2 h3)
    · exact ih _ _

theorem ldf_writeBuild_same (cfg : Cfg) (d : Cli.Drv) (ps : List Parsed) : ldf_Same d (writeBuildRequests cfg d ps).1 := by
  unfold writeBuildRequests
  dsimp only
  split
  · have h1 := ldf_writeBuildLive_same cfg d.connectionSize ps d { parsed := ps }
    generalize writeBuildLive cfg d.connectionSize d { parsed := ps } ps = m at h1 ⊢
    obtain ⟨d1, b⟩ := m
    dsimp only at h1 ⊢
    cases b with
    | error e => exact h1
    | ok b => exact ldf_Same_trans h1 (ldf_drawSeqs_same _ d1)
  · exact ldf_writeBuildSingles_same cfg d.connectionSize ps d ps

theorem ldf_idsPos_nodup (ps : List Parsed) (h : lds_IdsPos ps) : (ps.map (·.requestId)).Nodup := by
  have : ps.map (·.requestId) = List.range ps.length := by
    apply List.ext_getElem
    · simp
    · intro i h1 h2
      rw [List.getElem_map, List.getElem_range]
      exact h i (by simpa using h1)
  rw [this]; exact List.nodup_range

end Pycomm.Lgx.Drv
