/-
  Helper lemmas for C17 over histories with `SLCDriver.read` / `SLCDriver.write` calls.  Part 3: the sequence-count
  invariant `lcl_SeqB` (LCLogix3.lean) across `slcRead` / `slcWrite`.  One `_read_tag` / `_write_tag` draws at most two
  numbers (transaction id, sequence count) and sends the second one at once; a step that returned a Tag has had its
  request answered, so the count the target saw last is the number drawn last: the budget starts again at 0.  A call
  ends with the first step that raises: it adds at most 2 to the budget, however many addresses it has.
-/
import PycommProofs.LCSlc1
import PycommProofs.LCLogix6
namespace Pycomm.Slc.Drv
open Pycomm Pycomm.Tgt Pycomm.Slc Pycomm.Lgx.Drv

theorem lcsl_Step_seq {σ} (hook : ObjHook σ) (hh : Cli.lci_HookOk hook) (hn : Cli.lcs_HookNoSeq hook) (S : Prop)
    (B : Nat) {w w' : Cli.World σ} {ok : Bool} (st : lcsl_Step hook w w' ok) (ho : Cli.lcl_Open S w)
    (hq : Cli.lcl_SeqB B w) (hfl : w.net.faults.length + (B + 2) < 65534) :
    Cli.lcl_SeqB (B + 2) w' ∧ (ok = true → Cli.lcl_SeqB 0 w') := by
  have hm0 := Cli.lcl_Mid_of_seqB hq
  have hD0 : Cli.lcs_D w + B ≤ w.net.faults.length + 1 + B := by
    unfold Cli.lcs_D; omega
  cases st with
  | refused => exact ⟨Cli.lcl_SeqB_mono hq (by omega) hfl, fun h => nomatch h⟩
  | unbuilt =>
    refine ⟨?_, fun h => nomatch h⟩
    have hm1 := Cli.lcl_Mid_draw hm0 (by omega)
    refine Cli.lcl_SeqB_of_mid (Cli.lcl_Mid_sub hm1 (List.nil_sublist _)) ?_ hfl hq.ctx8 hq.sess32 hq.sockc
    show Cli.lcs_D w + B + 1 ≤ Cli.lcs_D w + (B + 2)
    omega
  | sent msg ok h =>
    have hm1 := Cli.lcl_Mid_sub (Cli.lcl_Mid_draw hm0 (by omega)) (List.nil_sublist _)
    have hm2 := Cli.lcl_Mid_draw hm1 (by omega)
    have ho2 : Cli.lcl_Open S ({ w with drv := w.drv.nextSeq.2.nextSeq.2 } : Cli.World σ) :=
      Cli.lcl_Open_next (Cli.lcl_Open_next ho)
    obtain ⟨m1, m2⟩ := Cli.lcl_Mid_send hook hh hn S _ ({ w with drv := w.drv.nextSeq.2.nextSeq.2 } : Cli.World σ) ho2
      w.drv.nextSeq.2.nextSeq.1 1 [] hm2 msg
    obtain ⟨f1, f2, ⟨v2, f3⟩⟩ := lcl_Reach_facts (lcl_Reach.send w.drv.nextSeq.2.nextSeq.1 msg
      (lcl_Reach.refl ({ w with drv := w.drv.nextSeq.2.nextSeq.2 } : Cli.World σ)))
    generalize Cli.sendReq hook ({ w with drv := w.drv.nextSeq.2.nextSeq.2 } : Cli.World σ)
      (.sendUnit w.drv.nextSeq.2.nextSeq.1 msg) false = res at h m1 m2 f1 f2 f3 ⊢
    obtain ⟨w3, r3⟩ := res
    dsimp only at h m1 m2 f1 f2 f3 ⊢
    have hDm : Cli.lcs_D w ≤ Cli.lcs_D w3 := lcl_D_mono (w := w) f1 f2
    have c8 : w3.drv.context.length = 8 := by rw [f3]; exact hq.ctx8
    have s32 : ∀ s, w3.drv.session = some s → s < 2 ^ 32 := by rw [f3]; exact hq.sess32
    have skc : w3.drv.targetIsConnected = true → w3.drv.hasSock = true := by rw [f3]; exact hq.sockc
    have hpos := lcl_D_pos w3
    constructor
    · exact Cli.lcl_SeqB_of_mid m1 (by omega) (by rw [f1]; exact hfl) c8 s32 skc
    · intro hok
      obtain ⟨x, hx⟩ := h hok
      exact Cli.lcl_SeqB_of_mid (m2 x hx rfl) (by omega) (by rw [f1]; show w.net.faults.length + 0 < 65534; omega) c8 s32 skc

/-- a whole list comprehension: the budget grows by 2 at most; when every step returned a Tag and there was at least
    one, it starts again at 0 -/
theorem lcsl_Chain_seq {σ} (hook : ObjHook σ) (hh : Cli.lci_HookOk hook) (hn : Cli.lcs_HookNoSeq hook) (S : Prop)
    {w w' : Cli.World σ} {b : Bool} {n : Nat} (ch : lcsl_Chain hook w w' b n) :
    ∀ B, Cli.lcl_Open S w → Cli.lcl_SeqB B w → w.net.faults.length + (B + 2) < 65534 →
      Cli.lcl_SeqB (B + 2) w' ∧ (b = true → 0 < n → Cli.lcl_SeqB 0 w') := by
  induction ch with
  | nil w => intro B _ hq hfl; exact ⟨Cli.lcl_SeqB_mono hq (by omega) hfl, fun _ h => absurd h (Nat.lt_irrefl 0)⟩
  | fail st =>
    intro B ho hq hfl
    exact ⟨(lcsl_Step_seq hook hh hn S B st ho hq hfl).1, fun h => nomatch h⟩
  | @cons w w1 w2 b n st ch ih =>
    intro B ho hq hfl
    obtain ⟨_, k2⟩ := lcsl_Step_seq hook hh hn S B st ho hq hfl
    have q0 := k2 rfl
    have ho1 : Cli.lcl_Open S w1 := lcl_Open_reach hh (lcsl_Step_reach st) ho
    obtain ⟨f1, _, _⟩ := lcl_Reach_facts (lcsl_Step_reach st)
    obtain ⟨g1, _, _⟩ := lcl_Reach_facts (lcsl_Chain_reach ch)
    obtain ⟨i1, i2⟩ := ih 0 ho1 q0 (by rw [f1]; omega)
    have hfl2 : w2.net.faults.length + (B + 2) < 65534 := by rw [g1, f1]; exact hfl
    refine ⟨Cli.lcl_SeqB_mono i1 (by omega) hfl2, ?_⟩
    intro hb _
    cases n with
    | zero =>
      subst hb
      rw [lcsl_Chain_zero ch]
      exact q0
    | succ m => exact i2 hb (Nat.succ_pos m)

/-- `slcRead`: the budget grows by 2 at most (not at all without addresses); a read that returned a non-empty list of
    Tags has been answered: the budget starts again at 0 -/
theorem lcsl_slcRead_seq {σ} (hook : ObjHook σ) (hh : Cli.lci_HookOk hook) (hn : Cli.lcs_HookNoSeq hook) (S : Prop)
    (B : Nat) (w : Cli.World σ) (ts : List Name) (hi : Cli.lci_Inv S w) (hc : Cli.lci_Conn w)
    (hq : Cli.lcl_SeqB B w) (hfl : w.net.faults.length + (B + 2) < 65534) :
    Cli.lcl_SeqB (B + 2) (slcRead hook w ts).1 ∧
    (∀ res, (slcRead hook w ts).2 = .ok res → ts ≠ [] → Cli.lcl_SeqB 0 (slcRead hook w ts).1) := by
  obtain ⟨b1, b2, b3⟩ := Cli.lci_cli_ensureFO hook S Cli.FUEL w hi hc _ rfl
  have b4 := Cli.lcl_ensureFO_seq hook hh hn B Cli.FUEL w hq
  have b5 := ((Cli.lci_NStep_mutual hook hh Cli.FUEL).2.1 w).2.1
  unfold slcRead
  generalize Cli.ensureForwardOpen hook Cli.FUEL w = r0 at b1 b2 b3 b4 b5 ⊢
  obtain ⟨w0, pre⟩ := r0
  dsimp only at b1 b2 b3 b4 b5 ⊢
  have hfl0 : w0.net.faults.length + (B + 2) < 65534 := by rw [b5]; exact hfl
  cases pre with
  | error e => exact ⟨Cli.lcl_SeqB_mono b4 (by omega) hfl0, fun _ h => nomatch h⟩
  | ok u =>
    dsimp only
    obtain ⟨n, ch, hlen⟩ := lcsl_readTags_chain hook ts w0
    obtain ⟨k1, k2⟩ := lcsl_Chain_seq hook hh hn S ch B ⟨b1, b2, b3 rfl⟩ b4 hfl0
    refine ⟨k1, ?_⟩
    · intro res hres hne
      have hok : lcsl_ok (readTags hook w0 ts).2 = true := by rw [hres]; rfl
      rw [hok] at k2
      refine k2 rfl ?_
      rw [hlen hok]
      exact List.length_pos_iff.2 hne

theorem lcsl_slcWrite_seq {σ} (hook : ObjHook σ) (hh : Cli.lci_HookOk hook) (hn : Cli.lcs_HookNoSeq hook) (S : Prop)
    (B : Nat) (w : Cli.World σ) (avs : List (Name × PyVal)) (hi : Cli.lci_Inv S w) (hc : Cli.lci_Conn w)
    (hq : Cli.lcl_SeqB B w) (hfl : w.net.faults.length + (B + 2) < 65534) :
    Cli.lcl_SeqB (B + 2) (slcWrite hook w avs).1 ∧
    (∀ res, (slcWrite hook w avs).2 = .ok res → avs ≠ [] → Cli.lcl_SeqB 0 (slcWrite hook w avs).1) := by
  obtain ⟨b1, b2, b3⟩ := Cli.lci_cli_ensureFO hook S Cli.FUEL w hi hc _ rfl
  have b4 := Cli.lcl_ensureFO_seq hook hh hn B Cli.FUEL w hq
  have b5 := ((Cli.lci_NStep_mutual hook hh Cli.FUEL).2.1 w).2.1
  unfold slcWrite
  generalize Cli.ensureForwardOpen hook Cli.FUEL w = r0 at b1 b2 b3 b4 b5 ⊢
  obtain ⟨w0, pre⟩ := r0
  dsimp only at b1 b2 b3 b4 b5 ⊢
  have hfl0 : w0.net.faults.length + (B + 2) < 65534 := by rw [b5]; exact hfl
  cases pre with
  | error e => exact ⟨Cli.lcl_SeqB_mono b4 (by omega) hfl0, fun _ h => nomatch h⟩
  | ok u =>
    dsimp only
    obtain ⟨n, ch, hlen⟩ := lcsl_writeTags_chain hook avs w0
    obtain ⟨k1, k2⟩ := lcsl_Chain_seq hook hh hn S ch B ⟨b1, b2, b3 rfl⟩ b4 hfl0
    refine ⟨k1, ?_⟩
    · intro res hres hne
      have hok : lcsl_ok (writeTags hook w0 avs).2 = true := by rw [hres]; rfl
      rw [hok] at k2
      refine k2 rfl ?_
      rw [hlen hok]
      exact List.length_pos_iff.2 hne

/-- a call without addresses is its `@with_forward_open` decorator: the budget stays -/
theorem lcsl_slcRead_nil_seq {σ} (hook : ObjHook σ) (hh : Cli.lci_HookOk hook) (hn : Cli.lcs_HookNoSeq hook) (B : Nat)
    (w : Cli.World σ) (hq : Cli.lcl_SeqB B w) : Cli.lcl_SeqB B (slcRead hook w []).1 := by
  have b4 := Cli.lcl_ensureFO_seq hook hh hn B Cli.FUEL w hq
  unfold slcRead
  generalize Cli.ensureForwardOpen hook Cli.FUEL w = r0 at b4 ⊢
  obtain ⟨w0, pre⟩ := r0
  cases pre <;> exact b4

theorem lcsl_slcWrite_nil_seq {σ} (hook : ObjHook σ) (hh : Cli.lci_HookOk hook) (hn : Cli.lcs_HookNoSeq hook) (B : Nat)
    (w : Cli.World σ) (hq : Cli.lcl_SeqB B w) : Cli.lcl_SeqB B (slcWrite hook w []).1 := by
  have b4 := Cli.lcl_ensureFO_seq hook hh hn B Cli.FUEL w hq
  unfold slcWrite
  generalize Cli.ensureForwardOpen hook Cli.FUEL w = r0 at b4 ⊢
  obtain ⟨w0, pre⟩ := r0
  cases pre <;> exact b4

end Pycomm.Slc.Drv
