/-
  SLCDriver.read / write at the driver level, second topic file, helper layer C (table level): the data table seen
  through file numbers (`sd2_file`, `sd2_cell`), full-mask writes in that view (no uniqueness of file numbers needed),
  and a sequence of write requests to pairwise non-overlapping locations served one after the other (`sd2_writeRun`).
-/
import PycommProofs.SlcDrv2B
namespace Pycomm.Slc.Drv
open Pycomm Pycomm.Tgt Pycomm.Slc

/-- the file a number selects: the first one with that number -/
def sd2_file (tbl : Table) (k : Nat) : Option SlcFile := tbl.find? (fun g => g.num == k)

/-- byte j of file number k -/
def sd2_cell (tbl : Table) (k j : Nat) : Option UInt8 := (sd2_file tbl k).bind fun g => g.data[j]?

/-- two tables with the same files: as many, and under every number a file of the same type and length -/
def sd2_SameShape (tbl tbl' : Table) : Prop :=
  tbl'.length = tbl.length ∧
  ∀ k, (sd2_file tbl' k).map (fun g => (g.ftype, g.data.length)) = (sd2_file tbl k).map (fun g => (g.ftype, g.data.length))

theorem sd2_SameShape_refl (tbl : Table) : sd2_SameShape tbl tbl := ⟨rfl, fun _ => rfl⟩

theorem sd2_SameShape_trans {t1 t2 t3 : Table} (h12 : sd2_SameShape t1 t2) (h23 : sd2_SameShape t2 t3) :
    sd2_SameShape t1 t3 := ⟨h23.1.trans h12.1, fun k => (h23.2 k).trans (h12.2 k)⟩

/-- byte offset and byte size of the location a request for address `a` names -/
def sd2_off (a : Addr) : Nat := byteOffset (typeCode a.fileType) a.element a.posNumber
def sd2_size (a : Addr) : Nat := dataSize a.fileType * a.count

/-- the locations of two addresses do not overlap: different files, or disjoint byte ranges -/
def sd2_Disjoint (a b : Addr) : Prop :=
  a.fileNumber ≠ b.fileNumber ∨ sd2_off a + sd2_size a ≤ sd2_off b ∨ sd2_off b + sd2_size b ≤ sd2_off a

instance (a b : Addr) : Decidable (sd2_Disjoint a b) := by unfold sd2_Disjoint; infer_instance

/-- the location of `a` exists in the table and holds the bytes `bs` -/
def sd2_Holds (tbl : Table) (a : Addr) (bs : Bytes) : Prop :=
  ∃ f, Located tbl a f ∧ sd2_off a + sd2_size a ≤ f.data.length ∧ (f.data.drop (sd2_off a)).take (sd2_size a) = bs

/-- a write request of the full-mask kind (word, long, float, `{n}` writes: everything but bit writes and PRE / ACC of
    timers and counters) that the table can serve: `writeable_value` yields mask 0xFFFF and `bs`, exactly as many bytes
    as the location has, and the location exists -/
structure sd2_FullWrite (tbl : Table) (a : Addr) (v : PyVal) (bs : Bytes) : Prop where
  value : writeableValue a v = .ok ([0xFF, 0xFF] ++ bs, dataSize a.fileType)
  notCT : ¬ ((a.fileType = [84] ∨ a.fileType = [67]) ∧ (a.subElement = 1 ∨ a.subElement = 2))
  size255 : sd2_size a ≤ 255
  sizePos : 0 < sd2_size a
  sizeEven : sd2_size a % 2 = 0
  len : bs.length = sd2_size a
  range : InRange a
  pos : a.posNumber < 65536
  located : ∃ f, Located tbl a f ∧ sd2_off a + sd2_size a ≤ f.data.length

theorem sd2_located_shape {tbl tbl' : Table} (hs : sd2_SameShape tbl tbl') {a : Addr} {n : Nat}
    (h : ∃ f, Located tbl a f ∧ n ≤ f.data.length) : ∃ f', Located tbl' a f' ∧ n ≤ f'.data.length := by
  obtain ⟨f, hl, hn⟩ := h
  have hk := hs.2 a.fileNumber
  have hf : sd2_file tbl a.fileNumber = some f := hl.find
  rw [hf] at hk
  cases hf' : sd2_file tbl' a.fileNumber with
  | none => rw [hf'] at hk; cases hk
  | some f' =>
    rw [hf'] at hk
    simp only [Option.map_some, Option.some.injEq, Prod.mk.injEq] at hk
    exact ⟨f', ⟨hf', by rw [hk.1]; exact hl.ftype⟩, by rw [hk.2]; exact hn⟩

theorem sd2_FullWrite_shape {tbl tbl' : Table} (hs : sd2_SameShape tbl tbl') {a : Addr} {v : PyVal} {bs : Bytes}
    (h : sd2_FullWrite tbl a v bs) : sd2_FullWrite tbl' a v bs :=
  ⟨h.value, h.notCT, h.size255, h.sizePos, h.sizeEven, h.len, h.range, h.pos, sd2_located_shape hs h.located⟩

/-- a read request for an address whose location holds `bs` returns `bs` -/
theorem sd2_read_holds (tbl : Table) (a : Addr) (bs : Bytes) (hs : sd2_size a ≤ 255) (h0 : 0 < sd2_size a)
    (hr : InRange a) (hp : a.posNumber < 65536) (h : sd2_Holds tbl a bs) : readAddr tbl a = .ok bs := by
  obtain ⟨f, hl, hin, hsl⟩ := h
  simp only [sd2_size, sd2_off] at hs h0 hin hsl
  rw [slx_readAddr_eq tbl a hs hr.file hr.elem hp,
    slx_typedRead_ok tbl f _ _ _ _ _ hl.find hl.ftype h0 hin]
  exact congrArg _ hsl

/-- the explicit table a full-mask write leaves -/
theorem sd2_maskedWrite_explicit (tbl : Table) (f : SlcFile) (fnum ftype elem sub size : Nat) (data : Bytes)
    (hfind : tbl.find? (fun g => g.num == fnum) = some f) (hty : f.ftype = ftype)
    (hsz : 0 < size) (hev : size % 2 = 0) (hdl : data.length = size)
    (hin : byteOffset ftype elem sub + size ≤ f.data.length) :
    maskedWrite tbl size fnum ftype elem sub 65535 data = .ok (tbl.map fun g =>
      if g.num == fnum then
        { g with data := f.data.take (byteOffset ftype elem sub) ++ data ++ f.data.drop (byteOffset ftype elem sub + size) }
      else g) := by
  generalize hoff : byteOffset ftype elem sub = off at hin ⊢
  have hold : (List.take size (List.drop off f.data)).length = data.length := by
    simp only [List.length_take, List.length_drop]; omega
  have hmw : maskWords 65535 (List.take size (List.drop off f.data)) data = data :=
    maskWords_full (size / 2) _ _ (by omega) hold
  unfold maskedWrite
  simp only [hfind, hty, ne_eq, not_true_eq_false, if_false, hoff]
  rw [if_neg (by omega), if_neg (by omega)]
  simp only [hmw]

/-- a full-mask write in the file-number view -/
theorem sd2_full_write_view (tbl : Table) (f : SlcFile) (fnum ftype elem sub size : Nat) (data : Bytes)
    (hfind : sd2_file tbl fnum = some f) (hty : f.ftype = ftype)
    (hsz : 0 < size) (hev : size % 2 = 0) (hdl : data.length = size)
    (hin : byteOffset ftype elem sub + size ≤ f.data.length) :
    ∃ tbl' f', maskedWrite tbl size fnum ftype elem sub 65535 data = .ok tbl' ∧
      sd2_file tbl' fnum = some f' ∧ f'.ftype = ftype ∧ f'.data.length = f.data.length ∧
      (f'.data.drop (byteOffset ftype elem sub)).take size = data ∧
      (∀ j, (j < byteOffset ftype elem sub ∨ byteOffset ftype elem sub + size ≤ j) → f'.data[j]? = f.data[j]?) ∧
      (∀ k, k ≠ fnum → sd2_file tbl' k = sd2_file tbl k) ∧ tbl'.length = tbl.length := by
  have hW := sd2_maskedWrite_explicit tbl f fnum ftype elem sub size data hfind hty hsz hev hdl hin
  generalize hoff : byteOffset ftype elem sub = off at hin hW ⊢
  have hfn : f.num = fnum := by
    have := List.find?_some hfind
    simpa using this
  have hlt : (List.take off f.data).length = off := by simp only [List.length_take]; omega
  refine ⟨_, { f with data := f.data.take off ++ data ++ f.data.drop (off + size) }, hW, ?_, hty, ?_, ?_, ?_, ?_, by simp⟩
  · unfold sd2_file at hfind ⊢
    rw [find_map_num tbl fnum _ (by intro g; split <;> rfl), hfind]
    simp [hfn]
  · simp only [List.length_append, hlt, List.length_drop]; omega
  · simp only
    rw [List.append_assoc, List.drop_left' hlt, ← hdl, List.take_left]
  · intro j hj
    simp only
    rcases hj with hj | hj
    · rw [List.append_assoc, List.getElem?_append_left (by omega), List.getElem?_take_of_lt hj]
    · rw [List.getElem?_append_right (by simp only [List.length_append, hlt]; omega)]
      simp only [List.length_append, hlt, List.getElem?_drop]
      congr 1; omega
  · intro k hk
    unfold sd2_file
    rw [find_map_num tbl k _ (by intro g; split <;> rfl)]
    cases hg : tbl.find? (fun g => g.num == k) with
    | none => rfl
    | some g =>
      have hgn : g.num = k := by
        have := List.find?_some hg
        simpa using this
      have : (g.num == fnum) = false := by simp [hgn, hk]
      simp only [Option.map_some, this, Bool.false_eq_true, if_false]

/-- the bytes of a slice, one by one -/
theorem sd2_slice_ext (d1 d2 : Bytes) (off size : Nat) (h1 : off + size ≤ d1.length) (h2 : off + size ≤ d2.length)
    (h : ∀ j, off ≤ j → j < off + size → d1[j]? = d2[j]?) : (d1.drop off).take size = (d2.drop off).take size := by
  apply List.ext_getElem?
  intro i
  simp only [List.getElem?_take, List.getElem?_drop]
  split
  · exact h (off + i) (by omega) (by omega)
  · rfl

/-- what the location of `a` holds depends only on the cells of its byte range -/
theorem sd2_holds_frame {tbl tbl' : Table} (hs : sd2_SameShape tbl tbl') (a : Addr) (bs : Bytes)
    (hc : ∀ j, sd2_off a ≤ j → j < sd2_off a + sd2_size a → sd2_cell tbl' a.fileNumber j = sd2_cell tbl a.fileNumber j)
    (h : sd2_Holds tbl a bs) : sd2_Holds tbl' a bs := by
  obtain ⟨f, hl, hin, hsl⟩ := h
  obtain ⟨f', hl', hin'⟩ := sd2_located_shape hs ⟨f, hl, hin⟩
  refine ⟨f', hl', hin', ?_⟩
  rw [← hsl]
  apply sd2_slice_ext _ _ _ _ hin' hin
  intro j h1 h2
  have := hc j h1 h2
  have e1 : sd2_file tbl' a.fileNumber = some f' := hl'.find
  have e2 : sd2_file tbl a.fileNumber = some f := hl.find
  simpa [sd2_cell, e1, e2] using this

/-- one full-mask write request in the file-number view: it succeeds, the table keeps its shape, the location holds
    the bytes written, no cell outside the location changes -/
theorem sd2_write_view (tbl : Table) (a : Addr) (v : PyVal) (bs : Bytes) (h : sd2_FullWrite tbl a v bs) :
    ∃ tbl', writeAddr tbl a v = .ok tbl' ∧ sd2_SameShape tbl tbl' ∧ sd2_Holds tbl' a bs ∧
      ∀ k j, ¬ (k = a.fileNumber ∧ sd2_off a ≤ j ∧ j < sd2_off a + sd2_size a) → sd2_cell tbl' k j = sd2_cell tbl k j := by
  obtain ⟨f, hl, hin⟩ := h.located
  obtain ⟨tbl', f', hmw, hfind', hty', hlen', hslice, hout, hother, hlenT⟩ :=
    sd2_full_write_view tbl f a.fileNumber (typeCode a.fileType) a.element a.posNumber (sd2_size a) bs hl.find hl.ftype
      h.sizePos h.sizeEven h.len hin
  have hf : sd2_file tbl a.fileNumber = some f := hl.find
  refine ⟨tbl', ?_, ⟨hlenT, ?_⟩, ⟨f', ⟨hfind', hty'⟩, by rw [hlen']; exact hin, hslice⟩, ?_⟩
  · rw [sd2_writeAddr_full tbl a v bs _ h.value h.notCT h.size255 h.range.file h.range.elem h.pos]
    exact hmw
  · intro k
    by_cases hk : k = a.fileNumber
    · subst hk
      rw [hfind', hf]
      simp only [Option.map_some, hty', hlen', hl.ftype]
    · rw [hother k hk]
  · intro k j hkj
    by_cases hk : k = a.fileNumber
    · subst hk
      have hj : j < sd2_off a ∨ sd2_off a + sd2_size a ≤ j := by
        by_cases h1 : j < sd2_off a
        · exact .inl h1
        · right
          apply Nat.le_of_not_lt
          intro h2
          exact hkj ⟨rfl, by omega, h2⟩
      simp only [sd2_cell, hfind', hf, Option.bind_some]
      exact hout j hj
    · simp only [sd2_cell, hother k hk]

/-! ### a sequence of write requests served one after the other -/

/-- the Tags and the final data table of a sequence of write requests served one after the other: every request runs
    on the table its predecessors left; a refused request leaves the table as it is -/
def sd2_writeRun (tbl : Table) : List (Addr × PyVal) → List STag × Table
  | [] => ([], tbl)
  | (a, v) :: rest =>
      let r := writeAddr tbl a v
      let out := sd2_writeRun (sdr_tbl tbl r) rest
      (sdr_writeTagOf a v r :: out.1, out.2)

/-- the error-free Tag echoing the value -/
def sd2_echo (a : Addr) (v : PyVal) : STag := { tag := a.tag, value := v, type := a.fileType, error := none }

/-- full-mask writes to pairwise non-overlapping locations: every request succeeds, and in the final table every
    location holds the bytes written to it, no other cell changed -/
theorem sd2_run_disjoint : ∀ (items : List (Addr × PyVal × Bytes)) (tbl : Table),
    (∀ p ∈ items, sd2_FullWrite tbl p.1 p.2.1 p.2.2) → items.Pairwise (fun p q => sd2_Disjoint p.1 q.1) →
    ∃ tblF, sd2_writeRun tbl (items.map fun p => (p.1, p.2.1)) = (items.map (fun p => sd2_echo p.1 p.2.1), tblF) ∧
      sd2_SameShape tbl tblF ∧ (∀ p ∈ items, sd2_Holds tblF p.1 p.2.2) ∧
      ∀ k j, (∀ p ∈ items, ¬ (k = p.1.fileNumber ∧ sd2_off p.1 ≤ j ∧ j < sd2_off p.1 + sd2_size p.1)) →
        sd2_cell tblF k j = sd2_cell tbl k j := by
  intro items
  induction items with
  | nil =>
    intro tbl _ _
    exact ⟨tbl, rfl, sd2_SameShape_refl tbl, ⟨fun p hp => absurd hp List.not_mem_nil, fun _ _ _ => rfl⟩⟩
  | cons p rest ih =>
    intro tbl hall hpw
    obtain ⟨a, v, bs⟩ := p
    have hhead := hall (a, v, bs) List.mem_cons_self
    obtain ⟨tbl1, hwa, hsh1, hholds1, hfr1⟩ := sd2_write_view tbl a v bs hhead
    rw [List.pairwise_cons] at hpw
    obtain ⟨tblF, hrun, hshF, hholdsF, hfrF⟩ := ih tbl1
      (fun q hq => sd2_FullWrite_shape hsh1 (hall q (List.mem_cons_of_mem _ hq))) hpw.2
    refine ⟨tblF, ?_, sd2_SameShape_trans hsh1 hshF, ?_, ?_⟩
    · simp only [List.map_cons, sd2_writeRun, hwa, sdr_tbl, hrun, sdr_writeTagOf, sd2_echo]
    · intro q hq
      rcases List.mem_cons.mp hq with rfl | hq
      · apply sd2_holds_frame hshF _ _ _ hholds1
        intro j h1 h2
        apply hfrF
        intro q hq hc
        have hd := hpw.1 q hq
        obtain ⟨e1, e2, e3⟩ := hc
        rcases hd with hd | hd | hd
        · exact hd e1
        · simp only at hd h1 h2; omega
        · simp only at hd h1 h2; omega
      · exact hholdsF q hq
    · intro k j hkj
      rw [hfrF k j (fun q hq => hkj q (List.mem_cons_of_mem _ hq))]
      exact hfr1 k j (hkj (a, v, bs) List.mem_cons_self)

end Pycomm.Slc.Drv
