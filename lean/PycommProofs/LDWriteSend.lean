/-
  LogixDriver.write, layers (c)+(d): a write-type tag service message (Write Tag 0x4D, Write Tag Fragmented 0x53,
  Read-Modify-Write 0x4E) of the driver, sent on a healthy open connection to the reference controller behind the
  harness hook: the message router hands it to the Logix services, the reply is the framed answer `exchange`
  computes, the Logix state of the target becomes the one `exchange` computes.
-/
import PycommProofs.LDReadSend
import PycommProofs.LogixE2EWrite
namespace Pycomm.Lgx.Drv
open Pycomm Pycomm.Tgt Pycomm.Path Pycomm.Reply Pycomm.Encap Pycomm.Lgx Pycomm.Lgx.E2E

/-- the request the message router parses out of a tag service message -/
def ldw_req (svc : UInt8) (segs : List PSeg) (data : Bytes) : MRReq := { service := svc.toNat, path := segs, data := data }

/-- (d, routing) a connected write-type tag service message whose path addresses a tag is handed by the message
    router to the Logix services of the harness hook; state and reply are the ones `exchange` computes -/
theorem ldw_execMR_tag (t : Target Ext) (st : LState) (hst : t.ext.logix = some st) (sess cap : Nat)
    (svc : UInt8) (path data : Bytes) (segs : List PSeg) (loc : Loc)
    (hp : Denotes path segs) (hr : resolve st.proj segs = .ok loc)
    (htag : (∃ nmb, segs = [.symbol nmb]) ∨ (∃ i, segs = [.logical 0 0x6B, .logical 4 i]))
    (hsvc : svc = 0x4D ∨ svc = 0x53 ∨ svc = 0x4E) :
    execMR hookAll t sess (some cap) true false [] ([svc] ++ path ++ data) =
      ({ base := t.base.event (.mr true false (ldw_req svc segs data) []),
         ext := { t.ext with logix := some (Cl.exchange st cap ([svc] ++ path ++ data)).1 } },
       encMRReply svc.toNat (Cl.exchange st cap ([svc] ++ path ++ data)).2) := by
  have hpm : parseMR ([svc] ++ path ++ data) = some (ldw_req svc segs data) := parseMR_msg svc path data segs hp
  have hsv : (ldw_req svc segs data).service = 0x4D ∨ (ldw_req svc segs data).service = 0x53 ∨
      (ldw_req svc segs data).service = 0x4E := by
    rcases hsvc with rfl | rfl | rfl
    · exact Or.inl rfl
    · exact Or.inr (Or.inl rfl)
    · exact Or.inr (Or.inr rfl)
  have hls : logixService st (ldw_req svc segs data) (some cap) = some (Cl.exchange st cap ([svc] ++ path ++ data)) := by
    have hx : logixService st (ldw_req svc segs data) (some cap) = tagService st (ldw_req svc segs data) cap := by
      simp only [logixService, Option.getD_some]
      rw [if_neg (by rcases hsv with h | h | h <;> rw [h] <;> simp), w_single_of_resolve st _ cap loc hr hsv]
    rw [w_tagService_of_resolve st _ cap loc hr hsv] at hx
    unfold Cl.exchange
    rw [hpm]
    simp only [hx]
  unfold execMR
  rw [hpm]
  rcases htag with ⟨nmb, rfl⟩ | ⟨i, rfl⟩
  · rcases hsvc with rfl | rfl | rfl <;> cases hslc : t.ext.slc <;>
      simp only [ldw_req, classInst, baseObject, hookAll, hslc, hst] <;>
      simp only [ldw_req] at hls <;> rw [hls]
  · rcases hsvc with rfl | rfl | rfl <;> cases hslc : t.ext.slc <;>
      simp only [ldw_req, classInst, baseObject, hookAll, hslc, hst] <;>
      simp only [ldw_req] at hls <;> rw [hls]

/-- (c)+(d) a write-type tag service message sent on the healthy connection, when the controller accepts it
    (`exchange` answers status 0 without data and moves to the state `st'`): one frame is written, the reply is
    the framed status-0 answer, the Logix state of the target is `st'`, the world is healthy again -/
theorem ldw_sendUnit_tag (w : Cli.World Ext) (sess : Nat) (cidb : Bytes) (conn : Conn) (st st' : LState)
    (svc : UInt8) (path data : Bytes) (segs : List PSeg) (loc : Loc) (seq : Nat)
    (hw : ldr_Healthy w sess cidb conn) (hlogix : w.net.target.ext.logix = some st)
    (hp : Denotes path segs) (hr : resolve st.proj segs = .ok loc)
    (htag : (∃ nmb, segs = [.symbol nmb]) ∨ (∃ i, segs = [.logical 0 0x6B, .logical 4 i]))
    (hsvc : svc = 0x4D ∨ svc = 0x53 ∨ svc = 0x4E)
    (hex : Cl.exchange st (conn.size - 2) ([svc] ++ path ++ data) = (st', {}))
    (hseq : seq < 65536) (hm : ([svc] ++ path ++ data).length ≤ 65400)
    (hfit : ([svc] ++ path ++ data).length + 2 ≤ conn.size) :
    ∃ w' frm, sendUnit hookAll w seq ([svc] ++ path ++ data) =
        (w', .ok (some (frame CMD_SEND_UNIT sess 0 w.drv.context (cpfReplyConnected conn.toId seq
          (encMRReply svc.toNat { status := 0, ext := [], data := [] }))))) ∧
      w'.drv = w.drv ∧ w'.net.sent = w.net.sent ++ [frm] ∧
      w'.net.target.ext = { w.net.target.ext with logix := some st' } ∧
      ldr_Healthy w' sess cidb { conn with lastSeq := some seq } := by
  obtain ⟨frm, _, hsend⟩ := Cli.ldr_sendUnit hookAll w sess cidb conn seq ([svc] ++ path ++ data) hw.ctx8 hw.opt0 hw.sock
    hw.session hw.session32 hw.sessionReg hw.cid hw.cid4 hw.conn hw.pend hw.faults hseq hm hfit
  have hmr := ldw_execMR_tag
    { w.net.target with base := Cli.ldr_unitBase w.net.target.base sess (leVal cidb) seq conn } st hlogix sess
    (conn.size - 2) svc path data segs loc hp hr htag hsvc
  rw [hex] at hmr
  rw [hmr] at hsend
  refine ⟨_, frm, hsend, rfl, rfl, ?_, ?_⟩
  · simp only [Cli.ldr_unitAfter_ext]
  · refine ⟨hw.connected, hw.sock, hw.ctx8, hw.opt0, hw.session, hw.session32, ?_, hw.cid, hw.cid4, ?_, rfl, hw.faults⟩
    · simp only [Cli.ldr_unitAfter_sessions]
      show sess ∈ (Cli.ldr_unitBase w.net.target.base sess (leVal cidb) seq conn).sessions
      rw [Cli.ldr_unitBase_sessions]
      exact hw.sessionReg
    · simp only [Cli.ldr_unitAfter_conns]
      show ((Cli.ldr_unitBase w.net.target.base sess (leVal cidb) seq conn).conns).find? _ = _
      rw [Cli.ldr_unitBase_conns]
      exact Cli.ldr_find_seq _ _ _ _ _ hw.conn

/-- (c)+(d) the driver's Write Tag request for one element of a controller-scope elementary scalar symbol carrying
    the type code and exactly the element's bytes, sent on the healthy connection: one frame is written, the
    controller accepts it (status 0, no data), and its whole effect on the Logix state is the bytes written at the
    symbol with one logged write -/
theorem ldw_sendUnit_write (w : Cli.World Ext) (sess : Nat) (cidb : Bytes) (conn : Conn) (st : LState) (s : Symbol)
    (c sz : Nat) (useIds : Bool) (path : Bytes) (seq : Nat) (bytes : Bytes)
    (hw : ldr_Healthy w sess cidb conn) (hlogix : w.net.target.ext.logix = some st)
    (hid : PlainIdent s.name) (hs : s ∈ st.proj.controller)
    (hbytes : ∀ s' ∈ st.proj.controller, ∀ ch ∈ s'.name, ch < 256)
    (huniqN : ∀ s' ∈ st.proj.controller, s'.name = s.name → s' = s)
    (huniqI : ∀ s' ∈ st.proj.controller, s'.inst = s.inst → s' = s)
    (hty : elTyOfWord s.symbolType = .atomic c) (hsz : atomicSize c = some sz) (hlen : s.mem.length = sz)
    (hpos : 0 < sz) (hp : Denotes path (ldr_segs s.name s.inst useIds)) (hpl : path.length ≤ s.name.length + 13)
    (hseq : seq < 65536) (hbl : bytes.length = sz) (hfit : sz + s.name.length + 20 ≤ conn.size) :
    ∃ w' frm, sendUnit hookAll w seq (Cl.writeMsg path (le 2 c) 1 bytes) =
        (w', .ok (some (frame CMD_SEND_UNIT sess 0 w.drv.context (cpfReplyConnected conn.toId seq
          (encMRReply 0x4D { status := 0, ext := [], data := [] }))))) ∧
      w'.drv = w.drv ∧ w'.net.sent = w.net.sent ++ [frm] ∧
      w'.net.target.ext =
        { w.net.target.ext with logix := some { st with proj := written st.proj (ldr_loc s c) 0 bytes } } ∧
      ldr_Healthy w' sess cidb { conn with lastSeq := some seq } := by
  have hnl := hid.2.1
  have h8 := atomicSize_le c sz hsz
  have hmsg : Cl.writeMsg path (le 2 c) 1 bytes = [0x4D] ++ path ++ (le 2 c ++ le 2 1 ++ bytes) := by
    simp only [Cl.writeMsg, List.append_assoc]
  have hml : ([0x4D] ++ path ++ (le 2 c ++ le 2 1 ++ bytes) : Bytes).length = path.length + 5 + sz := by
    simp only [List.length_append, List.length_cons, List.length_nil, le_length, hbl]; omega
  have hr := ldr_resolve st.proj s c sz useIds hid hs hbytes huniqN huniqI hty hsz
    (by intro h; rw [h, List.length_nil] at hlen; omega)
  have hsym : st.proj.symbolOf (ldr_loc s c) = some s := ldr_find_inst st.proj s hs huniqI
  have hav := ldr_dimsProduct_pos s.dims
  have hex := write_e2e st (conn.size - 2) path _ (ldr_loc s c) 1 sz bytes s hp hr (by intro b; simp [ldr_loc])
    ⟨Nat.le_refl 1, hav, by omega⟩ hsym hsz (by omega) (by simp only [ldr_loc]; omega)
  have htb : typeBytes st.proj (ldr_loc s c).ty = le 2 c := rfl
  rw [htb, hmsg] at hex
  have htag : (∃ nmb, ldr_segs s.name s.inst useIds = [.symbol nmb]) ∨
      (∃ i, ldr_segs s.name s.inst useIds = [.logical 0 0x6B, .logical 4 i]) := by
    unfold ldr_segs
    split
    · exact Or.inr ⟨_, rfl⟩
    · exact Or.inl ⟨_, rfl⟩
  rw [hmsg]
  exact ldw_sendUnit_tag w sess cidb conn st _ 0x4D path _ _ (ldr_loc s c) seq hw hlogix hp hr htag (Or.inl rfl) hex hseq
    (by rw [hml]; omega) (by rw [hml]; omega)

end Pycomm.Lgx.Drv
