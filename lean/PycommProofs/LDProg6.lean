/-
  Program-scoped tags in the tag database the driver holds after `open()` with `init_program_tags=True`
  (`tagDbOf project true`): looked up at `Program:P.tag`, it yields what `_create_tag` makes of the symbol `tag` of the
  program `P` (after `ldr_tagDb_get` for controller-scope tags).
-/
import PycommProofs.LDProg1
namespace Pycomm.Lgx.Drv
open Pycomm Pycomm.Tgt Pycomm.Path Pycomm.Reply

/-- `_isolate_user_tags` drops every `Program:` symbol -/
theorem ldp_keep_not_program (n : Name) (ty : Nat) (h : K.keepSymbol n ty = true) :
    PyStr.startsWith (Drv.nm "Program:") n = false := by
  cases hs : PyStr.startsWith (Drv.nm "Program:") n with
  | false => rfl
  | true =>
    exfalso
    have hs' : PyStr.startsWith (K.nm "Program:") n = true := hs
    unfold K.keepSymbol at h
    rw [hs'] at h
    simp at h

/-- `ldr_userTags_bwd` keeping the fact that the symbol passed the filter -/
theorem ldp_userTags_bwd (p : Project) (pfx : Name) (syms : List Symbol) (ys : List (Name × TagInfo))
    (h : userTags p pfx syms = some ys) (y : Name × TagInfo) (hy : y ∈ ys) :
    ∃ s ∈ syms, K.keepSymbol s.name s.symbolType = true ∧ createTag p s = some y.2 ∧ y.1 = pfx ++ s.name := by
  unfold userTags at h
  obtain ⟨s, hs, e⟩ := ldr_mapM_bwd _ _ _ h y hy
  cases hc : createTag p s with
  | none => rw [hc] at e; cases e
  | some i =>
    rw [hc] at e
    simp only [Option.map_some, Option.some.injEq] at e
    subst e
    exact ⟨s, (List.mem_filter.1 hs).1, (List.mem_filter.1 hs).2, hc, rfl⟩

/-- two strings `a.x` and `b.y` whose first parts have no dot are equal only part by part -/
theorem ldp_split_inj (c : Nat) (a b x y : List Nat) (ha : c ∉ a) (hb : c ∉ b) (h : a ++ c :: x = b ++ c :: y) :
    a = b ∧ x = y := by
  induction a generalizing b with
  | nil =>
    cases b with
    | nil => simpa using h
    | cons b0 b =>
      simp only [List.nil_append, List.cons_append, List.cons.injEq] at h
      exact absurd (by rw [← h.1]; simp) hb
  | cons a0 a ih =>
    cases b with
    | nil =>
      simp only [List.nil_append, List.cons_append, List.cons.injEq] at h
      exact absurd (by rw [h.1]; simp) ha
    | cons b0 b =>
      simp only [List.cons_append, List.cons.injEq] at h
      obtain ⟨e1, e2⟩ := ih b (fun hm => ha (List.mem_cons_of_mem _ hm)) (fun hm => hb (List.mem_cons_of_mem _ hm)) h.2
      exact ⟨by rw [h.1, e1], e2⟩

/-- `self._tags` after `open()` with program tags, at `Program:P.tag`: if the controller scope lists the program `P`,
    the controller holds its symbol table `syms`, the tag passes `_isolate_user_tags`, its name is unique in `syms`,
    and program names contain no dot, the entry is what `_create_tag` makes of the symbol -/
theorem ldp_tagDb_get (p : Project) (db : TagDb) (P : Name) (syms : List Symbol) (s : Symbol)
    (hdb : tagDbOf p true = some db)
    (hPin : P ∈ programNames p)
    (hnodot : ∀ pn ∈ programNames p, (46 : Nat) ∉ pn)
    (hfind : p.programs.find? (·.1 == ldp_prog P) = some (ldp_prog P, syms))
    (hs : s ∈ syms) (hkeep : K.keepSymbol s.name s.symbolType = true)
    (huniq : ∀ s' ∈ syms, s'.name = s.name → s' = s) :
    ∃ i, createTag p s = some i ∧ db.get? (ldp_tagStr P s.name) = some i := by
  unfold tagDbOf at hdb
  cases hctl : userTags p [] p.controller with
  | none => rw [hctl] at hdb; cases hdb
  | some ctl =>
    rw [hctl] at hdb
    simp only [Bool.not_true, Bool.false_eq_true, if_false] at hdb
    split at hdb
    · cases hdb
    · rename_i progs hprogs
      simp only [Option.some.injEq] at hdb
      subst hdb
      -- the entry is there
      obtain ⟨grp, hgrp, hf⟩ := ldr_mapM_fwd _ _ _ hprogs P hPin
      have hfind' : p.programs.find? (·.1 == Drv.nm "Program:" ++ P) = some (ldp_prog P, syms) := hfind
      rw [hfind'] at hf
      simp only at hf
      obtain ⟨i, hci, hmem⟩ := ldr_userTags_fwd p _ _ _ hf s hs hkeep
      have hkey : Drv.nm "Program:" ++ P ++ [46] ++ s.name = ldp_tagStr P s.name := rfl
      rw [hkey] at hmem
      refine ⟨i, hci, ?_⟩
      apply ldr_ofList_get _ _ i (List.mem_append_right _ (List.mem_flatten.2 ⟨grp, hgrp, hmem⟩))
      intro j hj
      rcases List.mem_append.1 hj with hj | hj
      · -- controller-scope keys do not start with `Program:`
        exfalso
        obtain ⟨s', _, hk', _, hn'⟩ := ldp_userTags_bwd p [] _ _ hctl _ hj
        simp only [List.nil_append] at hn'
        have h1 := ldp_keep_not_program s'.name s'.symbolType hk'
        rw [← hn'] at h1
        have h2 : PyStr.startsWith (Drv.nm "Program:") (ldp_tagStr P s.name) = true := by
          have h8 : (Drv.nm "Program:").length = 8 := by decide
          simp [PyStr.startsWith, ldp_tagStr, ldp_prog, h8]
        rw [h2] at h1
        cases h1
      · -- another program's key differs; the same program's key comes from the same symbol
        obtain ⟨grp', hgrp', hjg⟩ := List.mem_flatten.1 hj
        obtain ⟨pn', hpn'in, hpn'⟩ := ldr_mapM_bwd _ _ _ hprogs grp' hgrp'
        split at hpn'
        · cases hpn'
        · rename_i pr hpr
          obtain ⟨s', hs', hc', hn'⟩ := ldr_userTags_bwd p _ _ _ hpn' _ hjg
          simp only at hn' hc'
          have e : P ++ 46 :: s.name = pn' ++ 46 :: s'.name := by
            have : Drv.nm "Program:" ++ (P ++ 46 :: s.name) = Drv.nm "Program:" ++ (pn' ++ 46 :: s'.name) := by
              have := hn'
              simpa [ldp_tagStr, ldp_prog] using this
            exact List.append_cancel_left this
          obtain ⟨e1, e2⟩ := ldp_split_inj 46 P pn' s.name s'.name (hnodot P hPin) (hnodot pn' hpn'in) e
          subst e1
          rw [hfind'] at hpr
          cases hpr
          have : s' = s := huniq s' hs' e2.symm
          subst this
          rw [hci] at hc'
          exact (Option.some.inj hc').symm

/-- the controller scope lists the program `P`: `P` is one of the keys of `_info["programs"]` -/
theorem ldp_programNames_mem (p : Project) (P : Name) (s0 : Symbol) (h0 : s0 ∈ p.controller)
    (hn : s0.name = ldp_prog P) : P ∈ programNames p := by
  unfold programNames
  rw [List.mem_eraseDups]
  refine List.mem_map.2 ⟨s0, List.mem_filter.2 ⟨h0, ?_⟩, ?_⟩
  · rw [hn]; exact ldp_prog_startsWith P
  · rw [hn]
    have h8 : (Drv.nm "Program:").length = 8 := by decide
    simp [ldp_prog, h8]

/-- program names have no dot when no `Program:` symbol of the controller scope has one -/
theorem ldp_programNames_nodot (p : Project)
    (h : ∀ s' ∈ p.controller, PyStr.startsWith (Drv.nm "Program:") s'.name = true → (46 : Nat) ∉ s'.name) :
    ∀ pn ∈ programNames p, (46 : Nat) ∉ pn := by
  intro pn hpn
  unfold programNames at hpn
  rw [List.mem_eraseDups] at hpn
  obtain ⟨s', hs', rfl⟩ := List.mem_map.1 hpn
  obtain ⟨hm, hsw⟩ := List.mem_filter.1 hs'
  intro hd
  exact h s' hm hsw (List.mem_of_mem_drop hd)

end Pycomm.Lgx.Drv
