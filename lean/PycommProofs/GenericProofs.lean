/-
  Proofs for C14 (generic messaging delivers the request verbatim and returns the answer):
  the target-side parsers applied to what the client builds give back the arguments.
-/
import PycommModel.Client
import PycommProofs.EpathProofs
namespace Pycomm.Cli
open Pycomm.Tgt Pycomm.Path Pycomm.Encap

/-- the request path the target must see -/
def wantPath (cls inst attr : Nat) : List PSeg :=
  [PSeg.logical 0 cls, PSeg.logical 4 inst] ++ (if attr = 0 then [] else [PSeg.logical 16 attr])

/-- the Unconnected Send wrapper the client builds around `inner` with encoded route `rp`
    (rp = path size, reserved byte, padded path) -/
def ucsWrap (inner rp : Bytes) : Bytes :=
  [0x52, 0x02, 0x20, 0x06, 0x24, 0x01, 0x0a, 0x05] ++ leBytes 2 inner.length ++ inner ++
  (if inner.length % 2 == 1 then [0] else []) ++ rp

-- PROPERTY THEOREMS

/-- a message-router request built from (service, class, instance, attribute, data) is parsed by the target
    into exactly that service code, path and data — for all ids below 2^32 and data of any length -/
theorem request_delivered (svc cls inst attr : Nat) (data : Bytes) (hs : svc < 256)
    (hc : cls < 2 ^ 32) (hi : inst < 2 ^ 32) (ha : attr < 2 ^ 32) :
    ∃ rp, requestPath (.int cls) (.int inst) (.int attr) = .ok rp ∧
      parseMR ([UInt8.ofNat svc] ++ rp ++ data) =
        some { service := svc, path := wantPath cls inst attr, data := data } := by
  sorry

/-- the connection-manager request path used by the Unconnected Send wrapper -/
theorem ucs_path : requestPath (.bytes [0x06]) (.bytes [0x01]) (.bytes []) = .ok [0x02, 0x20, 0x06, 0x24, 0x01] := by
  sorry

/-- Unconnected Send: the target recognises the wrapper, and unwrapping it yields exactly the embedded
    request (embedded length = its size, one pad byte iff the size is odd) and exactly the route path —
    for every embedded request shorter than 65536 bytes and every well-formed padded route -/
theorem ucs_unwrap (inner route : Bytes) (hl : inner.length < 65536) (hr : route.length % 2 = 0)
    (hrl : route.length / 2 < 256) (segs : List PSeg) (hp : parsePadded (route.length + 1) route = some segs) :
    isUcs (ucsWrap inner ([UInt8.ofNat (route.length / 2), 0] ++ route)) =
      some ([0x0a, 0x05] ++ leBytes 2 inner.length ++ inner ++ (if inner.length % 2 == 1 then [0] else []) ++
            [UInt8.ofNat (route.length / 2), 0] ++ route) ∧
    unwrapUcs ([0x0a, 0x05] ++ leBytes 2 inner.length ++ inner ++ (if inner.length % 2 == 1 then [0] else []) ++
            [UInt8.ofNat (route.length / 2), 0] ++ route) = some (inner, route) := by
  sorry

/-- a time written to the wall-clock object is the time it reports, for every 64-bit value -/
theorem time_roundtrip (b : Base) (t : Nat) (ht : t < 2 ^ 64) :
    let b' := (wallClockSet b (leBytes 2 1 ++ leBytes 2 6 ++ leBytes 8 t)).1
    b'.timeUs = t ∧
    wallClockGet b' [1, 0, 0x0B, 0] = { data := leBytes 2 1 ++ leBytes 2 0x0B ++ leBytes 2 0 ++ leBytes 8 t } := by
  sorry

/-- and the client's decoding of that reply (Struct(n_bytes(6), ULINT("µs"))) gives the number back -/
theorem time_reply_decodes (t : Nat) (ht : t < 2 ^ 64) :
    decode (.struct (.cons (some []) (.nbytes 6) (.cons (some [0xB5, 115]) (.int .ulint) .nil)))
      (leBytes 2 1 ++ leBytes 2 0x0B ++ leBytes 2 0 ++ leBytes 8 t) = .ok (.dict [([0xB5, 115], .int t)], []) := by
  sorry

/-- the set-time request data the client builds is what the wall-clock object accepts -/
theorem set_time_request (t : Nat) (ht : t < 2 ^ 64) :
    encode (.struct (.cons none (.int .uint) (.cons none (.int .uint) (.cons none (.int .ulint) .nil))))
      (.list [.int 1, .int 6, .int t]) = .ok (leBytes 2 1 ++ leBytes 2 6 ++ leBytes 8 t) := by
  sorry

/-- reply framing: what the target frames is what the client's response class extracts -/
theorem reply_data_returned (connected : Bool) (svc session toId seq : Nat) (context data : Bytes)
    (hc : context.length = 8) (hs : svc < 128) (hd : data.length < 60000) (hsess : session < 2 ^ 32)
    (htoid : toId < 2 ^ 32) (hseq : seq < 65536) :
    let mr := encMRReply svc { status := 0, ext := [], data := data }
    let raw := if connected then frame CMD_SEND_UNIT session 0 context (cpfReplyConnected toId seq mr)
               else frame CMD_SEND_RR session 0 context (cpfReplyUnconnected mr)
    let tr := if connected then Reply.Transport.connected else Reply.Transport.unconnected
    (Reply.parseCip (some raw) tr).data = some data ∧ (Reply.parseCip (some raw) tr).serviceStatus = some 0 ∧
    (Reply.parseCip (some raw) tr).commandStatus = some 0 := by
  sorry

end Pycomm.Cli
