/-
  Proofs for C14 (generic messaging delivers the request verbatim and returns the answer):
  the target-side parsers applied to what the client builds give back the arguments.
-/
import PycommModel.Client
import PycommProofs.EpathProofs
import PycommProofs.RTLemmas
namespace Pycomm.Cli
open Pycomm.Tgt Pycomm.Path Pycomm.Encap

/-- the request path the target must see -/
def wantPath (cls inst attr : Nat) : List PSeg :=
  [PSeg.logical 0 cls, PSeg.logical 4 inst] ++ (if attr = 0 then [] else [PSeg.logical 16 attr])

/-- the Unconnected Send wrapper the client builds around `inner` with encoded route `rp`
    (rp = path size, reserved byte, padded path) -/
def ucsWrap (inner rp : Bytes) : Bytes :=
  [0x52, 0x02, 0x20, 0x06, 0x24, 0x01, 0x0a, 0x05] ++ leBytes 2 inner.length ++ inner ++
  (if inner.length % 2 == 1 then [0] else []) ++ rp

/-! ### helper lemmas -/

/-- a request path that parses with nothing left over parses the same way in front of any data -/
theorem parseRequestPath_append (bs data : Bytes) (segs : List PSeg)
    (h : parseRequestPath bs = some (segs, [])) : parseRequestPath (bs ++ data) = some (segs, data) := by
  cases bs with
  | nil => simp [parseRequestPath] at h
  | cons n rest =>
    simp only [parseRequestPath] at h
    split at h
    · cases h
    · rename_i hlen
      cases hp : parsePadded (2 * n.toNat + 1) (rest.take (2 * n.toNat)) with
      | none => rw [hp] at h; cases h
      | some s =>
        rw [hp] at h
        simp only [Option.map_some, Option.some.injEq, Prod.mk.injEq] at h
        obtain ⟨rfl, hd⟩ := h
        have hl : rest.length = 2 * n.toNat := by
          have := congrArg List.length hd
          simp at this; omega
        have e1 : (rest ++ data).take (2 * n.toNat) = rest := by rw [← hl]; simp
        have e2 : (rest ++ data).drop (2 * n.toNat) = data := by rw [← hl]; simp
        have e3 : rest.take (2 * n.toNat) = rest := by rw [← hl]; simp
        rw [e3] at hp
        simp only [List.cons_append, parseRequestPath, List.length_append, e1, e2, hp]
        rw [if_neg (by omega)]
        rfl

theorem isUcs_wrap (d : Bytes) : isUcs ([0x52, 0x02, 0x20, 0x06, 0x24, 0x01] ++ d) = some d := by
  have h0 : parseRequestPath [0x02, 0x20, 0x06, 0x24, 0x01] = some ([PSeg.logical 0 6, PSeg.logical 4 1], []) := by
    decide
  have h1 := parseRequestPath_append _ d _ h0
  have e : ([0x52, 0x02, 0x20, 0x06, 0x24, 0x01] ++ d : Bytes) = 0x52 :: ([0x02, 0x20, 0x06, 0x24, 0x01] ++ d) := rfl
  rw [isUcs, e, parseMR, h1]
  simp [classInst]

theorem unwrapUcs_ok (inner route : Bytes) (hl : inner.length < 65536) (hr : route.length % 2 = 0)
    (hrl : route.length / 2 < 256) (segs : List PSeg) (hp : parsePadded (route.length + 1) route = some segs)
    (pad : Bytes) (hpad : pad = if inner.length % 2 == 1 then [0] else []) :
    unwrapUcs ([0x0a, 0x05] ++ leBytes 2 inner.length ++ inner ++ pad ++
            [UInt8.ofNat (route.length / 2), 0] ++ route) = some (inner, route) := by
  have hpl : pad.length = inner.length % 2 := by
    subst hpad; split <;> simp_all
  obtain ⟨A, hA⟩ : ∃ A, A = ([0x0a, 0x05] ++ leBytes 2 inner.length : Bytes) := ⟨_, rfl⟩
  have hAl : A.length = 4 := by subst hA; simp [RT.leBytes_length]
  obtain ⟨T, hT⟩ : ∃ T, T = ([UInt8.ofNat (route.length / 2), 0] ++ route : Bytes) := ⟨_, rfl⟩
  have ed : ([0x0a, 0x05] ++ leBytes 2 inner.length ++ inner ++ pad ++
            [UInt8.ofNat (route.length / 2), 0] ++ route : Bytes) = A ++ (inner ++ (pad ++ T)) := by
    subst hA hT; simp
  rw [ed]
  have hdl : (A ++ (inner ++ (pad ++ T))).length = 4 + inner.length + inner.length % 2 + 2 + route.length := by
    subst hT; simp [hAl, hpl]; omega
  have hlen : leAt (A ++ (inner ++ (pad ++ T))) 2 2 = inner.length := by
    subst hA
    have : ((([0x0a, 0x05] ++ leBytes 2 inner.length : Bytes) ++ (inner ++ (pad ++ T))).drop 2).take 2 = leBytes 2 inner.length := by
      simp [RT.leBytes_length]
    rw [leAt, this, RT.leVal_leBytes 2 _ (by omega)]
  have hafter : (A ++ (inner ++ (pad ++ T))).drop (4 + inner.length + inner.length % 2) = T := by
    have : 4 + inner.length + inner.length % 2 = (A ++ inner ++ pad).length := by simp [hAl, hpl]; omega
    rw [this, ← List.append_assoc, ← List.append_assoc, List.drop_left]
  have hpadz : ¬ (inner.length % 2 = 1 ∧ u8at (A ++ (inner ++ (pad ++ T))) (4 + inner.length) ≠ 0) := by
    rintro ⟨h1, h2⟩
    apply h2
    have hp1 : pad = [0] := by subst hpad; simp [h1]
    have : 4 + inner.length = (A ++ inner).length := by simp [hAl]
    rw [u8at, this, ← List.append_assoc, hp1]
    simp [List.getD_eq_getElem?_getD]
  have hw : (UInt8.ofNat (route.length / 2)).toNat = route.length / 2 := by rw [EP.toNat_ofNat]; omega
  have hT0 : u8at T 0 = route.length / 2 := by subst hT; simp [u8at, hw]
  have hT1 : u8at T 1 = 0 := by subst hT; simp [u8at]
  have hT2 : T.drop 2 = route := by subst hT; simp
  have htake : ((A ++ (inner ++ (pad ++ T))).drop 4).take inner.length = inner := by
    rw [← hAl, List.drop_left]; simp
  unfold unwrapUcs
  simp only [hlen, hafter, hdl, hT0, hT1, hT2, hp, htake]
  rw [if_neg (by omega), if_neg (by omega), if_neg hpadz, if_neg (by simp), if_neg (by omega)]

theorem slice_at (H X : Bytes) (n a b : Nat) (h : H.length = n) :
    Reply.slice (H ++ X) (n + a) (n + b) = Reply.slice X a b := by
  subst h
  simp [Reply.slice, List.take_append, List.drop_append]

theorem serviceFromReply_ok (x : UInt8) (rest : Bytes) (h : 128 ≤ x.toNat) :
    ∃ v, Reply.serviceFromReply (x :: rest) = .ok v := by
  simp only [Reply.serviceFromReply]
  rw [if_neg (by omega)]
  split
  · split <;> exact ⟨_, rfl⟩
  · exact ⟨_, rfl⟩

theorem parseCip_ok (raw : Bytes) (tr : Reply.Transport) (P rest : Bytes) (hP : P.length = 8)
    (hraw1 : raw = P ++ ([0, 0, 0, 0] ++ rest)) (s : UInt8) (hs : 128 ≤ s.toNat) (data H : Bytes)
    (hH : H.length = tr.off) (hraw2 : raw = H ++ ([s, 0, 0, 0] ++ data)) :
    (Reply.parseCip (some raw) tr).data = some data ∧ (Reply.parseCip (some raw) tr).serviceStatus = some 0 ∧
    (Reply.parseCip (some raw) tr).commandStatus = some 0 := by
  have b1 : Reply.slice raw 8 12 = [0, 0, 0, 0] := by
    rw [hraw1]
    have := slice_at P ([0, 0, 0, 0] ++ rest) 8 0 4 hP
    simp only [Nat.add_zero] at this
    rw [this]; simp [Reply.slice]
  have b2 : Reply.slice raw tr.off (tr.off + 1) = [s] := by
    rw [hraw2]
    have := slice_at H ([s, 0, 0, 0] ++ data) tr.off 0 1 hH
    simp only [Nat.add_zero] at this
    rw [this]; simp [Reply.slice]
  have b3 : Reply.slice raw (tr.off + 2) (tr.off + 3) = [0] := by
    rw [hraw2, slice_at H ([s, 0, 0, 0] ++ data) tr.off 2 3 hH]; simp [Reply.slice]
  have b4 : raw.drop (tr.off + 4) = data := by
    rw [hraw2, ← hH, List.drop_append]; simp
  have b5 : decodeIntVal .dint [0, 0, 0, 0] = .ok (0, []) := rfl
  obtain ⟨v, hv⟩ := serviceFromReply_ok s [] hs
  simp only [Reply.parseCip, Reply.parseBase, Reply.parseService, b1, b2, b3, b4, b5, hv]
  exact ⟨trivial, rfl, trivial⟩

-- PROPERTY THEOREMS

/-- a message-router request built from (service, class, instance, attribute, data) is parsed by the target
    into exactly that service code, path and data — for all ids below 2^32 and data of any length -/
theorem request_delivered (svc cls inst attr : Nat) (data : Bytes) (hs : svc < 256)
    (hc : cls < 2 ^ 32) (hi : inst < 2 ^ 32) (ha : attr < 2 ^ 32) :
    ∃ rp, requestPath (.int cls) (.int inst) (.int attr) = .ok rp ∧
      parseMR ([UInt8.ofNat svc] ++ rp ++ data) =
        some { service := svc, path := wantPath cls inst attr, data := data } := by
  obtain ⟨rp, h1, h2⟩ := Path.request_path_denotes cls inst attr hc hi ha
  refine ⟨rp, h1, ?_⟩
  have h3 := parseRequestPath_append rp data _ h2
  have hsv : (UInt8.ofNat svc).toNat = svc := by rw [EP.toNat_ofNat]; omega
  simp only [List.cons_append, List.nil_append, parseMR, h3, hsv, wantPath]

/-- the connection-manager request path used by the Unconnected Send wrapper -/
theorem ucs_path : requestPath (.bytes [0x06]) (.bytes [0x01]) (.bytes []) = .ok [0x02, 0x20, 0x06, 0x24, 0x01] := by
  rfl

/-- Unconnected Send: the target recognises the wrapper, and unwrapping it yields exactly the embedded
    request (embedded length = its size, one pad byte iff the size is odd) and exactly the route path —
    for every embedded request shorter than 65536 bytes and every well-formed padded route -/
theorem ucs_unwrap (inner route : Bytes) (hl : inner.length < 65536) (hr : route.length % 2 = 0)
    (hrl : route.length / 2 < 256) (segs : List PSeg) (hp : parsePadded (route.length + 1) route = some segs) :
    isUcs (ucsWrap inner ([UInt8.ofNat (route.length / 2), 0] ++ route)) =
      some ([0x0a, 0x05] ++ leBytes 2 inner.length ++ inner ++ (if inner.length % 2 == 1 then [0] else []) ++
            [UInt8.ofNat (route.length / 2), 0] ++ route) ∧
    unwrapUcs ([0x0a, 0x05] ++ leBytes 2 inner.length ++ inner ++ (if inner.length % 2 == 1 then [0] else []) ++
            [UInt8.ofNat (route.length / 2), 0] ++ route) = some (inner, route) := by
  refine ⟨?_, unwrapUcs_ok inner route hl hr hrl segs hp _ rfl⟩
  rw [← isUcs_wrap ([0x0a, 0x05] ++ leBytes 2 inner.length ++ inner ++ (if inner.length % 2 == 1 then [0] else []) ++
            [UInt8.ofNat (route.length / 2), 0] ++ route)]
  congr 1
  simp [ucsWrap]

/-- a time written to the wall-clock object is the time it reports, for every 64-bit value -/
theorem time_roundtrip (b : Base) (t : Nat) (ht : t < 2 ^ 64) :
    let b' := (wallClockSet b (leBytes 2 1 ++ leBytes 2 6 ++ leBytes 8 t)).1
    b'.timeUs = t ∧
    wallClockGet b' [1, 0, 0x0B, 0] = { data := leBytes 2 1 ++ leBytes 2 0x0B ++ leBytes 2 0 ++ leBytes 8 t } := by
  have e : leBytes 2 1 ++ leBytes 2 6 ++ leBytes 8 t = [1,0,6,0] ++ leBytes 8 t := rfl
  have hl : ([1,0,6,0] ++ leBytes 8 t).length = 12 := by simp [RT.leBytes_length]
  have h1 : leAt ([1,0,6,0] ++ leBytes 8 t) 0 2 = 1 := rfl
  have h2 : leAt ([1,0,6,0] ++ leBytes 8 t) 2 2 = 6 := rfl
  have h3 : leAt ([1,0,6,0] ++ leBytes 8 t) 4 8 = t := by
    have : (([1,0,6,0] ++ leBytes 8 t).drop 4).take 8 = leBytes 8 t := by
      simp [List.take_of_length_le, RT.leBytes_length]
    rw [leAt, this, RT.leVal_leBytes 8 t (by omega)]
  have hs : wallClockSet b ([1,0,6,0] ++ leBytes 8 t) =
      ({ b with timeUs := t }, { data := le 2 1 ++ le 2 6 ++ le 2 0 }) := by
    unfold wallClockSet
    rw [if_pos ⟨hl, h1, h2⟩, h3]
  intro b'
  have hb : b' = { b with timeUs := t } := by
    show (wallClockSet b (leBytes 2 1 ++ leBytes 2 6 ++ leBytes 8 t)).1 = _
    rw [e, hs]
  rw [hb]
  refine ⟨rfl, ?_⟩
  have g1 : leAt [1, 0, 0x0B, 0] 0 2 = 1 := rfl
  have g2 : leAt [1, 0, 0x0B, 0] 2 2 = 0x0B := rfl
  unfold wallClockGet
  rw [if_pos ⟨by simp, g1, g2⟩]
  rfl

/-- and the client's decoding of that reply (Struct(n_bytes(6), ULINT("µs"))) gives the number back -/
theorem time_reply_decodes (t : Nat) (ht : t < 2 ^ 64) :
    decode (.struct (.cons (some []) (.nbytes 6) (.cons (some [0xB5, 115]) (.int .ulint) .nil)))
      (leBytes 2 1 ++ leBytes 2 0x0B ++ leBytes 2 0 ++ leBytes 8 t) = .ok (.dict [([0xB5, 115], .int t)], []) := by
  have h := RT.decodeIntNat_append .ulint t [] (by simp [IntK.size]; omega)
  simp only [IntK.size, List.append_nil] at h
  have e : leBytes 2 1 ++ leBytes 2 0x0B ++ leBytes 2 0 ++ leBytes 8 t = [1,0,0x0B,0,0,0] ++ leBytes 8 t := rfl
  have hs : streamRead 6 ([1,0,0x0B,0,0,0] ++ leBytes 8 t) = .ok ([1,0,0x0B,0,0,0], leBytes 8 t) :=
    RT.streamRead_append _ _ 6 rfl (by simp)
  rw [e]
  simp only [List.cons_append, List.nil_append] at hs ⊢
  simp [decode, decodeMembers, decodeNBytes, hs, decodeIntVal, h, bind, Except.bind, dictSet, IntK.signed]

/-- the set-time request data the client builds is what the wall-clock object accepts -/
theorem set_time_request (t : Nat) (ht : t < 2 ^ 64) :
    encode (.struct (.cons none (.int .uint) (.cons none (.int .uint) (.cons none (.int .ulint) .nil))))
      (.list [.int 1, .int 6, .int t]) = .ok (leBytes 2 1 ++ leBytes 2 6 ++ leBytes 8 t) := by
  have h1 : packInt .uint (.int 1) = .ok (leBytes 2 1) := rfl
  have h2 : packInt .uint (.int 6) = .ok (leBytes 2 6) := rfl
  have h3 := (RT.packInt_nat .ulint t rfl (by simp [IntK.hi, IntK.signed, IntK.size]; omega)).1
  simp only [IntK.size] at h3
  simp only [encode, encodeMembersSeq, argOf, PyVal.iter?, PyVal.seq?, h1, h2, h3, bind, Except.bind, List.append_nil, List.append_assoc]

/-- reply framing: what the target frames is what the client's response class extracts -/
theorem reply_data_returned (connected : Bool) (svc session toId seq : Nat) (context data : Bytes)
    (hc : context.length = 8) (hs : svc < 128) (hd : data.length < 60000) (hsess : session < 2 ^ 32)
    (htoid : toId < 2 ^ 32) (hseq : seq < 65536) :
    let mr := encMRReply svc { status := 0, ext := [], data := data }
    let raw := if connected then frame CMD_SEND_UNIT session 0 context (cpfReplyConnected toId seq mr)
               else frame CMD_SEND_RR session 0 context (cpfReplyUnconnected mr)
    let tr := if connected then Reply.Transport.connected else Reply.Transport.unconnected
    (Reply.parseCip (some raw) tr).data = some data ∧ (Reply.parseCip (some raw) tr).serviceStatus = some 0 ∧
    (Reply.parseCip (some raw) tr).commandStatus = some 0 := by
  have _ := hs; have _ := hd; have _ := hsess; have _ := htoid; have _ := hseq
  have hz : leBytes 4 0 = [0, 0, 0, 0] := rfl
  have hsv : 128 ≤ (UInt8.ofNat (svc % 128 + 128)).toNat := by rw [EP.toNat_ofNat]; omega
  have hmr : encMRReply svc { status := 0, ext := [], data := data } =
      [UInt8.ofNat (svc % 128 + 128), 0, 0, 0] ++ data := by
    simp [encMRReply]
  intro mr raw tr
  cases connected
  · -- unconnected
    refine parseCip_ok raw tr (le 2 CMD_SEND_RR ++ le 2 (cpfReplyUnconnected mr).length ++ le 4 session)
      (context ++ le 4 0 ++ cpfReplyUnconnected mr) ?_ ?_ _ hsv data
      (encHeader CMD_SEND_RR (cpfReplyUnconnected mr).length session 0 context ++
        (le 4 0 ++ le 2 0 ++ le 2 2 ++ le 2 0 ++ le 2 0 ++ le 2 ITEM_UNCONNECTED_DATA ++ le 2 mr.length)) ?_ ?_
    · simp [le, RT.leBytes_length]
    · simp only [raw, frame, encHeader, le, hz, List.append_assoc, Bool.false_eq_true, if_false]
    · simp [tr, encHeader, le, RT.leBytes_length, hc, Reply.Transport.off]
    · simp only [raw, frame, cpfReplyUnconnected, mr, hmr, List.append_assoc, Bool.false_eq_true, if_false]
  · refine parseCip_ok raw tr (le 2 CMD_SEND_UNIT ++ le 2 (cpfReplyConnected toId seq mr).length ++ le 4 session)
      (context ++ le 4 0 ++ cpfReplyConnected toId seq mr) ?_ ?_ _ hsv data
      (encHeader CMD_SEND_UNIT (cpfReplyConnected toId seq mr).length session 0 context ++
        (le 4 0 ++ le 2 0 ++ le 2 2 ++ le 2 ITEM_CONNECTION ++ le 2 4 ++ le 4 toId ++
         le 2 ITEM_CONNECTED_DATA ++ le 2 (mr.length + 2) ++ le 2 seq)) ?_ ?_
    · simp [le, RT.leBytes_length]
    · simp only [raw, frame, encHeader, le, hz, List.append_assoc, if_true]
    · simp [tr, encHeader, le, RT.leBytes_length, hc, Reply.Transport.off]
    · simp only [raw, frame, cpfReplyConnected, mr, hmr, List.append_assoc, if_true]

end Pycomm.Cli
