/-
  C01 at the driver level, more request shapes: `LogixDriver.read` of one array element (`name[i]`), of a slice
  (`name[i]{n}`, `name{n}`), of one bit of an integer (`name.b`), through the whole stack of the model (tag-string
  parsing, request building, `CIPDriver.send`, encapsulation, the reference target's encapsulation layer / message
  router / Logix services, reply framing, response classes, value decoding, result assembly).

  Layers (lemmas usable on their own):
    (a) LDRead2Parse  `ldr2_parse_unfold`, `ldr2_tail_plain`, `ldr2_tail_dword`
    (b) LDRead2Addr   `ldr2_requestPath`;  LDRead2Core `ldr2_build_single`
    (c)+(d) LDRead2Send `ldr2_execMR_logix`, `ldr2_sendUnit_logix`, `ldr2_sendUnit_read`;
            LDRead2Addr `ldr2_resolve_elem`, `ldr2_readBytes_elem`
    (e) LDRead2Reply  `ldr2_decode_prefix`, `ldr2_decodeN`, `ldr2_parseReadReply_arr`; LDRead2Core `ldr2_readResp`
    (f) LDRead2Bit    `ldr2_bitOfValue`, `ldr2_readResult_bit`
    composed: LDRead2Core `ldr2_read_single`, LDRead2Array `ldr2_read_array`, LDRead2Bit `ldr2_read_bit`
    BOOL arrays: LDRead2Bool `ldr2_natToBits_get`, `ldr2_flat_get`, `ldr2_decodeN_bits`, `ldr2_parseReadReply_dword`,
                 `ldr2_readResult_dword`, composed `ldr2_read_boolElem`
    multi-service path: LDRead2Multi `ldr2_build_two`, `ldr2_multi_two`, `ldr2_tagResp_padded`, `ldr2_readResp_padded`,
                        `ldr2_readResult_get`, composed `ldr2_read_two`
-/
import PycommProofs.LDRead2Array
import PycommProofs.LDRead2Bit
import PycommProofs.LDRead2Multi
import PycommProofs.LDRead2Bool
namespace Pycomm.Lgx.Drv
open Pycomm Pycomm.Tgt Pycomm.Path Pycomm.Reply Pycomm.Encap Pycomm.Lgx Pycomm.Lgx.E2E

/-- the request strings as the caller writes them (`decRender` = decimal digits) -/
theorem ldr2_tagStr_elem (name : Name) (i : Nat) :
    ldr2_tagStr ⟨name, [i]⟩ none none = name ++ [91] ++ decRender i ++ [93] := by
  simp [ldr2_tagStr, renderLevel, joinWith]

theorem ldr2_tagStr_slice (name : Name) (i n : Nat) :
    ldr2_tagStr ⟨name, [i]⟩ none (some n) = name ++ [91] ++ decRender i ++ [93] ++ [123] ++ decRender n ++ [125] := by
  simp [ldr2_tagStr, renderLevel, joinWith]

theorem ldr2_tagStr_slice0 (name : Name) (n : Nat) :
    ldr2_tagStr ⟨name, []⟩ none (some n) = name ++ [123] ++ decRender n ++ [125] := by
  simp [ldr2_tagStr, renderLevel]

theorem ldr2_tagStr_bit (name : Name) (b : Nat) :
    ldr2_tagStr ⟨name, []⟩ (some b) none = name ++ [46] ++ decRender b := by
  simp [ldr2_tagStr, renderLevel]

theorem ldr2_renderLevel_elem (name : Name) (i : Nat) : renderLevel ⟨name, [i]⟩ = name ++ [91] ++ decRender i ++ [93] := by
  simp [renderLevel, joinWith]

/-- more than one element: the value is the list, the type string `T[n]` -/
theorem ldr2_value_many (vs : List PyVal) (h : 2 ≤ vs.length) : ldr2_value vs = .list vs := by
  match vs, h with
  | _ :: _ :: _, _ => rfl

theorem ldr2_typeStr_many (name : Name) (n : Nat) (h : 2 ≤ n) :
    ldr2_typeStr name n = name ++ [91] ++ renderDec (n : Nat) ++ [93] := by
  unfold ldr2_typeStr; rw [if_pos (by omega)]

/-- one-digit numbers -/
theorem ldr2_decRender_small (n : Nat) (h : n < 10) : decRender n = [48 + n] := by
  unfold decRender; rw [decRev]; simp [h]

theorem ldr2_decRender_two (n : Nat) (h1 : 10 ≤ n) (h : n < 100) : decRender n = [48 + n / 10, 48 + n % 10] := by
  unfold decRender; rw [decRev, dif_neg (by omega), decRev, dif_pos (by omega)]; simp

/-- `_create_tag` of a one-dimensional array symbol of an elementary type yields an atomic entry whose `type_class` is
    the array of `dim` elements -/
theorem ldr2_createTag_array (p : Project) (s : Symbol) (name : Name) (t : Ty) (dim : Nat)
    (hw : s.symbolType / 32768 % 2 = 0) (hd1 : s.symbolType / 8192 % 4 = 1) (hdims : s.dims = [dim, 0, 0])
    (hat : atomicOfCode (s.symbolType % 256) = some (name, t)) :
    ∃ info, createTag p s = some info ∧ ldr_InfoOf info name (.arr (.fixed dim) t) s.inst := by
  have h1 : (K.decodeTypeWord s.symbolType).isStruct = false := by
    simp [K.decodeTypeWord, hw]
  refine ⟨.mk { tagType := .atomic, dataTypeName := name, ty := .arr (.fixed dim) t, dim := 1,
                 dimensions := [dim, 0, 0], instanceId := some s.inst } .nil, ?_, ⟨rfl, rfl, rfl, rfl, rfl⟩⟩
  unfold createTag
  simp only [h1, Bool.false_eq_true, if_false]
  simp [K.decodeTypeWord, hat, hd1, hdims]

-- PROPERTY THEOREMS

/-- C01, driver level, array element: reading ONE element `name[i]` (`i < dim`) of a controller-scope one-dimensional
    array of an elementary (non-bit-string) type on a healthy connected driver returns exactly one error-free Tag
    named `name[i]`, carrying the type name and the value the codec decodes from the symbol's memory at byte `i * sz`;
    one frame is written, one sequence number drawn, the controller's project is unchanged, the resulting world is
    healthy again.

    Hypotheses: those of `read_atomic_scalar_e2e` (healthy world `hw`; Logix target `hlogix`; `s` a controller-scope
    symbol `hs` with byte-string names `hbytes`, unique name / instance `huniqN`/`huniqI`, plain identifier `hid`,
    32-bit instance id `hinst`; elementary type `hty`/`hat`/`hb`/`hsz`), and
    * `hdims`, `hlen`  the symbol is one-dimensional with `dim` elements, its memory holds `dim * sz` bytes;
    * `hget`, `hinfo`  the tag database maps the name to an atomic entry whose `type_class` is the array of `dim`
                  elements of that type, with the symbol's instance id;
    * `hi`, `hi32`  the index is inside the array (and is a 32-bit number);
    * `hdec`      `v` is what the codec decodes from the memory at the element;
    * `hC`, `hT`  the small request and its answer fit the driver's connection size and the size the target granted
                  (`name length + 34` bytes suffice). -/
theorem read_atomic_element_e2e (cfg : Cfg) (w : Cli.World Ext) (sess : Nat) (cidb : Bytes) (conn : Conn)
    (st : LState) (s : Symbol) (info : TagInfo) (c sz dim i : Nat) (name : Name) (t : Ty) (v : PyVal) (rest : Bytes)
    (hw : ldr_Healthy w sess cidb conn) (hlogix : w.net.target.ext.logix = some st)
    (hs : s ∈ st.proj.controller)
    (hbytes : ∀ s' ∈ st.proj.controller, ∀ ch ∈ s'.name, ch < 256)
    (huniqN : ∀ s' ∈ st.proj.controller, s'.name = s.name → s' = s)
    (huniqI : ∀ s' ∈ st.proj.controller, s'.inst = s.inst → s' = s)
    (hid : PlainIdent s.name) (hinst : s.inst < 2 ^ 32)
    (hty : elTyOfWord s.symbolType = .atomic c) (hat : atomicOfCode c = some (name, t)) (hb : t.isBits = none)
    (hsz : atomicSize c = some sz)
    (hdims : s.dims.filter (· != 0) = [dim]) (hlen : s.mem.length = dim * sz)
    (hget : cfg.tags.get? s.name = some info) (hinfo : ldr_InfoOf info name (.arr (.fixed dim) t) s.inst)
    (hi : i < dim) (hi32 : i < 2 ^ 32)
    (hdec : decode t (s.mem.drop (i * sz)) = .ok (v, rest))
    (hC : s.name.length + 34 ≤ w.drv.connectionSize) (hT : s.name.length + 34 ≤ conn.size) :
    ∃ w' frm, read hookAll cfg w [s.name ++ [91] ++ decRender i ++ [93]] =
        (w', .ok [{ tag := s.name ++ [91] ++ decRender i ++ [93], value := v, type := some name, error := none }]) ∧
      w'.drv = w.drv.nextSeq.2 ∧ w'.net.sent = w.net.sent ++ [frm] ∧
      w'.net.target.ext = { w.net.target.ext with logix := some { st with ctr := st.ctr + 1 } } ∧
      ldr_Healthy w' sess cidb { conn with lastSeq := some w.drv.nextSeq.1 } := by
  obtain ⟨_, _, _, _, hle8⟩ := ldr_atomic_table c sz name t hat hb hsz
  have h := ldr2_read_array cfg w sess cidb conn st s info c sz dim name t [i] i none [v] (Or.inl rfl) hw hlogix hs hbytes
    huniqN huniqI hid hinst hty hat hb hsz hdims hlen hget hinfo hi32 (by simp) (by simp) (by simp only [Option.getD_none]; omega) (by simp)
    (by
      intro k hk
      have hk0 : k = 0 := by simpa using hk
      subst hk0
      exact ⟨rest, by simpa using hdec⟩)
    (by simp only [Option.getD_none]; omega) (by simp only [Option.getD_none]; omega)
  rw [ldr2_tagStr_elem, ldr2_renderLevel_elem] at h
  exact h

/-- the same with the tag database the driver really holds after `open()` (`cfg.tags` is `tagDbOf` of the controller's
    project): the hypotheses on the entry are replaced by hypotheses on the symbol — it is a user tag (`hkeep`), its
    type word says "not a structure, one dimension" (`hstruct`, `hd1`), its dimensions are `[dim, 0, 0]` (`hdims`). -/
theorem read_atomic_element_e2e_db (cfg : Cfg) (w : Cli.World Ext) (sess : Nat) (cidb : Bytes) (conn : Conn)
    (st : LState) (s : Symbol) (sz dim i : Nat) (name : Name) (t : Ty) (v : PyVal) (rest : Bytes) (programTags : Bool)
    (hw : ldr_Healthy w sess cidb conn) (hlogix : w.net.target.ext.logix = some st)
    (hs : s ∈ st.proj.controller)
    (hbytes : ∀ s' ∈ st.proj.controller, ∀ ch ∈ s'.name, ch < 256)
    (huniqN : ∀ s' ∈ st.proj.controller, s'.name = s.name → s' = s)
    (huniqI : ∀ s' ∈ st.proj.controller, s'.inst = s.inst → s' = s)
    (hid : PlainIdent s.name) (hinst : s.inst < 2 ^ 32)
    (hstruct : s.symbolType / 32768 % 2 = 0) (hd1 : s.symbolType / 8192 % 4 = 1)
    (hat : atomicOfCode (s.symbolType % 256) = some (name, t)) (hb : t.isBits = none)
    (hsz : atomicSize (s.symbolType % 256) = some sz)
    (hdims : s.dims = [dim, 0, 0]) (hlen : s.mem.length = dim * sz)
    (hkeep : K.keepSymbol s.name s.symbolType = true) (hdb : tagDbOf st.proj programTags = some cfg.tags)
    (hi : i < dim) (hi32 : i < 2 ^ 32)
    (hdec : decode t (s.mem.drop (i * sz)) = .ok (v, rest))
    (hC : s.name.length + 34 ≤ w.drv.connectionSize) (hT : s.name.length + 34 ≤ conn.size) :
    ∃ w' frm, read hookAll cfg w [s.name ++ [91] ++ decRender i ++ [93]] =
        (w', .ok [{ tag := s.name ++ [91] ++ decRender i ++ [93], value := v, type := some name, error := none }]) ∧
      w'.drv = w.drv.nextSeq.2 ∧ w'.net.sent = w.net.sent ++ [frm] ∧
      w'.net.target.ext = { w.net.target.ext with logix := some { st with ctr := st.ctr + 1 } } ∧
      ldr_Healthy w' sess cidb { conn with lastSeq := some w.drv.nextSeq.1 } := by
  obtain ⟨info, hc1, hinfo⟩ := ldr2_createTag_array st.proj s name t dim hstruct hd1 hdims hat
  obtain ⟨i', hc2, hget⟩ := ldr_tagDb_get st.proj programTags cfg.tags s hdb hs hkeep huniqN
    (ldr_plain_not_mem s.name hid 58 (by omega))
  rw [hc1] at hc2
  cases hc2
  have hty : elTyOfWord s.symbolType = .atomic (s.symbolType % 256) := by
    unfold elTyOfWord
    rw [if_neg (by omega)]
  have hdim0 : dim ≠ 0 := by omega
  have hdf : s.dims.filter (· != 0) = [dim] := by rw [hdims]; simp [hdim0]
  exact read_atomic_element_e2e cfg w sess cidb conn st s info _ sz dim i name t v rest hw hlogix hs hbytes huniqN huniqI hid
    hinst hty hat hb hsz hdf hlen hget hinfo hi hi32 hdec hC hT

/-- C01, driver level, slice: reading `n ≥ 1` elements from element `i` (`i + n ≤ dim`) of such an array, requested as
    `name[i]{n}`, returns one error-free Tag named `name[i]` (WITHOUT the `{n}` suffix) whose value is the list of the
    `n` values the codec decodes from the memory at bytes `(i + k) * sz`, `k < n`, with type string `T[n]` — and for
    `n = 1` the element itself with type string `T` (`ldr2_value`, `ldr2_typeStr`; see `ldr2_value_many`,
    `ldr2_typeStr_many`). The request must be small enough for one unfragmented Read Tag service:
    `n * sz + name length + 26` bytes fit the connection size of the driver and of the target (`hC`, `hT`). -/
-- STATEMENT CHANGED: "`{n}` requests are returned as n-element lists" is false of the model for n = 1:
-- `read("arr[3]{1}")` yields the element itself (`.int 4`, type `DINT`), not `[4]` (`#guard` and `example` in `Ex` below);
-- the theorem states `ldr2_value vs` / `ldr2_typeStr name n`: the list and `T[n]` exactly for n ≥ 2.
theorem read_atomic_slice_e2e (cfg : Cfg) (w : Cli.World Ext) (sess : Nat) (cidb : Bytes) (conn : Conn)
    (st : LState) (s : Symbol) (info : TagInfo) (c sz dim i n : Nat) (name : Name) (t : Ty) (vs : List PyVal)
    (hw : ldr_Healthy w sess cidb conn) (hlogix : w.net.target.ext.logix = some st)
    (hs : s ∈ st.proj.controller)
    (hbytes : ∀ s' ∈ st.proj.controller, ∀ ch ∈ s'.name, ch < 256)
    (huniqN : ∀ s' ∈ st.proj.controller, s'.name = s.name → s' = s)
    (huniqI : ∀ s' ∈ st.proj.controller, s'.inst = s.inst → s' = s)
    (hid : PlainIdent s.name) (hinst : s.inst < 2 ^ 32)
    (hty : elTyOfWord s.symbolType = .atomic c) (hat : atomicOfCode c = some (name, t)) (hb : t.isBits = none)
    (hsz : atomicSize c = some sz)
    (hdims : s.dims.filter (· != 0) = [dim]) (hlen : s.mem.length = dim * sz)
    (hget : cfg.tags.get? s.name = some info) (hinfo : ldr_InfoOf info name (.arr (.fixed dim) t) s.inst)
    (hi32 : i < 2 ^ 32) (hn : 1 ≤ n) (hn16 : n ≤ 65535) (hin : i + n ≤ dim)
    (hvs : vs.length = n)
    (hdec : ∀ k (h : k < vs.length), ∃ rest, decode t (s.mem.drop ((i + k) * sz)) = .ok (vs[k], rest))
    (hC : n * sz + s.name.length + 26 ≤ w.drv.connectionSize) (hT : n * sz + s.name.length + 26 ≤ conn.size) :
    ∃ w' frm, read hookAll cfg w [s.name ++ [91] ++ decRender i ++ [93] ++ [123] ++ decRender n ++ [125]] =
        (w', .ok [{ tag := s.name ++ [91] ++ decRender i ++ [93], value := ldr2_value vs,
                    type := some (ldr2_typeStr name n), error := none }]) ∧
      w'.drv = w.drv.nextSeq.2 ∧ w'.net.sent = w.net.sent ++ [frm] ∧
      w'.net.target.ext = { w.net.target.ext with logix := some { st with ctr := st.ctr + 1 } } ∧
      ldr_Healthy w' sess cidb { conn with lastSeq := some w.drv.nextSeq.1 } := by
  have h := ldr2_read_array cfg w sess cidb conn st s info c sz dim name t [i] i (some n) vs (Or.inl rfl) hw hlogix hs hbytes
    huniqN huniqI hid hinst hty hat hb hsz hdims hlen hget hinfo hi32 hn hn16 hin hvs hdec hC hT
  rw [ldr2_tagStr_slice, ldr2_renderLevel_elem] at h
  exact h

/-- C01, driver level, slice from the start: `name{n}` reads the first `n` elements; the Tag is named `name` -/
theorem read_atomic_slice0_e2e (cfg : Cfg) (w : Cli.World Ext) (sess : Nat) (cidb : Bytes) (conn : Conn)
    (st : LState) (s : Symbol) (info : TagInfo) (c sz dim n : Nat) (name : Name) (t : Ty) (vs : List PyVal)
    (hw : ldr_Healthy w sess cidb conn) (hlogix : w.net.target.ext.logix = some st)
    (hs : s ∈ st.proj.controller)
    (hbytes : ∀ s' ∈ st.proj.controller, ∀ ch ∈ s'.name, ch < 256)
    (huniqN : ∀ s' ∈ st.proj.controller, s'.name = s.name → s' = s)
    (huniqI : ∀ s' ∈ st.proj.controller, s'.inst = s.inst → s' = s)
    (hid : PlainIdent s.name) (hinst : s.inst < 2 ^ 32)
    (hty : elTyOfWord s.symbolType = .atomic c) (hat : atomicOfCode c = some (name, t)) (hb : t.isBits = none)
    (hsz : atomicSize c = some sz)
    (hdims : s.dims.filter (· != 0) = [dim]) (hlen : s.mem.length = dim * sz)
    (hget : cfg.tags.get? s.name = some info) (hinfo : ldr_InfoOf info name (.arr (.fixed dim) t) s.inst)
    (hn : 1 ≤ n) (hn16 : n ≤ 65535) (hin : n ≤ dim)
    (hvs : vs.length = n)
    (hdec : ∀ k (h : k < vs.length), ∃ rest, decode t (s.mem.drop (k * sz)) = .ok (vs[k], rest))
    (hC : n * sz + s.name.length + 26 ≤ w.drv.connectionSize) (hT : n * sz + s.name.length + 26 ≤ conn.size) :
    ∃ w' frm, read hookAll cfg w [s.name ++ [123] ++ decRender n ++ [125]] =
        (w', .ok [{ tag := s.name, value := ldr2_value vs, type := some (ldr2_typeStr name n), error := none }]) ∧
      w'.drv = w.drv.nextSeq.2 ∧ w'.net.sent = w.net.sent ++ [frm] ∧
      w'.net.target.ext = { w.net.target.ext with logix := some { st with ctr := st.ctr + 1 } } ∧
      ldr_Healthy w' sess cidb { conn with lastSeq := some w.drv.nextSeq.1 } := by
  have h := ldr2_read_array cfg w sess cidb conn st s info c sz dim name t [] 0 (some n) vs (Or.inr ⟨rfl, rfl⟩) hw hlogix hs
    hbytes huniqN huniqI hid hinst hty hat hb hsz hdims hlen hget hinfo (by decide) hn hn16 (by simpa using hin) hvs
    (by intro k hk; obtain ⟨r, hr⟩ := hdec k hk; exact ⟨r, by simpa using hr⟩) hC hT
  rw [ldr2_tagStr_slice0] at h
  have hrl : renderLevel ⟨s.name, []⟩ = s.name := by simp [renderLevel]
  rw [hrl] at h
  exact h

/-- C01, driver level, integer bit: reading bit `b` (`b < 8 * sz`) of a controller-scope integer scalar tag
    (SINT … ULINT), requested as `name.b`, returns one error-free Tag named `name.b` of type `BOOL` whose value is bit
    `b` of the integer the controller holds — bit `b` of the little-endian memory, which is bit `b` of the
    two's-complement integer (`ldr2_toSigned_bit`, `ldr2_bitOfValue`). One plain one-element Read Tag of the whole
    integer is sent. Hypotheses as in `read_atomic_scalar_e2e`, with `t = .int k`. -/
theorem read_int_bit_e2e (cfg : Cfg) (w : Cli.World Ext) (sess : Nat) (cidb : Bytes) (conn : Conn)
    (st : LState) (s : Symbol) (info : TagInfo) (c sz : Nat) (name : Name) (k : IntK) (b : Nat)
    (hw : ldr_Healthy w sess cidb conn) (hlogix : w.net.target.ext.logix = some st)
    (hs : s ∈ st.proj.controller)
    (hbytes : ∀ s' ∈ st.proj.controller, ∀ ch ∈ s'.name, ch < 256)
    (huniqN : ∀ s' ∈ st.proj.controller, s'.name = s.name → s' = s)
    (huniqI : ∀ s' ∈ st.proj.controller, s'.inst = s.inst → s' = s)
    (hid : PlainIdent s.name) (hinst : s.inst < 2 ^ 32)
    (hty : elTyOfWord s.symbolType = .atomic c) (hat : atomicOfCode c = some (name, .int k))
    (hsz : atomicSize c = some sz) (hlen : s.mem.length = sz)
    (hget : cfg.tags.get? s.name = some info) (hinfo : ldr_InfoOf info name (.int k) s.inst)
    (hb : b < 8 * sz)
    (hC : s.name.length + 28 ≤ w.drv.connectionSize) (hT : s.name.length + 28 ≤ conn.size) :
    ∃ w' frm, read hookAll cfg w [s.name ++ [46] ++ decRender b] =
        (w', .ok [{ tag := s.name ++ [46] ++ decRender b, value := .bool ((leVal s.mem).testBit b),
                    type := some (Drv.nm "BOOL"), error := none }]) ∧
      w'.drv = w.drv.nextSeq.2 ∧ w'.net.sent = w.net.sent ++ [frm] ∧
      w'.net.target.ext = { w.net.target.ext with logix := some { st with ctr := st.ctr + 1 } } ∧
      ldr_Healthy w' sess cidb { conn with lastSeq := some w.drv.nextSeq.1 } := by
  have h := ldr2_read_bit cfg w sess cidb conn st s info c sz name k b hw hlogix hs hbytes huniqN huniqI hid hinst hty hat
    hsz hlen hget hinfo hb hC hT
  rw [ldr2_tagStr_bit] at h
  exact h

/-- C01 (and C03), driver level, two tags in one call: `read(a, b)` of two controller-scope elementary (non-bit-string)
    scalar tags on a healthy connected driver that is not a Micro800 returns the two error-free Tags in the order of
    the request, each with its name, type name and the value decoded from its symbol's memory. Both reads travel in
    ONE Multiple Service Packet (one frame written); three sequence numbers are drawn (one per embedded Read Tag
    packet, one for the multi-service packet); the controller's project is unchanged (its schedule counter advances
    by 2); the resulting world is healthy again. The two tags need not be distinct.

    Hypotheses: for each of the two symbols those of `read_atomic_scalar_e2e` (suffix `a` / `b`); `hmicro`: the
    multi-service path is taken only when the driver is not a Micro800; `hC`, `hT`: both estimated replies and the
    multi-service overhead fit the connection (`name lengths + 66` bytes suffice). -/
theorem read_two_tags_e2e (cfg : Cfg) (w : Cli.World Ext) (sess : Nat) (cidb : Bytes) (conn : Conn) (st : LState)
    (sa sb : Symbol) (ia ib : TagInfo) (ca cb sza szb : Nat) (na nb : Name) (ta tb : Ty) (va vb : PyVal) (ra rb : Bytes)
    (hw : ldr_Healthy w sess cidb conn) (hlogix : w.net.target.ext.logix = some st) (hmicro : cfg.micro800 = false)
    (hbytes : ∀ s' ∈ st.proj.controller, ∀ ch ∈ s'.name, ch < 256)
    (hsa : sa ∈ st.proj.controller) (hsb : sb ∈ st.proj.controller)
    (huniqNa : ∀ s' ∈ st.proj.controller, s'.name = sa.name → s' = sa)
    (huniqNb : ∀ s' ∈ st.proj.controller, s'.name = sb.name → s' = sb)
    (huniqIa : ∀ s' ∈ st.proj.controller, s'.inst = sa.inst → s' = sa)
    (huniqIb : ∀ s' ∈ st.proj.controller, s'.inst = sb.inst → s' = sb)
    (hida : PlainIdent sa.name) (hidb : PlainIdent sb.name) (hinsta : sa.inst < 2 ^ 32) (hinstb : sb.inst < 2 ^ 32)
    (htya : elTyOfWord sa.symbolType = .atomic ca) (htyb : elTyOfWord sb.symbolType = .atomic cb)
    (hata : atomicOfCode ca = some (na, ta)) (hatb : atomicOfCode cb = some (nb, tb))
    (hba : ta.isBits = none) (hbb : tb.isBits = none)
    (hsza : atomicSize ca = some sza) (hszb : atomicSize cb = some szb)
    (hlena : sa.mem.length = sza) (hlenb : sb.mem.length = szb)
    (hgeta : cfg.tags.get? sa.name = some ia) (hgetb : cfg.tags.get? sb.name = some ib)
    (hinfoa : ldr_InfoOf ia na ta sa.inst) (hinfob : ldr_InfoOf ib nb tb sb.inst)
    (hdeca : decode ta sa.mem = .ok (va, ra)) (hdecb : decode tb sb.mem = .ok (vb, rb))
    (hC : sa.name.length + sb.name.length + 66 ≤ w.drv.connectionSize)
    (hT : sa.name.length + sb.name.length + 66 ≤ conn.size) :
    ∃ w' frm, read hookAll cfg w [sa.name, sb.name] =
        (w', .ok [{ tag := sa.name, value := va, type := some na, error := none },
                  { tag := sb.name, value := vb, type := some nb, error := none }]) ∧
      w'.drv = w.drv.nextSeq.2.nextSeq.2.nextSeq.2 ∧ w'.net.sent = w.net.sent ++ [frm] ∧
      w'.net.target.ext = { w.net.target.ext with logix := some { st with ctr := st.ctr + 2 } } ∧
      ldr_Healthy w' sess cidb { conn with lastSeq := some w.drv.nextSeq.2.nextSeq.2.nextSeq.1 } :=
  ldr2_read_two cfg w sess cidb conn st sa sb ia ib ca cb sza szb na nb ta tb va vb ra rb hw hlogix hmicro hbytes hsa hsb
    huniqNa huniqNb huniqIa huniqIb hida hidb hinsta hinstb htya htyb hata hatb hba hbb hsza hszb hlena hlenb hgeta hgetb
    hinfoa hinfob hdeca hdecb hC hT

/-- C01, driver level, BOOL-array element: reading element `i` (`i < 32 * dim`) of a controller-scope BOOL array — a
    one-dimensional DWORD array tag of `dim` words — requested as `name[i]`, returns one error-free Tag named `name[i]`
    of type `BOOL` whose value is bit `i % 32` of DWORD `i / 32` of the symbol's memory. The driver sends ONE plain
    Read Tag of `i / 32 + 1` DWORDs from `name[0]` (the window arithmetic of `K.bool_read_window`), decodes the
    `32 * (i / 32 + 1)` bits and picks bit `i`.

    Hypotheses as in `read_atomic_element_e2e` with type code 0xD3 (`hty`), 4-byte elements (`hlen`), a tag-database
    entry named `DWORD` whose `type_class` is the array of `dim` bit strings (`hinfo`); `hw16`: the word count fits
    the 16-bit element count; `hC`, `hT`: the words read and the small request fit the connection. -/
theorem read_bool_array_element_e2e (cfg : Cfg) (w : Cli.World Ext) (sess : Nat) (cidb : Bytes) (conn : Conn)
    (st : LState) (s : Symbol) (info : TagInfo) (dim i : Nat)
    (hw : ldr_Healthy w sess cidb conn) (hlogix : w.net.target.ext.logix = some st)
    (hs : s ∈ st.proj.controller)
    (hbytes : ∀ s' ∈ st.proj.controller, ∀ ch ∈ s'.name, ch < 256)
    (huniqN : ∀ s' ∈ st.proj.controller, s'.name = s.name → s' = s)
    (huniqI : ∀ s' ∈ st.proj.controller, s'.inst = s.inst → s' = s)
    (hid : PlainIdent s.name) (hinst : s.inst < 2 ^ 32)
    (hty : elTyOfWord s.symbolType = .atomic 0xD3)
    (hdims : s.dims.filter (· != 0) = [dim]) (hlen : s.mem.length = dim * 4)
    (hget : cfg.tags.get? s.name = some info)
    (hinfo : ldr_InfoOf info (Drv.nm "DWORD") (.arr (.fixed dim) (.bits .udint)) s.inst)
    (hi : i < 32 * dim) (hw16 : i / 32 + 1 ≤ 65535)
    (hC : (i / 32 + 1) * 4 + s.name.length + 26 ≤ w.drv.connectionSize)
    (hT : (i / 32 + 1) * 4 + s.name.length + 26 ≤ conn.size) :
    ∃ w' frm, read hookAll cfg w [s.name ++ [91] ++ decRender i ++ [93]] =
        (w', .ok [{ tag := s.name ++ [91] ++ decRender i ++ [93],
                    value := .bool ((leVal ((s.mem.drop (4 * (i / 32))).take 4)).testBit (i % 32)),
                    type := some (Drv.nm "BOOL"), error := none }]) ∧
      w'.drv = w.drv.nextSeq.2 ∧ w'.net.sent = w.net.sent ++ [frm] ∧
      w'.net.target.ext = { w.net.target.ext with logix := some { st with ctr := st.ctr + 1 } } ∧
      ldr_Healthy w' sess cidb { conn with lastSeq := some w.drv.nextSeq.1 } := by
  have h := ldr2_read_boolElem cfg w sess cidb conn st s info dim i hw hlogix hs hbytes huniqN huniqI hid hinst hty hdims hlen
    hget hinfo hi hw16 hC hT
  rw [ldr2_renderLevel_elem] at h
  exact h

/-! ### non-vacuity: all hypotheses instantiated on a concrete project and a world obtained by running the model -/

namespace Ex

/-- `arr : DINT[4]` = [1, 2, -1, 4] -/
def symArr : Symbol :=
  { inst := 9, name := Drv.nm "arr", symbolType := 0x20C4, dims := [4, 0, 0], attr3 := 0, attr5 := 0, attr6 := 2 ^ 26,
    access := 0, mem := [1, 0, 0, 0, 2, 0, 0, 0, 0xFF, 0xFF, 0xFF, 0xFF, 4, 0, 0, 0] }
/-- `xyz : INT` = 0x8005 = -32763 -/
def symXyz : Symbol :=
  { inst := 11, name := Drv.nm "xyz", symbolType := 0xC3, dims := [0, 0, 0], attr3 := 0, attr5 := 0, attr6 := 2 ^ 26,
    access := 0, mem := [0x05, 0x80] }
/-- `bits : BOOL[64]` (two DWORDs): bits 0, 2, 31, 32 set -/
def symBits : Symbol :=
  { inst := 12, name := Drv.nm "bits", symbolType := 0x20D3, dims := [2, 0, 0], attr3 := 0, attr5 := 0, attr6 := 2 ^ 26,
    access := 0, mem := [0x05, 0, 0, 0x80, 1, 0, 0, 0] }
def proj2 : Project := { templates := [], controller := [sym, symArr, symXyz, symBits], programs := [] }
def state2 : LState := { proj := proj2 }
def world02 : Cli.World Ext := { drv := {}, net := { target := { base := base, ext := { logix := some state2 } } } }
/-- after `open()` and the Forward Open: the model is run -/
def world2 : Cli.World Ext :=
  (Cli.ensureForwardOpen hookAll Cli.FUEL (Cli.openDrv hookAll world02 [1, 2, 3, 4, 5, 6, 7, 8]).1).1
/-- the driver configuration after the tag upload -/
def cfg2 : Cfg := { tags := (tagDbOf proj2 false).getD [] }
def infoArr : TagInfo :=
  .mk { tagType := .atomic, dataTypeName := Drv.nm "DINT", ty := .arr (.fixed 4) (.int .dint), dim := 1, dimensions := [4, 0, 0],
        instanceId := some 9 } .nil
def infoXyz : TagInfo :=
  .mk { tagType := .atomic, dataTypeName := Drv.nm "INT", ty := .int .int, dim := 0, dimensions := [0, 0, 0],
        instanceId := some 11 } .nil

def infoBits : TagInfo :=
  .mk { tagType := .atomic, dataTypeName := Drv.nm "DWORD", ty := .arr (.fixed 2) (.bits .udint), dim := 1,
        dimensions := [2, 0, 0], instanceId := some 12 } .nil

def ok1 (r : Except Exn (List LTag)) (tag : String) (ty : String) (chk : PyVal → Bool) : Bool :=
  match r with
  | .ok [t] => t.tag == nm tag && t.type == some (nm ty) && t.error.isNone && chk t.value
  | _ => false

-- evaluation checks of the run (interpreter)
#guard world2.drv.targetIsConnected && world2.drv.session == some 4097 && world2.drv.targetCid == some [238, 255, 192, 0]
#guard world2.net.target.base.sessions == [4097] && world2.net.target.base.conns == [conn]
#guard ok1 (read hookAll cfg2 world2 [Drv.nm "arr[1]"]).2 "arr[1]" "DINT" (fun v => match v with | .int 2 => true | _ => false)
#guard ok1 (read hookAll cfg2 world2 [Drv.nm "arr[1]{2}"]).2 "arr[1]" "DINT[2]"
  (fun v => match v with | .list [.int 2, .int (-1)] => true | _ => false)
#guard ok1 (read hookAll cfg2 world2 [Drv.nm "arr[3]{1}"]).2 "arr[3]" "DINT" (fun v => match v with | .int 4 => true | _ => false)
#guard ok1 (read hookAll cfg2 world2 [Drv.nm "arr{3}"]).2 "arr" "DINT[3]"
  (fun v => match v with | .list [.int 1, .int 2, .int (-1)] => true | _ => false)
-- observation (not a theorem): an array tag requested without index and count yields its FIRST element only
#guard ok1 (read hookAll cfg2 world2 [Drv.nm "arr"]).2 "arr" "DINT" (fun v => match v with | .int 1 => true | _ => false)
#guard ok1 (read hookAll cfg2 world2 [Drv.nm "bits"]).2 "bits" "BOOL" (fun v => match v with | .bool true => true | _ => false)
#guard ok1 (read hookAll cfg2 world2 [Drv.nm "xyz.15"]).2 "xyz.15" "BOOL" (fun v => match v with | .bool true => true | _ => false)
#guard ok1 (read hookAll cfg2 world2 [Drv.nm "xyz.1"]).2 "xyz.1" "BOOL" (fun v => match v with | .bool false => true | _ => false)

#guard ok1 (read hookAll cfg2 world2 [Drv.nm "bits[32]"]).2 "bits[32]" "BOOL" (fun v => match v with | .bool true => true | _ => false)
#guard ok1 (read hookAll cfg2 world2 [Drv.nm "bits[31]"]).2 "bits[31]" "BOOL" (fun v => match v with | .bool true => true | _ => false)
#guard ok1 (read hookAll cfg2 world2 [Drv.nm "bits[1]"]).2 "bits[1]" "BOOL" (fun v => match v with | .bool false => true | _ => false)
#guard (match (read hookAll cfg2 world2 [Drv.nm "abc", Drv.nm "xyz"]).2 with
        | .ok [t, u] => t.tag == Drv.nm "abc" && t.type == some (Drv.nm "DINT") && t.error.isNone &&
                        u.tag == Drv.nm "xyz" && u.type == some (Drv.nm "INT") && u.error.isNone &&
                        (match t.value, u.value with | .int 42, .int (-32763) => true | _, _ => false)
        | _ => false)

theorem healthy2 : ldr_Healthy world2 4097 [238, 255, 192, 0] conn :=
  ⟨by decide +kernel, by decide +kernel, by decide +kernel, by decide +kernel, by decide +kernel, by decide,
   by decide +kernel, by decide +kernel, by decide, by decide +kernel, by decide +kernel, by decide +kernel⟩

theorem mem_ctl2 (s' : Symbol) (h : s' ∈ proj2.controller) : s' = sym ∨ s' = symArr ∨ s' = symXyz ∨ s' = symBits := by
  simpa [proj2] using h

theorem bytes2 (s' : Symbol) (h : s' ∈ state2.proj.controller) : ∀ ch ∈ s'.name, ch < 256 := by
  rcases mem_ctl2 s' h with rfl | rfl | rfl | rfl <;> decide

theorem uniqN2 (s : Symbol) (hs : s ∈ state2.proj.controller) (s' : Symbol) (h : s' ∈ state2.proj.controller)
    (e : s'.name = s.name) : s' = s := by
  rcases mem_ctl2 s hs with rfl | rfl | rfl | rfl <;> rcases mem_ctl2 s' h with rfl | rfl | rfl | rfl <;>
    first | rfl | (exfalso; revert e; decide)

theorem uniqI2 (s : Symbol) (hs : s ∈ state2.proj.controller) (s' : Symbol) (h : s' ∈ state2.proj.controller)
    (e : s'.inst = s.inst) : s' = s := by
  rcases mem_ctl2 s hs with rfl | rfl | rfl | rfl <;> rcases mem_ctl2 s' h with rfl | rfl | rfl | rfl <;>
    first | rfl | (exfalso; revert e; decide)

theorem hsArr : symArr ∈ state2.proj.controller := by simp [state2, proj2]
theorem hsXyz : symXyz ∈ state2.proj.controller := by simp [state2, proj2]
theorem hsBits : symBits ∈ state2.proj.controller := by simp [state2, proj2]
theorem hsAbc : sym ∈ state2.proj.controller := by simp [state2, proj2]

/-- every hypothesis of `read_atomic_element_e2e` holds for the concrete world: `read("arr[1]")` returns 2 -/
example : ∃ w' frm, read hookAll cfg2 world2 [Drv.nm "arr[1]"] =
      (w', .ok [{ tag := Drv.nm "arr[1]", value := .int 2, type := some (Drv.nm "DINT"), error := none }]) ∧
    w'.drv = world2.drv.nextSeq.2 ∧ w'.net.sent = world2.net.sent ++ [frm] ∧
    w'.net.target.ext = { world2.net.target.ext with logix := some { state2 with ctr := state2.ctr + 1 } } ∧
    ldr_Healthy w' 4097 [238, 255, 192, 0] { conn with lastSeq := some world2.drv.nextSeq.1 } := by
  have h := read_atomic_element_e2e cfg2 world2 4097 [238, 255, 192, 0] conn state2 symArr infoArr 0xC4 4 4 1 (Drv.nm "DINT") (.int .dint)
      (.int 2) [0xFF, 0xFF, 0xFF, 0xFF, 4, 0, 0, 0]
      healthy2 (by rfl) hsArr bytes2 (uniqN2 symArr hsArr) (uniqI2 symArr hsArr)
      ⟨by decide, by decide, by decide⟩ (by decide)
      (by decide) rfl rfl rfl                                    -- hty hat hb hsz
      (by decide) (by decide)                                    -- hdims hlen
      (by rfl) ⟨rfl, rfl, rfl, rfl, rfl⟩                         -- hget hinfo
      (by decide) (by decide)                                    -- hi hi32
      (by rfl)                                                   -- hdec
      (by decide +kernel) (by decide)                            -- hC hT
  rw [show symArr.name ++ [91] ++ decRender 1 ++ [93] = Drv.nm "arr[1]" from by rw [ldr2_decRender_small 1 (by omega)]; rfl] at h
  exact h

/-- … and of `read_atomic_element_e2e_db`, with the tag database computed from the project -/
example : ∃ w' frm, read hookAll cfg2 world2 [Drv.nm "arr[1]"] =
      (w', .ok [{ tag := Drv.nm "arr[1]", value := .int 2, type := some (Drv.nm "DINT"), error := none }]) ∧
    w'.drv = world2.drv.nextSeq.2 ∧ w'.net.sent = world2.net.sent ++ [frm] ∧
    w'.net.target.ext = { world2.net.target.ext with logix := some { state2 with ctr := state2.ctr + 1 } } ∧
    ldr_Healthy w' 4097 [238, 255, 192, 0] { conn with lastSeq := some world2.drv.nextSeq.1 } := by
  have h := read_atomic_element_e2e_db cfg2 world2 4097 [238, 255, 192, 0] conn state2 symArr 4 4 1 (Drv.nm "DINT") (.int .dint)
      (.int 2) [0xFF, 0xFF, 0xFF, 0xFF, 4, 0, 0, 0] false
      healthy2 (by rfl) hsArr bytes2 (uniqN2 symArr hsArr) (uniqI2 symArr hsArr)
      ⟨by decide, by decide, by decide⟩ (by decide)
      (by decide) (by decide) rfl rfl rfl rfl rfl                -- hstruct hd1 hat hb hsz hdims hlen
      (by decide) (by rfl)                                       -- hkeep hdb
      (by decide) (by decide) (by rfl) (by decide +kernel) (by decide)
  rw [show symArr.name ++ [91] ++ decRender 1 ++ [93] = Drv.nm "arr[1]" from by rw [ldr2_decRender_small 1 (by omega)]; rfl] at h
  exact h

/-- … of `read_atomic_slice_e2e`: `read("arr[1]{2}")` returns [2, -1] as `DINT[2]`, Tag name `arr[1]` -/
example : ∃ w' frm, read hookAll cfg2 world2 [Drv.nm "arr[1]{2}"] =
      (w', .ok [{ tag := Drv.nm "arr[1]", value := .list [.int 2, .int (-1)], type := some (Drv.nm "DINT[2]"), error := none }]) ∧
    w'.drv = world2.drv.nextSeq.2 ∧ w'.net.sent = world2.net.sent ++ [frm] ∧
    w'.net.target.ext = { world2.net.target.ext with logix := some { state2 with ctr := state2.ctr + 1 } } ∧
    ldr_Healthy w' 4097 [238, 255, 192, 0] { conn with lastSeq := some world2.drv.nextSeq.1 } := by
  have h := read_atomic_slice_e2e cfg2 world2 4097 [238, 255, 192, 0] conn state2 symArr infoArr 0xC4 4 4 1 2 (Drv.nm "DINT") (.int .dint)
      [.int 2, .int (-1)]
      healthy2 (by rfl) hsArr bytes2 (uniqN2 symArr hsArr) (uniqI2 symArr hsArr)
      ⟨by decide, by decide, by decide⟩ (by decide)
      (by decide) rfl rfl rfl (by decide) (by decide) (by rfl) ⟨rfl, rfl, rfl, rfl, rfl⟩
      (by decide) (by decide) (by decide) (by decide) rfl        -- hi32 hn hn16 hin hvs
      (by intro k hk
          match k, hk with
          | 0, _ => exact ⟨_, rfl⟩
          | 1, _ => exact ⟨_, rfl⟩)
      (by decide +kernel) (by decide)
  rw [show symArr.name ++ [91] ++ decRender 1 ++ [93] ++ [123] ++ decRender 2 ++ [125] = Drv.nm "arr[1]{2}" from by rw [ldr2_decRender_small 1 (by omega)]; rw [ldr2_decRender_small 2 (by omega)]; rfl] at h
  rw [show symArr.name ++ [91] ++ decRender 1 ++ [93] = Drv.nm "arr[1]" from by rw [ldr2_decRender_small 1 (by omega)]; rfl] at h
  rw [show ldr2_value [PyVal.int 2, PyVal.int (-1)] = .list [.int 2, .int (-1)] from by rfl] at h
  rw [show ldr2_typeStr (Drv.nm "DINT") 2 = Drv.nm "DINT[2]" from by decide] at h
  exact h

/-- … the `{1}` quirk: `read("arr[3]{1}")` returns the element itself, type `DINT` -/
example : ∃ w' frm, read hookAll cfg2 world2 [Drv.nm "arr[3]{1}"] =
      (w', .ok [{ tag := Drv.nm "arr[3]", value := .int 4, type := some (Drv.nm "DINT"), error := none }]) ∧
    w'.drv = world2.drv.nextSeq.2 ∧ w'.net.sent = world2.net.sent ++ [frm] ∧
    w'.net.target.ext = { world2.net.target.ext with logix := some { state2 with ctr := state2.ctr + 1 } } ∧
    ldr_Healthy w' 4097 [238, 255, 192, 0] { conn with lastSeq := some world2.drv.nextSeq.1 } := by
  have h := read_atomic_slice_e2e cfg2 world2 4097 [238, 255, 192, 0] conn state2 symArr infoArr 0xC4 4 4 3 1 (Drv.nm "DINT") (.int .dint)
      [.int 4]
      healthy2 (by rfl) hsArr bytes2 (uniqN2 symArr hsArr) (uniqI2 symArr hsArr)
      ⟨by decide, by decide, by decide⟩ (by decide)
      (by decide) rfl rfl rfl (by decide) (by decide) (by rfl) ⟨rfl, rfl, rfl, rfl, rfl⟩
      (by decide) (by decide) (by decide) (by decide) rfl
      (by intro k hk
          match k, hk with
          | 0, _ => exact ⟨_, rfl⟩)
      (by decide +kernel) (by decide)
  rw [show symArr.name ++ [91] ++ decRender 3 ++ [93] ++ [123] ++ decRender 1 ++ [125] = Drv.nm "arr[3]{1}" from by rw [ldr2_decRender_small 3 (by omega)]; rw [ldr2_decRender_small 1 (by omega)]; rfl] at h
  rw [show symArr.name ++ [91] ++ decRender 3 ++ [93] = Drv.nm "arr[3]" from by rw [ldr2_decRender_small 3 (by omega)]; rfl] at h
  rw [show ldr2_value [PyVal.int 4] = .int 4 from by rfl] at h
  rw [show ldr2_typeStr (Drv.nm "DINT") 1 = Drv.nm "DINT" from by decide] at h
  exact h

/-- … of `read_atomic_slice0_e2e`: `read("arr{3}")` returns [1, 2, -1] as `DINT[3]`, Tag name `arr` -/
example : ∃ w' frm, read hookAll cfg2 world2 [Drv.nm "arr{3}"] =
      (w', .ok [{ tag := Drv.nm "arr", value := .list [.int 1, .int 2, .int (-1)], type := some (Drv.nm "DINT[3]"), error := none }]) ∧
    w'.drv = world2.drv.nextSeq.2 ∧ w'.net.sent = world2.net.sent ++ [frm] ∧
    w'.net.target.ext = { world2.net.target.ext with logix := some { state2 with ctr := state2.ctr + 1 } } ∧
    ldr_Healthy w' 4097 [238, 255, 192, 0] { conn with lastSeq := some world2.drv.nextSeq.1 } := by
  have h := read_atomic_slice0_e2e cfg2 world2 4097 [238, 255, 192, 0] conn state2 symArr infoArr 0xC4 4 4 3 (Drv.nm "DINT") (.int .dint)
      [.int 1, .int 2, .int (-1)]
      healthy2 (by rfl) hsArr bytes2 (uniqN2 symArr hsArr) (uniqI2 symArr hsArr)
      ⟨by decide, by decide, by decide⟩ (by decide)
      (by decide) rfl rfl rfl (by decide) (by decide) (by rfl) ⟨rfl, rfl, rfl, rfl, rfl⟩
      (by decide) (by decide) (by decide) rfl
      (by intro k hk
          match k, hk with
          | 0, _ => exact ⟨_, rfl⟩
          | 1, _ => exact ⟨_, rfl⟩
          | 2, _ => exact ⟨_, rfl⟩)
      (by decide +kernel) (by decide)
  rw [show symArr.name ++ [123] ++ decRender 3 ++ [125] = Drv.nm "arr{3}" from by rw [ldr2_decRender_small 3 (by omega)]; rfl] at h
  rw [show symArr.name = Drv.nm "arr" from by rfl] at h
  rw [show ldr2_value [PyVal.int 1, PyVal.int 2, PyVal.int (-1)] = .list [.int 1, .int 2, .int (-1)] from by rfl] at h
  rw [show ldr2_typeStr (Drv.nm "DINT") 3 = Drv.nm "DINT[3]" from by decide] at h
  exact h

/-- … of `read_int_bit_e2e`: `read("xyz.15")` of the INT -32763 = 0x8005 returns True (the sign bit) -/
example : ∃ w' frm, read hookAll cfg2 world2 [Drv.nm "xyz.15"] =
      (w', .ok [{ tag := Drv.nm "xyz.15", value := .bool true, type := some (Drv.nm "BOOL"), error := none }]) ∧
    w'.drv = world2.drv.nextSeq.2 ∧ w'.net.sent = world2.net.sent ++ [frm] ∧
    w'.net.target.ext = { world2.net.target.ext with logix := some { state2 with ctr := state2.ctr + 1 } } ∧
    ldr_Healthy w' 4097 [238, 255, 192, 0] { conn with lastSeq := some world2.drv.nextSeq.1 } := by
  have h := read_int_bit_e2e cfg2 world2 4097 [238, 255, 192, 0] conn state2 symXyz infoXyz 0xC3 2 (Drv.nm "INT") .int 15
      healthy2 (by rfl) hsXyz bytes2 (uniqN2 symXyz hsXyz) (uniqI2 symXyz hsXyz)
      ⟨by decide, by decide, by decide⟩ (by decide)
      (by decide) rfl rfl rfl                                    -- hty hat hsz hlen
      (by rfl) ⟨rfl, rfl, rfl, rfl, rfl⟩                         -- hget hinfo
      (by decide)                                                -- hb
      (by decide +kernel) (by decide)
  rw [show symXyz.name ++ [46] ++ decRender 15 = Drv.nm "xyz.15" from by rw [ldr2_decRender_two 15 (by omega) (by omega)]; rfl] at h
  rw [show (leVal symXyz.mem).testBit 15 = true from by decide] at h
  exact h

/-- … of `read_two_tags_e2e`: `read("abc", "xyz")` returns 42 and -32763 in one multi-service exchange -/
example : ∃ w' frm, read hookAll cfg2 world2 [Drv.nm "abc", Drv.nm "xyz"] =
      (w', .ok [{ tag := Drv.nm "abc", value := .int 42, type := some (Drv.nm "DINT"), error := none },
                { tag := Drv.nm "xyz", value := .int (-32763), type := some (Drv.nm "INT"), error := none }]) ∧
    w'.drv = world2.drv.nextSeq.2.nextSeq.2.nextSeq.2 ∧ w'.net.sent = world2.net.sent ++ [frm] ∧
    w'.net.target.ext = { world2.net.target.ext with logix := some { state2 with ctr := state2.ctr + 2 } } ∧
    ldr_Healthy w' 4097 [238, 255, 192, 0] { conn with lastSeq := some world2.drv.nextSeq.2.nextSeq.2.nextSeq.1 } :=
  read_two_tags_e2e cfg2 world2 4097 [238, 255, 192, 0] conn state2 sym symXyz info infoXyz 0xC4 0xC3 4 2 (Drv.nm "DINT") (Drv.nm "INT")
    (.int .dint) (.int .int) (.int 42) (.int (-32763)) [] []
    healthy2 (by rfl) rfl bytes2 hsAbc hsXyz (uniqN2 sym hsAbc) (uniqN2 symXyz hsXyz) (uniqI2 sym hsAbc) (uniqI2 symXyz hsXyz)
    ⟨by decide, by decide, by decide⟩ ⟨by decide, by decide, by decide⟩ (by decide) (by decide)
    (by decide) (by decide) rfl rfl rfl rfl rfl rfl rfl rfl          -- hty hat hb hsz hlen
    (by rfl) (by rfl) ⟨rfl, rfl, rfl, rfl, rfl⟩ ⟨rfl, rfl, rfl, rfl, rfl⟩
    (by rfl) (by rfl) (by decide +kernel) (by decide)

/-- … of `read_bool_array_element_e2e`: `read("bits[32]")` reads two DWORDs and returns bit 0 of the second: True -/
example : ∃ w' frm, read hookAll cfg2 world2 [Drv.nm "bits[32]"] =
      (w', .ok [{ tag := Drv.nm "bits[32]", value := .bool true, type := some (Drv.nm "BOOL"), error := none }]) ∧
    w'.drv = world2.drv.nextSeq.2 ∧ w'.net.sent = world2.net.sent ++ [frm] ∧
    w'.net.target.ext = { world2.net.target.ext with logix := some { state2 with ctr := state2.ctr + 1 } } ∧
    ldr_Healthy w' 4097 [238, 255, 192, 0] { conn with lastSeq := some world2.drv.nextSeq.1 } := by
  have h := read_bool_array_element_e2e cfg2 world2 4097 [238, 255, 192, 0] conn state2 symBits infoBits 2 32
      healthy2 (by rfl) hsBits bytes2 (uniqN2 symBits hsBits) (uniqI2 symBits hsBits)
      ⟨by decide, by decide, by decide⟩ (by decide)
      (by decide) (by decide) (by decide)                        -- hty hdims hlen
      (by rfl) ⟨rfl, rfl, rfl, rfl, rfl⟩                         -- hget hinfo
      (by decide) (by decide)                                    -- hi hw16
      (by decide +kernel) (by decide)                            -- hC hT
  rw [show symBits.name ++ [91] ++ decRender 32 ++ [93] = Drv.nm "bits[32]" from by
    rw [ldr2_decRender_two 32 (by omega) (by omega)]; rfl] at h
  rw [show (leVal ((symBits.mem.drop (4 * (32 / 32))).take 4)).testBit (32 % 32) = true from by decide] at h
  exact h

/-- … and `read("bits[1]")` reads one DWORD (0x80000005) and returns bit 1: False -/
example : ∃ w' frm, read hookAll cfg2 world2 [Drv.nm "bits[1]"] =
      (w', .ok [{ tag := Drv.nm "bits[1]", value := .bool false, type := some (Drv.nm "BOOL"), error := none }]) ∧
    w'.drv = world2.drv.nextSeq.2 ∧ w'.net.sent = world2.net.sent ++ [frm] ∧
    w'.net.target.ext = { world2.net.target.ext with logix := some { state2 with ctr := state2.ctr + 1 } } ∧
    ldr_Healthy w' 4097 [238, 255, 192, 0] { conn with lastSeq := some world2.drv.nextSeq.1 } := by
  have h := read_bool_array_element_e2e cfg2 world2 4097 [238, 255, 192, 0] conn state2 symBits infoBits 2 1
      healthy2 (by rfl) hsBits bytes2 (uniqN2 symBits hsBits) (uniqI2 symBits hsBits)
      ⟨by decide, by decide, by decide⟩ (by decide)
      (by decide) (by decide) (by decide) (by rfl) ⟨rfl, rfl, rfl, rfl, rfl⟩ (by decide) (by decide)
      (by decide +kernel) (by decide)
  rw [show symBits.name ++ [91] ++ decRender 1 ++ [93] = Drv.nm "bits[1]" from by
    rw [ldr2_decRender_small 1 (by omega)]; rfl] at h
  rw [show (leVal ((symBits.mem.drop (4 * (1 / 32))).take 4)).testBit (1 % 32) = false from by decide] at h
  exact h

end Ex

end Pycomm.Lgx.Drv
