/-
  C18 at the driver level: `SLCDriver.read(*addresses)` / `SLCDriver.write(*address_values)` (model: SlcDriver.lean)
  through the whole stack of the model — address parsing, PCCC request building with both counter draws, `_msg_start`,
  `CIPDriver.send`, encapsulation, the reference target's encapsulation layer / message router / PCCC object / data
  table, reply framing, `request_status`, `_parse_read_reply`, the Tags.

  Layers (lemmas usable on their own):
    SlcDrvBasic  `sdr_parseMR`, `sdr_execMR` (routing to the PCCC object), `sdr_pccc_read` / `sdr_pccc_write`
                 (`pcccService` = `targetRead` / `targetWrite` of SlcExt), `sdr_reply_layout` (STS at byte 58, data at 61)
    SlcDrvSend   `sdr_sendPccc` (on `ldr_sendUnit`), `sdr_readTag`, `sdr_writeTag` (one `_read_tag` / `_write_tag`)
    SlcDrvCall   `sdr_read_one`, `sdr_write_one` (the public calls in terms of `readAddr` / `writeAddr`)
  and the table-level theorems of SlcProofsExt (`read_word_e2e`, `write_read_word_e2e`, …).
-/
import PycommProofs.SlcDrvCall
namespace Pycomm.Slc.Drv
open Pycomm Pycomm.Tgt Pycomm.Slc

-- PROPERTY THEOREMS

/-- C18, driver level: `read(address)` of an accepted word address (`N7:e`, `B3:e`, `S:e`, `I:e.s`, `O:e` …) located in
    the data table the target holds, on a healthy connected driver, returns exactly one error-free Tag carrying the
    address text, the file type letter and the two's complement value of the 2 bytes of that element; the transaction id
    and the sequence count are the next two values of the counter, exactly one frame is written, the target's data
    table (its whole extension state) is unchanged and the resulting world is healthy again. -/
theorem slc_read_word_e2e (w : Cli.World Ext) (sess : Nat) (cidb : Bytes) (conn : Tgt.Conn) (tbl : Table) (t : Name)
    (a : Addr) (f : SlcFile)
    (hH : Lgx.Drv.ldr_Healthy w sess cidb conn) (htbl : w.net.target.ext.slc = some tbl)
    (hvid : w.drv.vid.length = 2) (hvsn : w.drv.vsn.length = 4) (hC : 64 ≤ conn.size)
    (hparse : parseTag t = some a) (hft : a.fileType ∈ wordFiles) (haf : a.addressField = 2) (hc : a.count = 1)
    (hp : a.posNumber < 65536) (hl : Located tbl a f)
    (hin : 2 * a.element + 2 * a.posNumber + 2 ≤ f.data.length) :
    ∃ w' frm, slcRead hookAll w [t] =
        (w', .ok [{ tag := a.tag, value := .int (int16 (wordAt f.data (2 * a.element + 2 * a.posNumber))),
                    type := a.fileType, error := none }]) ∧
      w'.drv = w.drv.nextSeq.2.nextSeq.2 ∧ w'.net.sent = w.net.sent ++ [frm] ∧
      w'.net.target.ext = w.net.target.ext ∧
      Lgx.Drv.ldr_Healthy w' sess cidb { conn with lastSeq := some w.drv.nextSeq.2.nextSeq.1 } := by
  have hr := parse_accepts_in_range t a hparse
  obtain ⟨_, hsz, _⟩ := slx_wordFiles hft
  obtain ⟨data, h1, h2⟩ := read_word_e2e tbl a f hft haf hc hr hp hl hin
  obtain ⟨w', frm, hread, hrest⟩ := sdr_read_one w sess cidb conn tbl t a hH htbl hvid hvsn hC hparse
    (by rw [hsz, hc]; decide) hp
  refine ⟨w', frm, ?_, hrest⟩
  rw [hread, h1]
  simp only [sdr_readTagOf, h2]

/-- … of an accepted bit address (`N7:e/b`, `B3/n`, `S:e/b`, `I:e.s/b` …): the Tag carries bit b of that word. -/
theorem slc_read_bit_e2e (w : Cli.World Ext) (sess : Nat) (cidb : Bytes) (conn : Tgt.Conn) (tbl : Table) (t : Name)
    (a : Addr) (f : SlcFile)
    (hH : Lgx.Drv.ldr_Healthy w sess cidb conn) (htbl : w.net.target.ext.slc = some tbl)
    (hvid : w.drv.vid.length = 2) (hvsn : w.drv.vsn.length = 4) (hC : 64 ≤ conn.size)
    (hparse : parseTag t = some a) (hft : a.fileType ∈ wordFiles) (haf : a.addressField = 3) (hc : a.count = 1)
    (hp : a.posNumber < 65536) (hl : Located tbl a f)
    (hin : 2 * a.element + 2 * a.posNumber + 2 ≤ f.data.length) :
    ∃ w' frm, slcRead hookAll w [t] =
        (w', .ok [{ tag := a.tag,
                    value := .bool (wordBit (wordAt f.data (2 * a.element + 2 * a.posNumber)) a.subElement),
                    type := a.fileType, error := none }]) ∧
      w'.drv = w.drv.nextSeq.2.nextSeq.2 ∧ w'.net.sent = w.net.sent ++ [frm] ∧
      w'.net.target.ext = w.net.target.ext ∧
      Lgx.Drv.ldr_Healthy w' sess cidb { conn with lastSeq := some w.drv.nextSeq.2.nextSeq.1 } := by
  have hr := parse_accepts_in_range t a hparse
  obtain ⟨_, hsz, _⟩ := slx_wordFiles hft
  obtain ⟨data, h1, h2⟩ := read_bit_e2e tbl a f hft haf hc hr hp hl hin
  obtain ⟨w', frm, hread, hrest⟩ := sdr_read_one w sess cidb conn tbl t a hH htbl hvid hvsn hC hparse
    (by rw [hsz, hc]; decide) hp
  refine ⟨w', frm, ?_, hrest⟩
  rw [hread, h1]
  simp only [sdr_readTagOf, h2]

/-- … of an accepted `{n}` address (2 ≤ n ≤ 127): the Tag carries the list of the n consecutive elements, its name is
    the address without the `{n}` token (`a.tag`). -/
theorem slc_read_count_e2e (w : Cli.World Ext) (sess : Nat) (cidb : Bytes) (conn : Tgt.Conn) (tbl : Table) (t : Name)
    (a : Addr) (f : SlcFile)
    (hH : Lgx.Drv.ldr_Healthy w sess cidb conn) (htbl : w.net.target.ext.slc = some tbl)
    (hvid : w.drv.vid.length = 2) (hvsn : w.drv.vsn.length = 4) (hC : 64 ≤ conn.size)
    (hparse : parseTag t = some a) (hft : a.fileType ∈ wordFiles) (haf : a.addressField = 2)
    (hn : 2 ≤ a.count ∧ a.count ≤ 127) (hp : a.posNumber < 65536) (hl : Located tbl a f)
    (hin : 2 * a.element + 2 * a.posNumber + 2 * a.count ≤ f.data.length) :
    ∃ w' frm, slcRead hookAll w [t] =
        (w', .ok [{ tag := a.tag,
                    value := .list ((List.range a.count).map fun i =>
                      PyVal.int (int16 (wordAt f.data (2 * a.element + 2 * a.posNumber + 2 * i)))),
                    type := a.fileType, error := none }]) ∧
      w'.drv = w.drv.nextSeq.2.nextSeq.2 ∧ w'.net.sent = w.net.sent ++ [frm] ∧
      w'.net.target.ext = w.net.target.ext ∧
      Lgx.Drv.ldr_Healthy w' sess cidb { conn with lastSeq := some w.drv.nextSeq.2.nextSeq.1 } := by
  have hr := parse_accepts_in_range t a hparse
  obtain ⟨_, hsz, _⟩ := slx_wordFiles hft
  obtain ⟨data, h1, h2⟩ := read_count_e2e tbl a f hft haf hn hr hp hl hin
  obtain ⟨w', frm, hread, hrest⟩ := sdr_read_one w sess cidb conn tbl t a hH htbl hvid hvsn hC hparse
    (by rw [hsz]; omega) hp
  refine ⟨w', frm, ?_, hrest⟩
  rw [hread, h1]
  simp only [sdr_readTagOf, h2]

/-- … of a timer / counter sub-element (`T4:e.PRE`, `.ACC`, `.DN` …): the 6-byte element is requested; the Tag carries
    word 1 (PRE), word 2 (ACC) or the status bit of word 0. -/
theorem slc_read_ct_e2e (w : Cli.World Ext) (sess : Nat) (cidb : Bytes) (conn : Tgt.Conn) (tbl : Table) (t : Name)
    (a : Addr) (f : SlcFile)
    (hH : Lgx.Drv.ldr_Healthy w sess cidb conn) (htbl : w.net.target.ext.slc = some tbl)
    (hvid : w.drv.vid.length = 2) (hvsn : w.drv.vsn.length = 4) (hC : 64 ≤ conn.size)
    (hparse : parseTag t = some a) (hft : a.fileType = [84] ∨ a.fileType = [67]) (hl : Located tbl a f)
    (hin : 6 * a.element + 6 ≤ f.data.length) :
    ∃ w' frm, slcRead hookAll w [t] =
        (w', .ok [{ tag := a.tag,
                    value := (if a.subElement = 1 then .int (int16 (wordAt f.data (6 * a.element + 2)))
                              else if a.subElement = 2 then .int (int16 (wordAt f.data (6 * a.element + 4)))
                              else .bool (wordBit (wordAt f.data (6 * a.element)) a.subElement)),
                    type := a.fileType, error := none }]) ∧
      w'.drv = w.drv.nextSeq.2.nextSeq.2 ∧ w'.net.sent = w.net.sent ++ [frm] ∧
      w'.net.target.ext = w.net.target.ext ∧
      Lgx.Drv.ldr_Healthy w' sess cidb { conn with lastSeq := some w.drv.nextSeq.2.nextSeq.1 } := by
  have hr := parse_accepts_in_range t a hparse
  obtain ⟨_, hsz, _⟩ := slx_ctFiles hft
  obtain ⟨_, hc, _⟩ := hr.ct hft
  have hpos : a.posNumber = 0 := hr.pos (by rcases hft with h | h <;> simp [h]) (by rcases hft with h | h <;> simp [h])
  obtain ⟨data, h1, h2⟩ := read_ct_e2e tbl a f hft hr hl hin
  obtain ⟨w', frm, hread, hrest⟩ := sdr_read_one w sess cidb conn tbl t a hH htbl hvid hvsn hC hparse
    (by rw [hsz, hc]; decide) (by omega)
  refine ⟨w', frm, ?_, hrest⟩
  rw [hread, h1]
  simp only [sdr_readTagOf, h2]

/-- C18, driver level: an accepted address the data table refuses (no such file, wrong file type, beyond the end of
    the file: `readAddr` answers STS 0x10 / 0x50) gives exactly one falsy Tag - value None, the `PCCC_ERROR_CODE` text of
    the status as error -, no exception; the data table is unchanged and the world healthy. -/
theorem slc_read_refused_e2e (w : Cli.World Ext) (sess : Nat) (cidb : Bytes) (conn : Tgt.Conn) (tbl : Table) (t : Name)
    (a : Addr) (e : Nat)
    (hH : Lgx.Drv.ldr_Healthy w sess cidb conn) (htbl : w.net.target.ext.slc = some tbl)
    (hvid : w.drv.vid.length = 2) (hvsn : w.drv.vsn.length = 4) (hC : 64 ≤ conn.size)
    (hparse : parseTag t = some a) (hs : dataSize a.fileType * a.count ≤ 255) (hp : a.posNumber < 65536)
    (href : readAddr tbl a = .error e) :
    ∃ w' frm txt, slcRead hookAll w [t] =
        (w', .ok [{ tag := a.tag, value := .none, type := a.fileType, error := some txt }]) ∧
      Status.lookupNat e Gen.pcccErrorCode = some txt ∧
      w'.net.sent = w.net.sent ++ [frm] ∧ w'.net.target.ext = w.net.target.ext ∧
      Lgx.Drv.ldr_Healthy w' sess cidb { conn with lastSeq := some w.drv.nextSeq.2.nextSeq.1 } := by
  have hr := parse_accepts_in_range t a hparse
  obtain ⟨w', frm, hread, _, h2, h3, h4⟩ := sdr_read_one w sess cidb conn tbl t a hH htbl hvid hvsn hC hparse hs hp
  have hf := slx_addressFields a _ hs (by have := hr.file; omega) (by have := hr.elem; omega) hp
  have hcode : e = 0x10 ∨ e = 0x50 := by
    have h' := href
    simp only [readAddr, hf] at h'
    exact sdr_targetRead_codes tbl _ e h'
  have hsome : ∃ txt, Status.lookupNat e Gen.pcccErrorCode = some txt := by
    rcases hcode with rfl | rfl
    · exact ⟨_, rfl⟩
    · exact ⟨_, rfl⟩
  obtain ⟨txt, htxt⟩ := hsome
  refine ⟨w', frm, txt, ?_, htxt, h2, h3, h4⟩
  rw [hread, href]
  simp only [sdr_readTagOf, htxt, Option.getD_some]

/-- C18, driver level, several addresses in one call: `read(*addresses)` for ANY list of accepted addresses whose
    requests can be built (byte size ≤ 255) on a healthy connected driver returns one Tag per address, in call order,
    each exactly the Tag the data table's answer for that address alone gives (`sdr_readTagOf a (readAddr tbl a)`: the
    decoded value, or a falsy Tag with the PCCC error text when the table refuses it - a refused address does not
    disturb the others); one frame per address is written, the data table is unchanged, the world is healthy again on
    the same connection. -/
theorem slc_read_many_e2e (w : Cli.World Ext) (sess : Nat) (cidb : Bytes) (conn : Tgt.Conn) (tbl : Table)
    (tas : List (Name × Addr))
    (hH : Lgx.Drv.ldr_Healthy w sess cidb conn) (htbl : w.net.target.ext.slc = some tbl)
    (hvid : w.drv.vid.length = 2) (hvsn : w.drv.vsn.length = 4) (hC : 64 ≤ conn.size)
    (hall : ∀ p ∈ tas, parseTag p.1 = some p.2 ∧ dataSize p.2.fileType * p.2.count ≤ 255 ∧ p.2.posNumber < 65536) :
    ∃ w' frames conn', slcRead hookAll w (tas.map (·.1)) =
        (w', .ok (tas.map fun p => sdr_readTagOf p.2 (readAddr tbl p.2))) ∧
      w'.net.sent = w.net.sent ++ frames ∧ frames.length = tas.length ∧
      w'.net.target.ext = w.net.target.ext ∧
      Lgx.Drv.ldr_Healthy w' sess cidb conn' ∧ conn'.size = conn.size := by
  obtain ⟨w', frames, conn', h1, h2, h3, h4, _, _, h5, h6, _⟩ :=
    sdr_readTags_all tbl sess cidb tas w conn hH htbl hvid hvsn hC hall
  refine ⟨w', frames, conn', ?_, h2, h3, h4, h5, h6⟩
  unfold slcRead
  rw [sdr_FUEL, sdr_ensureFO_connected hookAll 7 w hH.connected]
  exact h1

/-- C18, driver level, the general write statement: `write((address, value))` with one accepted address and a value
    other than `bytes` / `dict`, on a healthy connected driver whose target's data table accepts the request the driver
    builds for it (`writeAddr tbl a v = .ok tbl'`: `writeable_value`, address fields, masked write of the reference
    table), returns exactly one error-free Tag echoing the value; the target now holds `tbl'`; two counter values are
    drawn, one frame written, the world is healthy again. -/
theorem slc_write_one_e2e (w : Cli.World Ext) (sess : Nat) (cidb : Bytes) (conn : Tgt.Conn) (tbl tbl' : Table)
    (t : Name) (a : Addr) (v : PyVal)
    (hH : Lgx.Drv.ldr_Healthy w sess cidb conn) (htbl : w.net.target.ext.slc = some tbl)
    (hvid : w.drv.vid.length = 2) (hvsn : w.drv.vsn.length = 4) (hC : 500 ≤ conn.size)
    (hparse : parseTag t = some a) (hnb : ∀ b, v ≠ .bytes b) (hnd : ∀ kvs, v ≠ .dict kvs)
    (hp : a.posNumber < 65536) (hwa : writeAddr tbl a v = .ok tbl') :
    ∃ w' frm, slcWrite hookAll w [(t, v)] =
        (w', .ok [{ tag := a.tag, value := v, type := a.fileType, error := none }]) ∧
      w'.drv = w.drv.nextSeq.2.nextSeq.2 ∧ w'.net.sent = w.net.sent ++ [frm] ∧
      w'.net.target.ext = { w.net.target.ext with slc := some tbl' } ∧
      Lgx.Drv.ldr_Healthy w' sess cidb { conn with lastSeq := some w.drv.nextSeq.2.nextSeq.1 } :=
  sdr_write_one w sess cidb conn tbl tbl' t a v hH htbl hvid hvsn hC hparse hnb hnd hp hwa

/-- C18, driver level: a write the data table refuses (no such file, wrong file type, beyond the end of the file, bad
    size: STS 0x10 / 0x50) gives exactly one falsy Tag - value None, the `PCCC_ERROR_CODE` text as error -, no exception;
    the data table is unchanged. -/
theorem slc_write_refused_e2e (w : Cli.World Ext) (sess : Nat) (cidb : Bytes) (conn : Tgt.Conn) (tbl : Table)
    (t : Name) (a : Addr) (v : PyVal) (e : Nat) (val : Bytes) (sz : Nat)
    (hH : Lgx.Drv.ldr_Healthy w sess cidb conn) (htbl : w.net.target.ext.slc = some tbl)
    (hvid : w.drv.vid.length = 2) (hvsn : w.drv.vsn.length = 4) (hC : 500 ≤ conn.size)
    (hparse : parseTag t = some a) (hnb : ∀ b, v ≠ .bytes b) (hnd : ∀ kvs, v ≠ .dict kvs)
    (hp : a.posNumber < 65536) (hwv : writeableValue a v = .ok (val, sz)) (hvl : val.length ≤ 400)
    (hwa : writeAddr tbl a v = .error e) (hne : e ≠ 0) :
    ∃ w' frm txt, slcWrite hookAll w [(t, v)] =
        (w', .ok [{ tag := a.tag, value := .none, type := a.fileType, error := some txt }]) ∧
      Status.lookupNat e Gen.pcccErrorCode = some txt ∧
      w'.drv = w.drv.nextSeq.2.nextSeq.2 ∧ w'.net.sent = w.net.sent ++ [frm] ∧
      w'.net.target.ext = w.net.target.ext ∧
      Lgx.Drv.ldr_Healthy w' sess cidb { conn with lastSeq := some w.drv.nextSeq.2.nextSeq.1 } :=
  sdr_write_refused w sess cidb conn tbl t a v e val sz hH htbl hvid hvsn hC hparse hnb hnd hp hwv hvl hwa hne

/-- C18, driver level, write then read of a word: `write((address, x))` of a 16-bit integer to an accepted word
    address located in the data table returns one error-free Tag echoing x and leaves a healthy world whose data table
    `tbl'` differs from the old one only in the 2 bytes of that element (every other file identical, every other byte of
    the file unchanged); a following `read(address)` returns one error-free Tag with value x, leaves `tbl'` in place
    and the world healthy.  Four counter values are drawn, two frames written. -/
theorem slc_write_then_read_word_e2e (w : Cli.World Ext) (sess : Nat) (cidb : Bytes) (conn : Tgt.Conn) (tbl : Table)
    (t : Name) (a : Addr) (f : SlcFile) (x : Int)
    (hH : Lgx.Drv.ldr_Healthy w sess cidb conn) (htbl : w.net.target.ext.slc = some tbl)
    (hvid : w.drv.vid.length = 2) (hvsn : w.drv.vsn.length = 4) (hC : 500 ≤ conn.size)
    (hparse : parseTag t = some a) (hx : -32768 ≤ x ∧ x ≤ 32767) (hft : a.fileType ∈ wordFiles)
    (haf : a.addressField = 2) (hc : a.count = 1) (hp : a.posNumber < 65536) (hl : Located tbl a f)
    (hu : (tbl.filter (fun g => g.num == a.fileNumber)).length ≤ 1)
    (hin : 2 * a.element + 2 * a.posNumber + 2 ≤ f.data.length) :
    ∃ w1 w2 frm1 frm2 tbl',
      slcWrite hookAll w [(t, .int x)] = (w1, .ok [{ tag := a.tag, value := .int x, type := a.fileType, error := none }]) ∧
      w1.net.target.ext = { w.net.target.ext with slc := some tbl' } ∧
      slcRead hookAll w1 [t] = (w2, .ok [{ tag := a.tag, value := .int x, type := a.fileType, error := none }]) ∧
      w2.net.target.ext = { w.net.target.ext with slc := some tbl' } ∧
      w2.net.sent = w.net.sent ++ [frm1, frm2] ∧ w2.drv = w.drv.nextSeq.2.nextSeq.2.nextSeq.2.nextSeq.2 ∧
      Lgx.Drv.ldr_Healthy w2 sess cidb { conn with lastSeq := some w.drv.nextSeq.2.nextSeq.2.nextSeq.2.nextSeq.1 } ∧
      tbl'.length = tbl.length ∧
      ∀ (i : Nat) (g0 : SlcFile), tbl[i]? = some g0 → ∃ g, tbl'[i]? = some g ∧ g.num = g0.num ∧ g.ftype = g0.ftype ∧
        (g0.num ≠ a.fileNumber → g = g0) ∧
        (g0.num = a.fileNumber → g.data.length = g0.data.length ∧
          ∀ j, (j < 2 * a.element + 2 * a.posNumber ∨ 2 * a.element + 2 * a.posNumber + 2 ≤ j) →
            g.data[j]? = g0.data[j]?) := by
  have hr := parse_accepts_in_range t a hparse
  obtain ⟨_, hsz, _⟩ := slx_wordFiles hft
  obtain ⟨tbl', hwa, ⟨data, hra, hdec⟩, hlen, hfr⟩ := write_read_word_e2e tbl a f x hx hft haf hc hr hp hl hu hin
  obtain ⟨w1, frm1, hwrite, hd1, hs1, he1, hH1⟩ := sdr_write_one w sess cidb conn tbl tbl' t a (.int x) hH htbl hvid hvsn
    hC hparse (fun b h => by cases h) (fun k h => by cases h) hp hwa
  have htbl1 : w1.net.target.ext.slc = some tbl' := by rw [he1]
  obtain ⟨w2, frm2, hread, hd2, hs2, he2, hH2⟩ := sdr_read_one w1 sess cidb _ tbl' t a hH1 htbl1
    (by rw [hd1]; exact hvid) (by rw [hd1]; exact hvsn) (by show 64 ≤ conn.size; omega) hparse
    (by rw [hsz, hc]; decide) hp
  refine ⟨w1, w2, frm1, frm2, tbl', hwrite, he1, ?_, by rw [he2, he1], ?_, by rw [hd2, hd1], ?_, hlen, hfr⟩
  · rw [hread, hra]
    simp only [sdr_readTagOf, hdec]
  · rw [hs2, hs1, List.append_assoc]
    rfl
  · rw [hd1] at hH2
    exact hH2

/-- C18, driver level, write then read of a bit (`N7:e/b`, `B3/n`, `S:e/b`, `I:e.s/b` …): `write((address, v))` of any
    value other than `bytes` / `dict` returns one error-free Tag echoing v; in the data table `tbl'` left behind every
    other file is identical, every other byte of the file unchanged and, of the addressed word, exactly bit b is
    `bool(v)` while every other bit keeps its value; a following `read(address)` returns `bool(v)`. -/
theorem slc_write_then_read_bit_e2e (w : Cli.World Ext) (sess : Nat) (cidb : Bytes) (conn : Tgt.Conn) (tbl : Table)
    (t : Name) (a : Addr) (f : SlcFile) (v : PyVal)
    (hH : Lgx.Drv.ldr_Healthy w sess cidb conn) (htbl : w.net.target.ext.slc = some tbl)
    (hvid : w.drv.vid.length = 2) (hvsn : w.drv.vsn.length = 4) (hC : 500 ≤ conn.size)
    (hparse : parseTag t = some a) (hnb : ∀ b, v ≠ .bytes b) (hnd : ∀ kvs, v ≠ .dict kvs)
    (hft : a.fileType ∈ wordFiles) (haf : a.addressField = 3) (hc : a.count = 1) (hp : a.posNumber < 65536)
    (hl : Located tbl a f) (hu : (tbl.filter (fun g => g.num == a.fileNumber)).length ≤ 1)
    (hin : 2 * a.element + 2 * a.posNumber + 2 ≤ f.data.length) :
    ∃ w1 w2 frm1 frm2 tbl',
      slcWrite hookAll w [(t, v)] = (w1, .ok [{ tag := a.tag, value := v, type := a.fileType, error := none }]) ∧
      w1.net.target.ext = { w.net.target.ext with slc := some tbl' } ∧
      slcRead hookAll w1 [t] = (w2, .ok [{ tag := a.tag, value := .bool v.truthy, type := a.fileType, error := none }]) ∧
      w2.net.target.ext = { w.net.target.ext with slc := some tbl' } ∧
      w2.net.sent = w.net.sent ++ [frm1, frm2] ∧ w2.drv = w.drv.nextSeq.2.nextSeq.2.nextSeq.2.nextSeq.2 ∧
      Lgx.Drv.ldr_Healthy w2 sess cidb { conn with lastSeq := some w.drv.nextSeq.2.nextSeq.2.nextSeq.2.nextSeq.1 } ∧
      tbl'.length = tbl.length ∧
      ∀ (i : Nat) (g0 : SlcFile), tbl[i]? = some g0 → ∃ g, tbl'[i]? = some g ∧ g.num = g0.num ∧ g.ftype = g0.ftype ∧
        (g0.num ≠ a.fileNumber → g = g0) ∧
        (g0.num = a.fileNumber → g.data.length = g0.data.length ∧
          (∀ j, (j < 2 * a.element + 2 * a.posNumber ∨ 2 * a.element + 2 * a.posNumber + 2 ≤ j) →
            g.data[j]? = g0.data[j]?) ∧
          ∀ k, k < 16 → wordBit (wordAt g.data (2 * a.element + 2 * a.posNumber)) k =
            if k = a.subElement then v.truthy else wordBit (wordAt g0.data (2 * a.element + 2 * a.posNumber)) k) := by
  have hr := parse_accepts_in_range t a hparse
  obtain ⟨_, hsz, _⟩ := slx_wordFiles hft
  obtain ⟨tbl', hwa, ⟨data, hra, hdec⟩, hlen, hfr⟩ := write_read_bit_e2e tbl a f v hft haf hc hr hp hl hu hin
  obtain ⟨w1, frm1, hwrite, hd1, hs1, he1, hH1⟩ := sdr_write_one w sess cidb conn tbl tbl' t a v hH htbl hvid hvsn
    hC hparse hnb hnd hp hwa
  have htbl1 : w1.net.target.ext.slc = some tbl' := by rw [he1]
  obtain ⟨w2, frm2, hread, hd2, hs2, he2, hH2⟩ := sdr_read_one w1 sess cidb _ tbl' t a hH1 htbl1
    (by rw [hd1]; exact hvid) (by rw [hd1]; exact hvsn) (by show 64 ≤ conn.size; omega) hparse
    (by rw [hsz, hc]; decide) hp
  refine ⟨w1, w2, frm1, frm2, tbl', hwrite, he1, ?_, by rw [he2, he1], ?_, by rw [hd2, hd1], ?_, hlen, hfr⟩
  · rw [hread, hra]
    simp only [sdr_readTagOf, hdec]
  · rw [hs2, hs1, List.append_assoc]
    rfl
  · rw [hd1] at hH2
    exact hH2

/-- C18, driver level, write then read of a timer / counter preset or accumulator (`T4:e.PRE`, `.ACC`, `C5:e.PRE`,
    `.ACC`): the written 16-bit integer is what the read returns; in `tbl'` only the word `[6e + 2·sub, 6e + 2·sub + 2)`
    of that file changed (control word and the other one of PRE / ACC untouched). -/
theorem slc_write_then_read_ct_e2e (w : Cli.World Ext) (sess : Nat) (cidb : Bytes) (conn : Tgt.Conn) (tbl : Table)
    (t : Name) (a : Addr) (f : SlcFile) (x : Int)
    (hH : Lgx.Drv.ldr_Healthy w sess cidb conn) (htbl : w.net.target.ext.slc = some tbl)
    (hvid : w.drv.vid.length = 2) (hvsn : w.drv.vsn.length = 4) (hC : 500 ≤ conn.size)
    (hparse : parseTag t = some a) (hx : -32768 ≤ x ∧ x ≤ 32767)
    (hft : a.fileType = [84] ∨ a.fileType = [67]) (hsub : a.subElement = 1 ∨ a.subElement = 2)
    (hl : Located tbl a f) (hu : (tbl.filter (fun g => g.num == a.fileNumber)).length ≤ 1)
    (hin : 6 * a.element + 6 ≤ f.data.length) :
    ∃ w1 w2 frm1 frm2 tbl',
      slcWrite hookAll w [(t, .int x)] = (w1, .ok [{ tag := a.tag, value := .int x, type := a.fileType, error := none }]) ∧
      w1.net.target.ext = { w.net.target.ext with slc := some tbl' } ∧
      slcRead hookAll w1 [t] = (w2, .ok [{ tag := a.tag, value := .int x, type := a.fileType, error := none }]) ∧
      w2.net.target.ext = { w.net.target.ext with slc := some tbl' } ∧
      w2.net.sent = w.net.sent ++ [frm1, frm2] ∧
      Lgx.Drv.ldr_Healthy w2 sess cidb { conn with lastSeq := some w.drv.nextSeq.2.nextSeq.2.nextSeq.2.nextSeq.1 } ∧
      tbl'.length = tbl.length ∧
      ∀ (i : Nat) (g0 : SlcFile), tbl[i]? = some g0 → ∃ g, tbl'[i]? = some g ∧ g.num = g0.num ∧ g.ftype = g0.ftype ∧
        (g0.num ≠ a.fileNumber → g = g0) ∧
        (g0.num = a.fileNumber → g.data.length = g0.data.length ∧
          ∀ j, (j < 6 * a.element + 2 * a.subElement ∨ 6 * a.element + 2 * a.subElement + 2 ≤ j) →
            g.data[j]? = g0.data[j]?) := by
  have hr := parse_accepts_in_range t a hparse
  obtain ⟨_, hsz, _⟩ := slx_ctFiles hft
  obtain ⟨_, hc, _⟩ := hr.ct hft
  have hpos : a.posNumber = 0 := hr.pos (by rcases hft with h | h <;> simp [h]) (by rcases hft with h | h <;> simp [h])
  obtain ⟨tbl', hwa, ⟨data, hra, hdec⟩, hlen, hfr⟩ := write_read_ct_e2e tbl a f x hx hft hsub hr hl hu hin
  obtain ⟨w1, frm1, hwrite, hd1, hs1, he1, hH1⟩ := sdr_write_one w sess cidb conn tbl tbl' t a (.int x) hH htbl hvid hvsn
    hC hparse (fun b h => by cases h) (fun k h => by cases h) (by omega) hwa
  have htbl1 : w1.net.target.ext.slc = some tbl' := by rw [he1]
  obtain ⟨w2, frm2, hread, hd2, hs2, he2, hH2⟩ := sdr_read_one w1 sess cidb _ tbl' t a hH1 htbl1
    (by rw [hd1]; exact hvid) (by rw [hd1]; exact hvsn) (by show 64 ≤ conn.size; omega) hparse
    (by rw [hsz, hc]; decide) (by omega)
  refine ⟨w1, w2, frm1, frm2, tbl', hwrite, he1, ?_, by rw [he2, he1], ?_, ?_, hlen, hfr⟩
  · rw [hread, hra]
    simp only [sdr_readTagOf, hdec]
  · rw [hs2, hs1, List.append_assoc]
    rfl
  · rw [hd1] at hH2
    exact hH2

/-- C18, driver level: an address `parse_tag` rejects makes `read` raise RequestError; on a connected driver nothing is
    sent, no counter value is drawn, the world is untouched - whatever follows it in the call, for every target. -/
theorem slc_rejected_address_raises_read {σ : Type} (hook : ObjHook σ) (w : Cli.World σ) (t : Name) (rest : List Name)
    (hcon : w.drv.targetIsConnected = true) (hrej : parseTag t = none) :
    slcRead hook w (t :: rest) = (w, .error .request) := by
  unfold slcRead
  rw [sdr_FUEL, sdr_ensureFO_connected hook 7 w hcon]
  simp only [readTags, readTag, hrej]

/-- … and `write` likewise, whatever the value. -/
theorem slc_rejected_address_raises_write {σ : Type} (hook : ObjHook σ) (w : Cli.World σ) (t : Name) (v : PyVal)
    (rest : List (Name × PyVal)) (hcon : w.drv.targetIsConnected = true) (hrej : parseTag t = none) :
    slcWrite hook w ((t, v) :: rest) = (w, .error .request) := by
  unfold slcWrite
  rw [sdr_FUEL, sdr_ensureFO_connected hook 7 w hcon]
  simp only [writeTags, writeTag, hrej]

/-- … at any position of the call: the addresses in front of it are served (their requests were sent and answered),
    then RequestError escapes and nothing is sent for the rejected address or for those after it: the world is the one
    the served addresses left. -/
theorem slc_rejected_address_raises_later {σ : Type} (hook : ObjHook σ) (w w1 : Cli.World σ) (good : List Name)
    (tags : List STag) (t : Name) (rest : List Name) (hcon : w.drv.targetIsConnected = true)
    (hgood : slcRead hook w good = (w1, .ok tags)) (hrej : parseTag t = none) :
    slcRead hook w (good ++ t :: rest) = (w1, .error .request) := by
  unfold slcRead at hgood ⊢
  rw [sdr_FUEL, sdr_ensureFO_connected hook 7 w hcon] at hgood ⊢
  simp only at hgood ⊢
  clear hcon
  induction good generalizing w tags with
  | nil =>
    simp only [readTags] at hgood
    injection hgood with h1 _
    subst h1
    simp only [List.nil_append, readTags, readTag, hrej]
  | cons g gs ih =>
    simp only [List.cons_append, readTags] at hgood ⊢
    cases h1 : readTag hook w g with
    | mk wa ra =>
      rw [h1] at hgood
      simp only at hgood ⊢
      cases ra with
      | error e => simp only at hgood; injection hgood with _ h; cases h
      | ok tg =>
        simp only at hgood ⊢
        cases h2 : readTags hook wa gs with
        | mk wb rb =>
          rw [h2] at hgood
          simp only at hgood
          cases rb with
          | error e => simp only at hgood; injection hgood with _ h; cases h
          | ok tgs =>
            simp only at hgood
            injection hgood with hw _
            subst hw
            rw [ih wa tgs h2]

/-- out-of-range file / element / bit numbers and unknown file letters are such addresses (C18 `reject_*`): e.g. the
    word form with a file number outside 1..255 or an element above 255 -/
theorem slc_out_of_range_raises {σ : Type} (hook : ObjHook σ) (w : Cli.World σ) (c f e : Nat) (rest : List Name)
    (hcon : w.drv.targetIsConnected = true) (hc : IsLFBN c) (hf : f ≤ 999) (he : e ≤ 999)
    (hbad : f = 0 ∨ 255 < f ∨ 255 < e) :
    slcRead hook w (([c] ++ dec f ++ [58] ++ dec e) :: rest) = (w, .error .request) :=
  slc_rejected_address_raises_read hook w _ rest hcon (reject_out_of_range c f e hc hf he hbad)

/-! ### non-vacuity: a concrete data table behind a connection obtained by running the model -/

namespace Ex

def base : Base :=
  { identity := { vendor := 1, productType := 14, productCode := 1, major := 11, minor := 1, status := 0, serial := 1,
                  name := [], state := 3, ip := 0 }, plcName := [] }
/-- a fresh driver in front of a fresh target holding the example data table of SlcExt (N7, T4, S2, I1, F8, L9) -/
def world0 : Cli.World Ext := { drv := {}, net := { target := { base := base, ext := { slc := some exTable } } } }
/-- … after `open()` (register session) and the Forward Open of `with_forward_open`: the model is run -/
def world : Cli.World Ext :=
  (Cli.ensureForwardOpen hookAll Cli.FUEL (Cli.openDrv hookAll world0 [1, 2, 3, 4, 5, 6, 7, 8]).1).1
/-- the connection the target holds after the Forward Open -/
def conn : Tgt.Conn :=
  { cid := 12648430, toId := 67305985, session := 4097, size := 4000, large := true, serial := 1063, vendor := 4105,
    origSerial := 134678021, lastSeq := none, route := [32, 2, 36, 1] }

#guard world.drv.targetIsConnected && world.drv.session == some 4097 && world.drv.targetCid == some [238, 255, 192, 0]
#guard world.net.target.base.sessions == [4097] && world.net.target.base.conns == [conn]
#guard (match (slcRead hookAll world [nm "N7:1"]).2 with
        | .ok [t] => t.tag == nm "N7:1" && t.type == nm "N" && t.error.isNone && (match t.value with | .int (-1) => true | _ => false)
        | _ => false)
#guard (match (slcRead hookAll (slcWrite hookAll world [(nm "N7:2/2", .bool true)]).1 [nm "N7:2/2", nm "N7:2"]).2 with
        | .ok [t, u] => (match t.value, u.value with | .bool true, .int 12 => true | _, _ => false)
        | _ => false)
#guard (match (slcRead hookAll world [nm "N7:1", nm "N7:300"]).2 with | .error .request => true | _ => false)

private theorem healthy : Lgx.Drv.ldr_Healthy world 4097 [238, 255, 192, 0] conn :=
  ⟨by decide +kernel, by decide +kernel, by decide +kernel, by decide +kernel, by decide +kernel, by decide,
   by decide +kernel, by decide +kernel, by decide, by decide +kernel, by decide +kernel, by decide +kernel⟩

private theorem tbl : world.net.target.ext.slc = some exTable := by decide +kernel
private theorem vid : world.drv.vid.length = 2 := by decide +kernel
private theorem vsn : world.drv.vsn.length = 4 := by decide +kernel

def aN71 : Addr :=
  { fileType := nm "N", fileNumber := 7, element := 1, subElement := 0, addressField := 2, count := 1, tag := nm "N7:1" }
def aN722 : Addr :=
  { fileType := nm "N", fileNumber := 7, element := 2, subElement := 2, addressField := 3, count := 1, tag := nm "N7:2/2" }
def aT41acc : Addr :=
  { fileType := nm "T", fileNumber := 4, element := 1, subElement := 2, addressField := 3, count := 1, tag := nm "T4:1.ACC" }
def fN7 : SlcFile := ⟨7, 0x89, [0x34, 0x12, 0xFF, 0xFF, 0x08, 0x00]⟩
def fT4 : SlcFile := ⟨4, 0x86, [0x00, 0xA0, 100, 0, 42, 0,  0x00, 0x20, 0xE8, 0x03, 0x2C, 0x01]⟩

/-- every hypothesis of `slc_read_word_e2e` holds for the concrete world: `read("N7:1")` returns -1 -/
example : ∃ w' frm, slcRead hookAll world [nm "N7:1"] =
      (w', .ok [{ tag := nm "N7:1", value := .int (-1), type := nm "N", error := none }]) ∧
    w'.drv = world.drv.nextSeq.2.nextSeq.2 ∧ w'.net.sent = world.net.sent ++ [frm] ∧
    w'.net.target.ext = world.net.target.ext ∧
    Lgx.Drv.ldr_Healthy w' 4097 [238, 255, 192, 0] { conn with lastSeq := some world.drv.nextSeq.2.nextSeq.1 } :=
  slc_read_word_e2e world 4097 [238, 255, 192, 0] conn exTable (nm "N7:1") aN71 fN7 healthy tbl vid vsn (by decide)
    (by decide) (by decide) rfl rfl (by decide) ⟨by decide, by decide⟩ (by decide)

/-- … of `slc_read_bit_e2e`: `read("N7:2/2")` returns False (N7:2 = 8) -/
example : ∃ w' frm, slcRead hookAll world [nm "N7:2/2"] =
      (w', .ok [{ tag := nm "N7:2/2", value := .bool false, type := nm "N", error := none }]) ∧
    w'.drv = world.drv.nextSeq.2.nextSeq.2 ∧ w'.net.sent = world.net.sent ++ [frm] ∧
    w'.net.target.ext = world.net.target.ext ∧
    Lgx.Drv.ldr_Healthy w' 4097 [238, 255, 192, 0] { conn with lastSeq := some world.drv.nextSeq.2.nextSeq.1 } :=
  slc_read_bit_e2e world 4097 [238, 255, 192, 0] conn exTable (nm "N7:2/2") aN722 fN7 healthy tbl vid vsn (by decide)
    (by decide) (by decide) rfl rfl (by decide) ⟨by decide, by decide⟩ (by decide)

/-- … of `slc_read_ct_e2e`: `read("T4:1.ACC")` returns 300 -/
example : ∃ w' frm, slcRead hookAll world [nm "T4:1.ACC"] =
      (w', .ok [{ tag := nm "T4:1.ACC", value := .int 300, type := nm "T", error := none }]) ∧
    w'.drv = world.drv.nextSeq.2.nextSeq.2 ∧ w'.net.sent = world.net.sent ++ [frm] ∧
    w'.net.target.ext = world.net.target.ext ∧
    Lgx.Drv.ldr_Healthy w' 4097 [238, 255, 192, 0] { conn with lastSeq := some world.drv.nextSeq.2.nextSeq.1 } :=
  slc_read_ct_e2e world 4097 [238, 255, 192, 0] conn exTable (nm "T4:1.ACC") aT41acc fT4 healthy tbl vid vsn (by decide)
    (by decide) (by decide) ⟨by decide, by decide⟩ (by decide)

/-- … of `slc_read_count_e2e`: `read("N7:0{3}")` returns [0x1234, -1, 8] under the name `N7:0` -/
example : ∃ w' frm, slcRead hookAll world [nm "N7:0{3}"] =
      (w', .ok [{ tag := nm "N7:0", value := .list [.int 0x1234, .int (-1), .int 8], type := nm "N", error := none }]) ∧
    w'.drv = world.drv.nextSeq.2.nextSeq.2 ∧ w'.net.sent = world.net.sent ++ [frm] ∧
    w'.net.target.ext = world.net.target.ext ∧
    Lgx.Drv.ldr_Healthy w' 4097 [238, 255, 192, 0] { conn with lastSeq := some world.drv.nextSeq.2.nextSeq.1 } :=
  slc_read_count_e2e world 4097 [238, 255, 192, 0] conn exTable (nm "N7:0{3}")
    { fileType := nm "N", fileNumber := 7, element := 0, subElement := 0, addressField := 2, count := 3, tag := nm "N7:0" }
    fN7 healthy tbl vid vsn (by decide) (by decide) (by decide) rfl (by decide) (by decide) ⟨by decide, by decide⟩
    (by decide)

/-- … of `slc_read_refused_e2e`: `read("N7:3")` (one element beyond the 3-word file) gives the text of STS 0x50 -/
example : ∃ w' frm txt, slcRead hookAll world [nm "N7:3"] =
      (w', .ok [{ tag := nm "N7:3", value := .none, type := nm "N", error := some txt }]) ∧
    Status.lookupNat 0x50 Gen.pcccErrorCode = some txt ∧
    w'.net.sent = world.net.sent ++ [frm] ∧ w'.net.target.ext = world.net.target.ext ∧
    Lgx.Drv.ldr_Healthy w' 4097 [238, 255, 192, 0] { conn with lastSeq := some world.drv.nextSeq.2.nextSeq.1 } :=
  slc_read_refused_e2e world 4097 [238, 255, 192, 0] conn exTable (nm "N7:3")
    { fileType := nm "N", fileNumber := 7, element := 3, subElement := 0, addressField := 2, count := 1, tag := nm "N7:3" }
    0x50 healthy tbl vid vsn (by decide) (by decide) (by decide) (by decide) (by rfl)

/-- … of `slc_read_many_e2e`: `read("N7:1", "N7:3", "T4:1.ACC")` - the middle address lies beyond the file -
    returns [-1, falsy Tag, 300] and writes three frames -/
example : ∃ w' frames txt, slcRead hookAll world [nm "N7:1", nm "N7:3", nm "T4:1.ACC"] =
      (w', .ok [{ tag := nm "N7:1", value := .int (-1), type := nm "N", error := none },
                { tag := nm "N7:3", value := .none, type := nm "N", error := some txt },
                { tag := nm "T4:1.ACC", value := .int 300, type := nm "T", error := none }]) ∧
    w'.net.sent = world.net.sent ++ frames ∧ frames.length = 3 ∧ w'.net.target.ext = world.net.target.ext := by
  obtain ⟨w', frames, _, h1, h2, h3, h4, _⟩ := slc_read_many_e2e world 4097 [238, 255, 192, 0] conn exTable
    [(nm "N7:1", aN71),
     (nm "N7:3", { fileType := nm "N", fileNumber := 7, element := 3, subElement := 0, addressField := 2, count := 1,
                   tag := nm "N7:3" }),
     (nm "T4:1.ACC", aT41acc)] healthy tbl vid vsn (by decide)
    (by
      intro p hp
      simp only [List.mem_cons, List.not_mem_nil, or_false] at hp
      rcases hp with rfl | rfl | rfl <;> exact ⟨by decide, by decide, by decide⟩)
  exact ⟨w', frames, _, h1, h2, h3, h4⟩

/-- … of `slc_write_refused_e2e`: `write(("N7:3", 5))` (one element beyond the 3-word file) gives the text of STS 0x50,
    the table stays -/
example : ∃ w' txt, slcWrite hookAll world [(nm "N7:3", .int 5)] =
      (w', .ok [{ tag := nm "N7:3", value := .none, type := nm "N", error := some txt }]) ∧
    Status.lookupNat 0x50 Gen.pcccErrorCode = some txt ∧
    w'.net.target.ext = world.net.target.ext := by
  obtain ⟨w', frm, txt, h1, h2, _, _, h3, _⟩ := slc_write_refused_e2e world 4097 [238, 255, 192, 0] conn exTable (nm "N7:3")
    { fileType := nm "N", fileNumber := 7, element := 3, subElement := 0, addressField := 2, count := 1, tag := nm "N7:3" }
    (.int 5) 0x50 [0xFF, 0xFF, 5, 0] 2 healthy tbl vid vsn (by decide) (by decide) (fun b h => by cases h)
    (fun k h => by cases h) (by decide) (by rfl) (by decide) (by rfl) (by decide)
  exact ⟨w', txt, h1, h2, h3⟩

/-- … of `slc_write_one_e2e`: a float written to `F8:0` -/
example : ∃ w' tbl', slcWrite hookAll world [(nm "F8:0", .float 0x4004000000000000)] =
      (w', .ok [{ tag := nm "F8:0", value := .float 0x4004000000000000, type := nm "F", error := none }]) ∧
    w'.net.target.ext = { world.net.target.ext with slc := some tbl' } ∧ tbl'[4]? = some ⟨8, 0x8A, [0, 0, 0x20, 0x40]⟩ := by
  obtain ⟨w', frm, h1, _, _, h2, _⟩ := slc_write_one_e2e world 4097 [238, 255, 192, 0] conn exTable
    ((exTable.take 4) ++ [⟨8, 0x8A, [0, 0, 0x20, 0x40]⟩] ++ exTable.drop 5) (nm "F8:0")
    { fileType := nm "F", fileNumber := 8, element := 0, subElement := 0, addressField := 2, count := 1, tag := nm "F8:0" }
    (.float 0x4004000000000000) healthy tbl vid vsn (by decide) (by decide) (fun b h => by cases h)
    (fun k h => by cases h) (by decide) (by rfl)
  exact ⟨w', _, h1, h2, by rfl⟩

/-- … of `slc_write_then_read_word_e2e`: `write(("N7:1", -12345))`, then `read("N7:1")` returns -12345 -/
example : ∃ w1 w2 tbl',
    slcWrite hookAll world [(nm "N7:1", .int (-12345))] =
      (w1, .ok [{ tag := nm "N7:1", value := .int (-12345), type := nm "N", error := none }]) ∧
    w1.net.target.ext = { world.net.target.ext with slc := some tbl' } ∧
    slcRead hookAll w1 [nm "N7:1"] = (w2, .ok [{ tag := nm "N7:1", value := .int (-12345), type := nm "N", error := none }]) ∧
    tbl'.length = exTable.length := by
  obtain ⟨w1, w2, _, _, tbl', h1, h2, h3, _, _, _, _, h4, _⟩ :=
    slc_write_then_read_word_e2e world 4097 [238, 255, 192, 0] conn exTable (nm "N7:1") aN71 fN7 (-12345) healthy tbl vid
      vsn (by decide) (by decide) (by decide) (by decide) rfl rfl (by decide) ⟨by decide, by decide⟩ (by decide) (by decide)
  exact ⟨w1, w2, tbl', h1, h2, h3, h4⟩

/-- … of `slc_write_then_read_bit_e2e`: `write(("N7:2/2", True))`, then `read("N7:2/2")` returns True; in the table
    left behind bit 2 of N7:2 is set and bit 3 (set before) still is -/
example : ∃ (w1 w2 : Cli.World Ext) (tbl' : Table),
    slcWrite hookAll world [(nm "N7:2/2", .bool true)] =
      (w1, .ok [{ tag := nm "N7:2/2", value := .bool true, type := nm "N", error := none }]) ∧
    slcRead hookAll w1 [nm "N7:2/2"] = (w2, .ok [{ tag := nm "N7:2/2", value := .bool true, type := nm "N", error := none }]) ∧
    ∃ g : SlcFile, tbl'[0]? = some g ∧ wordBit (wordAt g.data 4) 2 = true ∧ wordBit (wordAt g.data 4) 3 = true := by
  obtain ⟨w1, w2, _, _, tbl', h1, _, h3, _, _, _, _, _, hfr⟩ :=
    slc_write_then_read_bit_e2e world 4097 [238, 255, 192, 0] conn exTable (nm "N7:2/2") aN722 fN7 (.bool true) healthy tbl
      vid vsn (by decide) (by decide) (fun b h => by cases h) (fun k h => by cases h) (by decide) rfl rfl (by decide)
      ⟨by decide, by decide⟩ (by decide) (by decide)
  obtain ⟨g, hg, _, _, _, hsame⟩ := hfr 0 fN7 (by decide)
  obtain ⟨_, _, hbits⟩ := hsame (by decide)
  refine ⟨w1, w2, tbl', h1, h3, g, hg, ?_, ?_⟩
  · have := hbits 2 (by decide)
    simpa [aN722, PyVal.truthy] using this
  · have := hbits 3 (by decide)
    have e : 2 * aN722.element + 2 * aN722.posNumber = 4 := by decide
    rw [e] at this
    rw [this]
    decide

/-- … of `slc_write_then_read_ct_e2e`: `write(("T4:1.ACC", 77))`, then `read("T4:1.ACC")` returns 77 -/
example : ∃ w1 w2,
    slcWrite hookAll world [(nm "T4:1.ACC", .int 77)] =
      (w1, .ok [{ tag := nm "T4:1.ACC", value := .int 77, type := nm "T", error := none }]) ∧
    slcRead hookAll w1 [nm "T4:1.ACC"] = (w2, .ok [{ tag := nm "T4:1.ACC", value := .int 77, type := nm "T", error := none }]) := by
  obtain ⟨w1, w2, _, _, _, h1, _, h3, _⟩ :=
    slc_write_then_read_ct_e2e world 4097 [238, 255, 192, 0] conn exTable (nm "T4:1.ACC") aT41acc fT4 77 healthy tbl vid
      vsn (by decide) (by decide) (by decide) (by decide) (by decide) ⟨by decide, by decide⟩ (by decide) (by decide)
  exact ⟨w1, w2, h1, h3⟩

/-- … of `slc_rejected_address_raises_*`: `N7:300`, `N0:1`, `Q2:1` are rejected; nothing is sent -/
example : slcRead hookAll world [nm "N7:300", nm "N7:1"] = (world, .error .request) :=
  slc_rejected_address_raises_read hookAll world _ _ healthy.connected (by decide)
example : slcWrite hookAll world [(nm "Q2:1", .int 1)] = (world, .error .request) :=
  slc_rejected_address_raises_write hookAll world _ _ _ healthy.connected (by decide)
example : slcRead hookAll world [[78] ++ dec 0 ++ [58] ++ dec 1] = (world, .error .request) :=
  slc_out_of_range_raises hookAll world 78 0 1 [] healthy.connected (by unfold IsLFBN; decide) (by decide) (by decide)
    (by decide)
example : ([78] ++ dec 0 ++ [58] ++ dec 1 : Name) = nm "N0:1" := by
  have h0 : dec 0 = [48] := by simp [dec, decRevS]
  have h1 : dec 1 = [49] := by simp [dec, decRevS]
  rw [h0, h1]; decide

-- STATEMENT NOTE: the bit theorems (`slc_write_then_read_bit_e2e`, table level `write_read_bit_e2e`) require
-- `a.count = 1`.  `parse_tag` also accepts the form `Xf:e/b{n}` (and `Bf/k{n}`) with n > 1.  Before the library repair
-- "fix: a bit address with an element count refuses the write", `writeable_value` packed the n values as whole words
-- under the single-bit mask 2^b, so writing `[True, True]` to `N7:1/3{2}` stored the words 1, 1 under mask 8: bit 3 of
-- N7:1 and of N7:2 was CLEARED while the Tag reported success (harness/slc_replays/bit-with-count-write.json).  The
-- repaired driver (and this model) refuses the request: `write` raises RequestError before anything is sent, the world is untouched.
example : slcWrite hookAll world [(nm "N7:1/3{2}", .list [.bool true, .bool true])] = (world, .error .request) := by rfl

end Ex

end Pycomm.Slc.Drv
